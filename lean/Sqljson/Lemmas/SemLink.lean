import Lean.Elab.Tactic
import Sqljson.Lemmas.Refine
import Sqljson.Lemmas.Total
/-!
# The trees the parser produces are in the image of `Sem.Path.toNode`

`Props/C01b.lean` proves that the executor refines the declarative semantics `Model/Sem.lean` for every
`p : Sem.Path` through the translation `Path.toNode`.  Property C01 is about "every path the parser
accepts".  This file links the two (`Props/C01c.lean` has the resulting statements about the entry points).

## the inverse of `toNode`
* `ofNode : Node → Option Sem.Path` (with `ofOpt`, `ofPred`, `ofPredO`, `ofSubs`; structural recursion over
  the `next` chain and the operands).
* `ofNode_toNode : ofNode n = some p → p.toNode = some n` — a right inverse;
  `ofNode_of_toNode : p.wf al → p.toNode = some n → ofNode n = some p` — and a left inverse on well-formed
  paths (`toNode` is not injective on all of `Sem.Path`: an empty `like_regex` operand, a range with an
  empty upper bound).
* `SemShape n := (ofNode n).isSome`; `wfNode n` := `ofNode n` is a path with `wf false` and `nonEmpty`.

## the trees of the grammar
* `Shape rx n` — the tight, decidable syntactic class of the trees the grammar actions build (`rx`: the
  `like_regex` patterns that may occur); `parse_ok_Shape : Parse.parse po bytes = .ok a → Shape po.regexAccepts a.root`,
  by the same induction over the sixteen grammar functions as `ParseWF.parse_ok_WF_cfg` (`Lemmas/Total.lean`),
  whose partial-correctness calculus `ParseWF.Sp` is reused.
* `noKeyvalue n` — no `.keyvalue()` in the tree: the only construct outside `Sem`.
* `shape_sem : Shape rx n → noKeyvalue n → ∃ p, ofNode n = some p ∧ ∀ al, lastDyn n al → existsOK n → p.wf al`.
* `parsed_in_sem`, `parsed_in_sem_iff`: an accepted tree is `toNode p` for some `p` iff it has no `.keyvalue()`.

## the two ways an accepted tree fails `Path.wf`
* `lastDyn n al` — the node mirror of the `al` argument of `Path.wf`; `lastDyn_eq`, `lastOK_eq`,
  `lastDyn_of_lastOK`: for a tree that obeys the parser's rule "`last` only inside a subscript"
  (`ParseLemmas.lastOK`), `lastDyn n false = !lastRebinding n`.
* `lastRebinding n` — a subscript step is followed, in its chain, by a `last` that is free in the rest of the
  chain: the executor rebinds it to the nested array.  `existsEndsInSign n` — an operand of `exists(…)` ends
  in a unary `+`/`-` (D8).
* `parsed_wf_sem`: accepted ∧ `noKeyvalue` ∧ ¬`lastRebinding` ∧ ¬`existsEndsInSign` → `wfNode a.root`.

## the regex oracle
`C01b` asks that *every* `like_regex` pattern compiles (`CbOK.regex`); for parsed paths the oracle's contract
(`C05b.OracleRegex`: accepted patterns compile) must do.
* `namespace Rx` — `execute_congr`, `existsRun_congr`, `queryWith_congr`, …: an oracle that `Extends` the
  given one yields the same run, provided that run did not panic (the proof of `Lemmas/Fuel.lean` part 1,
  with the sticky flag `panicked` in place of `oof`).
* `rxNode rx n`, `rxPath rx p`, `shape_rx`, `rxPath_toNode`, `query_rx`: `Sem.query` depends on the oracle only
  through the patterns of the path, and those of an accepted path are accepted ones.
-/

namespace Sqljson
namespace SemLink
open Sem

/-! ## the inverse of `toNode` -/

def constStep : Const → Step
  | .root => .root
  | .current => .current
  | .last => .last
  | .anyArray => .anyArray
  | .anyKey => .anyKey
  | .true_ => .lit (.bool true)
  | .false_ => .lit (.bool false)
  | .null => .lit .null

/-- `.keyvalue()` is not in `Sem` -/
def methodStep : Method → Option Step
  | .type => some .type
  | .size => some .size
  | .abs => some (.conv .abs)
  | .floor => some (.conv .floor)
  | .ceiling => some (.conv .ceiling)
  | .double => some (.conv .double)
  | .bigint => some (.conv .bigint)
  | .boolean => some (.conv .boolean)
  | .integer => some (.conv .integer)
  | .number => some (.conv .number)
  | .string => some (.conv .string)
  | .keyvalue => none

/-- the inverse of `Lit.node` -/
def litOf : Node → Option Lit
  | .const .null none => some .null
  | .const .true_ none => some (.bool true)
  | .const .false_ none => some (.bool false)
  | .integer i none => some (.int i)
  | .numeric x none => some (.num x)
  | .str s none => some (.str s)
  | _ => none

/-- an optional literal argument -/
def litOfO : Option Node → Option (Option Lit)
  | none => some none
  | some n => (litOf n).map some

/-- an optional integer literal argument (of `.decimal`) -/
def intOfO : Option Node → Option (Option Int)
  | none => some none
  | some (.integer i none) => some (some i)
  | some _ => none

def cmpOf : BinOp → Option CmpOp
  | .eq => some .eq | .ne => some .ne | .lt => some .lt | .gt => some .gt | .le => some .le | .ge => some .ge
  | _ => none

def arithOpOf : BinOp → Option ArithOp
  | .add => some .add | .sub => some .sub | .mul => some .mul | .div => some .div | .mod => some .mod
  | _ => none

def dtOf : UnOp → Option DtM
  | .datetime => some .datetime | .date => some .date | .time => some .time | .timeTZ => some .timeTZ
  | .timestamp => some .timestamp | .timestampTZ => some .timestampTZ
  | _ => none

def consO : Option Step → Option Path → Option Path
  | some s, some r => some (.cons s r)
  | _, _ => none

/-- the predicate of a binary node from the readings of its operands: `pl pr` as paths, `bl br` as
    predicate operands -/
def binPred (op : BinOp) (pl pr : Option Path) (bl br : Option Pred) : Option Pred :=
  match op with
  | .and => match bl, br with | some p, some q => some (.and p q) | _, _ => none
  | .or => match bl, br with | some p, some q => some (.or p q) | _, _ => none
  | .startsWith => match pl, pr with | some l, some r => some (.startsWith l r) | _, _ => none
  | op => match cmpOf op, pl, pr with | some c, some l, some r => some (.cmp c l r) | _, _, _ => none

/-- the step of a binary node -/
def binStep (op : BinOp) (l r : Option Node) (pl pr : Option Path) (bl br : Option Pred) : Option Step :=
  match op with
  | .decimal => match intOfO l, intOfO r with | some p, some s => some (.conv (.decimal p s)) | _, _ => none
  | .subscript => none
  | op =>
    match arithOpOf op with
    | some a => (match pl, pr with | some x, some y => some (.arith a x y) | _, _ => none)
    | none => (binPred op pl pr bl br).map .pred

def unPred (op : UnOp) (px : Option Path) (bx : Option Pred) : Option Pred :=
  match op with
  | .not => bx.map .not
  | .isUnknown => bx.map .isUnknown
  | .exists => px.map .exists
  | _ => none

def unStep (op : UnOp) (x : Option Node) (px : Option Path) (bx : Option Pred) : Option Step :=
  match op with
  | .plus => px.map (.unary .plus)
  | .minus => px.map (.unary .minus)
  | .filter => bx.map .filter
  | .not | .isUnknown | .exists => (unPred op px bx).map .pred
  | op => match dtOf op, litOfO x with | some m, some a => some (.datetime m a) | _, _ => none

mutual
  /-- the path whose translation is the chain that starts at `n` -/
  def ofNode : Node → Option Path
    | .const k nx => consO (some (constStep k)) (ofOpt nx)
    | .method m nx => consO (methodStep m) (ofOpt nx)
    | .str s nx => consO (some (.lit (.str s))) (ofOpt nx)
    | .var s nx => consO (some (.var s)) (ofOpt nx)
    | .key s nx => consO (some (.key s)) (ofOpt nx)
    | .numeric x nx => consO (some (.lit (.num x))) (ofOpt nx)
    | .integer i nx => consO (some (.lit (.int i))) (ofOpt nx)
    | .any a b nx => consO (some (.any a b)) (ofOpt nx)
    | .binary op l r nx => consO (binStep op l r (ofOpt l) (ofOpt r) (ofPredO l) (ofPredO r)) (ofOpt nx)
    | .unary op x nx => consO (unStep op x (ofOpt x) (ofPredO x)) (ofOpt nx)
    | .regex x p fl nx => consO ((ofNode x).map fun xp => .pred (.likeRegex xp p fl)) (ofOpt nx)
    | .arrayIndex subs nx => consO ((ofSubs subs).map .index) (ofOpt nx)
  /-- an optional chain: `none` is the empty path -/
  def ofOpt : Option Node → Option Path
    | none => some .nil
    | some n => ofNode n
  /-- the predicate of a boolean node (its `next` is not looked at) -/
  def ofPred : Node → Option Pred
    | .binary op l r _ => binPred op (ofOpt l) (ofOpt r) (ofPredO l) (ofPredO r)
    | .unary op x _ => unPred op (ofOpt x) (ofPredO x)
    | .regex x p fl _ => (ofNode x).map fun xp => .likeRegex xp p fl
    | _ => none
  /-- a predicate operand: present, with nothing chained to it -/
  def ofPredO : Option Node → Option Pred
    | none => none
    | some n => if n.next.isNone then ofPred n else none
  /-- a subscript list -/
  def ofSubs : List Node → Option Subs
    | [] => some .nil
    | .binary .subscript l none none :: rest =>
      (match ofOpt l, ofSubs rest with | some i, some s => some (.one i s) | _, _ => none)
    | .binary .subscript l (some r) none :: rest =>
      (match ofOpt l, ofNode r, ofSubs rest with | some lo, some hi, some s => some (.range lo hi s) | _, _, _ => none)
    | _ :: _ => none
end

/-- the tree is the translation of a path of the declarative semantics -/
def SemShape (n : Node) : Bool := (ofNode n).isSome

/-- … of a path that satisfies the side conditions of the refinement theorems (`C01b`) -/
def wfNode (n : Node) : Bool :=
  match ofNode n with
  | some p => p.wf false && p.nonEmpty
  | none => false

/-! ## `ofNode` is a right inverse of `toNode` -/

theorem consO_some {s : Option Step} {r : Option Path} {p : Path} (h : consO s r = some p) :
    ∃ s' r', s = some s' ∧ r = some r' ∧ p = .cons s' r' := by
  cases s <;> cases r <;> simp [consO] at h
  exact ⟨_, _, rfl, rfl, h.symm⟩

theorem constStep_toNode (k : Const) (nx : Option Node) : (constStep k).toNode nx = .const k nx := by
  cases k <;> rfl

theorem methodStep_toNode {m : Method} {s : Step} (h : methodStep m = some s) (nx : Option Node) :
    s.toNode nx = .method m nx := by
  cases m <;> simp [methodStep] at h <;> subst h <;> rfl

theorem litOf_node {n : Node} {l : Lit} (h : litOf n = some l) : l.node = n := by
  unfold litOf at h
  split at h <;> simp at h <;> subst h <;> rfl

theorem litOfO_node {x : Option Node} {a : Option Lit} (h : litOfO x = some a) : a.map Lit.node = x := by
  cases x with
  | none => simp [litOfO] at h; subst h; rfl
  | some n =>
    simp only [litOfO, Option.map_eq_some_iff] at h
    obtain ⟨l, hl, rfl⟩ := h
    simp [litOf_node hl]

theorem intOfO_node {x : Option Node} {a : Option Int} (h : intOfO x = some a) :
    a.map (fun i => Node.integer i none) = x := by
  unfold intOfO at h
  split at h <;> simp at h <;> subst h <;> rfl

theorem cmpOf_toBinOp {op : BinOp} {c : CmpOp} (h : cmpOf op = some c) : c.toBinOp = op := by
  cases op <;> simp [cmpOf] at h <;> subst h <;> rfl

theorem arithOpOf_toBinOp {op : BinOp} {c : ArithOp} (h : arithOpOf op = some c) : c.toBinOp = op := by
  cases op <;> simp [arithOpOf] at h <;> subst h <;> rfl

theorem dtOf_toUnOp {op : UnOp} {m : DtM} (h : dtOf op = some m) : m.toUnOp = op := by
  cases op <;> simp [dtOf] at h <;> subst h <;> rfl

/-- the reading of a binary node as a predicate is sound, given sound readings of its operands -/
theorem binPred_toNode {op : BinOp} {l r : Option Node} {pl pr : Option Path} {bl br : Option Pred} {q : Pred}
    (hpl : ∀ p, pl = some p → p.toNode = l) (hpr : ∀ p, pr = some p → p.toNode = r)
    (hbl : ∀ p, bl = some p → some (p.toNode none) = l) (hbr : ∀ p, br = some p → some (p.toNode none) = r)
    (h : binPred op pl pr bl br = some q) (nx : Option Node) : q.toNode nx = .binary op l r nx := by
  cases op
  case and =>
    cases bl <;> cases br <;> simp [binPred] at h
    subst h; simp [Pred.toNode, hbl _ rfl, hbr _ rfl]
  case or =>
    cases bl <;> cases br <;> simp [binPred] at h
    subst h; simp [Pred.toNode, hbl _ rfl, hbr _ rfl]
  case startsWith =>
    cases pl <;> cases pr <;> simp [binPred] at h
    subst h; simp [Pred.toNode, hpl _ rfl, hpr _ rfl]
  all_goals
    cases pl <;> cases pr <;> simp [binPred, cmpOf] at h
    try (subst h; simp [Pred.toNode, CmpOp.toBinOp, hpl _ rfl, hpr _ rfl])


theorem binStep_toNode {op : BinOp} {l r : Option Node} {pl pr : Option Path} {bl br : Option Pred} {s : Step}
    (hpl : ∀ p, pl = some p → p.toNode = l) (hpr : ∀ p, pr = some p → p.toNode = r)
    (hbl : ∀ p, bl = some p → some (p.toNode none) = l) (hbr : ∀ p, br = some p → some (p.toNode none) = r)
    (h : binStep op l r pl pr bl br = some s) (nx : Option Node) : s.toNode nx = .binary op l r nx := by
  have pred : ∀ q, binPred op pl pr bl br = some q → (Step.pred q).toNode nx = .binary op l r nx := fun q hq => by
    simp only [Step.toNode]; exact binPred_toNode hpl hpr hbl hbr hq nx
  cases op
  case decimal =>
    simp only [binStep] at h
    cases h1 : intOfO l <;> cases h2 : intOfO r <;> simp [h1, h2] at h
    subst h
    simp [Step.toNode, ConvM.node, intOfO_node h1, intOfO_node h2]
  case subscript => simp [binStep] at h
  case add | sub | mul | div | mod =>
    cases pl <;> cases pr <;> simp [binStep, arithOpOf] at h
    subst h; simp [Step.toNode, ArithOp.toBinOp, hpl _ rfl, hpr _ rfl]
  all_goals
    simp only [binStep, arithOpOf, Option.map_eq_some_iff] at h
    obtain ⟨q, hq, rfl⟩ := h
    exact pred q hq

theorem unPred_toNode {op : UnOp} {x : Option Node} {px : Option Path} {bx : Option Pred} {q : Pred}
    (hpx : ∀ p, px = some p → p.toNode = x) (hbx : ∀ p, bx = some p → some (p.toNode none) = x)
    (h : unPred op px bx = some q) (nx : Option Node) : q.toNode nx = .unary op x nx := by
  cases op <;> simp only [unPred, Option.map_eq_some_iff] at h <;> (try (cases h; done))
  all_goals
    obtain ⟨p, hp, rfl⟩ := h
    first | simp [Pred.toNode, hpx _ hp] | simp [Pred.toNode, hbx _ hp]

theorem unStep_toNode {op : UnOp} {x : Option Node} {px : Option Path} {bx : Option Pred} {s : Step}
    (hpx : ∀ p, px = some p → p.toNode = x) (hbx : ∀ p, bx = some p → some (p.toNode none) = x)
    (h : unStep op x px bx = some s) (nx : Option Node) : s.toNode nx = .unary op x nx := by
  cases op
  case plus | minus =>
    simp only [unStep, Option.map_eq_some_iff] at h
    obtain ⟨p, hp, rfl⟩ := h
    simp [Step.toNode, Sign.toUnOp, hpx _ hp]
  case filter =>
    simp only [unStep, Option.map_eq_some_iff] at h
    obtain ⟨p, hp, rfl⟩ := h
    simp [Step.toNode, hbx _ hp]
  case not | isUnknown | «exists» =>
    simp only [unStep, Option.map_eq_some_iff] at h
    obtain ⟨q, hq, rfl⟩ := h
    simp only [Step.toNode]; exact unPred_toNode hpx hbx hq nx
  all_goals
    simp only [unStep, dtOf] at h
    cases h1 : litOfO x <;> simp [h1] at h
    subst h
    simp [Step.toNode, DtM.toUnOp, litOfO_node h1]

mutual
  theorem ofNode_toNode : ∀ (n : Node) (p : Path), ofNode n = some p → p.toNode = some n
    | .const k nx, p, h => by
      obtain ⟨s, r, hs, hr, rfl⟩ := consO_some (by simpa [ofNode] using h)
      cases hs
      simp [Path.toNode, ofOpt_toNode nx r hr, constStep_toNode]
    | .method m nx, p, h => by
      obtain ⟨s, r, hs, hr, rfl⟩ := consO_some (by simpa [ofNode] using h)
      simp [Path.toNode, ofOpt_toNode nx r hr, methodStep_toNode hs]
    | .str t nx, p, h => by
      obtain ⟨s, r, hs, hr, rfl⟩ := consO_some (by simpa [ofNode] using h)
      cases hs
      simp [Path.toNode, ofOpt_toNode nx r hr, Step.toNode]
    | .var t nx, p, h => by
      obtain ⟨s, r, hs, hr, rfl⟩ := consO_some (by simpa [ofNode] using h)
      cases hs
      simp [Path.toNode, ofOpt_toNode nx r hr, Step.toNode]
    | .key t nx, p, h => by
      obtain ⟨s, r, hs, hr, rfl⟩ := consO_some (by simpa [ofNode] using h)
      cases hs
      simp [Path.toNode, ofOpt_toNode nx r hr, Step.toNode]
    | .numeric t nx, p, h => by
      obtain ⟨s, r, hs, hr, rfl⟩ := consO_some (by simpa [ofNode] using h)
      cases hs
      simp [Path.toNode, ofOpt_toNode nx r hr, Step.toNode]
    | .integer t nx, p, h => by
      obtain ⟨s, r, hs, hr, rfl⟩ := consO_some (by simpa [ofNode] using h)
      cases hs
      simp [Path.toNode, ofOpt_toNode nx r hr, Step.toNode]
    | .any a b nx, p, h => by
      obtain ⟨s, r, hs, hr, rfl⟩ := consO_some (by simpa [ofNode] using h)
      cases hs
      simp [Path.toNode, ofOpt_toNode nx r hr, Step.toNode]
    | .binary op l r nx, p, h => by
      obtain ⟨s, rest, hs, hr, rfl⟩ := consO_some (by simpa [ofNode] using h)
      simp only [Path.toNode, ofOpt_toNode nx rest hr]
      rw [binStep_toNode (ofOpt_toNode l) (ofOpt_toNode r) (ofPredO_toNode l) (ofPredO_toNode r) hs]
    | .unary op x nx, p, h => by
      obtain ⟨s, rest, hs, hr, rfl⟩ := consO_some (by simpa [ofNode] using h)
      simp only [Path.toNode, ofOpt_toNode nx rest hr]
      rw [unStep_toNode (ofOpt_toNode x) (ofPredO_toNode x) hs]
    | .regex x pat fl nx, p, h => by
      obtain ⟨s, rest, hs, hr, rfl⟩ := consO_some (by simpa [ofNode] using h)
      simp only [Option.map_eq_some_iff] at hs
      obtain ⟨xp, hx, rfl⟩ := hs
      simp [Path.toNode, ofOpt_toNode nx rest hr, Step.toNode, Pred.toNode, ofNode_toNode x xp hx]
    | .arrayIndex subs nx, p, h => by
      obtain ⟨s, rest, hs, hr, rfl⟩ := consO_some (by simpa [ofNode] using h)
      simp only [Option.map_eq_some_iff] at hs
      obtain ⟨ss, hss, rfl⟩ := hs
      simp [Path.toNode, ofOpt_toNode nx rest hr, Step.toNode, ofSubs_toNodes subs ss hss]
  theorem ofOpt_toNode : ∀ (o : Option Node) (p : Path), ofOpt o = some p → p.toNode = o
    | none, p, h => by simp [ofOpt] at h; subst h; rfl
    | some n, p, h => ofNode_toNode n p (by simpa [ofOpt] using h)
  theorem ofPred_toNode : ∀ (n : Node) (q : Pred), ofPred n = some q → q.toNode n.next = n
    | .binary op l r nx, q, h => by
      simp only [ofPred] at h
      exact binPred_toNode (ofOpt_toNode l) (ofOpt_toNode r) (ofPredO_toNode l) (ofPredO_toNode r) h nx
    | .unary op x nx, q, h => by
      simp only [ofPred] at h
      exact unPred_toNode (ofOpt_toNode x) (ofPredO_toNode x) h nx
    | .regex x pat fl nx, q, h => by
      simp only [ofPred, Option.map_eq_some_iff] at h
      obtain ⟨xp, hx, rfl⟩ := h
      simp [Pred.toNode, Node.next, ofNode_toNode x xp hx]
    | .const .., _, h => by simp [ofPred] at h
    | .method .., _, h => by simp [ofPred] at h
    | .str .., _, h => by simp [ofPred] at h
    | .var .., _, h => by simp [ofPred] at h
    | .key .., _, h => by simp [ofPred] at h
    | .numeric .., _, h => by simp [ofPred] at h
    | .integer .., _, h => by simp [ofPred] at h
    | .any .., _, h => by simp [ofPred] at h
    | .arrayIndex .., _, h => by simp [ofPred] at h
  theorem ofPredO_toNode : ∀ (o : Option Node) (q : Pred), ofPredO o = some q → some (q.toNode none) = o
    | none, _, h => by simp [ofPredO] at h
    | some n, q, h => by
      simp only [ofPredO] at h
      split at h
      · rename_i hn
        have := ofPred_toNode n q h
        have hn' : n.next = none := by simpa using hn
        rw [hn'] at this
        rw [this]
      · cases h
  theorem ofSubs_toNodes : ∀ (l : List Node) (s : Subs), ofSubs l = some s → s.toNodes = l
    | [], s, h => by simp [ofSubs] at h; subst h; rfl
    | .binary op l r nx :: rest, s, h => by
      cases op <;> cases r <;> cases nx <;> simp only [ofSubs] at h <;> (try (cases h; done))
      · cases h1 : ofOpt l <;> cases h2 : ofSubs rest <;> simp [h1, h2] at h
        subst h
        simp [Subs.toNodes, ofOpt_toNode l _ h1, ofSubs_toNodes rest _ h2]
      · rename_i rn
        cases h1 : ofOpt l <;> cases h3 : ofNode rn <;> cases h2 : ofSubs rest <;> simp [h1, h2, h3] at h
        subst h
        simp [Subs.toNodes, ofOpt_toNode l _ h1, ofNode_toNode rn _ h3, ofSubs_toNodes rest _ h2]
    | .const .. :: _, _, h => by simp [ofSubs] at h
    | .method .. :: _, _, h => by simp [ofSubs] at h
    | .str .. :: _, _, h => by simp [ofSubs] at h
    | .var .. :: _, _, h => by simp [ofSubs] at h
    | .key .. :: _, _, h => by simp [ofSubs] at h
    | .numeric .. :: _, _, h => by simp [ofSubs] at h
    | .integer .. :: _, _, h => by simp [ofSubs] at h
    | .any .. :: _, _, h => by simp [ofSubs] at h
    | .unary .. :: _, _, h => by simp [ofSubs] at h
    | .regex .. :: _, _, h => by simp [ofSubs] at h
    | .arrayIndex .. :: _, _, h => by simp [ofSubs] at h
end

open Sqljson.Exec (isMathBinOp isBoolBinOp isDateTimeOp isCompareOp)
open Sqljson.Exec.Total (isConn isPredOp)

/-! ## the syntactic class of the trees the grammar builds -/

/-- an integer literal with nothing chained to it -/
def isIntLit : Node → Bool
  | .integer _ none => true
  | _ => false

/-- an optional argument of `.decimal()` -/
def isIntLitO : Option Node → Bool
  | none => true
  | some n => isIntLit n

/-- an optional literal argument of a datetime method -/
def isLitO (x : Option Node) : Bool := (litOfO x).isSome

/-- a binary node in boolean position, from the classes of its operands (`sl sr`: an operand chain is
    present; `bl br`: a boolean operand with nothing chained to it is present) -/
def binBOK (op : BinOp) (sl sr bl br : Bool) : Bool :=
  if isConn op then bl && br else isPredOp op && sl && sr

/-- a binary node in item position -/
def binOK (op : BinOp) (l r : Option Node) (sl sr bl br : Bool) : Bool :=
  if isConn op || isPredOp op then binBOK op sl sr bl br
  else if isMathBinOp op then sl && sr
  else op == .decimal && isIntLitO l && isIntLitO r

/-- a unary node in boolean position -/
def unBOK (op : UnOp) (sx bx : Bool) : Bool :=
  match op with
  | .not | .isUnknown => bx
  | .exists => sx
  | _ => false

/-- a unary node in item position (the remaining operators are the six datetime methods) -/
def unOK (op : UnOp) (x : Option Node) (sx bx : Bool) : Bool :=
  match op with
  | .not | .isUnknown | .filter => bx
  | .exists | .plus | .minus => sx
  | _ => isLitO x

mutual
  /-- **the trees of the grammar**: a node in item position with the chain that follows it.  Operands of
      comparisons, `starts with`, `like_regex`, `exists`, arithmetic and signs are present chains; operands
      of `&&`, `||`, `!`, `is unknown` and filter conditions are boolean nodes (`ShapeB`) with nothing
      chained to them; the arguments of `.decimal()` are integer literals, the argument of a datetime
      method is a literal; the members of `[…]` are `subscript` nodes with a `from`, and `subscript`
      occurs nowhere else. -/
  def Shape (rx : List Char → Nat → Bool) : Node → Bool
    | .const _ nx => ShapeO rx nx
    | .method _ nx => ShapeO rx nx
    | .str _ nx => ShapeO rx nx
    | .var _ nx => ShapeO rx nx
    | .key _ nx => ShapeO rx nx
    | .numeric _ nx => ShapeO rx nx
    | .integer _ nx => ShapeO rx nx
    | .any _ _ nx => ShapeO rx nx
    | .binary op l r nx => binOK op l r (ShapeS rx l) (ShapeS rx r) (ShapeBO rx l) (ShapeBO rx r) && ShapeO rx nx
    | .unary op x nx => unOK op x (ShapeS rx x) (ShapeBO rx x) && ShapeO rx nx
    | .regex x p fl nx => rx p fl && Shape rx x && ShapeO rx nx
    | .arrayIndex subs nx => ShapeL rx subs && ShapeO rx nx
  /-- a node in boolean position (its own `next` is not looked at) -/
  def ShapeB (rx : List Char → Nat → Bool) : Node → Bool
    | .binary op l r _ => binBOK op (ShapeS rx l) (ShapeS rx r) (ShapeBO rx l) (ShapeBO rx r)
    | .unary op x _ => unBOK op (ShapeS rx x) (ShapeBO rx x)
    | .regex x p fl _ => rx p fl && Shape rx x
    | _ => false
  /-- what follows in a chain -/
  def ShapeO (rx : List Char → Nat → Bool) : Option Node → Bool
    | none => true
    | some n => Shape rx n
  /-- an operand chain: present -/
  def ShapeS (rx : List Char → Nat → Bool) : Option Node → Bool
    | none => false
    | some n => Shape rx n
  /-- a boolean operand: present, nothing chained to it -/
  def ShapeBO (rx : List Char → Nat → Bool) : Option Node → Bool
    | none => false
    | some n => ShapeB rx n && n.next.isNone
  /-- the members of `[…]` -/
  def ShapeL (rx : List Char → Nat → Bool) : List Node → Bool
    | [] => true
    | .binary .subscript l r none :: rest => ShapeS rx l && ShapeO rx r && ShapeL rx rest
    | _ :: _ => false
end

variable {rx : List Char → Nat → Bool}

mutual
  /-- no `.keyvalue()` anywhere in the tree -/
  def noKeyvalue : Node → Bool
    | .method m nx => m != .keyvalue && noKeyvalueO nx
    | .const _ nx => noKeyvalueO nx
    | .str _ nx => noKeyvalueO nx
    | .var _ nx => noKeyvalueO nx
    | .key _ nx => noKeyvalueO nx
    | .numeric _ nx => noKeyvalueO nx
    | .integer _ nx => noKeyvalueO nx
    | .any _ _ nx => noKeyvalueO nx
    | .binary _ l r nx => noKeyvalueO l && noKeyvalueO r && noKeyvalueO nx
    | .unary _ x nx => noKeyvalueO x && noKeyvalueO nx
    | .regex x _ _ nx => noKeyvalue x && noKeyvalueO nx
    | .arrayIndex subs nx => noKeyvalueL subs && noKeyvalueO nx
  def noKeyvalueO : Option Node → Bool
    | none => true
    | some n => noKeyvalue n
  def noKeyvalueL : List Node → Bool
    | [] => true
    | n :: ns => noKeyvalue n && noKeyvalueL ns
end

mutual
  /-- `last` is used only where the executor binds it to the array the *lexically* enclosing subscript
      applies to: `al` = "`last` may occur here".  Inside a subscript expression it may, but not in the
      steps that follow a (nested) subscript in the same chain, nor in their operands and filters: there
      the executor has rebound `last` to the inner array.  (The node mirror of the `al` argument of
      `Sem.Path.wf`.) -/
  def lastDyn : Node → Bool → Bool
    | .const k nx, al => (k != .last || al) && lastDynO nx al
    | .method _ nx, al => lastDynO nx al
    | .str _ nx, al => lastDynO nx al
    | .var _ nx, al => lastDynO nx al
    | .key _ nx, al => lastDynO nx al
    | .numeric _ nx, al => lastDynO nx al
    | .integer _ nx, al => lastDynO nx al
    | .any _ _ nx, al => lastDynO nx al
    | .binary _ l r nx, al => lastDynO l al && lastDynO r al && lastDynO nx al
    | .unary _ x nx, al => lastDynO x al && lastDynO nx al
    | .regex x _ _ nx, al => lastDyn x al && lastDynO nx al
    | .arrayIndex subs nx, _ => lastDynL subs && lastDynO nx false
  def lastDynO : Option Node → Bool → Bool
    | none, _ => true
    | some n, al => lastDyn n al
  def lastDynL : List Node → Bool
    | [] => true
    | n :: ns => lastDyn n true && lastDynL ns
end

mutual
  /-- no operand of `exists(…)` ends in a unary `+`/`-` (D8) -/
  def existsOK : Node → Bool
    | .const _ nx => existsOKO nx
    | .method _ nx => existsOKO nx
    | .str _ nx => existsOKO nx
    | .var _ nx => existsOKO nx
    | .key _ nx => existsOKO nx
    | .numeric _ nx => existsOKO nx
    | .integer _ nx => existsOKO nx
    | .any _ _ nx => existsOKO nx
    | .binary _ l r nx => existsOKO l && existsOKO r && existsOKO nx
    | .unary op x nx => (op != .exists || Exec.Probe.spineOKO x) && existsOKO x && existsOKO nx
    | .regex x _ _ nx => existsOK x && existsOKO nx
    | .arrayIndex subs nx => existsOKL subs && existsOKO nx
  def existsOKO : Option Node → Bool
    | none => true
    | some n => existsOK n
  def existsOKL : List Node → Bool
    | [] => true
    | n :: ns => existsOK n && existsOKL ns
end

/-! ## a tree of the grammar without `.keyvalue()` is the translation of a well-formed path -/

theorem ofNode_nonEmpty {n : Node} {p : Path} (h : ofNode n = some p) : p.nonEmpty = true := by
  have : ∃ s r, ofNode n = consO s r := by cases n <;> exact ⟨_, _, rfl⟩
  obtain ⟨s, r, hsr⟩ := this
  rw [hsr] at h
  obtain ⟨_, _, _, _, rfl⟩ := consO_some h
  rfl

/-- the converse of `Exec.Refine.spineOK_path` -/
theorem spineOK_of_toNode : ∀ p : Path, Exec.Probe.spineOKO p.toNode = true → p.spineOK = true
  | .nil, _ => rfl
  | .cons st rest, h => by
    by_cases hu : ∃ sg x, st = .unary sg x
    · obtain ⟨sg, x, rfl⟩ := hu
      cases rest with
      | nil =>
        cases sg <;>
          simp [Path.toNode, Step.toNode, Exec.Probe.spineOKO, Exec.Probe.spineOK, Exec.Probe.isUMath, Sign.toUnOp] at h
      | cons st' rest' =>
        have h' : Exec.Probe.spineOKO (Path.cons st' rest').toNode = true := by
          simp only [Path.toNode, Step.toNode, Exec.Probe.spineOKO, Exec.Probe.spineOK, Bool.and_eq_true] at h ⊢
          exact h.2
        simpa [Path.spineOK] using spineOK_of_toNode _ h'
    · have hu' : ∀ sg x, st ≠ .unary sg x := fun sg x h' => hu ⟨sg, x, h'⟩
      have h' : Exec.Probe.spineOKO rest.toNode = true := by
        simpa only [Path.toNode, Exec.Probe.spineOKO, Exec.Refine.spineOK_step st _ hu'] using h
      have ih := spineOK_of_toNode rest h'
      cases st <;> first | (simpa [Path.spineOK] using ih) | exact absurd rfl (hu' _ _)

/-- what is known of an operand chain -/
def RS (rx : List Char → Nat → Bool) (o : Option Node) : Prop :=
  ShapeS rx o = true → noKeyvalueO o = true →
    ∃ p, ofOpt o = some p ∧ p.nonEmpty = true ∧
      ∀ al, lastDynO o al = true → existsOKO o = true → p.wf al = true

/-- what is known of a boolean operand -/
def RB (rx : List Char → Nat → Bool) (o : Option Node) : Prop :=
  ShapeBO rx o = true → noKeyvalueO o = true →
    ∃ q, ofPredO o = some q ∧ ∀ al, lastDynO o al = true → existsOKO o = true → q.wf al = true

theorem binPred_sem {op : BinOp} {l r : Option Node} (hl : RS rx l) (hr : RS rx r) (bl : RB rx l) (br : RB rx r)
    (h : binBOK op (ShapeS rx l) (ShapeS rx r) (ShapeBO rx l) (ShapeBO rx r) = true)
    (kl : noKeyvalueO l = true) (kr : noKeyvalueO r = true) :
    ∃ q, binPred op (ofOpt l) (ofOpt r) (ofPredO l) (ofPredO r) = some q ∧
      ∀ al, lastDynO l al = true → lastDynO r al = true → existsOKO l = true → existsOKO r = true →
        q.wf al = true := by
  cases op <;> simp [binBOK, isConn, isPredOp] at h
  case and | or =>
    obtain ⟨ql, e1, w1⟩ := bl h.1 kl
    obtain ⟨qr, e2, w2⟩ := br h.2 kr
    exact ⟨_, by simp [binPred, e1, e2]; rfl, fun al a1 a2 a3 a4 => by simp [Pred.wf, w1 al a1 a3, w2 al a2 a4]⟩
  all_goals
    obtain ⟨pl, e1, n1, w1⟩ := hl h.1 kl
    obtain ⟨pr, e2, n2, w2⟩ := hr h.2 kr
    exact ⟨_, by simp [binPred, cmpOf, e1, e2]; rfl,
      fun al a1 a2 a3 a4 => by simp [Pred.wf, n1, n2, w1 al a1 a3, w2 al a2 a4]⟩

theorem intOfO_of_isIntLitO {o : Option Node} (h : isIntLitO o = true) : ∃ a, intOfO o = some a := by
  cases o with
  | none => exact ⟨none, rfl⟩
  | some n =>
    cases n <;> simp [isIntLitO, isIntLit] at h
    rename_i i nx
    cases nx <;> simp at h
    exact ⟨some i, rfl⟩

theorem binStep_sem {op : BinOp} {l r : Option Node} (hl : RS rx l) (hr : RS rx r) (bl : RB rx l) (br : RB rx r)
    (h : binOK op l r (ShapeS rx l) (ShapeS rx r) (ShapeBO rx l) (ShapeBO rx r) = true)
    (kl : noKeyvalueO l = true) (kr : noKeyvalueO r = true) :
    ∃ s, binStep op l r (ofOpt l) (ofOpt r) (ofPredO l) (ofPredO r) = some s ∧ s.isIndex = false ∧
      ∀ al, lastDynO l al = true → lastDynO r al = true → existsOKO l = true → existsOKO r = true →
        s.wf al = true := by
  have pred : (isConn op || isPredOp op) = true → isMathBinOp op = false → op ≠ .decimal → op ≠ .subscript →
      ∃ s, binStep op l r (ofOpt l) (ofOpt r) (ofPredO l) (ofPredO r) = some s ∧ s.isIndex = false ∧
        ∀ al, lastDynO l al = true → lastDynO r al = true → existsOKO l = true → existsOKO r = true →
          s.wf al = true := fun hc hm hd hs => by
    have h' : binBOK op (ShapeS rx l) (ShapeS rx r) (ShapeBO rx l) (ShapeBO rx r) = true := by
      simpa [binOK, hc] using h
    obtain ⟨q, e, w⟩ := binPred_sem hl hr bl br h' kl kr
    refine ⟨.pred q, ?_, rfl, fun al a1 a2 a3 a4 => by simpa [Step.wf] using w al a1 a2 a3 a4⟩
    cases op <;> simp_all [binStep, arithOpOf, isMathBinOp]
  cases op
  case decimal =>
    simp [binOK, isConn, isPredOp, isMathBinOp] at h
    obtain ⟨a, ha⟩ := intOfO_of_isIntLitO h.1
    obtain ⟨b, hb⟩ := intOfO_of_isIntLitO h.2
    exact ⟨_, by simp [binStep, ha, hb]; rfl, rfl, fun _ _ _ _ _ => rfl⟩
  case subscript => simp [binOK, isConn, isPredOp, isMathBinOp] at h
  case add | sub | mul | div | mod =>
    simp [binOK, isConn, isPredOp, isMathBinOp] at h
    obtain ⟨pl, e1, n1, w1⟩ := hl h.1 kl
    obtain ⟨pr, e2, n2, w2⟩ := hr h.2 kr
    exact ⟨_, by simp [binStep, arithOpOf, e1, e2]; rfl, rfl,
      fun al a1 a2 a3 a4 => by simp [Step.wf, n1, n2, w1 al a1 a3, w2 al a2 a4]⟩
  all_goals exact pred rfl rfl (by simp) (by simp)

theorem unPred_sem {op : UnOp} {x : Option Node} (hx : RS rx x) (bx : RB rx x)
    (h : unBOK op (ShapeS rx x) (ShapeBO rx x) = true) (kx : noKeyvalueO x = true) :
    ∃ q, unPred op (ofOpt x) (ofPredO x) = some q ∧
      ∀ al, lastDynO x al = true → existsOKO x = true → (op != .exists || Exec.Probe.spineOKO x) = true →
        q.wf al = true := by
  cases op <;> simp [unBOK] at h
  case not | isUnknown =>
    obtain ⟨q, e, w⟩ := bx h kx
    exact ⟨_, by simp [unPred, e]; rfl, fun al a1 a2 _ => by simp [Pred.wf, w al a1 a2]⟩
  case «exists» =>
    obtain ⟨p, e, n, w⟩ := hx h kx
    refine ⟨_, by simp [unPred, e]; rfl, fun al a1 a2 a3 => ?_⟩
    have hsp : p.spineOK = true := by
      apply spineOK_of_toNode
      rw [ofOpt_toNode x p e]
      simpa using a3
    simp [Pred.wf, n, w al a1 a2, hsp]

theorem litOfO_of_isLitO {o : Option Node} (h : isLitO o = true) : ∃ a, litOfO o = some a := by
  unfold isLitO at h
  cases hl : litOfO o with
  | none => simp [hl] at h
  | some a => exact ⟨a, rfl⟩

theorem unStep_sem {op : UnOp} {x : Option Node} (hx : RS rx x) (bx : RB rx x)
    (h : unOK op x (ShapeS rx x) (ShapeBO rx x) = true) (kx : noKeyvalueO x = true) :
    ∃ s, unStep op x (ofOpt x) (ofPredO x) = some s ∧ s.isIndex = false ∧
      ∀ al, lastDynO x al = true → existsOKO x = true → (op != .exists || Exec.Probe.spineOKO x) = true →
        s.wf al = true := by
  cases op
  case not =>
    obtain ⟨q, e, w⟩ := unPred_sem (op := .not) hx bx (by simpa [unOK, unBOK] using h) kx
    exact ⟨.pred q, by simp [unStep, e], rfl, fun al a1 a2 a3 => by simpa [Step.wf] using w al a1 a2 a3⟩
  case isUnknown =>
    obtain ⟨q, e, w⟩ := unPred_sem (op := .isUnknown) hx bx (by simpa [unOK, unBOK] using h) kx
    exact ⟨.pred q, by simp [unStep, e], rfl, fun al a1 a2 a3 => by simpa [Step.wf] using w al a1 a2 a3⟩
  case «exists» =>
    obtain ⟨q, e, w⟩ := unPred_sem (op := .«exists») hx bx (by simpa [unOK, unBOK] using h) kx
    exact ⟨.pred q, by simp [unStep, e], rfl, fun al a1 a2 a3 => by simpa [Step.wf] using w al a1 a2 a3⟩
  case filter =>
    obtain ⟨q, e, w⟩ := bx (by simpa [unOK] using h) kx
    exact ⟨_, by simp [unStep, e]; rfl, rfl, fun al a1 a2 _ => by simp [Step.wf, w al a1 a2]⟩
  case plus | minus =>
    obtain ⟨p, e, n, w⟩ := hx (by simpa [unOK] using h) kx
    exact ⟨_, by simp [unStep, e]; rfl, rfl, fun al a1 a2 _ => by simp [Step.wf, n, w al a1 a2]⟩
  all_goals
    obtain ⟨a, ha⟩ := litOfO_of_isLitO (by simpa [unOK] using h)
    exact ⟨_, by simp [unStep, dtOf, ha]; rfl, rfl, fun _ _ _ _ => rfl⟩

/-- assembling a chain from its first step and the rest -/
theorem cons_wf {s : Step} {rest : Path} {al : Bool} (hi : s.isIndex = false) (hs : s.wf al = true)
    (hr : rest.wf al = true) : (Path.cons s rest).wf al = true := by
  simp [Path.wf, hs, hi, hr]

mutual
  theorem shape_sem : ∀ n : Node, Shape rx n = true → noKeyvalue n = true →
      ∃ p, ofNode n = some p ∧ ∀ al, lastDyn n al = true → existsOK n = true → p.wf al = true
    | .const k nx, hS, hK => by
      obtain ⟨rest, e, w⟩ := shapeO_sem nx (by simpa [Shape] using hS) (by simpa [noKeyvalue] using hK)
      refine ⟨.cons (constStep k) rest, by simp [ofNode, e, consO], fun al hl he => ?_⟩
      simp only [lastDyn, existsOK, Bool.and_eq_true] at hl he
      refine cons_wf (by cases k <;> rfl) ?_ (w al hl.2 he)
      cases k <;> simp_all [constStep, Step.wf]
    | .method m nx, hS, hK => by
      simp only [noKeyvalue, Bool.and_eq_true] at hK
      obtain ⟨rest, e, w⟩ := shapeO_sem nx (by simpa [Shape] using hS) hK.2
      have : ∃ s, methodStep m = some s ∧ s.isIndex = false ∧ ∀ al, s.wf al = true := by
        cases m <;> first | exact ⟨_, rfl, rfl, fun _ => rfl⟩ | simp at hK
      obtain ⟨s, hs, hi, hw⟩ := this
      exact ⟨.cons s rest, by simp [ofNode, e, hs, consO], fun al hl he =>
        cons_wf hi (hw al) (w al (by simpa [lastDyn] using hl) (by simpa [existsOK] using he))⟩
    | .str t nx, hS, hK => by
      obtain ⟨rest, e, w⟩ := shapeO_sem nx (by simpa [Shape] using hS) (by simpa [noKeyvalue] using hK)
      exact ⟨_, by simp [ofNode, e, consO]; rfl, fun al hl he =>
        cons_wf rfl rfl (w al (by simpa [lastDyn] using hl) (by simpa [existsOK] using he))⟩
    | .var t nx, hS, hK => by
      obtain ⟨rest, e, w⟩ := shapeO_sem nx (by simpa [Shape] using hS) (by simpa [noKeyvalue] using hK)
      exact ⟨_, by simp [ofNode, e, consO]; rfl, fun al hl he =>
        cons_wf rfl rfl (w al (by simpa [lastDyn] using hl) (by simpa [existsOK] using he))⟩
    | .key t nx, hS, hK => by
      obtain ⟨rest, e, w⟩ := shapeO_sem nx (by simpa [Shape] using hS) (by simpa [noKeyvalue] using hK)
      exact ⟨_, by simp [ofNode, e, consO]; rfl, fun al hl he =>
        cons_wf rfl rfl (w al (by simpa [lastDyn] using hl) (by simpa [existsOK] using he))⟩
    | .numeric t nx, hS, hK => by
      obtain ⟨rest, e, w⟩ := shapeO_sem nx (by simpa [Shape] using hS) (by simpa [noKeyvalue] using hK)
      exact ⟨_, by simp [ofNode, e, consO]; rfl, fun al hl he =>
        cons_wf rfl rfl (w al (by simpa [lastDyn] using hl) (by simpa [existsOK] using he))⟩
    | .integer t nx, hS, hK => by
      obtain ⟨rest, e, w⟩ := shapeO_sem nx (by simpa [Shape] using hS) (by simpa [noKeyvalue] using hK)
      exact ⟨_, by simp [ofNode, e, consO]; rfl, fun al hl he =>
        cons_wf rfl rfl (w al (by simpa [lastDyn] using hl) (by simpa [existsOK] using he))⟩
    | .any a b nx, hS, hK => by
      obtain ⟨rest, e, w⟩ := shapeO_sem nx (by simpa [Shape] using hS) (by simpa [noKeyvalue] using hK)
      exact ⟨_, by simp [ofNode, e, consO]; rfl, fun al hl he =>
        cons_wf rfl rfl (w al (by simpa [lastDyn] using hl) (by simpa [existsOK] using he))⟩
    | .binary op l r nx, hS, hK => by
      simp only [Shape, noKeyvalue, Bool.and_eq_true] at hS hK
      obtain ⟨rest, e, w⟩ := shapeO_sem nx hS.2 hK.2
      obtain ⟨s, es, hi, ws⟩ := binStep_sem (shapeS_sem l) (shapeS_sem r) (shapeBO_sem l) (shapeBO_sem r)
        hS.1 hK.1.1 hK.1.2
      refine ⟨.cons s rest, by simp [ofNode, e, es, consO], fun al hl he => ?_⟩
      simp only [lastDyn, existsOK, Bool.and_eq_true] at hl he
      exact cons_wf hi (ws al hl.1.1 hl.1.2 he.1.1 he.1.2) (w al hl.2 he.2)
    | .unary op x nx, hS, hK => by
      simp only [Shape, noKeyvalue, Bool.and_eq_true] at hS hK
      obtain ⟨rest, e, w⟩ := shapeO_sem nx hS.2 hK.2
      obtain ⟨s, es, hi, ws⟩ := unStep_sem (shapeS_sem x) (shapeBO_sem x) hS.1 hK.1
      refine ⟨.cons s rest, by simp [ofNode, e, es, consO], fun al hl he => ?_⟩
      simp only [lastDyn, existsOK, Bool.and_eq_true] at hl he
      exact cons_wf hi (ws al hl.1 he.1.2 he.1.1) (w al hl.2 he.2)
    | .regex x pat fl nx, hS, hK => by
      simp only [Shape, noKeyvalue, Bool.and_eq_true] at hS hK
      obtain ⟨rest, e, w⟩ := shapeO_sem nx hS.2 hK.2
      obtain ⟨xp, ex, wx⟩ := shape_sem x hS.1.2 hK.1
      refine ⟨.cons (.pred (.likeRegex xp pat fl)) rest, by simp [ofNode, e, ex, consO], fun al hl he => ?_⟩
      simp only [lastDyn, existsOK, Bool.and_eq_true] at hl he
      refine cons_wf rfl ?_ (w al hl.2 he.2)
      simp [Step.wf, Pred.wf, ofNode_nonEmpty ex, wx al hl.1 he.1]
    | .arrayIndex subs nx, hS, hK => by
      simp only [Shape, noKeyvalue, Bool.and_eq_true] at hS hK
      obtain ⟨rest, e, w⟩ := shapeO_sem nx hS.2 hK.2
      obtain ⟨ss, es, ws⟩ := shapeL_sem subs hS.1 hK.1
      refine ⟨.cons (.index ss) rest, by simp [ofNode, e, es, consO], fun al hl he => ?_⟩
      simp only [lastDyn, existsOK, Bool.and_eq_true] at hl he
      simp [Path.wf, Step.wf, Step.isIndex, ws hl.1 he.1, w false hl.2 he.2]
  theorem shapeO_sem : ∀ o : Option Node, ShapeO rx o = true → noKeyvalueO o = true →
      ∃ p, ofOpt o = some p ∧ ∀ al, lastDynO o al = true → existsOKO o = true → p.wf al = true
    | none, _, _ => ⟨.nil, rfl, fun _ _ _ => rfl⟩
    | some n, hS, hK => by
      obtain ⟨p, e, w⟩ := shape_sem n (by simpa [ShapeO] using hS) (by simpa [noKeyvalueO] using hK)
      exact ⟨p, by simpa [ofOpt] using e, fun al hl he =>
        w al (by simpa [lastDynO] using hl) (by simpa [existsOKO] using he)⟩
  theorem shapeS_sem : ∀ o : Option Node, RS rx o
    | none => fun h _ => by simp [ShapeS] at h
    | some n => fun hS hK => by
      obtain ⟨p, e, w⟩ := shape_sem n (by simpa [ShapeS] using hS) (by simpa [noKeyvalueO] using hK)
      exact ⟨p, by simpa [ofOpt] using e, ofNode_nonEmpty e, fun al hl he =>
        w al (by simpa [lastDynO] using hl) (by simpa [existsOKO] using he)⟩
  theorem shapeB_sem : ∀ n : Node, ShapeB rx n = true → noKeyvalue n = true →
      ∃ q, ofPred n = some q ∧ ∀ al, lastDyn n al = true → existsOK n = true → q.wf al = true
    | .binary op l r nx, hS, hK => by
      simp only [ShapeB, noKeyvalue, Bool.and_eq_true] at hS hK
      obtain ⟨q, e, w⟩ := binPred_sem (shapeS_sem l) (shapeS_sem r) (shapeBO_sem l) (shapeBO_sem r)
        hS hK.1.1 hK.1.2
      refine ⟨q, by simpa [ofPred] using e, fun al hl he => ?_⟩
      simp only [lastDyn, existsOK, Bool.and_eq_true] at hl he
      exact w al hl.1.1 hl.1.2 he.1.1 he.1.2
    | .unary op x nx, hS, hK => by
      simp only [ShapeB, noKeyvalue, Bool.and_eq_true] at hS hK
      obtain ⟨q, e, w⟩ := unPred_sem (shapeS_sem x) (shapeBO_sem x) hS hK.1
      refine ⟨q, by simpa [ofPred] using e, fun al hl he => ?_⟩
      simp only [lastDyn, existsOK, Bool.and_eq_true] at hl he
      exact w al hl.1 he.1.2 he.1.1
    | .regex x pat fl nx, hS, hK => by
      simp only [ShapeB, noKeyvalue, Bool.and_eq_true] at hS hK
      obtain ⟨xp, ex, wx⟩ := shape_sem x hS.2 hK.1
      refine ⟨.likeRegex xp pat fl, by simp [ofPred, ex], fun al hl he => ?_⟩
      simp only [lastDyn, existsOK, Bool.and_eq_true] at hl he
      simp [Pred.wf, ofNode_nonEmpty ex, wx al hl.1 he.1]
    | .const .., h, _ => by simp [ShapeB] at h
    | .method .., h, _ => by simp [ShapeB] at h
    | .str .., h, _ => by simp [ShapeB] at h
    | .var .., h, _ => by simp [ShapeB] at h
    | .key .., h, _ => by simp [ShapeB] at h
    | .numeric .., h, _ => by simp [ShapeB] at h
    | .integer .., h, _ => by simp [ShapeB] at h
    | .any .., h, _ => by simp [ShapeB] at h
    | .arrayIndex .., h, _ => by simp [ShapeB] at h
  theorem shapeBO_sem : ∀ o : Option Node, RB rx o
    | none => fun h _ => by simp [ShapeBO] at h
    | some n => fun hS hK => by
      simp only [ShapeBO, Bool.and_eq_true] at hS
      obtain ⟨q, e, w⟩ := shapeB_sem n hS.1 (by simpa [noKeyvalueO] using hK)
      exact ⟨q, by simp [ofPredO, hS.2, e], fun al hl he =>
        w al (by simpa [lastDynO] using hl) (by simpa [existsOKO] using he)⟩
  theorem shapeL_sem : ∀ l : List Node, ShapeL rx l = true → noKeyvalueL l = true →
      ∃ s, ofSubs l = some s ∧ (lastDynL l = true → existsOKL l = true → s.wf = true)
    | [], _, _ => ⟨.nil, rfl, fun _ _ => rfl⟩
    | .binary op l r nx :: rest, hS, hK => by
      cases op <;> cases nx <;> simp only [ShapeL, Bool.and_eq_true] at hS <;> (try (cases hS; done))
      simp only [noKeyvalueL, noKeyvalue, Bool.and_eq_true] at hK
      obtain ⟨ss, es, ws⟩ := shapeL_sem rest hS.2 hK.2
      obtain ⟨i, ei, ni, wi⟩ := shapeS_sem l hS.1.1 hK.1.1.1
      cases r with
      | none =>
        refine ⟨.one i ss, by simp [ofSubs, ei, es], fun hl he => ?_⟩
        simp only [lastDynL, lastDyn, existsOKL, existsOK, Bool.and_eq_true] at hl he
        simp [Subs.wf, ni, wi true hl.1.1.1 he.1.1.1, ws hl.2 he.2]
      | some rn =>
        obtain ⟨hi, eh, wh⟩ := shape_sem rn (by simpa [ShapeO] using hS.1.2) (by simpa [noKeyvalueO] using hK.1.1.2)
        refine ⟨.range i hi ss, by simp [ofSubs, ei, eh, es], fun hl he => ?_⟩
        simp only [lastDynL, lastDyn, lastDynO, existsOKL, existsOK, existsOKO, Bool.and_eq_true] at hl he
        simp [Subs.wf, ni, ofNode_nonEmpty eh, wi true (by simpa [lastDynO] using hl.1.1.1) (by simpa [existsOKO] using he.1.1.1),
          wh true hl.1.1.2 he.1.1.2, ws hl.2 he.2]
    | .const .. :: _, h, _ => by simp [ShapeL] at h
    | .method .. :: _, h, _ => by simp [ShapeL] at h
    | .str .. :: _, h, _ => by simp [ShapeL] at h
    | .var .. :: _, h, _ => by simp [ShapeL] at h
    | .key .. :: _, h, _ => by simp [ShapeL] at h
    | .numeric .. :: _, h, _ => by simp [ShapeL] at h
    | .integer .. :: _, h, _ => by simp [ShapeL] at h
    | .any .. :: _, h, _ => by simp [ShapeL] at h
    | .unary .. :: _, h, _ => by simp [ShapeL] at h
    | .regex .. :: _, h, _ => by simp [ShapeL] at h
    | .arrayIndex .. :: _, h, _ => by simp [ShapeL] at h
end

/-! ## the two ways a tree of the grammar fails `Path.wf` -/

mutual
  /-- `last` occurs in the chain that starts at `n` — as a step, or inside an operand, a filter condition
      or an argument of one of its steps — outside every subscript `[…]` of that chain -/
  def freeLast : Node → Bool
    | .const k nx => k == .last || freeLastO nx
    | .method _ nx => freeLastO nx
    | .str _ nx => freeLastO nx
    | .var _ nx => freeLastO nx
    | .key _ nx => freeLastO nx
    | .numeric _ nx => freeLastO nx
    | .integer _ nx => freeLastO nx
    | .any _ _ nx => freeLastO nx
    | .binary _ l r nx => freeLastO l || freeLastO r || freeLastO nx
    | .unary _ x nx => freeLastO x || freeLastO nx
    | .regex x _ _ nx => freeLast x || freeLastO nx
    | .arrayIndex _ nx => freeLastO nx
  def freeLastO : Option Node → Bool
    | none => false
    | some n => freeLast n
end

mutual
  /-- **rebinding of `last`**: somewhere in the tree a subscript step `[…]` is followed, in its chain, by
      a `last` that is free in the rest of the chain (so that it refers, lexically, to an *enclosing*
      subscript): `$[$[0] ? (@ == last)]`, `$[$[0].size() + … last …]` is *not* one (another chain), nor is
      `$[$[0][last]]` (that `last` is inside the nested brackets).  The executor evaluates the rest of the
      chain with `last` bound to the array of the nested subscript (`C01b.Ex.last_rebinding_example`). -/
  def lastRebinding : Node → Bool
    | .const _ nx => lastRebindingO nx
    | .method _ nx => lastRebindingO nx
    | .str _ nx => lastRebindingO nx
    | .var _ nx => lastRebindingO nx
    | .key _ nx => lastRebindingO nx
    | .numeric _ nx => lastRebindingO nx
    | .integer _ nx => lastRebindingO nx
    | .any _ _ nx => lastRebindingO nx
    | .binary _ l r nx => lastRebindingO l || lastRebindingO r || lastRebindingO nx
    | .unary _ x nx => lastRebindingO x || lastRebindingO nx
    | .regex x _ _ nx => lastRebinding x || lastRebindingO nx
    | .arrayIndex subs nx => freeLastO nx || lastRebindingL subs || lastRebindingO nx
  def lastRebindingO : Option Node → Bool
    | none => false
    | some n => lastRebinding n
  def lastRebindingL : List Node → Bool
    | [] => false
    | n :: ns => lastRebinding n || lastRebindingL ns
end

/-- **D8**: some operand of `exists(…)` ends in a unary `+`/`-` -/
def existsEndsInSign (n : Node) : Bool := !existsOK n

theorem bool3 (a b c d e f : Bool) :
    ((!a && !b) && (!c && !d) && (!e && !f)) = (!(a || c || e) && !(b || d || f)) := by
  cases a <;> cases b <;> cases c <;> cases d <;> cases e <;> cases f <;> rfl

theorem bool2 (a b c d : Bool) : ((!a && !b) && (!c && !d)) = (!(a || c) && !(b || d)) := by
  cases a <;> cases b <;> cases c <;> cases d <;> rfl

mutual
  /-- `lastDyn` in terms of `freeLast` and `lastRebinding` -/
  theorem lastDyn_eq : ∀ n : Node,
      lastDyn n true = !lastRebinding n ∧ lastDyn n false = (!freeLast n && !lastRebinding n)
    | .const k nx => by
      obtain ⟨h1, h2⟩ := lastDynO_eq nx
      simp [lastDyn, freeLast, lastRebinding, h1, h2, bne, Bool.and_assoc]
    | .method _ nx => by simpa [lastDyn, freeLast, lastRebinding] using lastDynO_eq nx
    | .str _ nx => by simpa [lastDyn, freeLast, lastRebinding] using lastDynO_eq nx
    | .var _ nx => by simpa [lastDyn, freeLast, lastRebinding] using lastDynO_eq nx
    | .key _ nx => by simpa [lastDyn, freeLast, lastRebinding] using lastDynO_eq nx
    | .numeric _ nx => by simpa [lastDyn, freeLast, lastRebinding] using lastDynO_eq nx
    | .integer _ nx => by simpa [lastDyn, freeLast, lastRebinding] using lastDynO_eq nx
    | .any _ _ nx => by simpa [lastDyn, freeLast, lastRebinding] using lastDynO_eq nx
    | .binary _ l r nx => by
      obtain ⟨a1, a2⟩ := lastDynO_eq l
      obtain ⟨b1, b2⟩ := lastDynO_eq r
      obtain ⟨c1, c2⟩ := lastDynO_eq nx
      simp only [lastDyn, freeLast, lastRebinding, a1, a2, b1, b2, c1, c2]
      exact ⟨by simp [Bool.not_or, Bool.and_assoc], bool3 ..⟩
    | .unary _ x nx => by
      obtain ⟨a1, a2⟩ := lastDynO_eq x
      obtain ⟨c1, c2⟩ := lastDynO_eq nx
      simp only [lastDyn, freeLast, lastRebinding, a1, a2, c1, c2]
      exact ⟨by simp [Bool.not_or], bool2 ..⟩
    | .regex x _ _ nx => by
      obtain ⟨a1, a2⟩ := lastDyn_eq x
      obtain ⟨c1, c2⟩ := lastDynO_eq nx
      simp only [lastDyn, freeLast, lastRebinding, a1, a2, c1, c2]
      exact ⟨by simp [Bool.not_or], bool2 ..⟩
    | .arrayIndex subs nx => by
      have a := lastDynL_eq subs
      obtain ⟨_, c2⟩ := lastDynO_eq nx
      simp only [lastDyn, freeLast, lastRebinding, a, c2]
      generalize freeLastO nx = x; generalize lastRebindingL subs = y; generalize lastRebindingO nx = z
      cases x <;> cases y <;> cases z <;> simp
  theorem lastDynO_eq : ∀ o : Option Node,
      lastDynO o true = !lastRebindingO o ∧ lastDynO o false = (!freeLastO o && !lastRebindingO o)
    | none => by simp [lastDynO, freeLastO, lastRebindingO]
    | some n => by simpa [lastDynO, freeLastO, lastRebindingO] using lastDyn_eq n
  theorem lastDynL_eq : ∀ l : List Node, lastDynL l = !lastRebindingL l
    | [] => rfl
    | n :: ns => by simp [lastDynL, lastRebindingL, (lastDyn_eq n).1, lastDynL_eq ns, Bool.not_or]
end

mutual
  /-- the parser's rule "`last` only inside a subscript" (`ParseLemmas.lastOK`) says: no free `last` -/
  theorem lastOK_eq : ∀ n : Node,
      ParseLemmas.lastOK n true = true ∧ ParseLemmas.lastOK n false = !freeLast n
    | .const k nx => by
      obtain ⟨h1, h2⟩ := lastOKOpt_eq nx
      simp only [ParseLemmas.lastOK, freeLast, h1, h2]
      cases k <;> simp
    | .method _ nx => by simpa [ParseLemmas.lastOK, freeLast] using lastOKOpt_eq nx
    | .str _ nx => by simpa [ParseLemmas.lastOK, freeLast] using lastOKOpt_eq nx
    | .var _ nx => by simpa [ParseLemmas.lastOK, freeLast] using lastOKOpt_eq nx
    | .key _ nx => by simpa [ParseLemmas.lastOK, freeLast] using lastOKOpt_eq nx
    | .numeric _ nx => by simpa [ParseLemmas.lastOK, freeLast] using lastOKOpt_eq nx
    | .integer _ nx => by simpa [ParseLemmas.lastOK, freeLast] using lastOKOpt_eq nx
    | .any _ _ nx => by simpa [ParseLemmas.lastOK, freeLast] using lastOKOpt_eq nx
    | .binary _ l r nx => by
      obtain ⟨a1, a2⟩ := lastOKOpt_eq l
      obtain ⟨b1, b2⟩ := lastOKOpt_eq r
      obtain ⟨c1, c2⟩ := lastOKOpt_eq nx
      simp [ParseLemmas.lastOK, freeLast, a1, a2, b1, b2, c1, c2, Bool.not_or]
    | .unary _ x nx => by
      obtain ⟨a1, a2⟩ := lastOKOpt_eq x
      obtain ⟨c1, c2⟩ := lastOKOpt_eq nx
      simp [ParseLemmas.lastOK, freeLast, a1, a2, c1, c2, Bool.not_or]
    | .regex x _ _ nx => by
      obtain ⟨a1, a2⟩ := lastOK_eq x
      obtain ⟨c1, c2⟩ := lastOKOpt_eq nx
      simp [ParseLemmas.lastOK, freeLast, a1, a2, c1, c2, Bool.not_or]
    | .arrayIndex subs nx => by
      obtain ⟨c1, c2⟩ := lastOKOpt_eq nx
      simp [ParseLemmas.lastOK, freeLast, lastOKList_eq subs, c1, c2]
  theorem lastOKOpt_eq : ∀ o : Option Node,
      ParseLemmas.lastOKOpt o true = true ∧ ParseLemmas.lastOKOpt o false = !freeLastO o
    | none => by simp [ParseLemmas.lastOKOpt, freeLastO]
    | some n => by simpa [ParseLemmas.lastOKOpt, freeLastO] using lastOK_eq n
  theorem lastOKList_eq : ∀ l : List Node, ParseLemmas.lastOKList l = true
    | [] => rfl
    | n :: ns => by simp [ParseLemmas.lastOKList, (lastOK_eq n).1, lastOKList_eq ns]
end

/-- for a tree that obeys the parser's rule, `lastDyn` fails exactly by rebinding -/
theorem lastDyn_of_lastOK {n : Node} (h : ParseLemmas.lastOK n false = true) :
    lastDyn n false = !lastRebinding n := by
  have h1 := (lastOK_eq n).2
  rw [h] at h1
  have h2 : freeLast n = false := by
    cases hf : freeLast n with
    | false => rfl
    | true => rw [hf] at h1; cases h1
  rw [(lastDyn_eq n).2, h2]
  rfl

/-! ## every tree the parser accepts is a tree of the grammar (`Shape`)

The induction of `ParseWF.parse_ok_WF_cfg` (`Lemmas/Total.lean`) over the sixteen grammar functions, with the
tighter class `Shape` in place of `Exec.Total.WF`; the partial-correctness calculus `ParseWF.Sp` is reused. -/

section parser
open Sqljson.Parse Sqljson.Lex
open Sqljson.ParseWF (Sp sp_pure sp_bind sp_bind_ sp_mono sp_syn sp_panic sp_outOfFuel sp_consume sp_recordError
  sp_after_error sp_peek sp_expect sp_anyLevelOf sp_anyLevel setNext_setNext next_setNext setNext_next appendEnd_eq
  compOp_pred addOp_math mulOp_math precisionOp_dt finish_some_noerr)
open Sqljson.ParseLemmas (bind_apply pure_apply parse_ok_no_error)

/-! ### node level -/

theorem Shape_split (n : Node) : Shape rx n = (Shape rx (n.setNext none) && ShapeO rx n.next) := by
  cases n <;> simp [Shape, ShapeO, Node.setNext, Node.next]

theorem Shape_setNext (n : Node) (nx : Option Node) :
    Shape rx (n.setNext nx) = (Shape rx (n.setNext none) && ShapeO rx nx) := by
  rw [Shape_split (n.setNext nx), setNext_setNext, next_setNext]

theorem Shape_setNext_of (n : Node) (nx : Option Node) (h : Shape rx n = true) (hx : ShapeO rx nx = true) :
    Shape rx (n.setNext nx) = true := by
  rw [Shape_split] at h
  rw [Shape_setNext]
  simp_all

theorem Shape_appendEnd (n : Node) (t : Option Node) : Shape rx (appendEnd n t) = (Shape rx n && ShapeO rx t) := by
  induction n, t using appendEnd.induct
  all_goals
    rw [appendEnd_eq, Shape_setNext]
    conv => rhs; rw [Shape_split]
    simp_all [Node.next, Node.setNext, ShapeO, Bool.and_assoc]

theorem ShapeO_chainOf : ∀ (ops : List Node), (∀ n ∈ ops, Shape rx n = true) → ShapeO rx (chainOf ops) = true
  | [], _ => by simp [chainOf, ShapeO]
  | n :: rest, h => by
    have h1 : Shape rx n = true := h n (by simp)
    have h2 : ShapeO rx (chainOf rest) = true := ShapeO_chainOf rest (fun m hm => h m (by simp [hm]))
    simp only [chainOf, ShapeO]
    exact Shape_setNext_of n _ h1 h2

theorem Shape_linkNodes (head : EV) (ops : List Node) (hh : Shape rx head.node = true)
    (ho : ∀ n ∈ ops, Shape rx n = true) : Shape rx (linkNodes head ops).node = true := by
  unfold linkNodes
  cases ops with
  | nil => exact hh
  | cons a rest =>
    simp only [Shape_appendEnd, hh, ShapeO_chainOf _ ho, Bool.and_self]

/-- a boolean node in item position -/
theorem Shape_of_ShapeB (n : Node) (h : ShapeB rx n = true) : Shape rx n = ShapeO rx n.next := by
  cases n with
  | binary op l r nx =>
    cases op <;> simp_all [Shape, ShapeB, binOK, binBOK, Exec.Total.isConn, Exec.Total.isPredOp, Node.next]
  | unary op x nx =>
    cases op <;> simp_all [Shape, ShapeB, unOK, unBOK, Node.next]
  | regex x p fl nx => simp_all [Shape, ShapeB, Node.next]
  | _ => simp [ShapeB] at h

/-- one member of `[…]` -/
def SubOK (rx : List Char → Nat → Bool) : Node → Bool
  | .binary .subscript l r none => ShapeS rx l && ShapeO rx r
  | _ => false

theorem ShapeL_cons (n : Node) (rest : List Node) : ShapeL rx (n :: rest) = (SubOK rx n && ShapeL rx rest) := by
  cases n with
  | binary op l r nx => cases op <;> cases nx <;> simp [ShapeL, SubOK]
  | _ => simp [ShapeL, SubOK]

theorem ShapeL_append : ∀ (a b : List Node), ShapeL rx (a ++ b) = (ShapeL rx a && ShapeL rx b)
  | [], b => by simp [ShapeL]
  | n :: a, b => by
    rw [List.cons_append, ShapeL_cons, ShapeL_cons, ShapeL_append a b, Bool.and_assoc]

theorem ShapeL_snoc (acc : List Node) (e : Node) (ha : ShapeL rx acc = true) (he : SubOK rx e = true) :
    ShapeL rx (acc ++ [e]) = true := by
  rw [ShapeL_append, ShapeL_cons, ha, he]
  simp [ShapeL]

/-! ### the invariants of the values the grammar functions return -/

/-- an `expr` value -/
def EOK (rx : List Char → Nat → Bool) (v : EV) : Prop := Shape rx v.node = true
/-- a `predicate` value: a boolean node with nothing chained to it -/
def POK (rx : List Char → Nat → Bool) (v : EV) : Prop := ShapeB rx v.node = true ∧ v.node.next = none
/-- an integer literal -/
def IOK (v : EV) : Prop := isIntLit v.node = true

def PrimOK (rx : List Char → Nat → Bool) : PrimR → Prop
  | .pred v => POK rx v
  | .expr v => EOK rx v

def AtomOK (rx : List Char → Nat → Bool) : AtomR → Prop
  | .pred v => POK rx v
  | .expr v _ => EOK rx v

theorem eok_of_pok {v : EV} (h : POK rx v) : EOK rx v := by
  unfold EOK
  rw [Shape_of_ShapeB _ h.1, h.2]
  rfl

theorem eok_of_iok {v : EV} (h : IOK v) : EOK rx v := by
  unfold IOK at h
  unfold EOK
  cases hn : v.node <;> rw [hn] at h <;> simp [isIntLit] at h
  rename_i i nx
  cases nx <;> simp at h
  simp [Shape, ShapeO]

theorem shapeBO_of_pok {v : EV} (h : POK rx v) : ShapeBO rx (some v.node) = true := by
  simp [ShapeBO, h.1, h.2]

theorem pok_conn {op : BinOp} (hop : op = .and ∨ op = .or) {l r : EV} (hl : POK rx l) (hr : POK rx r) :
    POK rx (binary op l r) := by
  refine ⟨?_, rfl⟩
  rcases hop with rfl | rfl <;>
    simp [binary, ShapeB, binBOK, Exec.Total.isConn, shapeBO_of_pok hl, shapeBO_of_pok hr]

theorem pok_cmp {op : BinOp} (hop : Exec.Total.isPredOp op = true) {l r : EV} (hl : EOK rx l) (hr : EOK rx r) :
    POK rx (binary op l r) := by
  unfold EOK at hl hr
  refine ⟨?_, rfl⟩
  cases op <;> simp [Exec.Total.isPredOp] at hop <;>
    simp [binary, ShapeB, binBOK, Exec.Total.isConn, Exec.Total.isPredOp, ShapeS, hl, hr]

theorem eok_math {op : BinOp} (hop : Exec.isMathBinOp op = true) {l r : EV} (hl : EOK rx l) (hr : EOK rx r) :
    EOK rx (binary op l r) := by
  unfold EOK at hl hr
  cases op <;> simp [Exec.isMathBinOp] at hop <;>
    simp [EOK, binary, Shape, ShapeO, ShapeS, binOK, Exec.Total.isConn, Exec.Total.isPredOp, Exec.isMathBinOp, hl, hr]

theorem pok_not {v : EV} (h : POK rx v) : POK rx (unary .not v) :=
  ⟨by simp [unary, ShapeB, unBOK, shapeBO_of_pok h], rfl⟩

theorem pok_isUnknown {v : EV} (h : POK rx v) : POK rx (unary .isUnknown v) :=
  ⟨by simp [unary, ShapeB, unBOK, shapeBO_of_pok h], rfl⟩

theorem pok_exists {v : EV} (h : EOK rx v) : POK rx (unary .exists v) := by
  unfold EOK at h
  exact ⟨by simp [unary, ShapeB, unBOK, ShapeS, h], rfl⟩

theorem shape_filter {v : EV} (h : POK rx v) : Shape rx (.unary .filter (some v.node) none) = true := by
  simp [Shape, ShapeO, unOK, shapeBO_of_pok h]

theorem eok_sign {op : UnOp} (hop : op = .plus ∨ op = .minus) {v : EV} (h : EOK rx v) :
    EOK rx { node := .unary op (some v.node) none } := by
  unfold EOK at h
  rcases hop with rfl | rfl <;> simp [EOK, Shape, ShapeO, ShapeS, unOK, h]

theorem pok_regex {v : EV} (h : EOK rx v) {pat : List Char} {b : Nat} (hb : rx pat b = true) :
    POK rx { node := .regex v.node pat b none } := by
  unfold EOK at h
  exact ⟨by simp [ShapeB, h, hb], rfl⟩

theorem shape_dt {op : UnOp} (hop : Exec.isDateTimeOp op = true) (x : Option Node) (hx : isLitO x = true) :
    Shape rx (.unary op x none) = true := by
  cases op <;> simp [Exec.isDateTimeOp] at hop <;> simp [Shape, ShapeO, unOK, hx]

theorem shape_decimal (l r : Option Node) (hl : isIntLitO l = true) (hr : isIntLitO r = true) :
    Shape rx (.binary .decimal l r none) = true := by
  simp [Shape, ShapeO, binOK, Exec.Total.isConn, Exec.Total.isPredOp, Exec.isMathBinOp, hl, hr]

theorem isLitO_of_iok {v : EV} (h : IOK v) : isLitO (some v.node) = true := by
  unfold IOK at h
  cases hn : v.node <;> rw [hn] at h <;> simp [isIntLit] at h
  rename_i i nx
  cases nx <;> simp at h
  rfl

theorem shape_newAny (a b : Option Nat) : Shape rx (newAny a b) = true := by
  simp [newAny, Shape, ShapeO]

/-! ### the constructors -/

section
variable (o : Oracles)

theorem sp_astNewInteger (lit : List Char) : Sp IOK (astNewInteger lit) := by
  unfold astNewInteger
  split
  · apply sp_pure
    simp [IOK, isIntLit]
  · exact sp_panic

theorem sp_astNewNumeric (lit : List Char) : Sp (EOK o.regexAccepts) (astNewNumeric lit) := by
  unfold astNewNumeric
  split
  · apply sp_pure
    simp [EOK, Shape, ShapeO]
  · exact sp_panic

theorem sp_newInteger (lit : List Char) : Sp IOK (newInteger lit) := by
  unfold newInteger
  split
  · apply sp_pure
    simp [IOK, isIntLit]
  · apply sp_after_error
    intro _
    exact sp_pure trivial

theorem sp_newNumeric (lit : List Char) : Sp (EOK o.regexAccepts) (newNumeric lit) := by
  unfold newNumeric
  split
  · apply sp_pure
    simp [EOK, Shape, ShapeO]
  · apply sp_after_error
    intro _
    exact sp_pure trivial

theorem sp_newUnaryOrNumber (op : UnOp) (hop : op = .plus ∨ op = .minus) (v : EV) :
    Sp (fun r => (EOK o.regexAccepts v → EOK o.regexAccepts r) ∧ (IOK v → IOK r)) (newUnaryOrNumber op v) := by
  have notInt : ∀ {w : EV}, (∀ i nx, v.node ≠ .integer i nx) → IOK v → IOK w := by
    intro w hne hi
    unfold IOK at hi
    cases hn : v.node <;> rw [hn] at hi <;> simp [isIntLit] at hi
    exact absurd hn (hne _ _)
  unfold newUnaryOrNumber
  split
  · split
    · rename_i hnode
      split
      · exact sp_pure ⟨fun h => h, fun h => h⟩
      · exact sp_mono (sp_astNewNumeric o _) (fun _ h => ⟨fun _ => h, notInt (by intro i nx; rw [hnode]; simp)⟩)
    · split
      · exact sp_pure ⟨fun h => h, fun h => h⟩
      · exact sp_mono (sp_astNewInteger _) (fun _ h => ⟨fun _ => eok_of_iok h, fun _ => h⟩)
    · rename_i hnn hni
      exact sp_pure ⟨fun h => eok_sign hop h, notInt (fun i nx hh => hni i nx hh)⟩
  · rename_i hnx
    refine sp_pure ⟨fun h => eok_sign hop h, fun hi => ?_⟩
    exfalso
    unfold IOK at hi
    cases hn : v.node <;> rw [hn] at hi <;> simp [isIntLit] at hi
    rename_i i nx
    cases nx <;> simp at hi
    rw [hn] at hnx
    simp [Node.next] at hnx

theorem sp_mkRegex (v : EV) (pat fl : List Char) :
    Sp (fun r => EOK o.regexAccepts v → POK o.regexAccepts r) (mkRegex o v pat fl) := by
  unfold mkRegex
  simp only
  split
  · rename_i b hb
    apply sp_pure
    intro hv
    apply pok_regex hv
    split at hb
    · split at hb
      · rename_i hacc
        injection hb with hb
        subst hb
        exact hacc
      · cases hb
    · cases hb
  · apply sp_after_error
    intro _
    exact sp_pure trivial

theorem sp_csvElem (t : Tok × List Char) : Sp (fun n => isIntLit n = true) (csvElem o t) := by
  obtain ⟨k, txt⟩ := t
  unfold csvElem
  simp only
  split
  · apply sp_bind_ sp_consume; intro _
    apply sp_bind (sp_newInteger txt); intro v
    exact sp_pure (fun h => h)
  · apply sp_bind_ sp_consume; intro _
    apply sp_bind_ (sp_peek o); intro a
    obtain ⟨t2, txt2⟩ := a
    simp only
    split
    · exact sp_syn
    · apply sp_bind_ sp_consume; intro _
      apply sp_bind (sp_newInteger txt2); intro v
      apply sp_bind (sp_newUnaryOrNumber o _ (by split <;> simp) v); intro w
      exact sp_pure (fun hw hv => (hw.2 hv))

end

/-! ### the grammar functions, by induction on the fuel -/

section grammar
variable (o : Oracles)

/-- the specification of every grammar function at fuel `f` -/
structure AllSp (f : Nat) : Prop where
  unaryT : ∀ t, Sp (EOK o.regexAccepts) (parseUnaryT o f t)
  unary : Sp (EOK o.regexAccepts) (parseUnary o f)
  scalar : ∀ t, Sp (EOK o.regexAccepts) (parseScalar o f t)
  accLoop : ∀ head ops, Sp (fun v => EOK o.regexAccepts head → (∀ n ∈ ops, Shape o.regexAccepts n = true) → EOK o.regexAccepts v) (accessorLoop o f head ops)
  paren : ∀ ctx, Sp (PrimOK o.regexAccepts) (parenTail o f ctx)
  atom : ∀ ctx, Sp (AtomOK o.regexAccepts) (parseAtom o f ctx)
  exists_ : Sp (POK o.regexAccepts) (existsTail o f)
  exprT : ∀ ctx v, Sp (fun r => EOK o.regexAccepts v → AtomOK o.regexAccepts r) (exprTail o f ctx v)
  arith : ∀ v, Sp (fun p => EOK o.regexAccepts v → EOK o.regexAccepts p.1) (arithLoop o f v)
  mul : ∀ v, Sp (fun r => EOK o.regexAccepts v → EOK o.regexAccepts r) (mulLoop o f v)
  pred : ∀ v, Sp (fun p => POK o.regexAccepts v → POK o.regexAccepts p.1) (predLoop o f v)
  or_ : ∀ v, Sp (fun r => POK o.regexAccepts v → POK o.regexAccepts r) (orLoop o f v)
  accOp : ∀ t, Sp (fun n => Shape o.regexAccepts n = true) (accessorOp o f t)
  index : ∀ t acc, Sp (fun l => ShapeL o.regexAccepts acc = true → ShapeL o.regexAccepts l = true) (indexList o f t acc)
  csv : Sp (fun l => ∀ n ∈ l, isIntLit n = true) (csvList o f)
  csvM : ∀ acc, Sp (fun l => (∀ n ∈ acc, isIntLit n = true) → ∀ n ∈ l, isIntLit n = true) (csvMore o f acc)

theorem allSp_zero : AllSp o 0 := by
  constructor
  all_goals intros
  all_goals first
    | (simp only [parseUnaryT, parseUnary, parseScalar, accessorLoop, parenTail, parseAtom, existsTail, exprTail,
        arithLoop, mulLoop, predLoop, orLoop, accessorOp, indexList, csvList, csvMore]; exact sp_outOfFuel)

section step
variable {f : Nat} (ih : AllSp o f)
include ih

theorem step_unaryT (t : Tok × List Char) : Sp (EOK o.regexAccepts) (parseUnaryT o (f + 1) t) := by
  obtain ⟨k, txt⟩ := t
  rw [parseUnaryT]
  split
  · apply sp_bind_ sp_consume; intro _
    apply sp_bind ih.unary; intro v
    exact sp_mono (sp_newUnaryOrNumber o _ (Or.inl rfl) v) (fun _ h => h.1)
  · split
    · apply sp_bind_ sp_consume; intro _
      apply sp_bind ih.unary; intro v
      exact sp_mono (sp_newUnaryOrNumber o _ (Or.inr rfl) v) (fun _ h => h.1)
    · split
      · apply sp_bind_ sp_consume; intro _
        apply sp_bind (ih.paren _); intro r
        cases r with
        | pred v => exact sp_syn
        | expr v => exact sp_pure (fun h => h)
      · exact ih.scalar _

theorem step_unary : Sp (EOK o.regexAccepts) (parseUnary o (f + 1)) := by
  rw [parseUnary]
  apply sp_bind_ (sp_peek o); intro t
  exact ih.unaryT t

theorem step_scalar (t : Tok × List Char) : Sp (EOK o.regexAccepts) (parseScalar o (f + 1) t) := by
  obtain ⟨k, txt⟩ := t
  unfold parseScalar
  have other : ∀ mk : P EV, Sp (EOK o.regexAccepts) mk →
      Sp (EOK o.regexAccepts) (do consume; let h ← mk; accessorLoop o f h []) := by
    intro mk hmk
    apply sp_bind_ sp_consume; intro _
    apply sp_bind hmk; intro h
    exact sp_mono (ih.accLoop h []) (fun v hv hh => hv hh (by intro n hn; cases hn))
  cases k
  all_goals first
    | exact sp_syn
    | (apply other; first
        | exact sp_newNumeric o _
        | exact sp_mono (sp_newInteger _) (fun _ h => eok_of_iok h)
        | (apply sp_pure; simp [EOK, Shape, ShapeO]))

theorem step_accLoop (head : EV) (ops : List Node) :
    Sp (fun v => EOK o.regexAccepts head → (∀ n ∈ ops, Shape o.regexAccepts n = true) → EOK o.regexAccepts v) (accessorLoop o (f + 1) head ops) := by
  rw [accessorLoop]
  apply sp_bind_ (sp_peek o); intro a
  obtain ⟨t, txt⟩ := a
  simp only
  split
  · apply sp_bind (ih.accOp t); intro op
    apply sp_mono (ih.accLoop head _)
    intro v hv hop hh hops
    apply hv hh
    intro n hn
    rcases List.mem_append.mp hn with h | h
    · exact hops n h
    · simp at h; subst h; exact hop
  · apply sp_pure
    intro hh hops
    exact Shape_linkNodes head ops hh hops

theorem step_paren (ctx : Ctx) : Sp (PrimOK o.regexAccepts) (parenTail o (f + 1) ctx) := by
  unfold parenTail
  apply sp_bind (ih.atom ctx); intro a
  cases a with
  | expr v t =>
    simp only
    split
    · exact sp_syn
    · apply sp_bind_ sp_consume; intro _
      apply sp_bind_ (sp_peek o); intro p
      obtain ⟨t2, txt2⟩ := p
      simp only
      split
      · apply sp_bind (ih.accOp t2); intro op
        apply sp_bind (ih.accLoop v [op]); intro e
        apply sp_pure
        intro he hop hv
        exact he hv (by intro n hn; simp at hn; subst hn; exact hop)
      · exact sp_pure (fun hv => hv)
  | pred v0 =>
    simp only
    apply sp_bind (ih.pred v0); intro p
    obtain ⟨v, t⟩ := p
    simp only
    split
    · exact sp_syn
    · apply sp_bind_ sp_consume; intro _
      apply sp_bind_ (sp_peek o); intro q
      obtain ⟨t2, txt2⟩ := q
      simp only
      split
      · apply sp_bind (ih.accOp t2); intro op
        apply sp_bind (ih.accLoop v [op]); intro e
        apply sp_pure
        intro he hop hv hv0
        exact he (eok_of_pok (hv hv0)) (by intro n hn; simp at hn; subst hn; exact hop)
      · split
        · exact sp_syn
        · split
          · apply sp_bind_ sp_consume; intro _
            apply sp_bind_ (sp_expect o _); intro _
            exact sp_pure (fun hv hv0 => pok_isUnknown (hv hv0))
          · exact sp_pure (fun hv hv0 => hv hv0)

theorem step_exists : Sp (POK o.regexAccepts) (existsTail o (f + 1)) := by
  unfold existsTail
  apply sp_bind_ (sp_expect o _); intro _
  apply sp_bind ih.unary; intro u
  apply sp_bind (ih.arith u); intro p
  obtain ⟨e, t⟩ := p
  simp only
  split
  · exact sp_syn
  · apply sp_bind_ sp_consume; intro _
    exact sp_pure (fun he hu => pok_exists (he hu))

theorem step_atom (ctx : Ctx) : Sp (AtomOK o.regexAccepts) (parseAtom o (f + 1) ctx) := by
  unfold parseAtom
  apply sp_bind_ (sp_peek o); intro p
  obtain ⟨t, txt⟩ := p
  simp only
  split
  · apply sp_bind_ sp_consume; intro _
    apply sp_bind_ (sp_peek o); intro q
    obtain ⟨t2, txt2⟩ := q
    simp only
    split
    · apply sp_bind_ sp_consume; intro _
      apply sp_bind ih.exists_; intro v
      exact sp_pure (fun hv => pok_not hv)
    · split
      · apply sp_bind_ sp_consume; intro _
        apply sp_bind (ih.atom _); intro a
        cases a with
        | expr v t => exact sp_syn
        | pred v0 =>
          simp only
          apply sp_bind (ih.pred v0); intro r
          obtain ⟨v, t3⟩ := r
          simp only
          split
          · exact sp_syn
          · apply sp_bind_ sp_consume; intro _
            exact sp_pure (fun hv hv0 => pok_not (hv hv0))
      · exact sp_syn
  · split
    · apply sp_bind_ sp_consume; intro _
      apply sp_bind ih.exists_; intro v
      exact sp_pure (fun hv => hv)
    · split
      · apply sp_bind_ sp_consume; intro _
        apply sp_bind (ih.paren _); intro r
        cases r with
        | pred v => exact sp_pure (fun hv => hv)
        | expr v => exact ih.exprT ctx v
      · split
        · exact sp_syn
        · apply sp_bind (ih.unaryT (t, txt)); intro v
          exact ih.exprT ctx v

theorem step_exprT (ctx : Ctx) (v : EV) : Sp (fun r => EOK o.regexAccepts v → AtomOK o.regexAccepts r) (exprTail o (f + 1) ctx v) := by
  unfold exprTail
  apply sp_bind (ih.arith v); intro p
  obtain ⟨lhs, t⟩ := p
  simp only
  split
  · rename_i op hop
    apply sp_bind_ sp_consume; intro _
    apply sp_bind ih.unary; intro u
    apply sp_bind (ih.arith u); intro q
    obtain ⟨rhs, t'⟩ := q
    apply sp_pure
    intro hr hu hl hv
    exact pok_cmp (compOp_pred hop) (hl hv) (hr hu)
  · split
    · apply sp_bind_ sp_consume; intro _
      apply sp_bind_ (sp_expect o _); intro _
      apply sp_bind_ (sp_peek o); intro q
      obtain ⟨t2, txt2⟩ := q
      simp only
      split
      · apply sp_bind_ sp_consume; intro _
        apply sp_pure
        intro hl hv
        exact pok_cmp rfl (hl hv) (by simp [EOK, Shape, ShapeO])
      · split
        · apply sp_bind_ sp_consume; intro _
          apply sp_pure
          intro hl hv
          exact pok_cmp rfl (hl hv) (by simp [EOK, Shape, ShapeO])
        · exact sp_syn
    · split
      · apply sp_bind_ sp_consume; intro _
        apply sp_bind_ (sp_peek o); intro q
        obtain ⟨t2, pat⟩ := q
        simp only
        split
        · exact sp_syn
        · apply sp_bind_ sp_consume; intro _
          apply sp_bind_ (sp_peek o); intro q3
          obtain ⟨t3, x3⟩ := q3
          simp only
          split
          · apply sp_bind_ sp_consume; intro _
            apply sp_bind_ (sp_peek o); intro q4
            obtain ⟨t4, fl⟩ := q4
            simp only
            split
            · exact sp_syn
            · apply sp_bind_ sp_consume; intro _
              apply sp_bind (sp_mkRegex o lhs pat fl); intro r
              exact sp_pure (fun hr hl hv => hr (hl hv))
          · apply sp_bind (sp_mkRegex o lhs pat []); intro r
            exact sp_pure (fun hr hl hv => hr (hl hv))
      · split
        · exact sp_syn
        · exact sp_pure (fun hl hv => hl hv)

theorem step_arith (v : EV) : Sp (fun p => EOK o.regexAccepts v → EOK o.regexAccepts p.1) (arithLoop o (f + 1) v) := by
  unfold arithLoop
  apply sp_bind_ (sp_peek o); intro p
  obtain ⟨t, txt⟩ := p
  simp only
  split
  · rename_i op hop
    apply sp_bind_ sp_consume; intro _
    apply sp_bind ih.unary; intro u
    apply sp_bind (ih.mul u); intro rhs
    apply sp_mono (ih.arith _)
    intro r hr hrhs hu hv
    exact hr (eok_math (addOp_math hop) hv (hrhs hu))
  · split
    · rename_i op hop
      apply sp_bind_ sp_consume; intro _
      apply sp_bind ih.unary; intro u
      apply sp_mono (ih.arith _)
      intro r hr hu hv
      exact hr (eok_math (mulOp_math hop) hv hu)
    · exact sp_pure (fun hv => hv)

theorem step_mul (v : EV) : Sp (fun r => EOK o.regexAccepts v → EOK o.regexAccepts r) (mulLoop o (f + 1) v) := by
  unfold mulLoop
  apply sp_bind_ (sp_peek o); intro p
  obtain ⟨t, txt⟩ := p
  simp only
  split
  · rename_i op hop
    apply sp_bind_ sp_consume; intro _
    apply sp_bind ih.unary; intro u
    apply sp_mono (ih.mul _)
    intro r hr hu hv
    exact hr (eok_math (mulOp_math hop) hv hu)
  · exact sp_pure (fun hv => hv)

theorem step_pred (v : EV) : Sp (fun p => POK o.regexAccepts v → POK o.regexAccepts p.1) (predLoop o (f + 1) v) := by
  unfold predLoop
  apply sp_bind_ (sp_peek o); intro p
  obtain ⟨t, txt⟩ := p
  simp only
  split
  · apply sp_bind_ sp_consume; intro _
    apply sp_bind (ih.atom _); intro a
    cases a with
    | pred r =>
      apply sp_mono (ih.pred _)
      intro q hq hr hv
      exact hq (pok_conn (Or.inl rfl) hv hr)
    | expr _ _ => exact sp_syn
  · split
    · apply sp_bind_ sp_consume; intro _
      apply sp_bind (ih.atom _); intro a
      cases a with
      | pred r0 =>
        simp only
        apply sp_bind (ih.or_ r0); intro r
        apply sp_mono (ih.pred _)
        intro q hq hr hr0 hv
        exact hq (pok_conn (Or.inr rfl) hv (hr hr0))
      | expr _ _ => exact sp_syn
    · exact sp_pure (fun hv => hv)

theorem step_or (v : EV) : Sp (fun r => POK o.regexAccepts v → POK o.regexAccepts r) (orLoop o (f + 1) v) := by
  unfold orLoop
  apply sp_bind_ (sp_peek o); intro p
  obtain ⟨t, txt⟩ := p
  simp only
  split
  · apply sp_bind_ sp_consume; intro _
    apply sp_bind (ih.atom _); intro a
    cases a with
    | pred r2 =>
      apply sp_mono (ih.or_ _)
      intro q hq hr hv
      exact hq (pok_conn (Or.inl rfl) hv hr)
    | expr _ _ => exact sp_syn
  · exact sp_pure (fun hv => hv)

theorem step_csvM (acc : List Node) :
    Sp (fun l => (∀ n ∈ acc, isIntLit n = true) → ∀ n ∈ l, isIntLit n = true) (csvMore o (f + 1) acc) := by
  unfold csvMore
  apply sp_bind_ (sp_peek o); intro p
  obtain ⟨t, txt⟩ := p
  simp only
  split
  · apply sp_bind_ sp_consume; intro _
    apply sp_bind_ (sp_peek o); intro q
    obtain ⟨t2, txt2⟩ := q
    simp only
    split
    · apply sp_bind (sp_csvElem o _); intro e
      apply sp_mono (ih.csvM _)
      intro l hl he hacc
      apply hl
      intro n hn
      rcases List.mem_append.mp hn with h | h
      · exact hacc n h
      · simp at h; subst h; exact he
    · exact sp_syn
  · exact sp_pure (fun h => h)

theorem step_csv : Sp (fun l => ∀ n ∈ l, isIntLit n = true) (csvList o (f + 1)) := by
  unfold csvList
  apply sp_bind_ (sp_peek o); intro p
  obtain ⟨t, txt⟩ := p
  simp only
  split
  · apply sp_bind (sp_csvElem o _); intro e
    apply sp_mono (ih.csvM _)
    intro l hl he
    apply hl
    intro n hn
    simp at hn; subst hn; exact he
  · exact sp_pure (by intro n hn; cases hn)

theorem step_index (t : Tok × List Char) (acc : List Node) :
    Sp (fun l => ShapeL o.regexAccepts acc = true → ShapeL o.regexAccepts l = true) (indexList o (f + 1) t acc) := by
  unfold indexList
  apply sp_bind (ih.unaryT t); intro u
  apply sp_bind (ih.arith u); intro p
  obtain ⟨e, t2⟩ := p
  simp only
  have hcont : ∀ elem : Node,
      Sp (fun l => SubOK o.regexAccepts elem = true → ShapeL o.regexAccepts acc = true → ShapeL o.regexAccepts l = true)
      (do let __x ← peek o
          if __x.fst = Tok.comma then do
              consume
              let t4 ← peek o
              if t4.fst = Tok.stop then syn else indexList o f t4 (acc ++ [elem])
            else
              if __x.fst = Tok.rbrack then do
                consume
                pure (acc ++ [elem])
              else syn : P (List Node)) := by
    intro elem
    apply sp_bind_ (sp_peek o); intro q
    split
    · apply sp_bind_ sp_consume; intro _
      apply sp_bind_ (sp_peek o); intro t4
      split
      · exact sp_syn
      · exact sp_mono (ih.index t4 _) (fun l hl he ha => hl (ShapeL_snoc acc elem ha he))
    · split
      · apply sp_bind_ sp_consume; intro _
        exact sp_pure (fun he ha => ShapeL_snoc acc elem ha he)
      · exact sp_syn
  split
  · apply sp_bind_ sp_consume; intro _
    apply sp_bind ih.unary; intro u2
    apply sp_bind (ih.arith u2); intro q
    apply sp_bind (sp_pure (Q := fun n => n = Node.binary .subscript (some e.node) (some q.1.node) none) rfl)
    intro elem
    apply sp_mono (hcont elem)
    intro l hl helem hq hu2 he hu
    apply hl
    subst helem
    have h1 : Shape o.regexAccepts e.node = true := he hu
    have h2 : Shape o.regexAccepts q.1.node = true := hq hu2
    simp [SubOK, ShapeS, ShapeO, h1, h2]
  · apply sp_bind (sp_pure (Q := fun n => n = Node.binary .subscript (some e.node) none none) rfl)
    intro elem
    apply sp_mono (hcont elem)
    intro l hl helem he hu
    apply hl
    subst helem
    have h1 : Shape o.regexAccepts e.node = true := he hu
    simp [SubOK, ShapeS, ShapeO, h1]

theorem step_accOp (t : Tok) : Sp (fun n => Shape o.regexAccepts n = true) (accessorOp o (f + 1) t) := by
  unfold accessorOp
  apply sp_bind_ sp_consume; intro _
  by_cases hq : t = Tok.question
  · rw [if_pos hq]
    -- filter
    apply sp_bind_ (sp_expect o _); intro _
    apply sp_bind (ih.atom _); intro a
    cases a with
    | expr _ _ => exact sp_syn
    | pred v0 =>
      simp only
      apply sp_bind (ih.pred v0); intro p
      obtain ⟨v, t2⟩ := p
      simp only
      split
      · exact sp_syn
      · apply sp_bind_ sp_consume; intro _
        exact sp_pure (fun hv hv0 => shape_filter (hv hv0))
  · rw [if_neg hq]
    by_cases hb : t = Tok.lbrack
    · rw [if_pos hb]
      -- subscript
      apply sp_bind_ (sp_peek o); intro p
      obtain ⟨t2, txt2⟩ := p
      simp only
      split
      · apply sp_bind_ sp_consume; intro _
        apply sp_bind_ (sp_expect o _); intro _
        apply sp_pure
        simp [Shape, ShapeO]
      · split
        · exact sp_syn
        · apply sp_bind (ih.index _ []); intro subs
          apply sp_pure
          intro hs
          have : ShapeL o.regexAccepts subs = true := hs (by simp [ShapeL])
          simp [Shape, ShapeO, this]
    · rw [if_neg hb]
      -- after '.'
      apply sp_bind_ (sp_peek o); intro p
      obtain ⟨k, txt⟩ := p
      simp only
      split
      · apply sp_bind_ sp_consume; intro _
        apply sp_pure
        simp [Shape, ShapeO]
      · split
        · -- .**
          apply sp_bind_ sp_consume; intro _
          apply sp_bind_ (sp_peek o); intro q
          obtain ⟨t2, x2⟩ := q
          simp only
          split
          · apply sp_bind_ sp_consume; intro _
            apply sp_bind_ (sp_anyLevel o); intro a
            apply sp_bind_ (sp_peek o); intro q3
            obtain ⟨t3, x3⟩ := q3
            simp only
            split
            · apply sp_bind_ sp_consume; intro _
              exact sp_pure (shape_newAny _ _)
            · split
              · apply sp_bind_ sp_consume; intro _
                apply sp_bind_ (sp_anyLevel o); intro b
                apply sp_bind_ (sp_expect o _); intro _
                exact sp_pure (shape_newAny _ _)
              · exact sp_syn
          · exact sp_pure (shape_newAny _ _)
        · split
          · apply sp_bind_ sp_consume; intro _
            apply sp_pure
            simp [Shape, ShapeO]
          · split
            · -- method
              apply sp_bind_ sp_consume; intro _
              apply sp_bind_ (sp_peek o); intro q
              obtain ⟨t2, x2⟩ := q
              simp only
              split
              · apply sp_bind_ sp_consume; intro _
                apply sp_bind_ (sp_expect o _); intro _
                apply sp_pure
                simp [Shape, ShapeO]
              · apply sp_pure
                simp [Shape, ShapeO]
            · split
              · -- decimal
                apply sp_bind_ sp_consume; intro _
                apply sp_bind_ (sp_peek o); intro q
                obtain ⟨t2, x2⟩ := q
                simp only
                split
                · apply sp_bind_ sp_consume; intro _
                  apply sp_bind ih.csv; intro args
                  apply sp_bind_ (sp_expect o _); intro _
                  split
                  · exact sp_pure (fun _ => shape_decimal _ _ rfl rfl)
                  · exact sp_pure (fun h => shape_decimal _ _ (h _ (by simp)) rfl)
                  · exact sp_pure (fun h => shape_decimal _ _ (h _ (by simp)) (h _ (by simp)))
                  · apply sp_after_error; intro _
                    exact sp_pure trivial
                · apply sp_pure
                  simp [Shape, ShapeO]
              · split
                · -- date
                  apply sp_bind_ sp_consume; intro _
                  apply sp_bind_ (sp_peek o); intro q
                  obtain ⟨t2, x2⟩ := q
                  simp only
                  split
                  · apply sp_bind_ sp_consume; intro _
                    apply sp_bind_ (sp_expect o _); intro _
                    exact sp_pure (shape_dt rfl _ rfl)
                  · apply sp_pure
                    simp [Shape, ShapeO]
                · split
                  · -- datetime
                    apply sp_bind_ sp_consume; intro _
                    apply sp_bind_ (sp_peek o); intro q
                    obtain ⟨t2, x2⟩ := q
                    simp only
                    split
                    · apply sp_bind_ sp_consume; intro _
                      apply sp_bind_ (sp_peek o); intro q3
                      obtain ⟨t3, tpl⟩ := q3
                      simp only
                      split
                      · apply sp_bind_ sp_consume; intro _
                        apply sp_bind_ (sp_expect o _); intro _
                        exact sp_pure (shape_dt rfl _ rfl)
                      · apply sp_bind_ (sp_expect o _); intro _
                        exact sp_pure (shape_dt rfl _ rfl)
                    · apply sp_pure
                      simp [Shape, ShapeO]
                  · split
                    · -- time, time_tz, timestamp, timestamp_tz
                      rename_i op hop
                      apply sp_bind_ sp_consume; intro _
                      apply sp_bind_ (sp_peek o); intro q
                      obtain ⟨t2, x2⟩ := q
                      simp only
                      split
                      · apply sp_bind_ sp_consume; intro _
                        apply sp_bind_ (sp_peek o); intro q3
                        obtain ⟨t3, digs⟩ := q3
                        simp only
                        split
                        · apply sp_bind_ sp_consume; intro _
                          apply sp_bind (sp_newInteger digs); intro pnode
                          apply sp_bind_ (sp_expect o _); intro _
                          exact sp_pure (fun hp => shape_dt (precisionOp_dt hop) _ (isLitO_of_iok hp))
                        · apply sp_bind_ (sp_expect o _); intro _
                          exact sp_pure (shape_dt (precisionOp_dt hop) _ rfl)
                      · apply sp_pure
                        simp [Shape, ShapeO]
                    · exact sp_syn

end step

theorem allSp : ∀ f, AllSp o f
  | 0 => allSp_zero o
  | f + 1 =>
    have ih := allSp f
    { unaryT := step_unaryT o ih
      unary := step_unary o ih
      scalar := step_scalar o ih
      accLoop := step_accLoop o ih
      paren := step_paren o ih
      atom := step_atom o ih
      exists_ := step_exists o ih
      exprT := step_exprT o ih
      arith := step_arith o ih
      mul := step_mul o ih
      pred := step_pred o ih
      or_ := step_or o ih
      accOp := step_accOp o ih
      index := step_index o ih
      csv := step_csv o ih
      csvM := step_csvM o ih }

/-! ### the whole parser -/

theorem sp_parseBody (f : Nat) : Sp (fun r => Shape o.regexAccepts r.2.2.node = true) (parseBody o f) := by
  have ih := allSp o f
  unfold parseBody
  apply sp_bind_ (sp_peek o); intro p
  obtain ⟨t, txt⟩ := p
  simp only
  have hcont : ∀ lax : Bool, Sp (fun r => Shape o.regexAccepts r.2.2.node = true)
      (do let a ← parseAtom o f Ctx.top
          match a with
            | AtomR.expr v _ => pure (lax, false, v)
            | AtomR.pred v0 => do
              let __x ← predLoop o f v0
              pure (lax, true, __x.fst) : P (Bool × Bool × EV)) := by
    intro lax
    apply sp_bind (ih.atom _); intro a
    cases a with
    | expr v t2 => exact sp_pure (fun hv => hv)
    | pred v0 =>
      simp only
      apply sp_bind (ih.pred v0); intro q
      exact sp_pure (fun hq hv0 => eok_of_pok (hq hv0))
  split
  · apply sp_bind_ sp_consume; intro _
    apply sp_bind_ (sp_pure (Q := fun _ => True) trivial); intro lax
    exact hcont lax
  · split
    · apply sp_bind_ sp_consume; intro _
      apply sp_bind_ (sp_pure (Q := fun _ => True) trivial); intro lax
      exact hcont lax
    · apply sp_bind_ (sp_pure (Q := fun _ => True) trivial); intro lax
      exact hcont lax

/-- **every tree the parser accepts is a tree of the grammar** -/
theorem parse_ok_Shape (bytes : List UInt8) (a : AST) (h : Parse.parse o bytes = .ok a) :
    Shape o.regexAccepts a.root = true := by
  obtain ⟨s, hrun, _⟩ := parse_ok_no_error o bytes a h
  unfold Parse.run parseTop at hrun
  rw [bind_apply] at hrun
  cases hb : parseBody o (fuelFor bytes) { lx := LState.init bytes, la := none } with
  | ok v s1 =>
    rw [hb] at hrun
    obtain ⟨lax, isPred, root⟩ := v
    simp only at hrun
    obtain ⟨ha, he⟩ := finish_some_noerr o lax isPred root s1 s a hrun
    have := sp_parseBody o (fuelFor bytes) _ _ _ hb he
    rw [ha]
    exact this.2
  | syn => rw [hb] at hrun; simp at hrun
  | panic => rw [hb] at hrun; simp at hrun
  | fuel => rw [hb] at hrun; simp at hrun

end grammar

end parser

/-! ## parser-accepted trees in the declarative semantics -/

/-- **every accepted tree without `.keyvalue()` is the translation of a path of the semantics** -/
theorem parsed_in_sem (po : Oracles) (bytes : List UInt8) (a : AST) (hp : Parse.parse po bytes = .ok a)
    (hk : noKeyvalue a.root = true) : SemShape a.root = true := by
  obtain ⟨p, hp', _⟩ := shape_sem a.root (parse_ok_Shape po bytes a hp) hk
  simp [SemShape, hp']

/-- … explicitly: there is a path `p` with `ofNode a.root = some p`, `p.toNode = some a.root` -/
theorem parsed_path (po : Oracles) (bytes : List UInt8) (a : AST) (hp : Parse.parse po bytes = .ok a)
    (hk : noKeyvalue a.root = true) : ∃ p : Path, ofNode a.root = some p ∧ p.toNode = some a.root ∧ p.nonEmpty = true := by
  obtain ⟨p, hp', _⟩ := shape_sem a.root (parse_ok_Shape po bytes a hp) hk
  exact ⟨p, hp', ofNode_toNode _ _ hp', ofNode_nonEmpty hp'⟩

/-- a tree of the grammar that obeys the parser's `last` rule is well formed for the refinement theorems
    unless `last` is rebound or an `exists` operand ends in a sign -/
theorem shape_wfNode {n : Node} (hs : Shape rx n = true) (hl : ParseLemmas.lastOK n false = true)
    (hk : noKeyvalue n = true) (hr : lastRebinding n = false) (he : existsEndsInSign n = false) :
    wfNode n = true := by
  obtain ⟨p, hp, hw⟩ := shape_sem n hs hk
  have h1 : lastDyn n false = true := by rw [lastDyn_of_lastOK hl, hr]; rfl
  have h2 : existsOK n = true := by simpa [existsEndsInSign] using he
  simp [wfNode, hp, hw false h1 h2, ofNode_nonEmpty hp]

/-- **an accepted tree without `.keyvalue()`, without rebinding of `last` and without an `exists` operand
    that ends in a sign satisfies the side conditions of the refinement theorems** -/
theorem parsed_wf_sem (po : Oracles) (bytes : List UInt8) (a : AST) (hp : Parse.parse po bytes = .ok a)
    (hk : noKeyvalue a.root = true) (hr : lastRebinding a.root = false) (he : existsEndsInSign a.root = false) :
    wfNode a.root = true :=
  shape_wfNode (parse_ok_Shape po bytes a hp) (ParseLemmas.parse_ok_rules po bytes a hp).2 hk hr he

/-- what `wfNode` says -/
theorem wfNode_spec {n : Node} (h : wfNode n = true) :
    ∃ p : Path, ofNode n = some p ∧ p.toNode = some n ∧ p.wf false = true ∧ p.nonEmpty = true := by
  unfold wfNode at h
  cases hp : ofNode n with
  | none => simp [hp] at h
  | some p =>
    simp only [hp, Bool.and_eq_true] at h
    exact ⟨p, rfl, ofNode_toNode _ _ hp, h.1, h.2⟩

/-! ## the `like_regex` patterns of a tree -/

mutual
  /-- every `like_regex` node of the tree has a pattern (with flags) in `rx` -/
  def rxNode (rx : List Char → Nat → Bool) : Node → Bool
    | .const _ nx => rxNodeO rx nx
    | .method _ nx => rxNodeO rx nx
    | .str _ nx => rxNodeO rx nx
    | .var _ nx => rxNodeO rx nx
    | .key _ nx => rxNodeO rx nx
    | .numeric _ nx => rxNodeO rx nx
    | .integer _ nx => rxNodeO rx nx
    | .any _ _ nx => rxNodeO rx nx
    | .binary _ l r nx => rxNodeO rx l && rxNodeO rx r && rxNodeO rx nx
    | .unary _ x nx => rxNodeO rx x && rxNodeO rx nx
    | .regex x p fl nx => rx p fl && rxNode rx x && rxNodeO rx nx
    | .arrayIndex subs nx => rxNodeL rx subs && rxNodeO rx nx
  def rxNodeO (rx : List Char → Nat → Bool) : Option Node → Bool
    | none => true
    | some n => rxNode rx n
  def rxNodeL (rx : List Char → Nat → Bool) : List Node → Bool
    | [] => true
    | n :: ns => rxNode rx n && rxNodeL rx ns
end

theorem rxNodeO_of_isIntLitO {o : Option Node} (h : isIntLitO o = true) : rxNodeO rx o = true := by
  cases o with
  | none => rfl
  | some n =>
    cases n <;> simp [isIntLitO, isIntLit] at h
    rename_i i nx
    cases nx <;> simp at h
    simp [rxNodeO, rxNode]

theorem rxNodeO_of_isLitO {o : Option Node} (h : isLitO o = true) : rxNodeO rx o = true := by
  cases o with
  | none => rfl
  | some n =>
    obtain ⟨a, ha⟩ := litOfO_of_isLitO h
    simp only [litOfO, Option.map_eq_some_iff] at ha
    obtain ⟨l, hl, _⟩ := ha
    rw [← litOf_node hl]
    cases l with
    | bool b => cases b <;> simp [Lit.node, rxNodeO, rxNode]
    | _ => simp [Lit.node, rxNodeO, rxNode]

theorem binOK_rx {op : BinOp} {l r : Option Node} {sl sr bl br : Bool} {A B : Prop}
    (hsl : sl = true → A) (hbl : bl = true → A) (hil : isIntLitO l = true → A)
    (hsr : sr = true → B) (hbr : br = true → B) (hir : isIntLitO r = true → B)
    (h : binOK op l r sl sr bl br = true) : A ∧ B := by
  cases op <;> simp [binOK, binBOK, Exec.Total.isConn, Exec.Total.isPredOp, Exec.isMathBinOp] at h <;>
    first
      | exact ⟨hsl h.1, hsr h.2⟩
      | exact ⟨hbl h.1, hbr h.2⟩
      | exact ⟨hil h.1, hir h.2⟩

theorem binBOK_rx {op : BinOp} {sl sr bl br : Bool} {A B : Prop}
    (hsl : sl = true → A) (hbl : bl = true → A) (hsr : sr = true → B) (hbr : br = true → B)
    (h : binBOK op sl sr bl br = true) : A ∧ B := by
  cases op <;> simp [binBOK, Exec.Total.isConn, Exec.Total.isPredOp] at h <;>
    first
      | exact ⟨hsl h.1, hsr h.2⟩
      | exact ⟨hbl h.1, hbr h.2⟩

theorem unOK_rx {op : UnOp} {x : Option Node} {sx bx : Bool} {A : Prop}
    (hs : sx = true → A) (hb : bx = true → A) (hi : isLitO x = true → A)
    (h : unOK op x sx bx = true) : A := by
  cases op <;> simp [unOK] at h <;> first | exact hs h | exact hb h | exact hi h

theorem unBOK_rx {op : UnOp} {sx bx : Bool} {A : Prop}
    (hs : sx = true → A) (hb : bx = true → A) (h : unBOK op sx bx = true) : A := by
  cases op <;> simp [unBOK] at h <;> first | exact hs h | exact hb h

mutual
  /-- a tree of the grammar has its patterns in `rx` -/
  theorem shape_rx : ∀ n : Node, Shape rx n = true → rxNode rx n = true
    | .const _ nx, h => by simp only [Shape, rxNode] at h ⊢; exact shapeO_rx nx h
    | .method _ nx, h => by simp only [Shape, rxNode] at h ⊢; exact shapeO_rx nx h
    | .str _ nx, h => by simp only [Shape, rxNode] at h ⊢; exact shapeO_rx nx h
    | .var _ nx, h => by simp only [Shape, rxNode] at h ⊢; exact shapeO_rx nx h
    | .key _ nx, h => by simp only [Shape, rxNode] at h ⊢; exact shapeO_rx nx h
    | .numeric _ nx, h => by simp only [Shape, rxNode] at h ⊢; exact shapeO_rx nx h
    | .integer _ nx, h => by simp only [Shape, rxNode] at h ⊢; exact shapeO_rx nx h
    | .any _ _ nx, h => by simp only [Shape, rxNode] at h ⊢; exact shapeO_rx nx h
    | .binary op l r nx, h => by
      simp only [Shape, rxNode, Bool.and_eq_true] at h ⊢
      exact ⟨binOK_rx (shapeS_rx l) (shapeBO_rx l) rxNodeO_of_isIntLitO (shapeS_rx r) (shapeBO_rx r)
        rxNodeO_of_isIntLitO h.1, shapeO_rx nx h.2⟩
    | .unary op x nx, h => by
      simp only [Shape, rxNode, Bool.and_eq_true] at h ⊢
      exact ⟨unOK_rx (shapeS_rx x) (shapeBO_rx x) rxNodeO_of_isLitO h.1, shapeO_rx nx h.2⟩
    | .regex x p fl nx, h => by
      simp only [Shape, rxNode, Bool.and_eq_true] at h ⊢
      exact ⟨⟨h.1.1, shape_rx x h.1.2⟩, shapeO_rx nx h.2⟩
    | .arrayIndex subs nx, h => by
      simp only [Shape, rxNode, Bool.and_eq_true] at h ⊢
      exact ⟨shapeL_rx subs h.1, shapeO_rx nx h.2⟩
  theorem shapeO_rx : ∀ o : Option Node, ShapeO rx o = true → rxNodeO rx o = true
    | none, _ => rfl
    | some n, h => by simp only [ShapeO, rxNodeO] at h ⊢; exact shape_rx n h
  theorem shapeS_rx : ∀ o : Option Node, ShapeS rx o = true → rxNodeO rx o = true
    | none, _ => rfl
    | some n, h => by simp only [ShapeS, rxNodeO] at h ⊢; exact shape_rx n h
  /-- a boolean node: the patterns of the node itself (not of what is chained to it) -/
  theorem shapeB_rx : ∀ n : Node, ShapeB rx n = true → rxNode rx (n.setNext none) = true
    | .binary op l r nx, h => by
      simp only [ShapeB, Node.setNext, rxNode, rxNodeO, Bool.and_eq_true, and_true] at h ⊢
      exact binBOK_rx (shapeS_rx l) (shapeBO_rx l) (shapeS_rx r) (shapeBO_rx r) h
    | .unary op x nx, h => by
      simp only [ShapeB, Node.setNext, rxNode, rxNodeO, Bool.and_eq_true, and_true] at h ⊢
      exact unBOK_rx (shapeS_rx x) (shapeBO_rx x) h
    | .regex x p fl nx, h => by
      simp only [ShapeB, Node.setNext, rxNode, rxNodeO, Bool.and_eq_true, and_true] at h ⊢
      exact ⟨h.1, shape_rx x h.2⟩
    | .const .., h => by simp [ShapeB] at h
    | .method .., h => by simp [ShapeB] at h
    | .str .., h => by simp [ShapeB] at h
    | .var .., h => by simp [ShapeB] at h
    | .key .., h => by simp [ShapeB] at h
    | .numeric .., h => by simp [ShapeB] at h
    | .integer .., h => by simp [ShapeB] at h
    | .any .., h => by simp [ShapeB] at h
    | .arrayIndex .., h => by simp [ShapeB] at h
  theorem shapeBO_rx : ∀ o : Option Node, ShapeBO rx o = true → rxNodeO rx o = true
    | none, _ => rfl
    | some n, h => by
      simp only [ShapeBO, Bool.and_eq_true] at h
      have h1 := shapeB_rx n h.1
      have h2 : n.next = none := by simpa using h.2
      rw [← h2, ParseWF.setNext_next] at h1
      simpa [rxNodeO] using h1
  theorem shapeL_rx : ∀ l : List Node, ShapeL rx l = true → rxNodeL rx l = true
    | [], _ => rfl
    | .binary op l r nx :: rest, h => by
      cases op <;> cases nx <;> simp only [ShapeL, Bool.and_eq_true] at h <;> (try (cases h; done))
      simp only [rxNodeL, rxNode, rxNodeO, Bool.and_eq_true, and_true]
      exact ⟨⟨shapeS_rx l h.1.1, shapeO_rx r h.1.2⟩, shapeL_rx rest h.2⟩
    | .const .. :: _, h => by simp [ShapeL] at h
    | .method .. :: _, h => by simp [ShapeL] at h
    | .str .. :: _, h => by simp [ShapeL] at h
    | .var .. :: _, h => by simp [ShapeL] at h
    | .key .. :: _, h => by simp [ShapeL] at h
    | .numeric .. :: _, h => by simp [ShapeL] at h
    | .integer .. :: _, h => by simp [ShapeL] at h
    | .any .. :: _, h => by simp [ShapeL] at h
    | .unary .. :: _, h => by simp [ShapeL] at h
    | .regex .. :: _, h => by simp [ShapeL] at h
    | .arrayIndex .. :: _, h => by simp [ShapeL] at h
end

end SemLink
end Sqljson

/-! # The regex oracle: a run that did not panic does not depend on the patterns that do not compile

`Ctx.regexMatch pat fl t = none` stands for a pattern that does not compile (`regexp.MustCompile` panics).
`C01b` asks (`CbOK`) that *every* pattern compiles.  Here: an oracle `r'` that answers what the given one
answers wherever that answers at all (`Extends`) yields the same run, provided the run did not panic
(`execute_congr`, `existsRun_congr`, `queryWith_congr`, …).  The proof is the one of fuel monotonicity
(`Lemmas/Fuel.lean`, part 1) with the sticky flag `panicked` in place of `oof`: relation `Sim`, one lemma per
Go function, loops by `foldl_sim`, induction on the fuel; the two contexts differ only in the callback of
`like_regex` (`likeRegex_ext`, `executePredicate_sim` for two callbacks). -/

namespace Sqljson
namespace SemLink
namespace Rx
open Sqljson.Exec

/-! ## the relation -/

/-- the `oof` flag a value carries (a result's state; for a loop accumulator the state of the early
    return if there is one, else the loop state) -/
class HasPk (α : Type) where
  pkOf : α → Bool
export HasPk (pkOf)

/-- the flag of a loop accumulator with early return `ret` and loop state `st` -/
def retPk (ret : Option Res) (st : St) : Bool :=
  match ret with
  | some r => r.st.panicked
  | none => st.panicked

@[simp] theorem retPk_some (r : Res) (st : St) : retPk (some r) st = r.st.panicked := rfl
@[simp] theorem retPk_none (st : St) : retPk none st = st.panicked := rfl

instance : HasPk Res := ⟨fun r => r.st.panicked⟩
instance : HasPk PRes := ⟨fun r => r.st.panicked⟩
instance {β : Type} : HasPk (St × β) := ⟨fun p => p.1.panicked⟩
instance : HasPk UAcc := ⟨fun a => retPk a.ret a.st⟩
instance : HasPk KVAcc := ⟨fun a => retPk a.ret a.st⟩
instance : HasPk AAcc := ⟨fun a => retPk a.ret a.st⟩
instance : HasPk IAcc := ⟨fun a => retPk a.ret a.st⟩

@[simp] theorem pkOf_res (r : Res) : pkOf r = r.st.panicked := rfl
@[simp] theorem pkOf_pres (r : PRes) : pkOf r = r.st.panicked := rfl
@[simp] theorem pkOf_pair {β : Type} (p : St × β) : pkOf p = p.1.panicked := rfl
@[simp] theorem pkOf_uacc (a : UAcc) : pkOf a = retPk a.ret a.st := rfl
@[simp] theorem pkOf_kvacc (a : KVAcc) : pkOf a = retPk a.ret a.st := rfl
@[simp] theorem pkOf_aacc (a : AAcc) : pkOf a = retPk a.ret a.st := rfl
@[simp] theorem pkOf_iacc (a : IAcc) : pkOf a = retPk a.ret a.st := rfl

/-- `r₁` is the reference run, started with `oof = b`: if it finished (`oof = false` at the end) then
    it started with `oof = false` and the other run `r₂` returned the same -/
def Sim {α : Type} [HasPk α] (b : Bool) (r₁ r₂ : α) : Prop :=
  pkOf r₁ = false → b = false ∧ r₂ = r₁

theorem Sim.refl {α : Type} [HasPk α] {b : Bool} {r : α} (h : pkOf r = false → b = false) : Sim b r r :=
  fun h' => ⟨h h', rfl⟩

theorem Sim.mono {α : Type} [HasPk α] {b b' : Bool} {r₁ r₂ : α} (h : Sim b r₁ r₂)
    (hb : b = false → b' = false) : Sim b' r₁ r₂ :=
  fun h' => ⟨hb (h h').1, (h h').2⟩

/-- sequencing: the two runs make related calls `a₁`, `a₂` and continue with `K₂`; it suffices to
    relate the continuation of the reference run with the other run's continuation *on the reference
    run's value*, started from that value's flag -/
theorem Sim.subst' {α β : Type} [HasPk α] [HasPk β] {b b' : Bool} {a₁ a₂ : α} {R₁ : β} (K₂ : α → β)
    (hr : Sim b a₁ a₂) (hb : b = false → b' = false) (h : Sim (pkOf a₁) R₁ (K₂ a₁)) :
    Sim b' R₁ (K₂ a₂) := by
  intro h'
  obtain ⟨h1, h2⟩ := h h'
  obtain ⟨h3, h4⟩ := hr h1
  exact ⟨hb h3, by rw [h4]; exact h2⟩

def SimI (i₁ i₂ : ItemK) : Prop := ∀ s n v f u, Sim s.panicked (i₁ s n v f u) (i₂ s n v f u)
def SimB (b₁ b₂ : BoolK) : Prop := ∀ s n v b, Sim s.panicked (b₁ s n v b) (b₂ s n v b)
def SimA (a₁ a₂ : AnyK) : Prop :=
  ∀ s n vs f l a b i u, Sim s.panicked (a₁ s n vs f l a b i u) (a₂ s n vs f l a b i u)

/-! ## tactics -/

open Lean Elab Tactic Meta in
/-- `h : Sim b call₁ call₂` (holes allowed), goal `Sim b' R₁ R₂`.  Abstracts `call₂` in `R₂` and applies
    `Sim.subst'`; new goals: `b = false → b' = false` and `Sim (pkOf call₁) R₁ R₂[call₂ := call₁]`.
    With a name, `call₁` is generalized to a variable of that name in the latter. -/
def rxCallCore (h : Syntax) (name? : Option Name) : TacticM Unit := withMainContext do
  let goal ← getMainGoal
  let e ← elabTerm h none
  let t ← whnfR (← instantiateMVars (← inferType e))
  unless t.isAppOfArity ``Sim 5 do throwError "rx_call: not a `Sim`:{indentExpr t}"
  let tgt ← whnfR (← instantiateMVars (← goal.getType))
  unless tgt.isAppOfArity ``Sim 5 do throwError "rx_call: the goal is not a `Sim`:{indentExpr tgt}"
  let ta := t.getAppArgs
  let ga := tgt.getAppArgs
  let abs ← kabstract ga[4]! ta[4]!
  unless abs.hasLooseBVars do
    throwError "rx_call: the call{indentExpr ta[4]!}\ndoes not occur in the right-hand run"
  let K₂ := mkLambda `x .default ta[0]! abs
  let e ← instantiateMVars e
  let a₁ ← instantiateMVars ta[3]!
  let head ← mkAppOptM ``Sim.subst' #[none, none, none, none, none, some ga[2]!, none, none, some ga[3]!,
    some K₂, some e]
  let gs ← goal.apply head
  match gs with
  | [g1, g2] =>
    let ty ← instantiateMVars (← g2.getType)
    let g2 ← g2.replaceTargetDefEq (← Core.betaReduce ty)
    match name? with
    | some name =>
      let (_, g2) ← g2.generalize #[{ expr := a₁, xName? := some name }]
      replaceMainGoal [g1, g2]
    | none => replaceMainGoal [g1, g2]
  | _ => throwError "rx_call: unexpected goals"

elab "rx_call_core " h:term : tactic => rxCallCore h none
elab "rx_call_core " h:term " with " x:ident : tactic => rxCallCore h (some x.getId)

/-- the side goal `b = false → b' = false` of a call -/
macro "rx_hb" : tactic =>
  `(tactic| first | exact id | (intro hh; simp_all; done) | (intro hh; split at hh <;> simp_all; done))

/-- synchronize the next call of the two runs -/
macro "rx_call " h:term : tactic => `(tactic| (rx_call_core $h; (· rx_hb)))
macro "rx_call " h:term " with " x:ident : tactic => `(tactic| (rx_call_core $h with $x; (· rx_hb)))

/-- both runs return the same expression; what remains is stickiness of that expression -/
macro "rx_refl" : tactic => `(tactic| (refine Sim.refl ?_; (repeat' split) <;> (simp_all; done)))

/-- split both runs in lock step until the leaves are equal or the one call `h` away from equal -/
syntax "rx_auto " term : tactic
macro_rules
  | `(tactic| rx_auto $h) =>
    `(tactic| first | rx_refl | (rx_call $h with r; rx_refl) | (split <;> rx_auto $h))

/-- both runs end in related calls -/
macro "rx_tail " h:term : tactic => `(tactic| (refine Sim.mono $h ?_; rx_hb))

/-! ## leaves: functions that only pass the state through -/

@[simp] theorem returnVerboseError_st (s : St) (f : Found) : (returnVerboseError s f).st = s := by
  unfold returnVerboseError; split <;> rfl

@[simp] theorem returnError_st (s : St) (f : Found) (e : Err) : (returnError s f e).st = s := by
  unfold returnError; split <;> rfl

@[simp] theorem structural_st (s : St) (f : Found) : (structural s f).st = s := by
  unfold structural; split <;> simp

theorem predicateTail_pk (c : Ctx) (s : St) (cb : Item → Item → CbOut) (ls rs : List Item) :
    (predicateTail c s cb ls rs).st.panicked = false → s.panicked = false := by
  unfold predicateTail
  dsimp only
  repeat' split
  all_goals simp_all

@[simp] theorem kvEnter_pk (c : Ctx) (st : St) (obj : Item) : (kvEnter c st obj).panicked = st.panicked := rfl

theorem poll_pk {s s' : St} (h : poll s = some s') : s'.panicked = s.panicked := by
  unfold poll at h
  split at h
  · simp at h; subst h; rfl
  · simp at h
  · simp at h; subst h; rfl

/-- two loops whose bodies are related -/
theorem foldl_sim {α β : Type} [HasPk β] (step₁ step₂ : β → α → β)
    (h : ∀ b x, Sim (pkOf b) (step₁ b x) (step₂ b x)) (xs : List α) (b : β) :
    Sim (pkOf b) (xs.foldl step₁ b) (xs.foldl step₂ b) := by
  induction xs generalizing b with
  | nil => exact Sim.refl (fun h => h)
  | cons x xs ih =>
    simp only [List.foldl_cons]
    exact Sim.subst' (fun y => xs.foldl step₂ y) (h b x) id (ih (step₁ b x))

/-! ## one lemma per function -/

section
variable (c : Ctx) {i₁ i₂ : ItemK} {b₁ b₂ : BoolK} {a₁ a₂ : AnyK}

theorem executeItem_sim (hI : SimI i₁ i₂) (s : St) (n : Node) (v : Item) (f : Found) :
    Sim s.panicked (executeItem c i₁ s n v f) (executeItem c i₂ s n v f) := hI _ _ _ _ _

theorem executeNextItem_sim (hI : SimI i₁ i₂) (s : St) (nx : Option Node) (v : Item) (f : Found) :
    Sim s.panicked (executeNextItem c i₁ s nx v f) (executeNextItem c i₂ s nx v f) := by
  unfold executeNextItem
  split
  · exact executeItem_sim c hI _ _ _ _
  · rx_refl

theorem withBaseObject_sim (s : St) (a : Nat) (i : Int) (k₁ k₂ : St → Res)
    (hk : ∀ s' : St, Sim s'.panicked (k₁ s') (k₂ s')) :
    Sim s.panicked (withBaseObject s a i k₁) (withBaseObject s a i k₂) := by
  unfold withBaseObject
  dsimp only
  rx_call (hk { s with baseAddr := a, baseId := i })
  rx_refl

theorem execLiteral_sim (hI : SimI i₁ i₂) (s : St) (nx : Option Node) (v : Item) (f : Found) :
    Sim s.panicked (execLiteral c i₁ s nx v f) (execLiteral c i₂ s nx v f) := by
  unfold execLiteral
  split
  · rx_refl
  · exact executeNextItem_sim c hI _ _ _ _

theorem execVariable_sim (hI : SimI i₁ i₂) (s : St) (name : List Char) (nx : Option Node) (f : Found) :
    Sim s.panicked (execVariable c i₁ s name nx f) (execVariable c i₂ s name nx f) := by
  unfold execVariable
  split
  · exact withBaseObject_sim _ _ _ _ _ (fun s' => executeNextItem_sim c hI s' _ _ _)
  · rx_refl

theorem unwrapTargetArray_sim (hA : SimA a₁ a₂) (s : St) (n : Node) (xs : List Item) (f : Found) :
    Sim s.panicked (unwrapTargetArray a₁ s n xs f) (unwrapTargetArray a₂ s n xs f) := hA _ _ _ _ _ _ _ _ _

theorem execKeyNode_sim (hI : SimI i₁ i₂) (hA : SimA a₁ a₂) (s : St) (n : Node) (key : List Char)
    (nx : Option Node) (v : Item) (f : Found) (unwrap : Bool) :
    Sim s.panicked (execKeyNode c i₁ a₁ s n key nx v f unwrap) (execKeyNode c i₂ a₂ s n key nx v f unwrap) := by
  unfold execKeyNode
  split
  · split
    · exact executeNextItem_sim c hI _ _ _ _
    · rx_refl
  · split
    · exact hA _ _ _ _ _ _ _ _ _
    · rx_refl
  · rx_refl

theorem execAnyKey_sim (hA : SimA a₁ a₂) (s : St) (n : Node) (nx : Option Node) (v : Item) (f : Found)
    (unwrap : Bool) :
    Sim s.panicked (execAnyKey c a₁ s n nx v f unwrap) (execAnyKey c a₂ s n nx v f unwrap) := by
  unfold execAnyKey
  split
  · exact hA _ _ _ _ _ _ _ _ _
  · split
    · exact unwrapTargetArray_sim hA _ _ _ _
    · rx_refl
  · rx_refl

theorem execAnyArray_sim (hI : SimI i₁ i₂) (hA : SimA a₁ a₂) (s : St) (nx : Option Node) (v : Item)
    (f : Found) : Sim s.panicked (execAnyArray c i₁ a₁ s nx v f) (execAnyArray c i₂ a₂ s nx v f) := by
  unfold execAnyArray
  split
  · exact hA _ _ _ _ _ _ _ _ _
  · split
    · exact executeNextItem_sim c hI _ _ _ _
    · rx_refl

theorem execLastConst_sim (hI : SimI i₁ i₂) (s : St) (nx : Option Node) (f : Found) :
    Sim s.panicked (execLastConst c i₁ s nx f) (execLastConst c i₂ s nx f) := by
  unfold execLastConst
  split
  · rx_refl
  · split
    · rx_refl
    · exact executeNextItem_sim c hI _ _ _ _

theorem execConstNode_sim (hI : SimI i₁ i₂) (hA : SimA a₁ a₂) (s : St) (n : Node) (k : Const)
    (nx : Option Node) (v : Item) (f : Found) (unwrap : Bool) :
    Sim s.panicked (execConstNode c i₁ a₁ s n k nx v f unwrap) (execConstNode c i₂ a₂ s n k nx v f unwrap) := by
  unfold execConstNode
  cases k <;> simp only
  all_goals first
    | exact withBaseObject_sim _ _ _ _ _ (fun s' => executeNextItem_sim c hI s' _ _ _)
    | exact executeNextItem_sim c hI _ _ _ _
    | exact execLastConst_sim c hI _ _ _
    | exact execAnyArray_sim c hI hA _ _ _ _
    | exact execAnyKey_sim c hA _ _ _ _ _ _
    | exact execLiteral_sim c hI _ _ _ _

/-! ### operand evaluation -/

theorem optUnwrapResult_sim (hI : SimI i₁ i₂) (s : St) (n : Node) (v : Item) (unwrap : Bool) (l : List Item) :
    Sim s.panicked (optUnwrapResult c i₁ s n v unwrap l) (optUnwrapResult c i₂ s n v unwrap l) := by
  unfold optUnwrapResult
  split
  · dsimp only
    rx_call (executeItem_sim c hI s n v (some [])) with r
    rx_refl
  · exact executeItem_sim c hI _ _ _ _

theorem optUnwrapResultSilent_sim (hI : SimI i₁ i₂) (s : St) (n : Node) (v : Item) (unwrap : Bool) (f : Found) :
    Sim s.panicked (optUnwrapResultSilent c i₁ s n v unwrap f) (optUnwrapResultSilent c i₂ s n v unwrap f) := by
  unfold optUnwrapResultSilent
  cases f with
  | some l =>
    dsimp only
    rx_call (optUnwrapResult_sim c hI { s with verbose := false } n v unwrap l) with r
    rx_refl
  | none =>
    dsimp only
    rx_call (executeItem_sim c hI { s with verbose := false } n v none) with r
    rx_refl

/-! ### predicates -/

/-- the second callback answers what the first answers whenever the first does not panic -/
def CbExt (cb₁ cb₂ : Item → Item → CbOut) : Prop := ∀ l r, cb₁ l r ≠ .panic → cb₂ l r = cb₁ l r

theorem CbExt.refl (cb : Item → Item → CbOut) : CbExt cb cb := fun _ _ _ => rfl

/-- the pair loop has recorded a panic of the callback -/
def PkDone (a : PairAcc) : Prop := ∃ p e, a.done = some (p, e, true)

/-- the accumulators of the two pair loops: equal, unless the first has recorded a panic -/
def PairRel (a₁ a₂ : PairAcc) : Prop := PkDone a₁ ∨ a₂ = a₁

theorem pairStep_rel (strict : Bool) {cb₁ cb₂ : Item → Item → CbOut} (h : CbExt cb₁ cb₂) (a₁ a₂ : PairAcc)
    (l r : Item) (ha : PairRel a₁ a₂) : PairRel (pairStep strict cb₁ a₁ l r) (pairStep strict cb₂ a₂ l r) := by
  rcases ha with ⟨p, e, hd⟩ | rfl
  · left
    refine ⟨p, e, ?_⟩
    unfold pairStep
    simp [hd]
  · cases hd : a₂.done with
    | some d => right; unfold pairStep; simp [hd]
    | none =>
      cases hc : cb₁ l r with
      | panic => left; exact ⟨.unknown, some .invalid, by unfold pairStep; simp [hd, hc]⟩
      | val p e =>
        right
        have := h l r (by rw [hc]; simp)
        unfold pairStep
        simp only [hd, this]

theorem foldl_rel {α β : Type} (R : β → β → Prop) (f g : β → α → β)
    (h : ∀ b b' x, R b b' → R (f b x) (g b' x)) (xs : List α) (b b' : β) (hb : R b b') :
    R (xs.foldl f b) (xs.foldl g b') := by
  induction xs generalizing b b' with
  | nil => exact hb
  | cons x xs ih => exact ih _ _ (h b b' x hb)

theorem pairLoop_rel (strict : Bool) {cb₁ cb₂ : Item → Item → CbOut} (h : CbExt cb₁ cb₂) (ls rs : List Item) :
    PairRel (pairLoop strict cb₁ ls rs) (pairLoop strict cb₂ ls rs) := by
  unfold pairLoop
  refine foldl_rel PairRel _ _ (fun b b' l hb => ?_) ls _ _ (Or.inr rfl)
  exact foldl_rel PairRel _ _ (fun b b' r hb => pairStep_rel strict h b b' l r hb) rs _ _ hb

theorem predicateTail_sim (s : St) {cb₁ cb₂ : Item → Item → CbOut} (h : CbExt cb₁ cb₂) (ls rs : List Item) :
    Sim s.panicked (predicateTail c s cb₁ ls rs) (predicateTail c s cb₂ ls rs) := by
  intro hp
  refine ⟨predicateTail_pk c s cb₁ ls rs hp, ?_⟩
  rcases pairLoop_rel (!c.lax) h ls rs with ⟨p, e, hd⟩ | heq
  · exfalso
    simp only [pkOf] at hp
    unfold predicateTail at hp
    simp [hd] at hp
  · unfold predicateTail
    simp only [heq]

theorem executePredicate_sim (hI : SimI i₁ i₂) (s : St) (left : Node) (right : Option Node) (v : Item)
    (unwrapRight : Bool) {cb₁ cb₂ : Item → Item → CbOut} (hcb : CbExt cb₁ cb₂) :
    Sim s.panicked (executePredicate c i₁ s left right v unwrapRight cb₁)
      (executePredicate c i₂ s left right v unwrapRight cb₂) := by
  unfold executePredicate
  dsimp only
  rx_call (optUnwrapResultSilent_sim c hI s left v true (some [])) with rl
  split
  · rx_refl
  · split
    · rx_call (optUnwrapResultSilent_sim c hI rl.st _ v unwrapRight (some [])) with rr
      split
      · rx_refl
      · exact predicateTail_sim c _ hcb _ _
    · exact predicateTail_sim c _ hcb _ _

theorem executeBinaryBoolItem_sim (hI : SimI i₁ i₂) (hB : SimB b₁ b₂) (s : St) (op : BinOp)
    (l r : Option Node) (v : Item) :
    Sim s.panicked (executeBinaryBoolItem c i₁ b₁ s op l r v) (executeBinaryBoolItem c i₂ b₂ s op l r v) := by
  unfold executeBinaryBoolItem
  split
  · rx_refl
  · rename_i ln
    split
    · split
      · rx_refl
      · rename_i rn
        dsimp only
        rx_call (hB s ln v false) with a
        split
        · rx_refl
        · rx_call (hB a.st rn v false) with b
          rx_refl
    · split
      · rx_refl
      · rename_i rn
        dsimp only
        rx_call (hB s ln v false) with a
        split
        · rx_refl
        · rx_call (hB a.st rn v false) with b
          rx_refl
    · exact executePredicate_sim c hI _ _ _ _ _ (CbExt.refl _)
    · split
      · exact executePredicate_sim c hI _ _ _ _ _ (CbExt.refl _)
      · rx_refl

theorem executeUnaryBoolItem_sim (hI : SimI i₁ i₂) (hB : SimB b₁ b₂) (s : St) (op : UnOp)
    (x : Option Node) (v : Item) :
    Sim s.panicked (executeUnaryBoolItem c i₁ b₁ s op x v) (executeUnaryBoolItem c i₂ b₂ s op x v) := by
  unfold executeUnaryBoolItem
  split
  · rename_i xn
    dsimp only
    rx_call (hB s xn v false) with a
    rx_refl
  · rename_i xn
    dsimp only
    rx_call (hB s xn v false) with a
    rx_refl
  · rename_i xn
    split
    · dsimp only
      rx_call (optUnwrapResultSilent_sim c hI s xn v false (some [])) with r
      rx_refl
    · dsimp only
      rx_call (optUnwrapResultSilent_sim c hI s xn v false none) with r
      rx_refl
  · rx_refl
  · rx_refl
  · rx_refl
  · rx_refl

theorem executeBoolItem_sim (hI : SimI i₁ i₂) (hB : SimB b₁ b₂) (s : St) (n : Node) (v : Item) (chn : Bool) :
    Sim s.panicked (executeBoolItem c i₁ b₁ s n v chn) (executeBoolItem c i₂ b₂ s n v chn) := by
  unfold executeBoolItem
  split
  · rx_refl
  · split
    · exact executeBinaryBoolItem_sim c hI hB _ _ _ _ _
    · exact executeUnaryBoolItem_sim c hI hB _ _ _ _
    · exact executePredicate_sim c hI _ _ _ _ _ (CbExt.refl _)
    · rx_refl

theorem appendBoolResult_sim (hI : SimI i₁ i₂) (nx : Option Node) (f : Found) (p : PRes) :
    Sim p.st.panicked (appendBoolResult c i₁ nx f p) (appendBoolResult c i₂ nx f p) := by
  unfold appendBoolResult
  split
  · rx_refl
  · split
    · rx_refl
    · exact executeNextItem_sim c hI _ _ _ _

/-- `appendBoolResult` applied to related predicate runs -/
theorem appendBoolResult_sim' (hI : SimI i₁ i₂) (nx : Option Node) (f : Found) {b : Bool} {p₁ p₂ : PRes}
    (hp : Sim b p₁ p₂) : Sim b (appendBoolResult c i₁ nx f p₁) (appendBoolResult c i₂ nx f p₂) :=
  Sim.subst' (fun p => appendBoolResult c i₂ nx f p) hp id (appendBoolResult_sim c hI nx f p₁)

theorem executeNestedBoolItem_sim (hB : SimB b₁ b₂) (s : St) (n : Node) (v : Item) :
    Sim s.panicked (executeNestedBoolItem b₁ s n v) (executeNestedBoolItem b₂ s n v) := by
  unfold executeNestedBoolItem
  dsimp only
  rx_call (hB { s with current := v } n v false) with r
  rx_refl

/-! ### arithmetic -/

theorem unaryStep_sim (hI : SimI i₁ i₂) (cb : Num.UCallback) (nx : Option Node) (a : UAcc) (v : Item) :
    Sim (pkOf a) (unaryStep c i₁ cb nx a v) (unaryStep c i₂ cb nx a v) := by
  unfold unaryStep
  split
  · exact Sim.refl (fun h => h)
  · dsimp only
    rx_auto (executeNextItem_sim c hI a.st nx _ a.found)

theorem execUnaryMathExpr_sim (hI : SimI i₁ i₂) (s : St) (operand nx : Option Node) (v : Item)
    (cb : Num.UCallback) (f : Found) :
    Sim s.panicked (execUnaryMathExpr c i₁ s operand nx v cb f) (execUnaryMathExpr c i₂ s operand nx v cb f) := by
  unfold execUnaryMathExpr
  split
  · rx_refl
  · rename_i x
    dsimp only
    rx_call (optUnwrapResult_sim c hI s x v true []) with r
    split
    · rx_refl
    · rx_call (foldl_sim _ _ (fun a v => unaryStep_sim c hI cb nx a v) (r.found.getD [])
        ⟨r.st, f, .notFound, none⟩) with a
      rx_refl

theorem execBinaryMathExpr_sim (hI : SimI i₁ i₂) (s : St) (op : BinOp) (l r nx : Option Node) (v : Item)
    (f : Found) :
    Sim s.panicked (execBinaryMathExpr c i₁ s op l r nx v f) (execBinaryMathExpr c i₂ s op l r nx v f) := by
  unfold execBinaryMathExpr
  split
  · rename_i ln rn
    dsimp only
    rx_call (optUnwrapResult_sim c hI s ln v true []) with rl
    split
    · rx_refl
    · split
      · rx_call (optUnwrapResult_sim c hI rl.st rn v true []) with rr
        split
        · rx_refl
        · split
          · split
            · rx_refl
            · split
              · rx_refl
              · split
                · rx_refl
                · rx_tail (executeNextItem_sim c hI _ _ _ _)
          · rx_refl
      · rx_refl
  · rx_refl

/-! ### item methods -/

theorem execMethodSize_sim (hI : SimI i₁ i₂) (s : St) (nx : Option Node) (v : Item) (f : Found) :
    Sim s.panicked (execMethodSize c i₁ s nx v f) (execMethodSize c i₂ s nx v f) := by
  unfold execMethodSize
  split
  · exact executeNextItem_sim c hI _ _ _ _
  · split
    · rx_refl
    · exact executeNextItem_sim c hI _ _ _ _

theorem execConvMethod_sim (hI : SimI i₁ i₂) (hA : SimA a₁ a₂) (s : St) (n : Node) (nx : Option Node)
    (v : Item) (f : Found) (unwrap : Bool) (conv : Item → Conv) :
    Sim s.panicked (execConvMethod c i₁ a₁ s n nx v f unwrap conv) (execConvMethod c i₂ a₂ s n nx v f unwrap conv) := by
  unfold execConvMethod
  split
  · split
    · exact unwrapTargetArray_sim hA _ _ _ _
    · rx_refl
  · split
    · exact executeNextItem_sim c hI _ _ _ _
    · rx_refl
    · rx_refl
    · rx_refl

theorem executeDateTimeMethod_sim (hI : SimI i₁ i₂) (s : St) (op : UnOp) (arg nx : Option Node) (v : Item)
    (f : Found) :
    Sim s.panicked (executeDateTimeMethod c i₁ s op arg nx v f) (executeDateTimeMethod c i₂ s op arg nx v f) := by
  unfold executeDateTimeMethod
  split
  · dsimp only
    split
    · rx_refl
    · split
      · rx_refl
      · split
        · rx_refl
        · exact executeNextItem_sim c hI _ _ _ _
  · rx_refl

theorem kvStep_sim (hI : SimI i₁ i₂) (nx : Option Node) (id : Int) (a : KVAcc) (kv : List Char × Item) :
    Sim (pkOf a) (kvStep c i₁ nx id a kv) (kvStep c i₂ nx id a kv) := by
  unfold kvStep
  split
  · exact Sim.refl (fun h => h)
  · dsimp only
    rx_call (executeNextItem_sim c hI (kvEnter c a.st (kvObj id kv)) nx (kvObj id kv) a.found) with r
    rx_refl

theorem executeKeyValueMethod_sim (hI : SimI i₁ i₂) (hA : SimA a₁ a₂) (s : St) (n : Node) (nx : Option Node)
    (v : Item) (f : Found) (unwrap : Bool) :
    Sim s.panicked (executeKeyValueMethod c i₁ a₁ s n nx v f unwrap)
      (executeKeyValueMethod c i₂ a₂ s n nx v f unwrap) := by
  unfold executeKeyValueMethod
  split
  · split
    · exact unwrapTargetArray_sim hA _ _ _ _
    · rx_refl
  · rename_i kvs
    split
    · rx_refl
    · split
      · rx_refl
      · dsimp only
        rx_call (foldl_sim _ _ (fun a kv => kvStep_sim c hI nx _ a kv) kvs ⟨s, f, .ok, none, false⟩) with a
        rx_refl
  · rx_refl

theorem execMethodNode_sim (hI : SimI i₁ i₂) (hA : SimA a₁ a₂) (s : St) (n : Node) (m : Method)
    (nx : Option Node) (v : Item) (f : Found) (unwrap : Bool) :
    Sim s.panicked (execMethodNode c i₁ a₁ s n m nx v f unwrap) (execMethodNode c i₂ a₂ s n m nx v f unwrap) := by
  unfold execMethodNode
  cases m <;> simp only
  all_goals first
    | exact execConvMethod_sim c hI hA _ _ _ _ _ _ _
    | exact executeNextItem_sim c hI _ _ _ _
    | exact execMethodSize_sim c hI _ _ _ _
    | exact executeKeyValueMethod_sim c hI hA _ _ _ _ _ _

/-! ### `.**` and the generic element loop -/

theorem anyVisit_sim (hI : SimI i₁ i₂) (node : Option Node) (level first last : Nat)
    (ignore unwrapNext : Bool) (a : AAcc) (v : Item) (hnone : a.ret = none) :
    Sim (pkOf a) (anyVisit i₁ node level first last ignore unwrapNext a v)
      (anyVisit i₂ node level first last ignore unwrapNext a v) := by
  unfold anyVisit
  split
  · split
    · rename_i n
      dsimp only
      rx_call (hI (if ignore then { a.st with ignoreSE := true } else a.st) n v a.found unwrapNext) with r
      rx_refl
    · rx_refl
  · rx_refl

theorem anyDescend_sim (hA : SimA a₁ a₂) (node : Option Node) (level first last : Nat)
    (ignore unwrapNext : Bool) (a : AAcc) (v : Item) (hnone : a.ret = none) :
    Sim (pkOf a) (anyDescend a₁ node level first last ignore unwrapNext a v)
      (anyDescend a₂ node level first last ignore unwrapNext a v) := by
  unfold anyDescend
  split
  · dsimp only
    rx_call (hA a.st node ((collection v).getD []) a.found (level + 1) first last ignore unwrapNext) with r
    rx_refl
  · rx_refl

theorem anyStep_sim (hI : SimI i₁ i₂) (hA : SimA a₁ a₂) (node : Option Node) (level first last : Nat)
    (ignore unwrapNext : Bool) (a : AAcc) (v : Item) :
    Sim (pkOf a) (anyStep i₁ a₁ node level first last ignore unwrapNext a v)
      (anyStep i₂ a₂ node level first last ignore unwrapNext a v) := by
  unfold anyStep
  split
  · exact Sim.refl (fun h => h)
  · rename_i hnone
    dsimp only
    rx_call (anyVisit_sim hI node level first last ignore unwrapNext a v hnone) with a1
    split
    · rx_refl
    · rename_i hnone1
      exact anyDescend_sim hA node level first last ignore unwrapNext a1 v hnone1

theorem executeAnyItem_sim (hI : SimI i₁ i₂) (hA : SimA a₁ a₂) (s : St) (node : Option Node)
    (vs : List Item) (f : Found) (level first last : Nat) (ignore unwrapNext : Bool) :
    Sim s.panicked (executeAnyItem i₁ a₁ s node vs f level first last ignore unwrapNext)
      (executeAnyItem i₂ a₂ s node vs f level first last ignore unwrapNext) := by
  unfold executeAnyItem
  split
  · rx_refl
  · dsimp only
    rx_call (foldl_sim _ _ (fun a v => anyStep_sim hI hA node level first last ignore unwrapNext a v) vs
      ⟨s, f, .notFound, none, none⟩) with a
    rx_refl

theorem anyInto_sim (hA : SimA a₁ a₂) (s : St) (first last : Nat) (nx : Option Node) (v : Item) (f : Found) :
    Sim s.panicked (anyInto c a₁ s first last nx v f) (anyInto c a₂ s first last nx v f) := by
  unfold anyInto
  split
  · exact hA _ _ _ _ _ _ _ _ _
  · exact hA _ _ _ _ _ _ _ _ _
  · rx_refl

theorem execAnyNode_sim (hI : SimI i₁ i₂) (hA : SimA a₁ a₂) (s : St) (first last : Nat) (nx : Option Node)
    (v : Item) (f : Found) :
    Sim s.panicked (execAnyNode c i₁ a₁ s first last nx v f) (execAnyNode c i₂ a₂ s first last nx v f) := by
  unfold execAnyNode
  split
  · dsimp only
    rx_call (executeNextItem_sim c hI { s with ignoreSE := true } nx v f) with r
    split
    · rx_refl
    · rx_call (anyInto_sim c hA r.st first last nx v r.found) with r2
      rx_refl
  · exact anyInto_sim c hA _ _ _ _ _ _

/-! ### subscripts -/

theorem getArrayIndex_sim (hI : SimI i₁ i₂) (s : St) (n : Node) (v : Item) :
    Sim s.panicked (getArrayIndex c i₁ s n v) (getArrayIndex c i₂ s n v) := by
  unfold getArrayIndex
  dsimp only
  rx_call (executeItem_sim c hI s n v (some [])) with r
  rx_refl

theorem execSubscript_sim (hI : SimI i₁ i₂) (s : St) (sub : Node) (v : Item) (size : Int) :
    Sim s.panicked (execSubscript c i₁ s sub v size) (execSubscript c i₂ s sub v size) := by
  unfold execSubscript
  split
  · rename_i l r _
    rx_call (getArrayIndex_sim c hI s l v) with x
    split
    · rx_refl
    · rename_i s1 from_
      cases r with
      | none => rx_refl
      | some rn =>
        simp only
        rx_call (getArrayIndex_sim c hI s1 rn v) with y
        rx_refl
  · rx_refl
  · rx_refl

theorem indexElemStep_sim (hI : SimI i₁ i₂) (nx : Option Node) (a : IAcc) (v : Item) :
    Sim (pkOf a) (indexElemStep c i₁ nx a v) (indexElemStep c i₂ nx a v) := by
  unfold indexElemStep
  split
  · exact Sim.refl (fun h => h)
  · split
    · exact Sim.refl (fun h => h)
    · split
      · rx_refl
      · dsimp only
        rx_call (executeNextItem_sim c hI a.st nx v a.found) with r
        rx_refl

theorem indexSubStep_sim (hI : SimI i₁ i₂) (nx : Option Node) (xs : List Item) (v : Item) (a : IAcc)
    (sub : Node) :
    Sim (pkOf a) (indexSubStep c i₁ nx xs v a sub) (indexSubStep c i₂ nx xs v a sub) := by
  unfold indexSubStep
  split
  · exact Sim.refl (fun h => h)
  · rx_call (execSubscript_sim c hI a.st sub v xs.length) with x
    split
    · rx_refl
    · rename_i s1 from_ to_
      rx_tail (foldl_sim _ _ (fun a' v' => indexElemStep_sim c hI nx a' v') (sliceRange xs from_ to_)
        { a with st := s1 })

theorem execArrayIndex_sim (hI : SimI i₁ i₂) (s : St) (subs : List Node) (nx : Option Node) (v : Item)
    (f : Found) :
    Sim s.panicked (execArrayIndex c i₁ s subs nx v f) (execArrayIndex c i₂ s subs nx v f) := by
  unfold execArrayIndex
  split
  · rx_refl
  · rename_i xs _
    dsimp only
    rx_call (foldl_sim _ _ (fun a sub => indexSubStep_sim c hI nx xs v a sub) subs
      ⟨{ s with innermost := xs.length }, f, .notFound, none, none⟩) with a
    rx_refl

/-! ### node dispatch -/

theorem execBinaryNode_sim (hI : SimI i₁ i₂) (hB : SimB b₁ b₂) (hA : SimA a₁ a₂) (s : St) (n : Node)
    (op : BinOp) (l r nx : Option Node) (v : Item) (f : Found) (unwrap : Bool) :
    Sim s.panicked (execBinaryNode c i₁ b₁ a₁ s n op l r nx v f unwrap)
      (execBinaryNode c i₂ b₂ a₂ s n op l r nx v f unwrap) := by
  unfold execBinaryNode
  split
  · exact appendBoolResult_sim' c hI nx f (hB _ _ _ _)
  · split
    · exact execBinaryMathExpr_sim c hI _ _ _ _ _ _ _
    · split
      · exact execConvMethod_sim c hI hA _ _ _ _ _ _ _
      · rx_refl

theorem execUnaryNode_sim (hI : SimI i₁ i₂) (hB : SimB b₁ b₂) (hA : SimA a₁ a₂) (s : St) (n : Node)
    (op : UnOp) (x nx : Option Node) (v : Item) (f : Found) (unwrap : Bool) :
    Sim s.panicked (execUnaryNode c i₁ b₁ a₁ s n op x nx v f unwrap)
      (execUnaryNode c i₂ b₂ a₂ s n op x nx v f unwrap) := by
  unfold execUnaryNode
  split
  · exact appendBoolResult_sim' c hI nx f (hB _ _ _ _)
  · exact appendBoolResult_sim' c hI nx f (hB _ _ _ _)
  · exact appendBoolResult_sim' c hI nx f (hB _ _ _ _)
  · split
    · exact unwrapTargetArray_sim hA _ _ _ _
    · split
      · rx_refl
      · rename_i cond
        dsimp only
        rx_call (executeNestedBoolItem_sim hB s cond v) with p
        split
        · rx_refl
        · split
          · rx_refl
          · exact executeNextItem_sim c hI _ _ _ _
  · exact execUnaryMathExpr_sim c hI _ _ _ _ _ _
  · exact execUnaryMathExpr_sim c hI _ _ _ _ _ _
  · split
    · exact hA _ _ _ _ _ _ _ _ _
    · exact executeDateTimeMethod_sim c hI _ _ _ _ _ _

theorem dispatch_sim (hI : SimI i₁ i₂) (hB : SimB b₁ b₂) (hA : SimA a₁ a₂) (s : St) (n : Node) (v : Item)
    (f : Found) (unwrap : Bool) :
    Sim s.panicked (dispatch c i₁ b₁ a₁ s n v f unwrap) (dispatch c i₂ b₂ a₂ s n v f unwrap) := by
  unfold dispatch
  split
  · exact execConstNode_sim c hI hA _ _ _ _ _ _ _
  · exact execLiteral_sim c hI _ _ _ _
  · exact execLiteral_sim c hI _ _ _ _
  · exact execLiteral_sim c hI _ _ _ _
  · exact execVariable_sim c hI _ _ _ _
  · exact execKeyNode_sim c hI hA _ _ _ _ _ _ _
  · exact execBinaryNode_sim c hI hB hA _ _ _ _ _ _ _ _ _
  · exact execUnaryNode_sim c hI hB hA _ _ _ _ _ _ _ _
  · exact appendBoolResult_sim' c hI _ f (hB _ _ _ _)
  · exact execMethodNode_sim c hI hA _ _ _ _ _ _ _
  · exact execAnyNode_sim c hI hA _ _ _ _ _ _
  · exact execArrayIndex_sim c hI _ _ _ _ _

end

/-! ## two oracles -/

/-- `r'` answers what `r` answers wherever `r` answers at all -/
def Extends (r r' : List Char → Nat → List Char → Option Bool) : Prop :=
  ∀ p fl t b, r p fl t = some b → r' p fl t = some b

/-- the context with another regex oracle -/
abbrev withRx (c : Ctx) (r' : List Char → Nat → List Char → Option Bool) : Ctx := { c with regexMatch := r' }

theorem likeRegex_ext (c : Ctx) (r' : List Char → Nat → List Char → Option Bool) (h : Extends c.regexMatch r')
    (pat : List Char) (fl : Nat) :
    CbExt (fun l _ => likeRegex c pat fl l) (fun l _ => likeRegex (withRx c r') pat fl l) := by
  intro l _ hnp
  cases l <;> try rfl
  rename_i t
  simp only [likeRegex] at hnp ⊢
  cases hm : c.regexMatch pat fl t with
  | none => simp [hm] at hnp
  | some b => simp [h _ _ _ _ hm]

theorem executeBinaryBoolItem_ctx (c : Ctx) (r') (i : ItemK) (b : BoolK) (s : St) (op : BinOp) (l r : Option Node) (v : Item) :
    executeBinaryBoolItem (withRx c r') i b s op l r v = executeBinaryBoolItem c i b s op l r v := rfl

theorem executeUnaryBoolItem_ctx (c : Ctx) (r') (i : ItemK) (b : BoolK) (s : St) (op : UnOp) (x : Option Node) (v : Item) :
    executeUnaryBoolItem (withRx c r') i b s op x v = executeUnaryBoolItem c i b s op x v := rfl

theorem executePredicate_ctx (c : Ctx) (r') (i : ItemK) (s : St) (l : Node) (r : Option Node) (v : Item) (u : Bool)
    (cb : Item → Item → CbOut) :
    executePredicate (withRx c r') i s l r v u cb = executePredicate c i s l r v u cb := rfl

theorem dispatch_ctx (c : Ctx) (r') (i : ItemK) (b : BoolK) (a : AnyK) (s : St) (n : Node) (v : Item) (f : Found) (u : Bool) :
    dispatch (withRx c r') i b a s n v f u = dispatch c i b a s n v f u := rfl

theorem executeBoolItem_sim2 (c : Ctx) (r') (hext : Extends c.regexMatch r') {i₁ i₂ : ItemK} {b₁ b₂ : BoolK}
    (hI : SimI i₁ i₂) (hB : SimB b₁ b₂) (s : St) (n : Node) (v : Item) (chn : Bool) :
    Sim s.panicked (executeBoolItem c i₁ b₁ s n v chn) (executeBoolItem (withRx c r') i₂ b₂ s n v chn) := by
  unfold executeBoolItem
  split
  · rx_refl
  · split
    · rw [executeBinaryBoolItem_ctx]; exact executeBinaryBoolItem_sim c hI hB _ _ _ _ _
    · rw [executeUnaryBoolItem_ctx]; exact executeUnaryBoolItem_sim c hI hB _ _ _ _
    · rw [executePredicate_ctx]; exact executePredicate_sim c hI _ _ _ _ _ (likeRegex_ext c r' hext _ _)
    · rx_refl

/-- **a run that did not panic is unchanged by an oracle that extends the given one** -/
theorem sim_all (c : Ctx) (r') (hext : Extends c.regexMatch r') : ∀ n : Nat,
    SimI (xItem c n) (xItem (withRx c r') n) ∧ SimB (xBool c n) (xBool (withRx c r') n) ∧
      SimA (xAny c n) (xAny (withRx c r') n) := by
  intro n
  induction n with
  | zero =>
    refine ⟨fun s n v f u => ?_, fun s n v b => ?_, fun s n vs f l a b i u => ?_⟩
    · simp only [xItem]; exact Sim.refl (fun h => h)
    · simp only [xBool]; exact Sim.refl (fun h => h)
    · simp only [xAny]; exact Sim.refl (fun h => h)
  | succ n ih =>
    obtain ⟨hI, hB, hA⟩ := ih
    refine ⟨fun s nd v f u => ?_, fun s nd v b => ?_, fun s nd vs f l a b i u => ?_⟩
    · simp only [xItem]
      split
      · rx_refl
      · rename_i s' hpoll
        rw [dispatch_ctx]
        exact Sim.mono (dispatch_sim c hI hB hA s' nd v f u) (fun h => by rw [← poll_pk hpoll]; exact h)
    · simp only [xBool]; exact executeBoolItem_sim2 c r' hext hI hB _ _ _ _
    · simp only [xAny]; exact executeAnyItem_sim hI hA _ _ _ _ _ _ _ _ _

/-- `exec.query` over an arbitrary dispatcher -/
def queryK (c : Ctx) (item : ItemK) (s : St) (n : Node) (v : Item) (f : Found) : Res :=
  if !c.lax && f.isNone then
    let r := executeItem c item s n v (some [])
    if r.status = .failed then ⟨r.st, none, .failed, r.err⟩
    else if (r.found.getD []).isEmpty then ⟨r.st, none, .notFound, none⟩
    else ⟨r.st, none, .ok, none⟩
  else executeItem c item s n v f

theorem query_eq (c : Ctx) (fuel : Nat) (s : St) (n : Node) (v : Item) (f : Found) :
    Api.query c fuel s n v f = queryK c (xItem c fuel) s n v f := rfl

theorem query_eq' (c : Ctx) (r') (fuel : Nat) (s : St) (n : Node) (v : Item) (f : Found) :
    Api.query (withRx c r') fuel s n v f = queryK c (xItem (withRx c r') fuel) s n v f := rfl

theorem queryK_sim (c : Ctx) {i₁ i₂ : ItemK} (hI : SimI i₁ i₂) (s : St) (n : Node) (v : Item) (f : Found) :
    Sim s.panicked (queryK c i₁ s n v f) (queryK c i₂ s n v f) := by
  unfold queryK
  split
  · dsimp only
    rx_call (executeItem_sim c hI s n v (some [])) with r
    rx_refl
  · exact executeItem_sim c hI _ _ _ _

/-- `exec.query` -/
theorem query_sim (c : Ctx) (r') (hext : Extends c.regexMatch r') (fuel : Nat) (s : St) (n : Node) (v : Item)
    (f : Found) : Sim s.panicked (Api.query c fuel s n v f) (Api.query (withRx c r') fuel s n v f) := by
  rw [query_eq, query_eq']
  exact queryK_sim c (sim_all c r' hext fuel).1 s n v f

/-! ## the entry points -/

open Sqljson.Api

theorem mkCtx_withRx (a : AST) (doc : Item) (o : Opts) (r') :
    mkCtx a doc { o with regexMatch := r' } = withRx (mkCtx a doc o) r' := rfl

theorem initSt_withRx (a : AST) (doc : Item) (o : Opts) (r' : List Char → Nat → List Char → Option Bool) :
    initSt a doc { o with regexMatch := r' } = initSt a doc o := rfl

theorem execute_congr (fuel : Nat) (a : AST) (doc : Item) (o : Opts) (r' : List Char → Nat → List Char → Option Bool)
    (hext : Extends o.regexMatch r') (hnp : (execute fuel a doc o).st.panicked = false) :
    execute fuel a doc { o with regexMatch := r' } = execute fuel a doc o := by
  unfold execute at hnp ⊢
  rw [mkCtx_withRx, initSt_withRx]
  exact (query_sim (mkCtx a doc o) r' hext fuel _ _ _ _ hnp).2

theorem existsRun_congr (fuel : Nat) (a : AST) (doc : Item) (o : Opts) (r' : List Char → Nat → List Char → Option Bool)
    (hext : Extends o.regexMatch r') (hnp : (existsRun fuel a doc o).st.panicked = false) :
    existsRun fuel a doc { o with regexMatch := r' } = existsRun fuel a doc o := by
  unfold existsRun at hnp ⊢
  rw [mkCtx_withRx, initSt_withRx]
  exact (query_sim (mkCtx a doc o) r' hext fuel _ _ _ _ hnp).2

theorem guarded_pk {r : Res} {k : Outcome} (h1 : guarded r k ≠ .panic) (h2 : guarded r k ≠ .outOfFuel) :
    r.st.panicked = false := by
  unfold guarded at h1 h2
  cases ho : r.st.oof with
  | true => simp [ho] at h2
  | false =>
    cases hp : r.st.panicked with
    | true => simp [ho, hp] at h1
    | false => rfl

theorem queryWith_congr (fuel : Nat) (a : AST) (doc : Item) (o : Opts) (r' : List Char → Nat → List Char → Option Bool)
    (hext : Extends o.regexMatch r') (h1 : queryWith fuel a doc o ≠ .panic) (h2 : queryWith fuel a doc o ≠ .outOfFuel) :
    queryWith fuel a doc { o with regexMatch := r' } = queryWith fuel a doc o := by
  unfold queryWith at *
  dsimp only at *
  rw [execute_congr fuel a doc o r' hext (guarded_pk h1 h2)]

theorem firstWith_congr (fuel : Nat) (a : AST) (doc : Item) (o : Opts) (r' : List Char → Nat → List Char → Option Bool)
    (hext : Extends o.regexMatch r') (h1 : firstWith fuel a doc o ≠ .panic) (h2 : firstWith fuel a doc o ≠ .outOfFuel) :
    firstWith fuel a doc { o with regexMatch := r' } = firstWith fuel a doc o := by
  unfold firstWith at *
  dsimp only at *
  rw [execute_congr fuel a doc o r' hext (guarded_pk h1 h2)]

theorem matchWith_congr (fuel : Nat) (a : AST) (doc : Item) (o : Opts) (r' : List Char → Nat → List Char → Option Bool)
    (hext : Extends o.regexMatch r') (h1 : matchWith fuel a doc o ≠ .panic) (h2 : matchWith fuel a doc o ≠ .outOfFuel) :
    matchWith fuel a doc { o with regexMatch := r' } = matchWith fuel a doc o := by
  unfold matchWith at *
  dsimp only at *
  rw [execute_congr fuel a doc o r' hext (guarded_pk h1 h2)]

theorem existsWith_congr (fuel : Nat) (a : AST) (doc : Item) (o : Opts) (r' : List Char → Nat → List Char → Option Bool)
    (hext : Extends o.regexMatch r') (h1 : existsWith fuel a doc o ≠ .panic) (h2 : existsWith fuel a doc o ≠ .outOfFuel) :
    existsWith fuel a doc { o with regexMatch := r' } = existsWith fuel a doc o := by
  unfold existsWith at *
  dsimp only at *
  rw [existsRun_congr fuel a doc o r' hext (guarded_pk h1 h2)]

end Rx
end SemLink
end Sqljson

namespace Sqljson
namespace SemLink
open Sem
variable {rx : List Char → Nat → Bool}

/-! ## the declarative semantics does not depend on the patterns that do not occur in the path -/

mutual
  /-- every `like_regex` of the path has a pattern (with flags) in `rx` -/
  def rxPath (rx : List Char → Nat → Bool) : Path → Bool
    | .nil => true
    | .cons s rest => rxStep rx s && rxPath rx rest
  def rxStep (rx : List Char → Nat → Bool) : Step → Bool
    | .index subs => rxSubs rx subs
    | .unary _ x => rxPath rx x
    | .arith _ l r => rxPath rx l && rxPath rx r
    | .filter p => rxPred rx p
    | .pred p => rxPred rx p
    | _ => true
  def rxSubs (rx : List Char → Nat → Bool) : Subs → Bool
    | .nil => true
    | .one i rest => rxPath rx i && rxSubs rx rest
    | .range lo hi rest => rxPath rx lo && rxPath rx hi && rxSubs rx rest
  def rxPred (rx : List Char → Nat → Bool) : Pred → Bool
    | .cmp _ l r => rxPath rx l && rxPath rx r
    | .startsWith l r => rxPath rx l && rxPath rx r
    | .likeRegex x pat fl => rx pat fl && rxPath rx x
    | .and p q => rxPred rx p && rxPred rx q
    | .or p q => rxPred rx p && rxPred rx q
    | .not p => rxPred rx p
    | .isUnknown p => rxPred rx p
    | .exists x => rxPath rx x
end

theorem rxNodeO_map_int (p : Option Int) : rxNodeO rx (p.map fun i => Node.integer i none) = true := by
  cases p <;> simp [rxNodeO, rxNode]

theorem rxNodeO_map_lit (a : Option Lit) : rxNodeO rx (a.map Lit.node) = true := by
  cases a with
  | none => rfl
  | some l =>
    cases l with
    | bool b => cases b <;> simp [Lit.node, rxNodeO, rxNode]
    | _ => simp [Lit.node, rxNodeO, rxNode]

mutual
  /-- the patterns of the translation are those of the path -/
  theorem rxPath_toNode : ∀ p : Path, rxNodeO rx p.toNode = rxPath rx p
    | .nil => rfl
    | .cons s rest => by
      simp only [Path.toNode, rxNodeO, rxPath, rxStep_toNode s, rxPath_toNode rest]
  theorem rxStep_toNode : ∀ (s : Step) (nx : Option Node), rxNode rx (s.toNode nx) = (rxStep rx s && rxNodeO rx nx)
    | .root, nx => by simp [Step.toNode, rxNode, rxStep]
    | .current, nx => by simp [Step.toNode, rxNode, rxStep]
    | .last, nx => by simp [Step.toNode, rxNode, rxStep]
    | .lit l, nx => by
      cases l with
      | bool b => cases b <;> simp [Step.toNode, rxNode, rxStep]
      | _ => simp [Step.toNode, rxNode, rxStep]
    | .var _, nx => by simp [Step.toNode, rxNode, rxStep]
    | .key _, nx => by simp [Step.toNode, rxNode, rxStep]
    | .anyKey, nx => by simp [Step.toNode, rxNode, rxStep]
    | .anyArray, nx => by simp [Step.toNode, rxNode, rxStep]
    | .index subs, nx => by simp [Step.toNode, rxNode, rxStep, rxSubs_toNodes subs]
    | .any _ _, nx => by simp [Step.toNode, rxNode, rxStep]
    | .type, nx => by simp [Step.toNode, rxNode, rxStep]
    | .size, nx => by simp [Step.toNode, rxNode, rxStep]
    | .conv m, nx => by
      cases m <;> simp [Step.toNode, ConvM.node, rxNode, rxStep, rxNodeO_map_int]
    | .datetime m arg, nx => by simp [Step.toNode, rxNode, rxStep, rxNodeO_map_lit]
    | .unary sg x, nx => by simp [Step.toNode, rxNode, rxStep, rxPath_toNode x]
    | .arith op l r, nx => by simp [Step.toNode, rxNode, rxStep, rxPath_toNode l, rxPath_toNode r]
    | .filter p, nx => by simp [Step.toNode, rxNode, rxNodeO, rxStep, rxPred_toNode p none]
    | .pred p, nx => by simp [Step.toNode, rxStep, rxPred_toNode p nx]
  theorem rxSubs_toNodes : ∀ subs : Subs, rxNodeL rx subs.toNodes = rxSubs rx subs
    | .nil => rfl
    | .one i rest => by
      simp [Subs.toNodes, rxNodeL, rxNode, rxNodeO, rxSubs, rxPath_toNode i, rxSubs_toNodes rest]
    | .range lo hi rest => by
      simp [Subs.toNodes, rxNodeL, rxNode, rxNodeO, rxSubs, rxPath_toNode lo, rxPath_toNode hi, rxSubs_toNodes rest]
  theorem rxPred_toNode : ∀ (p : Pred) (nx : Option Node), rxNode rx (p.toNode nx) = (rxPred rx p && rxNodeO rx nx)
    | .cmp _ l r, nx => by simp [Pred.toNode, rxNode, rxPred, rxPath_toNode l, rxPath_toNode r]
    | .startsWith l r, nx => by simp [Pred.toNode, rxNode, rxPred, rxPath_toNode l, rxPath_toNode r]
    | .likeRegex x pat fl, nx => by
      have := rxPath_toNode x
      cases hx : x.toNode with
      | none =>
        rw [hx] at this
        simp [Pred.toNode, rxNode, rxNodeO, rxPred, hx, ← this]
      | some xn =>
        rw [hx] at this
        simp only [rxNodeO] at this
        simp [Pred.toNode, rxNode, rxPred, hx, this]
    | .and p q, nx => by simp [Pred.toNode, rxNode, rxNodeO, rxPred, rxPred_toNode p none, rxPred_toNode q none]
    | .or p q, nx => by simp [Pred.toNode, rxNode, rxNodeO, rxPred, rxPred_toNode p none, rxPred_toNode q none]
    | .not p, nx => by simp [Pred.toNode, rxNode, rxNodeO, rxPred, rxPred_toNode p none]
    | .isUnknown p, nx => by simp [Pred.toNode, rxNode, rxNodeO, rxPred, rxPred_toNode p none]
    | .exists x, nx => by simp [Pred.toNode, rxNode, rxPred, rxPath_toNode x]
end

/-- the oracle `r'` agrees with that of `c` on the patterns in `rx` -/
def AgreeOn (rx : List Char → Nat → Bool) (c : Exec.Ctx) (r' : List Char → Nat → List Char → Option Bool) : Prop :=
  ∀ pat fl, rx pat fl = true → ∀ t, r' pat fl t = c.regexMatch pat fl t

section semcongr
variable {c : Exec.Ctx} {r' : List Char → Nat → List Char → Option Bool} (q : Dialect)

theorem likeRegex_agree (h : AgreeOn rx c r') {pat : List Char} {fl : Nat} (hp : rx pat fl = true) :
    (fun (l : Item) (_ : Item) => Exec.likeRegex (Rx.withRx c r') pat fl l) =
      (fun (l : Item) (_ : Item) => Exec.likeRegex c pat fl l) := by
  funext l _
  cases l <;> try rfl
  rename_i t
  simp only [Exec.likeRegex, h pat fl hp t]

mutual
  theorem eval_rx (h : AgreeOn rx c r') : ∀ p : Path, rxPath rx p = true → ∀ (ρ : Dyn) (v : Item),
      eval (Rx.withRx c r') q p ρ v = eval c q p ρ v
    | .nil, _, _, _ => rfl
    | .cons s rest, hp, ρ, v => by
      simp only [rxPath, Bool.and_eq_true] at hp
      simp only [eval]
      rw [evalStep_rx h s hp.1]
      congr 1
      funext x
      exact eval_rx h rest hp.2 _ x
  theorem evalStep_rx (h : AgreeOn rx c r') : ∀ s : Step, rxStep rx s = true → ∀ (u : Bool) (ρ : Dyn) (v : Item),
      evalStep (Rx.withRx c r') q u s ρ v = evalStep c q u s ρ v
    | .root, _, _, _, _ => rfl
    | .current, _, _, _, _ => rfl
    | .last, _, _, _, _ => rfl
    | .lit _, _, _, _, _ => rfl
    | .var _, _, _, _, _ => rfl
    | .key _, _, _, _, _ => rfl
    | .anyKey, _, _, _, _ => rfl
    | .anyArray, _, _, _, _ => rfl
    | .index subs, hs, u, ρ, v => by
      simp only [evalStep]
      have e : arrayOf (Rx.withRx c r') v = arrayOf c v := rfl
      rw [e]
      split
      · exact evalSubs_rx h subs (by simpa [rxStep] using hs) _ _ _
      · rfl
    | .any _ _, _, _, _, _ => rfl
    | .type, _, _, _, _ => rfl
    | .size, _, _, _, _ => rfl
    | .conv _, _, _, _, _ => rfl
    | .datetime _ _, _, _, _, _ => rfl
    | .unary sg x, hs, u, ρ, v => by
      simp only [evalStep]
      rw [eval_rx h x (by simpa [rxStep] using hs)]
      rfl
    | .arith op l r, hs, u, ρ, v => by
      simp only [rxStep, Bool.and_eq_true] at hs
      simp only [evalStep]
      rw [eval_rx h l hs.1, eval_rx h r hs.2]
      rfl
    | .filter p, hs, u, ρ, v => by
      simp only [evalStep]
      congr 1
      funext x
      rw [evalPred_rx h p (by simpa [rxStep] using hs)]
    | .pred p, hs, u, ρ, v => by
      simp only [evalStep]
      rw [evalPred_rx h p (by simpa [rxStep] using hs)]
  theorem evalSubs_rx (h : AgreeOn rx c r') : ∀ subs : Subs, rxSubs rx subs = true →
      ∀ (ρ : Dyn) (v : Item) (xs : List Item),
      evalSubs (Rx.withRx c r') q subs ρ v xs = evalSubs c q subs ρ v xs
    | .nil, _, _, _, _ => rfl
    | .one i rest, hs, ρ, v, xs => by
      simp only [rxSubs, Bool.and_eq_true] at hs
      simp only [evalSubs]
      rw [eval_rx h i hs.1, evalSubs_rx h rest hs.2]
    | .range lo hi rest, hs, ρ, v, xs => by
      simp only [rxSubs, Bool.and_eq_true] at hs
      simp only [evalSubs]
      rw [eval_rx h lo hs.1.1, eval_rx h hi hs.1.2, evalSubs_rx h rest hs.2]
  theorem evalPred_rx (h : AgreeOn rx c r') : ∀ p : Pred, rxPred rx p = true → ∀ (ρ : Dyn) (v : Item),
      evalPred (Rx.withRx c r') q p ρ v = evalPred c q p ρ v
    | .cmp op l r, hp, ρ, v => by
      simp only [rxPred, Bool.and_eq_true] at hp
      simp only [evalPred]
      rw [eval_rx h l hp.1, eval_rx h r hp.2]
      rfl
    | .startsWith l r, hp, ρ, v => by
      simp only [rxPred, Bool.and_eq_true] at hp
      simp only [evalPred]
      rw [eval_rx h l hp.1, eval_rx h r hp.2]
      rfl
    | .likeRegex x pat fl, hp, ρ, v => by
      simp only [rxPred, Bool.and_eq_true] at hp
      simp only [evalPred]
      rw [eval_rx h x hp.2, likeRegex_agree h hp.1]
      rfl
    | .and p p', hp, ρ, v => by
      simp only [rxPred, Bool.and_eq_true] at hp
      simp only [evalPred]
      rw [evalPred_rx h p hp.1, evalPred_rx h p' hp.2]
    | .or p p', hp, ρ, v => by
      simp only [rxPred, Bool.and_eq_true] at hp
      simp only [evalPred]
      rw [evalPred_rx h p hp.1, evalPred_rx h p' hp.2]
    | .not p, hp, ρ, v => by
      simp only [evalPred]
      rw [evalPred_rx h p (by simpa [rxPred] using hp)]
    | .isUnknown p, hp, ρ, v => by
      simp only [evalPred]
      rw [evalPred_rx h p (by simpa [rxPred] using hp)]
    | .exists x, hp, ρ, v => by
      simp only [evalPred]
      rw [eval_rx h x (by simpa [rxPred] using hp)]
      rfl
end

/-- **the meaning of a path depends on the regex oracle only through the patterns of the path** -/
theorem query_rx (h : AgreeOn rx c r') (p : Path) (hp : rxPath rx p = true) :
    Sem.query (Rx.withRx c r') q p = Sem.query c q p := by
  unfold Sem.query
  exact eval_rx q h p hp _ _

end semcongr

end SemLink
end Sqljson

namespace Sqljson
namespace SemLink
open Sem

/-! ## exactness: a tree with `.keyvalue()` is not a translation -/

theorem noKeyvalueO_of_intOfO {o : Option Node} {a : Option Int} (h : intOfO o = some a) : noKeyvalueO o = true := by
  rw [← intOfO_node h]
  cases a <;> simp [noKeyvalueO, noKeyvalue]

theorem noKeyvalueO_of_litOfO {o : Option Node} {a : Option Lit} (h : litOfO o = some a) : noKeyvalueO o = true := by
  rw [← litOfO_node h]
  cases a with
  | none => rfl
  | some l =>
    cases l with
    | bool b => cases b <;> simp [Lit.node, noKeyvalueO, noKeyvalue]
    | _ => simp [Lit.node, noKeyvalueO, noKeyvalue]

theorem binPred_noKv {op : BinOp} {pl pr : Option Path} {bl br : Option Pred} {q : Pred} {A B : Prop}
    (hpl : ∀ p, pl = some p → A) (hbl : ∀ p, bl = some p → A) (hpr : ∀ p, pr = some p → B) (hbr : ∀ p, br = some p → B)
    (h : binPred op pl pr bl br = some q) : A ∧ B := by
  cases op <;> cases pl <;> cases pr <;> cases bl <;> cases br <;> simp [binPred, cmpOf] at h <;>
    first
      | exact ⟨hpl _ rfl, hpr _ rfl⟩
      | exact ⟨hbl _ rfl, hbr _ rfl⟩

theorem binStep_noKv {op : BinOp} {l r : Option Node} {pl pr : Option Path} {bl br : Option Pred} {s : Step}
    (hpl : ∀ p, pl = some p → noKeyvalueO l = true) (hbl : ∀ p, bl = some p → noKeyvalueO l = true)
    (hpr : ∀ p, pr = some p → noKeyvalueO r = true) (hbr : ∀ p, br = some p → noKeyvalueO r = true)
    (h : binStep op l r pl pr bl br = some s) : noKeyvalueO l = true ∧ noKeyvalueO r = true := by
  cases op
  case decimal =>
    simp only [binStep] at h
    cases h1 : intOfO l <;> cases h2 : intOfO r <;> simp [h1, h2] at h
    exact ⟨noKeyvalueO_of_intOfO h1, noKeyvalueO_of_intOfO h2⟩
  case subscript => simp [binStep] at h
  case add | sub | mul | div | mod =>
    cases pl <;> cases pr <;> simp [binStep, arithOpOf] at h
    exact ⟨hpl _ rfl, hpr _ rfl⟩
  all_goals
    simp only [binStep, arithOpOf, Option.map_eq_some_iff] at h
    obtain ⟨q, hq, _⟩ := h
    exact binPred_noKv hpl hbl hpr hbr hq

theorem unPred_noKv {op : UnOp} {px : Option Path} {bx : Option Pred} {q : Pred} {A : Prop}
    (hpx : ∀ p, px = some p → A) (hbx : ∀ p, bx = some p → A) (h : unPred op px bx = some q) : A := by
  cases op <;> simp only [unPred, Option.map_eq_some_iff] at h <;> (try (cases h; done))
  all_goals
    obtain ⟨p, hp, _⟩ := h
    first | exact hpx _ hp | exact hbx _ hp

theorem unStep_noKv {op : UnOp} {x : Option Node} {px : Option Path} {bx : Option Pred} {s : Step}
    (hpx : ∀ p, px = some p → noKeyvalueO x = true) (hbx : ∀ p, bx = some p → noKeyvalueO x = true)
    (h : unStep op x px bx = some s) : noKeyvalueO x = true := by
  cases op
  case plus | minus =>
    simp only [unStep, Option.map_eq_some_iff] at h
    obtain ⟨p, hp, _⟩ := h
    exact hpx _ hp
  case filter =>
    simp only [unStep, Option.map_eq_some_iff] at h
    obtain ⟨p, hp, _⟩ := h
    exact hbx _ hp
  case not | isUnknown | «exists» =>
    simp only [unStep, Option.map_eq_some_iff] at h
    obtain ⟨q, hq, _⟩ := h
    exact unPred_noKv hpx hbx hq
  all_goals
    simp only [unStep, dtOf] at h
    cases h1 : litOfO x <;> simp [h1] at h
    exact noKeyvalueO_of_litOfO h1

mutual
  theorem ofNode_noKv : ∀ (n : Node) (p : Path), ofNode n = some p → noKeyvalue n = true
    | .const k nx, p, h => by
      obtain ⟨s, r, _, hr, _⟩ := consO_some (by simpa [ofNode] using h)
      simpa [noKeyvalue] using ofOpt_noKv nx r hr
    | .method m nx, p, h => by
      obtain ⟨s, r, hs, hr, _⟩ := consO_some (by simpa [ofNode] using h)
      have : m ≠ .keyvalue := by intro e; subst e; simp [methodStep] at hs
      simp [noKeyvalue, this, ofOpt_noKv nx r hr]
    | .str t nx, p, h => by
      obtain ⟨s, r, _, hr, _⟩ := consO_some (by simpa [ofNode] using h)
      simpa [noKeyvalue] using ofOpt_noKv nx r hr
    | .var t nx, p, h => by
      obtain ⟨s, r, _, hr, _⟩ := consO_some (by simpa [ofNode] using h)
      simpa [noKeyvalue] using ofOpt_noKv nx r hr
    | .key t nx, p, h => by
      obtain ⟨s, r, _, hr, _⟩ := consO_some (by simpa [ofNode] using h)
      simpa [noKeyvalue] using ofOpt_noKv nx r hr
    | .numeric t nx, p, h => by
      obtain ⟨s, r, _, hr, _⟩ := consO_some (by simpa [ofNode] using h)
      simpa [noKeyvalue] using ofOpt_noKv nx r hr
    | .integer t nx, p, h => by
      obtain ⟨s, r, _, hr, _⟩ := consO_some (by simpa [ofNode] using h)
      simpa [noKeyvalue] using ofOpt_noKv nx r hr
    | .any a b nx, p, h => by
      obtain ⟨s, r, _, hr, _⟩ := consO_some (by simpa [ofNode] using h)
      simpa [noKeyvalue] using ofOpt_noKv nx r hr
    | .binary op l r nx, p, h => by
      obtain ⟨s, rest, hs, hr, _⟩ := consO_some (by simpa [ofNode] using h)
      obtain ⟨h1, h2⟩ := binStep_noKv (ofOpt_noKv l) (ofPredO_noKv l) (ofOpt_noKv r) (ofPredO_noKv r) hs
      simp [noKeyvalue, h1, h2, ofOpt_noKv nx rest hr]
    | .unary op x nx, p, h => by
      obtain ⟨s, rest, hs, hr, _⟩ := consO_some (by simpa [ofNode] using h)
      have h1 := unStep_noKv (ofOpt_noKv x) (ofPredO_noKv x) hs
      simp [noKeyvalue, h1, ofOpt_noKv nx rest hr]
    | .regex x pat fl nx, p, h => by
      obtain ⟨s, rest, hs, hr, _⟩ := consO_some (by simpa [ofNode] using h)
      simp only [Option.map_eq_some_iff] at hs
      obtain ⟨xp, hx, _⟩ := hs
      simp [noKeyvalue, ofNode_noKv x xp hx, ofOpt_noKv nx rest hr]
    | .arrayIndex subs nx, p, h => by
      obtain ⟨s, rest, hs, hr, _⟩ := consO_some (by simpa [ofNode] using h)
      simp only [Option.map_eq_some_iff] at hs
      obtain ⟨ss, hss, _⟩ := hs
      simp [noKeyvalue, ofSubs_noKv subs ss hss, ofOpt_noKv nx rest hr]
  theorem ofOpt_noKv : ∀ (o : Option Node) (p : Path), ofOpt o = some p → noKeyvalueO o = true
    | none, _, _ => rfl
    | some n, p, h => by simpa [noKeyvalueO] using ofNode_noKv n p (by simpa [ofOpt] using h)
  /-- a boolean node: the node itself, not what is chained to it -/
  theorem ofPred_noKv : ∀ (n : Node) (q : Pred), ofPred n = some q → noKeyvalue (n.setNext none) = true
    | .binary op l r nx, q, h => by
      simp only [ofPred] at h
      obtain ⟨h1, h2⟩ := binPred_noKv (ofOpt_noKv l) (ofPredO_noKv l) (ofOpt_noKv r) (ofPredO_noKv r) h
      simp [Node.setNext, noKeyvalue, noKeyvalueO, h1, h2]
    | .unary op x nx, q, h => by
      simp only [ofPred] at h
      have h1 := unPred_noKv (ofOpt_noKv x) (ofPredO_noKv x) h
      simp [Node.setNext, noKeyvalue, noKeyvalueO, h1]
    | .regex x pat fl nx, q, h => by
      simp only [ofPred, Option.map_eq_some_iff] at h
      obtain ⟨xp, hx, _⟩ := h
      simp [Node.setNext, noKeyvalue, noKeyvalueO, ofNode_noKv x xp hx]
    | .const .., _, h => by simp [ofPred] at h
    | .method .., _, h => by simp [ofPred] at h
    | .str .., _, h => by simp [ofPred] at h
    | .var .., _, h => by simp [ofPred] at h
    | .key .., _, h => by simp [ofPred] at h
    | .numeric .., _, h => by simp [ofPred] at h
    | .integer .., _, h => by simp [ofPred] at h
    | .any .., _, h => by simp [ofPred] at h
    | .arrayIndex .., _, h => by simp [ofPred] at h
  theorem ofPredO_noKv : ∀ (o : Option Node) (q : Pred), ofPredO o = some q → noKeyvalueO o = true
    | none, _, _ => rfl
    | some n, q, h => by
      simp only [ofPredO] at h
      split at h
      · rename_i hn
        have h1 := ofPred_noKv n q h
        have hn' : n.next = none := by simpa using hn
        rw [← hn', ParseWF.setNext_next] at h1
        simpa [noKeyvalueO] using h1
      · cases h
  theorem ofSubs_noKv : ∀ (l : List Node) (s : Subs), ofSubs l = some s → noKeyvalueL l = true
    | [], _, _ => rfl
    | .binary op l r nx :: rest, s, h => by
      cases op <;> cases r <;> cases nx <;> simp only [ofSubs] at h <;> (try (cases h; done))
      · cases h1 : ofOpt l <;> cases h2 : ofSubs rest <;> simp [h1, h2] at h
        simp [noKeyvalueL, noKeyvalue, noKeyvalueO, ofOpt_noKv l _ h1, ofSubs_noKv rest _ h2]
      · rename_i rn
        cases h1 : ofOpt l <;> cases h3 : ofNode rn <;> cases h2 : ofSubs rest <;> simp [h1, h2, h3] at h
        simp [noKeyvalueL, noKeyvalue, noKeyvalueO, ofOpt_noKv l _ h1, ofNode_noKv rn _ h3, ofSubs_noKv rest _ h2]
    | .const .. :: _, _, h => by simp [ofSubs] at h
    | .method .. :: _, _, h => by simp [ofSubs] at h
    | .str .. :: _, _, h => by simp [ofSubs] at h
    | .var .. :: _, _, h => by simp [ofSubs] at h
    | .key .. :: _, _, h => by simp [ofSubs] at h
    | .numeric .. :: _, _, h => by simp [ofSubs] at h
    | .integer .. :: _, _, h => by simp [ofSubs] at h
    | .any .. :: _, _, h => by simp [ofSubs] at h
    | .unary .. :: _, _, h => by simp [ofSubs] at h
    | .regex .. :: _, _, h => by simp [ofSubs] at h
    | .arrayIndex .. :: _, _, h => by simp [ofSubs] at h
end

/-- **exactness**: an accepted tree is the translation of a path of the semantics iff it has no `.keyvalue()` -/
theorem parsed_in_sem_iff (po : Oracles) (bytes : List UInt8) (a : AST) (hp : Parse.parse po bytes = .ok a) :
    SemShape a.root = true ↔ noKeyvalue a.root = true := by
  constructor
  · intro h
    unfold SemShape at h
    cases hn : ofNode a.root with
    | none => simp [hn] at h
    | some p => exact ofNode_noKv _ p hn
  · exact parsed_in_sem po bytes a hp

end SemLink
end Sqljson

namespace Sqljson
namespace SemLink
open Sem

/-! ## `ofNode` is also a left inverse of `toNode`, on well-formed paths -/

theorem litOf_node' (l : Lit) : litOf l.node = some l := by
  cases l with
  | bool b => cases b <;> rfl
  | _ => rfl

theorem litOfO_map (a : Option Lit) : litOfO (a.map Lit.node) = some a := by
  cases a <;> simp [litOfO, litOf_node']

theorem intOfO_map (a : Option Int) : intOfO (a.map fun i => Node.integer i none) = some a := by
  cases a <;> rfl

theorem pred_next (q : Pred) (nx : Option Node) : (q.toNode nx).next = nx := by
  cases q <;> rfl

theorem toNode_some {p : Path} (h : p.nonEmpty = true) : ∃ n, p.toNode = some n := by
  cases p with
  | nil => cases h
  | cons s rest => exact ⟨_, rfl⟩

theorem cmpOf_toBinOp' (op : CmpOp) : cmpOf op.toBinOp = some op := by cases op <;> rfl
theorem arithOpOf_toBinOp' (op : ArithOp) : arithOpOf op.toBinOp = some op := by cases op <;> rfl
theorem arithOpOf_cmp (op : CmpOp) : arithOpOf op.toBinOp = none := by cases op <;> rfl
theorem dtOf_toUnOp' (m : DtM) : dtOf m.toUnOp = some m := by cases m <;> rfl

mutual
  theorem ofOpt_of_toNode : ∀ (p : Path) (al : Bool), p.wf al = true → ofOpt p.toNode = some p
    | .nil, _, _ => rfl
    | .cons s rest, al, h => by
      simp only [Path.wf, Bool.and_eq_true] at h
      simp only [Path.toNode, ofOpt, ofNode_of_step s al _ h.1, ofOpt_of_toNode rest _ h.2, consO]
  theorem ofNode_of_step : ∀ (s : Step) (al : Bool) (nx : Option Node), s.wf al = true →
      ofNode (s.toNode nx) = consO (some s) (ofOpt nx)
    | .root, _, _, _ => rfl
    | .current, _, _, _ => rfl
    | .last, _, _, _ => rfl
    | .lit l, _, _, _ => by
      cases l with
      | bool b => cases b <;> rfl
      | _ => rfl
    | .var _, _, _, _ => rfl
    | .key _, _, _, _ => rfl
    | .anyKey, _, _, _ => rfl
    | .anyArray, _, _, _ => rfl
    | .index subs, al, nx, h => by
      simp only [Step.toNode, ofNode, ofSubs_of_toNodes subs (by simpa [Step.wf] using h), Option.map_some]
    | .any _ _, _, _, _ => rfl
    | .type, _, _, _ => rfl
    | .size, _, _, _ => rfl
    | .conv m, _, nx, _ => by
      cases m <;> first | rfl | simp [Step.toNode, ConvM.node, ofNode, binStep, intOfO_map]
    | .datetime m arg, _, nx, _ => by
      cases m <;> simp [Step.toNode, DtM.toUnOp, ofNode, unStep, dtOf, litOfO_map]
    | .unary sg x, al, nx, h => by
      simp only [Step.wf, Bool.and_eq_true] at h
      cases sg <;> simp [Step.toNode, Sign.toUnOp, ofNode, unStep, ofOpt_of_toNode x al h.2]
    | .arith op l r, al, nx, h => by
      simp only [Step.wf, Bool.and_eq_true] at h
      cases op <;>
        simp [Step.toNode, ArithOp.toBinOp, ofNode, binStep, arithOpOf, ofOpt_of_toNode l al h.1.1.2,
          ofOpt_of_toNode r al h.2]
    | .filter p, al, nx, h => by
      have := (ofPred_of_toNode p al none (by simpa [Step.wf] using h)).1
      simp [Step.toNode, ofNode, unStep, ofPredO, pred_next, this]
    | .pred p, al, nx, h => (ofPred_of_toNode p al nx (by simpa [Step.wf] using h)).2
  theorem ofSubs_of_toNodes : ∀ subs : Subs, subs.wf = true → ofSubs subs.toNodes = some subs
    | .nil, _ => rfl
    | .one i rest, h => by
      simp only [Subs.wf, Bool.and_eq_true] at h
      simp [Subs.toNodes, ofSubs, ofOpt_of_toNode i true h.1.2, ofSubs_of_toNodes rest h.2]
    | .range lo hi rest, h => by
      simp only [Subs.wf, Bool.and_eq_true] at h
      obtain ⟨hn, hhn⟩ := toNode_some h.1.1.2
      have h2 := ofOpt_of_toNode hi true h.1.2
      rw [hhn] at h2
      simp only [ofOpt] at h2
      simp [Subs.toNodes, hhn, ofSubs, ofOpt_of_toNode lo true h.1.1.1.2, h2, ofSubs_of_toNodes rest h.2]
  theorem ofPred_of_toNode : ∀ (q : Pred) (al : Bool) (nx : Option Node), q.wf al = true →
      ofPred (q.toNode nx) = some q ∧ ofNode (q.toNode nx) = consO (some (.pred q)) (ofOpt nx)
    | .cmp op l r, al, nx, h => by
      simp only [Pred.wf, Bool.and_eq_true] at h
      have e1 := ofOpt_of_toNode l al h.1.1.2
      have e2 := ofOpt_of_toNode r al h.2
      cases op <;> simp [Pred.toNode, CmpOp.toBinOp, ofPred, ofNode, binStep, binPred, cmpOf, arithOpOf, e1, e2]
    | .startsWith l r, al, nx, h => by
      simp only [Pred.wf, Bool.and_eq_true] at h
      have e1 := ofOpt_of_toNode l al h.1.1.2
      have e2 := ofOpt_of_toNode r al h.2
      simp [Pred.toNode, ofPred, ofNode, binStep, binPred, arithOpOf, e1, e2]
    | .likeRegex x pat fl, al, nx, h => by
      simp only [Pred.wf, Bool.and_eq_true] at h
      obtain ⟨xn, hxn⟩ := toNode_some h.1
      have e1 := ofOpt_of_toNode x al h.2
      rw [hxn] at e1
      simp only [ofOpt] at e1
      simp [Pred.toNode, hxn, ofPred, ofNode, e1]
    | .and p q, al, nx, h => by
      simp only [Pred.wf, Bool.and_eq_true] at h
      have e1 := (ofPred_of_toNode p al none h.1).1
      have e2 := (ofPred_of_toNode q al none h.2).1
      simp [Pred.toNode, ofPred, ofNode, binStep, binPred, arithOpOf, ofPredO, pred_next, e1, e2]
    | .or p q, al, nx, h => by
      simp only [Pred.wf, Bool.and_eq_true] at h
      have e1 := (ofPred_of_toNode p al none h.1).1
      have e2 := (ofPred_of_toNode q al none h.2).1
      simp [Pred.toNode, ofPred, ofNode, binStep, binPred, arithOpOf, ofPredO, pred_next, e1, e2]
    | .not p, al, nx, h => by
      have e1 := (ofPred_of_toNode p al none (by simpa [Pred.wf] using h)).1
      simp [Pred.toNode, ofPred, ofNode, unStep, unPred, ofPredO, pred_next, e1]
    | .isUnknown p, al, nx, h => by
      have e1 := (ofPred_of_toNode p al none (by simpa [Pred.wf] using h)).1
      simp [Pred.toNode, ofPred, ofNode, unStep, unPred, ofPredO, pred_next, e1]
    | .exists x, al, nx, h => by
      simp only [Pred.wf, Bool.and_eq_true] at h
      have e1 := ofOpt_of_toNode x al h.1.2
      simp [Pred.toNode, ofPred, ofNode, unStep, unPred, e1]
end

/-- **`ofNode` inverts `toNode` on well-formed paths** -/
theorem ofNode_of_toNode {p : Path} {al : Bool} {n : Node} (hw : p.wf al = true) (hn : p.toNode = some n) :
    ofNode n = some p := by
  have := ofOpt_of_toNode p al hw
  rw [hn] at this
  simpa [ofOpt] using this

/-- hence the side conditions of `C01b`, stated on nodes, are those of the path -/
theorem wfNode_toNode {p : Path} {n : Node} (hw : p.wf false = true) (hne : p.nonEmpty = true)
    (hn : p.toNode = some n) : wfNode n = true := by
  simp [wfNode, ofNode_of_toNode hw hn, hw, hne]

end SemLink
end Sqljson
