import Sqljson.Model.Api
/-!
# Lax structural totality over whole accessor paths

`Props/C07.lean` shows, one step at a time, that lax mode absorbs structural mismatches.  This file
proves the unbounded statement: for a whole *accessor path* (`Accessor`, below) evaluated in lax mode
(`c.lax = true`, `ignoreStructuralErrors = true` as `newExec` sets it), the executor returns no error
and never `statusFailed`, for every document, every result list and every fuel — unless the run
was cancelled (`sawCancel`) or the model ran out of fuel (`oof`), and both flags are sticky.

In strict mode the same induction gives the error class: the only error an accessor path can return
is the suppressible one (`Err.verbose`); it never panics in either mode.

Structure (as in `Lemmas/Good.lean`): one lemma per Go function, "if the recursive calls satisfy the
invariant, so does this function"; loops by `foldl_inv`; `lt_all` by induction on fuel.
-/

namespace Sqljson
namespace Exec
namespace Lax
open Sqljson.Exec

/-- cancelled, or the model ran out of fuel: the two sticky flags under which nothing is claimed -/
def dirty (s : St) : Bool := s.oof || s.sawCancel

/-! ## the syntactic classes -/

/-- a subscript bound: an integer literal in the int32 range, or `last`; nothing chained to it.
    (A literal outside the int32 range is the error "array subscript is out of integer range" in
    lax mode as well — `C14.index_range`; so is any bound that does not evaluate to a number.) -/
def Bound : Node → Bool
  | .integer i none => Num.inInt32 i
  | .const .last none => true
  | _ => false

/-- one subscript `i` or `i to j` of `[…]` -/
def Sub : Node → Bool
  | .binary .subscript (some l) none _ => Bound l
  | .binary .subscript (some l) (some r) _ => Bound l && Bound r
  | _ => false

/-- every constant but `last`: `$`, `@`, `.*`, `[*]`, and the literals `true false null`.
    (`last` outside a subscript is the non-suppressible error `Hard.lastOutside`.) -/
def accConst : Const → Bool
  | .last => false
  | _ => true

/-- the two item methods that cannot fail in lax mode: `.type()` and `.size()`.
    (`.keyvalue()` on a non-object and the conversion methods on an unconvertible value raise
    their error in lax mode too.) -/
def accMethod : Method → Bool
  | .type | .size => true
  | _ => false

mutual
  /-- a chain made only of: root `$`, current `@`, `.key`, `.*`, `[*]`, `.**{a to b}`, subscripts
      `[i, j to k, last]` whose bounds are int32 literals or `last`, literals, `.type()`, `.size()`:
      no arithmetic, no variables, no other methods, no filters, no predicates -/
  def Accessor : Node → Bool
    | .const k nx => accConst k && AccessorOpt nx
    | .key _ nx => AccessorOpt nx
    | .any _ _ nx => AccessorOpt nx
    | .arrayIndex subs nx => subs.all Sub && AccessorOpt nx
    | .str _ nx => AccessorOpt nx
    | .integer _ nx => AccessorOpt nx
    | .numeric _ nx => AccessorOpt nx
    | .method m nx => accMethod m && AccessorOpt nx
    | _ => false
  def AccessorOpt : Option Node → Bool
    | none => true
    | some n => Accessor n
end

/-! ## the document side condition: `last` must fit an int32

`last` is evaluated to `len - 1` and then read back through `getJSONInt32`, so `$[last]` on an array
of more than 2^31 elements is the "out of integer range" error even in lax mode.  `lenOK` excludes
such arrays (a Go slice of 2^31 `any` values is 32 GiB). -/

mutual
  def lenOK : Item → Bool
    | .arr xs => decide (xs.length ≤ 2147483648) && lenOKList xs
    | .obj kvs => lenOKMembers kvs
    | _ => true
  def lenOKList : List Item → Bool
    | [] => true
    | x :: xs => lenOK x && lenOKList xs
  def lenOKMembers : List (List Char × Item) → Bool
    | [] => true
    | (_, v) :: rest => lenOK v && lenOKMembers rest
end

theorem lenOKList_mem {xs : List Item} (h : lenOKList xs = true) : ∀ x ∈ xs, lenOK x = true := by
  induction xs with
  | nil => intro x hx; cases hx
  | cons y ys ih =>
    simp only [lenOKList, Bool.and_eq_true] at h
    intro x hx
    rcases List.mem_cons.mp hx with rfl | hx
    · exact h.1
    · exact ih h.2 x hx

theorem lenOKMembers_lookup {kvs : List (List Char × Item)} (h : lenOKMembers kvs = true) (k : List Char)
    (v : Item) (hl : Item.lookup k kvs = some v) : lenOK v = true := by
  induction kvs with
  | nil => simp [Item.lookup] at hl
  | cons kv rest ih =>
    obtain ⟨k', v'⟩ := kv
    simp only [lenOKMembers, Bool.and_eq_true] at h
    simp only [Item.lookup] at hl
    split at hl
    · simp at hl; subst hl; exact h.1
    · exact ih h.2 hl

theorem lenOKMembers_members {kvs : List (List Char × Item)} (h : lenOKMembers kvs = true) :
    ∀ x ∈ members kvs, lenOK x = true := by
  induction kvs with
  | nil => intro x hx; simp [members] at hx
  | cons kv rest ih =>
    obtain ⟨k', v'⟩ := kv
    simp only [lenOKMembers, Bool.and_eq_true] at h
    intro x hx
    simp only [members, List.map_cons, List.mem_cons] at hx
    rcases hx with rfl | hx
    · exact h.1
    · exact ih h.2 x (by simpa [members] using hx)

theorem lenOK_arr {xs : List Item} (h : lenOK (.arr xs) = true) :
    xs.length ≤ 2147483648 ∧ ∀ x ∈ xs, lenOK x = true := by
  simp only [lenOK, Bool.and_eq_true, decide_eq_true_eq] at h
  exact ⟨h.1, lenOKList_mem h.2⟩

theorem lenOK_obj {kvs : List (List Char × Item)} (h : lenOK (.obj kvs) = true) : lenOKMembers kvs = true := by
  simpa [lenOK] using h

theorem lenOK_collection {v : Item} (h : lenOK v = true) : ∀ x ∈ (collection v).getD [], lenOK x = true := by
  cases v with
  | arr xs => exact (lenOK_arr h).2
  | obj kvs => exact lenOKMembers_members (lenOK_obj h)
  | _ => intro x hx; simp [collection] at hx

theorem sliceRange_mem {xs : List Item} {a b : Int} {x : Item} (h : x ∈ sliceRange xs a b) : x ∈ xs := by
  unfold sliceRange at h
  split at h
  · cases h
  · exact List.mem_of_mem_drop (List.mem_of_mem_take h)

/-! ## the invariant -/

/-- what an accessor path leaves of the state `s` it started in -/
structure Keep (s t : St) : Prop where
  current : t.current = s.current
  innermost : t.innermost = s.innermost
  ign : s.ignoreSE = true → t.ignoreSE = true
  panicked : t.panicked = s.panicked
  budget : s.budget = none → t.budget = none ∧ t.sawCancel = s.sawCancel
  mono : dirty s = true → dirty t = true

theorem Keep.refl (s : St) : Keep s s := ⟨rfl, rfl, id, rfl, fun h => ⟨h, rfl⟩, id⟩

theorem Keep.trans {a b c : St} (h1 : Keep a b) (h2 : Keep b c) : Keep a c :=
  ⟨h2.current.trans h1.current, h2.innermost.trans h1.innermost, fun h => h2.ign (h1.ign h),
   h2.panicked.trans h1.panicked,
   fun h => ⟨(h2.budget (h1.budget h).1).1, (h2.budget (h1.budget h).1).2.trans (h1.budget h).2⟩,
   fun h => h2.mono (h1.mono h)⟩

theorem Keep.clean {s t : St} (h : Keep s t) (ht : dirty t = false) : dirty s = false := by
  cases hs : dirty s with
  | false => rfl
  | true => rw [h.mono hs] at ht; cases ht

/-- the result triple of a call started in `s`: the state is kept; unless cancelled or out of fuel,
    the error (if any) is the suppressible one, and under the lax premise `lx` there is no error and
    the status is not `failed` -/
def Out3 (lx : Prop) (s st : St) (status : Status) (err : Option Err) : Prop :=
  Keep s st ∧ (dirty st = false → (err = none ∨ err = some .verbose) ∧ (lx → err = none ∧ status ≠ .failed))

def Out (lx : Prop) (s : St) (r : Res) : Prop := Out3 lx s r.st r.status r.err

/-- the state part of the lax premise; it is preserved by `Keep` -/
def LaxS (c : Ctx) (s : St) : Prop :=
  c.lax = true ∧ s.ignoreSE = true ∧ lenOK s.current = true ∧ lenOK c.root = true

theorem LaxS.keep {c : Ctx} {s t : St} (h : LaxS c s) (hk : Keep s t) : LaxS c t :=
  ⟨h.1, hk.ign h.2.1, by rw [hk.current]; exact h.2.2.1, h.2.2.2⟩

/-- invariant of an item call on value `v` -/
def LT (c : Ctx) (s : St) (v : Item) (r : Res) : Prop := Out (LaxS c s ∧ lenOK v = true) s r

/-- invariant of an element-loop call on values `vs` -/
def LTL (c : Ctx) (s : St) (vs : List Item) (r : Res) : Prop :=
  Out (LaxS c s ∧ ∀ x ∈ vs, lenOK x = true) s r

/-- a subscript bound evaluates to one integer, in the int32 range if the innermost array is not huge -/
def BoundOut (s : St) (r : Res) : Prop :=
  Keep s r.st ∧ (dirty r.st = false → r.err = none ∧ r.status ≠ .failed ∧
    ∃ i, r.found = some [.int i] ∧ (s.innermost ≤ 2147483648 → Num.inInt32 i = true))

def LTI (c : Ctx) (item : ItemK) : Prop :=
  (∀ s n v f u, Accessor n = true → LT c s v (item s n v f u)) ∧
  (∀ s n v u, Bound n = true → 0 ≤ s.innermost → BoundOut s (item s n v (some []) u))

def LTA (c : Ctx) (any : AnyK) : Prop :=
  ∀ s node vs f l a b i u, AccessorOpt node = true → LTL c s vs (any s node vs f l a b i u)

theorem Out3.ret {lx : Prop} {s s1 : St} (hk : Keep s s1) (st : Status) (e : Option Err)
    (h1 : e = none ∨ e = some .verbose) (h2 : lx → e = none ∧ st ≠ .failed) : Out3 lx s s1 st e :=
  ⟨hk, fun _ => ⟨h1, h2⟩⟩

/-- a result produced from a state reached inside the function, under a premise that follows -/
theorem Out3.tail {lx lx1 : Prop} {s s1 st : St} {status : Status} {err : Option Err} (hk : Keep s s1)
    (hl : lx → lx1) (h : Out3 lx1 s1 st status err) : Out3 lx s st status err :=
  ⟨hk.trans h.1, fun hd => ⟨(h.2 hd).1, fun hlx => (h.2 hd).2 (hl hlx)⟩⟩

theorem Out.tail {lx lx1 : Prop} {s s1 : St} {r : Res} (hk : Keep s s1)
    (hl : lx → lx1) (h : Out lx1 s1 r) : Out lx s r := Out3.tail hk hl h

/-- a dirty state: nothing is claimed -/
theorem Out3.ofDirty {lx : Prop} {s st : St} (hk : Keep s st) (hd : dirty st = true) (status : Status)
    (err : Option Err) : Out3 lx s st status err :=
  ⟨hk, fun h => by rw [hd] at h; cases h⟩

theorem returnVerboseError_out {lx : Prop} {s s1 : St} (hk : Keep s s1) (f : Found) (hl : ¬ lx) :
    Out lx s (returnVerboseError s1 f) := by
  unfold returnVerboseError
  split
  · exact Out3.ret hk _ _ (Or.inr rfl) (fun h => absurd h hl)
  · exact Out3.ret hk _ _ (Or.inl rfl) (fun h => absurd h hl)

theorem structural_out {lx : Prop} {s s1 : St} (hk : Keep s s1) (f : Found) (hl : lx → s1.ignoreSE = true) :
    Out lx s (structural s1 f) := by
  unfold structural
  split
  · rename_i hig
    exact returnVerboseError_out hk f (fun h => by simp [hl h] at hig)
  · exact Out3.ret hk _ _ (Or.inl rfl) (fun _ => ⟨rfl, by simp⟩)

/-! ## chain steps -/

theorem Keep.base (s : St) (a : Nat) (i : Int) : Keep s { s with baseAddr := a, baseId := i } :=
  ⟨rfl, rfl, id, rfl, fun h => ⟨h, rfl⟩, id⟩

theorem executeNextItem_lt (c : Ctx) {item : ItemK} (hI : LTI c item) (s : St) (nx : Option Node) (v : Item)
    (f : Found) (hn : AccessorOpt nx = true) : LT c s v (executeNextItem c item s nx v f) := by
  unfold executeNextItem
  split
  · exact hI.1 _ _ _ _ _ (by simpa [AccessorOpt] using hn)
  · exact Out3.ret (Keep.refl s) _ _ (Or.inl rfl) (fun _ => ⟨rfl, by simp⟩)

/-- the rest of the chain, entered from a state reached inside a function started at `s` -/
theorem next_from (c : Ctx) {item : ItemK} (hI : LTI c item) {lx : Prop} {s s1 : St} (hk : Keep s s1)
    (nx : Option Node) (v : Item) (f : Found) (hn : AccessorOpt nx = true)
    (hl : lx → LaxS c s ∧ lenOK v = true) : Out lx s (executeNextItem c item s1 nx v f) :=
  Out.tail hk (fun h => ⟨(hl h).1.keep hk, (hl h).2⟩) (executeNextItem_lt c hI s1 nx v f hn)

theorem any_from (c : Ctx) {any : AnyK} (hA : LTA c any) {lx : Prop} {s s1 : St} (hk : Keep s s1)
    (node : Option Node) (vs : List Item) (f : Found) (l a b : Nat) (i u : Bool)
    (hn : AccessorOpt node = true) (hl : lx → LaxS c s ∧ ∀ x ∈ vs, lenOK x = true) :
    Out lx s (any s1 node vs f l a b i u) :=
  Out.tail hk (fun h => ⟨(hl h).1.keep hk, (hl h).2⟩) (hA s1 node vs f l a b i u hn)

theorem withBaseObject_out {lx : Prop} (s : St) (a : Nat) (i : Int) (k : St → Res)
    (h : Out lx { s with baseAddr := a, baseId := i } (k { s with baseAddr := a, baseId := i })) :
    Out lx s (withBaseObject s a i k) := by
  unfold withBaseObject
  exact ⟨((Keep.base s a i).trans h.1).trans (Keep.base _ _ _), fun hd => h.2 hd⟩

theorem execLiteral_lt (c : Ctx) {item : ItemK} (hI : LTI c item) (s : St) (nx : Option Node) (lit v : Item)
    (f : Found) (hn : AccessorOpt nx = true) (hlit : lenOK lit = true) :
    LT c s v (execLiteral c item s nx lit f) := by
  unfold execLiteral
  split
  · exact Out3.ret (Keep.refl s) _ _ (Or.inl rfl) (fun _ => ⟨rfl, by simp⟩)
  · exact next_from c hI (Keep.refl s) nx lit f hn (fun h => ⟨h.1, hlit⟩)

theorem execKeyNode_lt (c : Ctx) {item : ItemK} {any : AnyK} (hI : LTI c item) (hA : LTA c any) (s : St)
    (n : Node) (key : List Char) (nx : Option Node) (v : Item) (f : Found) (unwrap : Bool)
    (hself : Accessor n = true) (hn : AccessorOpt nx = true) :
    LT c s v (execKeyNode c item any s n key nx v f unwrap) := by
  unfold execKeyNode
  split
  · rename_i kvs
    split
    · rename_i val hval
      exact next_from c hI (Keep.refl s) nx val f hn
        (fun h => ⟨h.1, lenOKMembers_lookup (lenOK_obj h.2) key val hval⟩)
    · split
      · rename_i hig
        have hnl : ¬ (LaxS c s ∧ lenOK (Item.obj kvs) = true) := fun h => by simp [h.1.2.1] at hig
        split
        · exact Out3.ret (Keep.refl s) _ _ (Or.inl rfl) (fun h => absurd h hnl)
        · exact Out3.ret (Keep.refl s) _ _ (Or.inr rfl) (fun h => absurd h hnl)
      · exact Out3.ret (Keep.refl s) _ _ (Or.inl rfl) (fun _ => ⟨rfl, by simp⟩)
  · rename_i xs
    split
    · exact any_from c hA (Keep.refl s) (some n) xs f 1 1 1 false false hself
        (fun h => ⟨h.1, (lenOK_arr h.2).2⟩)
    · exact structural_out (Keep.refl s) f (fun h => h.1.2.1)
  · exact structural_out (Keep.refl s) f (fun h => h.1.2.1)

theorem execAnyKey_lt (c : Ctx) {any : AnyK} (hA : LTA c any) (s : St)
    (n : Node) (nx : Option Node) (v : Item) (f : Found) (unwrap : Bool)
    (hself : Accessor n = true) (hn : AccessorOpt nx = true) :
    LT c s v (execAnyKey c any s n nx v f unwrap) := by
  unfold execAnyKey
  split
  · rename_i kvs
    exact any_from c hA (Keep.refl s) nx (members kvs) f 1 1 1 false c.lax hn
      (fun h => ⟨h.1, lenOKMembers_members (lenOK_obj h.2)⟩)
  · rename_i xs
    split
    · unfold unwrapTargetArray
      exact any_from c hA (Keep.refl s) (some n) xs f 1 1 1 false false hself
        (fun h => ⟨h.1, (lenOK_arr h.2).2⟩)
    · exact structural_out (Keep.refl s) f (fun h => h.1.2.1)
  · exact structural_out (Keep.refl s) f (fun h => h.1.2.1)

theorem execAnyArray_lt (c : Ctx) {item : ItemK} {any : AnyK} (hI : LTI c item) (hA : LTA c any) (s : St)
    (nx : Option Node) (v : Item) (f : Found) (hn : AccessorOpt nx = true) :
    LT c s v (execAnyArray c item any s nx v f) := by
  unfold execAnyArray
  split
  · rename_i xs
    exact any_from c hA (Keep.refl s) nx xs f 1 1 1 false c.lax hn
      (fun h => ⟨h.1, (lenOK_arr h.2).2⟩)
  · split
    · exact next_from c hI (Keep.refl s) nx v f hn id
    · exact structural_out (Keep.refl s) f (fun h => h.1.2.1)

theorem execConstNode_lt (c : Ctx) {item : ItemK} {any : AnyK} (hI : LTI c item) (hA : LTA c any) (s : St)
    (n : Node) (k : Const) (nx : Option Node) (v : Item) (f : Found) (unwrap : Bool)
    (hself : Accessor n = true) (hk : accConst k = true) (hn : AccessorOpt nx = true) :
    LT c s v (execConstNode c item any s n k nx v f unwrap) := by
  unfold execConstNode
  cases k <;> simp only
  · refine withBaseObject_out s _ _ _ ?_
    exact next_from c hI (Keep.refl _) nx c.root f hn (fun h => ⟨⟨h.1.1, h.1.2.1, h.1.2.2.1, h.1.2.2.2⟩, h.1.2.2.2⟩)
  · exact next_from c hI (Keep.refl s) nx s.current f hn (fun h => ⟨h.1, h.1.2.2.1⟩)
  · simp [accConst] at hk
  · exact execAnyArray_lt c hI hA _ _ _ _ hn
  · exact execAnyKey_lt c hA _ _ _ _ _ _ hself hn
  · exact execLiteral_lt c hI _ _ _ _ _ hn rfl
  · exact execLiteral_lt c hI _ _ _ _ _ hn rfl
  · exact execLiteral_lt c hI _ _ _ _ _ hn rfl

theorem execMethodNode_lt (c : Ctx) {item : ItemK} {any : AnyK} (hI : LTI c item) (s : St)
    (n : Node) (m : Method) (nx : Option Node) (v : Item) (f : Found) (unwrap : Bool)
    (hm : accMethod m = true) (hn : AccessorOpt nx = true) :
    LT c s v (execMethodNode c item any s n m nx v f unwrap) := by
  unfold execMethodNode
  cases m <;> simp [accMethod] at hm <;> simp only
  · unfold execMethodSize
    split
    · exact next_from c hI (Keep.refl s) nx _ f hn (fun h => ⟨h.1, rfl⟩)
    · split
      · rename_i hcond
        exact returnVerboseError_out (Keep.refl s) f (fun h => by simp [h.1.1] at hcond)
      · exact next_from c hI (Keep.refl s) nx _ f hn (fun h => ⟨h.1, rfl⟩)
  · exact next_from c hI (Keep.refl s) nx _ f hn (fun h => ⟨h.1, rfl⟩)

/-! ## `.**` and the generic element loop -/

theorem foldl_inv_mem {α β : Type} (P : β → Prop) (step : β → α → β) (xs : List α) (b : β)
    (h0 : P b) (hstep : ∀ b x, x ∈ xs → P b → P (step b x)) : P (xs.foldl step b) := by
  induction xs generalizing b with
  | nil => exact h0
  | cons x xs ih =>
    exact ih _ (hstep _ _ (List.mem_cons_self ..) h0) (fun b y hy hb => hstep b y (List.mem_cons_of_mem _ hy) hb)

theorem Keep.setIgn (s : St) : Keep s { s with ignoreSE := true } :=
  ⟨rfl, rfl, fun _ => rfl, rfl, fun h => ⟨h, rfl⟩, id⟩

/-- the deferred restore of `ignoreStructuralErrors` -/
theorem Out3.restoreIgn {lx : Prop} {s st : St} {status : Status} {err : Option Err}
    (h : Out3 lx s st status err) : Out3 lx s { st with ignoreSE := s.ignoreSE } status err :=
  ⟨⟨h.1.current, h.1.innermost, fun h' => h', h.1.panicked, h.1.budget, h.1.mono⟩, fun hd => h.2 hd⟩

/-- loop invariant of the element loops: an early return satisfies the invariant, and so does the
    running triple (state, status, error) -/
def AInv (lx : Prop) (s : St) (a : AAcc) : Prop :=
  (∀ r, a.ret = some r → Out lx s r) ∧ (a.ret = none → Out3 lx s a.st a.res a.err)

theorem anyVisit_inv (c : Ctx) {item : ItemK} (hI : LTI c item) {lx : Prop} (node : Option Node)
    (level first last : Nat) (ignore unwrapNext : Bool) (s : St) (a : AAcc) (v : Item)
    (hn : AccessorOpt node = true) (hl : lx → LaxS c s ∧ lenOK v = true) (h : AInv lx s a)
    (hnone : a.ret = none) : AInv lx s (anyVisit item node level first last ignore unwrapNext a v) := by
  unfold anyVisit
  have ha := h.2 hnone
  split
  · split
    · rename_i n
      try dsimp only
      generalize hs1 : (if ignore = true then ({ a.st with ignoreSE := true } : St) else a.st) = s1
      have hk1 : Keep a.st s1 := by
        subst hs1; split
        · exact Keep.setIgn _
        · exact Keep.refl _
      have hr : Out lx s (item s1 n v a.found unwrapNext) :=
        Out.tail (ha.1.trans hk1) (fun h => ⟨(hl h).1.keep (ha.1.trans hk1), (hl h).2⟩)
          (hI.1 s1 n v a.found unwrapNext (by simpa [AccessorOpt] using hn))
      split
      · exact ⟨fun r hr' => by simp at hr'; subst hr'; exact hr, fun h' => by simp at h'⟩
      · exact ⟨fun r hr' => by simp at hr', fun _ => hr⟩
    · split
      · refine ⟨fun r hr' => by simp [hnone] at hr', fun _ => ?_⟩
        exact ⟨ha.1, fun hd => ⟨(ha.2 hd).1, fun hlx => ⟨((ha.2 hd).2 hlx).1, by simp⟩⟩⟩
      · refine ⟨fun r hr' => ?_, fun h' => by simp at h'⟩
        simp at hr'; subst hr'
        exact Out3.ret ha.1 _ _ (Or.inl rfl) (fun _ => ⟨rfl, by simp⟩)
  · exact h

theorem anyDescend_inv (c : Ctx) {any : AnyK} (hA : LTA c any) {lx : Prop} (node : Option Node)
    (level first last : Nat) (ignore unwrapNext : Bool) (s : St) (a : AAcc) (v : Item)
    (hn : AccessorOpt node = true) (hl : lx → LaxS c s ∧ lenOK v = true) (h : AInv lx s a)
    (hnone : a.ret = none) : AInv lx s (anyDescend any node level first last ignore unwrapNext a v) := by
  unfold anyDescend
  have ha := h.2 hnone
  split
  · try dsimp only
    have hr : Out lx s (any a.st node ((collection v).getD []) a.found (level + 1) first last ignore unwrapNext) :=
      any_from c hA ha.1 node _ a.found _ _ _ _ _ hn (fun h => ⟨(hl h).1, lenOK_collection (hl h).2⟩)
    split
    · exact ⟨fun r hr' => by simp at hr'; subst hr'; exact hr, fun h' => by simp at h'⟩
    · exact ⟨fun r hr' => by simp at hr', fun _ => hr⟩
  · exact h

theorem anyStep_inv (c : Ctx) {item : ItemK} {any : AnyK} (hI : LTI c item) (hA : LTA c any) {lx : Prop}
    (node : Option Node) (level first last : Nat) (ignore unwrapNext : Bool) (s : St) (a : AAcc) (v : Item)
    (hn : AccessorOpt node = true) (hl : lx → LaxS c s ∧ lenOK v = true) (h : AInv lx s a) :
    AInv lx s (anyStep item any node level first last ignore unwrapNext a v) := by
  unfold anyStep
  split
  · exact h
  · rename_i hnone
    have h1 := anyVisit_inv c hI node level first last ignore unwrapNext s a v hn hl h hnone
    try dsimp only
    split
    · exact h1
    · rename_i hnone1
      exact anyDescend_inv c hA node level first last ignore unwrapNext s _ v hn hl h1 hnone1

theorem executeAnyItem_lt (c : Ctx) {item : ItemK} {any : AnyK} (hI : LTI c item) (hA : LTA c any) (s : St)
    (node : Option Node) (vs : List Item) (f : Found) (level first last : Nat) (ignore unwrapNext : Bool)
    (hn : AccessorOpt node = true) :
    LTL c s vs (executeAnyItem item any s node vs f level first last ignore unwrapNext) := by
  unfold executeAnyItem
  split
  · exact Out3.ret (Keep.refl s) _ _ (Or.inl rfl) (fun _ => ⟨rfl, by simp⟩)
  · try dsimp only
    have hinv : AInv (LaxS c s ∧ ∀ x ∈ vs, lenOK x = true) s
        (vs.foldl (anyStep item any node level first last ignore unwrapNext) ⟨s, f, .notFound, none, none⟩) := by
      refine foldl_inv_mem (AInv (LaxS c s ∧ ∀ x ∈ vs, lenOK x = true) s) _ _ _ ?_ ?_
      · exact ⟨fun r hr => by simp at hr,
          fun _ => Out3.ret (Keep.refl s) _ _ (Or.inl rfl) (fun _ => ⟨rfl, by simp⟩)⟩
      · intro a v hv h
        exact anyStep_inv c hI hA node level first last ignore unwrapNext s a v hn (fun h => ⟨h.1, h.2 v hv⟩) h
    split
    · rename_i r hr
      exact Out3.restoreIgn (hinv.1 r hr)
    · rename_i hr
      have h2 := hinv.2 hr
      refine Out3.restoreIgn ⟨h2.1, fun hd => ⟨(h2.2 hd).1, fun hlx => ⟨((h2.2 hd).2 hlx).1, ?_⟩⟩⟩
      have := ((h2.2 hd).2 hlx).2
      split
      · simp
      · exact this

theorem anyInto_out (c : Ctx) {any : AnyK} (hA : LTA c any) {lx : Prop} {s s1 : St} (hk : Keep s s1)
    (first last : Nat) (nx : Option Node) (v : Item) (f : Found) (hn : AccessorOpt nx = true)
    (hl : lx → LaxS c s ∧ lenOK v = true) : Out lx s (anyInto c any s1 first last nx v f) := by
  unfold anyInto
  split
  · exact any_from c hA hk nx _ f _ _ _ _ _ hn (fun h => ⟨(hl h).1, lenOKMembers_members (lenOK_obj (hl h).2)⟩)
  · exact any_from c hA hk nx _ f _ _ _ _ _ hn (fun h => ⟨(hl h).1, (lenOK_arr (hl h).2).2⟩)
  · exact Out3.ret hk _ _ (Or.inl rfl) (fun _ => ⟨rfl, by simp⟩)

theorem execAnyNode_lt (c : Ctx) {item : ItemK} {any : AnyK} (hI : LTI c item) (hA : LTA c any) (s : St)
    (first last : Nat) (nx : Option Node) (v : Item) (f : Found) (hn : AccessorOpt nx = true) :
    LT c s v (execAnyNode c item any s first last nx v f) := by
  unfold execAnyNode
  split
  · have hr := next_from c hI (lx := LaxS c s ∧ lenOK v = true) (Keep.setIgn s) nx v f hn id
    try dsimp only
    split
    · exact Out3.restoreIgn hr
    · exact Out3.restoreIgn (anyInto_out c hA hr.1 first last nx v _ hn id)
  · exact anyInto_out c hA (Keep.refl s) first last nx v f hn id

/-! ## subscripts -/

theorem Bound_inv {n : Node} (h : Bound n = true) :
    (∃ i, n = .integer i none ∧ Num.inInt32 i = true) ∨ n = .const .last none := by
  unfold Bound at h
  split at h
  · exact Or.inl ⟨_, rfl, h⟩
  · exact Or.inr rfl
  · cases h

theorem Sub_inv {sub : Node} (h : Sub sub = true) :
    ∃ l r nx, sub = .binary .subscript (some l) r nx ∧ Bound l = true ∧ ∀ rn, r = some rn → Bound rn = true := by
  unfold Sub at h
  split at h
  · exact ⟨_, none, _, rfl, h, fun rn hr => by cases hr⟩
  · simp only [Bool.and_eq_true] at h
    exact ⟨_, _, _, rfl, h.1, fun rn hr => by cases hr; exact h.2⟩
  · cases h

/-- what can come out of a bound / subscript evaluation: unless cancelled or out of fuel, the only
    error is the suppressible one, and none at all under the lax premise -/
def idxErrOK {α : Type} (lx : Prop) : Except Err α → Prop
  | .ok _ => True
  | .error e => e = .verbose ∧ ¬ lx

def IdxOut {α : Type} (lx : Prop) (s1 : St) (p : St × Except Err α) : Prop :=
  Keep s1 p.1 ∧ (dirty p.1 = false → idxErrOK lx p.2)

theorem getArrayIndex_fst (c : Ctx) (item : ItemK) (s : St) (n : Node) (v : Item) :
    (getArrayIndex c item s n v).1 = (executeItem c item s n v (some [])).st := by
  unfold getArrayIndex
  dsimp only
  repeat' split
  all_goals rfl

theorem getArrayIndex_out (c : Ctx) {item : ItemK} (hI : LTI c item) {lx : Prop} (s1 : St) (n : Node) (v : Item)
    (hb : Bound n = true) (h0 : 0 ≤ s1.innermost) (hinn : lx → s1.innermost ≤ 2147483648) :
    IdxOut lx s1 (getArrayIndex c item s1 n v) := by
  have hr := hI.2 s1 n v c.lax hb h0
  have hfst := getArrayIndex_fst c item s1 n v
  unfold executeItem at hfst
  refine ⟨by rw [hfst]; exact hr.1, fun hd => ?_⟩
  rw [hfst] at hd
  obtain ⟨he, hnf, i, hf, hi⟩ := hr.2 hd
  unfold getArrayIndex executeItem
  simp only [hnf, if_false, hf, Option.getD_some, Num.getJSONInt32]
  split
  · simp [idxErrOK]
  · rename_i heq
    refine ⟨rfl, fun hlx => ?_⟩
    simp [hi (hinn hlx)] at heq
  · rename_i heq
    split at heq <;> cases heq

theorem execSubscript_out (c : Ctx) {item : ItemK} (hI : LTI c item) {lx : Prop} (s1 : St) (sub : Node)
    (v : Item) (size : Int) (hsub : Sub sub = true) (h0 : 0 ≤ s1.innermost)
    (hinn : lx → s1.innermost ≤ 2147483648) (hig : lx → s1.ignoreSE = true) :
    IdxOut lx s1 (execSubscript c item s1 sub v size) := by
  obtain ⟨l, r, nx, rfl, hbl, hbr⟩ := Sub_inv hsub
  simp only [execSubscript]
  have h1 := getArrayIndex_out c hI (lx := lx) s1 l v hbl h0 hinn
  split
  · rename_i s2 e heq
    rw [heq] at h1
    exact ⟨h1.1, fun hd => h1.2 hd⟩
  · rename_i s2 from_ heq
    rw [heq] at h1
    have hk2 : Keep s1 s2 := h1.1
    cases r with
    | none =>
      simp only
      split
      · rename_i hcond
        refine ⟨hk2, fun _ => ⟨rfl, fun hlx => ?_⟩⟩
        simp [hk2.ign (hig hlx)] at hcond
      · exact ⟨hk2, fun _ => trivial⟩
    | some rn =>
      have h2 := getArrayIndex_out c hI (lx := lx) s2 rn v (hbr rn rfl)
        (by rw [hk2.innermost]; exact h0) (fun hlx => by rw [hk2.innermost]; exact hinn hlx)
      simp only
      split
      · rename_i e heq2
        unfold IdxOut at h2; rw [heq2] at h2
        exact ⟨hk2.trans h2.1, fun hd => h2.2 hd⟩
      · rename_i to_ heq2
        unfold IdxOut at h2; rw [heq2] at h2
        have hk3 := hk2.trans h2.1
        split
        · rename_i hcond
          refine ⟨hk3, fun _ => ⟨rfl, fun hlx => ?_⟩⟩
          simp [hk3.ign (hig hlx)] at hcond
        · exact ⟨hk3, fun _ => trivial⟩

theorem returnError_out {lx : Prop} {s s1 : St} (hk : Keep s s1) (f : Found) (e : Err)
    (h : dirty s1 = false → e = .verbose ∧ ¬ lx) : Out lx s (returnError s1 f e) := by
  unfold returnError
  split
  · refine ⟨hk, fun hd => ?_⟩
    obtain ⟨rfl, hl⟩ := h hd
    exact ⟨Or.inr rfl, fun hlx => absurd hlx hl⟩
  · refine ⟨hk, fun hd => ⟨Or.inl rfl, fun hlx => absurd hlx (h hd).2⟩⟩

def IInv (lx : Prop) (s0 : St) (a : IAcc) : Prop :=
  (∀ r, a.ret = some r → Out lx s0 r) ∧ (a.ret = none → Out3 lx s0 a.st a.res a.err)

theorem indexElemStep_inv (c : Ctx) {item : ItemK} (hI : LTI c item) {lx : Prop} (nx : Option Node)
    (s0 : St) (a : IAcc) (v : Item) (hn : AccessorOpt nx = true) (hl : lx → LaxS c s0 ∧ lenOK v = true)
    (h : IInv lx s0 a) : IInv lx s0 (indexElemStep c item nx a v) := by
  unfold indexElemStep
  split
  · exact h
  · rename_i hsome
    have hnone : a.ret = none := by cases hr : a.ret <;> simp_all
    have ha := h.2 hnone
    split
    · exact h
    · split
      · refine ⟨fun r hr' => ?_, fun h' => by simp at h'⟩
        simp at hr'; subst hr'
        exact Out3.ret ha.1 _ _ (Or.inl rfl) (fun _ => ⟨rfl, by simp⟩)
      · try dsimp only
        have hr := next_from c hI ha.1 nx v a.found hn hl
        split
        · exact ⟨fun r hr' => by simp at hr'; subst hr'; exact hr, fun h' => by simp at h'⟩
        · exact ⟨fun r hr' => by simp at hr', fun _ => hr⟩

theorem indexSubStep_inv (c : Ctx) {item : ItemK} (hI : LTI c item) {lx : Prop} (nx : Option Node)
    (xs : List Item) (v : Item) (s0 : St) (a : IAcc) (sub : Node) (hn : AccessorOpt nx = true)
    (hsub : Sub sub = true) (h0 : 0 ≤ s0.innermost) (hinn : lx → s0.innermost ≤ 2147483648)
    (hl : lx → LaxS c s0 ∧ ∀ x ∈ xs, lenOK x = true) (h : IInv lx s0 a) :
    IInv lx s0 (indexSubStep c item nx xs v a sub) := by
  unfold indexSubStep
  split
  · exact h
  · rename_i hsome
    have hnone : a.ret = none := by cases hr : a.ret <;> simp_all
    have ha := h.2 hnone
    have hs := execSubscript_out c hI (lx := lx) a.st sub v xs.length hsub
      (by rw [ha.1.innermost]; exact h0) (fun hlx => by rw [ha.1.innermost]; exact hinn hlx)
      (fun hlx => ha.1.ign (hl hlx).1.2.1)
    split
    · rename_i s1 e heq
      unfold IdxOut at hs; rw [heq] at hs
      refine ⟨fun r hr' => ?_, fun h' => by simp at h'⟩
      simp at hr'; subst hr'
      exact returnError_out (ha.1.trans hs.1) _ e (fun hd => hs.2 hd)
    · rename_i s1 from_ to_ heq
      unfold IdxOut at hs; rw [heq] at hs
      refine foldl_inv_mem (IInv lx s0) _ _ _ ?_ ?_
      · refine ⟨fun r hr' => by simp [hnone] at hr', fun _ => ⟨ha.1.trans hs.1, fun hd => ?_⟩⟩
        exact ha.2 (hs.1.clean hd)
      · intro a' v' hv' h'
        exact indexElemStep_inv c hI nx s0 a' v' hn (fun hlx => ⟨(hl hlx).1, (hl hlx).2 v' (sliceRange_mem hv')⟩) h'

theorem arrayOf_lenOK {c : Ctx} {v : Item} {xs : List Item} (h : arrayOf c v = some xs) (hv : lenOK v = true) :
    xs.length ≤ 2147483648 ∧ ∀ x ∈ xs, lenOK x = true := by
  unfold arrayOf at h
  split at h
  · simp at h; subst h; exact lenOK_arr hv
  · split at h
    · simp at h; subst h
      refine ⟨by simp, fun x hx => ?_⟩
      simp at hx; subst hx; exact hv
    · cases h

theorem arrayOf_none {c : Ctx} {v : Item} (h : arrayOf c v = none) : c.lax = false := by
  unfold arrayOf at h
  split at h
  · cases h
  · split at h
    · cases h
    · rename_i hl; simpa using hl

/-- the deferred restore of `innermostArraySize` -/
theorem Out3.restoreInn {lx : Prop} {s st : St} {k : Int} {status : Status} {err : Option Err}
    (h : Out3 lx { s with innermost := k } st status err) :
    Out3 lx s { st with innermost := s.innermost } status err :=
  ⟨⟨h.1.current, rfl, h.1.ign, h.1.panicked, h.1.budget, h.1.mono⟩, fun hd => h.2 hd⟩

theorem execArrayIndex_lt (c : Ctx) {item : ItemK} (hI : LTI c item) (s : St) (subs : List Node)
    (nx : Option Node) (v : Item) (f : Found) (hsubs : subs.all Sub = true) (hn : AccessorOpt nx = true) :
    LT c s v (execArrayIndex c item s subs nx v f) := by
  unfold execArrayIndex
  split
  · rename_i hnone
    exact returnVerboseError_out (Keep.refl s) f (fun h => by
      have h1 := h.1.1; rw [arrayOf_none hnone] at h1; cases h1)
  · rename_i xs hxs
    try dsimp only
    have hinv : IInv (LaxS c s ∧ lenOK v = true) { s with innermost := xs.length }
        (subs.foldl (indexSubStep c item nx xs v) ⟨{ s with innermost := xs.length }, f, .notFound, none, none⟩) := by
      refine foldl_inv_mem (IInv (LaxS c s ∧ lenOK v = true) { s with innermost := xs.length }) _ _ _ ?_ ?_
      · exact ⟨fun r hr => by simp at hr,
          fun _ => Out3.ret (Keep.refl _) _ _ (Or.inl rfl) (fun _ => ⟨rfl, by simp⟩)⟩
      · intro a sub hsub h
        refine indexSubStep_inv c hI nx xs v _ a sub hn (List.all_eq_true.mp hsubs sub hsub) ?_ ?_ ?_ h
        · show (0 : Int) ≤ (xs.length : Int); omega
        · intro hlx
          show (xs.length : Int) ≤ 2147483648
          have := (arrayOf_lenOK hxs hlx.2).1; omega
        · intro hlx
          exact ⟨⟨hlx.1.1, hlx.1.2.1, hlx.1.2.2.1, hlx.1.2.2.2⟩, (arrayOf_lenOK hxs hlx.2).2⟩
    split
    · rename_i r hr
      exact Out3.restoreInn (hinv.1 r hr)
    · rename_i hr
      have h2 := hinv.2 hr
      refine Out3.restoreInn ⟨h2.1, fun hd => ⟨Or.inl rfl, fun hlx => ⟨rfl, ((h2.2 hd).2 hlx).2⟩⟩⟩

/-! ## dispatch and the induction over fuel -/

theorem dispatch_lt (c : Ctx) {item : ItemK} {bool : BoolK} {any : AnyK} (hI : LTI c item) (hA : LTA c any)
    (s : St) (n : Node) (v : Item) (f : Found) (unwrap : Bool) (hn : Accessor n = true) :
    LT c s v (dispatch c item bool any s n v f unwrap) := by
  unfold dispatch
  split
  · rename_i k nx
    have h : accConst k = true ∧ AccessorOpt nx = true := by simpa [Accessor] using hn
    exact execConstNode_lt c hI hA _ _ _ _ _ _ _ hn h.1 h.2
  · exact execLiteral_lt c hI _ _ _ _ _ (by simpa [Accessor] using hn) rfl
  · exact execLiteral_lt c hI _ _ _ _ _ (by simpa [Accessor] using hn) rfl
  · exact execLiteral_lt c hI _ _ _ _ _ (by simpa [Accessor] using hn) rfl
  · simp [Accessor] at hn
  · exact execKeyNode_lt c hI hA _ _ _ _ _ _ _ hn (by simpa [Accessor] using hn)
  · simp [Accessor] at hn
  · simp [Accessor] at hn
  · simp [Accessor] at hn
  · rename_i m nx
    have h : accMethod m = true ∧ AccessorOpt nx = true := by simpa [Accessor] using hn
    exact execMethodNode_lt c hI _ _ _ _ _ _ _ h.1 h.2
  · exact execAnyNode_lt c hI hA _ _ _ _ _ _ (by simpa [Accessor] using hn)
  · rename_i subs nx
    have h : subs.all Sub = true ∧ AccessorOpt nx = true := by simpa [Accessor] using hn
    exact execArrayIndex_lt c hI _ _ _ _ _ h.1 h.2

theorem dispatch_bound (c : Ctx) (item : ItemK) (bool : BoolK) (any : AnyK)
    (s : St) (n : Node) (v : Item) (unwrap : Bool) (hb : Bound n = true) (h0 : 0 ≤ s.innermost) :
    BoundOut s (dispatch c item bool any s n v (some []) unwrap) := by
  rcases Bound_inv hb with ⟨i, rfl, hi⟩ | rfl
  · simp only [dispatch, execLiteral, executeNextItem, Found.append]
    refine ⟨Keep.refl s, fun _ => ⟨rfl, by simp, i, by simp, fun _ => hi⟩⟩
  · have hlt : ¬ s.innermost < 0 := by omega
    simp only [dispatch, execConstNode, execLastConst, hlt, executeNextItem, Found.append]
    refine ⟨Keep.refl s, fun _ => ⟨rfl, by simp, s.innermost - 1, by simp, fun hle => ?_⟩⟩
    simp only [Num.inInt32, Num.minInt32, Num.maxInt32, Bool.and_eq_true]
    constructor <;> (apply decide_eq_true; omega)

theorem Keep.oof (s : St) : Keep s { s with oof := true } :=
  ⟨rfl, rfl, id, rfl, fun h => ⟨h, rfl⟩, fun _ => by simp [dirty]⟩

theorem poll_some {s s' : St} (h : poll s = some s') : Keep s s' := by
  unfold poll at h
  split at h
  · simp at h; subst h; exact Keep.refl s
  · cases h
  · rename_i b hb
    simp at h; subst h
    exact ⟨rfl, rfl, id, rfl, fun h => (by rw [hb] at h; cases h), id⟩

theorem poll_none {s : St} (h : poll s = none) : Keep s { s with sawCancel := true } := by
  unfold poll at h
  split at h
  · cases h
  · rename_i hb
    exact ⟨rfl, rfl, id, rfl, fun h => (by rw [hb] at h; cases h), fun _ => by simp [dirty]⟩
  · cases h

/-- **the invariant holds for the item and element-loop dispatchers, for every fuel** -/
theorem lt_all (c : Ctx) : ∀ fuel : Nat, LTI c (xItem c fuel) ∧ LTA c (xAny c fuel) := by
  intro fuel
  induction fuel with
  | zero =>
    refine ⟨⟨fun s n v f u _ => ?_, fun s n v u _ _ => ?_⟩, fun s node vs f l a b i u _ => ?_⟩
    · simp only [xItem]; exact Out3.ofDirty (Keep.oof s) (by simp [dirty]) _ _
    · simp only [xItem]; exact ⟨Keep.oof s, fun hd => by simp [dirty] at hd⟩
    · simp only [xAny]; exact Out3.ofDirty (Keep.oof s) (by simp [dirty]) _ _
  | succ fuel ih =>
    obtain ⟨hI, hA⟩ := ih
    refine ⟨⟨fun s n v f u hn => ?_, fun s n v u hb h0 => ?_⟩, fun s node vs f l a b i u hn => ?_⟩
    · simp only [xItem]
      split
      · rename_i hp
        exact Out3.ofDirty (poll_none hp) (by simp [dirty]) _ _
      · rename_i s' hp
        have hk := poll_some hp
        exact Out.tail hk (fun h => ⟨h.1.keep hk, h.2⟩) (dispatch_lt c hI hA s' n v f u hn)
    · simp only [xItem]
      split
      · rename_i hp
        exact ⟨poll_none hp, fun hd => by simp [dirty] at hd⟩
      · rename_i s' hp
        have hk := poll_some hp
        have hd := dispatch_bound c (xItem c fuel) (xBool c fuel) (xAny c fuel) s' n v u hb
          (by rw [hk.innermost]; exact h0)
        refine ⟨hk.trans hd.1, fun hcl => ?_⟩
        obtain ⟨h1, h2, i, h3, h4⟩ := hd.2 hcl
        exact ⟨h1, h2, i, h3, fun hle => h4 (by rw [hk.innermost]; exact hle)⟩
    · simp only [xAny]
      exact executeAnyItem_lt c hI hA s node vs f l a b i u hn

theorem xItem_lt (c : Ctx) (fuel : Nat) (s : St) (n : Node) (v : Item) (f : Found) (u : Bool)
    (hn : Accessor n = true) : LT c s v (xItem c fuel s n v f u) := (lt_all c fuel).1.1 s n v f u hn

end Lax
end Exec
end Sqljson
