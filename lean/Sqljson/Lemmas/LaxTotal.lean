import Sqljson.Model.Api
/-!
# Lax structural totality over whole accessor paths

`Props/C07.lean` shows, one step at a time, that lax mode absorbs structural mismatches.  This file
proves the unbounded statement: for a whole *accessor path* (`Accessor`, below; `AccessorF` adds
filters and predicates) evaluated in lax mode (`c.lax = true`, `ignoreStructuralErrors = true` as
`newExec` sets it), the executor returns no error and never `statusFailed`, for every document of
the class, every result list and every fuel — unless the run was cancelled (`sawCancel`) or the
model ran out of fuel (`oof`), and both flags are sticky.

In strict mode the same induction gives the error class: the only error such a path can return is
the suppressible one (`Err.verbose`); it never panics in either mode.

Structure (as in `Lemmas/Good.lean`): one lemma per Go function, "if the recursive calls satisfy the
invariant, so does this function"; loops by `foldl_inv_mem`; `lt_all` by induction on fuel over the
three dispatchers `xItem`, `xBool`, `xAny`.

Everything is relative to (`Env`)
* a class of documents `D` closed under taking members and elements (`DocClass`), to which the root,
  the current item and the value belong, and a class `F ⊇ D` of items for the result list — the
  invariant also says that the result list stays inside `F` (with predicates, `F = D`: their operands
  are result lists);
* a flag `ff`: whether filters and predicates are allowed in the path (`AccG ff`); if so,
  `FilterOK`: every `like_regex` pattern compiles and comparing two items of `D` neither errs nor
  panics.

The property-facing statements are in `Props/C07b.lean`.
-/

namespace Sqljson
namespace Exec
namespace Lax
open Sqljson.Exec

/-- cancelled, or the model ran out of fuel: the two sticky flags under which nothing is claimed -/
def dirty (s : St) : Bool := s.oof || s.sawCancel

/-! ## the syntactic classes -/

/-- a subscript bound: an integer literal in the int32 range, a finite numeric literal whose
    truncation is in the int32 range, or `last`; nothing chained to it.
    (A literal outside the int32 range is the error "array subscript is out of integer range" in
    lax mode as well — `C14.index_range`; so is any bound that does not evaluate to a number.) -/
def Bound : Node → Bool
  | .integer i none => Num.inInt32 i
  | .numeric x none => !x.isInf && !x.isNaN && Num.inInt32 (F64.toInt64 x)
  | .const .last none => true
  | _ => false

/-- one subscript `i` or `i to j` of `[…]` -/
def Sub : Node → Bool
  | .binary .subscript (some l) none _ => Bound l
  | .binary .subscript (some l) (some r) _ => Bound l && Bound r
  | _ => false

/-- every constant but `last`: `$`, `@`, `.*`, `[*]`, and the literals `true false null`.
    (`last` outside a subscript is the non-suppressible error `Hard.lastOutside`.) -/
def accConst : Const → Bool
  | .last => false
  | _ => true

/-- the two item methods that cannot fail in lax mode: `.type()` and `.size()`.
    (`.keyvalue()` on a non-object and the conversion methods on an unconvertible value raise
    their error in lax mode too.) -/
def accMethod : Method → Bool
  | .type | .size => true
  | _ => false

/-- `&&`, `||` -/
def isConnective : BinOp → Bool
  | .and | .or => true
  | _ => false

/-- `== != < > <= >=` and `starts with` -/
def isPredOp : BinOp → Bool
  | .eq | .ne | .lt | .gt | .le | .ge | .startsWith => true
  | _ => false

mutual
  /-- a chain made only of: root `$`, current `@`, `.key`, `.*`, `[*]`, `.**{a to b}`, subscripts
      `[i, j to k, last]` whose bounds are numeric literals in the int32 range or `last`, literals, `.type()`, `.size()`
      and — if `ff` — filters `?(p)` and predicates `p` in chain position (`$.a == 1`, `exists($.a)`),
      with `p` a predicate `PredG`:
      no arithmetic, no variables, no other methods -/
  def AccG (ff : Bool) : Node → Bool
    | .const k nx => accConst k && AccGOpt ff nx
    | .key _ nx => AccGOpt ff nx
    | .any _ _ nx => AccGOpt ff nx
    | .arrayIndex subs nx => subs.all Sub && AccGOpt ff nx
    | .str _ nx => AccGOpt ff nx
    | .integer _ nx => AccGOpt ff nx
    | .numeric _ nx => AccGOpt ff nx
    | .method m nx => accMethod m && AccGOpt ff nx
    | .unary .filter (some cond) nx => ff && PredG ff cond && cond.next.isNone && AccGOpt ff nx
    | .unary .not (some x) nx => ff && PredG ff x && x.next.isNone && AccGOpt ff nx
    | .unary .isUnknown (some x) nx => ff && PredG ff x && x.next.isNone && AccGOpt ff nx
    | .unary .exists (some x) nx => ff && AccG ff x && AccGOpt ff nx
    | .binary op (some l) (some r) nx =>
      ff && ((isConnective op && PredG ff l && l.next.isNone && PredG ff r && r.next.isNone) ||
             (isPredOp op && AccG ff l && AccG ff r)) && AccGOpt ff nx
    | .regex x _ _ nx => ff && AccG ff x && AccGOpt ff nx
    | _ => false
  /-- a predicate (its own `next` is not looked at): `&&`, `||`, `!`, `is unknown` over predicates with
      nothing chained to them, `exists(path)`, comparisons and `starts with` between paths,
      `path like_regex "…"` -/
  def PredG (ff : Bool) : Node → Bool
    | .binary op (some l) (some r) _ =>
      (isConnective op && PredG ff l && l.next.isNone && PredG ff r && r.next.isNone) ||
      (ff && isPredOp op && AccG ff l && AccG ff r)
    | .unary .not (some x) _ => PredG ff x && x.next.isNone
    | .unary .isUnknown (some x) _ => PredG ff x && x.next.isNone
    | .unary .exists (some x) _ => AccG ff x
    | .regex x _ _ _ => ff && AccG ff x
    | _ => false
  def AccGOpt (ff : Bool) : Option Node → Bool
    | none => true
    | some n => AccG ff n
end

/-- accessor paths without filters -/
def Accessor (n : Node) : Bool := AccG false n
/-- accessor paths with filters and predicates -/
def AccessorF (n : Node) : Bool := AccG true n

/-! ## document classes -/

/-- a class of items closed under taking members and elements, containing the scalars the executor
    makes up itself (literals, `.size()`, `.type()`, `last`) -/
structure DocClass (D : Item → Prop) : Prop where
  arr : ∀ xs, D (.arr xs) → ∀ x ∈ xs, D x
  lookup : ∀ kvs k v, D (.obj kvs) → Item.lookup k kvs = some v → D v
  members : ∀ kvs, D (.obj kvs) → ∀ x ∈ members kvs, D x
  null : D .null
  bool : ∀ b, D (.bool b)
  int : ∀ i, D (.int i)
  flt : ∀ x, D (.flt x)
  str : ∀ t, D (.str t)

/-- the callback of a predicate neither errs nor panics -/
def CbClean : CbOut → Prop
  | .val _ e => e = none
  | .panic => False

/-- what filters need: patterns compile (the parser checks them), and comparing items of the class
    neither errs nor panics (false for datetime items: `ErrInvalid` against a non-datetime — D15) -/
structure FilterOK (c : Ctx) (D : Item → Prop) : Prop where
  regex : ∀ p fl t, (c.regexMatch p fl t).isSome = true
  cmp : ∀ op l r, isCompareOp op = true → D l → D r → CbClean (compareItems c op l r)

/-- the standing assumptions of the induction: `D` is the class of the documents, `F ⊇ D` the class of
    the items in the result list (all items, if there are no predicates whose operands they could become) -/
structure Env (D F : Item → Prop) (c : Ctx) (ff : Bool) : Prop where
  doc : DocClass D
  root : D c.root
  /-- `last` is evaluated to `len - 1` and then read back through `getJSONInt32`, so `$[last]` on an
      array of more than 2^31 elements is the "out of integer range" error even in lax mode -/
  len : c.lax = true → ∀ xs, D (.arr xs) → xs.length ≤ 2147483648
  filt : ff = true → FilterOK c D
  toF : ∀ x, D x → F x
  farr : ∀ xs, F (.arr xs) → ∀ x ∈ xs, F x
  ofF : ff = true → ∀ x, F x → D x

/-- every item of the result list is in the class -/
def AllD (D : Item → Prop) (f : Found) : Prop := ∀ l, f = some l → ∀ x ∈ l, D x

theorem AllD.none {D : Item → Prop} : AllD D none := fun l h => by cases h
theorem AllD.nil {D : Item → Prop} : AllD D (some []) := fun l h x hx => by cases h; cases hx

theorem AllD.append {D : Item → Prop} {f : Found} (hf : AllD D f) {v : Item} (hv : D v) : AllD D (f.append v) := by
  intro l hl x hx
  cases f with
  | none => simp [Found.append] at hl
  | some l0 =>
    simp [Found.append] at hl; subst hl
    rcases List.mem_append.mp hx with h | h
    · exact hf l0 rfl x h
    · simp at h; subst h; exact hv

theorem DocClass.coll {D : Item → Prop} (hD : DocClass D) {v : Item} (h : D v) :
    ∀ x ∈ (Exec.collection v).getD [], D x := by
  cases v with
  | arr xs => exact hD.arr xs h
  | obj kvs => exact hD.members kvs h
  | _ => intro x hx; simp [Exec.collection] at hx

theorem unwrapSeq_closed {F : Item → Prop} (harr : ∀ xs, F (.arr xs) → ∀ x ∈ xs, F x) {l : List Item}
    (h : ∀ x ∈ l, F x) : ∀ x ∈ Exec.unwrapSeq l, F x := by
  induction l with
  | nil => intro x hx; simp [Exec.unwrapSeq] at hx
  | cons y ys ih =>
    have hy := h y (List.mem_cons_self ..)
    have hys := ih (fun x hx => h x (List.mem_cons_of_mem _ hx))
    intro x hx
    cases y with
    | arr xs =>
      simp only [Exec.unwrapSeq] at hx
      rcases List.mem_append.mp hx with h1 | h1
      · exact harr xs hy x h1
      · exact hys x h1
    | _ =>
      change x ∈ _ :: Exec.unwrapSeq ys at hx
      rcases List.mem_cons.mp hx with rfl | h1
      · exact hy
      · exact hys x h1

theorem sliceRange_mem {xs : List Item} {a b : Int} {x : Item} (h : x ∈ sliceRange xs a b) : x ∈ xs := by
  unfold sliceRange at h
  split at h
  · cases h
  · exact List.mem_of_mem_drop (List.mem_of_mem_take h)

theorem foldl_inv_mem {α β : Type} (P : β → Prop) (step : β → α → β) (xs : List α) (b : β)
    (h0 : P b) (hstep : ∀ b x, x ∈ xs → P b → P (step b x)) : P (xs.foldl step b) := by
  induction xs generalizing b with
  | nil => exact h0
  | cons x xs ih =>
    exact ih _ (hstep _ _ (List.mem_cons_self ..) h0) (fun b y hy hb => hstep b y (List.mem_cons_of_mem _ hy) hb)

/-! ## the invariant -/

/-- what an accessor path leaves of the state `s` it started in -/
structure Keep (s t : St) : Prop where
  current : t.current = s.current
  innermost : t.innermost = s.innermost
  ign : s.ignoreSE = true → t.ignoreSE = true
  panicked : t.panicked = s.panicked
  budget : s.budget = none → t.budget = none ∧ t.sawCancel = s.sawCancel
  mono : dirty s = true → dirty t = true

theorem Keep.refl (s : St) : Keep s s := ⟨rfl, rfl, id, rfl, fun h => ⟨h, rfl⟩, id⟩

theorem Keep.trans {a b c : St} (h1 : Keep a b) (h2 : Keep b c) : Keep a c :=
  ⟨h2.current.trans h1.current, h2.innermost.trans h1.innermost, fun h => h2.ign (h1.ign h),
   h2.panicked.trans h1.panicked,
   fun h => ⟨(h2.budget (h1.budget h).1).1, (h2.budget (h1.budget h).1).2.trans (h1.budget h).2⟩,
   fun h => h2.mono (h1.mono h)⟩

theorem Keep.clean {s t : St} (h : Keep s t) (ht : dirty t = false) : dirty s = false := by
  cases hs : dirty s with
  | false => rfl
  | true => rw [h.mono hs] at ht; cases ht

theorem Keep.base (s : St) (a : Nat) (i : Int) : Keep s { s with baseAddr := a, baseId := i } :=
  ⟨rfl, rfl, id, rfl, fun h => ⟨h, rfl⟩, id⟩

theorem Keep.setIgn (s : St) : Keep s { s with ignoreSE := true } :=
  ⟨rfl, rfl, fun _ => rfl, rfl, fun h => ⟨h, rfl⟩, id⟩

theorem Keep.setVerbose (s : St) (b : Bool) : Keep s { s with verbose := b } :=
  ⟨rfl, rfl, id, rfl, fun h => ⟨h, rfl⟩, id⟩

theorem Keep.oof (s : St) : Keep s { s with oof := true } :=
  ⟨rfl, rfl, id, rfl, fun h => ⟨h, rfl⟩, fun _ => by simp [dirty]⟩

/-- the lax premise: lax mode, and structural errors ignored (as `newExec` sets it in lax mode) -/
def Lx (c : Ctx) (s : St) : Prop := c.lax = true ∧ s.ignoreSE = true

theorem Lx.keep {c : Ctx} {s t : St} (h : Lx c s) (hk : Keep s t) : Lx c t := ⟨h.1, hk.ign h.2⟩

/-- the result triple of a call started in `s`: the state is kept; unless cancelled or out of fuel,
    the error (if any) is the suppressible one, and under the lax premise there is no error and
    the status is not `failed` -/
def Out3 (c : Ctx) (s st : St) (status : Status) (err : Option Err) : Prop :=
  Keep s st ∧ (dirty st = false → (err = none ∨ err = some .verbose) ∧ (Lx c s → err = none ∧ status ≠ .failed))

/-- invariant of an executor call: `Out3`, and the result list stays in the class -/
def Out (F : Item → Prop) (c : Ctx) (s : St) (r : Res) : Prop := Out3 c s r.st r.status r.err ∧ AllD F r.found

/-- invariant of a predicate evaluation -/
def OutP (c : Ctx) (s st : St) (err : Option Err) : Prop :=
  Keep s st ∧ (dirty st = false → (err = none ∨ err = some .verbose) ∧ (Lx c s → err = none))

/-- a subscript bound evaluates to one number, which `getJSONInt32` reads as an int32 if the innermost
    array is not huge (and never rejects as invalid) -/
def BoundOut (s : St) (r : Res) : Prop :=
  Keep s r.st ∧ (dirty r.st = false → r.err = none ∧ r.status ≠ .failed ∧
    ∃ x, r.found = some [x] ∧ Num.getJSONInt32 x ≠ .error .invalid ∧
      (s.innermost ≤ 2147483648 → ∃ i, Num.getJSONInt32 x = .ok i))

def LTI (D F : Item → Prop) (c : Ctx) (ff : Bool) (item : ItemK) : Prop :=
  (∀ s n v f u, AccG ff n = true → D v → D s.current → AllD F f → Out F c s (item s n v f u)) ∧
  (∀ s n v u, Bound n = true → 0 ≤ s.innermost → BoundOut s (item s n v (some []) u))

def LTA (D F : Item → Prop) (c : Ctx) (ff : Bool) (any : AnyK) : Prop :=
  ∀ s node vs f l a b i u, AccGOpt ff node = true → (∀ x ∈ vs, D x) → D s.current → AllD F f →
    Out F c s (any s node vs f l a b i u)

def LTB (D : Item → Prop) (c : Ctx) (ff : Bool) (bool : BoolK) : Prop :=
  ∀ s n v chn, PredG ff n = true → (chn = false → n.next = none) → D v → D s.current →
    OutP c s (bool s n v chn).st (bool s n v chn).err

theorem Out3.ret {c : Ctx} {s s1 : St} (hk : Keep s s1) (st : Status) (e : Option Err)
    (h1 : e = none ∨ e = some .verbose) (h2 : Lx c s → e = none ∧ st ≠ .failed) : Out3 c s s1 st e :=
  ⟨hk, fun _ => ⟨h1, h2⟩⟩

/-- no error, not failed -/
theorem Out3.ok {c : Ctx} {s s1 : St} (hk : Keep s s1) (st : Status) (hst : st ≠ .failed) : Out3 c s s1 st none :=
  Out3.ret hk _ _ (Or.inl rfl) (fun _ => ⟨rfl, hst⟩)

/-- a result produced from a state reached inside the function -/
theorem Out3.tail {c : Ctx} {s s1 st : St} {status : Status} {err : Option Err} (hk : Keep s s1)
    (h : Out3 c s1 st status err) : Out3 c s st status err :=
  ⟨hk.trans h.1, fun hd => ⟨(h.2 hd).1, fun hlx => (h.2 hd).2 (hlx.keep hk)⟩⟩

theorem Out.tail {F : Item → Prop} {c : Ctx} {s s1 : St} {r : Res} (hk : Keep s s1) (h : Out F c s1 r) :
    Out F c s r := ⟨Out3.tail hk h.1, h.2⟩

theorem OutP.tail {c : Ctx} {s s1 st : St} {err : Option Err} (hk : Keep s s1)
    (h : OutP c s1 st err) : OutP c s st err :=
  ⟨hk.trans h.1, fun hd => ⟨(h.2 hd).1, fun hlx => (h.2 hd).2 (hlx.keep hk)⟩⟩

theorem OutP.ok {c : Ctx} {s s1 : St} (hk : Keep s s1) : OutP c s s1 none :=
  ⟨hk, fun _ => ⟨Or.inl rfl, fun _ => rfl⟩⟩

/-- a failed operand evaluation is the predicate's outcome -/
theorem OutP.ofOut3 {c : Ctx} {s st : St} {status : Status} {err : Option Err} (h : Out3 c s st status err) :
    OutP c s st err := ⟨h.1, fun hd => ⟨(h.2 hd).1, fun hlx => ((h.2 hd).2 hlx).1⟩⟩

/-- a dirty state: nothing is claimed -/
theorem Out3.ofDirty {c : Ctx} {s st : St} (hk : Keep s st) (hd : dirty st = true) (status : Status)
    (err : Option Err) : Out3 c s st status err :=
  ⟨hk, fun h => by rw [hd] at h; cases h⟩

theorem returnVerboseError_out {F : Item → Prop} {c : Ctx} {s s1 : St} (hk : Keep s s1) {f : Found}
    (hf : AllD F f) (hl : ¬ Lx c s) : Out F c s (returnVerboseError s1 f) := by
  unfold returnVerboseError
  split
  · exact ⟨Out3.ret hk _ _ (Or.inr rfl) (fun h => absurd h hl), hf⟩
  · exact ⟨Out3.ret hk _ _ (Or.inl rfl) (fun h => absurd h hl), hf⟩

theorem structural_out {F : Item → Prop} {c : Ctx} {s s1 : St} (hk : Keep s s1) {f : Found} (hf : AllD F f) :
    Out F c s (structural s1 f) := by
  unfold structural
  split
  · rename_i hig
    exact returnVerboseError_out hk hf (fun h => by simp [hk.ign h.2] at hig)
  · exact ⟨Out3.ok hk _ (by simp), hf⟩

/-! ## chain steps -/

section Steps
variable {D F : Item → Prop} {c : Ctx} {ff : Bool}

theorem executeNextItem_lt (E : Env D F c ff) {item : ItemK} (hI : LTI D F c ff item) (s : St) (nx : Option Node) (v : Item)
    (f : Found) (hn : AccGOpt ff nx = true) (hv : D v) (hcur : D s.current) (hf : AllD F f) :
    Out F c s (executeNextItem c item s nx v f) := by
  unfold executeNextItem
  split
  · exact hI.1 _ _ _ _ _ (by simpa [AccGOpt] using hn) hv hcur hf
  · exact ⟨Out3.ok (Keep.refl s) _ (by simp), hf.append (E.toF _ hv)⟩

/-- the rest of the chain, entered from a state reached inside a function started at `s` -/
theorem next_from (E : Env D F c ff) {item : ItemK} (hI : LTI D F c ff item) {s s1 : St} (hk : Keep s s1)
    (nx : Option Node) (v : Item) (f : Found) (hn : AccGOpt ff nx = true) (hv : D v) (hcur : D s.current)
    (hf : AllD F f) : Out F c s (executeNextItem c item s1 nx v f) :=
  Out.tail hk (executeNextItem_lt E hI s1 nx v f hn hv (by rw [hk.current]; exact hcur) hf)

theorem item_from {item : ItemK} (hI : LTI D F c ff item) {s s1 : St} (hk : Keep s s1)
    (n : Node) (v : Item) (f : Found) (u : Bool) (hn : AccG ff n = true) (hv : D v) (hcur : D s.current)
    (hf : AllD F f) : Out F c s (item s1 n v f u) :=
  Out.tail hk (hI.1 s1 n v f u hn hv (by rw [hk.current]; exact hcur) hf)

theorem any_from {any : AnyK} (hA : LTA D F c ff any) {s s1 : St} (hk : Keep s s1)
    (node : Option Node) (vs : List Item) (f : Found) (l a b : Nat) (i u : Bool)
    (hn : AccGOpt ff node = true) (hvs : ∀ x ∈ vs, D x) (hcur : D s.current) (hf : AllD F f) :
    Out F c s (any s1 node vs f l a b i u) :=
  Out.tail hk (hA s1 node vs f l a b i u hn hvs (by rw [hk.current]; exact hcur) hf)

theorem withBaseObject_out (s : St) (a : Nat) (i : Int) (k : St → Res)
    (h : Out F c { s with baseAddr := a, baseId := i } (k { s with baseAddr := a, baseId := i })) :
    Out F c s (withBaseObject s a i k) := by
  unfold withBaseObject
  exact ⟨⟨((Keep.base s a i).trans h.1.1).trans (Keep.base _ _ _), fun hd => h.1.2 hd⟩, h.2⟩

theorem execLiteral_lt (E : Env D F c ff) {item : ItemK} (hI : LTI D F c ff item) (s : St) (nx : Option Node) (lit : Item)
    (f : Found) (hn : AccGOpt ff nx = true) (hlit : D lit) (hcur : D s.current) (hf : AllD F f) :
    Out F c s (execLiteral c item s nx lit f) := by
  unfold execLiteral
  split
  · exact ⟨Out3.ok (Keep.refl s) _ (by simp), hf⟩
  · exact next_from E hI (Keep.refl s) nx lit f hn hlit hcur hf

theorem execKeyNode_lt (E : Env D F c ff) {item : ItemK} {any : AnyK} (hI : LTI D F c ff item) (hA : LTA D F c ff any)
    (s : St) (n : Node) (key : List Char) (nx : Option Node) (v : Item) (f : Found) (unwrap : Bool)
    (hself : AccG ff n = true) (hn : AccGOpt ff nx = true) (hv : D v) (hcur : D s.current) (hf : AllD F f) :
    Out F c s (execKeyNode c item any s n key nx v f unwrap) := by
  unfold execKeyNode
  split
  · rename_i kvs
    split
    · rename_i val hval
      exact next_from E hI (Keep.refl s) nx val f hn (E.doc.lookup kvs key val hv hval) hcur hf
    · split
      · rename_i hig
        have hnl : ¬ Lx c s := fun h => by simp [h.2] at hig
        split
        · exact ⟨Out3.ret (Keep.refl s) _ _ (Or.inl rfl) (fun h => absurd h hnl), hf⟩
        · exact ⟨Out3.ret (Keep.refl s) _ _ (Or.inr rfl) (fun h => absurd h hnl), hf⟩
      · exact ⟨Out3.ok (Keep.refl s) _ (by simp), hf⟩
  · rename_i xs
    split
    · exact any_from hA (Keep.refl s) (some n) xs f 1 1 1 false false hself (E.doc.arr xs hv) hcur hf
    · exact structural_out (Keep.refl s) hf
  · exact structural_out (Keep.refl s) hf

theorem execAnyKey_lt (E : Env D F c ff) {any : AnyK} (hA : LTA D F c ff any) (s : St)
    (n : Node) (nx : Option Node) (v : Item) (f : Found) (unwrap : Bool)
    (hself : AccG ff n = true) (hn : AccGOpt ff nx = true) (hv : D v) (hcur : D s.current) (hf : AllD F f) :
    Out F c s (execAnyKey c any s n nx v f unwrap) := by
  unfold execAnyKey
  split
  · rename_i kvs
    exact any_from hA (Keep.refl s) nx (members kvs) f 1 1 1 false c.lax hn (E.doc.members kvs hv) hcur hf
  · rename_i xs
    split
    · unfold unwrapTargetArray
      exact any_from hA (Keep.refl s) (some n) xs f 1 1 1 false false hself (E.doc.arr xs hv) hcur hf
    · exact structural_out (Keep.refl s) hf
  · exact structural_out (Keep.refl s) hf

theorem execAnyArray_lt (E : Env D F c ff) {item : ItemK} {any : AnyK} (hI : LTI D F c ff item) (hA : LTA D F c ff any)
    (s : St) (nx : Option Node) (v : Item) (f : Found) (hn : AccGOpt ff nx = true)
    (hv : D v) (hcur : D s.current) (hf : AllD F f) :
    Out F c s (execAnyArray c item any s nx v f) := by
  unfold execAnyArray
  split
  · rename_i xs
    exact any_from hA (Keep.refl s) nx xs f 1 1 1 false c.lax hn (E.doc.arr xs hv) hcur hf
  · split
    · exact next_from E hI (Keep.refl s) nx v f hn hv hcur hf
    · exact structural_out (Keep.refl s) hf

theorem execConstNode_lt (E : Env D F c ff) {item : ItemK} {any : AnyK} (hI : LTI D F c ff item) (hA : LTA D F c ff any)
    (s : St) (n : Node) (k : Const) (nx : Option Node) (v : Item) (f : Found) (unwrap : Bool)
    (hself : AccG ff n = true) (hk : accConst k = true) (hn : AccGOpt ff nx = true)
    (hv : D v) (hcur : D s.current) (hf : AllD F f) :
    Out F c s (execConstNode c item any s n k nx v f unwrap) := by
  unfold execConstNode
  cases k <;> simp only
  · refine withBaseObject_out s _ _ _ ?_
    exact next_from E hI (Keep.refl _) nx c.root f hn E.root hcur hf
  · exact next_from E hI (Keep.refl s) nx s.current f hn hcur hcur hf
  · simp [accConst] at hk
  · exact execAnyArray_lt E hI hA _ _ _ _ hn hv hcur hf
  · exact execAnyKey_lt E hA _ _ _ _ _ _ hself hn hv hcur hf
  · exact execLiteral_lt E hI _ _ _ _ hn (E.doc.bool _) hcur hf
  · exact execLiteral_lt E hI _ _ _ _ hn (E.doc.bool _) hcur hf
  · exact execLiteral_lt E hI _ _ _ _ hn E.doc.null hcur hf

theorem execMethodNode_lt (E : Env D F c ff) {item : ItemK} {any : AnyK} (hI : LTI D F c ff item) (s : St)
    (n : Node) (m : Method) (nx : Option Node) (v : Item) (f : Found) (unwrap : Bool)
    (hm : accMethod m = true) (hn : AccGOpt ff nx = true) (hcur : D s.current) (hf : AllD F f) :
    Out F c s (execMethodNode c item any s n m nx v f unwrap) := by
  unfold execMethodNode
  cases m <;> simp [accMethod] at hm <;> simp only
  · unfold execMethodSize
    split
    · exact next_from E hI (Keep.refl s) nx _ f hn (E.doc.int _) hcur hf
    · split
      · exact structural_out (Keep.refl s) hf
      · exact next_from E hI (Keep.refl s) nx _ f hn (E.doc.int _) hcur hf
  · exact next_from E hI (Keep.refl s) nx _ f hn (E.doc.str _) hcur hf

/-! ## `.**` and the generic element loop -/

/-- the deferred restore of `ignoreStructuralErrors` -/
theorem Out3.restoreIgn {s st : St} {status : Status} {err : Option Err}
    (h : Out3 c s st status err) : Out3 c s { st with ignoreSE := s.ignoreSE } status err :=
  ⟨⟨h.1.current, h.1.innermost, fun h' => h', h.1.panicked, h.1.budget, h.1.mono⟩, fun hd => h.2 hd⟩

theorem Out.restoreIgn {s : St} {r : Res} (h : Out F c s r) :
    Out F c s { r with st := { r.st with ignoreSE := s.ignoreSE } } := ⟨Out3.restoreIgn h.1, h.2⟩

/-- loop invariant of the element loops: an early return satisfies the invariant, and so does the
    running tuple (state, result list, status, error) -/
def AInv (F : Item → Prop) (c : Ctx) (s : St) (a : AAcc) : Prop :=
  (∀ r, a.ret = some r → Out F c s r) ∧ (a.ret = none → Out3 c s a.st a.res a.err ∧ AllD F a.found)

theorem anyVisit_inv (E : Env D F c ff) {item : ItemK} (hI : LTI D F c ff item) (node : Option Node)
    (level first last : Nat) (ignore unwrapNext : Bool) (s : St) (a : AAcc) (v : Item)
    (hn : AccGOpt ff node = true) (hv : D v) (hcur : D s.current) (h : AInv F c s a)
    (hnone : a.ret = none) : AInv F c s (anyVisit item node level first last ignore unwrapNext a v) := by
  unfold anyVisit
  obtain ⟨ha, haf⟩ := h.2 hnone
  split
  · split
    · rename_i n
      try dsimp only
      generalize hs1 : (if ignore = true then ({ a.st with ignoreSE := true } : St) else a.st) = s1
      have hk1 : Keep a.st s1 := by
        subst hs1; split
        · exact Keep.setIgn _
        · exact Keep.refl _
      have hr : Out F c s (item s1 n v a.found unwrapNext) :=
        item_from hI (ha.1.trans hk1) n v a.found unwrapNext (by simpa [AccGOpt] using hn) hv hcur haf
      split
      · exact ⟨fun r hr' => by simp at hr'; subst hr'; exact hr, fun h' => by simp at h'⟩
      · exact ⟨fun r hr' => by simp at hr', fun _ => hr⟩
    · split
      · rename_i l hl
        refine ⟨fun r hr' => by simp [hnone] at hr', fun _ => ⟨?_, ?_⟩⟩
        · exact ⟨ha.1, fun hd => ⟨(ha.2 hd).1, fun hlx => ⟨((ha.2 hd).2 hlx).1, by simp⟩⟩⟩
        · have := haf.append (E.toF _ hv)
          rw [hl] at this
          exact this
      · refine ⟨fun r hr' => ?_, fun h' => by simp at h'⟩
        simp at hr'; subst hr'
        exact ⟨Out3.ok ha.1 _ (by simp), AllD.none⟩
  · exact h

theorem anyDescend_inv (E : Env D F c ff) {any : AnyK} (hA : LTA D F c ff any) (node : Option Node)
    (level first last : Nat) (ignore unwrapNext : Bool) (s : St) (a : AAcc) (v : Item)
    (hn : AccGOpt ff node = true) (hv : D v) (hcur : D s.current) (h : AInv F c s a)
    (hnone : a.ret = none) : AInv F c s (anyDescend any node level first last ignore unwrapNext a v) := by
  unfold anyDescend
  obtain ⟨ha, haf⟩ := h.2 hnone
  split
  · try dsimp only
    have hr : Out F c s (any a.st node ((collection v).getD []) a.found (level + 1) first last ignore unwrapNext) :=
      any_from hA ha.1 node _ a.found _ _ _ _ _ hn (E.doc.coll hv) hcur haf
    split
    · exact ⟨fun r hr' => by simp at hr'; subst hr'; exact hr, fun h' => by simp at h'⟩
    · exact ⟨fun r hr' => by simp at hr', fun _ => hr⟩
  · exact h

theorem anyStep_inv (E : Env D F c ff) {item : ItemK} {any : AnyK} (hI : LTI D F c ff item) (hA : LTA D F c ff any)
    (node : Option Node) (level first last : Nat) (ignore unwrapNext : Bool) (s : St) (a : AAcc) (v : Item)
    (hn : AccGOpt ff node = true) (hv : D v) (hcur : D s.current) (h : AInv F c s a) :
    AInv F c s (anyStep item any node level first last ignore unwrapNext a v) := by
  unfold anyStep
  split
  · exact h
  · rename_i hnone
    have h1 := anyVisit_inv E hI node level first last ignore unwrapNext s a v hn hv hcur h hnone
    try dsimp only
    split
    · exact h1
    · rename_i hnone1
      exact anyDescend_inv E hA node level first last ignore unwrapNext s _ v hn hv hcur h1 hnone1

theorem executeAnyItem_lt (E : Env D F c ff) {item : ItemK} {any : AnyK} (hI : LTI D F c ff item) (hA : LTA D F c ff any)
    (s : St) (node : Option Node) (vs : List Item) (f : Found) (level first last : Nat) (ignore unwrapNext : Bool)
    (hn : AccGOpt ff node = true) (hvs : ∀ x ∈ vs, D x) (hcur : D s.current) (hf : AllD F f) :
    Out F c s (executeAnyItem item any s node vs f level first last ignore unwrapNext) := by
  unfold executeAnyItem
  split
  · exact ⟨Out3.ok (Keep.refl s) _ (by simp), hf⟩
  · try dsimp only
    have hinv : AInv F c s
        (vs.foldl (anyStep item any node level first last ignore unwrapNext) ⟨s, f, .notFound, none, none⟩) := by
      refine foldl_inv_mem (AInv F c s) _ _ _ ?_ ?_
      · exact ⟨fun r hr => by simp at hr, fun _ => ⟨Out3.ok (Keep.refl s) _ (by simp), hf⟩⟩
      · intro a v hv h
        exact anyStep_inv E hI hA node level first last ignore unwrapNext s a v hn (hvs v hv) hcur h
    split
    · rename_i r hr
      exact Out.restoreIgn (hinv.1 r hr)
    · rename_i hr
      obtain ⟨h2, h2f⟩ := hinv.2 hr
      refine ⟨Out3.restoreIgn ⟨h2.1, fun hd => ⟨(h2.2 hd).1, fun hlx => ⟨((h2.2 hd).2 hlx).1, ?_⟩⟩⟩, h2f⟩
      have := ((h2.2 hd).2 hlx).2
      split
      · simp
      · exact this

theorem anyInto_out (E : Env D F c ff) {any : AnyK} (hA : LTA D F c ff any) {s s1 : St} (hk : Keep s s1)
    (first last : Nat) (nx : Option Node) (v : Item) (f : Found) (hn : AccGOpt ff nx = true)
    (hv : D v) (hcur : D s.current) (hf : AllD F f) : Out F c s (anyInto c any s1 first last nx v f) := by
  unfold anyInto
  split
  · exact any_from hA hk nx _ f _ _ _ _ _ hn (E.doc.members _ hv) hcur hf
  · exact any_from hA hk nx _ f _ _ _ _ _ hn (E.doc.arr _ hv) hcur hf
  · exact ⟨Out3.ok hk _ (by simp), hf⟩

theorem execAnyNode_lt (E : Env D F c ff) {item : ItemK} {any : AnyK} (hI : LTI D F c ff item) (hA : LTA D F c ff any)
    (s : St) (first last : Nat) (nx : Option Node) (v : Item) (f : Found) (hn : AccGOpt ff nx = true)
    (hv : D v) (hcur : D s.current) (hf : AllD F f) :
    Out F c s (execAnyNode c item any s first last nx v f) := by
  unfold execAnyNode
  split
  · have hr := next_from E hI (Keep.setIgn s) nx v f hn hv hcur hf
    try dsimp only
    split
    · exact Out.restoreIgn hr
    · exact Out.restoreIgn (anyInto_out E hA hr.1.1 first last nx v _ hn hv hcur hr.2)
  · exact anyInto_out E hA (Keep.refl s) first last nx v f hn hv hcur hf

/-! ## subscripts -/

theorem Bound_inv {n : Node} (h : Bound n = true) :
    (∃ i, n = .integer i none ∧ Num.inInt32 i = true) ∨
    (∃ x, n = .numeric x none ∧ x.isInf = false ∧ x.isNaN = false ∧ Num.inInt32 (F64.toInt64 x) = true) ∨
    n = .const .last none := by
  unfold Bound at h
  split at h
  · exact Or.inl ⟨_, rfl, h⟩
  · simp only [Bool.and_eq_true, Bool.not_eq_true'] at h
    exact Or.inr (Or.inl ⟨_, rfl, h.1.1, h.1.2, h.2⟩)
  · exact Or.inr (Or.inr rfl)
  · cases h

theorem Sub_inv {sub : Node} (h : Sub sub = true) :
    ∃ l r nx, sub = .binary .subscript (some l) r nx ∧ Bound l = true ∧ ∀ rn, r = some rn → Bound rn = true := by
  unfold Sub at h
  split at h
  · exact ⟨_, none, _, rfl, h, fun rn hr => by cases hr⟩
  · simp only [Bool.and_eq_true] at h
    exact ⟨_, _, _, rfl, h.1, fun rn hr => by cases hr; exact h.2⟩
  · cases h

/-- what can come out of a bound / subscript evaluation: unless cancelled or out of fuel, the only
    error is the suppressible one, and none at all under the lax premise -/
def idxErrOK {α : Type} (lx : Prop) : Except Err α → Prop
  | .ok _ => True
  | .error e => e = .verbose ∧ ¬ lx

def IdxOut {α : Type} (c : Ctx) (s1 : St) (p : St × Except Err α) : Prop :=
  Keep s1 p.1 ∧ (dirty p.1 = false → idxErrOK (Lx c s1) p.2)

theorem getArrayIndex_fst (item : ItemK) (s : St) (n : Node) (v : Item) :
    (getArrayIndex c item s n v).1 = (executeItem c item s n v (some [])).st := by
  unfold getArrayIndex
  dsimp only
  repeat' split
  all_goals rfl

theorem getArrayIndex_out {item : ItemK} (hI : LTI D F c ff item) (s1 : St) (n : Node) (v : Item)
    (hb : Bound n = true) (h0 : 0 ≤ s1.innermost) (hinn : c.lax = true → s1.innermost ≤ 2147483648) :
    IdxOut c s1 (getArrayIndex c item s1 n v) := by
  have hr := hI.2 s1 n v c.lax hb h0
  have hfst := getArrayIndex_fst (c := c) item s1 n v
  unfold executeItem at hfst
  refine ⟨by rw [hfst]; exact hr.1, fun hd => ?_⟩
  rw [hfst] at hd
  obtain ⟨he, hnf, x, hf, hinv, hi⟩ := hr.2 hd
  unfold getArrayIndex executeItem
  simp only [hnf, if_false, hf, Option.getD_some]
  split
  · simp [idxErrOK]
  · rename_i heq
    refine ⟨rfl, fun hlx => ?_⟩
    obtain ⟨i, hi'⟩ := hi (hinn hlx.1)
    rw [hi'] at heq; cases heq
  · rename_i heq
    exact absurd heq hinv

theorem execSubscript_out {item : ItemK} (hI : LTI D F c ff item) (s1 : St) (sub : Node)
    (v : Item) (size : Int) (hsub : Sub sub = true) (h0 : 0 ≤ s1.innermost)
    (hinn : c.lax = true → s1.innermost ≤ 2147483648) :
    IdxOut c s1 (execSubscript c item s1 sub v size) := by
  obtain ⟨l, r, nx, rfl, hbl, hbr⟩ := Sub_inv hsub
  simp only [execSubscript]
  have h1 := getArrayIndex_out hI s1 l v hbl h0 hinn
  split
  · rename_i s2 e heq
    rw [heq] at h1
    exact ⟨h1.1, fun hd => h1.2 hd⟩
  · rename_i s2 from_ heq
    rw [heq] at h1
    have hk2 : Keep s1 s2 := h1.1
    cases r with
    | none =>
      simp only
      split
      · rename_i hcond
        refine ⟨hk2, fun _ => ⟨rfl, fun hlx => ?_⟩⟩
        simp [hk2.ign hlx.2] at hcond
      · exact ⟨hk2, fun _ => trivial⟩
    | some rn =>
      have h2 := getArrayIndex_out hI s2 rn v (hbr rn rfl)
        (by rw [hk2.innermost]; exact h0) (fun hl => by rw [hk2.innermost]; exact hinn hl)
      simp only
      split
      · rename_i e heq2
        unfold IdxOut at h2; rw [heq2] at h2
        refine ⟨hk2.trans h2.1, fun hd => ?_⟩
        have := h2.2 hd
        exact ⟨this.1, fun hlx => this.2 (hlx.keep hk2)⟩
      · rename_i to_ heq2
        unfold IdxOut at h2; rw [heq2] at h2
        have hk3 := hk2.trans h2.1
        split
        · rename_i hcond
          refine ⟨hk3, fun _ => ⟨rfl, fun hlx => ?_⟩⟩
          simp [hk3.ign hlx.2] at hcond
        · exact ⟨hk3, fun _ => trivial⟩

end Steps

section Index
variable {D F : Item → Prop} {c : Ctx} {ff : Bool}

theorem returnError_out {s s1 : St} (hk : Keep s s1) {f : Found} (hf : AllD F f) (e : Err)
    (h : dirty s1 = false → e = .verbose ∧ ¬ Lx c s) : Out F c s (returnError s1 f e) := by
  unfold returnError
  split
  · refine ⟨⟨hk, fun hd => ?_⟩, hf⟩
    obtain ⟨rfl, hl⟩ := h hd
    exact ⟨Or.inr rfl, fun hlx => absurd hlx hl⟩
  · exact ⟨⟨hk, fun hd => ⟨Or.inl rfl, fun hlx => absurd hlx (h hd).2⟩⟩, hf⟩

def IInv (F : Item → Prop) (c : Ctx) (s0 : St) (a : IAcc) : Prop :=
  (∀ r, a.ret = some r → Out F c s0 r) ∧ (a.ret = none → Out3 c s0 a.st a.res a.err ∧ AllD F a.found)

theorem indexElemStep_inv (E : Env D F c ff) {item : ItemK} (hI : LTI D F c ff item) (nx : Option Node)
    (s0 : St) (a : IAcc) (v : Item) (hn : AccGOpt ff nx = true) (hv : D v) (hcur : D s0.current)
    (h : IInv F c s0 a) : IInv F c s0 (indexElemStep c item nx a v) := by
  unfold indexElemStep
  split
  · exact h
  · rename_i hsome
    have hnone : a.ret = none := by cases hr : a.ret <;> simp_all
    obtain ⟨ha, haf⟩ := h.2 hnone
    split
    · exact h
    · split
      · refine ⟨fun r hr' => ?_, fun h' => by simp at h'⟩
        simp at hr'; subst hr'
        exact ⟨Out3.ok ha.1 _ (by simp), AllD.none⟩
      · try dsimp only
        have hr := next_from E hI ha.1 nx v a.found hn hv hcur haf
        split
        · exact ⟨fun r hr' => by simp at hr'; subst hr'; exact hr, fun h' => by simp at h'⟩
        · exact ⟨fun r hr' => by simp at hr', fun _ => hr⟩

theorem indexSubStep_inv (E : Env D F c ff) {item : ItemK} (hI : LTI D F c ff item) (nx : Option Node)
    (xs : List Item) (v : Item) (s0 : St) (a : IAcc) (sub : Node) (hn : AccGOpt ff nx = true)
    (hsub : Sub sub = true) (h0 : 0 ≤ s0.innermost) (hinn : c.lax = true → s0.innermost ≤ 2147483648)
    (hxs : ∀ x ∈ xs, D x) (hcur : D s0.current) (h : IInv F c s0 a) :
    IInv F c s0 (indexSubStep c item nx xs v a sub) := by
  unfold indexSubStep
  split
  · exact h
  · rename_i hsome
    have hnone : a.ret = none := by cases hr : a.ret <;> simp_all
    obtain ⟨ha, haf⟩ := h.2 hnone
    have hs := execSubscript_out hI a.st sub v xs.length hsub
      (by rw [ha.1.innermost]; exact h0) (fun hl => by rw [ha.1.innermost]; exact hinn hl)
    split
    · rename_i s1 e heq
      unfold IdxOut at hs; rw [heq] at hs
      refine ⟨fun r hr' => ?_, fun h' => by simp at h'⟩
      simp at hr'; subst hr'
      refine returnError_out (ha.1.trans hs.1) haf e (fun hd => ?_)
      have := hs.2 hd
      exact ⟨this.1, fun hlx => this.2 (hlx.keep ha.1)⟩
    · rename_i s1 from_ to_ heq
      unfold IdxOut at hs; rw [heq] at hs
      refine foldl_inv_mem (IInv F c s0) _ _ _ ?_ ?_
      · refine ⟨fun r hr' => by simp [hnone] at hr', fun _ => ⟨⟨ha.1.trans hs.1, fun hd => ?_⟩, haf⟩⟩
        exact ha.2 (hs.1.clean hd)
      · intro a' v' hv' h'
        exact indexElemStep_inv E hI nx s0 a' v' hn (hxs v' (sliceRange_mem hv')) hcur h'

theorem arrayOf_mem (E : Env D F c ff) {v : Item} {xs : List Item} (h : arrayOf c v = some xs) (hv : D v) :
    (c.lax = true → xs.length ≤ 2147483648) ∧ ∀ x ∈ xs, D x := by
  unfold arrayOf at h
  split at h
  · simp at h; subst h; exact ⟨fun hl => E.len hl _ hv, E.doc.arr _ hv⟩
  · split at h
    · simp at h; subst h
      refine ⟨fun _ => by simp, fun x hx => ?_⟩
      simp at hx; subst hx; exact hv
    · cases h

theorem arrayOf_none {v : Item} (h : arrayOf c v = none) : c.lax = false := by
  unfold arrayOf at h
  split at h
  · cases h
  · split at h
    · cases h
    · rename_i hl; simpa using hl

/-- the deferred restore of `innermostArraySize` -/
theorem Out3.restoreInn {s st : St} {k : Int} {status : Status} {err : Option Err}
    (h : Out3 c { s with innermost := k } st status err) :
    Out3 c s { st with innermost := s.innermost } status err :=
  ⟨⟨h.1.current, rfl, h.1.ign, h.1.panicked, h.1.budget, h.1.mono⟩, fun hd => h.2 hd⟩

theorem execArrayIndex_lt (E : Env D F c ff) {item : ItemK} (hI : LTI D F c ff item) (s : St) (subs : List Node)
    (nx : Option Node) (v : Item) (f : Found) (hsubs : subs.all Sub = true) (hn : AccGOpt ff nx = true)
    (hv : D v) (hcur : D s.current) (hf : AllD F f) :
    Out F c s (execArrayIndex c item s subs nx v f) := by
  unfold execArrayIndex
  split
  · exact structural_out (Keep.refl s) hf
  · rename_i xs hxs
    try dsimp only
    have hmem := arrayOf_mem E hxs hv
    have hinv : IInv F c { s with innermost := xs.length }
        (subs.foldl (indexSubStep c item nx xs v) ⟨{ s with innermost := xs.length }, f, .notFound, none, none⟩) := by
      refine foldl_inv_mem (IInv F c { s with innermost := xs.length }) _ _ _ ?_ ?_
      · exact ⟨fun r hr => by simp at hr, fun _ => ⟨Out3.ok (Keep.refl _) _ (by simp), hf⟩⟩
      · intro a sub hsub h
        refine indexSubStep_inv E hI nx xs v _ a sub hn (List.all_eq_true.mp hsubs sub hsub) ?_ ?_ hmem.2 hcur h
        · show (0 : Int) ≤ (xs.length : Int); omega
        · intro hl
          show (xs.length : Int) ≤ 2147483648
          have := hmem.1 hl; omega
    split
    · rename_i r hr
      exact ⟨Out3.restoreInn (hinv.1 r hr).1, (hinv.1 r hr).2⟩
    · rename_i hr
      obtain ⟨h2, h2f⟩ := hinv.2 hr
      exact ⟨Out3.restoreInn ⟨h2.1, fun hd => ⟨Or.inl rfl, fun hlx => ⟨rfl, ((h2.2 hd).2 hlx).2⟩⟩⟩, h2f⟩

end Index

/-! ## predicates -/

section Preds
variable {D F : Item → Prop} {c : Ctx} {ff : Bool}

theorem optUnwrapResult_out (E : Env D F c ff) {item : ItemK} (hI : LTI D F c ff item) (s : St) (n : Node) (v : Item)
    (unwrap : Bool) (l : List Item) (hn : AccG ff n = true) (hv : D v) (hcur : D s.current)
    (hl : AllD F (some l)) : Out F c s (optUnwrapResult c item s n v unwrap l) := by
  unfold optUnwrapResult
  split
  · have hr : Out F c s (executeItem c item s n v (some [])) := hI.1 _ _ _ _ _ hn hv hcur AllD.nil
    try dsimp only
    split
    · rename_i hfail
      refine ⟨⟨hr.1.1, fun hd => ⟨(hr.1.2 hd).1, fun hlx => ?_⟩⟩, hl⟩
      exact absurd hfail ((hr.1.2 hd).2 hlx).2
    · refine ⟨Out3.ok hr.1.1 _ (by simp), ?_⟩
      intro l' hl' x hx
      simp at hl'; subst hl'
      rcases List.mem_append.mp hx with h1 | h1
      · exact hl l rfl x h1
      · refine unwrapSeq_closed E.farr (l := (executeItem c item s n v (some [])).found.getD []) ?_ x h1
        intro y hy
        cases hfd : (executeItem c item s n v (some [])).found with
        | none => rw [hfd] at hy; simp at hy
        | some l2 => rw [hfd] at hy; exact hr.2 l2 hfd y (by simpa using hy)
  · exact hI.1 _ _ _ _ _ hn hv hcur hl

theorem optUnwrapResultSilent_out (E : Env D F c ff) {item : ItemK} (hI : LTI D F c ff item) (s : St) (n : Node)
    (v : Item) (unwrap : Bool) (f : Found) (hn : AccG ff n = true) (hv : D v) (hcur : D s.current)
    (hf : AllD F f) : Out F c s (optUnwrapResultSilent c item s n v unwrap f) := by
  unfold optUnwrapResultSilent
  have key : ∀ r : Res, Out F c { s with verbose := false } r →
      Out F c s { r with st := { r.st with verbose := s.verbose } } := by
    intro r h
    exact ⟨⟨((Keep.setVerbose s false).trans h.1.1).trans (Keep.setVerbose _ _), fun hd => h.1.2 hd⟩, h.2⟩
  cases f with
  | some l => exact key _ (optUnwrapResult_out E hI _ n v unwrap l hn hv hcur hf)
  | none => exact key _ (hI.1 _ _ _ _ _ hn hv hcur hf)

/-- what the pair loop can return early: no error, no panic -/
def DoneClean (d : Option (Pred × Option Err × Bool)) : Prop :=
  ∀ p e k, d = some (p, e, k) → e = none ∧ k = false

theorem pairStep_done (strict : Bool) (cb : Item → Item → CbOut) (acc : PairAcc) (l r : Item)
    (hcb : CbClean (cb l r)) (h : DoneClean acc.done) : DoneClean (pairStep strict cb acc l r).done := by
  unfold pairStep
  split
  · exact h
  · split
    · rename_i heq; rw [heq] at hcb; exact absurd hcb (by simp [CbClean])
    · rename_i p e heq
      rw [heq] at hcb
      simp only [CbClean] at hcb
      subst hcb
      simp only
      split
      · split
        · intro p' e' k hd; simp at hd; obtain ⟨rfl, rfl, rfl⟩ := hd; simp
        · exact h
      · split
        · intro p' e' k hd; simp at hd; obtain ⟨rfl, rfl, rfl⟩ := hd; simp
        · exact h
      · exact h

theorem pairLoop_done (strict : Bool) (cb : Item → Item → CbOut) (ls rs : List Item)
    (hcb : ∀ l ∈ ls, ∀ r ∈ rs, CbClean (cb l r)) : DoneClean (pairLoop strict cb ls rs).done := by
  unfold pairLoop
  refine foldl_inv_mem (fun acc : PairAcc => DoneClean acc.done) _ _ _ ?_ ?_
  · intro p e k h; simp at h
  · intro acc l hl hacc
    refine foldl_inv_mem (fun acc : PairAcc => DoneClean acc.done) _ _ _ hacc ?_
    intro acc' r hr h'
    exact pairStep_done strict cb acc' l r (hcb l hl r hr) h'

theorem predicateTail_out {s s1 : St} (hk : Keep s s1) (cb : Item → Item → CbOut) (ls rs : List Item)
    (hcb : ∀ l ∈ ls, ∀ r ∈ rs, CbClean (cb l r)) :
    OutP c s (predicateTail c s1 cb ls rs).st (predicateTail c s1 cb ls rs).err := by
  unfold predicateTail
  have hd := pairLoop_done (!c.lax) cb ls rs hcb
  try dsimp only
  split
  · rename_i p e pk hdone
    obtain ⟨rfl, rfl⟩ := hd p e pk hdone
    refine OutP.ok (hk.trans ⟨rfl, rfl, id, by simp, fun h => ⟨h, rfl⟩, id⟩)
  · split
    · exact OutP.ok hk
    · split
      · exact OutP.ok hk
      · exact OutP.ok hk

theorem executePredicate_out (E : Env D F c ff) {item : ItemK} (hI : LTI D F c ff item) (s : St) (left : Node)
    (right : Option Node) (v : Item) (unwrapRight : Bool) (cb : Item → Item → CbOut)
    (hleft : AccG ff left = true) (hright : ∀ rn, right = some rn → AccG ff rn = true)
    (hv : D v) (hcur : D s.current) (hcb : ∀ l r, F l → F r → CbClean (cb l r)) :
    OutP c s (executePredicate c item s left right v unwrapRight cb).st
      (executePredicate c item s left right v unwrapRight cb).err := by
  unfold executePredicate
  have hl := optUnwrapResultSilent_out E hI s left v true (some []) hleft hv hcur AllD.nil
  have getD_mem : ∀ r : Res, AllD F r.found → ∀ x ∈ r.found.getD [], F x := by
    intro r hr x hx
    cases hfd : r.found with
    | none => rw [hfd] at hx; simp at hx
    | some l2 => rw [hfd] at hx; exact hr l2 hfd x (by simpa using hx)
  try dsimp only
  split
  · exact OutP.ofOut3 hl.1
  · split
    · rename_i rn
      have hr := optUnwrapResultSilent_out E hI
        (optUnwrapResultSilent c item s left v true (some [])).st rn v unwrapRight (some [])
        (hright rn rfl) hv (by rw [hl.1.1.current]; exact hcur) AllD.nil
      try dsimp only
      split
      · exact OutP.tail hl.1.1 (OutP.ofOut3 hr.1)
      · exact predicateTail_out (hl.1.1.trans hr.1.1) cb _ _
          (fun l hl' r hr' => hcb l r (getD_mem _ hl.2 l hl') (getD_mem _ hr.2 r hr'))
    · exact predicateTail_out hl.1.1 cb _ _
        (fun l hl' r hr' => hcb l r (getD_mem _ hl.2 l hl') (by simp at hr'; subst hr'; exact E.toF _ E.doc.null))

theorem startsWith_clean (l r : Item) : CbClean (startsWith l r) := by
  unfold startsWith; split <;> simp [CbClean]

theorem likeRegex_clean (hre : ∀ p fl t, (c.regexMatch p fl t).isSome = true) (p : List Char) (fl : Nat)
    (v : Item) : CbClean (likeRegex c p fl v) := by
  unfold likeRegex
  split
  · rename_i t
    have := hre p fl t
    split
    · simp [CbClean]
    · rename_i hnone; rw [hnone] at this; cases this
  · simp [CbClean]

theorem PredG_binary_inv {op : BinOp} {l r nx : Option Node} (h : PredG ff (.binary op l r nx) = true) :
    ∃ ln rn, l = some ln ∧ r = some rn ∧
      ((isConnective op = true ∧ (PredG ff ln = true ∧ ln.next = none) ∧ PredG ff rn = true ∧ rn.next = none) ∨
       (ff = true ∧ isPredOp op = true ∧ AccG ff ln = true ∧ AccG ff rn = true)) := by
  cases l with
  | none => simp [PredG] at h
  | some ln =>
    cases r with
    | none => simp [PredG] at h
    | some rn =>
      refine ⟨ln, rn, rfl, rfl, ?_⟩
      simp only [PredG, Bool.or_eq_true, Bool.and_eq_true, Option.isNone_iff_eq_none] at h
      rcases h with h | h
      · exact Or.inl ⟨h.1.1.1.1, ⟨h.1.1.1.2, h.1.1.2⟩, h.1.2, h.2⟩
      · exact Or.inr ⟨h.1.1.1, h.1.1.2, h.1.2, h.2⟩

theorem PredG_unary_inv {op : UnOp} {x nx : Option Node} (h : PredG ff (.unary op x nx) = true) :
    ∃ xn, x = some xn ∧
      (((op = .not ∨ op = .isUnknown) ∧ PredG ff xn = true ∧ xn.next = none) ∨
       (op = .exists ∧ AccG ff xn = true)) := by
  cases x with
  | none => cases op <;> simp [PredG] at h
  | some xn =>
    refine ⟨xn, rfl, ?_⟩
    cases op <;> simp [PredG] at h
    · exact Or.inr ⟨rfl, h⟩
    · exact Or.inl ⟨Or.inl rfl, h⟩
    · exact Or.inl ⟨Or.inr rfl, h⟩

theorem binaryBool_cmp_eq {item : ItemK} {bool : BoolK} (s : St) (op : BinOp) (ln rn : Node) (v : Item)
    (h : isCompareOp op = true) :
    executeBinaryBoolItem c item bool s op (some ln) (some rn) v =
      executePredicate c item s ln (some rn) v true (compareItems c op) := by
  cases op <;> simp [isCompareOp] at h <;> simp [executeBinaryBoolItem, isCompareOp]

theorem executeBinaryBoolItem_out (E : Env D F c ff) {item : ItemK} {bool : BoolK} (hI : LTI D F c ff item)
    (hB : LTB D c ff bool) (s : St) (op : BinOp) (l r nx : Option Node) (v : Item)
    (hn : PredG ff (.binary op l r nx) = true) (hv : D v) (hcur : D s.current) :
    OutP c s (executeBinaryBoolItem c item bool s op l r v).st (executeBinaryBoolItem c item bool s op l r v).err := by
  obtain ⟨ln, rn, rfl, rfl, hcase⟩ := PredG_binary_inv hn
  rcases hcase with ⟨hop, hp1, hp2⟩ | ⟨hff, hop, hp1, hp2⟩
  · have ha := hB s ln v false hp1.1 (fun _ => hp1.2) hv hcur
    have hb : OutP c s (bool (bool s ln v false).st rn v false).st (bool (bool s ln v false).st rn v false).err :=
      OutP.tail ha.1 (hB _ rn v false hp2.1 (fun _ => hp2.2) hv (by rw [ha.1.current]; exact hcur))
    cases op <;> simp [isConnective] at hop
    · -- and
      simp only [executeBinaryBoolItem]
      split
      · exact ha
      · split
        · exact hb
        · exact hb
    · -- or
      simp only [executeBinaryBoolItem]
      split
      · exact ha
      · rename_i hcond
        have hae : (bool s ln v false).err = none := by
          cases h : (bool s ln v false).err <;> simp_all
        split
        · rw [hae]; exact OutP.ok hb.1
        · exact hb
  · by_cases hcmp : isCompareOp op = true
    · rw [binaryBool_cmp_eq s op ln rn v hcmp]
      exact executePredicate_out E hI s ln (some rn) v true (compareItems c op) hp1
        (fun rn' h => by cases h; exact hp2) hv hcur (fun l r hl hr => (E.filt hff).cmp op l r hcmp (E.ofF hff l hl) (E.ofF hff r hr))
    · have : op = .startsWith := by cases op <;> simp_all [isPredOp, isCompareOp]
      subst this
      simp only [executeBinaryBoolItem]
      exact executePredicate_out E hI s ln (some rn) v false startsWith hp1
        (fun rn' h => by cases h; exact hp2) hv hcur (fun l r _ _ => startsWith_clean l r)

theorem executeUnaryBoolItem_out (E : Env D F c ff) {item : ItemK} {bool : BoolK} (hI : LTI D F c ff item)
    (hB : LTB D c ff bool) (s : St) (op : UnOp) (x nx : Option Node) (v : Item)
    (hn : PredG ff (.unary op x nx) = true) (hv : D v) (hcur : D s.current) :
    OutP c s (executeUnaryBoolItem c item bool s op x v).st (executeUnaryBoolItem c item bool s op x v).err := by
  obtain ⟨xn, rfl, hcase⟩ := PredG_unary_inv hn
  rcases hcase with ⟨hop, hp, hpn⟩ | ⟨rfl, hp⟩
  · have ha := hB s xn v false hp (fun _ => hpn) hv hcur
    rcases hop with rfl | rfl
    · simp only [executeUnaryBoolItem]
      split
      · exact ha
      · exact OutP.ok ha.1
      · exact OutP.ok ha.1
    · simp only [executeUnaryBoolItem]
      split
      · exact ha
      · exact OutP.ok ha.1
  · simp only [executeUnaryBoolItem]
    split
    · have hr := optUnwrapResultSilent_out E hI s xn v false (some []) hp hv hcur AllD.nil
      try dsimp only
      split
      · exact OutP.ofOut3 hr.1
      · split
        · exact OutP.ok hr.1.1
        · exact OutP.ok hr.1.1
    · have hr := optUnwrapResultSilent_out E hI s xn v false none hp hv hcur AllD.none
      try dsimp only
      split
      · exact OutP.ofOut3 hr.1
      · split
        · exact OutP.ok hr.1.1
        · exact OutP.ok hr.1.1

theorem executeBoolItem_out (E : Env D F c ff) {item : ItemK} {bool : BoolK} (hI : LTI D F c ff item)
    (hB : LTB D c ff bool) (s : St) (n : Node) (v : Item) (chn : Bool)
    (hn : PredG ff n = true) (hnx : chn = false → n.next = none) (hv : D v) (hcur : D s.current) :
    OutP c s (executeBoolItem c item bool s n v chn).st (executeBoolItem c item bool s n v chn).err := by
  have hgate : (!chn && n.next.isSome) = false := by
    cases chn with
    | true => rfl
    | false => simp [hnx rfl]
  cases n with
  | binary op l r nx =>
    simp only [executeBoolItem, hgate, Bool.false_eq_true, if_false]
    exact executeBinaryBoolItem_out E hI hB s _ _ _ _ v hn hv hcur
  | unary op x nx =>
    simp only [executeBoolItem, hgate, Bool.false_eq_true, if_false]
    exact executeUnaryBoolItem_out E hI hB s _ _ _ v hn hv hcur
  | regex x pat fl nx =>
    have hp : ff = true ∧ AccG ff x = true := by simpa [PredG] using hn
    simp only [executeBoolItem, hgate, Bool.false_eq_true, if_false]
    exact executePredicate_out E hI s x none v false _ hp.2 (fun rn h => by cases h) hv hcur
      (fun l _ _ _ => likeRegex_clean (E.filt hp.1).regex pat fl l)
  | _ => simp [PredG] at hn

theorem executeNestedBoolItem_out {bool : BoolK} (hB : LTB D c ff bool) (s : St) (n : Node) (v : Item)
    (hn : PredG ff n = true) (hnx : n.next = none) (hv : D v) :
    OutP c s (executeNestedBoolItem bool s n v).st (executeNestedBoolItem bool s n v).err := by
  unfold executeNestedBoolItem
  have h := hB { s with current := v } n v false hn (fun _ => hnx) hv hv
  exact ⟨⟨rfl, h.1.innermost, h.1.ign, h.1.panicked, h.1.budget, h.1.mono⟩, fun hd => h.2 hd⟩

theorem predItem_D (E : Env D F c ff) (p : Pred) : D (predItem p) := by
  cases p
  · exact E.doc.bool _
  · exact E.doc.bool _
  · exact E.doc.null

theorem appendBoolResult_lt (E : Env D F c ff) {item : ItemK} (hI : LTI D F c ff item) (s : St) (nx : Option Node)
    (f : Found) (p : PRes) (hp : OutP c s p.st p.err) (hn : AccGOpt ff nx = true) (hcur : D s.current)
    (hf : AllD F f) : Out F c s (appendBoolResult c item nx f p) := by
  unfold appendBoolResult
  split
  · rename_i e he
    refine ⟨⟨hp.1, fun hd => ?_⟩, hf⟩
    have := hp.2 hd
    rw [he] at this
    exact ⟨this.1, fun hlx => by cases this.2 hlx⟩
  · split
    · exact ⟨Out3.ok hp.1 _ (by simp), hf⟩
    · exact next_from E hI hp.1 nx _ f hn (predItem_D E _) hcur hf

/-- the unary nodes of the class: a filter, or `!`, `is unknown`, `exists` in chain position -/
theorem AccG_unary_inv {op : UnOp} {x nx : Option Node} (h : AccG ff (.unary op x nx) = true) :
    AccGOpt ff nx = true ∧
    ((op = .filter ∧ ∃ cond, x = some cond ∧ PredG ff cond = true ∧ cond.next = none) ∨
     ((op = .not ∨ op = .isUnknown ∨ op = .exists) ∧ PredG ff (.unary op x nx) = true)) := by
  cases x with
  | none => cases op <;> simp [AccG] at h
  | some xn =>
    cases op <;> simp [AccG] at h
    · exact ⟨h.2, Or.inr ⟨Or.inr (Or.inr rfl), by simp [PredG, h.1.2]⟩⟩
    · exact ⟨h.2, Or.inr ⟨Or.inl rfl, by simp [PredG, h.1.1.2, h.1.2]⟩⟩
    · exact ⟨h.2, Or.inr ⟨Or.inr (Or.inl rfl), by simp [PredG, h.1.1.2, h.1.2]⟩⟩
    · exact ⟨h.2, Or.inl ⟨rfl, xn, rfl, h.1.1.2, h.1.2⟩⟩

theorem execUnaryNode_lt (E : Env D F c ff) {item : ItemK} {bool : BoolK} {any : AnyK} (hI : LTI D F c ff item)
    (hB : LTB D c ff bool) (hA : LTA D F c ff any) (s : St) (op : UnOp) (x nx : Option Node) (v : Item)
    (f : Found) (unwrap : Bool) (hn : AccG ff (.unary op x nx) = true)
    (hv : D v) (hcur : D s.current) (hf : AllD F f) :
    Out F c s (execUnaryNode c item bool any s (.unary op x nx) op x nx v f unwrap) := by
  obtain ⟨hnx, hcase⟩ := AccG_unary_inv hn
  rcases hcase with ⟨rfl, cond, rfl, hp, hcn⟩ | ⟨hop, hp⟩
  · simp only [execUnaryNode]
    split
    · rename_i xs
      unfold unwrapTargetArray
      exact any_from hA (Keep.refl s) (some _) xs f 1 1 1 false false hn (E.doc.arr xs hv) hcur hf
    · have hb := executeNestedBoolItem_out hB s cond v hp hcn hv
      try dsimp only
      split
      · refine ⟨⟨hb.1, fun hd => ⟨(hb.2 hd).1, fun hlx => ?_⟩⟩, hf⟩
        rename_i hsome
        rw [(hb.2 hd).2 hlx] at hsome; simp at hsome
      · split
        · exact ⟨Out3.ok hb.1 _ (by simp), hf⟩
        · exact next_from E hI hb.1 nx v f hnx hv hcur hf
  · have hb := hB s (.unary op x nx) v true hp (fun h => by cases h) hv hcur
    rcases hop with rfl | rfl | rfl <;> simp only [execUnaryNode] <;>
      exact appendBoolResult_lt E hI s nx f _ hb hnx hcur hf

theorem AccG_binary_inv {op : BinOp} {l r nx : Option Node} (h : AccG ff (.binary op l r nx) = true) :
    AccGOpt ff nx = true ∧ isBoolBinOp op = true ∧ PredG ff (.binary op l r nx) = true := by
  cases l with
  | none => simp [AccG] at h
  | some ln =>
    cases r with
    | none => simp [AccG] at h
    | some rn =>
      simp only [AccG, Bool.and_eq_true, Bool.or_eq_true] at h
      obtain ⟨⟨hff, hc⟩, hnx⟩ := h
      refine ⟨hnx, ?_, ?_⟩
      · rcases hc with hc | hc
        · have := hc.1.1.1.1; cases op <;> simp [isConnective] at this <;> rfl
        · have := hc.1.1; cases op <;> simp [isPredOp] at this <;> rfl
      · simp only [PredG, Bool.and_eq_true, Bool.or_eq_true]
        rcases hc with hc | hc
        · exact Or.inl hc
        · exact Or.inr ⟨⟨⟨hff, hc.1.1⟩, hc.1.2⟩, hc.2⟩

theorem execBinaryNode_lt (E : Env D F c ff) {item : ItemK} {bool : BoolK} {any : AnyK} (hI : LTI D F c ff item)
    (hB : LTB D c ff bool) (s : St) (op : BinOp) (l r nx : Option Node) (v : Item)
    (f : Found) (unwrap : Bool) (hn : AccG ff (.binary op l r nx) = true)
    (hv : D v) (hcur : D s.current) (hf : AllD F f) :
    Out F c s (execBinaryNode c item bool any s (.binary op l r nx) op l r nx v f unwrap) := by
  obtain ⟨hnx, hop, hp⟩ := AccG_binary_inv hn
  unfold execBinaryNode
  simp only [hop, if_true]
  exact appendBoolResult_lt E hI s nx f _ (hB s _ v true hp (fun h => by cases h) hv hcur) hnx hcur hf

theorem execRegexNode_lt (E : Env D F c ff) {item : ItemK} {bool : BoolK} (hI : LTI D F c ff item)
    (hB : LTB D c ff bool) (s : St) (x : Node) (pat : List Char) (fl : Nat) (nx : Option Node) (v : Item)
    (f : Found) (hn : AccG ff (.regex x pat fl nx) = true)
    (hv : D v) (hcur : D s.current) (hf : AllD F f) :
    Out F c s (appendBoolResult c item nx f (bool s (.regex x pat fl nx) v true)) := by
  have h : (ff = true ∧ AccG ff x = true) ∧ AccGOpt ff nx = true := by simpa [AccG] using hn
  exact appendBoolResult_lt E hI s nx f _
    (hB s _ v true (by simp only [PredG, Bool.and_eq_true]; exact h.1) (fun h => by cases h) hv hcur) h.2 hcur hf

end Preds

/-! ## dispatch and the induction over fuel -/

section Dispatch
variable {D F : Item → Prop} {c : Ctx} {ff : Bool}

theorem dispatch_lt (E : Env D F c ff) {item : ItemK} {bool : BoolK} {any : AnyK} (hI : LTI D F c ff item)
    (hB : LTB D c ff bool) (hA : LTA D F c ff any) (s : St) (n : Node) (v : Item) (f : Found) (unwrap : Bool)
    (hn : AccG ff n = true) (hv : D v) (hcur : D s.current) (hf : AllD F f) :
    Out F c s (dispatch c item bool any s n v f unwrap) := by
  unfold dispatch
  split
  · rename_i k nx
    have h : accConst k = true ∧ AccGOpt ff nx = true := by simpa [AccG] using hn
    exact execConstNode_lt E hI hA _ _ _ _ _ _ _ hn h.1 h.2 hv hcur hf
  · exact execLiteral_lt E hI _ _ _ _ (by simpa [AccG] using hn) (E.doc.str _) hcur hf
  · exact execLiteral_lt E hI _ _ _ _ (by simpa [AccG] using hn) (E.doc.int _) hcur hf
  · exact execLiteral_lt E hI _ _ _ _ (by simpa [AccG] using hn) (E.doc.flt _) hcur hf
  · simp [AccG] at hn
  · exact execKeyNode_lt E hI hA _ _ _ _ _ _ _ hn (by simpa [AccG] using hn) hv hcur hf
  · exact execBinaryNode_lt E hI hB _ _ _ _ _ _ _ _ hn hv hcur hf
  · exact execUnaryNode_lt E hI hB hA _ _ _ _ _ _ _ hn hv hcur hf
  · exact execRegexNode_lt E hI hB _ _ _ _ _ _ _ hn hv hcur hf
  · rename_i m nx
    have h : accMethod m = true ∧ AccGOpt ff nx = true := by simpa [AccG] using hn
    exact execMethodNode_lt E hI _ _ _ _ _ _ _ h.1 h.2 hcur hf
  · exact execAnyNode_lt E hI hA _ _ _ _ _ _ (by simpa [AccG] using hn) hv hcur hf
  · rename_i subs nx
    have h : subs.all Sub = true ∧ AccGOpt ff nx = true := by simpa [AccG] using hn
    exact execArrayIndex_lt E hI _ _ _ _ _ h.1 h.2 hv hcur hf

theorem dispatch_bound (item : ItemK) (bool : BoolK) (any : AnyK)
    (s : St) (n : Node) (v : Item) (unwrap : Bool) (hb : Bound n = true) (h0 : 0 ≤ s.innermost) :
    BoundOut s (dispatch c item bool any s n v (some []) unwrap) := by
  rcases Bound_inv hb with ⟨i, rfl, hi⟩ | ⟨x, rfl, h1, h2, h3⟩ | rfl
  · simp only [dispatch, execLiteral, executeNextItem, Found.append]
    refine ⟨Keep.refl s, fun _ => ⟨rfl, by simp, .int i, by simp, ?_, fun _ => ⟨i, ?_⟩⟩⟩
    · simp only [Num.getJSONInt32]; split <;> simp
    · simp [Num.getJSONInt32, hi]
  · simp only [dispatch, execLiteral, executeNextItem, Found.append]
    refine ⟨Keep.refl s, fun _ => ⟨rfl, by simp, .flt x, by simp, ?_, fun _ => ⟨F64.toInt64 x, ?_⟩⟩⟩
    · simp [Num.getJSONInt32, h1, h2, h3]
    · simp [Num.getJSONInt32, h1, h2, h3]
  · have hlt : ¬ s.innermost < 0 := by omega
    simp only [dispatch, execConstNode, execLastConst, hlt, executeNextItem, Found.append]
    refine ⟨Keep.refl s, fun _ => ⟨rfl, by simp, .int (s.innermost - 1), by simp, ?_, fun hle => ⟨s.innermost - 1, ?_⟩⟩⟩
    · simp only [Num.getJSONInt32]; split <;> simp
    · have : Num.inInt32 (s.innermost - 1) = true := by
        simp only [Num.inInt32, Num.minInt32, Num.maxInt32, Bool.and_eq_true]
        constructor <;> (apply decide_eq_true; omega)
      simp [Num.getJSONInt32, this]

theorem poll_some {s s' : St} (h : poll s = some s') : Keep s s' := by
  unfold poll at h
  split at h
  · simp at h; subst h; exact Keep.refl s
  · cases h
  · rename_i b hb
    simp at h; subst h
    exact ⟨rfl, rfl, id, rfl, fun h => (by rw [hb] at h; cases h), id⟩

theorem poll_none {s : St} (h : poll s = none) : Keep s { s with sawCancel := true } := by
  unfold poll at h
  split at h
  · cases h
  · rename_i hb
    exact ⟨rfl, rfl, id, rfl, fun h => (by rw [hb] at h; cases h), fun _ => by simp [dirty]⟩
  · cases h

/-- **the invariant holds for the three dispatchers, for every fuel** -/
theorem lt_all (E : Env D F c ff) : ∀ fuel : Nat,
    LTI D F c ff (xItem c fuel) ∧ LTB D c ff (xBool c fuel) ∧ LTA D F c ff (xAny c fuel) := by
  intro fuel
  induction fuel with
  | zero =>
    refine ⟨⟨fun s n v f u _ _ _ hf => ?_, fun s n v u _ _ => ?_⟩, fun s n v chn _ _ _ _ => ?_,
      fun s node vs f l a b i u _ _ _ hf => ?_⟩
    · simp only [xItem]; exact ⟨Out3.ofDirty (Keep.oof s) (by simp [dirty]) _ _, hf⟩
    · simp only [xItem]; exact ⟨Keep.oof s, fun hd => by simp [dirty] at hd⟩
    · simp only [xBool]; exact ⟨Keep.oof s, fun hd => by simp [dirty] at hd⟩
    · simp only [xAny]; exact ⟨Out3.ofDirty (Keep.oof s) (by simp [dirty]) _ _, hf⟩
  | succ fuel ih =>
    obtain ⟨hI, hB, hA⟩ := ih
    refine ⟨⟨fun s n v f u hn hv hcur hf => ?_, fun s n v u hb h0 => ?_⟩, fun s n v chn hn hnx hv hcur => ?_,
      fun s node vs f l a b i u hn hvs hcur hf => ?_⟩
    · simp only [xItem]
      split
      · rename_i hp
        exact ⟨Out3.ofDirty (poll_none hp) (by simp [dirty]) _ _, hf⟩
      · rename_i s' hp
        have hk := poll_some hp
        exact Out.tail hk (dispatch_lt E hI hB hA s' n v f u hn hv (by rw [hk.current]; exact hcur) hf)
    · simp only [xItem]
      split
      · rename_i hp
        exact ⟨poll_none hp, fun hd => by simp [dirty] at hd⟩
      · rename_i s' hp
        have hk := poll_some hp
        have hd := dispatch_bound (c := c) (xItem c fuel) (xBool c fuel) (xAny c fuel) s' n v u hb
          (by rw [hk.innermost]; exact h0)
        refine ⟨hk.trans hd.1, fun hcl => ?_⟩
        obtain ⟨h1, h2, x, h3, h4, h5⟩ := hd.2 hcl
        exact ⟨h1, h2, x, h3, h4, fun hle => h5 (by rw [hk.innermost]; exact hle)⟩
    · simp only [xBool]
      exact executeBoolItem_out E hI hB s n v chn hn hnx hv hcur
    · simp only [xAny]
      exact executeAnyItem_lt E hI hA s node vs f l a b i u hn hvs hcur hf

theorem xItem_lt (E : Env D F c ff) (fuel : Nat) (s : St) (n : Node) (v : Item) (f : Found) (u : Bool)
    (hn : AccG ff n = true) (hv : D v) (hcur : D s.current) (hf : AllD F f) :
    Out F c s (xItem c fuel s n v f u) := (lt_all E fuel).1.1 s n v f u hn hv hcur hf

end Dispatch

/-! ## the classes are nested -/

mutual
  theorem AccG_mono : ∀ n : Node, AccG false n = true → AccG true n = true
    | .const k nx, h => by
      simp only [AccG, Bool.and_eq_true] at h ⊢; exact ⟨h.1, AccGOpt_mono nx h.2⟩
    | .key _ nx, h => by simp only [AccG] at h ⊢; exact AccGOpt_mono nx h
    | .any _ _ nx, h => by simp only [AccG] at h ⊢; exact AccGOpt_mono nx h
    | .arrayIndex subs nx, h => by
      simp only [AccG, Bool.and_eq_true] at h ⊢; exact ⟨h.1, AccGOpt_mono nx h.2⟩
    | .str _ nx, h => by simp only [AccG] at h ⊢; exact AccGOpt_mono nx h
    | .integer _ nx, h => by simp only [AccG] at h ⊢; exact AccGOpt_mono nx h
    | .numeric _ nx, h => by simp only [AccG] at h ⊢; exact AccGOpt_mono nx h
    | .method m nx, h => by
      simp only [AccG, Bool.and_eq_true] at h ⊢; exact ⟨h.1, AccGOpt_mono nx h.2⟩
    | .unary op x nx, h => by cases op <;> cases x <;> simp [AccG] at h
    | .binary op l r nx, h => by cases l <;> cases r <;> simp [AccG] at h
    | .regex .., h => by simp [AccG] at h
    | .var .., h => by simp [AccG] at h
  theorem AccGOpt_mono : ∀ nx : Option Node, AccGOpt false nx = true → AccGOpt true nx = true
    | none, _ => rfl
    | some n, h => by simp only [AccGOpt] at h ⊢; exact AccG_mono n h
end

theorem Accessor.toF {n : Node} (h : Accessor n = true) : AccessorF n = true := AccG_mono n h

/-! ## document classes

* all items (`fun _ => True`): `Env.len` is vacuous in strict mode, so this class gives the error class
  of strict accessor paths for every document whatsoever;
* `lenOK`: no array has more than 2^31 elements (a Go slice of 2^31 `any` values is 32 GiB) — the
  class for lax totality of `Accessor` paths;
* `plainOK`: `lenOK`, and no datetime items and no `json.Number`s: what `encoding/json` decodes into by
  default.  Comparisons between such items neither err nor panic (`FilterOK.cmp`) — the class for
  `AccessorF` paths;
* `plainNumOK`: the same with `json.Number`s allowed; here "comparisons do not panic" is
  `C05.compare_never_panics`, which assumes the `strconv` law `IntTextIsFloat`. -/

theorem docClass_true : DocClass (fun _ => True) :=
  ⟨fun _ _ _ _ => trivial, fun _ _ _ _ _ => trivial, fun _ _ _ _ => trivial, trivial, fun _ => trivial,
   fun _ => trivial, fun _ => trivial, fun _ => trivial⟩

mutual
  def lenOK : Item → Bool
    | .arr xs => decide (xs.length ≤ 2147483648) && lenOKList xs
    | .obj kvs => lenOKMembers kvs
    | _ => true
  def lenOKList : List Item → Bool
    | [] => true
    | x :: xs => lenOK x && lenOKList xs
  def lenOKMembers : List (List Char × Item) → Bool
    | [] => true
    | (_, v) :: rest => lenOK v && lenOKMembers rest
end

mutual
  /-- `lenOK`, no datetime item, and — unless `jn` — no `json.Number` -/
  def plainG (jn : Bool) : Item → Bool
    | .arr xs => decide (xs.length ≤ 2147483648) && plainGList jn xs
    | .obj kvs => plainGMembers jn kvs
    | .dt _ => false
    | .jnum _ => jn
    | _ => true
  def plainGList (jn : Bool) : List Item → Bool
    | [] => true
    | x :: xs => plainG jn x && plainGList jn xs
  def plainGMembers (jn : Bool) : List (List Char × Item) → Bool
    | [] => true
    | (_, v) :: rest => plainG jn v && plainGMembers jn rest
end

/-- what `encoding/json` decodes into by default: `nil`, `bool`, `float64`, `string`, `[]any`,
    `map[string]any` (and `int64`), arrays of at most 2^31 elements -/
def plainOK (v : Item) : Bool := plainG false v
/-- the same with `json.Number`s (`Decoder.UseNumber`) -/
def plainNumOK (v : Item) : Bool := plainG true v

theorem lenOKList_mem {xs : List Item} (h : lenOKList xs = true) : ∀ x ∈ xs, lenOK x = true := by
  induction xs with
  | nil => intro x hx; cases hx
  | cons y ys ih =>
    simp only [lenOKList, Bool.and_eq_true] at h
    intro x hx
    rcases List.mem_cons.mp hx with rfl | hx
    · exact h.1
    · exact ih h.2 x hx

theorem lenOKMembers_lookup {kvs : List (List Char × Item)} (h : lenOKMembers kvs = true) (k : List Char)
    (v : Item) (hl : Item.lookup k kvs = some v) : lenOK v = true := by
  induction kvs with
  | nil => simp [Item.lookup] at hl
  | cons kv rest ih =>
    obtain ⟨k', v'⟩ := kv
    simp only [lenOKMembers, Bool.and_eq_true] at h
    simp only [Item.lookup] at hl
    split at hl
    · simp at hl; subst hl; exact h.1
    · exact ih h.2 hl

theorem lenOKMembers_members {kvs : List (List Char × Item)} (h : lenOKMembers kvs = true) :
    ∀ x ∈ members kvs, lenOK x = true := by
  induction kvs with
  | nil => intro x hx; simp [members] at hx
  | cons kv rest ih =>
    obtain ⟨k', v'⟩ := kv
    simp only [lenOKMembers, Bool.and_eq_true] at h
    intro x hx
    simp only [members, List.map_cons, List.mem_cons] at hx
    rcases hx with rfl | hx
    · exact h.1
    · exact ih h.2 x (by simpa [members] using hx)

theorem lenOK_arr {xs : List Item} (h : lenOK (.arr xs) = true) :
    xs.length ≤ 2147483648 ∧ ∀ x ∈ xs, lenOK x = true := by
  simp only [lenOK, Bool.and_eq_true, decide_eq_true_eq] at h
  exact ⟨h.1, lenOKList_mem h.2⟩

theorem docClass_lenOK : DocClass (fun v => lenOK v = true) where
  arr := fun _ h => (lenOK_arr h).2
  lookup := fun kvs k v h hl => lenOKMembers_lookup (by simpa [lenOK] using h) k v hl
  members := fun kvs h => lenOKMembers_members (by simpa [lenOK] using h)
  null := rfl
  bool := fun _ => rfl
  int := fun _ => rfl
  flt := fun _ => rfl
  str := fun _ => rfl

theorem plainGList_mem {jn : Bool} {xs : List Item} (h : plainGList jn xs = true) :
    ∀ x ∈ xs, plainG jn x = true := by
  induction xs with
  | nil => intro x hx; cases hx
  | cons y ys ih =>
    simp only [plainGList, Bool.and_eq_true] at h
    intro x hx
    rcases List.mem_cons.mp hx with rfl | hx
    · exact h.1
    · exact ih h.2 x hx

theorem plainGMembers_lookup {jn : Bool} {kvs : List (List Char × Item)} (h : plainGMembers jn kvs = true)
    (k : List Char) (v : Item) (hl : Item.lookup k kvs = some v) : plainG jn v = true := by
  induction kvs with
  | nil => simp [Item.lookup] at hl
  | cons kv rest ih =>
    obtain ⟨k', v'⟩ := kv
    simp only [plainGMembers, Bool.and_eq_true] at h
    simp only [Item.lookup] at hl
    split at hl
    · simp at hl; subst hl; exact h.1
    · exact ih h.2 hl

theorem plainGMembers_members {jn : Bool} {kvs : List (List Char × Item)} (h : plainGMembers jn kvs = true) :
    ∀ x ∈ members kvs, plainG jn x = true := by
  induction kvs with
  | nil => intro x hx; simp [members] at hx
  | cons kv rest ih =>
    obtain ⟨k', v'⟩ := kv
    simp only [plainGMembers, Bool.and_eq_true] at h
    intro x hx
    simp only [members, List.map_cons, List.mem_cons] at hx
    rcases hx with rfl | hx
    · exact h.1
    · exact ih h.2 x (by simpa [members] using hx)

theorem plainG_arr {jn : Bool} {xs : List Item} (h : plainG jn (.arr xs) = true) :
    xs.length ≤ 2147483648 ∧ ∀ x ∈ xs, plainG jn x = true := by
  simp only [plainG, Bool.and_eq_true, decide_eq_true_eq] at h
  exact ⟨h.1, plainGList_mem h.2⟩

theorem docClass_plainG (jn : Bool) : DocClass (fun v => plainG jn v = true) where
  arr := fun _ h => (plainG_arr h).2
  lookup := fun kvs k v h hl => plainGMembers_lookup (by simpa [plainG] using h) k v hl
  members := fun kvs h => plainGMembers_members (by simpa [plainG] using h)
  null := rfl
  bool := fun _ => rfl
  int := fun _ => rfl
  flt := fun _ => rfl
  str := fun _ => rfl

theorem plainG_notDT {jn : Bool} {v : Item} (h : plainG jn v = true) : ∀ d, v ≠ .dt d := by
  intro d hd; subst hd; simp [plainG] at h

theorem applyCompare_none (op : BinOp) (cmp : Int) (hop : isCompareOp op = true) :
    (applyCompare op cmp).2 = none := by
  cases op <;> simp [isCompareOp] at hop <;> rfl

/-- a comparison (`== != < <= > >=`) of two items that are not datetimes returns no error -/
theorem compareItems_err_none (c : Ctx) (op : BinOp) (l r : Item) (hop : isCompareOp op = true)
    (hl : ∀ d, l ≠ .dt d) (hr : ∀ d, r ≠ .dt d) : ∀ p e, compareItems c op l r = .val p e → e = none := by
  intro p e
  unfold compareItems compareNumberItems cmpOut
  repeat' split
  all_goals
    intro h
    first
      | exact absurd rfl (hl _)
      | exact absurd rfl (hr _)
      | (cases h <;> first | rfl | exact applyCompare_none _ _ hop)

theorem cmpOut_clean (op : BinOp) (cmp : Int) (h : isCompareOp op = true) : CbClean (cmpOut op cmp) := by
  cases op <;> simp [isCompareOp] at h <;> simp [cmpOut, applyCompare, CbClean]

/-- comparing two plain items (no `json.Number`) neither errs nor panics -/
theorem compareItems_plain (c : Ctx) (op : BinOp) (l r : Item) (hop : isCompareOp op = true)
    (hl : plainG false l = true) (hr : plainG false r = true) : CbClean (compareItems c op l r) := by
  cases l <;> cases r <;> simp [plainG] at hl hr <;>
    simp only [compareItems, compareNumberItems, isNumber, parsableNumber, compareBool, Num.compareNumeric,
      Bool.not_true, Bool.or_self, Bool.false_eq_true, if_false, if_true] <;>
    first
      | exact cmpOut_clean _ _ hop
      | (simp [CbClean]; done)
      | (split <;> first | exact cmpOut_clean _ _ hop | (simp [CbClean]; done))

theorem filterOK_plain (c : Ctx) (hre : ∀ p fl t, (c.regexMatch p fl t).isSome = true) :
    FilterOK c (fun v => plainOK v = true) :=
  ⟨hre, fun op l r hop hl hr => compareItems_plain c op l r hop hl hr⟩

/-- with `json.Number`s: given that comparisons do not panic (`C05.compare_never_panics`, which rests
    on the `strconv` law `IntTextIsFloat`) -/
theorem filterOK_plainNum (c : Ctx) (hre : ∀ p fl t, (c.regexMatch p fl t).isSome = true)
    (hnp : ∀ op l r, compareItems c op l r ≠ .panic) :
    FilterOK c (fun v => plainNumOK v = true) := by
  refine ⟨hre, fun op l r hop hl hr => ?_⟩
  have herr := compareItems_err_none c op l r hop (plainG_notDT hl) (plainG_notDT hr)
  have := hnp op l r
  cases h : compareItems c op l r with
  | panic => exact absurd h this
  | val p e => exact herr p e h


end Lax
end Exec
end Sqljson
