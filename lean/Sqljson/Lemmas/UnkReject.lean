import Sqljson.Lemmas.LexReject
/-!
# The grammar never shifts `$unk`: a rune the grammar does not mention rejects the input ANYWHERE

Lemma layer of `Props/C04c`.  `Lemmas/LexReject` (C04b) proves which runes the lexer returns as goyacc's `$unk`
(`Tok.unk`: `#`, `^`, `;`, `~`, a backquote, `'`, `:`, a lone `=` / `&` / `|`, control characters, non-identifier
Unicode) — WITHOUT recording an error — and that the parser rejects the input when `$unk` is the FIRST token.
This file closes the gap "at any other position": no function of the parser's mutual block ever shifts `$unk`.

## Method

A Hoare calculus over the parser monad `Parse.P`.  `lexIter o k s0` is the lexer state after `k` calls of `Lex`.
`UJ s` — the invariant of the parser state `s`: the cached look-ahead is never `stopTok`, and either an error is on
record, or the lexer state is an iterate `lexIter o k s0` and none of the first `k` tokens is `$unk` — except
possibly the last one, which then still sits in the look-ahead `s.la` (it has been examined, not shifted).
`HT Pre m Q`: from a state satisfying `UJ` and `Pre`, a successful run of `m` ends in a state satisfying `UJ` and `Q`.

* `peek` keeps `UJ` and establishes `Link t s` for the token `t` it returns: "if `t` is not `$unk`, neither is the
  look-ahead" (`ht_peek`); when `t` is `stopTok`, an error is on record or the lexer is in the clean end state
  (`ht_peek_full`).
* `consume` (the shift) keeps `UJ` PROVIDED the look-ahead is not `$unk` (`ht_consume`) — and every `consume` in the
  parser stands behind a test of the examined token against a token of the grammar (`t = .plus`,
  `isAccessorStart t`, `compOp t = some op`, `methodOf k = some m`, …), none of which `$unk` passes (`hu_side`).
* `AllHT f`: ONE invariant for the 16 functions of the mutual block at fuel `f` (functions that are handed the
  examined token carry `Link t` as precondition; `arithLoop` / `predLoop` / `parseAtom` / `exprTail` hand `Link t`
  back for the token they return unconsumed; `accessorOp` and `csvElem`, whose first action is the shift, require
  the look-ahead not to be `$unk`), proved by induction on the fuel (`allHT`), one `htstep_*` per function.
* `ht_parseBody`, `ht_finish`, `ht_parseTop`: the whole of `pathParse`; the accept state examines `stopTok`, so at the
  end the look-ahead is not `$unk` and — no error being on record — the lexer is in the clean end state.

## Results

* **`parse_ok_no_unk`**: an accepted input has no `$unk` among the tokens `Lex` answers, however often it is called;
  **`parse_err_of_unk_token`**: `$unk` as the `k`-th token (any `k`) rejects the input.  No hypothesis on the oracles.
* at a token start the lexer reaches (`Standing (lexIter o k (LState.init bytes)) (chs sep ++ .ch c :: X)`, any
  separator `sep`, any continuation `X` incl. NUL and undecodable bytes): `parse_err_of_other_char_at` (a rune that
  cannot start a token), `parse_err_of_lone_op_at`, `parse_err_bad_ident_at` (a bare identifier that goes wrong — a
  lexing error, by `LexReject.Str.scanIdent_bad`), and `parse_ok_token_start` (the first character of every token
  of an accepted input can start a token).
* for texts: `lexIter_items` / `standing_after_items` (tokens — `Layout.ItemOK` — in any layout followed by ANY
  NUL-free text: after as many calls of `Lex` as there are tokens the lexer stands before that text; this makes every
  `…_at` theorem of C04b applicable to texts), `parse_err_of_other_char_after_tokens`,
  `parse_err_of_lone_op_after_tokens`, `parse_err_bad_ident_after_tokens`, `parse_err_of_private_char_after_tokens`
  and their `_strict` forms (a strict layout, then a non-empty separator), `parse_err_of_lexes_unk` (a text whose
  token sequence contains `$unk`).
-/
namespace Sqljson
namespace UnkReject
open Parse Lex ParseLemmas Layout RoundTrip LexReject LexReject.Misc
set_option linter.unusedSimpArgs false
set_option linter.unusedSectionVars false
set_option linter.unusedVariables false

/-! ## §1 The invariant and the calculus -/

section unk
variable (o : Oracles) (s0 : LState)

/-- none of the first `k` tokens is `$unk` -/
def Clean (k : Nat) : Prop := ∀ j, j < k → (Lex.lex o (lexIter o j s0)).1 ≠ .unk

/-- the look-ahead is not `$unk` -/
abbrev NotUnk (s : PS) : Prop := ∀ x, s.la ≠ some (.unk, x)

/-- the examined token `t` is the look-ahead as far as `$unk` is concerned -/
abbrev Link (t : Tok) (s : PS) : Prop := t ≠ .unk → NotUnk s

/-- the invariant of the parser state -/
def UJ (s : PS) : Prop :=
  (∀ x, s.la ≠ some (.stop, x)) ∧
  (s.lx.err = true ∨ ∃ k, s.lx = lexIter o k s0 ∧
    (Clean o s0 k ∨ ∃ k', k = k' + 1 ∧ Clean o s0 k' ∧ ∃ x, s.la = some (.unk, x)))

/-- Hoare triple over `UJ` -/
structure HT (Pre : PS → Prop) {α : Type} (m : P α) (Q : α → PS → Prop) : Prop where
  run : ∀ s v s1, m s = .ok v s1 → UJ o s0 s → Pre s → UJ o s0 s1 ∧ Q v s1

abbrev TT0 : PS → Prop := fun _ => True
abbrev QT {α : Type} : α → PS → Prop := fun _ _ => True

variable {o s0}

theorem ht_pure {α : Type} {Pre : PS → Prop} {R : α → PS → Prop} (a : α) (h : ∀ s, Pre s → R a s) :
    HT o s0 Pre (pure a : P α) R := by
  constructor
  intro s v s1 hm hj hp
  rw [pure_apply] at hm
  injection hm with h1 h2
  subst h1; subst h2
  exact ⟨hj, h s hp⟩

theorem ht_syn {α : Type} {Pre : PS → Prop} {R : α → PS → Prop} : HT o s0 Pre (syn : P α) R := by
  constructor; intro s v s1 hm; simp [syn] at hm
theorem ht_panic {α : Type} {Pre : PS → Prop} {R : α → PS → Prop} : HT o s0 Pre (Parse.panic : P α) R := by
  constructor; intro s v s1 hm; simp [Parse.panic] at hm
theorem ht_outOfFuel {α : Type} {Pre : PS → Prop} {R : α → PS → Prop} : HT o s0 Pre (outOfFuel : P α) R := by
  constructor; intro s v s1 hm; simp [outOfFuel] at hm

theorem ht_bind {α β : Type} {Pre : PS → Prop} {Q : α → PS → Prop} {R : β → PS → Prop} {m : P α} {f : α → P β}
    (hm : HT o s0 Pre m Q) (hf : ∀ a, HT o s0 (Q a) (f a) R) : HT o s0 Pre (m >>= f) R := by
  constructor
  intro s v s1 h hj hp
  rw [bind_apply] at h
  cases hms : m s with
  | ok a s' =>
    rw [hms] at h
    obtain ⟨hj', hq⟩ := hm.run s a s' hms hj hp
    exact (hf a).run s' v s1 h hj' hq
  | syn => rw [hms] at h; simp at h
  | panic => rw [hms] at h; simp at h
  | fuel => rw [hms] at h; simp at h

theorem ht_pre {α : Type} {Pre : PS → Prop} {Q : α → PS → Prop} {m : P α} (h : HT o s0 TT0 m Q) :
    HT o s0 Pre m Q := ⟨fun s v s1 hm hj _ => h.run s v s1 hm hj trivial⟩

theorem ht_post {α : Type} {Pre : PS → Prop} {Q : α → PS → Prop} {m : P α} (h : HT o s0 Pre m Q) :
    HT o s0 Pre m QT := ⟨fun s v s1 hm hj hp => ⟨(h.run s v s1 hm hj hp).1, trivial⟩⟩

theorem ht_ite {α : Type} {Pre : PS → Prop} {Q : α → PS → Prop} {c : Prop} [Decidable c] {a b : P α}
    (ha : c → HT o s0 Pre a Q) (hb : ¬ c → HT o s0 Pre b Q) : HT o s0 Pre (if c then a else b) Q := by
  split
  · rename_i h; exact ha h
  · rename_i h; exact hb h

/-- shifting the look-ahead is allowed when it is not `$unk` -/
theorem ht_consume {Pre : PS → Prop} (hp : ∀ s, Pre s → NotUnk s) : HT o s0 Pre consume QT := by
  constructor
  intro s v s1 hm hj hpre
  simp only [consume] at hm
  injection hm with _ h2
  subst h2
  refine ⟨⟨by intro x hx; simp at hx, ?_⟩, trivial⟩
  rcases hj.2 with he | ⟨k, hk, hc | ⟨k', _, _, x, hx⟩⟩
  · exact Or.inl he
  · exact Or.inr ⟨k, hk, Or.inl hc⟩
  · exact absurd hx (hp s hpre x)

theorem ht_recordError {Pre : PS → Prop} : HT o s0 Pre recordError QT := by
  constructor
  intro s v s1 hm hj _
  simp only [recordError] at hm
  injection hm with _ h2
  subst h2
  exact ⟨⟨hj.1, Or.inl rfl⟩, trivial⟩

theorem ht_hasError {Pre : PS → Prop} : HT o s0 Pre hasError QT := by
  constructor
  intro s v s1 hm hj _
  simp only [hasError] at hm
  injection hm with _ h2
  subst h2
  exact ⟨hj, trivial⟩

/-- what `peek` establishes: the token it returns is the look-ahead as far as `$unk` is concerned; and when it
    is `stopTok`, an error is on record or the lexer is in the clean end state -/
def PeekPost (t : Tok × List Char) (s : PS) : Prop :=
  Link t.1 s ∧ (t.1 = .stop → s.lx.err = true ∨ s.lx = endState)

theorem lstate_ext (L : LState) (a : L.rest = []) (b : L.ch = none) (c : L.err = false) (d : L.oof = false) :
    L = endState := by
  obtain ⟨r, ch, e, oo⟩ := L
  simp only at a b c d
  subst a; subst b; subst c; subst d
  rfl

theorem ht_peek_full {Pre : PS → Prop} : HT o s0 Pre (peek o) PeekPost := by
  constructor
  intro s t s' hp hj _
  unfold peek at hp
  cases hla : s.la with
  | some t' =>
    simp only [hla] at hp
    injection hp with h1 h2
    subst h1; subst h2
    refine ⟨hj, ?_, ?_⟩
    · intro hne x hx
      rw [hla] at hx
      injection hx with hx
      rw [hx] at hne
      exact hne rfl
    · intro hst
      exact absurd (show s.la = some (.stop, t'.2) by rw [hla, ← hst]) (hj.1 _)
  | none =>
    simp only [hla] at hp
    by_cases hoof : (Lex.lex o s.lx).2.2.oof = true
    · simp [hoof] at hp
    · simp only [hoof, if_false, Bool.false_eq_true] at hp
      -- the invariant after this call of `Lex`, for either way of storing the token
      have hstep : ∀ la' : Option (Tok × List Char),
          (la' = none ∨ ∃ x, la' = some ((Lex.lex o s.lx).1, x)) →
          ((Lex.lex o s.lx).1 = .unk → la' ≠ none) →
          (s.lx.err = true ∨ ∃ k, s.lx = lexIter o k s0 ∧
            (Clean o s0 k ∨ ∃ k', k = k' + 1 ∧ Clean o s0 k' ∧ ∃ x, s.la = some (.unk, x))) →
          ((Lex.lex o s.lx).2.2.err = true ∨ ∃ k, (Lex.lex o s.lx).2.2 = lexIter o k s0 ∧
            (Clean o s0 k ∨ ∃ k', k = k' + 1 ∧ Clean o s0 k' ∧ ∃ x, la' = some (.unk, x))) := by
        intro la' hla' hunk hj2
        rcases hj2 with he | ⟨k, hk, hc | ⟨k', _, _, x, hx⟩⟩
        · exact Or.inl (lex_err_mono o s.lx he)
        · refine Or.inr ⟨k + 1, by rw [hk]; rfl, ?_⟩
          by_cases hu : (Lex.lex o s.lx).1 = .unk
          · right
            refine ⟨k, rfl, hc, ?_⟩
            rcases hla' with h | ⟨x, h⟩
            · exact absurd h (hunk hu)
            · exact ⟨x, by rw [h, hu]⟩
          · left
            intro j hj'
            by_cases hjk : j < k
            · exact hc j hjk
            · have : j = k := by omega
              rw [this, ← hk]; exact hu
        · rw [hla] at hx; simp at hx
      by_cases hs : (Lex.lex o s.lx).1 = Tok.stop
      · simp only [hs, if_true] at hp
        injection hp with h1 h2
        subst h1; subst h2
        refine ⟨⟨by intro x hx; simp at hx, ?_⟩, ?_, ?_⟩
        · exact hstep none (Or.inl rfl) (by rw [hs]; simp) hj.2
        · intro _ x hx
          simp at hx
        · intro _
          show (Lex.lex o s.lx).2.2.err = true ∨ (Lex.lex o s.lx).2.2 = endState
          cases he : (Lex.lex o s.lx).2.2.err with
          | true => exact Or.inl rfl
          | false =>
            right
            rcases lex_stop' o s.lx hs with h | h | ⟨h1, h2⟩
            · rw [he] at h; exact absurd h (by decide)
            · exact absurd h hoof
            · refine lstate_ext _ h1 h2 he ?_
              cases hx : (Lex.lex o s.lx).2.2.oof with
              | false => rfl
              | true => exact absurd hx hoof
      · simp only [hs, if_false] at hp
        injection hp with h1 h2
        subst h1; subst h2
        refine ⟨⟨?_, ?_⟩, ?_, ?_⟩
        · intro x hx
          simp only [Option.some.injEq, Prod.mk.injEq] at hx
          exact hs hx.1
        · exact hstep _ (Or.inr ⟨_, rfl⟩) (by simp) hj.2
        · intro hne x hx
          simp only [Option.some.injEq, Prod.mk.injEq] at hx
          exact hne hx.1
        · intro h; exact absurd h hs

/-- `peek`: the token it returns is the look-ahead as far as `$unk` is concerned -/
theorem ht_peek {Pre : PS → Prop} : HT o s0 Pre (peek o) (fun t s => Link t.1 s) :=
  ⟨fun s v s1 hm hj hp => ⟨(ht_peek_full.run s v s1 hm hj hp).1, (ht_peek_full.run s v s1 hm hj hp).2.1⟩⟩


theorem ht_conseq {α : Type} {Pre Pre' : PS → Prop} {Q : α → PS → Prop} {m : P α} (h : HT o s0 Pre' m Q)
    (hp : ∀ s, Pre s → Pre' s) : HT o s0 Pre m Q := ⟨fun s v s1 hm hj hpre => h.run s v s1 hm hj (hp s hpre)⟩

/-- prove that the token of a guarded branch is not `$unk`, from the hypotheses of the branch -/
syntax "hu_side" : tactic
macro_rules | `(tactic| hu_side) => `(tactic| first
  | decide
  | assumption
  | (intro hu; subst hu; contradiction)
  | (intro hu; subst hu; simp_all [isAccessorStart, compOp, addOp, mulOp, methodOf, precisionOp, isPlainKeyName]; done)
  | (intro hu; simp_all [isAccessorStart, compOp, addOp, mulOp, methodOf, precisionOp, isPlainKeyName]; done))

/-- a side goal `t ≠ $unk` -/
macro "ht_side" : tactic => `(tactic| ((show _ ≠ Tok.unk); hu_side))

/-- one step of the proof of a triple; the rules are matched syntactically (`with_reducible`) -/
syntax "ht_more" : tactic
macro_rules | `(tactic| ht_more) => `(tactic| with_reducible exact ht_syn)
macro_rules | `(tactic| ht_more) => `(tactic| with_reducible exact ht_panic)
macro_rules | `(tactic| ht_more) => `(tactic| with_reducible exact ht_outOfFuel)
macro_rules | `(tactic| ht_more) => `(tactic| with_reducible exact ht_peek)
macro_rules | `(tactic| ht_more) => `(tactic| with_reducible exact ht_recordError)
macro_rules | `(tactic| ht_more) => `(tactic| with_reducible refine ht_consume (fun _ h => h ?_))
macro_rules | `(tactic| ht_more) => `(tactic| with_reducible exact ht_consume (fun _ h => h))
macro_rules | `(tactic| ht_more) => `(tactic| with_reducible exact ht_pure _ (fun _ _ => trivial))
macro_rules | `(tactic| ht_more) => `(tactic| with_reducible exact ht_pure _ (fun _ h => h))
macro_rules | `(tactic| ht_more) => `(tactic| with_reducible exact (ht_pure _ (fun _ _ => trivial) : HT _ _ _ (pure _) QT))

/-- bound variable of a continuation: a pair is taken apart at once -/
syntax "ht_intro" : tactic
macro_rules | `(tactic| ht_intro) => `(tactic| first
  | (intro (a : _ × _); obtain ⟨_, _⟩ := a; try dsimp only)
  | intro _)

macro "ht" : tactic =>
  `(tactic| repeat' (first | ht_side | ht_more | with_reducible apply ht_bind | with_reducible apply ht_ite | ht_intro | split))

theorem ht_expect {Pre : PS → Prop} (t : Tok) (ht : t ≠ .unk) : HT o s0 Pre (expect o t) QT := by
  unfold expect
  apply ht_bind ht_peek
  intro a
  obtain ⟨k, x⟩ := a
  simp only []
  split
  · rename_i h
    exact ht_consume (fun _ hl => hl (by rw [h]; exact ht))
  · exact ht_syn

theorem ht_astNewInteger {Pre : PS → Prop} (l : List Char) : HT o s0 Pre (astNewInteger l) QT := by
  unfold astNewInteger; ht
theorem ht_astNewNumeric {Pre : PS → Prop} (l : List Char) : HT o s0 Pre (astNewNumeric l) QT := by
  unfold astNewNumeric; ht
theorem ht_newInteger {Pre : PS → Prop} (l : List Char) : HT o s0 Pre (newInteger l) QT := by
  unfold newInteger; ht
theorem ht_newNumeric {Pre : PS → Prop} (l : List Char) : HT o s0 Pre (newNumeric l) QT := by
  unfold newNumeric; ht
theorem ht_newUnaryOrNumber {Pre : PS → Prop} (op : UnOp) (v : EV) : HT o s0 Pre (newUnaryOrNumber op v) QT := by
  unfold newUnaryOrNumber
  repeat' (first | ht_more | exact ht_astNewInteger _ | exact ht_astNewNumeric _ | split)
theorem ht_mkRegex {Pre : PS → Prop} (v : EV) (p f : List Char) : HT o s0 Pre (mkRegex o v p f) QT := by
  unfold mkRegex; ht
theorem ht_anyLevelOf {Pre : PS → Prop} (l : List Char) : HT o s0 Pre (anyLevelOf l) QT := by
  unfold anyLevelOf; ht

macro_rules | `(tactic| ht_more) => `(tactic| with_reducible refine ht_expect _ ?_)
macro_rules | `(tactic| ht_more) => `(tactic| with_reducible exact ht_newInteger _)
macro_rules | `(tactic| ht_more) => `(tactic| with_reducible exact ht_newNumeric _)
macro_rules | `(tactic| ht_more) => `(tactic| with_reducible exact ht_newUnaryOrNumber _ _)
macro_rules | `(tactic| ht_more) => `(tactic| with_reducible exact ht_mkRegex _ _ _)
macro_rules | `(tactic| ht_more) => `(tactic| with_reducible exact ht_anyLevelOf _)

theorem ht_anyLevel {Pre : PS → Prop} : HT o s0 Pre (anyLevel o) QT := by unfold anyLevel; ht

/-- `csv_elem`, whose first action is to shift the token it was handed -/
theorem ht_csvElem (t : Tok) (x : List Char) : HT o s0 NotUnk (csvElem o (t, x)) QT := by
  unfold csvElem; ht

macro_rules | `(tactic| ht_more) => `(tactic| with_reducible exact ht_anyLevel)
macro_rules | `(tactic| ht_more) => `(tactic| with_reducible refine ht_conseq (ht_csvElem _ _) (fun _ h => h ?_))


/-! ## §2 One invariant for the 16 functions of the mutual block -/

/-- what is known about the token a complete atom hands back -/
@[reducible] def AtomPost : AtomR → PS → Prop
  | .pred _, _ => True
  | .expr _ t, s => Link t s

variable (o s0)

/-- the triples of the 16 functions of the parser's mutual block, at fuel `f` -/
structure AllHT (f : Nat) : Prop where
  unaryT : ∀ t x, HT o s0 (Link t) (parseUnaryT o f (t, x)) QT
  unary : HT o s0 TT0 (parseUnary o f) QT
  scalar : ∀ t x, HT o s0 (Link t) (parseScalar o f (t, x)) QT
  accLoop : ∀ head ops, HT o s0 TT0 (accessorLoop o f head ops) QT
  paren : ∀ ctx, HT o s0 TT0 (parenTail o f ctx) QT
  atom : ∀ ctx, HT o s0 TT0 (parseAtom o f ctx) AtomPost
  exists_ : HT o s0 TT0 (existsTail o f) QT
  exprT : ∀ ctx v, HT o s0 TT0 (exprTail o f ctx v) AtomPost
  arith : ∀ v, HT o s0 TT0 (arithLoop o f v) (fun p s => Link p.2 s)
  mul : ∀ v, HT o s0 TT0 (mulLoop o f v) QT
  pred : ∀ v, HT o s0 TT0 (predLoop o f v) (fun p s => Link p.2 s)
  or_ : ∀ v, HT o s0 TT0 (orLoop o f v) QT
  accOp : ∀ t, HT o s0 NotUnk (accessorOp o f t) QT
  index : ∀ t x acc, HT o s0 (Link t) (indexList o f (t, x) acc) QT
  csv : HT o s0 TT0 (csvList o f) QT
  csvM : ∀ acc, HT o s0 TT0 (csvMore o f acc) QT

theorem allHT_zero : AllHT o s0 0 := by
  constructor
  all_goals intros
  all_goals first
    | (simp only [parseUnaryT, parseUnary, parseScalar, accessorLoop, parenTail, parseAtom, existsTail, exprTail,
        arithLoop, mulLoop, predLoop, orLoop, accessorOp, indexList, csvList, csvMore]; exact ht_outOfFuel)

variable {o s0}

section step
variable {f : Nat} (ih : AllHT o s0 f)
include ih

/-- the calls of the functions at fuel `f`, in whatever precondition -/
syntax "ht_ih" : tactic
macro_rules | `(tactic| ht_ih) => `(tactic| with_reducible first
  | exact AllHT.unaryT (by assumption) _ _
  | exact AllHT.scalar (by assumption) _ _
  | exact AllHT.index (by assumption) _ _ _
  | refine ht_conseq (AllHT.accOp (by assumption) _) (fun _ h => h ?_)
  | exact ht_pre (AllHT.unary (by assumption))
  | exact ht_pre (AllHT.accLoop (by assumption) _ _)
  | exact ht_pre (AllHT.paren (by assumption) _)
  | exact ht_pre (AllHT.atom (by assumption) _)
  | exact ht_pre (AllHT.exists_ (by assumption))
  | exact ht_pre (AllHT.exprT (by assumption) _ _)
  | exact ht_pre (AllHT.arith (by assumption) _)
  | exact ht_pre (AllHT.mul (by assumption) _)
  | exact ht_pre (AllHT.pred (by assumption) _)
  | exact ht_pre (AllHT.or_ (by assumption) _)
  | exact ht_pre (AllHT.csv (by assumption))
  | exact ht_pre (AllHT.csvM (by assumption) _))

macro "hti" : tactic =>
  `(tactic| repeat' (first | ht_side | ht_more | ht_ih | with_reducible apply ht_bind | with_reducible apply ht_ite | ht_intro | split))

theorem htstep_unaryT (t : Tok) (x : List Char) : HT o s0 (Link t) (parseUnaryT o (f + 1) (t, x)) QT := by
  rw [parseUnaryT]; hti
theorem htstep_unary : HT o s0 TT0 (parseUnary o (f + 1)) QT := by rw [parseUnary]; hti
theorem htstep_scalar (t : Tok) (x : List Char) : HT o s0 (Link t) (parseScalar o (f + 1) (t, x)) QT := by
  unfold parseScalar
  cases t <;> hti
theorem htstep_accLoop (head : EV) (ops : List Node) : HT o s0 TT0 (accessorLoop o (f + 1) head ops) QT := by
  rw [accessorLoop]; hti
theorem htstep_paren (ctx : Ctx) : HT o s0 TT0 (parenTail o (f + 1) ctx) QT := by
  unfold parenTail; hti
theorem htstep_atom (ctx : Ctx) : HT o s0 TT0 (parseAtom o (f + 1) ctx) AtomPost := by
  unfold parseAtom; hti
theorem htstep_exists : HT o s0 TT0 (existsTail o (f + 1)) QT := by unfold existsTail; hti
theorem htstep_exprT (ctx : Ctx) (v : EV) : HT o s0 TT0 (exprTail o (f + 1) ctx v) AtomPost := by
  unfold exprTail; hti
theorem htstep_arith (v : EV) : HT o s0 TT0 (arithLoop o (f + 1) v) (fun p s => Link p.2 s) := by
  unfold arithLoop; hti
theorem htstep_mul (v : EV) : HT o s0 TT0 (mulLoop o (f + 1) v) QT := by unfold mulLoop; hti
theorem htstep_pred (v : EV) : HT o s0 TT0 (predLoop o (f + 1) v) (fun p s => Link p.2 s) := by
  unfold predLoop; hti
theorem htstep_or (v : EV) : HT o s0 TT0 (orLoop o (f + 1) v) QT := by unfold orLoop; hti
theorem htstep_accOp (t : Tok) : HT o s0 NotUnk (accessorOp o (f + 1) t) QT := by
  unfold accessorOp; hti
theorem htstep_index (t : Tok) (x : List Char) (acc : List Node) :
    HT o s0 (Link t) (indexList o (f + 1) (t, x) acc) QT := by
  unfold indexList; hti
theorem htstep_csv : HT o s0 TT0 (csvList o (f + 1)) QT := by unfold csvList; hti
theorem htstep_csvM (acc : List Node) : HT o s0 TT0 (csvMore o (f + 1) acc) QT := by unfold csvMore; hti

end step

end unk

/-! ## §3 The induction, `pathParse`, and the theorem -/

section
variable (o : Oracles) (s0 : LState)

theorem allHT : ∀ f, AllHT o s0 f
  | 0 => allHT_zero o s0
  | f + 1 =>
    have ih := allHT f
    { unaryT := htstep_unaryT ih
      unary := htstep_unary ih
      scalar := htstep_scalar ih
      accLoop := htstep_accLoop ih
      paren := htstep_paren ih
      atom := htstep_atom ih
      exists_ := htstep_exists ih
      exprT := htstep_exprT ih
      arith := htstep_arith ih
      mul := htstep_mul ih
      pred := htstep_pred ih
      or_ := htstep_or ih
      accOp := htstep_accOp ih
      index := htstep_index ih
      csv := htstep_csv ih
      csvM := htstep_csvM ih }

/-- `mode expr_or_predicate` keeps the invariant -/
theorem ht_parseBody (f : Nat) : HT o s0 TT0 (parseBody o f) QT := by
  have h := allHT o s0 f
  unfold parseBody
  repeat' (first | ht_side | ht_more | exact ht_pre (h.atom _) | exact ht_pre (h.pred _) | with_reducible apply ht_bind | with_reducible apply ht_ite | ht_intro | split)

/-- what holds when `pathParse` returns: the look-ahead is not `$unk`; an error is on record or the lexer is in the
    clean end state -/
def EndPost (s : PS) : Prop := NotUnk s ∧ (s.lx.err = true ∨ s.lx = endState)

/-- the accept state: the last token examined is `stopTok` -/
theorem ht_accept {Pre : PS → Prop} (result : Option AST) :
    HT o s0 Pre (peek o >>= fun x => match x with | (t2, _) => if t2 ≠ Tok.stop then syn else pure result)
      (fun _ s => EndPost s) := by
  apply ht_bind ht_peek_full
  intro a
  obtain ⟨t2, x⟩ := a
  dsimp only
  apply ht_ite
  · intro _; exact ht_syn
  · intro h
    have h' : t2 = .stop := Decidable.of_not_not h
    exact ht_pure _ (fun s hp => ⟨hp.1 (by show t2 ≠ Tok.unk; rw [h']; decide), hp.2 h'⟩)

theorem ht_finish (lax isPred : Bool) (root : EV) :
    HT o s0 TT0 (finish o lax isPred root) (fun _ s => EndPost s) := by
  unfold finish
  apply ht_bind ht_hasError
  intro bad
  dsimp only
  repeat' (first | exact ht_accept o s0 _ | ht_more | with_reducible apply ht_bind | with_reducible apply ht_ite | ht_intro | split)

theorem ht_parseTop (f : Nat) : HT o s0 TT0 (parseTop o f) (fun _ s => EndPost s) := by
  unfold parseTop
  apply ht_bind (ht_parseBody o s0 f)
  intro a
  obtain ⟨lax, isPred, root⟩ := a
  dsimp only
  exact ht_pre (ht_finish o s0 lax isPred root)

end

section
variable (o : Oracles)

/-- a run of the parser that ends without an error on record: no call of `Lex` on the input, however many, answers
    `$unk` -/
theorem run_ok_no_unk (bytes : List UInt8) (r : Option AST) (s : PS) (hrun : Parse.run o bytes = .ok r s)
    (herr : s.lx.err = false) : ∀ k, (Lex.lex o (lexIter o k (LState.init bytes))).1 ≠ .unk := by
  unfold Parse.run at hrun
  have hinit : UJ o (LState.init bytes) { lx := LState.init bytes, la := none } :=
    ⟨by intro x hx; simp at hx, Or.inr ⟨0, rfl, Or.inl (fun j hj => absurd hj (Nat.not_lt_zero j))⟩⟩
  obtain ⟨hj, hnu, hend⟩ := (ht_parseTop o (LState.init bytes) (fuelFor bytes)).run _ r s hrun hinit trivial
  have hes : s.lx = endState := by
    rcases hend with h | h
    · rw [herr] at h; exact absurd h (by decide)
    · exact h
  rcases hj.2 with he | ⟨k, hk, hc | ⟨k', _, _, x, hx⟩⟩
  · rw [herr] at he; exact absurd he (by decide)
  · intro j
    by_cases hjk : j < k
    · exact hc j hjk
    · obtain ⟨d, rfl⟩ : ∃ d, j = k + d := ⟨j - k, by omega⟩
      rw [lexIter_add, ← hk, hes, lexIter_endState, lex_endState]
      decide
  · exact absurd hx (hnu x)

/-- **an accepted input has no `$unk` token anywhere in its token stream** -/
theorem parse_ok_no_unk (bytes : List UInt8) (a : AST) (h : parse o bytes = .ok a) :
    ∀ k, (Lex.lex o (lexIter o k (LState.init bytes))).1 ≠ .unk := by
  obtain ⟨s, hrun, herr⟩ := parse_ok_no_error o bytes a h
  exact run_ok_no_unk o bytes _ s hrun herr

/-- **a `$unk` token ANYWHERE in the token stream rejects the input** -/
theorem parse_err_of_unk_token (bytes : List UInt8) (k : Nat)
    (h : (Lex.lex o (lexIter o k (LState.init bytes))).1 = .unk) : parse o bytes = .err := by
  cases hp : parse o bytes with
  | ok a => exact absurd h (parse_ok_no_unk o bytes a hp k)
  | err => rfl
  | panic => exact absurd hp (ParseLemmas.parse_never_panics o bytes)

end
/-! ## §4 From a token start the lexer reaches -/

section
variable (o : Oracles) (hx : o.xidStart '/' = false)
include hx

/-- a call of `Lex` in a state standing before a separator followed by `X`: the token is the one the body of `Lex`
    answers on the stream of `X` -/
theorem lex_tok_after_sep_at (s : LState) {sep : List Char} (hs : Sep sep) (X : List Src)
    (hst : Standing s (chs sep ++ X)) :
    ∃ f, X.length + 1 ≤ f ∧ (Lex.lex o s).1 = (lexFrom o (f + 1) (peekR X) (afterR s X)).tok := by
  rw [lex_standing o _ _ hst]
  obtain ⟨f', h1, h2, h3⟩ := lexFrom_skip_sep o hx hs s X ((chs sep ++ X).tail.length + 2)
    (by simp [List.length_tail, chs_length]; omega)
  refine ⟨f', ?_, ?_⟩
  · simp [List.length_tail, chs_length] at h2
    omega
  · show (lexFrom o ((chs sep ++ X).tail.length + 3) (peekR (chs sep ++ X)) (afterR s (chs sep ++ X))).tok = _
    rw [show (chs sep ++ X).tail.length + 3 = ((chs sep ++ X).tail.length + 2) + 1 from rfl, h3]

/-- **a rune that cannot start a token, at ANY token start the lexer reaches, rejects the input** -/
theorem parse_err_of_other_char_at (bytes : List UInt8) (k : Nat) {sep : List Char} (hs : Sep sep) (c : Char)
    (hc : c.toNat ≠ 0) (hws : isWhitespace c = false) (hn : ¬ StartsToken o c) (hp : isPrivateTokenRune c = false)
    (X : List Src) (hst : Standing (lexIter o k (LState.init bytes)) (chs sep ++ .ch c :: X)) :
    parse o bytes = .err := by
  obtain ⟨f, _, h⟩ := lex_tok_after_sep_at o hx _ hs _ hst
  apply parse_err_of_unk_token o bytes k
  rw [h, peekR_cons_ch c X hc, afterR_cons_ch _ c X hc, lexFrom_other o c hws hn hp]

/-- **a lone `=`, `&` or `|` at ANY token start the lexer reaches rejects the input** -/
theorem parse_err_of_lone_op_at (bytes : List UInt8) (k : Nat) {sep : List Char} (hs : Sep sep) (c : Char)
    (hc : c = '=' ∨ c = '&' ∨ c = '|') (hid : o.xidStart c = false) (X : List Src) (hX : peekR X ≠ some c)
    (hst : Standing (lexIter o k (LState.init bytes)) (chs sep ++ .ch c :: X)) : parse o bytes = .err := by
  have hc0 : c.toNat ≠ 0 := by rcases hc with h | h | h <;> subst h <;> decide
  have hws : isWhitespace c = false := by rcases hc with h | h | h <;> subst h <;> decide
  obtain ⟨f, _, h⟩ := lex_tok_after_sep_at o hx _ hs _ hst
  apply parse_err_of_unk_token o bytes k
  rw [h, peekR_cons_ch c X hc0, afterR_cons_ch _ c X hc0]
  refine (lexFrom_unk_iff o c hws f _ ?_).mpr (Or.inr ⟨?_, hc, ?_⟩)
  · rintro ⟨h, _⟩; rcases hc with h' | h' | h' <;> subst h' <;> simp at h
  · rcases hc with h | h | h <;> subst h <;> simp [isIdentStart, hid]
  · rw [next_withRest]; exact hX

/-- **a bare identifier that goes wrong, at ANY token start the lexer reaches, rejects the input** -/
theorem parse_err_bad_ident_at (bytes : List UInt8) (k : Nat) {sep : List Char} (hs : Sep sep) (c : Char)
    (hidst : isIdentStart o (some c) = true) (hcw : isWhitespace c = false) (hc0 : c.toNat ≠ 0) (X : List Src)
    (hst : Standing (lexIter o k (LState.init bytes)) (chs sep ++ .ch c :: X))
    (hbad : ¬ Str.IdentAt o c X) : parse o bytes = .err := by
  cases he : (lexIter o k (LState.init bytes)).err with
  | true => exact parse_err_of_lexIter_error o bytes k he
  | false =>
    refine parse_err_after_sep_at o hx bytes k hs _ hst (fun f _ => ?_)
    rw [peekR_cons_ch _ _ hc0, afterR_cons_ch _ c _ hc0, LexReject.Str.lexFrom_ident o c hidst hcw]
    exact (Str.scanIdent_bad o c _ he hbad).2.2

/-- **an accepted input: the first character of every token** (the character standing after a separator at a
    token start the lexer reaches) **can start a token**; it is no private-use rune U+E000 … U+E032 unless the oracle
    takes that for an identifier start; and a `=`, `&`, `|` is followed by the same character -/
theorem parse_ok_token_start (bytes : List UInt8) (a : AST) (h : parse o bytes = .ok a) (k : Nat)
    {sep : List Char} (hs : Sep sep) (c : Char) (hc0 : c.toNat ≠ 0) (hws : isWhitespace c = false) (X : List Src)
    (hst : Standing (lexIter o k (LState.init bytes)) (chs sep ++ .ch c :: X)) :
    StartsToken o c ∧ (isPrivateTokenRune c = true → o.xidStart c = true) ∧
      ((c = '=' ∨ c = '&' ∨ c = '|') → o.xidStart c = false → peekR X = some c) := by
  have hne : parse o bytes ≠ .err := by rw [h]; intro hh; cases hh
  have hpriv : isPrivateTokenRune c = true → o.xidStart c = true := by
    intro hp
    cases hid : o.xidStart c with
    | true => rfl
    | false => exact absurd (parse_err_of_private_char_at o hx bytes k hs c hp hid X hst) hne
  refine ⟨?_, hpriv, ?_⟩
  · by_cases hn : StartsToken o c
    · exact hn
    · exfalso
      cases hp : isPrivateTokenRune c with
      | false => exact hne (parse_err_of_other_char_at o hx bytes k hs c hc0 hws hn hp X hst)
      | true => exact hn (Or.inl (Or.inr (Or.inr (hpriv hp))))
  · intro hc hid
    cases hpx : peekR X with
    | none => exact absurd (parse_err_of_lone_op_at o hx bytes k hs c hc hid X (by rw [hpx]; simp) hst) hne
    | some d =>
      by_cases hd : d = c
      · rw [hd]
      · exact absurd (parse_err_of_lone_op_at o hx bytes k hs c hc hid X
          (by rw [hpx]; intro hh; injection hh with hh; exact hd hh) hst) hne

end

/-! ## §5 Texts: tokens, then the offending character -/

section
variable (o : Oracles)

theorem at_init (l : List Char) : At l (LState.init (utf8 l)) :=
  ⟨rfl, rfl, Or.inl ⟨rfl, decodeAll_utf8 l⟩⟩

theorem standing_of_at {x : List Char} (hx : NoNul x) {s : LState} (h : At x s) : Standing s (chs x) := by
  rcases h.2.2 with ⟨h1, h2⟩ | ⟨c, r, h1, h2, h3⟩
  · exact Or.inl ⟨h1, h2⟩
  · subst h1
    exact Or.inr ⟨c, chs r, rfl, (NoNul.of_cons hx).1, h2, h3⟩

/-- the lexer on tokens in any layout followed by ANY text `x`: after as many calls of `Lex` as there are tokens it
    stands before `x` -/
theorem lexIter_items (ok : RoundTrip.OrOK o) : ∀ (items : List Layout.Item), (∀ it ∈ items, ItemOK o it) →
    ∀ (seps : List (List Char)), seps.length = items.length → (∀ s ∈ seps, Sep s) →
    ∀ (x : List Char), NoNul x → GapsR items seps x → ∀ s, At (render items seps ++ x) s →
      At x (lexIter o items.length s) := by
  intro items
  induction items with
  | nil =>
    intro _ seps hl _ x _ _ s hs
    cases seps with
    | nil => simpa [render, lexIter] using hs
    | cons _ _ => simp at hl
  | cons it r ih =>
    intro hok seps hl hs x hx hg s0 hs0
    cases seps with
    | nil => simp at hl
    | cons s ss =>
      have hit := hok it (by simp)
      have hok' : ∀ it' ∈ r, ItemOK o it' := fun it' h' => hok it' (by simp [h'])
      have hs' : ∀ s' ∈ ss, Sep s' := fun s' h' => hs s' (by simp [h'])
      have hnr : NoNul (render r ss ++ x) := (render_noNul o hok' hs').append hx
      have hs0' : At (s ++ it.c :: (it.w ++ (render r ss ++ x))) s0 := by
        simpa [render, List.append_assoc] using hs0
      obtain ⟨s', h1, h2⟩ := lex_sep_tok o ok hit.1 hit.2.1 hit.2.2.1 (hs s (by simp)) _ hnr hg.1 s0 hs0'
      have := ih hok' ss (by simpa using hl) hs' x hx hg.2 s' h2
      rw [List.length_cons, lexIter_succ', h1]
      exact this

/-- … in the vocabulary of the general-position theorems -/
theorem standing_after_items (ok : RoundTrip.OrOK o) (items : List Layout.Item) (hok : ∀ it ∈ items, ItemOK o it)
    (seps : List (List Char)) (hl : seps.length = items.length) (hs : ∀ s ∈ seps, Sep s)
    (x : List Char) (hx : NoNul x) (hg : GapsR items seps x) :
    Standing (lexIter o items.length (LState.init (utf8 (render items seps ++ x)))) (chs x) :=
  standing_of_at hx (lexIter_items o ok items hok seps hl hs x hx hg _ (at_init _))

/-- a strict layout followed by a non-empty separator: every token is followed by a character it tolerates -/
theorem gapsR_strict_sep {items : List Layout.Item} (hok : ∀ it ∈ items, ItemOK o it ∧ it.C none)
    {seps : List (List Char)} (hl : LayoutStrict items seps) {sep : List Char} (hsep : Sep sep) (hne : sep ≠ [])
    (y : List Char) : GapsR items seps (sep ++ y) := by
  refine gapsR_of_strict hok hl (sep ++ y) (Or.inr ?_)
  have : (sep ++ y).head? = sep.head? := by
    cases sep with
    | nil => exact absurd rfl hne
    | cons _ _ => rfl
  rw [this]
  exact hsep.head hne

variable (ok : RoundTrip.OrOK o)
include ok

/-- **tokens in any layout, a separator, a rune that cannot start a token, then ANY text: rejected** -/
theorem parse_err_of_other_char_after_tokens (items : List Layout.Item) (hok : ∀ it ∈ items, ItemOK o it)
    (seps : List (List Char)) (hl : seps.length = items.length) (hs : ∀ s ∈ seps, Sep s)
    {sep : List Char} (hsep : Sep sep) (c : Char) (hc : c.toNat ≠ 0) (hws : isWhitespace c = false)
    (hn : ¬ StartsToken o c) (hp : isPrivateTokenRune c = false) (rest : List Char) (hr : NoNul rest)
    (hg : GapsR items seps (sep ++ c :: rest)) :
    parse o (utf8 (render items seps ++ (sep ++ c :: rest))) = .err := by
  have hst := standing_after_items o ok items hok seps hl hs (sep ++ c :: rest)
    (hsep.noNul.append (NoNul.cons hc hr)) hg
  rw [chs_append, chs_cons] at hst
  exact parse_err_of_other_char_at o (ok.punctS '/' (by decide)) _ _ hsep c hc hws hn hp _ hst

/-- **tokens in any layout, a separator, a lone `=`, `&` or `|`, then ANY text not starting with the same character:
    rejected** -/
theorem parse_err_of_lone_op_after_tokens (items : List Layout.Item) (hok : ∀ it ∈ items, ItemOK o it)
    (seps : List (List Char)) (hl : seps.length = items.length) (hs : ∀ s ∈ seps, Sep s)
    {sep : List Char} (hsep : Sep sep) (c : Char) (hc : c = '=' ∨ c = '&' ∨ c = '|')
    (rest : List Char) (hr : NoNul rest) (hX : rest.head? ≠ some c)
    (hg : GapsR items seps (sep ++ c :: rest)) :
    parse o (utf8 (render items seps ++ (sep ++ c :: rest))) = .err := by
  have hc0 : c.toNat ≠ 0 := by rcases hc with h | h | h <;> subst h <;> decide
  have hid : o.xidStart c = false := by
    rcases hc with h | h | h <;> subst h <;> exact ok.punctS _ (by decide)
  have hst := standing_after_items o ok items hok seps hl hs (sep ++ c :: rest)
    (hsep.noNul.append (NoNul.cons hc0 hr)) hg
  rw [chs_append, chs_cons] at hst
  refine parse_err_of_lone_op_at o (ok.punctS '/' (by decide)) _ _ hsep c hc hid _ ?_ hst
  cases rest with
  | nil => simp [peekR]
  | cons d t =>
    rw [chs_cons, peekR_cons_ch d _ (NoNul.of_cons hr).1]
    exact hX

/-- **tokens in any layout, a separator, a bare identifier that goes wrong: rejected** -/
theorem parse_err_bad_ident_after_tokens (items : List Layout.Item) (hok : ∀ it ∈ items, ItemOK o it)
    (seps : List (List Char)) (hl : seps.length = items.length) (hs : ∀ s ∈ seps, Sep s)
    {sep : List Char} (hsep : Sep sep) (c : Char) (hidst : isIdentStart o (some c) = true)
    (hcw : isWhitespace c = false) (hc0 : c.toNat ≠ 0) (rest : List Char) (hr : NoNul rest)
    (hbad : ¬ Str.IdentAt o c (chs rest)) (hg : GapsR items seps (sep ++ c :: rest)) :
    parse o (utf8 (render items seps ++ (sep ++ c :: rest))) = .err := by
  have hst := standing_after_items o ok items hok seps hl hs (sep ++ c :: rest)
    (hsep.noNul.append (NoNul.cons hc0 hr)) hg
  rw [chs_append, chs_cons] at hst
  exact parse_err_bad_ident_at o (ok.punctS '/' (by decide)) _ _ hsep c hidst hcw hc0 _ hst hbad

/-- **tokens in any layout, a separator, a private-use rune U+E000 … U+E032, then ANY text: rejected** -/
theorem parse_err_of_private_char_after_tokens (items : List Layout.Item) (hok : ∀ it ∈ items, ItemOK o it)
    (seps : List (List Char)) (hl : seps.length = items.length) (hs : ∀ s ∈ seps, Sep s)
    {sep : List Char} (hsep : Sep sep) (c : Char) (hp : isPrivateTokenRune c = true) (hid : o.xidStart c = false)
    (rest : List Char) (hr : NoNul rest) (hg : GapsR items seps (sep ++ c :: rest)) :
    parse o (utf8 (render items seps ++ (sep ++ c :: rest))) = .err := by
  have hc : c.toNat ≠ 0 := by
    unfold isPrivateTokenRune at hp
    rw [Bool.and_eq_true] at hp
    have : 57344 ≤ c.toNat := of_decide_eq_true hp.1
    omega
  have hst := standing_after_items o ok items hok seps hl hs (sep ++ c :: rest)
    (hsep.noNul.append (NoNul.cons hc hr)) hg
  rw [chs_append, chs_cons] at hst
  exact parse_err_of_private_char_at o (ok.punctS '/' (by decide)) _ _ hsep c hp hid _ hst

/-! ### the same for a strict layout (`Layout.LayoutStrict`: every empty separator between two tokens is justified by
`tolOf`) followed by a NON-EMPTY separator: nothing has to be known about the gaps -/

theorem parse_err_of_other_char_strict (items : List Layout.Item) (hok : ∀ it ∈ items, ItemOK o it ∧ it.C none)
    (seps : List (List Char)) (hl : LayoutStrict items seps) {sep : List Char} (hsep : Sep sep) (hne : sep ≠ [])
    (c : Char) (hc : c.toNat ≠ 0) (hws : isWhitespace c = false) (hn : ¬ StartsToken o c)
    (hp : isPrivateTokenRune c = false) (rest : List Char) (hr : NoNul rest) :
    parse o (utf8 (render items seps ++ (sep ++ c :: rest))) = .err :=
  parse_err_of_other_char_after_tokens o ok items (fun it h => (hok it h).1) seps (LayoutStrictP.length hl)
    (LayoutStrictP.sep hl) hsep c hc hws hn hp rest hr (gapsR_strict_sep o hok hl hsep hne _)

theorem parse_err_of_lone_op_strict (items : List Layout.Item) (hok : ∀ it ∈ items, ItemOK o it ∧ it.C none)
    (seps : List (List Char)) (hl : LayoutStrict items seps) {sep : List Char} (hsep : Sep sep) (hne : sep ≠ [])
    (c : Char) (hc : c = '=' ∨ c = '&' ∨ c = '|') (rest : List Char) (hr : NoNul rest) (hX : rest.head? ≠ some c) :
    parse o (utf8 (render items seps ++ (sep ++ c :: rest))) = .err :=
  parse_err_of_lone_op_after_tokens o ok items (fun it h => (hok it h).1) seps (LayoutStrictP.length hl)
    (LayoutStrictP.sep hl) hsep c hc rest hr hX (gapsR_strict_sep o hok hl hsep hne _)

theorem parse_err_bad_ident_strict (items : List Layout.Item) (hok : ∀ it ∈ items, ItemOK o it ∧ it.C none)
    (seps : List (List Char)) (hl : LayoutStrict items seps) {sep : List Char} (hsep : Sep sep) (hne : sep ≠ [])
    (c : Char) (hidst : isIdentStart o (some c) = true) (hcw : isWhitespace c = false) (hc0 : c.toNat ≠ 0)
    (rest : List Char) (hr : NoNul rest) (hbad : ¬ Str.IdentAt o c (chs rest)) :
    parse o (utf8 (render items seps ++ (sep ++ c :: rest))) = .err :=
  parse_err_bad_ident_after_tokens o ok items (fun it h => (hok it h).1) seps (LayoutStrictP.length hl)
    (LayoutStrictP.sep hl) hsep c hidst hcw hc0 rest hr hbad (gapsR_strict_sep o hok hl hsep hne _)

theorem parse_err_of_private_char_strict (items : List Layout.Item) (hok : ∀ it ∈ items, ItemOK o it ∧ it.C none)
    (seps : List (List Char)) (hl : LayoutStrict items seps) {sep : List Char} (hsep : Sep sep) (hne : sep ≠ [])
    (c : Char) (hp : isPrivateTokenRune c = true) (hid : o.xidStart c = false) (rest : List Char) (hr : NoNul rest) :
    parse o (utf8 (render items seps ++ (sep ++ c :: rest))) = .err :=
  parse_err_of_private_char_after_tokens o ok items (fun it h => (hok it h).1) seps (LayoutStrictP.length hl)
    (LayoutStrictP.sep hl) hsep c hp hid rest hr (gapsR_strict_sep o hok hl hsep hne _)

omit ok in
/-- a backslash that does not begin a well-formed escape is no bare identifier -/
theorem not_identAt_backslash {Z : List Src} (hZ : Str.NoEsc Z) : ¬ Str.IdentAt o '\\' Z := by
  rw [Str.identAt_backslash_iff]
  rintro ⟨es, c, Z', e, hesc, _⟩
  exact hZ ⟨es, c, Z', e, hesc⟩

end

/-! ## §6 Texts given by their token sequence -/

section
variable (o : Oracles)

theorem lstr_unk : ∀ (ts : List TT) (s : LState), Layout.LStr o ts s → (∃ t ∈ ts, t.1 = .unk) →
    ∃ k, (Lex.lex o (lexIter o k s)).1 = .unk := by
  intro ts
  induction ts with
  | nil => intro s _ ⟨t, ht, _⟩; simp at ht
  | cons tk ts ih =>
    intro s h ⟨t, ht, hu⟩
    obtain ⟨_, s', hlex, _, hrest⟩ := h
    simp only [List.mem_cons] at ht
    rcases ht with ht | ht
    · refine ⟨0, ?_⟩
      show (Lex.lex o s).1 = .unk
      rw [hlex, ← ht]; exact hu
    · obtain ⟨k, hk⟩ := ih s' hrest ⟨t, ht, hu⟩
      refine ⟨k + 1, ?_⟩
      rw [lexIter_succ', hlex]
      exact hk

/-- **a text whose token sequence contains `$unk` is rejected** -/
theorem parse_err_of_lexes_unk (l : List Char) (ts : List TT) (hl : Layout.Lexes o l ts)
    (hu : ∃ t ∈ ts, t.1 = .unk) : parse o (utf8 l) = .err := by
  obtain ⟨k, hk⟩ := lstr_unk o ts _ (hl _ (at_init l)) hu
  exact parse_err_of_unk_token o _ k hk

end

end UnkReject
end Sqljson
