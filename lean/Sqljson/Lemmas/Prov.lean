import Sqljson.Lemmas.Total
/-!
# Provenance of the returned items

`Allowed c x`: the item `x` is a scalar (null, boolean, number, string, datetime — numbers and strings
may be freshly computed), or a sub-value of the queried document or of a variable value (`SubOf`,
the reflexive-transitive closure of "element of an array / member of an object"), or a `keyvalue()`
triple `{"id", "key", "value"}` whose `value` is itself `Allowed`.

`Allowed c` is an instance of the class `D` of `Lemmas/Total.lean` in the mode `wf = false`, so the
induction `Total.tot_all` gives, **for every tree (well formed or not)**, every executor function and
every fuel: if the items already in the result list, the value and the current item are `Allowed`,
so is every item of the result list afterwards (`allowed_all`, `xItem_allowed`, `xAny_allowed`).
At the API: every item returned by `Query` / `First` is `Allowed` (`query_allowed`,
`first_allowed`), hence every returned container is a sub-value of an input or a `keyvalue()` triple
(`container_provenance`), and every returned *array* is a sub-value of an input
(`returned_array_is_input`): the one-element array of lax auto-wrapping (`arrayOf`) is only iterated,
never appended.
-/

namespace Sqljson
namespace Exec
namespace Prov
open Sqljson.Exec Sqljson.Exec.Total

/-- `Child x y`: `x` is an element of the array `y` or a member value of the object `y` -/
inductive Child : Item → Item → Prop
  | arr {x : Item} {xs : List Item} : x ∈ xs → Child x (.arr xs)
  | obj {k : List Char} {x : Item} {kvs : List (List Char × Item)} : (k, x) ∈ kvs → Child x (.obj kvs)

/-- sub-value: reflexive-transitive closure of `Child` -/
inductive Sub : Item → Item → Prop
  | refl (x : Item) : Sub x x
  | step {x y z : Item} : Child x y → Sub y z → Sub x z

/-- `x` is a sub-value of one of the `srcs` -/
def SubOf (srcs : List Item) (x : Item) : Prop := ∃ s ∈ srcs, Sub x s

def isScalar : Item → Bool
  | .arr _ | .obj _ => false
  | _ => true

/-- the values of the variables map -/
def varVals (c : Ctx) : List Item := (c.vars.getD []).map (·.2)

/-- the inputs of a call: the queried value and the variable values -/
def sources (c : Ctx) : List Item := c.root :: varVals c

inductive Allowed (c : Ctx) : Item → Prop
  | scalar {x : Item} : isScalar x = true → Allowed c x
  | sub {x : Item} : SubOf (sources c) x → Allowed c x
  | kv {id : Int} {k : List Char} {v : Item} : Allowed c v → Allowed c (kvObj id (k, v))

theorem SubOf.child {srcs : List Item} {x y : Item} (h : SubOf srcs y) (hc : Child x y) : SubOf srcs x := by
  obtain ⟨s, hs, hsub⟩ := h
  exact ⟨s, hs, Sub.step hc hsub⟩

theorem Allowed.plain {c : Ctx} {x : Item} (h : isPlain x = true) : Allowed c x :=
  .scalar (by cases x <;> simp [isPlain] at h <;> rfl)

/-- a member of an `Allowed` object is `Allowed` -/
theorem Allowed.member {c : Ctx} {kvs : List (List Char × Item)} {k : List Char} {v : Item}
    (h : Allowed c (.obj kvs)) (hm : (k, v) ∈ kvs) : Allowed c v := by
  generalize ho : Item.obj kvs = o at h
  cases h with
  | scalar hs => subst ho; simp [isScalar] at hs
  | sub hs => subst ho; exact .sub (hs.child (.obj hm))
  | kv hv =>
    simp only [kvObj, Item.obj.injEq] at ho
    subst ho
    simp only [List.mem_cons, Prod.mk.injEq, List.mem_nil_iff, or_false] at hm
    rcases hm with ⟨_, rfl⟩ | ⟨_, rfl⟩ | ⟨_, rfl⟩
    · exact .scalar rfl
    · exact .scalar rfl
    · exact hv

theorem Allowed.elem {c : Ctx} {xs : List Item} {x : Item} (h : Allowed c (.arr xs)) (hm : x ∈ xs) :
    Allowed c x := by
  generalize ho : Item.arr xs = o at h
  cases h with
  | scalar hs => subst ho; simp [isScalar] at hs
  | sub hs => subst ho; exact .sub (hs.child (.arr hm))
  | kv hv => simp [kvObj] at ho

/-- `Allowed` is a class of the induction of `Lemmas/Total.lean`, for every tree -/
theorem env_allowed (G : Cfg) (c : Ctx) : Env ⟨false, false⟩ G c (Allowed c) where
  arr := fun _ h _ hx => h.elem hx
  lookup := fun _ _ _ h hl => h.member (lookup_mem hl)
  members := fun _ h x hx => by
    obtain ⟨k, hk⟩ := members_mem hx
    exact h.member hk
  kv := fun kvs id kv h hkv => by
    obtain ⟨k, v⟩ := kv
    exact .kv (h.member hkv)
  null := .scalar rfl
  bool := fun _ => .scalar rfl
  int := fun _ => .scalar rfl
  str := fun _ => .scalar rfl
  root := .sub ⟨c.root, by simp [sources], .refl _⟩
  vars := fun name val h => by
    refine .sub ⟨val, ?_, .refl _⟩
    cases hv : c.vars with
    | none => simp [hv] at h
    | some vs =>
      simp [hv] at h
      have := lookup_mem h
      simp only [sources, varVals, hv, Option.getD_some, List.mem_cons, List.mem_map]
      exact Or.inr ⟨_, this, rfl⟩
  numLit := fun _ _ => .scalar rfl
  uflt := fun _ _ _ _ => .scalar rfl
  ujnum := fun cb t v _ _ hc => by
    rcases castJSONNumber_out hc with ⟨i, rfl⟩ | ⟨x, _, rfl⟩ <;> exact .scalar rfl
  math := fun l r op val _ _ h _ => by
    rcases mathOp_out h with ⟨i, rfl⟩ | ⟨x, rfl⟩ <;> exact .scalar rfl
  conv := fun m cv hm _ v out _ ho => .plain (methConv_plain hm ho)
  dec := fun _ l r v out _ ho => by
    obtain ⟨d, rfl, _⟩ := convNumber_out ho
    exact .scalar rfl
  dt := fun _ _ => .scalar rfl
  regex := fun h => by cases h
  cmpPanic := fun h => by cases h
  cmpInv := fun h => by cases h
  idx := fun h => by cases h

/-- every item of the list is `Allowed` -/
def AllAllowed (c : Ctx) (f : Found) : Prop := AllD (Allowed c) f

/-- **the provenance invariant for the three dispatchers, every fuel, every tree** -/
theorem allowed_all (c : Ctx) (fuel : Nat) :
    (∀ s n v f u, Allowed c v → Allowed c s.current → AllAllowed c f →
      AllAllowed c (xItem c fuel s n v f u).found ∧ (xItem c fuel s n v f u).st.current = s.current) ∧
    (∀ s node vs f l a b i u, (∀ x ∈ vs, Allowed c x) → Allowed c s.current → AllAllowed c f →
      AllAllowed c (xAny c fuel s node vs f l a b i u).found ∧
      (xAny c fuel s node vs f l a b i u).st.current = s.current) := by
  have G : Cfg := ⟨fun _ _ => true, fun _ => true, true, true, fun _ => true⟩
  obtain ⟨hI, _, hA⟩ := tot_all (env_allowed G c) fuel
  refine ⟨fun s n v f u hv hc hf => ?_, fun s node vs f l a b i u hvs hc hf => ?_⟩
  · have := hI s n v f u (fun h => by cases h) hv hc hf
    exact ⟨this.allD, this.keep.current⟩
  · have := hA s node vs f l a b i u (fun h => by cases h) hvs hc hf
    exact ⟨this.allD, this.keep.current⟩

theorem xItem_allowed (c : Ctx) (fuel : Nat) (s : St) (n : Node) (v : Item) (f : Found) (u : Bool)
    (hv : Allowed c v) (hc : Allowed c s.current) (hf : AllAllowed c f) :
    AllAllowed c (xItem c fuel s n v f u).found := ((allowed_all c fuel).1 s n v f u hv hc hf).1

theorem xAny_allowed (c : Ctx) (fuel : Nat) (s : St) (node : Option Node) (vs : List Item) (f : Found)
    (l a b : Nat) (i u : Bool) (hvs : ∀ x ∈ vs, Allowed c x) (hc : Allowed c s.current) (hf : AllAllowed c f) :
    AllAllowed c (xAny c fuel s node vs f l a b i u).found :=
  ((allowed_all c fuel).2 s node vs f l a b i u hvs hc hf).1

/-! ## single functions

Every lemma `Total.<function>_out` instantiated with `env_allowed` is the provenance statement of that
Go function ("if the recursive calls keep the result list `Allowed`, so does this function").  Three of
them spelled out: the subscript accessor with its lax auto-wrapping, `.keyvalue()` (the only function that
appends a container it built), and the operand evaluation that unwraps arrays. -/

/-- the recursive calls keep the result list `Allowed` -/
abbrev KeepsAllowed (c : Ctx) (item : ItemK) : Prop :=
  TotI ⟨false, false⟩ ⟨fun _ _ => true, fun _ => true, true, true, fun _ => true⟩ (Allowed c) item

abbrev KeepsAllowedA (c : Ctx) (any : AnyK) : Prop :=
  TotA ⟨false, false⟩ ⟨fun _ _ => true, fun _ => true, true, true, fun _ => true⟩ (Allowed c) any

/-- `execArrayIndex`: in lax mode a non-array `v` is wrapped into `[v]`, which is only iterated -/
theorem execArrayIndex_allowed (c : Ctx) {item : ItemK} (hI : KeepsAllowed c item) (s : St) (subs : List Node)
    (nx : Option Node) (v : Item) (f : Found) (hv : Allowed c v) (hc : Allowed c s.current) (hf : AllAllowed c f) :
    AllAllowed c (execArrayIndex c item s subs nx v f).found :=
  (execArrayIndex_out (env_allowed _ c) hI s subs nx v f (fun h => by cases h) (fun h => by cases h) hv hc hf).allD

/-- `executeKeyValueMethod`: what is appended are `kvObj` triples over members of an `Allowed` object -/
theorem executeKeyValueMethod_allowed (c : Ctx) {item : ItemK} {any : AnyK} (hI : KeepsAllowed c item)
    (hA : KeepsAllowedA c any) (s : St) (n : Node) (nx : Option Node) (v : Item) (f : Found) (unwrap : Bool)
    (hv : Allowed c v) (hc : Allowed c s.current) (hf : AllAllowed c f) :
    AllAllowed c (executeKeyValueMethod c item any s n nx v f unwrap).found :=
  (executeKeyValueMethod_out (env_allowed _ c) hI hA s n nx v f unwrap (fun h => by cases h) (fun h => by cases h)
    hv hc hf).allD

/-- `executeItemOptUnwrapResult`: the elements of an `Allowed` array are `Allowed` -/
theorem optUnwrapResult_allowed (c : Ctx) {item : ItemK} (hI : KeepsAllowed c item) (s : St) (n : Node) (v : Item)
    (unwrap : Bool) (l : List Item) (hv : Allowed c v) (hc : Allowed c s.current) (hl : ∀ x ∈ l, Allowed c x) :
    AllAllowed c (optUnwrapResult c item s n v unwrap l).found :=
  (optUnwrapResult_out (env_allowed _ c) hI s n v unwrap l (fun h => by cases h) hv hc hl).allD

/-! ## the entry points -/

open Api in
theorem execute_allowed (fuel : Nat) (a : AST) (doc : Item) (o : Opts) :
    AllAllowed (mkCtx a doc o) (execute fuel a doc o).found := by
  have G : Cfg := ⟨fun _ _ => true, fun _ => true, true, true, fun _ => true⟩
  have hroot : Allowed (mkCtx a doc o) doc := (env_allowed G (mkCtx a doc o)).root
  exact (query_out (env_allowed G (mkCtx a doc o)) fuel (initSt a doc o) a.root doc (some [])
    (fun h => by cases h) hroot hroot AllD.nil).allD

open Api in
/-- every item returned by `Query` is `Allowed` -/
theorem query_allowed (fuel : Nat) (a : AST) (doc : Item) (o : Opts) (xs : List Item)
    (h : queryWith fuel a doc o = .items xs) : ∀ x ∈ xs, Allowed (mkCtx a doc o) x := by
  have hall := execute_allowed fuel a doc o
  unfold queryWith guarded at h
  dsimp only at h
  split at h
  · cases h
  · split at h
    · cases h
    · split at h
      · cases h
      · simp at h; subst h; exact hall.getD

open Api in
/-- the item returned by `First` is `Allowed` -/
theorem first_allowed (fuel : Nat) (a : AST) (doc : Item) (o : Opts) (x : Item)
    (h : firstWith fuel a doc o = .first (some x)) : Allowed (mkCtx a doc o) x := by
  have hall := execute_allowed fuel a doc o
  unfold firstWith guarded at h
  dsimp only at h
  split at h
  · cases h
  · split at h
    · cases h
    · split at h
      · cases h
      · simp at h
        exact hall.getD x (List.mem_of_mem_head? h)

/-- an `Allowed` container is a sub-value of an input or a `keyvalue()` triple over an `Allowed` value -/
theorem container_provenance {c : Ctx} {x : Item} (h : Allowed c x) (hc : x.isContainer = true) :
    SubOf (sources c) x ∨ ∃ id k v, x = kvObj id (k, v) ∧ Allowed c v := by
  cases h with
  | scalar hs => cases x <;> simp [isScalar, Item.isContainer] at hs hc
  | sub hs => exact Or.inl hs
  | kv hv => exact Or.inr ⟨_, _, _, rfl, hv⟩

/-- an `Allowed` array is a sub-value of an input: the executor never returns an array it built -/
theorem returned_array_is_input {c : Ctx} {xs : List Item} (h : Allowed c (.arr xs)) :
    SubOf (sources c) (.arr xs) := by
  rcases container_provenance h rfl with h | ⟨_, _, _, h, _⟩
  · exact h
  · simp [kvObj] at h

end Prov
end Exec
end Sqljson
