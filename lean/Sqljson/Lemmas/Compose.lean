import Sqljson.Lemmas.ApiGood
/-!
# Composition of path chains (property C09, compositional part)

`append p s` links the chain `s` after the last node of the `next` chain of `p` ("`P S`").
This file proves that the executor evaluates `P S` by handing every item that `P` selects, in order,
to `S`.  The property-facing statements are in `Props/C09b.lean`.

1. `append`, the syntactic classes `Indep fl` (which context-dependent constructs a node mentions free),
   `NoAny` (no `.**` step in the top-level chain), and `Shift` (a change of state fields / result list).
2. `…_bud`, `bud_all`: a context that is never done stays never done (`budget = none` is preserved).
3. `…_frame`, `frame_all`: the **frame simulation** – a functional simulation in the style of `SilentSim.lean`:
       `f' (g.st s) … (g.fd found) = g.res (f s … found)`
   for every executor function `f` (and `f'` = the same function over the context with `$` overridden):
   a run does not depend on the sticky flags (for every node), on `@`, `last`'s array size, the keyvalue
   base object and id counter and `$` (for nodes within the corresponding `Indep` class), nor on the items
   already in the result list.
4. `…_comp`, `comp_all`: the **composition simulation** – for every executor function, the function called
   with `next := appendO k S` (from the state `mix t sB`, collecting into `l`) is related (`Comp`) to the
   function called with `next := k` (from `sB`, collecting into `m`): `CompOk` = all runs of `S` on the new
   items of the second run succeeded (`FeedOk`, a fold over those items threading state `t` and list `l`) and
   the first run ended as the second, with the fed list; `CompFail` = a run of `S` failed and the first run
   returned that failure while the second went on.  Loops: `fold_comp` with the accumulator relation
   `Running / Both / Failing`; `xItem`/`xAny` by induction on the fuel.  The runs of `S` are recorded with
   *some* fuel `≤ Φ` (`KR`); `Props/C09b.lean` makes the fuel uniform with the fuel-monotonicity theorem.
   `compose_rel` is the statement for `xItem`; `transfer` moves a run of a closed `S` to another root,
   current item, base object, result list (an instance of `frame_all`).

5. `…_compP`, `compP_all`, `compose_relP`: the same simulation with the composed run in **probe mode**
   (`found = nil`, stop at the first hit) against the run of the prefix in collect mode: `CompOkP` = every run of
   `S` returned `notFound` (`FeedNF`) and the composed run ended as the run of the prefix, without a hit;
   `CompStopP` = a run of `S` hit or failed and the composed run returned that.

Side conditions, and why: see the header of `Props/C09b.lean`.
Everything lives in `Sqljson.Exec.Compose`.
-/

namespace Sqljson
namespace Exec
namespace Compose

/-! ## 1. appending a chain -/

mutual
  /-- link `s` after the last node of the `next` chain of the first argument
      (only the top-level chain: operands, subscripts and filter conditions are left alone) -/
  def append : Node → Node → Node
    | .const k nx, s => .const k (some (appendO nx s))
    | .method m nx, s => .method m (some (appendO nx s))
    | .str t nx, s => .str t (some (appendO nx s))
    | .var t nx, s => .var t (some (appendO nx s))
    | .key t nx, s => .key t (some (appendO nx s))
    | .numeric x nx, s => .numeric x (some (appendO nx s))
    | .integer i nx, s => .integer i (some (appendO nx s))
    | .any a b nx, s => .any a b (some (appendO nx s))
    | .binary op l r nx, s => .binary op l r (some (appendO nx s))
    | .unary op x nx, s => .unary op x (some (appendO nx s))
    | .regex x p f nx, s => .regex x p f (some (appendO nx s))
    | .arrayIndex subs nx, s => .arrayIndex subs (some (appendO nx s))
  /-- `appendO none s = s`: the chain that continues an already finished chain is `s` itself -/
  def appendO : Option Node → Node → Node
    | none, s => s
    | some n, s => append n s
end

@[simp] theorem appendO_none (s : Node) : appendO none s = s := by simp [appendO]
@[simp] theorem appendO_some (n s : Node) : appendO (some n) s = append n s := by simp [appendO]

/-- `append` only replaces the `next` pointer -/
theorem append_eq_setNext (p s : Node) : append p s = p.setNext (some (appendO p.next s)) := by
  cases p <;> simp [append, Node.setNext, Node.next]

theorem append_next (p s : Node) : (append p s).next = some (appendO p.next s) := by
  cases p <;> simp [append, Node.next]

/-- which context-dependent constructs a node may contain *free* (i.e. not bound inside the node) -/
structure Flags where
  /-- `$` allowed -/
  root : Bool
  /-- `@` allowed outside a filter condition -/
  cur : Bool
  /-- `last` allowed outside a subscript -/
  lst : Bool
  /-- `.keyvalue()` allowed -/
  kv : Bool

mutual
  /-- the node stays within what `fl` allows.  A filter binds `@` for its condition; a subscript
      binds `last` for its index expressions *and for the rest of the chain* (the executor keeps the
      innermost array size set while it evaluates the next nodes). -/
  def Indep (fl : Flags) : Node → Bool
    | .const k nx =>
      (match k with | .root => fl.root | .current => fl.cur | .last => fl.lst | _ => true) && IndepO fl nx
    | .method m nx => (match m with | .keyvalue => fl.kv | _ => true) && IndepO fl nx
    | .str _ nx | .var _ nx | .key _ nx | .numeric _ nx | .integer _ nx | .any _ _ nx => IndepO fl nx
    | .binary _ l r nx => IndepO fl l && IndepO fl r && IndepO fl nx
    | .unary op x nx =>
      (match op with | .filter => IndepO { fl with cur := true } x | _ => IndepO fl x) && IndepO fl nx
    | .regex x _ _ nx => Indep fl x && IndepO fl nx
    | .arrayIndex subs nx => IndepL { fl with lst := true } subs && IndepO { fl with lst := true } nx
  def IndepO (fl : Flags) : Option Node → Bool
    | none => true
    | some n => Indep fl n
  def IndepL (fl : Flags) : List Node → Bool
    | [] => true
    | n :: ns => Indep fl n && IndepL fl ns
end

@[simp] theorem indepO_none (fl : Flags) : IndepO fl none = true := by simp [IndepO]
@[simp] theorem indepO_some (fl : Flags) (n : Node) : IndepO fl (some n) = Indep fl n := by simp [IndepO]

theorem indepL_mem {fl : Flags} {ns : List Node} {n : Node} (h : IndepL fl ns = true) (hn : n ∈ ns) :
    Indep fl n = true := by
  induction ns with
  | nil => simp at hn
  | cons m ms ih =>
    simp only [IndepL, Bool.and_eq_true] at h
    rcases List.mem_cons.mp hn with rfl | h'
    · exact h.1
    · exact ih h.2 h'

def Flags.top : Flags := ⟨true, true, true, true⟩

def Flags.le (a b : Flags) : Prop :=
  (a.root = true → b.root = true) ∧ (a.cur = true → b.cur = true) ∧ (a.lst = true → b.lst = true) ∧
  (a.kv = true → b.kv = true)

mutual
  /-- allowing more keeps a node within the class -/
  theorem indep_mono : ∀ (n : Node) (a b : Flags), Flags.le a b → Indep a n = true → Indep b n = true
    | .const k nx, a, b, hab, h => by
      have ih := indepO_mono nx a b hab
      cases k <;> simp_all [Indep, Flags.le]
    | .method m nx, a, b, hab, h => by
      have ih := indepO_mono nx a b hab
      cases m <;> simp_all [Indep, Flags.le]
    | .str _ nx, a, b, hab, h | .var _ nx, a, b, hab, h | .key _ nx, a, b, hab, h
    | .numeric _ nx, a, b, hab, h | .integer _ nx, a, b, hab, h | .any _ _ nx, a, b, hab, h => by
      have ih := indepO_mono nx a b hab
      simp_all [Indep]
    | .binary _ l r nx, a, b, hab, h => by
      have ih := indepO_mono nx a b hab
      have ih1 := indepO_mono l a b hab
      have ih2 := indepO_mono r a b hab
      simp_all [Indep]
    | .unary op x nx, a, b, hab, h => by
      have ih := indepO_mono nx a b hab
      have ih1 := indepO_mono x a b hab
      have ih2 := indepO_mono x { a with cur := true } { b with cur := true } (by simp_all [Flags.le])
      cases op <;> simp_all [Indep]
    | .regex x _ _ nx, a, b, hab, h => by
      have ih := indepO_mono nx a b hab
      have ih1 := indep_mono x a b hab
      simp_all [Indep]
    | .arrayIndex subs nx, a, b, hab, h => by
      have ih := indepO_mono nx { a with lst := true } { b with lst := true } (by simp_all [Flags.le])
      have ih1 := indepL_mono subs { a with lst := true } { b with lst := true } (by simp_all [Flags.le])
      simp_all [Indep]
  theorem indepO_mono : ∀ (n : Option Node) (a b : Flags), Flags.le a b → IndepO a n = true → IndepO b n = true
    | none, _, _, _, _ => by simp
    | some n, a, b, hab, h => by
      have ih := indep_mono n a b hab
      simp_all
  theorem indepL_mono : ∀ (n : List Node) (a b : Flags), Flags.le a b → IndepL a n = true → IndepL b n = true
    | [], _, _, _, _ => by simp [IndepL]
    | n :: ns, a, b, hab, h => by
      have ih := indep_mono n a b hab
      have ih1 := indepL_mono ns a b hab
      simp_all [IndepL]
end

mutual
  /-- every node is within the class that allows everything -/
  theorem indep_top : ∀ n : Node, Indep Flags.top n = true
    | .const k nx => by have h := indepO_top nx; cases k <;> simp_all [Indep, Flags.top]
    | .method m nx => by have h := indepO_top nx; cases m <;> simp_all [Indep, Flags.top]
    | .str _ nx | .var _ nx | .key _ nx | .numeric _ nx | .integer _ nx | .any _ _ nx => by
      simp [Indep, indepO_top nx]
    | .binary _ l r nx => by simp [Indep, indepO_top nx, indepO_top l, indepO_top r]
    | .unary op x nx => by
      have h1 := indepO_top x
      have h2 := indepO_top nx
      cases op <;> simp_all [Indep, Flags.top]
    | .regex x _ _ nx => by simp [Indep, indepO_top nx, indep_top x]
    | .arrayIndex subs nx => by
      have h1 := indepL_top subs
      have h2 := indepO_top nx
      simp_all [Indep, Flags.top]
  theorem indepO_top : ∀ n : Option Node, IndepO Flags.top n = true
    | none => by simp
    | some n => by simp [indep_top n]
  theorem indepL_top : ∀ n : List Node, IndepL Flags.top n = true
    | [] => by simp [IndepL]
    | n :: ns => by simp [IndepL, indep_top n, indepL_top ns]
end

mutual
  /-- no `.**` step in the top-level chain -/
  def NoAny : Node → Bool
    | .any _ _ _ => false
    | .const _ nx | .method _ nx | .str _ nx | .var _ nx | .key _ nx | .numeric _ nx | .integer _ nx
    | .binary _ _ _ nx | .unary _ _ nx | .regex _ _ _ nx | .arrayIndex _ nx => NoAnyO nx
  def NoAnyO : Option Node → Bool
    | none => true
    | some n => NoAny n
end

@[simp] theorem noAnyO_none : NoAnyO none = true := by simp [NoAnyO]
@[simp] theorem noAnyO_some (n : Node) : NoAnyO (some n) = NoAny n := by simp [NoAnyO]

/-! ## shifts of the executor state -/

/-- a change of the fields of the state (and of the result list) that a run may be unable to observe:
    new values for `@`, the innermost array size, the keyvalue base object and id counter; sticky flags
    that are already set; items already in the result list -/
structure Shift where
  cur : Option Item := none
  inn : Option Int := none
  base : Option (Nat × Int) := none
  gen : Option Int := none
  tp : Bool := false
  tf : Bool := false
  tc : Bool := false
  pre : List Item := []

namespace Shift

def st (g : Shift) (s : St) : St :=
  { current := g.cur.getD s.current
    baseAddr := (g.base.map Prod.fst).getD s.baseAddr
    baseId := (g.base.map Prod.snd).getD s.baseId
    lastGenId := g.gen.getD s.lastGenId
    innermost := g.inn.getD s.innermost
    ignoreSE := s.ignoreSE
    verbose := s.verbose
    budget := s.budget
    sawCancel := s.sawCancel || g.tc
    panicked := s.panicked || g.tp
    oof := s.oof || g.tf }

def fd (g : Shift) (f : Found) : Found := f.map (g.pre ++ ·)

/-- state shifted, result list untouched (operand evaluations start their own list) -/
def res0 (g : Shift) (r : Res) : Res := ⟨g.st r.st, r.found, r.status, r.err⟩
def res (g : Shift) (r : Res) : Res := ⟨g.st r.st, g.fd r.found, r.status, r.err⟩
def pres (g : Shift) (p : PRes) : PRes := ⟨g.st p.st, p.out, p.err⟩

def noCur (g : Shift) : Shift := { g with cur := none }
def noInn (g : Shift) : Shift := { g with inn := none }
def noBase (g : Shift) : Shift := { g with base := none }
def noPre (g : Shift) : Shift := { g with pre := [] }

/-- what a node may mention so that the shift `g` (and the root override `ρ`) cannot be observed -/
def flags (ρ : Option Item) (g : Shift) : Flags :=
  ⟨ρ.isNone, g.cur.isNone, g.inn.isNone, g.base.isNone && g.gen.isNone⟩

@[simp] theorem st_current (g : Shift) (s : St) : (g.st s).current = g.cur.getD s.current := rfl
@[simp] theorem st_baseAddr (g : Shift) (s : St) : (g.st s).baseAddr = (g.base.map Prod.fst).getD s.baseAddr := rfl
@[simp] theorem st_baseId (g : Shift) (s : St) : (g.st s).baseId = (g.base.map Prod.snd).getD s.baseId := rfl
@[simp] theorem st_lastGenId (g : Shift) (s : St) : (g.st s).lastGenId = g.gen.getD s.lastGenId := rfl
@[simp] theorem st_innermost (g : Shift) (s : St) : (g.st s).innermost = g.inn.getD s.innermost := rfl
@[simp] theorem st_ignoreSE (g : Shift) (s : St) : (g.st s).ignoreSE = s.ignoreSE := rfl
@[simp] theorem st_verbose (g : Shift) (s : St) : (g.st s).verbose = s.verbose := rfl
@[simp] theorem st_budget (g : Shift) (s : St) : (g.st s).budget = s.budget := rfl
@[simp] theorem st_sawCancel (g : Shift) (s : St) : (g.st s).sawCancel = (s.sawCancel || g.tc) := rfl
@[simp] theorem st_panicked (g : Shift) (s : St) : (g.st s).panicked = (s.panicked || g.tp) := rfl
@[simp] theorem st_oof (g : Shift) (s : St) : (g.st s).oof = (s.oof || g.tf) := rfl

@[simp] theorem res_st (g : Shift) (r : Res) : (g.res r).st = g.st r.st := rfl
@[simp] theorem res_found (g : Shift) (r : Res) : (g.res r).found = g.fd r.found := rfl
@[simp] theorem res_status (g : Shift) (r : Res) : (g.res r).status = r.status := rfl
@[simp] theorem res_err (g : Shift) (r : Res) : (g.res r).err = r.err := rfl
@[simp] theorem res_mk (g : Shift) (s : St) (f : Found) (st : Status) (e : Option Err) :
    g.res ⟨s, f, st, e⟩ = ⟨g.st s, g.fd f, st, e⟩ := rfl
@[simp] theorem res0_st (g : Shift) (r : Res) : (g.res0 r).st = g.st r.st := rfl
@[simp] theorem res0_found (g : Shift) (r : Res) : (g.res0 r).found = r.found := rfl
@[simp] theorem res0_status (g : Shift) (r : Res) : (g.res0 r).status = r.status := rfl
@[simp] theorem res0_err (g : Shift) (r : Res) : (g.res0 r).err = r.err := rfl
@[simp] theorem res0_mk (g : Shift) (s : St) (f : Found) (st : Status) (e : Option Err) :
    g.res0 ⟨s, f, st, e⟩ = ⟨g.st s, f, st, e⟩ := rfl
@[simp] theorem pres_st (g : Shift) (p : PRes) : (g.pres p).st = g.st p.st := rfl
@[simp] theorem pres_out (g : Shift) (p : PRes) : (g.pres p).out = p.out := rfl
@[simp] theorem pres_err (g : Shift) (p : PRes) : (g.pres p).err = p.err := rfl
@[simp] theorem pres_mk (g : Shift) (s : St) (p : Pred) (e : Option Err) :
    g.pres ⟨s, p, e⟩ = ⟨g.st s, p, e⟩ := rfl

/-! the result list -/
@[simp] theorem fd_none (g : Shift) : g.fd none = none := rfl
@[simp] theorem fd_some (g : Shift) (l : List Item) : g.fd (some l) = some (g.pre ++ l) := rfl
@[simp] theorem fd_isNone (g : Shift) (f : Found) : (g.fd f).isNone = f.isNone := by cases f <;> rfl
@[simp] theorem fd_isSome (g : Shift) (f : Found) : (g.fd f).isSome = f.isSome := by cases f <;> rfl
@[simp] theorem fd_append (g : Shift) (f : Found) (v : Item) : (g.fd f).append v = g.fd (f.append v) := by
  cases f <;> simp [fd, Found.append]
theorem fd_length (g : Shift) (f : Found) (hf : f.isSome = true) :
    ((g.fd f).getD []).length = g.pre.length + (f.getD []).length := by
  cases f <;> simp_all [fd]
@[simp] theorem noPre_fd (g : Shift) (f : Found) : g.noPre.fd f = f := by cases f <;> simp [fd, noPre]
@[simp] theorem noPre_st (g : Shift) (s : St) : g.noPre.st s = g.st s := rfl
theorem noPre_res (g : Shift) (r : Res) : g.noPre.res r = g.res0 r := by
  simp [res, res0]

/-! setting a field and shifting commute (up to dropping the part of the shift that is overwritten) -/
@[simp] theorem st_setBase (g : Shift) (s : St) (a : Nat) (i : Int) :
    ({ g.st s with baseAddr := a, baseId := i } : St) = g.noBase.st { s with baseAddr := a, baseId := i } := rfl
@[simp] theorem st_setIgn (g : Shift) (s : St) (b : Bool) :
    ({ g.st s with ignoreSE := b } : St) = g.st { s with ignoreSE := b } := rfl
@[simp] theorem st_setCurrent (g : Shift) (s : St) (v : Item) :
    ({ g.st s with current := v } : St) = g.noCur.st { s with current := v } := rfl
@[simp] theorem st_setInn (g : Shift) (s : St) (i : Int) :
    ({ g.st s with innermost := i } : St) = g.noInn.st { s with innermost := i } := rfl
@[simp] theorem st_setPanicked (g : Shift) (s : St) :
    ({ g.st s with panicked := true } : St) = g.st { s with panicked := true } := rfl
@[simp] theorem st_setOof (g : Shift) (s : St) :
    ({ g.st s with oof := true } : St) = g.st { s with oof := true } := rfl
@[simp] theorem st_setSawCancel (g : Shift) (s : St) :
    ({ g.st s with sawCancel := true } : St) = g.st { s with sawCancel := true } := rfl
@[simp] theorem st_setBudget (g : Shift) (s : St) (b : Option Nat) :
    ({ g.st s with budget := b } : St) = g.st { s with budget := b } := rfl
@[simp] theorem st_setVerbose (g : Shift) (s : St) (b : Bool) :
    ({ g.st s with verbose := b } : St) = g.st { s with verbose := b } := rfl
theorem st_orPanicked (g : Shift) (s : St) (pk : Bool) :
    ({ g.st s with panicked := (s.panicked || g.tp) || pk } : St) = g.st { s with panicked := s.panicked || pk } := by
  cases g; cases s; simp [st, Bool.or_right_comm]

/-! restoring a field after a call made under a reduced shift -/
theorem restoreBase (g : Shift) (s r : St) :
    ({ g.noBase.st r with baseAddr := (g.st s).baseAddr, baseId := (g.st s).baseId } : St)
      = g.st { r with baseAddr := s.baseAddr, baseId := s.baseId } := by
  obtain ⟨cur, inn, base, gen, tp, tf, tc, pre⟩ := g
  cases base <;> rfl

theorem restoreCur (g : Shift) (s r : St) :
    ({ g.noCur.st r with current := (g.st s).current } : St) = g.st { r with current := s.current } := by
  obtain ⟨cur, inn, base, gen, tp, tf, tc, pre⟩ := g
  cases cur <;> rfl

theorem restoreInn (g : Shift) (s r : St) :
    ({ g.noInn.st r with innermost := (g.st s).innermost } : St) = g.st { r with innermost := s.innermost } := by
  obtain ⟨cur, inn, base, gen, tp, tf, tc, pre⟩ := g
  cases inn <;> rfl

@[simp] theorem restoreIgn (g : Shift) (s r : St) :
    ({ g.st r with ignoreSE := (g.st s).ignoreSE } : St) = g.st { r with ignoreSE := s.ignoreSE } := rfl

@[simp] theorem restoreVerbose (g : Shift) (s r : St) :
    ({ g.st r with verbose := (g.st s).verbose } : St) = g.st { r with verbose := s.verbose } := rfl

@[simp] theorem flags_noCur (ρ : Option Item) (g : Shift) : g.noCur.flags ρ = { g.flags ρ with cur := true } := rfl
@[simp] theorem flags_noInn (ρ : Option Item) (g : Shift) : g.noInn.flags ρ = { g.flags ρ with lst := true } := rfl
@[simp] theorem flags_noPre (ρ : Option Item) (g : Shift) : g.noPre.flags ρ = g.flags ρ := rfl

/-- dropping the base-object part of the shift can only allow more -/
theorem flags_noBase_le (ρ : Option Item) (g : Shift) : Flags.le (g.flags ρ) (g.noBase.flags ρ) := by
  simp [Flags.le, flags, noBase]

end Shift

/-- the context with `$` overridden -/
def setRoot (ρ : Option Item) (c : Ctx) : Ctx := { c with root := ρ.getD c.root }

@[simp] theorem setRoot_vars (ρ : Option Item) (c : Ctx) : (setRoot ρ c).vars = c.vars := rfl
@[simp] theorem setRoot_lax (ρ : Option Item) (c : Ctx) : (setRoot ρ c).lax = c.lax := rfl
@[simp] theorem setRoot_useTZ (ρ : Option Item) (c : Ctx) : (setRoot ρ c).useTZ = c.useTZ := rfl
@[simp] theorem setRoot_env (ρ : Option Item) (c : Ctx) : (setRoot ρ c).env = c.env := rfl
@[simp] theorem setRoot_regexMatch (ρ : Option Item) (c : Ctx) : (setRoot ρ c).regexMatch = c.regexMatch := rfl
@[simp] theorem setRoot_addrOf (ρ : Option Item) (c : Ctx) : (setRoot ρ c).addrOf = c.addrOf := rfl
@[simp] theorem setRoot_none (c : Ctx) : setRoot none c = c := rfl

/-! ## 2. a context that is never done stays never done -/

abbrev BudI (item : ItemK) : Prop :=
  ∀ s n v f u, s.budget = none → (item s n v f u).st.budget = none
abbrev BudB (bool : BoolK) : Prop :=
  ∀ s n v b, s.budget = none → (bool s n v b).st.budget = none
abbrev BudA (any : AnyK) : Prop :=
  ∀ s n vs f l a b i u, s.budget = none → (any s n vs f l a b i u).st.budget = none

theorem bud_returnVerboseError_st (s : St) (f : Found) : (returnVerboseError s f).st = s := by
  unfold returnVerboseError; split <;> rfl

theorem bud_returnError_st (s : St) (f : Found) (e : Err) : (returnError s f e).st = s := by
  unfold returnError; split <;> rfl

theorem bud_structural_st (s : St) (f : Found) : (structural s f).st = s := by
  unfold structural; split
  · exact bud_returnVerboseError_st s f
  · rfl

theorem executeItem_bud (c : Ctx) {item : ItemK} (hI : BudI item) (s : St) (n : Node) (v : Item) (f : Found)
    (h : s.budget = none) : (executeItem c item s n v f).st.budget = none := hI _ _ _ _ _ h

theorem executeNextItem_bud (c : Ctx) {item : ItemK} (hI : BudI item) (s : St) (nx : Option Node)
    (v : Item) (f : Found) (h : s.budget = none) :
    (executeNextItem c item s nx v f).st.budget = none := by
  unfold executeNextItem executeItem
  repeat' split
  all_goals simp_all

theorem withBaseObject_bud (s : St) (a : Nat) (i : Int) (k : St → Res)
    (hk : ∀ s', s'.budget = none → (k s').st.budget = none) (h : s.budget = none) :
    (withBaseObject s a i k).st.budget = none := by
  unfold withBaseObject
  exact hk _ h

theorem execLiteral_bud (c : Ctx) {item : ItemK} (hI : BudI item) (s : St) (nx : Option Node)
    (v : Item) (f : Found) (h : s.budget = none) :
    (execLiteral c item s nx v f).st.budget = none := by
  unfold execLiteral
  repeat' split
  all_goals simp_all [executeNextItem_bud c hI]

macro "bud_tac" "[" ts:Lean.Parser.Tactic.simpLemma,* "]" : tactic =>
  `(tactic| ((try dsimp only) <;> (repeat' (split <;> try dsimp only)) <;>
    simp_all [bud_returnVerboseError_st, bud_returnError_st, bud_structural_st, $ts,*]))

theorem execVariable_bud (c : Ctx) {item : ItemK} (hI : BudI item) (s : St) (name : List Char)
    (nx : Option Node) (f : Found) (h : s.budget = none) :
    (execVariable c item s name nx f).st.budget = none := by
  unfold execVariable
  split
  · exact withBaseObject_bud _ _ _ _ (fun s' h' => executeNextItem_bud c hI _ _ _ _ h') h
  · exact h

theorem unwrapTargetArray_bud {any : AnyK} (hA : BudA any) (s : St) (n : Node) (xs : List Item) (f : Found)
    (h : s.budget = none) : (unwrapTargetArray any s n xs f).st.budget = none := hA _ _ _ _ _ _ _ _ _ h

theorem execKeyNode_bud (c : Ctx) {item : ItemK} {any : AnyK} (hI : BudI item) (hA : BudA any) (s : St)
    (n : Node) (key : List Char) (nx : Option Node) (v : Item) (f : Found) (unwrap : Bool)
    (h : s.budget = none) : (execKeyNode c item any s n key nx v f unwrap).st.budget = none := by
  unfold execKeyNode
  bud_tac [executeNextItem_bud c hI]

theorem execAnyKey_bud (c : Ctx) {any : AnyK} (hA : BudA any) (s : St)
    (n : Node) (nx : Option Node) (v : Item) (f : Found) (unwrap : Bool)
    (h : s.budget = none) : (execAnyKey c any s n nx v f unwrap).st.budget = none := by
  unfold execAnyKey
  bud_tac [unwrapTargetArray_bud hA]

theorem execAnyArray_bud (c : Ctx) {item : ItemK} {any : AnyK} (hI : BudI item) (hA : BudA any) (s : St)
    (nx : Option Node) (v : Item) (f : Found)
    (h : s.budget = none) : (execAnyArray c item any s nx v f).st.budget = none := by
  unfold execAnyArray
  bud_tac [executeNextItem_bud c hI]

theorem execLastConst_bud (c : Ctx) {item : ItemK} (hI : BudI item) (s : St)
    (nx : Option Node) (f : Found)
    (h : s.budget = none) : (execLastConst c item s nx f).st.budget = none := by
  unfold execLastConst
  bud_tac [executeNextItem_bud c hI]

theorem execConstNode_bud (c : Ctx) {item : ItemK} {any : AnyK} (hI : BudI item) (hA : BudA any) (s : St)
    (n : Node) (k : Const) (nx : Option Node) (v : Item) (f : Found) (unwrap : Bool)
    (h : s.budget = none) : (execConstNode c item any s n k nx v f unwrap).st.budget = none := by
  unfold execConstNode
  cases k <;> simp only
  · exact withBaseObject_bud _ _ _ _ (fun s' h' => executeNextItem_bud c hI _ _ _ _ h') h
  · exact executeNextItem_bud c hI _ _ _ _ h
  · exact execLastConst_bud c hI _ _ _ h
  · exact execAnyArray_bud c hI hA _ _ _ _ h
  · exact execAnyKey_bud c hA _ _ _ _ _ _ h
  · exact execLiteral_bud c hI _ _ _ _ h
  · exact execLiteral_bud c hI _ _ _ _ h
  · exact execLiteral_bud c hI _ _ _ _ h

theorem optUnwrapResult_bud (c : Ctx) {item : ItemK} (hI : BudI item) (s : St) (n : Node) (v : Item)
    (unwrap : Bool) (l : List Item) (h : s.budget = none) :
    (optUnwrapResult c item s n v unwrap l).st.budget = none := by
  unfold optUnwrapResult executeItem
  bud_tac []

theorem optUnwrapResultSilent_bud (c : Ctx) {item : ItemK} (hI : BudI item) (s : St) (n : Node) (v : Item)
    (unwrap : Bool) (f : Found) (h : s.budget = none) :
    (optUnwrapResultSilent c item s n v unwrap f).st.budget = none := by
  unfold optUnwrapResultSilent executeItem
  bud_tac [optUnwrapResult_bud c hI]

theorem predicateTail_bud (c : Ctx) (s : St) (cb : Item → Item → CbOut) (ls rs : List Item) :
    (predicateTail c s cb ls rs).st.budget = s.budget := by
  unfold predicateTail
  bud_tac []

theorem executePredicate_bud (c : Ctx) {item : ItemK} (hI : BudI item) (s : St) (left : Node)
    (right : Option Node) (v : Item) (unwrapRight : Bool) (cb : Item → Item → CbOut)
    (h : s.budget = none) :
    (executePredicate c item s left right v unwrapRight cb).st.budget = none := by
  unfold executePredicate
  bud_tac [predicateTail_bud, optUnwrapResultSilent_bud c hI]

theorem executeBinaryBoolItem_bud (c : Ctx) {item : ItemK} {bool : BoolK} (hI : BudI item) (hB : BudB bool)
    (s : St) (op : BinOp) (l r : Option Node) (v : Item) (h : s.budget = none) :
    (executeBinaryBoolItem c item bool s op l r v).st.budget = none := by
  unfold executeBinaryBoolItem
  bud_tac [executePredicate_bud c hI]

theorem executeUnaryBoolItem_bud (c : Ctx) {item : ItemK} {bool : BoolK} (hI : BudI item) (hB : BudB bool)
    (s : St) (op : UnOp) (x : Option Node) (v : Item) (h : s.budget = none) :
    (executeUnaryBoolItem c item bool s op x v).st.budget = none := by
  unfold executeUnaryBoolItem
  bud_tac [optUnwrapResultSilent_bud c hI]

theorem executeBoolItem_bud (c : Ctx) {item : ItemK} {bool : BoolK} (hI : BudI item) (hB : BudB bool)
    (s : St) (n : Node) (v : Item) (chn : Bool) (h : s.budget = none) :
    (executeBoolItem c item bool s n v chn).st.budget = none := by
  unfold executeBoolItem
  bud_tac [executeBinaryBoolItem_bud c hI hB, executeUnaryBoolItem_bud c hI hB, executePredicate_bud c hI]

theorem appendBoolResult_bud (c : Ctx) {item : ItemK} (hI : BudI item) (nx : Option Node)
    (f : Found) (p : PRes) (h : p.st.budget = none) :
    (appendBoolResult c item nx f p).st.budget = none := by
  unfold appendBoolResult
  bud_tac [executeNextItem_bud c hI]

theorem executeNestedBoolItem_bud {bool : BoolK} (hB : BudB bool) (s : St) (n : Node) (v : Item)
    (h : s.budget = none) : (executeNestedBoolItem bool s n v).st.budget = none := by
  unfold executeNestedBoolItem
  exact hB _ _ _ _ h

/-! ### loop accumulators: the budget of the state that is going to be returned -/

def uacc_bud (a : UAcc) : Option Nat := match a.ret with | some r => r.st.budget | none => a.st.budget
def kvacc_bud (a : KVAcc) : Option Nat := match a.ret with | some r => r.st.budget | none => a.st.budget
def aacc_bud (a : AAcc) : Option Nat := match a.ret with | some r => r.st.budget | none => a.st.budget
def iacc_bud (a : IAcc) : Option Nat := match a.ret with | some r => r.st.budget | none => a.st.budget

theorem unaryStep_bud (c : Ctx) {item : ItemK} (hI : BudI item) (cb : Num.UCallback) (nx : Option Node)
    (a : UAcc) (v : Item) (h : uacc_bud a = none) : uacc_bud (unaryStep c item cb nx a v) = none := by
  unfold unaryStep
  split
  · exact h
  · rename_i hnone
    have hs : a.st.budget = none := by simpa [uacc_bud, hnone] using h
    have hn := executeNextItem_bud c hI a.st nx
    bud_tac [uacc_bud]

theorem execUnaryMathExpr_bud (c : Ctx) {item : ItemK} (hI : BudI item) (s : St) (operand nx : Option Node)
    (v : Item) (cb : Num.UCallback) (f : Found) (h : s.budget = none) :
    (execUnaryMathExpr c item s operand nx v cb f).st.budget = none := by
  unfold execUnaryMathExpr
  split
  · exact h
  · rename_i x
    have hr := optUnwrapResult_bud c hI s x v true [] h
    try dsimp only
    split
    · exact hr
    · have hinv : uacc_bud (((optUnwrapResult c item s x v true []).found.getD []).foldl
          (unaryStep c item cb nx) ⟨(optUnwrapResult c item s x v true []).st, f, .notFound, none⟩) = none := by
        refine foldl_inv (fun a : UAcc => uacc_bud a = none) _ _ _ ?_ (fun a v h => unaryStep_bud c hI cb nx a v h)
        simpa [uacc_bud] using hr
      unfold uacc_bud at hinv
      split <;> simp_all

theorem execBinaryMathExpr_bud (c : Ctx) {item : ItemK} (hI : BudI item) (s : St) (op : BinOp)
    (l r nx : Option Node) (v : Item) (f : Found) (h : s.budget = none) :
    (execBinaryMathExpr c item s op l r nx v f).st.budget = none := by
  unfold execBinaryMathExpr
  split
  · rename_i ln rn
    have h1 := optUnwrapResult_bud c hI s ln v true [] h
    have h2 := optUnwrapResult_bud c hI (optUnwrapResult c item s ln v true []).st rn v true [] h1
    have h3 := executeNextItem_bud c hI (optUnwrapResult c item (optUnwrapResult c item s ln v true []).st rn v true []).st nx
    bud_tac []
  · exact h

theorem execMethodSize_bud (c : Ctx) {item : ItemK} (hI : BudI item) (s : St) (nx : Option Node)
    (v : Item) (f : Found) (h : s.budget = none) : (execMethodSize c item s nx v f).st.budget = none := by
  unfold execMethodSize
  bud_tac [executeNextItem_bud c hI]

theorem execConvMethod_bud (c : Ctx) {item : ItemK} {any : AnyK} (hI : BudI item) (hA : BudA any) (s : St)
    (n : Node) (nx : Option Node) (v : Item) (f : Found) (unwrap : Bool) (conv : Item → Conv)
    (h : s.budget = none) : (execConvMethod c item any s n nx v f unwrap conv).st.budget = none := by
  unfold execConvMethod
  bud_tac [executeNextItem_bud c hI, unwrapTargetArray_bud hA]

theorem executeDateTimeMethod_bud (c : Ctx) {item : ItemK} (hI : BudI item) (s : St) (op : UnOp)
    (arg nx : Option Node) (v : Item) (f : Found) (h : s.budget = none) :
    (executeDateTimeMethod c item s op arg nx v f).st.budget = none := by
  unfold executeDateTimeMethod
  bud_tac [executeNextItem_bud c hI]

theorem kvStep_bud (c : Ctx) {item : ItemK} (hI : BudI item) (nx : Option Node) (id : Int)
    (a : KVAcc) (kv : List Char × Item) (h : kvacc_bud a = none) : kvacc_bud (kvStep c item nx id a kv) = none := by
  unfold kvStep
  split
  · exact h
  · rename_i hcond
    have hnone : a.ret = none := by cases hr : a.ret <;> simp_all
    have hs : a.st.budget = none := by simpa [kvacc_bud, hnone] using h
    have hn := executeNextItem_bud c hI (kvEnter c a.st (kvObj id kv)) nx (kvObj id kv) a.found
      (by simpa [kvEnter] using hs)
    bud_tac [kvacc_bud]

theorem executeKeyValueMethod_bud (c : Ctx) {item : ItemK} {any : AnyK} (hI : BudI item) (hA : BudA any)
    (s : St) (n : Node) (nx : Option Node) (v : Item) (f : Found) (unwrap : Bool) (h : s.budget = none) :
    (executeKeyValueMethod c item any s n nx v f unwrap).st.budget = none := by
  unfold executeKeyValueMethod
  split
  · bud_tac [unwrapTargetArray_bud hA]
  · rename_i kvs
    split
    · exact h
    · split
      · exact h
      · try dsimp only
        generalize hid : (_ : Int) + s.baseId * 10000000000 = id
        have hinv : kvacc_bud (kvs.foldl (kvStep c item nx id) ⟨s, f, .ok, none, false⟩) = none := by
          refine foldl_inv (fun a : KVAcc => kvacc_bud a = none) _ _ _ ?_ (fun a kv h => kvStep_bud c hI nx id a kv h)
          simpa [kvacc_bud] using h
        unfold kvacc_bud at hinv
        split <;> simp_all
  · bud_tac []

theorem execMethodNode_bud (c : Ctx) {item : ItemK} {any : AnyK} (hI : BudI item) (hA : BudA any)
    (s : St) (n : Node) (m : Method) (nx : Option Node) (v : Item) (f : Found) (unwrap : Bool)
    (h : s.budget = none) : (execMethodNode c item any s n m nx v f unwrap).st.budget = none := by
  unfold execMethodNode
  cases m <;> simp only
  all_goals first
    | exact execConvMethod_bud c hI hA _ _ _ _ _ _ _ h
    | exact executeNextItem_bud c hI _ _ _ _ h
    | exact execMethodSize_bud c hI _ _ _ _ h
    | exact executeKeyValueMethod_bud c hI hA _ _ _ _ _ _ h

theorem anyVisit_bud {item : ItemK} (hI : BudI item) (node : Option Node) (level first last : Nat)
    (ignore unwrapNext : Bool) (a : AAcc) (v : Item) (hnone : a.ret = none) (h : aacc_bud a = none) :
    aacc_bud (anyVisit item node level first last ignore unwrapNext a v) = none := by
  have hs : a.st.budget = none := by simpa [aacc_bud, hnone] using h
  unfold anyVisit
  split
  · split
    · rename_i n
      have hr := hI (if ignore then { a.st with ignoreSE := true } else a.st) n v a.found unwrapNext
        (by split <;> simpa using hs)
      bud_tac [aacc_bud]
    · bud_tac [aacc_bud]
  · exact h

theorem anyDescend_bud {any : AnyK} (hA : BudA any) (node : Option Node) (level first last : Nat)
    (ignore unwrapNext : Bool) (a : AAcc) (v : Item) (hnone : a.ret = none) (h : aacc_bud a = none) :
    aacc_bud (anyDescend any node level first last ignore unwrapNext a v) = none := by
  have hs : a.st.budget = none := by simpa [aacc_bud, hnone] using h
  unfold anyDescend
  have hr := hA a.st node ((collection v).getD []) a.found (level + 1) first last ignore unwrapNext hs
  bud_tac [aacc_bud]

theorem anyStep_bud {item : ItemK} {any : AnyK} (hI : BudI item) (hA : BudA any) (node : Option Node)
    (level first last : Nat) (ignore unwrapNext : Bool) (a : AAcc) (v : Item) (h : aacc_bud a = none) :
    aacc_bud (anyStep item any node level first last ignore unwrapNext a v) = none := by
  unfold anyStep
  split
  · exact h
  · rename_i hnone
    have h1 := anyVisit_bud hI node level first last ignore unwrapNext a v hnone h
    try dsimp only
    split
    · exact h1
    · rename_i hnone1
      exact anyDescend_bud hA node level first last ignore unwrapNext _ v hnone1 h1

theorem executeAnyItem_bud {item : ItemK} {any : AnyK} (hI : BudI item) (hA : BudA any) (s : St)
    (node : Option Node) (vs : List Item) (f : Found) (level first last : Nat) (ignore unwrapNext : Bool)
    (h : s.budget = none) :
    (executeAnyItem item any s node vs f level first last ignore unwrapNext).st.budget = none := by
  unfold executeAnyItem
  split
  · exact h
  · try dsimp only
    have hinv : aacc_bud (vs.foldl (anyStep item any node level first last ignore unwrapNext)
        ⟨s, f, .notFound, none, none⟩) = none := by
      refine foldl_inv (fun a : AAcc => aacc_bud a = none) _ _ _ ?_
        (fun a v h => anyStep_bud hI hA node level first last ignore unwrapNext a v h)
      simpa [aacc_bud] using h
    unfold aacc_bud at hinv
    split <;> simp_all

theorem anyInto_bud (c : Ctx) {any : AnyK} (hA : BudA any) (s : St) (first last : Nat)
    (nx : Option Node) (v : Item) (f : Found) (h : s.budget = none) :
    (anyInto c any s first last nx v f).st.budget = none := by
  unfold anyInto
  bud_tac []

theorem execAnyNode_bud (c : Ctx) {item : ItemK} {any : AnyK} (hI : BudI item) (hA : BudA any) (s : St)
    (first last : Nat) (nx : Option Node) (v : Item) (f : Found) (h : s.budget = none) :
    (execAnyNode c item any s first last nx v f).st.budget = none := by
  unfold execAnyNode
  have h1 := executeNextItem_bud c hI { s with ignoreSE := true } nx v f h
  have h2 := anyInto_bud c hA (executeNextItem c item { s with ignoreSE := true } nx v f).st first last nx v
    (executeNextItem c item { s with ignoreSE := true } nx v f).found h1
  bud_tac [anyInto_bud c hA]

/-! ### subscripts -/

theorem getArrayIndex_bud (c : Ctx) {item : ItemK} (hI : BudI item) (s : St) (n : Node) (v : Item)
    (h : s.budget = none) : (getArrayIndex c item s n v).1.budget = none := by
  unfold getArrayIndex
  have hr := executeItem_bud c hI s n v (some []) h
  bud_tac []

theorem execSubscript_bud (c : Ctx) {item : ItemK} (hI : BudI item) (s : St) (sub : Node) (v : Item)
    (size : Int) (h : s.budget = none) : (execSubscript c item s sub v size).1.budget = none := by
  unfold execSubscript
  split
  · rename_i l r _
    have h1 := getArrayIndex_bud c hI s l v h
    split
    · rename_i s2 e heq
      rw [heq] at h1; exact h1
    · rename_i s2 from_ heq
      rw [heq] at h1
      cases r with
      | none => simp only; split <;> exact h1
      | some rn =>
        have h2 := getArrayIndex_bud c hI s2 rn v h1
        simp only
        split
        · exact h2
        · split <;> exact h2
  · exact h
  · exact h

theorem indexElemStep_bud (c : Ctx) {item : ItemK} (hI : BudI item) (nx : Option Node)
    (a : IAcc) (v : Item) (h : iacc_bud a = none) : iacc_bud (indexElemStep c item nx a v) = none := by
  unfold indexElemStep
  split
  · exact h
  · rename_i hsome
    have hnone : a.ret = none := by cases hr : a.ret <;> simp_all
    have hs : a.st.budget = none := by simpa [iacc_bud, hnone] using h
    have hr := executeNextItem_bud c hI a.st nx v a.found hs
    bud_tac [iacc_bud]

theorem indexSubStep_bud (c : Ctx) {item : ItemK} (hI : BudI item) (nx : Option Node) (xs : List Item)
    (v : Item) (a : IAcc) (sub : Node) (h : iacc_bud a = none) :
    iacc_bud (indexSubStep c item nx xs v a sub) = none := by
  unfold indexSubStep
  split
  · exact h
  · rename_i hsome
    have hnone : a.ret = none := by cases hr : a.ret <;> simp_all
    have hs : a.st.budget = none := by simpa [iacc_bud, hnone] using h
    have hsub := execSubscript_bud c hI a.st sub v xs.length hs
    split
    · rename_i s1 e heq
      rw [heq] at hsub
      simpa [iacc_bud, bud_returnError_st] using hsub
    · rename_i s1 from_ to_ heq
      rw [heq] at hsub
      refine foldl_inv (fun a : IAcc => iacc_bud a = none) _ _ _ ?_ (fun a' v' h' => indexElemStep_bud c hI nx a' v' h')
      simpa [iacc_bud, hnone] using hsub

theorem execArrayIndex_bud (c : Ctx) {item : ItemK} (hI : BudI item) (s : St) (subs : List Node)
    (nx : Option Node) (v : Item) (f : Found) (h : s.budget = none) :
    (execArrayIndex c item s subs nx v f).st.budget = none := by
  unfold execArrayIndex
  try dsimp only
  split
  · simpa [bud_structural_st] using h
  · rename_i xs _
    have hinv : iacc_bud (subs.foldl (indexSubStep c item nx xs v)
        ⟨{ s with innermost := xs.length }, f, .notFound, none, none⟩) = none := by
      refine foldl_inv (fun a : IAcc => iacc_bud a = none) _ _ _ ?_ (fun a sub h => indexSubStep_bud c hI nx xs v a sub h)
      simpa [iacc_bud] using h
    unfold iacc_bud at hinv
    split <;> simp_all

/-! ### dispatch and the induction over fuel -/

theorem execBinaryNode_bud (c : Ctx) {item : ItemK} {bool : BoolK} {any : AnyK} (hI : BudI item)
    (hB : BudB bool) (hA : BudA any) (s : St) (n : Node) (op : BinOp) (l r nx : Option Node) (v : Item)
    (f : Found) (unwrap : Bool) (h : s.budget = none) :
    (execBinaryNode c item bool any s n op l r nx v f unwrap).st.budget = none := by
  unfold execBinaryNode
  split
  · exact appendBoolResult_bud c hI nx f _ (hB _ _ _ _ h)
  · split
    · exact execBinaryMathExpr_bud c hI _ _ _ _ _ _ _ h
    · split
      · exact execConvMethod_bud c hI hA _ _ _ _ _ _ _ h
      · exact h

theorem execUnaryNode_bud (c : Ctx) {item : ItemK} {bool : BoolK} {any : AnyK} (hI : BudI item)
    (hB : BudB bool) (hA : BudA any) (s : St) (n : Node) (op : UnOp) (x nx : Option Node) (v : Item)
    (f : Found) (unwrap : Bool) (h : s.budget = none) :
    (execUnaryNode c item bool any s n op x nx v f unwrap).st.budget = none := by
  unfold execUnaryNode
  split
  · exact appendBoolResult_bud c hI nx f _ (hB _ _ _ _ h)
  · exact appendBoolResult_bud c hI nx f _ (hB _ _ _ _ h)
  · exact appendBoolResult_bud c hI nx f _ (hB _ _ _ _ h)
  · split
    · exact unwrapTargetArray_bud hA _ _ _ _ h
    · split
      · exact h
      · rename_i cond
        have hp := executeNestedBoolItem_bud hB s cond v h
        have hn := executeNextItem_bud c hI (executeNestedBoolItem bool s cond v).st nx v f hp
        bud_tac []
  · exact execUnaryMathExpr_bud c hI _ _ _ _ _ _ h
  · exact execUnaryMathExpr_bud c hI _ _ _ _ _ _ h
  · split
    · exact hA _ _ _ _ _ _ _ _ _ h
    · exact executeDateTimeMethod_bud c hI _ _ _ _ _ _ h

theorem dispatch_bud (c : Ctx) {item : ItemK} {bool : BoolK} {any : AnyK} (hI : BudI item)
    (hB : BudB bool) (hA : BudA any) (s : St) (n : Node) (v : Item) (f : Found) (unwrap : Bool)
    (h : s.budget = none) : (dispatch c item bool any s n v f unwrap).st.budget = none := by
  unfold dispatch
  split
  · exact execConstNode_bud c hI hA _ _ _ _ _ _ _ h
  · exact execLiteral_bud c hI _ _ _ _ h
  · exact execLiteral_bud c hI _ _ _ _ h
  · exact execLiteral_bud c hI _ _ _ _ h
  · exact execVariable_bud c hI _ _ _ _ h
  · exact execKeyNode_bud c hI hA _ _ _ _ _ _ _ h
  · exact execBinaryNode_bud c hI hB hA _ _ _ _ _ _ _ _ _ h
  · exact execUnaryNode_bud c hI hB hA _ _ _ _ _ _ _ _ h
  · exact appendBoolResult_bud c hI _ f _ (hB _ _ _ _ h)
  · exact execMethodNode_bud c hI hA _ _ _ _ _ _ _ h
  · exact execAnyNode_bud c hI hA _ _ _ _ _ _ h
  · exact execArrayIndex_bud c hI _ _ _ _ _ h

theorem poll_bud {s s' : St} (h : poll s = some s') (hb : s.budget = none) : s'.budget = none := by
  unfold poll at h
  split at h <;> simp_all

theorem poll_ne_none_bud {s : St} (hb : s.budget = none) : poll s ≠ none := by
  unfold poll
  split <;> simp_all

/-- **a context that is never done stays never done**: `budget = none` is preserved by every executor function -/
theorem bud_all (c : Ctx) : ∀ fuel : Nat,
    BudI (xItem c fuel) ∧ BudB (xBool c fuel) ∧ BudA (xAny c fuel) := by
  intro fuel
  induction fuel with
  | zero =>
    refine ⟨fun s n v f u h => ?_, fun s n v b h => ?_, fun s n vs f l a b i u h => ?_⟩
    · simpa [xItem] using h
    · simpa [xBool] using h
    · simpa [xAny] using h
  | succ fuel ih =>
    obtain ⟨hI, hB, hA⟩ := ih
    refine ⟨fun s n v f u h => ?_, fun s n v b h => ?_, fun s n vs f l a b i u h => ?_⟩
    · simp only [xItem]
      split
      · exact h
      · rename_i s' hpoll
        exact dispatch_bud c hI hB hA _ _ _ _ _ (poll_bud hpoll h)
    · simp only [xBool]; exact executeBoolItem_bud c hI hB _ _ _ _ h
    · simp only [xAny]; exact executeAnyItem_bud hI hA _ _ _ _ _ _ _ _ _ h

theorem xItem_bud (c : Ctx) (fuel : Nat) (s : St) (n : Node) (v : Item) (f : Found) (u : Bool)
    (h : s.budget = none) : (xItem c fuel s n v f u).st.budget = none :=
  (bud_all c fuel).1 s n v f u h

theorem xBool_bud (c : Ctx) (fuel : Nat) (s : St) (n : Node) (v : Item) (b : Bool)
    (h : s.budget = none) : (xBool c fuel s n v b).st.budget = none :=
  (bud_all c fuel).2.1 s n v b h

theorem xAny_bud (c : Ctx) (fuel : Nat) (s : St) (node : Option Node) (vs : List Item) (f : Found)
    (level first last : Nat) (ign un : Bool) (h : s.budget = none) :
    (xAny c fuel s node vs f level first last ign un).st.budget = none :=
  (bud_all c fuel).2.2 s node vs f level first last ign un h


/-! ## 3. the frame simulation -/

section frame
variable (ρ : Option Item)

def FrameI (i₁ i₂ : ItemK) : Prop :=
  ∀ (g : Shift) s n v f u, Indep (g.flags ρ) n = true → i₂ (g.st s) n v (g.fd f) u = g.res (i₁ s n v f u)
def FrameB (b₁ b₂ : BoolK) : Prop :=
  ∀ (g : Shift) s n v b, Indep (g.flags ρ) n = true → b₂ (g.st s) n v b = g.pres (b₁ s n v b)
def FrameA (a₁ a₂ : AnyK) : Prop :=
  ∀ (g : Shift) s node vs f l a b i u, IndepO (g.flags ρ) node = true →
    a₂ (g.st s) node vs (g.fd f) l a b i u = g.res (a₁ s node vs f l a b i u)

/-- both runs branch on the same condition -/
theorem ite_frame {β : Type} (k : β → β) {c : Prop} [Decidable c] {a b a' b' : β}
    (h1 : c → a = k a') (h2 : ¬ c → b = k b') : (if c then a else b) = k (if c then a' else b') := by
  split <;> simp_all

theorem foldl_frame {α β : Type} (P : β → Prop) (k : β → β) (step₁ step₂ : β → α → β) (xs : List α) (b : β)
    (h0 : P b) (hP : ∀ b x, P b → P (step₁ b x)) (hstep : ∀ b x, P b → step₂ (k b) x = k (step₁ b x)) :
    xs.foldl step₂ (k b) = k (xs.foldl step₁ b) := by
  induction xs generalizing b with
  | nil => rfl
  | cons x xs ih =>
    simp only [List.foldl_cons]
    rw [hstep b x h0]
    exact ih _ (hP _ _ h0)

variable {ρ}
variable (c : Ctx) {i₁ i₂ : ItemK} {b₁ b₂ : BoolK} {a₁ a₂ : AnyK}

theorem returnVerboseError_frame (g : Shift) (s : St) (f : Found) :
    returnVerboseError (g.st s) (g.fd f) = g.res (returnVerboseError s f) := by
  simp only [returnVerboseError, Shift.st_verbose]
  exact ite_frame g.res (fun _ => rfl) (fun _ => rfl)

theorem returnError_frame (g : Shift) (s : St) (f : Found) (e : Err) :
    returnError (g.st s) (g.fd f) e = g.res (returnError s f e) := by
  simp only [returnError, Shift.st_verbose]
  exact ite_frame g.res (fun _ => rfl) (fun _ => rfl)

theorem structural_frame (g : Shift) (s : St) (f : Found) :
    structural (g.st s) (g.fd f) = g.res (structural s f) := by
  simp only [structural, Shift.st_ignoreSE]
  exact ite_frame g.res (fun _ => returnVerboseError_frame g s f) (fun _ => rfl)

theorem executeItem_frame (hS : FrameI ρ i₁ i₂) (g : Shift) (s : St) (n : Node) (v : Item) (f : Found)
    (hn : Indep (g.flags ρ) n = true) :
    executeItem (setRoot ρ c) i₂ (g.st s) n v (g.fd f) = g.res (executeItem c i₁ s n v f) :=
  hS g s n v f c.lax hn

/-- operand evaluation: a result list of its own -/
theorem executeItem_frame0 (hS : FrameI ρ i₁ i₂) (g : Shift) (s : St) (n : Node) (v : Item) (f : Found)
    (hn : Indep (g.flags ρ) n = true) :
    executeItem (setRoot ρ c) i₂ (g.st s) n v f = g.res0 (executeItem c i₁ s n v f) := by
  have h := hS g.noPre s n v f c.lax hn
  rw [Shift.noPre_fd, Shift.noPre_res] at h
  exact h

theorem executeNextItem_frame (hS : FrameI ρ i₁ i₂) (g : Shift) (s : St) (nx : Option Node) (v : Item)
    (f : Found) (hn : IndepO (g.flags ρ) nx = true) :
    executeNextItem (setRoot ρ c) i₂ (g.st s) nx v (g.fd f) = g.res (executeNextItem c i₁ s nx v f) := by
  unfold executeNextItem
  cases nx with
  | some n => exact executeItem_frame c hS g s n v f (by simpa using hn)
  | none => simp

theorem withBaseObject_frame (g : Shift) (s : St) (a : Nat) (i : Int) (k₁ k₂ : St → Res)
    (hk : ∀ s' : St, k₂ (g.noBase.st s') = g.noBase.res (k₁ s')) :
    withBaseObject (g.st s) a i k₂ = g.res (withBaseObject s a i k₁) := by
  unfold withBaseObject
  simp only [Shift.st_setBase]
  rw [hk]
  simp only [Shift.res, Shift.restoreBase]
  rfl

theorem execLiteral_frame (hS : FrameI ρ i₁ i₂) (g : Shift) (s : St) (nx : Option Node) (v : Item)
    (f : Found) (hn : IndepO (g.flags ρ) nx = true) :
    execLiteral (setRoot ρ c) i₂ (g.st s) nx v (g.fd f) = g.res (execLiteral c i₁ s nx v f) := by
  unfold execLiteral
  simp only [Shift.fd_isNone]
  exact ite_frame g.res (fun _ => rfl) (fun _ => executeNextItem_frame c hS g s nx v f hn)

theorem execVariable_frame (hS : FrameI ρ i₁ i₂) (g : Shift) (s : St) (name : List Char)
    (nx : Option Node) (f : Found) (hn : IndepO (g.flags ρ) nx = true) :
    execVariable (setRoot ρ c) i₂ (g.st s) name nx (g.fd f) = g.res (execVariable c i₁ s name nx f) := by
  unfold execVariable
  simp only [setRoot_vars, setRoot_addrOf]
  split
  · exact withBaseObject_frame g s _ _ _ _ (fun s' =>
      executeNextItem_frame c hS g.noBase s' nx _ f (indepO_mono nx _ _ (Shift.flags_noBase_le ρ g) hn))
  · rfl


/-! ### operand evaluation -/

theorem optUnwrapResult_frame0 (hS : FrameI ρ i₁ i₂) (g : Shift) (s : St) (n : Node) (v : Item) (unwrap : Bool)
    (l : List Item) (hn : Indep (g.flags ρ) n = true) :
    optUnwrapResult (setRoot ρ c) i₂ (g.st s) n v unwrap l = g.res0 (optUnwrapResult c i₁ s n v unwrap l) := by
  unfold optUnwrapResult
  simp only [setRoot_lax]
  refine ite_frame g.res0 (fun _ => ?_) (fun _ => executeItem_frame0 c hS g s n v _ hn)
  simp only [executeItem_frame0 c hS g s n v _ hn, Shift.res0_status, Shift.res0_st, Shift.res0_found,
    Shift.res0_err]
  exact ite_frame g.res0 (fun _ => rfl) (fun _ => rfl)

theorem optUnwrapResultSilent_frame0 (hS : FrameI ρ i₁ i₂) (g : Shift) (s : St) (n : Node) (v : Item) (unwrap : Bool)
    (f : Found) (hn : Indep (g.flags ρ) n = true) :
    optUnwrapResultSilent (setRoot ρ c) i₂ (g.st s) n v unwrap f = g.res0 (optUnwrapResultSilent c i₁ s n v unwrap f) := by
  unfold optUnwrapResultSilent
  cases f with
  | some l =>
    simp only [Shift.st_setVerbose]
    rw [optUnwrapResult_frame0 c hS g _ n v unwrap l hn]
    rfl
  | none =>
    simp only [Shift.st_setVerbose]
    rw [executeItem_frame0 c hS g _ n v none hn]
    rfl

/-! ### predicates -/

theorem predicateTail_frame (g : Shift) (s : St) (cb : Item → Item → CbOut) (ls rs : List Item) :
    predicateTail (setRoot ρ c) (g.st s) cb ls rs = g.pres (predicateTail c s cb ls rs) := by
  unfold predicateTail
  dsimp only [setRoot_lax]
  generalize pairLoop (!c.lax) cb ls rs = acc
  obtain ⟨hasErr, found, done⟩ := acc
  cases done with
  | some d =>
    obtain ⟨p, e, pk⟩ := d
    simp only [Shift.st_panicked, Shift.pres_mk, Shift.st_orPanicked]
  | none => cases found <;> cases hasErr <;> rfl

theorem executePredicate_frame (hS : FrameI ρ i₁ i₂) (g : Shift) (s : St) (left : Node)
    (right : Option Node) (v : Item) (unwrapRight : Bool) (cb : Item → Item → CbOut)
    (hl : Indep (g.flags ρ) left = true) (hr : IndepO (g.flags ρ) right = true) :
    executePredicate (setRoot ρ c) i₂ (g.st s) left right v unwrapRight cb
      = g.pres (executePredicate c i₁ s left right v unwrapRight cb) := by
  unfold executePredicate
  simp only [optUnwrapResultSilent_frame0 c hS g s left v true (some []) hl, Shift.res0_status, Shift.res0_st,
    Shift.res0_found, Shift.res0_err]
  refine ite_frame g.pres (fun _ => rfl) (fun _ => ?_)
  cases right with
  | none => exact predicateTail_frame c g _ cb _ _
  | some rn =>
    simp only [optUnwrapResultSilent_frame0 c hS g _ rn v unwrapRight (some []) (by simpa using hr),
      Shift.res0_status, Shift.res0_st, Shift.res0_found, Shift.res0_err]
    exact ite_frame g.pres (fun _ => rfl) (fun _ => predicateTail_frame c g _ cb _ _)

theorem compareItems_setRoot_frame (op : BinOp) : compareItems (setRoot ρ c) op = compareItems c op := rfl

theorem likeRegex_setRoot_frame : likeRegex (setRoot ρ c) = likeRegex c := rfl

theorem executeBinaryBoolItem_frame (hS : FrameI ρ i₁ i₂) (hSB : FrameB ρ b₁ b₂) (g : Shift) (s : St) (op : BinOp)
    (l r : Option Node) (v : Item) (hl : IndepO (g.flags ρ) l = true) (hr : IndepO (g.flags ρ) r = true) :
    executeBinaryBoolItem (setRoot ρ c) i₂ b₂ (g.st s) op l r v
      = g.pres (executeBinaryBoolItem c i₁ b₁ s op l r v) := by
  unfold executeBinaryBoolItem
  cases l with
  | none => rfl
  | some l =>
    have hl' : Indep (g.flags ρ) l = true := by simpa using hl
    simp only
    split
    · cases r with
      | none => rfl
      | some r =>
        have hr' : Indep (g.flags ρ) r = true := by simpa using hr
        simp only [hSB g s l v false hl', Shift.pres_out, Shift.pres_err, Shift.pres_st, hSB g _ r v false hr']
        exact ite_frame g.pres (fun _ => rfl) (fun _ => ite_frame g.pres (fun _ => rfl) (fun _ => rfl))
    · cases r with
      | none => rfl
      | some r =>
        have hr' : Indep (g.flags ρ) r = true := by simpa using hr
        simp only [hSB g s l v false hl', Shift.pres_out, Shift.pres_err, Shift.pres_st, hSB g _ r v false hr']
        exact ite_frame g.pres (fun _ => rfl) (fun _ => ite_frame g.pres (fun _ => rfl) (fun _ => rfl))
    · exact executePredicate_frame c hS g s l r v false startsWith hl' hr
    · rw [compareItems_setRoot_frame]
      exact ite_frame g.pres (fun _ => executePredicate_frame c hS g s l r v true _ hl' hr) (fun _ => rfl)

theorem executeUnaryBoolItem_frame (hS : FrameI ρ i₁ i₂) (hSB : FrameB ρ b₁ b₂) (g : Shift) (s : St) (op : UnOp)
    (x nx : Option Node) (v : Item) (hn : Indep (g.flags ρ) (.unary op x nx) = true) :
    executeUnaryBoolItem (setRoot ρ c) i₂ b₂ (g.st s) op x v
      = g.pres (executeUnaryBoolItem c i₁ b₁ s op x v) := by
  unfold executeUnaryBoolItem
  split
  · -- not
    rename_i xn
    have hx : Indep (g.flags ρ) xn = true := by
      simp only [Indep, indepO_some, Bool.and_eq_true] at hn; exact hn.1
    simp only [hSB g s xn v false hx, Shift.pres_out, Shift.pres_st]
    cases (b₁ s xn v false).out <;> rfl
  · -- is unknown
    rename_i xn
    have hx : Indep (g.flags ρ) xn = true := by
      simp only [Indep, indepO_some, Bool.and_eq_true] at hn; exact hn.1
    simp only [hSB g s xn v false hx, Shift.pres_out, Shift.pres_st, Shift.pres_err]
    exact ite_frame g.pres (fun _ => rfl) (fun _ => rfl)
  · -- exists
    rename_i xn
    have hx : Indep (g.flags ρ) xn = true := by
      simp only [Indep, indepO_some, Bool.and_eq_true] at hn; exact hn.1
    simp only [setRoot_lax]
    refine ite_frame g.pres (fun _ => ?_) (fun _ => ?_)
    · simp only [optUnwrapResultSilent_frame0 c hS g s xn v false (some []) hx, Shift.res0_status, Shift.res0_st,
        Shift.res0_found, Shift.res0_err]
      exact ite_frame g.pres (fun _ => rfl) (fun _ => ite_frame g.pres (fun _ => rfl) (fun _ => rfl))
    · simp only [optUnwrapResultSilent_frame0 c hS g s xn v false none hx, Shift.res0_status, Shift.res0_st,
        Shift.res0_err]
      exact ite_frame g.pres (fun _ => rfl) (fun _ => ite_frame g.pres (fun _ => rfl) (fun _ => rfl))
  · rfl
  · rfl
  · rfl
  · rfl

theorem executeBoolItem_frame (hS : FrameI ρ i₁ i₂) (hSB : FrameB ρ b₁ b₂) (g : Shift) (s : St) (n : Node) (v : Item)
    (chn : Bool) (hn : Indep (g.flags ρ) n = true) :
    executeBoolItem (setRoot ρ c) i₂ b₂ (g.st s) n v chn = g.pres (executeBoolItem c i₁ b₁ s n v chn) := by
  unfold executeBoolItem
  refine ite_frame g.pres (fun _ => rfl) (fun _ => ?_)
  split
  · simp only [Indep, Bool.and_eq_true] at hn
    exact executeBinaryBoolItem_frame c hS hSB g s _ _ _ v hn.1.1 hn.1.2
  · exact executeUnaryBoolItem_frame c hS hSB g s _ _ _ v hn
  · simp only [Indep, Bool.and_eq_true] at hn
    rw [likeRegex_setRoot_frame]
    exact executePredicate_frame c hS g s _ none v false _ hn.1 (by simp)
  · rfl

theorem appendBoolResult_frame (hS : FrameI ρ i₁ i₂) (g : Shift) (nx : Option Node) (f : Found) (p : PRes)
    (hn : IndepO (g.flags ρ) nx = true) :
    appendBoolResult (setRoot ρ c) i₂ nx (g.fd f) (g.pres p) = g.res (appendBoolResult c i₁ nx f p) := by
  unfold appendBoolResult
  simp only [Shift.pres_err, Shift.pres_st, Shift.pres_out, Shift.fd_isNone]
  cases h : p.err with
  | some e => rfl
  | none =>
    simp only
    exact ite_frame g.res (fun _ => rfl) (fun _ => executeNextItem_frame c hS g _ nx _ f hn)

theorem executeNestedBoolItem_frame (hSB : FrameB ρ b₁ b₂) (g : Shift) (s : St) (n : Node) (v : Item)
    (hn : Indep { g.flags ρ with cur := true } n = true) :
    executeNestedBoolItem b₂ (g.st s) n v = g.pres (executeNestedBoolItem b₁ s n v) := by
  unfold executeNestedBoolItem
  simp only [Shift.st_setCurrent]
  rw [hSB g.noCur { s with current := v } n v false (by rw [Shift.flags_noCur]; exact hn)]
  simp only [Shift.pres, Shift.restoreCur]

/-! ### arithmetic -/

def Shift.uacc (g : Shift) (a : UAcc) : UAcc :=
  { a with st := g.st a.st, found := g.fd a.found, ret := a.ret.map g.res }

theorem unaryStep_frame (hS : FrameI ρ i₁ i₂) (g : Shift) (cb : Num.UCallback) (nx : Option Node)
    (a : UAcc) (v : Item) (hn : IndepO (g.flags ρ) nx = true) :
    unaryStep (setRoot ρ c) i₂ cb nx (g.uacc a) v = g.uacc (unaryStep c i₁ cb nx a v) := by
  obtain ⟨st, found, res, ret⟩ := a
  cases ret with
  | some r => rfl
  | none =>
    have go : ∀ val : Item,
        (let r := executeNextItem (setRoot ρ c) i₂ (g.st st) nx val (g.fd found)
         if r.status = .failed then ({ st := r.st, found := r.found, res := res, ret := some r } : UAcc)
         else if r.status = .ok then
           (if (g.fd found).isNone then
              { st := r.st, found := r.found, res := res, ret := some ⟨r.st, r.found, .ok, none⟩ }
            else { st := r.st, found := r.found, res := .ok, ret := none })
         else { st := r.st, found := r.found, res := res, ret := none }) =
        g.uacc
        (let r := executeNextItem c i₁ st nx val found
         if r.status = .failed then ({ st := r.st, found := r.found, res := res, ret := some r } : UAcc)
         else if r.status = .ok then
           (if found.isNone then
              { st := r.st, found := r.found, res := res, ret := some ⟨r.st, r.found, .ok, none⟩ }
            else { st := r.st, found := r.found, res := .ok, ret := none })
         else { st := r.st, found := r.found, res := res, ret := none }) := by
      intro val
      simp only [executeNextItem_frame c hS g st nx val found hn, Shift.res_status, Shift.res_st,
        Shift.res_found, Shift.fd_isNone]
      refine ite_frame g.uacc (fun _ => rfl) (fun _ => ?_)
      refine ite_frame g.uacc (fun _ => ?_) (fun _ => rfl)
      exact ite_frame g.uacc (fun _ => rfl) (fun _ => rfl)
    have badU : (UAcc.mk (g.st st) (g.fd found) res (some (returnVerboseError (g.st st) (g.fd found))))
        = g.uacc { st := st, found := found, res := res, ret := some (returnVerboseError st found) } := by
      rw [returnVerboseError_frame]; rfl
    cases found with
    | none =>
      unfold unaryStep
      cases v with
      | int i => exact ite_frame g.uacc (fun _ => rfl) (fun _ => go _)
      | flt x => exact ite_frame g.uacc (fun _ => rfl) (fun _ => go _)
      | jnum t =>
        refine ite_frame g.uacc (fun _ => rfl) (fun _ => ?_)
        cases hcast : Num.castJSONNumber t cb with
        | some val => exact go val
        | none => exact badU
      | _ => exact ite_frame g.uacc (fun _ => go _) (fun _ => badU)
    | some l =>
      unfold unaryStep
      cases v with
      | int i => exact ite_frame g.uacc (fun _ => rfl) (fun _ => go _)
      | flt x => exact ite_frame g.uacc (fun _ => rfl) (fun _ => go _)
      | jnum t =>
        refine ite_frame g.uacc (fun _ => rfl) (fun _ => ?_)
        cases hcast : Num.castJSONNumber t cb with
        | some val => exact go val
        | none => exact badU
      | _ => exact ite_frame g.uacc (fun _ => go _) (fun _ => badU)

theorem execUnaryMathExpr_frame (hS : FrameI ρ i₁ i₂) (g : Shift) (s : St) (operand nx : Option Node) (v : Item)
    (cb : Num.UCallback) (f : Found) (ho : IndepO (g.flags ρ) operand = true) (hn : IndepO (g.flags ρ) nx = true) :
    execUnaryMathExpr (setRoot ρ c) i₂ (g.st s) operand nx v cb (g.fd f)
      = g.res (execUnaryMathExpr c i₁ s operand nx v cb f) := by
  unfold execUnaryMathExpr
  cases operand with
  | none => rfl
  | some x =>
    have hx : Indep (g.flags ρ) x = true := by simpa using ho
    simp only [optUnwrapResult_frame0 c hS g s x v true [] hx, Shift.res0_status, Shift.res0_st,
      Shift.res0_found, Shift.res0_err]
    refine ite_frame g.res (fun _ => rfl) (fun _ => ?_)
    have hfold := foldl_frame (fun _ => True) g.uacc (unaryStep c i₁ cb nx) (unaryStep (setRoot ρ c) i₂ cb nx)
      ((optUnwrapResult c i₁ s x v true []).found.getD [])
      ⟨(optUnwrapResult c i₁ s x v true []).st, f, .notFound, none⟩
      trivial (fun _ _ _ => trivial) (fun a v _ => unaryStep_frame c hS g cb nx a v hn)
    have e0 : g.uacc ⟨(optUnwrapResult c i₁ s x v true []).st, f, .notFound, none⟩
        = ⟨g.st (optUnwrapResult c i₁ s x v true []).st, g.fd f, .notFound, none⟩ := rfl
    rw [e0] at hfold
    rw [hfold]
    generalize List.foldl (unaryStep c i₁ cb nx) _ _ = a
    obtain ⟨st, found, res, ret⟩ := a
    cases ret <;> rfl

theorem execBinaryMathExpr_frame (hS : FrameI ρ i₁ i₂) (g : Shift) (s : St) (op : BinOp) (l r nx : Option Node)
    (v : Item) (f : Found) (hl : IndepO (g.flags ρ) l = true) (hr : IndepO (g.flags ρ) r = true)
    (hn : IndepO (g.flags ρ) nx = true) :
    execBinaryMathExpr (setRoot ρ c) i₂ (g.st s) op l r nx v (g.fd f)
      = g.res (execBinaryMathExpr c i₁ s op l r nx v f) := by
  unfold execBinaryMathExpr
  split
  · rename_i ln rn
    have hl' : Indep (g.flags ρ) ln = true := by simpa using hl
    have hr' : Indep (g.flags ρ) rn = true := by simpa using hr
    simp only [optUnwrapResult_frame0 c hS g s ln v true [] hl', Shift.res0_status, Shift.res0_st,
      Shift.res0_found, Shift.res0_err]
    refine ite_frame g.res (fun _ => rfl) (fun _ => ?_)
    generalize (optUnwrapResult c i₁ s ln v true []).found.getD [] = ls
    split
    · simp only [optUnwrapResult_frame0 c hS g _ rn v true [] hr', Shift.res0_status, Shift.res0_st,
        Shift.res0_found, Shift.res0_err]
      refine ite_frame g.res (fun _ => rfl) (fun _ => ?_)
      generalize (optUnwrapResult c i₁ (optUnwrapResult c i₁ s ln v true []).st rn v true []).found.getD [] = rs
      split
      · generalize Num.mathOp _ _ op = m
        split
        · exact returnVerboseError_frame g _ f
        · refine ite_frame g.res (fun _ => returnVerboseError_frame g _ f) (fun _ => ?_)
          simp only [Shift.fd_isNone]
          exact ite_frame g.res (fun _ => rfl) (fun _ => executeNextItem_frame c hS g _ nx _ f hn)
      · exact returnVerboseError_frame g _ f
    · exact returnVerboseError_frame g _ f
  · rfl

/-! ### item methods -/

theorem unwrapTargetArray_frame (hSA : FrameA ρ a₁ a₂) (g : Shift) (s : St) (n : Node) (xs : List Item) (f : Found)
    (hn : Indep (g.flags ρ) n = true) :
    unwrapTargetArray a₂ (g.st s) n xs (g.fd f) = g.res (unwrapTargetArray a₁ s n xs f) :=
  hSA g s (some n) xs f 1 1 1 false false (by simpa using hn)

theorem execMethodSize_frame (hS : FrameI ρ i₁ i₂) (g : Shift) (s : St) (nx : Option Node)
    (v : Item) (f : Found) (hn : IndepO (g.flags ρ) nx = true) :
    execMethodSize (setRoot ρ c) i₂ (g.st s) nx v (g.fd f) = g.res (execMethodSize c i₁ s nx v f) := by
  unfold execMethodSize
  split
  · exact executeNextItem_frame c hS g s nx _ f hn
  · simp only [setRoot_lax]
    exact ite_frame g.res (fun _ => structural_frame g s f)
      (fun _ => executeNextItem_frame c hS g s nx _ f hn)

theorem execConvMethod_frame (hS : FrameI ρ i₁ i₂) (hSA : FrameA ρ a₁ a₂) (g : Shift) (s : St) (n : Node)
    (nx : Option Node) (v : Item) (f : Found) (unwrap : Bool) (conv : Item → Conv)
    (hself : Indep (g.flags ρ) n = true) (hn : IndepO (g.flags ρ) nx = true) :
    execConvMethod (setRoot ρ c) i₂ a₂ (g.st s) n nx v (g.fd f) unwrap conv
      = g.res (execConvMethod c i₁ a₁ s n nx v f unwrap conv) := by
  unfold execConvMethod
  split
  · exact ite_frame g.res (fun _ => unwrapTargetArray_frame hSA g s n _ f hself)
      (fun _ => returnVerboseError_frame g s f)
  · generalize conv v = cv
    split
    · exact executeNextItem_frame c hS g s nx _ f hn
    · exact returnVerboseError_frame g s f
    · rfl
    · exact returnError_frame g s f _

theorem parseDateTime_setRoot_frame : parseDateTime (setRoot ρ c) = parseDateTime c := rfl

theorem executeDateTimeMethod_frame (hS : FrameI ρ i₁ i₂) (g : Shift) (s : St) (op : UnOp) (arg nx : Option Node)
    (v : Item) (f : Found) (hn : IndepO (g.flags ρ) nx = true) :
    executeDateTimeMethod (setRoot ρ c) i₂ (g.st s) op arg nx v (g.fd f)
      = g.res (executeDateTimeMethod c i₁ s op arg nx v f) := by
  unfold executeDateTimeMethod
  split
  · dsimp only [setRoot_env, setRoot_useTZ]
    rw [parseDateTime_setRoot_frame]
    generalize (if (op = UnOp.datetime && arg.isSome) = true then _ else _ : Except Err DateTime) = parsed
    cases parsed with
    | error e => exact returnError_frame g s f e
    | ok d =>
      simp only
      have fin : ∀ d' : DateTime,
          (if (nx.isNone && (g.fd f).isNone) = true then (⟨g.st s, g.fd f, .ok, none⟩ : Res)
           else executeNextItem (setRoot ρ c) i₂ (g.st s) nx (.dt d') (g.fd f))
          = g.res (if (nx.isNone && f.isNone) = true then (⟨s, f, .ok, none⟩ : Res)
           else executeNextItem c i₁ s nx (.dt d') f) := by
        intro d'
        simp only [Shift.fd_isNone]
        exact ite_frame g.res (fun _ => rfl) (fun _ => executeNextItem_frame c hS g s nx _ f hn)
      cases hk : kindOfOp op with
      | none => exact fin d
      | some k =>
        simp only
        cases hct : Time.castTo c.env c.useTZ k d with
        | ok d' => exact fin d'
        | error e =>
          cases e
          all_goals exact returnError_frame g s f _
  · exact returnVerboseError_frame g s f

/-! ### `.keyvalue()` -/

def Shift.kvacc (g : Shift) (a : KVAcc) : KVAcc :=
  { a with st := g.st a.st, found := g.fd a.found, ret := a.ret.map g.res }

theorem flags_kv_frame {g : Shift} (h : (g.flags ρ).kv = true) : g.base = none ∧ g.gen = none := by
  obtain ⟨cur, inn, base, gen, tp, tf, tc, pre⟩ := g
  cases base <;> cases gen <;> simp_all [Shift.flags]

theorem kvEnter_frame (g : Shift) (hb : g.base = none) (hg : g.gen = none) (st : St) (obj : Item) :
    kvEnter (setRoot ρ c) (g.st st) obj = g.st (kvEnter c st obj) := by
  obtain ⟨cur, inn, base, gen, tp, tf, tc, pre⟩ := g
  dsimp only at hb hg
  subst hb hg
  rfl

theorem st_baseAddr_frame (g : Shift) (hb : g.base = none) (s : St) : (g.st s).baseAddr = s.baseAddr := by
  obtain ⟨cur, inn, base, gen, tp, tf, tc, pre⟩ := g
  dsimp only at hb
  subst hb
  rfl

theorem st_baseId_frame (g : Shift) (hb : g.base = none) (s : St) : (g.st s).baseId = s.baseId := by
  obtain ⟨cur, inn, base, gen, tp, tf, tc, pre⟩ := g
  dsimp only at hb
  subst hb
  rfl

theorem st_setBase_frame (g : Shift) (hb : g.base = none) (s : St) (a : Nat) (i : Int) :
    ({ g.st s with baseAddr := a, baseId := i } : St) = g.st { s with baseAddr := a, baseId := i } := by
  obtain ⟨cur, inn, base, gen, tp, tf, tc, pre⟩ := g
  dsimp only at hb
  subst hb
  rfl

theorem kvStep_frame (hS : FrameI ρ i₁ i₂) (g : Shift) (nx : Option Node) (id : Int) (a : KVAcc)
    (kv : List Char × Item) (hb : g.base = none) (hg : g.gen = none) (hn : IndepO (g.flags ρ) nx = true) :
    kvStep (setRoot ρ c) i₂ nx id (g.kvacc a) kv = g.kvacc (kvStep c i₁ nx id a kv) := by
  obtain ⟨st, found, res, ret, stop⟩ := a
  cases ret with
  | some r => rfl
  | none =>
    cases stop with
    | true => rfl
    | false =>
      have hr := executeNextItem_frame c hS g (kvEnter c st (kvObj id kv)) nx (kvObj id kv) found hn
      have go :
          (let r := executeNextItem (setRoot ρ c) i₂ (kvEnter (setRoot ρ c) (g.st st) (kvObj id kv)) nx
             (kvObj id kv) (g.fd found)
           if r.status = .failed then KVAcc.mk r.st r.found r.status (some r) false
           else if (r.status = .ok && (g.fd found).isNone) = true then KVAcc.mk r.st r.found r.status none true
           else KVAcc.mk r.st r.found r.status none false)
          = g.kvacc
          (let r := executeNextItem c i₁ (kvEnter c st (kvObj id kv)) nx (kvObj id kv) found
           if r.status = .failed then KVAcc.mk r.st r.found r.status (some r) false
           else if (r.status = .ok && found.isNone) = true then KVAcc.mk r.st r.found r.status none true
           else KVAcc.mk r.st r.found r.status none false) := by
        simp only [kvEnter_frame c g hb hg, hr, Shift.res_status, Shift.res_st, Shift.res_found, Shift.fd_isNone]
        exact ite_frame g.kvacc (fun _ => rfl) (fun _ => ite_frame g.kvacc (fun _ => rfl) (fun _ => rfl))
      unfold kvStep
      exact ite_frame g.kvacc (fun _ => rfl) (fun _ => go)

theorem executeKeyValueMethod_frame (hS : FrameI ρ i₁ i₂) (hSA : FrameA ρ a₁ a₂) (g : Shift) (s : St) (n : Node)
    (nx : Option Node) (v : Item) (f : Found) (unwrap : Bool)
    (hself : Indep (g.flags ρ) n = true) (hkv : (g.flags ρ).kv = true) (hn : IndepO (g.flags ρ) nx = true) :
    executeKeyValueMethod (setRoot ρ c) i₂ a₂ (g.st s) n nx v (g.fd f) unwrap
      = g.res (executeKeyValueMethod c i₁ a₁ s n nx v f unwrap) := by
  obtain ⟨hb, hg⟩ := flags_kv_frame hkv
  unfold executeKeyValueMethod
  split
  · exact ite_frame g.res (fun _ => unwrapTargetArray_frame hSA g s n _ f hself)
      (fun _ => returnVerboseError_frame g s f)
  · rename_i kvs
    refine ite_frame g.res (fun _ => rfl) (fun _ => ?_)
    simp only [Shift.fd_isNone]
    refine ite_frame g.res (fun _ => rfl) (fun _ => ?_)
    dsimp only [setRoot_addrOf]
    rw [st_baseAddr_frame g hb, st_baseId_frame g hb]
    generalize hid : (_ : Int) + s.baseId * 10000000000 = id
    generalize hid' : (_ : Int) + s.baseId * 10000000000 = id'
    have hidEq : id = id' := hid.symm.trans hid'
    subst hidEq
    have hfold := foldl_frame (fun _ => True) g.kvacc (kvStep c i₁ nx id) (kvStep (setRoot ρ c) i₂ nx id) kvs
      ⟨s, f, .ok, none, false⟩ trivial (fun _ _ _ => trivial)
      (fun a kv _ => kvStep_frame c hS g nx id a kv hb hg hn)
    have e0 : g.kvacc ⟨s, f, .ok, none, false⟩ = ⟨g.st s, g.fd f, .ok, none, false⟩ := rfl
    rw [e0] at hfold
    rw [hfold]
    generalize List.foldl (kvStep c i₁ nx id) _ _ = a
    obtain ⟨st, found, res, ret, stop⟩ := a
    cases ret with
    | some r =>
      show (⟨_, _, _, _⟩ : Res) = _
      simp only [Shift.res_st, st_setBase_frame g hb]
      rfl
    | none =>
      show (⟨_, _, _, _⟩ : Res) = _
      simp only [Shift.kvacc, st_setBase_frame g hb]
      rfl
  · exact returnVerboseError_frame g s f

theorem execMethodNode_frame (hS : FrameI ρ i₁ i₂) (hSA : FrameA ρ a₁ a₂) (g : Shift) (s : St) (n : Node)
    (m : Method) (nx : Option Node) (v : Item) (f : Found) (unwrap : Bool)
    (hself : Indep (g.flags ρ) n = true) (hkv : m = .keyvalue → (g.flags ρ).kv = true)
    (hn : IndepO (g.flags ρ) nx = true) :
    execMethodNode (setRoot ρ c) i₂ a₂ (g.st s) n m nx v (g.fd f) unwrap
      = g.res (execMethodNode c i₁ a₁ s n m nx v f unwrap) := by
  unfold execMethodNode
  cases m <;> simp only
  all_goals first
    | exact execConvMethod_frame c hS hSA g s n nx v f unwrap _ hself hn
    | exact executeNextItem_frame c hS g s nx _ f hn
    | exact execMethodSize_frame c hS g s nx v f hn
    | exact executeKeyValueMethod_frame c hS hSA g s n nx v f unwrap hself (hkv rfl) hn


/-! ### accessors and constants -/

theorem execKeyNode_frame (hS : FrameI ρ i₁ i₂) (hSA : FrameA ρ a₁ a₂) (g : Shift) (s : St) (n : Node)
    (key : List Char) (nx : Option Node) (v : Item) (f : Found) (unwrap : Bool)
    (hself : Indep (g.flags ρ) n = true) (hn : IndepO (g.flags ρ) nx = true) :
    execKeyNode (setRoot ρ c) i₂ a₂ (g.st s) n key nx v (g.fd f) unwrap
      = g.res (execKeyNode c i₁ a₁ s n key nx v f unwrap) := by
  unfold execKeyNode
  split
  · split
    · exact executeNextItem_frame c hS g s nx _ f hn
    · simp only [Shift.st_ignoreSE, Shift.st_verbose]
      exact ite_frame g.res (fun _ => ite_frame g.res (fun _ => rfl) (fun _ => rfl)) (fun _ => rfl)
  · exact ite_frame g.res (fun _ => hSA g s (some n) _ f _ _ _ _ _ (by simpa using hself))
      (fun _ => structural_frame g s f)
  · exact structural_frame g s f

theorem execAnyKey_frame (hSA : FrameA ρ a₁ a₂) (g : Shift) (s : St) (n : Node) (nx : Option Node)
    (v : Item) (f : Found) (unwrap : Bool)
    (hself : Indep (g.flags ρ) n = true) (hn : IndepO (g.flags ρ) nx = true) :
    execAnyKey (setRoot ρ c) a₂ (g.st s) n nx v (g.fd f) unwrap
      = g.res (execAnyKey c a₁ s n nx v f unwrap) := by
  unfold execAnyKey
  split
  · exact hSA g s nx _ f _ _ _ _ _ hn
  · exact ite_frame g.res (fun _ => unwrapTargetArray_frame hSA g s n _ f hself)
      (fun _ => structural_frame g s f)
  · exact structural_frame g s f

theorem execAnyArray_frame (hS : FrameI ρ i₁ i₂) (hSA : FrameA ρ a₁ a₂) (g : Shift) (s : St)
    (nx : Option Node) (v : Item) (f : Found) (hn : IndepO (g.flags ρ) nx = true) :
    execAnyArray (setRoot ρ c) i₂ a₂ (g.st s) nx v (g.fd f)
      = g.res (execAnyArray c i₁ a₁ s nx v f) := by
  unfold execAnyArray
  split
  · exact hSA g s nx _ f _ _ _ _ _ hn
  · simp only [setRoot_lax]
    exact ite_frame g.res (fun _ => executeNextItem_frame c hS g s nx _ f hn)
      (fun _ => structural_frame g s f)

theorem execLastConst_frame (hS : FrameI ρ i₁ i₂) (g : Shift) (s : St)
    (nx : Option Node) (f : Found) (hinn : g.inn.isNone = true) (hn : IndepO (g.flags ρ) nx = true) :
    execLastConst (setRoot ρ c) i₂ (g.st s) nx (g.fd f) = g.res (execLastConst c i₁ s nx f) := by
  have hi : (g.st s).innermost = s.innermost := by
    obtain ⟨cur, inn, base, gen, tp, tf, tc, pre⟩ := g
    cases inn
    · rfl
    · simp at hinn
  unfold execLastConst
  simp only [hi, Shift.fd_isNone]
  refine ite_frame g.res (fun _ => rfl) (fun _ => ?_)
  exact ite_frame g.res (fun _ => rfl) (fun _ => executeNextItem_frame c hS g s nx _ f hn)

theorem execConstNode_frame (hS : FrameI ρ i₁ i₂) (hSA : FrameA ρ a₁ a₂) (g : Shift) (s : St) (n : Node)
    (k : Const) (nx : Option Node) (v : Item) (f : Found) (unwrap : Bool)
    (hself : Indep (g.flags ρ) n = true) (hk : Indep (g.flags ρ) (.const k nx) = true) :
    execConstNode (setRoot ρ c) i₂ a₂ (g.st s) n k nx v (g.fd f) unwrap
      = g.res (execConstNode c i₁ a₁ s n k nx v f unwrap) := by
  unfold execConstNode
  cases k <;> simp only [Indep, Bool.and_eq_true, Bool.true_and] at hk <;> simp only
  · -- root
    obtain ⟨hr, hn⟩ := hk
    have hρ : ρ = none := by
      cases ρ with
      | none => rfl
      | some x => simp [Shift.flags] at hr
    subst hρ
    simp only [setRoot_none]
    exact withBaseObject_frame g s _ _ _ _ (fun s' =>
      executeNextItem_frame c hS g.noBase s' nx _ f (indepO_mono nx _ _ (Shift.flags_noBase_le none g) hn))
  · -- current
    obtain ⟨hc, hn⟩ := hk
    have hcur : (g.st s).current = s.current := by
      obtain ⟨cur, inn, base, gen, tp, tf, tc, pre⟩ := g
      cases cur
      · rfl
      · simp [Shift.flags] at hc
    rw [hcur]
    exact executeNextItem_frame c hS g s nx _ f hn
  · -- last
    obtain ⟨hl, hn⟩ := hk
    exact execLastConst_frame c hS g s nx f hl hn
  · exact execAnyArray_frame c hS hSA g s nx v f hk
  · exact execAnyKey_frame c hSA g s n nx v f unwrap hself hk
  · exact execLiteral_frame c hS g s nx _ f hk
  · exact execLiteral_frame c hS g s nx _ f hk
  · exact execLiteral_frame c hS g s nx _ f hk

/-! ### `.**` and the generic element loop -/

def Shift.aacc (g : Shift) (a : AAcc) : AAcc :=
  { a with st := g.st a.st, found := g.fd a.found, ret := a.ret.map g.res }

theorem anyVisit_frame (hS : FrameI ρ i₁ i₂) (g : Shift) (node : Option Node) (level first last : Nat)
    (ignore unwrapNext : Bool) (a : AAcc) (v : Item) (hn : IndepO (g.flags ρ) node = true) :
    anyVisit i₂ node level first last ignore unwrapNext (g.aacc a) v
      = g.aacc (anyVisit i₁ node level first last ignore unwrapNext a v) := by
  obtain ⟨st, found, res, err, ret⟩ := a
  unfold anyVisit
  refine ite_frame g.aacc (fun _ => ?_) (fun _ => rfl)
  cases node with
  | some n =>
    have hn' : Indep (g.flags ρ) n = true := by simpa using hn
    have go : ∀ s1 : St,
        (let r := i₂ (g.st s1) n v (g.fd found) unwrapNext
         if r.status = .failed || (r.status = .ok && (g.fd found).isNone) then
           AAcc.mk r.st r.found r.status r.err (some r)
         else AAcc.mk r.st r.found r.status r.err none)
        = g.aacc
        (let r := i₁ s1 n v found unwrapNext
         if r.status = .failed || (r.status = .ok && found.isNone) then
           AAcc.mk r.st r.found r.status r.err (some r)
         else AAcc.mk r.st r.found r.status r.err none) := by
      intro s1
      simp only [hS g s1 n v found unwrapNext hn', Shift.res_status, Shift.res_st, Shift.res_found,
        Shift.res_err, Shift.fd_isNone]
      exact ite_frame g.aacc (fun _ => rfl) (fun _ => rfl)
    cases ignore with
    | false => exact go st
    | true => exact go { st with ignoreSE := true }
  | none =>
    cases found with
    | none => rfl
    | some l => simp [Shift.aacc, Shift.fd, List.append_assoc]

theorem anyDescend_frame (hSA : FrameA ρ a₁ a₂) (g : Shift) (node : Option Node) (level first last : Nat)
    (ignore unwrapNext : Bool) (a : AAcc) (v : Item) (hn : IndepO (g.flags ρ) node = true) :
    anyDescend a₂ node level first last ignore unwrapNext (g.aacc a) v
      = g.aacc (anyDescend a₁ node level first last ignore unwrapNext a v) := by
  obtain ⟨st, found, res, err, ret⟩ := a
  unfold anyDescend
  refine ite_frame g.aacc (fun _ => ?_) (fun _ => rfl)
  have go :
      (let r := a₂ (g.st st) node ((collection v).getD []) (g.fd found) (level + 1) first last ignore unwrapNext
       if r.status = .failed || (r.status = .ok && (g.fd found).isNone) then
         AAcc.mk r.st r.found r.status r.err (some r)
       else AAcc.mk r.st r.found r.status r.err none)
      = g.aacc
      (let r := a₁ st node ((collection v).getD []) found (level + 1) first last ignore unwrapNext
       if r.status = .failed || (r.status = .ok && found.isNone) then
         AAcc.mk r.st r.found r.status r.err (some r)
       else AAcc.mk r.st r.found r.status r.err none) := by
    simp only [hSA g st node _ found _ _ _ _ _ hn, Shift.res_status, Shift.res_st, Shift.res_found,
      Shift.res_err, Shift.fd_isNone]
    exact ite_frame g.aacc (fun _ => rfl) (fun _ => rfl)
  exact go

theorem anyStep_frame (hS : FrameI ρ i₁ i₂) (hSA : FrameA ρ a₁ a₂) (g : Shift) (node : Option Node)
    (level first last : Nat) (ignore unwrapNext : Bool) (a : AAcc) (v : Item)
    (hn : IndepO (g.flags ρ) node = true) :
    anyStep i₂ a₂ node level first last ignore unwrapNext (g.aacc a) v
      = g.aacc (anyStep i₁ a₁ node level first last ignore unwrapNext a v) := by
  obtain ⟨st, found, res, err, ret⟩ := a
  cases ret with
  | some r => rfl
  | none =>
    have h1 := anyVisit_frame hS g node level first last ignore unwrapNext ⟨st, found, res, err, none⟩ v hn
    unfold anyStep
    simp only [h1]
    generalize anyVisit i₁ node level first last ignore unwrapNext _ v = a1
    obtain ⟨st1, found1, res1, err1, ret1⟩ := a1
    cases ret1 with
    | some r1 => rfl
    | none =>
      exact anyDescend_frame hSA g node level first last ignore unwrapNext ⟨st1, found1, res1, err1, none⟩ v hn

/-- the "something was appended" test of `executeAnyItem` does not see the prefix -/
theorem fd_length_gt_frame (g : Shift) {f found : Found} (h : Shape f found) :
    (((g.fd found).getD []).length > ((g.fd f).getD []).length)
      ↔ ((found.getD []).length > (f.getD []).length) := by
  cases f with
  | none =>
    have := h.1 rfl
    subst this
    simp
  | some l =>
    obtain ⟨l', hl⟩ := h.2 l rfl
    subst hl
    simp [Shift.fd]

theorem executeAnyItem_frame (hI : GoodI i₁) (hA : GoodA a₁) (hS : FrameI ρ i₁ i₂) (hSA : FrameA ρ a₁ a₂)
    (g : Shift) (s : St) (node : Option Node) (vs : List Item) (f : Found) (level first last : Nat)
    (ignore unwrapNext : Bool) (hn : IndepO (g.flags ρ) node = true) :
    executeAnyItem i₂ a₂ (g.st s) node vs (g.fd f) level first last ignore unwrapNext
      = g.res (executeAnyItem i₁ a₁ s node vs f level first last ignore unwrapNext) := by
  unfold executeAnyItem
  refine ite_frame g.res (fun _ => rfl) (fun _ => ?_)
  have h0 : AInv s f ⟨s, f, .notFound, none, none⟩ := by
    refine ⟨fun r hr => by simp at hr, fun _ => ⟨⟨?_, fun h => by simpa [restoreIgn] using h⟩, Shape.refl f, rfl⟩⟩
    simp [St.ctxEq, restoreIgn]
  have hstep : ∀ a v, AInv s f a → AInv s f (anyStep i₁ a₁ node level first last ignore unwrapNext a v) :=
    fun a v h => anyStep_inv hI hA node level first last ignore unwrapNext s f a v h
  have hinv : AInv s f (vs.foldl (anyStep i₁ a₁ node level first last ignore unwrapNext)
      ⟨s, f, .notFound, none, none⟩) := foldl_inv (AInv s f) _ _ _ h0 hstep
  have hfold := foldl_frame (AInv s f) g.aacc (anyStep i₁ a₁ node level first last ignore unwrapNext)
    (anyStep i₂ a₂ node level first last ignore unwrapNext) vs
    ⟨s, f, .notFound, none, none⟩ h0 hstep
    (fun a v _ => anyStep_frame hS hSA g node level first last ignore unwrapNext a v hn)
  have e0 : g.aacc ⟨s, f, .notFound, none, none⟩ = ⟨g.st s, g.fd f, .notFound, none, none⟩ := rfl
  rw [e0] at hfold
  dsimp only
  rw [hfold]
  generalize List.foldl (anyStep i₁ a₁ node level first last ignore unwrapNext) _ _ = a at hinv
  obtain ⟨st, found, res, err, ret⟩ := a
  cases ret with
  | some r => rfl
  | none =>
    have hsh : Shape f found := (hinv.2 rfl).2.1
    have hlen := fd_length_gt_frame g hsh
    simp only [Shift.aacc, Option.map_none, Shift.fd_isSome, hlen, Shift.res_mk, Shift.restoreIgn]
    rfl

theorem anyInto_frame (hSA : FrameA ρ a₁ a₂) (g : Shift) (s : St) (first last : Nat)
    (nx : Option Node) (v : Item) (f : Found) (hn : IndepO (g.flags ρ) nx = true) :
    anyInto (setRoot ρ c) a₂ (g.st s) first last nx v (g.fd f) = g.res (anyInto c a₁ s first last nx v f) := by
  unfold anyInto
  split
  · exact hSA g s nx _ f _ _ _ _ _ hn
  · exact hSA g s nx _ f _ _ _ _ _ hn
  · rfl

theorem execAnyNode_frame (hS : FrameI ρ i₁ i₂) (hSA : FrameA ρ a₁ a₂) (g : Shift) (s : St)
    (first last : Nat) (nx : Option Node) (v : Item) (f : Found) (hn : IndepO (g.flags ρ) nx = true) :
    execAnyNode (setRoot ρ c) i₂ a₂ (g.st s) first last nx v (g.fd f)
      = g.res (execAnyNode c i₁ a₁ s first last nx v f) := by
  unfold execAnyNode
  refine ite_frame g.res (fun _ => ?_) (fun _ => anyInto_frame c hSA g s first last nx v f hn)
  have hr := executeNextItem_frame c hS g { s with ignoreSE := true } nx v f hn
  simp only [Shift.st_setIgn, hr, Shift.res_status, Shift.res_st, Shift.res_found, Shift.st_ignoreSE,
    Shift.fd_isNone]
  refine ite_frame g.res (fun _ => rfl) (fun _ => ?_)
  rw [anyInto_frame c hSA g _ first last nx v _ hn]
  rfl

/-! ### subscripts -/

def Shift.idx {α : Type} (g : Shift) (p : St × Except Err α) : St × Except Err α := (g.st p.1, p.2)

theorem idx_mk_frame {α : Type} (g : Shift) (s : St) (e : Except Err α) : g.idx (s, e) = (g.st s, e) := rfl

theorem getArrayIndex_frame (hS : FrameI ρ i₁ i₂) (g : Shift) (s : St) (n : Node) (v : Item)
    (hn : Indep (g.flags ρ) n = true) :
    getArrayIndex (setRoot ρ c) i₂ (g.st s) n v = g.idx (getArrayIndex c i₁ s n v) := by
  unfold getArrayIndex
  simp only [executeItem_frame0 c hS g s n v (some []) hn, Shift.res0_status, Shift.res0_st,
    Shift.res0_found, Shift.res0_err]
  refine ite_frame g.idx (fun _ => ?_) (fun _ => ?_)
  · cases (executeItem c i₁ s n v (some [])).err with
    | none => rfl
    | some e => rfl
  · generalize (executeItem c i₁ s n v (some [])).found.getD [] = l
    cases l with
    | nil => rfl
    | cons x t =>
      cases t with
      | cons _ _ => rfl
      | nil =>
        simp only
        generalize Num.getJSONInt32 x = r
        cases r with
        | ok i => rfl
        | error e => cases e <;> rfl

theorem execSubscript_frame (hS : FrameI ρ i₁ i₂) (g : Shift) (s : St) (sub : Node) (v : Item) (size : Int)
    (hn : Indep (g.flags ρ) sub = true) :
    execSubscript (setRoot ρ c) i₂ (g.st s) sub v size = g.idx (execSubscript c i₁ s sub v size) := by
  unfold execSubscript
  split
  · rename_i l r _
    simp only [Indep, Bool.and_eq_true, indepO_some] at hn
    obtain ⟨⟨hl, hr⟩, _⟩ := hn
    rw [getArrayIndex_frame c hS g s l v hl]
    generalize getArrayIndex c i₁ s l v = p
    obtain ⟨s1, e1⟩ := p
    cases e1 with
    | error e => rfl
    | ok from_ =>
      cases r with
      | none =>
        simp only [idx_mk_frame, Shift.st_ignoreSE]
        exact ite_frame g.idx (fun _ => rfl) (fun _ => rfl)
      | some rn =>
        simp only [idx_mk_frame]
        rw [getArrayIndex_frame c hS g s1 rn v (by simpa using hr)]
        generalize getArrayIndex c i₁ s1 rn v = q
        obtain ⟨s2, e2⟩ := q
        cases e2 with
        | error e => rfl
        | ok to_ =>
          simp only [idx_mk_frame, Shift.st_ignoreSE]
          exact ite_frame g.idx (fun _ => rfl) (fun _ => rfl)
  · rfl
  · rfl

def Shift.iacc (g : Shift) (a : IAcc) : IAcc :=
  { a with st := g.st a.st, found := g.fd a.found, ret := a.ret.map g.res }

theorem indexElemStep_frame (hS : FrameI ρ i₁ i₂) (g : Shift) (nx : Option Node) (a : IAcc) (v : Item)
    (hn : IndepO (g.flags ρ) nx = true) :
    indexElemStep (setRoot ρ c) i₂ nx (g.iacc a) v = g.iacc (indexElemStep c i₁ nx a v) := by
  obtain ⟨st, found, res, err, ret⟩ := a
  cases ret with
  | some r => rfl
  | none =>
    have go :
        (let r := executeNextItem (setRoot ρ c) i₂ (g.st st) nx v (g.fd found)
         if r.status = .failed || (r.status = .ok && (g.fd found).isNone) then
           IAcc.mk r.st r.found r.status r.err (some r)
         else IAcc.mk r.st r.found r.status r.err none)
        = g.iacc
        (let r := executeNextItem c i₁ st nx v found
         if r.status = .failed || (r.status = .ok && found.isNone) then
           IAcc.mk r.st r.found r.status r.err (some r)
         else IAcc.mk r.st r.found r.status r.err none) := by
      simp only [executeNextItem_frame c hS g st nx v found hn, Shift.res_status, Shift.res_st,
        Shift.res_found, Shift.res_err, Shift.fd_isNone]
      exact ite_frame g.iacc (fun _ => rfl) (fun _ => rfl)
    unfold indexElemStep
    refine ite_frame g.iacc (fun _ => rfl) (fun _ => ?_)
    split
    · rfl
    · cases found <;> exact ite_frame g.iacc (fun _ => rfl) (fun _ => go)

theorem indexSubStep_frame (hS : FrameI ρ i₁ i₂) (g : Shift) (nx : Option Node) (xs : List Item) (v : Item)
    (a : IAcc) (sub : Node) (hsub : Indep (g.flags ρ) sub = true) (hn : IndepO (g.flags ρ) nx = true) :
    indexSubStep (setRoot ρ c) i₂ nx xs v (g.iacc a) sub = g.iacc (indexSubStep c i₁ nx xs v a sub) := by
  obtain ⟨st, found, res, err, ret⟩ := a
  cases ret with
  | some r => rfl
  | none =>
    have hss := execSubscript_frame c hS g st sub v xs.length hsub
    unfold indexSubStep
    refine ite_frame g.iacc (fun _ => rfl) (fun _ => ?_)
    rw [show execSubscript (setRoot ρ c) i₂ (g.iacc ⟨st, found, res, err, none⟩).st sub v xs.length
          = g.idx (execSubscript c i₁ st sub v xs.length) from hss,
        show execSubscript c i₁ (IAcc.mk st found res err none).st sub v xs.length
          = execSubscript c i₁ st sub v xs.length from rfl]
    generalize execSubscript c i₁ st sub v xs.length = p
    obtain ⟨s1, e1⟩ := p
    cases e1 with
    | error e =>
      show IAcc.mk (g.st s1) (g.fd found) res err (some (returnError (g.st s1) (g.fd found) e))
        = g.iacc (IAcc.mk s1 found res err (some (returnError s1 found e)))
      rw [returnError_frame g s1 found e]
      rfl
    | ok ft =>
      obtain ⟨from_, to_⟩ := ft
      exact foldl_frame (fun _ => True) g.iacc (indexElemStep c i₁ nx) (indexElemStep (setRoot ρ c) i₂ nx)
        (sliceRange xs from_ to_) ⟨s1, found, res, err, none⟩ trivial (fun _ _ _ => trivial)
        (fun a' v' _ => indexElemStep_frame c hS g nx a' v' hn)

/-- two loops in lock step, the step lemma only for the elements of the list -/
theorem foldl_mem_frame {α β : Type} (k : β → β) (step₁ step₂ : β → α → β) (xs : List α) (b : β)
    (hstep : ∀ b x, x ∈ xs → step₂ (k b) x = k (step₁ b x)) :
    xs.foldl step₂ (k b) = k (xs.foldl step₁ b) := by
  induction xs generalizing b with
  | nil => rfl
  | cons x xs ih =>
    simp only [List.foldl_cons]
    rw [hstep b x (List.mem_cons_self ..)]
    exact ih _ (fun b y hy => hstep b y (List.mem_cons_of_mem _ hy))

theorem execArrayIndex_frame (hS : FrameI ρ i₁ i₂) (g : Shift) (s : St) (subs : List Node)
    (nx : Option Node) (v : Item) (f : Found)
    (hsubs : IndepL { g.flags ρ with lst := true } subs = true)
    (hn : IndepO { g.flags ρ with lst := true } nx = true) :
    execArrayIndex (setRoot ρ c) i₂ (g.st s) subs nx v (g.fd f)
      = g.res (execArrayIndex c i₁ s subs nx v f) := by
  unfold execArrayIndex
  rw [show arrayOf (setRoot ρ c) v = arrayOf c v from rfl]
  generalize arrayOf c v = o
  cases o with
  | none => exact structural_frame g s f
  | some xs =>
    have hfold := foldl_mem_frame g.noInn.iacc (indexSubStep c i₁ nx xs v)
      (indexSubStep (setRoot ρ c) i₂ nx xs v) subs
      ⟨{ s with innermost := xs.length }, f, .notFound, none, none⟩
      (fun a sub hm => indexSubStep_frame c hS g.noInn nx xs v a sub
        (by rw [Shift.flags_noInn]; exact indepL_mem hsubs hm) (by rw [Shift.flags_noInn]; exact hn))
    have e0 : g.noInn.iacc ⟨{ s with innermost := xs.length }, f, .notFound, none, none⟩
        = ⟨{ g.st s with innermost := xs.length }, g.fd f, .notFound, none, none⟩ := rfl
    rw [e0] at hfold
    dsimp only
    rw [hfold]
    generalize List.foldl (indexSubStep c i₁ nx xs v) _ _ = a
    obtain ⟨st, found, res, err, ret⟩ := a
    cases ret with
    | some r =>
      simp only [Shift.iacc, Option.map_some, Shift.res, Shift.restoreInn]
      rfl
    | none =>
      simp only [Shift.iacc, Option.map_none, Shift.res, Shift.restoreInn]
      rfl

/-! ### dispatch and the induction over fuel -/

theorem boolResult_frame (hS : FrameI ρ i₁ i₂) (hSB : FrameB ρ b₁ b₂) (g : Shift) (s : St) (n : Node)
    (nx : Option Node) (v : Item) (f : Found)
    (hself : Indep (g.flags ρ) n = true) (hn : IndepO (g.flags ρ) nx = true) :
    appendBoolResult (setRoot ρ c) i₂ nx (g.fd f) (b₂ (g.st s) n v true)
      = g.res (appendBoolResult c i₁ nx f (b₁ s n v true)) := by
  rw [hSB g s n v true hself]
  exact appendBoolResult_frame c hS g nx f _ hn

theorem execBinaryNode_frame (hS : FrameI ρ i₁ i₂) (hSB : FrameB ρ b₁ b₂) (hSA : FrameA ρ a₁ a₂) (g : Shift)
    (s : St) (n : Node) (op : BinOp) (l r nx : Option Node) (v : Item) (f : Found) (unwrap : Bool)
    (hself : Indep (g.flags ρ) n = true) (hl : IndepO (g.flags ρ) l = true) (hr : IndepO (g.flags ρ) r = true)
    (hn : IndepO (g.flags ρ) nx = true) :
    execBinaryNode (setRoot ρ c) i₂ b₂ a₂ (g.st s) n op l r nx v (g.fd f) unwrap
      = g.res (execBinaryNode c i₁ b₁ a₁ s n op l r nx v f unwrap) := by
  unfold execBinaryNode
  refine ite_frame g.res (fun _ => boolResult_frame c hS hSB g s n nx v f hself hn) (fun _ => ?_)
  refine ite_frame g.res (fun _ => execBinaryMathExpr_frame c hS g s op l r nx v f hl hr hn) (fun _ => ?_)
  split
  · exact execConvMethod_frame c hS hSA g s n nx v f unwrap _ hself hn
  · rfl

theorem execUnaryNode_frame (hS : FrameI ρ i₁ i₂) (hSB : FrameB ρ b₁ b₂) (hSA : FrameA ρ a₁ a₂) (g : Shift)
    (s : St) (n : Node) (op : UnOp) (x nx : Option Node) (v : Item) (f : Found) (unwrap : Bool)
    (hself : Indep (g.flags ρ) n = true) (hk : Indep (g.flags ρ) (.unary op x nx) = true) :
    execUnaryNode (setRoot ρ c) i₂ b₂ a₂ (g.st s) n op x nx v (g.fd f) unwrap
      = g.res (execUnaryNode c i₁ b₁ a₁ s n op x nx v f unwrap) := by
  unfold execUnaryNode
  cases op <;> simp only [Indep, Bool.and_eq_true] at hk <;> obtain ⟨hx, hn⟩ := hk <;> simp only
  · exact boolResult_frame c hS hSB g s n nx v f hself hn
  · exact boolResult_frame c hS hSB g s n nx v f hself hn
  · exact boolResult_frame c hS hSB g s n nx v f hself hn
  · exact execUnaryMathExpr_frame c hS g s x nx v _ f hx hn
  · exact execUnaryMathExpr_frame c hS g s x nx v _ f hx hn
  · -- filter
    split
    · exact unwrapTargetArray_frame hSA g s n _ f hself
    · cases x with
      | none => rfl
      | some cond =>
        have hc : Indep { g.flags ρ with cur := true } cond = true := by simpa using hx
        simp only [executeNestedBoolItem_frame hSB g s cond v hc, Shift.pres_err, Shift.pres_st,
          Shift.pres_out]
        refine ite_frame g.res (fun _ => rfl) (fun _ => ?_)
        exact ite_frame g.res (fun _ => rfl) (fun _ => executeNextItem_frame c hS g _ nx v f hn)
  all_goals
    split
    · exact hSA g s (some n) _ f _ _ _ _ _ (by simpa using hself)
    · exact executeDateTimeMethod_frame c hS g s _ x nx v f hn

theorem dispatch_frame (hS : FrameI ρ i₁ i₂) (hSB : FrameB ρ b₁ b₂) (hSA : FrameA ρ a₁ a₂) (g : Shift)
    (s : St) (n : Node) (v : Item) (f : Found) (unwrap : Bool) (hn : Indep (g.flags ρ) n = true) :
    dispatch (setRoot ρ c) i₂ b₂ a₂ (g.st s) n v (g.fd f) unwrap
      = g.res (dispatch c i₁ b₁ a₁ s n v f unwrap) := by
  unfold dispatch
  split
  · exact execConstNode_frame c hS hSA g s _ _ _ v f unwrap hn hn
  · exact execLiteral_frame c hS g s _ _ f (by simpa [Indep] using hn)
  · exact execLiteral_frame c hS g s _ _ f (by simpa [Indep] using hn)
  · exact execLiteral_frame c hS g s _ _ f (by simpa [Indep] using hn)
  · exact execVariable_frame c hS g s _ _ f (by simpa [Indep] using hn)
  · exact execKeyNode_frame c hS hSA g s _ _ _ v f unwrap hn (by simpa [Indep] using hn)
  · have h := hn
    simp only [Indep, Bool.and_eq_true] at h
    exact execBinaryNode_frame c hS hSB hSA g s _ _ _ _ _ v f unwrap hn h.1.1 h.1.2 h.2
  · exact execUnaryNode_frame c hS hSB hSA g s _ _ _ _ v f unwrap hn hn
  · have h := hn
    simp only [Indep, Bool.and_eq_true] at h
    exact boolResult_frame c hS hSB g s _ _ v f hn h.2
  · rename_i m nx
    have h := hn
    simp only [Indep, Bool.and_eq_true] at h
    exact execMethodNode_frame c hS hSA g s _ m nx v f unwrap hn
      (fun hm => by subst hm; simpa using h.1) h.2
  · exact execAnyNode_frame c hS hSA g s _ _ _ v f (by simpa [Indep] using hn)
  · have h := hn
    simp only [Indep, Bool.and_eq_true] at h
    exact execArrayIndex_frame c hS g s _ _ v f h.1 h.2

theorem poll_frame (g : Shift) (s : St) : poll (g.st s) = (poll s).map g.st := by
  unfold poll
  simp only [Shift.st_budget]
  split <;> rfl

end frame


/-- **the frame simulation holds for the three dispatchers, for every fuel** -/
theorem frame_all (ρ : Option Item) (c : Ctx) : ∀ fuel : Nat,
    FrameI ρ (xItem c fuel) (xItem (setRoot ρ c) fuel) ∧ FrameB ρ (xBool c fuel) (xBool (setRoot ρ c) fuel) ∧
    FrameA ρ (xAny c fuel) (xAny (setRoot ρ c) fuel) := by
  intro fuel
  induction fuel with
  | zero =>
    refine ⟨fun g s n v f u _ => ?_, fun g s n v b _ => ?_, fun g s n vs f l a b i u _ => ?_⟩
    · simp only [xItem]; rfl
    · simp only [xBool]; rfl
    · simp only [xAny]; rfl
  | succ fuel ih =>
    obtain ⟨hS, hSB, hSA⟩ := ih
    obtain ⟨hI, hB, hA⟩ := good_all c fuel
    refine ⟨fun g s n v f u hn => ?_, fun g s n v b hn => ?_, fun g s n vs f l a b i u hn => ?_⟩
    · simp only [xItem]
      rw [poll_frame]
      cases hp : poll s with
      | none => rfl
      | some s' => exact dispatch_frame c hS hSB hSA g s' n v f u hn
    · simp only [xBool]; exact executeBoolItem_frame c hS hSB g s n v b hn
    · simp only [xAny]; exact executeAnyItem_frame hI hA hS hSA g s n vs f l a b i u hn

theorem xItem_frame (ρ : Option Item) (c : Ctx) (fuel : Nat) (g : Shift) (s : St) (n : Node) (v : Item)
    (f : Found) (u : Bool) (hn : Indep (g.flags ρ) n = true) :
    xItem (setRoot ρ c) fuel (g.st s) n v (g.fd f) u = g.res (xItem c fuel s n v f u) :=
  (frame_all ρ c fuel).1 g s n v f u hn

theorem xBool_frame (ρ : Option Item) (c : Ctx) (fuel : Nat) (g : Shift) (s : St) (n : Node) (v : Item)
    (b : Bool) (hn : Indep (g.flags ρ) n = true) :
    xBool (setRoot ρ c) fuel (g.st s) n v b = g.pres (xBool c fuel s n v b) :=
  (frame_all ρ c fuel).2.1 g s n v b hn

theorem xAny_frame (ρ : Option Item) (c : Ctx) (fuel : Nat) (g : Shift) (s : St) (node : Option Node)
    (vs : List Item) (f : Found) (level first last : Nat) (ign un : Bool)
    (hn : IndepO (g.flags ρ) node = true) :
    xAny (setRoot ρ c) fuel (g.st s) node vs (g.fd f) level first last ign un
      = g.res (xAny c fuel s node vs f level first last ign un) :=
  (frame_all ρ c fuel).2.2 g s node vs f level first last ign un hn


/-! ## 4. the composition simulation -/

/-- the shift that adds the sticky flags of `t` -/
def tg (t : St) : Shift := { tp := t.panicked, tf := t.oof, tc := t.sawCancel }

/-- the state `s` with the sticky flags of `t` added -/
def mix (t s : St) : St := (tg t).st s
def mixR (t : St) (r : Res) : Res := (tg t).res0 r
def mixP (t : St) (p : PRes) : PRes := (tg t).pres p

@[simp] theorem mix_current (t s : St) : (mix t s).current = s.current := rfl
@[simp] theorem mix_baseAddr (t s : St) : (mix t s).baseAddr = s.baseAddr := rfl
@[simp] theorem mix_baseId (t s : St) : (mix t s).baseId = s.baseId := rfl
@[simp] theorem mix_lastGenId (t s : St) : (mix t s).lastGenId = s.lastGenId := rfl
@[simp] theorem mix_innermost (t s : St) : (mix t s).innermost = s.innermost := rfl
@[simp] theorem mix_ignoreSE (t s : St) : (mix t s).ignoreSE = s.ignoreSE := rfl
@[simp] theorem mix_verbose (t s : St) : (mix t s).verbose = s.verbose := rfl
@[simp] theorem mix_budget (t s : St) : (mix t s).budget = s.budget := rfl
@[simp] theorem mix_sawCancel (t s : St) : (mix t s).sawCancel = (s.sawCancel || t.sawCancel) := rfl
@[simp] theorem mix_panicked (t s : St) : (mix t s).panicked = (s.panicked || t.panicked) := rfl
@[simp] theorem mix_oof (t s : St) : (mix t s).oof = (s.oof || t.oof) := rfl
@[simp] theorem mixR_st (t : St) (r : Res) : (mixR t r).st = mix t r.st := rfl
@[simp] theorem mixR_found (t : St) (r : Res) : (mixR t r).found = r.found := rfl
@[simp] theorem mixR_status (t : St) (r : Res) : (mixR t r).status = r.status := rfl
@[simp] theorem mixR_err (t : St) (r : Res) : (mixR t r).err = r.err := rfl
@[simp] theorem mixP_st (t : St) (p : PRes) : (mixP t p).st = mix t p.st := rfl
@[simp] theorem mixP_out (t : St) (p : PRes) : (mixP t p).out = p.out := rfl
@[simp] theorem mixP_err (t : St) (p : PRes) : (mixP t p).err = p.err := rfl

theorem St.ext' {a b : St} (h1 : a.current = b.current) (h2 : a.baseAddr = b.baseAddr) (h3 : a.baseId = b.baseId)
    (h4 : a.lastGenId = b.lastGenId) (h5 : a.innermost = b.innermost) (h6 : a.ignoreSE = b.ignoreSE)
    (h7 : a.verbose = b.verbose) (h8 : a.budget = b.budget) (h9 : a.sawCancel = b.sawCancel)
    (h10 : a.panicked = b.panicked) (h11 : a.oof = b.oof) : a = b := by
  cases a; cases b; simp_all

/-- `a`'s sticky flags are among `b`'s -/
def StkLe (a b : St) : Prop :=
  (a.panicked = true → b.panicked = true) ∧ (a.oof = true → b.oof = true) ∧
  (a.sawCancel = true → b.sawCancel = true)

theorem StkLe.refl (a : St) : StkLe a a := ⟨id, id, id⟩
theorem StkLe.trans {a b c : St} (h1 : StkLe a b) (h2 : StkLe b c) : StkLe a c :=
  ⟨fun h => h2.1 (h1.1 h), fun h => h2.2.1 (h1.2.1 h), fun h => h2.2.2 (h1.2.2 h)⟩
theorem stkLe_mix_left (t s : St) : StkLe t (mix t s) := by
  refine ⟨fun h => ?_, fun h => ?_, fun h => ?_⟩ <;> simp [h]
theorem stkLe_mix_right (t s : St) : StkLe s (mix t s) := by
  refine ⟨fun h => ?_, fun h => ?_, fun h => ?_⟩ <;> simp [h]
theorem StkLe.mix {t t' s s' : St} (h1 : StkLe t t') (h2 : StkLe s s') : StkLe (mix t s) (mix t' s') := by
  obtain ⟨a1, a2, a3⟩ := h1
  obtain ⟨b1, b2, b3⟩ := h2
  refine ⟨?_, ?_, ?_⟩ <;> simp only [mix_panicked, mix_oof, mix_sawCancel, Bool.or_eq_true] <;> intro h <;>
    rcases h with h | h <;> simp_all
theorem stkLe_of_mix_eq {t s : St} (h : s = mix t s) : StkLe t s := by
  rw [h]; exact stkLe_mix_left t s
theorem mix_of_stkLe {t s : St} (h : StkLe t s) : mix t s = s := by
  obtain ⟨h1, h2, h3⟩ := h
  apply St.ext' <;> simp
  · cases hs : s.sawCancel <;> cases ht : t.sawCancel <;> simp_all
  · cases hs : s.panicked <;> cases ht : t.panicked <;> simp_all
  · cases hs : s.oof <;> cases ht : t.oof <;> simp_all
theorem mix_self (s : St) : mix s s = s := mix_of_stkLe (StkLe.refl s)

theorem mix_mix (t t' s : St) (h : StkLe t t') : mix t' (mix t s) = mix t' s := by
  obtain ⟨h1, h2, h3⟩ := h
  apply St.ext' <;> simp
  · cases hs : s.sawCancel <;> cases ht : t.sawCancel <;> simp_all
  · cases hs : s.panicked <;> cases ht : t.panicked <;> simp_all
  · cases hs : s.oof <;> cases ht : t.oof <;> simp_all

@[simp] theorem tg_fd (t : St) (f : Found) : (tg t).fd f = f := by cases f <;> simp [tg, Shift.fd]
@[simp] theorem tg_flags (t : St) : (tg t).flags none = Flags.top := rfl
theorem tg_res (t : St) (r : Res) : (tg t).res r = mixR t r := by simp [Shift.res, mixR, Shift.res0]



/-- where the feed state `t` and the state of the run of the prefix agree -/
def Junc (t s : St) : Prop :=
  t.current = s.current ∧ t.verbose = s.verbose ∧ t.ignoreSE = s.ignoreSE ∧ t.budget = none ∧ s.budget = none

theorem Junc.ofCtx {t s s' : St} (h : Junc t s) (hc : s'.ctxEq s) (hb : s'.budget = none) : Junc t s' := by
  obtain ⟨h1, h2, h3, h4, h5⟩ := h
  simp [St.ctxEq] at hc
  exact ⟨by rw [h1, hc.1], by rw [h2, hc.2.2.2.2.2], by rw [h3, hc.2.2.2.2.1], h4, hb⟩

theorem Junc.ofCtxL {t t' s : St} (h : Junc t s) (hc : t'.ctxEq t) (hb : t'.budget = none) : Junc t' s := by
  obtain ⟨h1, h2, h3, h4, h5⟩ := h
  simp [St.ctxEq] at hc
  exact ⟨by rw [hc.1, h1], by rw [hc.2.2.2.2.2, h2], by rw [hc.2.2.2.2.1, h3], hb, h5⟩

section comp
variable (c : Ctx) (S : Node) (Φ : Nat)

/-- `r` is what a run of `S` on `x` returns when started in state `t` with result list `l` -/
def KR (t : St) (x : Item) (l : List Item) (r : Res) : Prop :=
  ∃ fuel, fuel ≤ Φ ∧ r = xItem c fuel t S x (some l) c.lax

theorem KR.good {t : St} {x : Item} {l : List Item} {r : Res} (h : KR c S Φ t x l r) : Good t (some l) r := by
  obtain ⟨fuel, _, rfl⟩ := h; exact xItem_good c fuel t S x (some l) c.lax

theorem KR.bud {t : St} {x : Item} {l : List Item} {r : Res} (h : KR c S Φ t x l r) (hb : t.budget = none) :
    r.st.budget = none := by
  obtain ⟨fuel, _, rfl⟩ := h; exact xItem_bud c fuel t S x (some l) c.lax hb

/-- feeding the items `xs`, in order, to `S`, all runs succeeding: from state `t` and list `l` to `t'`, `l'` -/
inductive FeedOk : St → List Item → List Item → St → List Item → Prop
  | nil (t : St) (l : List Item) : FeedOk t l [] t l
  | cons {t : St} {x : Item} {l : List Item} {r : Res} {l1 : List Item} {xs : List Item} {t' : St} {l' : List Item} :
      KR c S Φ t x l r → r.status ≠ .failed → r.found = some l1 → FeedOk r.st l1 xs t' l' → FeedOk t l (x :: xs) t' l'

theorem FeedOk.append {t t1 t2 : St} {l l1 l2 xs ys : List Item} (h1 : FeedOk c S Φ t l xs t1 l1)
    (h2 : FeedOk c S Φ t1 l1 ys t2 l2) : FeedOk c S Φ t l (xs ++ ys) t2 l2 := by
  induction h1 with
  | nil t l => simpa using h2
  | cons hk hnf hf _ ih => exact FeedOk.cons hk hnf hf (ih h2)

theorem FeedOk.ctx {t t' : St} {l l' xs : List Item} (h : FeedOk c S Φ t l xs t' l') :
    t'.ctxEq t ∧ (t.budget = none → t'.budget = none) := by
  induction h with
  | nil t l => exact ⟨St.ctxEq.refl t, id⟩
  | cons hk hnf hf _ ih =>
    exact ⟨ih.1.trans (KR.good c S Φ hk).ctx, fun hb => ih.2 (KR.bud c S Φ hk hb)⟩

theorem FeedOk.junc {t t' s : St} {l l' xs : List Item} (h : FeedOk c S Φ t l xs t' l') (hj : Junc t s) : Junc t' s :=
  hj.ofCtxL (h.ctx c S Φ).1 ((h.ctx c S Φ).2 hj.2.2.2.1)

/-- all runs of `S` succeeded -/
def CompOk (t : St) (l m : List Item) (A B : Res) : Prop :=
  ∃ xs t' l', B.found = some (m ++ xs) ∧ FeedOk c S Φ t l xs t' l' ∧ A.found = some l' ∧ A.st = mix t' B.st ∧
    A.err = B.err ∧ (A.status = .failed ↔ B.status = .failed)

/-- the run of `S` on the item `x` failed, after the runs on `xs` succeeded; the run of the prefix alone goes on -/
def CompFail (t : St) (l m : List Item) (A : Res) (Bst : St) (Bfound : Found) : Prop :=
  ∃ xs x rest t1 l1 F, Bfound = some (m ++ xs ++ x :: rest) ∧ FeedOk c S Φ t l xs t1 l1 ∧ KR c S Φ t1 x l1 F ∧
    F.status = .failed ∧ A.status = .failed ∧ A.err = F.err ∧ A.found = F.found ∧
    StkLe F.st A.st ∧ StkLe A.st (mix F.st Bst)

def Comp (t : St) (l m : List Item) (A B : Res) : Prop :=
  CompOk c S Φ t l m A B ∨ CompFail c S Φ t l m A B.st B.found

end comp

section comp2
variable (c : Ctx) (S : Node) (Φ : Nat)

/-- the junction sees the `ignoreStructuralErrors` flag of the start state: either it is already set
    (lax mode) or the chain has no `.**` step (which sets it for the rest of the chain) -/
def ChainOK (s : St) (n : Node) : Prop := s.ignoreSE = true ∨ NoAny n = true
def ChainOKO (s : St) (nx : Option Node) : Prop := s.ignoreSE = true ∨ NoAnyO nx = true

def CompI (item : ItemK) : Prop :=
  ∀ sB t l m n v u, Junc t sB → ChainOK sB n →
    Comp c S Φ t l m (item (mix t sB) (append n S) v (some l) u) (item sB n v (some m) u)

def CompA (any : AnyK) : Prop :=
  ∀ sB t l m node vs lv a b ign un, Junc t sB → ChainOKO sB node → (ign = true → sB.ignoreSE = true) →
    (node = none → un = c.lax) →
    Comp c S Φ t l m (any (mix t sB) (some (appendO node S)) vs (some l) lv a b ign un)
      (any sB node vs (some m) lv a b ign un)

/-- what the per-function lemmas assume about the recursive calls -/
structure Hyp (item : ItemK) (bool : BoolK) (any : AnyK) : Prop where
  goodI : GoodI item
  goodB : GoodB bool
  goodA : GoodA any
  budI : BudI item
  budB : BudB bool
  budA : BudA any
  frI : FrameI none item item
  frB : FrameB none bool bool
  frA : FrameA none any any
  /-- the junction: the run of `S` in the composed run is the run of `S` from the feed state -/
  jn : ∀ sB t x l, Junc t sB →
    ∃ r, KR c S Φ t x l r ∧ item (mix t sB) S x (some l) c.lax = ⟨mix r.st sB, r.found, r.status, r.err⟩
  ci : CompI c S Φ item
  ca : CompA c S Φ any
  bnext : ∀ s n v, bool s (append n S) v true = bool s n v true

variable {c S Φ} {item : ItemK} {bool : BoolK} {any : AnyK}

theorem Hyp.frameI (H : Hyp c S Φ item bool any) (t s : St) (n : Node) (v : Item) (f : Found) (u : Bool) :
    item (mix t s) n v f u = mixR t (item s n v f u) := by
  have h := H.frI (tg t) s n v f u (indep_top n)
  rw [tg_fd, tg_res] at h
  exact h

theorem Hyp.frameB (H : Hyp c S Φ item bool any) (t s : St) (n : Node) (v : Item) (b : Bool) :
    bool (mix t s) n v b = mixP t (bool s n v b) :=
  H.frB (tg t) s n v b (indep_top n)

theorem Hyp.frameA (H : Hyp c S Φ item bool any) (t s : St) (node : Option Node) (vs : List Item) (f : Found)
    (l a b : Nat) (i u : Bool) :
    any (mix t s) node vs f l a b i u = mixR t (any s node vs f l a b i u) := by
  have h := H.frA (tg t) s node vs f l a b i u (indepO_top node)
  rw [tg_fd, tg_res] at h
  exact h

theorem Hyp.monoI (H : Hyp c S Φ item bool any) (s : St) (n : Node) (v : Item) (f : Found) (u : Bool) :
    StkLe s (item s n v f u).st := by
  have h := H.frameI s s n v f u
  rw [mix_self] at h
  exact stkLe_of_mix_eq (congrArg Res.st h)

theorem Hyp.monoA (H : Hyp c S Φ item bool any) (s : St) (node : Option Node) (vs : List Item) (f : Found)
    (l a b : Nat) (i u : Bool) : StkLe s (any s node vs f l a b i u).st := by
  have h := H.frameA s s node vs f l a b i u
  rw [mix_self] at h
  exact stkLe_of_mix_eq (congrArg Res.st h)

/-! ### building blocks -/

/-- both runs return the same result without evaluating the rest of the chain -/
theorem Comp.ofBoth (t sB : St) (l m : List Item) (st : Status) (e : Option Err) :
    Comp c S Φ t l m ⟨mix t sB, some l, st, e⟩ ⟨sB, some m, st, e⟩ :=
  Or.inl ⟨[], t, l, by simp, FeedOk.nil t l, rfl, rfl, rfl, Iff.rfl⟩

theorem CompOk.ofBoth (t sB : St) (l m : List Item) (st : Status) (e : Option Err) :
    CompOk c S Φ t l m ⟨mix t sB, some l, st, e⟩ ⟨sB, some m, st, e⟩ :=
  ⟨[], t, l, by simp, FeedOk.nil t l, rfl, rfl, rfl, Iff.rfl⟩

theorem returnVerboseError_compOk (t sB : St) (l m : List Item) :
    CompOk c S Φ t l m (returnVerboseError (mix t sB) (some l)) (returnVerboseError sB (some m)) := by
  unfold returnVerboseError
  by_cases h : sB.verbose = true
  · have h' : (mix t sB).verbose = true := h
    rw [if_pos h', if_pos h]; exact CompOk.ofBoth _ _ _ _ _ _
  · have h' : ¬ (mix t sB).verbose = true := h
    rw [if_neg h', if_neg h]; exact CompOk.ofBoth _ _ _ _ _ _

theorem returnError_compOk (t sB : St) (l m : List Item) (e : Err) :
    CompOk c S Φ t l m (returnError (mix t sB) (some l) e) (returnError sB (some m) e) := by
  unfold returnError
  by_cases h : (sB.verbose || !e.isVerbose) = true
  · have h' : ((mix t sB).verbose || !e.isVerbose) = true := h
    rw [if_pos h', if_pos h]; exact CompOk.ofBoth _ _ _ _ _ _
  · have h' : ¬ ((mix t sB).verbose || !e.isVerbose) = true := h
    rw [if_neg h', if_neg h]; exact CompOk.ofBoth _ _ _ _ _ _

/-- both runs restore context fields at exit -/
theorem Comp.frame {t : St} {l m : List Item} {A B : Res} (ρ : St → St)
    (hρ : ∀ t s, ρ (mix t s) = mix t (ρ s))
    (hstk : ∀ s, (ρ s).panicked = s.panicked ∧ (ρ s).oof = s.oof ∧ (ρ s).sawCancel = s.sawCancel)
    (h : Comp c S Φ t l m A B) : Comp c S Φ t l m { A with st := ρ A.st } { B with st := ρ B.st } := by
  rcases h with ⟨xs, t', l', h1, h2, h3, h4, h5, h6⟩ | ⟨xs, x, rest, t1, l1, F, h1, h2, h3, h4, h5, h6, h7, h8, h9⟩
  · exact Or.inl ⟨xs, t', l', h1, h2, h3, by simp only [h4, hρ], h5, h6⟩
  · refine Or.inr ⟨xs, x, rest, t1, l1, F, h1, h2, h3, h4, h5, h6, h7, ?_, ?_⟩
    · obtain ⟨a, b, d⟩ := hstk A.st
      exact ⟨by rw [a]; exact h8.1, by rw [b]; exact h8.2.1, by rw [d]; exact h8.2.2⟩
    · obtain ⟨a, b, d⟩ := hstk A.st
      obtain ⟨a', b', d'⟩ := hstk B.st
      refine ⟨?_, ?_, ?_⟩
      · rw [a]; intro h; have := h9.1 h; simp at this ⊢; rw [a']; exact this
      · rw [b]; intro h; have := h9.2.1 h; simp at this ⊢; rw [b']; exact this
      · rw [d]; intro h; have := h9.2.2 h; simp at this ⊢; rw [d']; exact this

theorem executeNextItem_comp (H : Hyp c S Φ item bool any) {t sB : St} (l m : List Item) (nx : Option Node)
    (v : Item) (hj : Junc t sB) (hc : ChainOKO sB nx) :
    Comp c S Φ t l m (executeNextItem c item (mix t sB) (some (appendO nx S)) v (some l))
      (executeNextItem c item sB nx v (some m)) := by
  cases nx with
  | some n =>
    simp only [executeNextItem, executeItem, appendO_some]
    exact H.ci sB t l m n v c.lax hj (by simpa [ChainOKO, ChainOK] using hc)
  | none =>
    simp only [executeNextItem, executeItem, appendO_none]
    obtain ⟨r, hr, hA⟩ := H.jn sB t v l hj
    rw [hA]
    have hg := KR.good c S Φ hr
    by_cases hf : r.status = .failed
    · refine Or.inr ⟨[], v, [], t, l, r, by simp [Found.append], FeedOk.nil t l, hr, hf, hf, rfl, rfl, ?_, ?_⟩
      · exact stkLe_mix_left _ _
      · exact StkLe.refl _
    · obtain ⟨ys, hys⟩ := hg.shape.2 l rfl
      refine Or.inl ⟨[v], r.st, l ++ ys, by simp [Found.append], ?_, hys, rfl, ?_, ?_⟩
      · exact FeedOk.cons hr hf hys (FeedOk.nil _ _)
      · cases he : r.err with
        | none => rfl
        | some e => exact absurd (hg.errFailed (by simp [he])) hf
      · simp [hf]

theorem Junc.good {t s : St} {f : Found} {r : Res} (hj : Junc t s) (hg : Good s f r) (hb : r.st.budget = none) :
    Junc t r.st := hj.ofCtx hg.ctx hb

/-- both runs branch on the same condition -/
theorem comp_ite {p : Prop} [Decidable p] {t : St} {l m : List Item} {A A' B B' : Res}
    (h1 : p → Comp c S Φ t l m A B) (h2 : ¬ p → Comp c S Φ t l m A' B') :
    Comp c S Φ t l m (if p then A else A') (if p then B else B') := by
  by_cases h : p
  · rw [if_pos h, if_pos h]; exact h1 h
  · rw [if_neg h, if_neg h]; exact h2 h

theorem returnVerboseError_comp (t sB : St) (l m : List Item) :
    Comp c S Φ t l m (returnVerboseError (mix t sB) (some l)) (returnVerboseError sB (some m)) := by
  unfold returnVerboseError
  simp only [mix_verbose]
  exact comp_ite (fun _ => Comp.ofBoth _ _ _ _ _ _) (fun _ => Comp.ofBoth _ _ _ _ _ _)

theorem returnError_comp (t sB : St) (l m : List Item) (e : Err) :
    Comp c S Φ t l m (returnError (mix t sB) (some l) e) (returnError sB (some m) e) := by
  unfold returnError
  simp only [mix_verbose]
  exact comp_ite (fun _ => Comp.ofBoth _ _ _ _ _ _) (fun _ => Comp.ofBoth _ _ _ _ _ _)

theorem structural_comp (t sB : St) (l m : List Item) :
    Comp c S Φ t l m (structural (mix t sB) (some l)) (structural sB (some m)) := by
  unfold structural
  simp only [mix_ignoreSE]
  exact comp_ite (fun _ => returnVerboseError_comp _ _ _ _) (fun _ => Comp.ofBoth _ _ _ _ _ _)

theorem withBaseObject_comp {t sB : St} (l m : List Item) (a : Nat) (i : Int) (kA kB : St → Res)
    (hk : Comp c S Φ t l m (kA (mix t { sB with baseAddr := a, baseId := i })) (kB { sB with baseAddr := a, baseId := i })) :
    Comp c S Φ t l m (withBaseObject (mix t sB) a i kA) (withBaseObject sB a i kB) := by
  unfold withBaseObject
  exact Comp.frame (fun st => { st with baseAddr := sB.baseAddr, baseId := sB.baseId })
    (fun _ _ => rfl) (fun _ => ⟨rfl, rfl, rfl⟩) hk

theorem Junc.setBase {t s : St} (hj : Junc t s) (a : Nat) (i : Int) : Junc t { s with baseAddr := a, baseId := i } := hj
theorem ChainOKO.setBase {s : St} {nx : Option Node} (h : ChainOKO s nx) (a : Nat) (i : Int) :
    ChainOKO { s with baseAddr := a, baseId := i } nx := h

theorem execLiteral_comp (H : Hyp c S Φ item bool any) {t sB : St} (l m : List Item) (nx : Option Node)
    (v : Item) (hj : Junc t sB) (hc : ChainOKO sB nx) :
    Comp c S Φ t l m (execLiteral c item (mix t sB) (some (appendO nx S)) v (some l))
      (execLiteral c item sB nx v (some m)) := by
  unfold execLiteral
  simp only [Option.isNone_some, Bool.and_false, Bool.false_eq_true, if_false]
  exact executeNextItem_comp H l m nx v hj hc

theorem execVariable_comp (H : Hyp c S Φ item bool any) {t sB : St} (l m : List Item) (name : List Char)
    (nx : Option Node) (hj : Junc t sB) (hc : ChainOKO sB nx) :
    Comp c S Φ t l m (execVariable c item (mix t sB) name (some (appendO nx S)) (some l))
      (execVariable c item sB name nx (some m)) := by
  unfold execVariable
  split
  · exact withBaseObject_comp l m _ _ _ _ (executeNextItem_comp H l m nx _ (hj.setBase _ _) (hc.setBase _ _))
  · exact Comp.ofBoth _ _ _ _ _ _

theorem selfAny_comp (H : Hyp c S Φ item bool any) {t sB : St} (l m : List Item) (nB : Node) (xs : List Item)
    (hj : Junc t sB) (hc : ChainOK sB nB) :
    Comp c S Φ t l m (any (mix t sB) (some (append nB S)) xs (some l) 1 1 1 false false)
      (any sB (some nB) xs (some m) 1 1 1 false false) := by
  have h := H.ca sB t l m (some nB) xs 1 1 1 false false hj (by simpa [ChainOKO, ChainOK] using hc)
    (by simp) (by simp)
  simpa using h

theorem execKeyNode_comp (H : Hyp c S Φ item bool any) {t sB : St} (l m : List Item) (nB : Node)
    (key : List Char) (nx : Option Node) (v : Item) (unwrap : Bool) (hj : Junc t sB) (hc : ChainOK sB nB)
    (hcx : ChainOKO sB nx) :
    Comp c S Φ t l m (execKeyNode c item any (mix t sB) (append nB S) key (some (appendO nx S)) v (some l) unwrap)
      (execKeyNode c item any sB nB key nx v (some m) unwrap) := by
  unfold execKeyNode
  cases v with
  | obj kvs =>
    simp only
    cases Item.lookup key kvs with
    | some val => exact executeNextItem_comp H l m nx val hj hcx
    | none =>
      simp only [mix_ignoreSE, mix_verbose]
      exact comp_ite (fun _ => comp_ite (fun _ => Comp.ofBoth _ _ _ _ _ _) (fun _ => Comp.ofBoth _ _ _ _ _ _))
        (fun _ => Comp.ofBoth _ _ _ _ _ _)
  | arr xs =>
    simp only
    exact comp_ite (fun _ => selfAny_comp H l m nB xs hj hc) (fun _ => structural_comp _ _ _ _)
  | _ => exact structural_comp _ _ _ _

theorem execAnyKey_comp (H : Hyp c S Φ item bool any) {t sB : St} (l m : List Item) (nB : Node)
    (nx : Option Node) (v : Item) (unwrap : Bool) (hj : Junc t sB) (hc : ChainOK sB nB)
    (hcx : ChainOKO sB nx) :
    Comp c S Φ t l m (execAnyKey c any (mix t sB) (append nB S) (some (appendO nx S)) v (some l) unwrap)
      (execAnyKey c any sB nB nx v (some m) unwrap) := by
  unfold execAnyKey
  cases v with
  | obj kvs => exact H.ca sB t l m nx (members kvs) 1 1 1 false c.lax hj hcx (by simp) (fun _ => rfl)
  | arr xs =>
    simp only
    exact comp_ite (fun _ => selfAny_comp H l m nB xs hj hc) (fun _ => structural_comp _ _ _ _)
  | _ => exact structural_comp _ _ _ _

theorem execAnyArray_comp (H : Hyp c S Φ item bool any) {t sB : St} (l m : List Item)
    (nx : Option Node) (v : Item) (hj : Junc t sB) (hcx : ChainOKO sB nx) :
    Comp c S Φ t l m (execAnyArray c item any (mix t sB) (some (appendO nx S)) v (some l))
      (execAnyArray c item any sB nx v (some m)) := by
  unfold execAnyArray
  cases v with
  | arr xs => exact H.ca sB t l m nx xs 1 1 1 false c.lax hj hcx (by simp) (fun _ => rfl)
  | _ =>
    simp only
    exact comp_ite (fun _ => executeNextItem_comp H l m nx _ hj hcx) (fun _ => structural_comp _ _ _ _)

theorem execLastConst_comp (H : Hyp c S Φ item bool any) {t sB : St} (l m : List Item)
    (nx : Option Node) (hj : Junc t sB) (hcx : ChainOKO sB nx) :
    Comp c S Φ t l m (execLastConst c item (mix t sB) (some (appendO nx S)) (some l))
      (execLastConst c item sB nx (some m)) := by
  unfold execLastConst
  simp only [mix_innermost, Option.isNone_some, Bool.and_false, Bool.false_eq_true, if_false]
  exact comp_ite (fun _ => Comp.ofBoth _ _ _ _ _ _) (fun _ => executeNextItem_comp H l m nx _ hj hcx)

theorem execConstNode_comp (H : Hyp c S Φ item bool any) {t sB : St} (l m : List Item) (nB : Node) (k : Const)
    (nx : Option Node) (v : Item) (unwrap : Bool) (hj : Junc t sB) (hc : ChainOK sB nB)
    (hcx : ChainOKO sB nx) :
    Comp c S Φ t l m (execConstNode c item any (mix t sB) (append nB S) k (some (appendO nx S)) v (some l) unwrap)
      (execConstNode c item any sB nB k nx v (some m) unwrap) := by
  unfold execConstNode
  cases k <;> simp only
  · exact withBaseObject_comp l m _ _ _ _ (executeNextItem_comp H l m nx _ (hj.setBase _ _) (hcx.setBase _ _))
  · exact executeNextItem_comp H l m nx _ hj hcx
  · exact execLastConst_comp H l m nx hj hcx
  · exact execAnyArray_comp H l m nx v hj hcx
  · exact execAnyKey_comp H l m nB nx v unwrap hj hc hcx
  · exact execLiteral_comp H l m nx _ hj hcx
  · exact execLiteral_comp H l m nx _ hj hcx
  · exact execLiteral_comp H l m nx _ hj hcx

theorem Hyp.optUnwrap (H : Hyp c S Φ item bool any) (t s : St) (n : Node) (v : Item) (u : Bool) (l : List Item) :
    optUnwrapResult c item (mix t s) n v u l = mixR t (optUnwrapResult c item s n v u l) :=
  optUnwrapResult_frame0 c H.frI (tg t) s n v u l (indep_top n)

theorem Hyp.nestedBool (H : Hyp c S Φ item bool any) (t s : St) (n : Node) (v : Item) :
    executeNestedBoolItem bool (mix t s) n v = mixP t (executeNestedBoolItem bool s n v) :=
  executeNestedBoolItem_frame H.frB (tg t) s n v (indep_top n)

theorem Hyp.subscript (H : Hyp c S Φ item bool any) (t s : St) (sub : Node) (v : Item) (size : Int) :
    execSubscript c item (mix t s) sub v size
      = (mix t (execSubscript c item s sub v size).1, (execSubscript c item s sub v size).2) :=
  execSubscript_frame c H.frI (tg t) s sub v size (indep_top sub)

theorem Junc.goodP {t s : St} {p : PRes} (hj : Junc t s) (hg : GoodP s p) (hb : p.st.budget = none) :
    Junc t p.st := hj.ofCtx hg.ctx hb

theorem ChainOKO.ofCtx {s s' : St} {nx : Option Node} (h : ChainOKO s nx) (hc : s'.ctxEq s) : ChainOKO s' nx := by
  rcases h with h | h
  · left; simp [St.ctxEq] at hc; rw [hc.2.2.2.2.1]; exact h
  · right; exact h

theorem ChainOK.ofCtx {s s' : St} {n : Node} (h : ChainOK s n) (hc : s'.ctxEq s) : ChainOK s' n := by
  rcases h with h | h
  · left; simp [St.ctxEq] at hc; rw [hc.2.2.2.2.1]; exact h
  · right; exact h

/-- the boolean nodes (`&&`, comparisons, `exists`, `like_regex` …) as path items -/
theorem boolNode_comp (H : Hyp c S Φ item bool any) {t sB : St} (l m : List Item) (nB : Node)
    (nx : Option Node) (v : Item) (hj : Junc t sB) (hcx : ChainOKO sB nx) :
    Comp c S Φ t l m (appendBoolResult c item (some (appendO nx S)) (some l) (bool (mix t sB) (append nB S) v true))
      (appendBoolResult c item nx (some m) (bool sB nB v true)) := by
  rw [H.bnext, H.frameB]
  have hg := H.goodB sB nB v true
  have hb := H.budB sB nB v true hj.2.2.2.2
  generalize bool sB nB v true = p at hg hb
  unfold appendBoolResult
  simp only [mixP_err, mixP_st, mixP_out]
  cases he : p.err with
  | some e => exact Comp.ofBoth _ _ _ _ _ _
  | none =>
    simp only [Option.isNone_some, Bool.and_false, Bool.false_eq_true, if_false]
    exact executeNextItem_comp H l m nx _ (hj.goodP hg hb) (hcx.ofCtx hg.ctx)

theorem execMethodSize_comp (H : Hyp c S Φ item bool any) {t sB : St} (l m : List Item)
    (nx : Option Node) (v : Item) (hj : Junc t sB) (hcx : ChainOKO sB nx) :
    Comp c S Φ t l m (execMethodSize c item (mix t sB) (some (appendO nx S)) v (some l))
      (execMethodSize c item sB nx v (some m)) := by
  unfold execMethodSize
  cases v with
  | arr xs => exact executeNextItem_comp H l m nx _ hj hcx
  | _ =>
    exact comp_ite (fun _ => structural_comp _ _ _ _) (fun _ => executeNextItem_comp H l m nx _ hj hcx)

theorem execConvMethod_comp (H : Hyp c S Φ item bool any) {t sB : St} (l m : List Item) (nB : Node)
    (nx : Option Node) (v : Item) (unwrap : Bool) (conv : Item → Conv) (hj : Junc t sB) (hc : ChainOK sB nB)
    (hcx : ChainOKO sB nx) :
    Comp c S Φ t l m (execConvMethod c item any (mix t sB) (append nB S) (some (appendO nx S)) v (some l) unwrap conv)
      (execConvMethod c item any sB nB nx v (some m) unwrap conv) := by
  have key : ∀ w : Item, Comp c S Φ t l m
      (match conv w with
        | .val out => executeNextItem c item (mix t sB) (some (appendO nx S)) out (some l)
        | .verbose => returnVerboseError (mix t sB) (some l)
        | .hard k => ⟨mix t sB, some l, .failed, some (.hard k)⟩
        | .viaReturnError e => returnError (mix t sB) (some l) e)
      (match conv w with
        | .val out => executeNextItem c item sB nx out (some m)
        | .verbose => returnVerboseError sB (some m)
        | .hard k => ⟨sB, some m, .failed, some (.hard k)⟩
        | .viaReturnError e => returnError sB (some m) e) := by
    intro w
    cases conv w with
    | val out => exact executeNextItem_comp H l m nx _ hj hcx
    | verbose => exact returnVerboseError_comp _ _ _ _
    | hard k => exact Comp.ofBoth _ _ _ _ _ _
    | viaReturnError e => exact returnError_comp _ _ _ _ _
  unfold execConvMethod
  cases v with
  | arr xs =>
    simp only [unwrapTargetArray]
    exact comp_ite (fun _ => selfAny_comp H l m nB xs hj hc) (fun _ => returnVerboseError_comp _ _ _ _)
  | _ => exact key _

theorem executeDateTimeMethod_comp (H : Hyp c S Φ item bool any) {t sB : St} (l m : List Item) (op : UnOp)
    (arg nx : Option Node) (v : Item) (hj : Junc t sB) (hcx : ChainOKO sB nx) :
    Comp c S Φ t l m (executeDateTimeMethod c item (mix t sB) op arg (some (appendO nx S)) v (some l))
      (executeDateTimeMethod c item sB op arg nx v (some m)) := by
  unfold executeDateTimeMethod
  cases v with
  | str src =>
    dsimp only
    generalize (if (op = UnOp.datetime && arg.isSome) = true then _ else _ : Except Err DateTime) = parsed
    cases parsed with
    | error e => exact returnError_comp _ _ _ _ _
    | ok d =>
      simp only
      have fin : ∀ d' : DateTime, Comp c S Φ t l m
          (if ((some (appendO nx S)).isNone && (some l : Found).isNone) = true then (⟨mix t sB, some l, .ok, none⟩ : Res)
           else executeNextItem c item (mix t sB) (some (appendO nx S)) (.dt d') (some l))
          (if (nx.isNone && (some m : Found).isNone) = true then (⟨sB, some m, .ok, none⟩ : Res)
           else executeNextItem c item sB nx (.dt d') (some m)) := by
        intro d'
        simp only [Option.isNone_some, Bool.and_false, Bool.false_eq_true, if_false]
        exact executeNextItem_comp H l m nx _ hj hcx
      cases hk : kindOfOp op with
      | none => exact fin d
      | some k =>
        simp only
        cases hct : Time.castTo c.env c.useTZ k d with
        | ok d' => exact fin d'
        | error e =>
          cases e
          all_goals exact returnError_comp _ _ _ _ _
  | _ => exact returnVerboseError_comp _ _ _ _

theorem execBinaryMathExpr_comp (H : Hyp c S Φ item bool any) {t sB : St} (l m : List Item) (op : BinOp)
    (lo ro nx : Option Node) (v : Item) (hj : Junc t sB) (hcx : ChainOKO sB nx) :
    Comp c S Φ t l m (execBinaryMathExpr c item (mix t sB) op lo ro (some (appendO nx S)) v (some l))
      (execBinaryMathExpr c item sB op lo ro nx v (some m)) := by
  unfold execBinaryMathExpr
  cases lo with
  | none => exact Comp.ofBoth _ _ _ _ _ _
  | some ln =>
  cases ro with
  | none => exact Comp.ofBoth _ _ _ _ _ _
  | some rn =>
    simp only
    have hl := optUnwrapResult_good c H.goodI sB ln v true []
    have hlb := optUnwrapResult_bud c H.budI sB ln v true [] hj.2.2.2.2
    simp only [H.optUnwrap, mixR_status, mixR_st, mixR_err, mixR_found]
    generalize optUnwrapResult c item sB ln v true [] = rl at hl hlb
    refine comp_ite (fun _ => Comp.ofBoth _ _ _ _ _ _) (fun hnf => ?_)
    have hj1 : Junc t rl.st := hj.good hl hlb
    have hcx1 : ChainOKO rl.st nx := hcx.ofCtx hl.ctx
    generalize rl.found.getD [] = ls
    match ls with
    | [] => exact returnVerboseError_comp _ _ _ _
    | _ :: _ :: _ => exact returnVerboseError_comp _ _ _ _
    | [lv] =>
      simp only
      have hr := optUnwrapResult_good c H.goodI rl.st rn v true []
      have hrb := optUnwrapResult_bud c H.budI rl.st rn v true [] hj1.2.2.2.2
      generalize optUnwrapResult c item rl.st rn v true [] = rr at hr hrb
      refine comp_ite (fun _ => Comp.ofBoth _ _ _ _ _ _) (fun hnf2 => ?_)
      have hj2 : Junc t rr.st := hj1.good hr hrb
      have hcx2 : ChainOKO rr.st nx := hcx1.ofCtx hr.ctx
      generalize rr.found.getD [] = rs
      match rs with
      | [] => exact returnVerboseError_comp _ _ _ _
      | _ :: _ :: _ => exact returnVerboseError_comp _ _ _ _
      | [rv] =>
        simp only
        cases Num.mathOp lv rv op with
        | error e => exact returnVerboseError_comp _ _ _ _
        | ok val =>
          simp only [Option.isNone_some, Bool.and_false, Bool.false_eq_true, if_false]
          exact comp_ite (fun _ => returnVerboseError_comp _ _ _ _)
            (fun _ => executeNextItem_comp H l m nx _ hj2 hcx2)

/-! ### loops: the generic part -/

/-- what the loops of the executor keep in their accumulator, as far as the composition is concerned:
    the state, the result list and the early return -/
structure View where
  st : St
  found : Found
  ret : Option Res

/-- the state/result list the function would return from here -/
def View.curSt (v : View) : St := match v.ret with | some r => r.st | none => v.st
def View.curFound (v : View) : Found := match v.ret with | some r => r.found | none => v.found

/-- the accumulator after a call of the rest of the chain -/
def upd (r : Res) : View := if r.status = .failed then ⟨r.st, r.found, some r⟩ else ⟨r.st, r.found, none⟩

@[simp] theorem upd_curSt (r : Res) : (upd r).curSt = r.st := by unfold upd; split <;> rfl
@[simp] theorem upd_curFound (r : Res) : (upd r).curFound = r.found := by unfold upd; split <;> rfl
theorem upd_failed {r : Res} (h : r.status = .failed) : upd r = ⟨r.st, r.found, some r⟩ := by simp [upd, h]
theorem upd_ok {r : Res} (h : r.status ≠ .failed) : upd r = ⟨r.st, r.found, none⟩ := by simp [upd, h]

variable (c S Φ) in
/-- both loops are running -/
def Running (t : St) (l m : List Item) (vA vB : View) : Prop :=
  vA.ret = none ∧ vB.ret = none ∧ ∃ xs t' l', vB.found = some (m ++ xs) ∧ FeedOk c S Φ t l xs t' l' ∧
    vA.found = some l' ∧ vA.st = mix t' vB.st ∧ Junc t' vB.st

variable (c S Φ) in
/-- both loops have returned (the run of the prefix failed) -/
def Both (t : St) (l m : List Item) (vA vB : View) : Prop :=
  ∃ rA rB, vA.ret = some rA ∧ vB.ret = some rB ∧ CompOk c S Φ t l m rA rB

variable (c S Φ) in
/-- the composed run has returned because a run of `S` failed -/
def Failing (t : St) (l m : List Item) (vA vB : View) : Prop :=
  ∃ rA, vA.ret = some rA ∧ CompFail c S Φ t l m rA vB.curSt vB.curFound

/-- the run of the prefix alone goes on: its result list and its sticky flags only grow -/
def GrowV (v v' : View) : Prop := Shape v.curFound v'.curFound ∧ StkLe v.curSt v'.curSt

theorem GrowV.refl (v : View) : GrowV v v := ⟨Shape.refl _, StkLe.refl _⟩

theorem CompFail.grow {t : St} {l m : List Item} {A : Res} {st st' : St} {f f' : Found}
    (h : CompFail c S Φ t l m A st f) (hs : Shape f f') (hk : StkLe st st') : CompFail c S Φ t l m A st' f' := by
  obtain ⟨xs, x, rest, t1, l1, F, h1, h2, h3, h4, h5, h6, h7, h8, h9⟩ := h
  obtain ⟨l', hl'⟩ := hs.2 _ h1
  refine ⟨xs, x, rest ++ l', t1, l1, F, by rw [hl']; simp [List.append_assoc], h2, h3, h4, h5, h6, h7, h8, ?_⟩
  exact h9.trans (StkLe.mix (StkLe.refl _) hk)

theorem CompOk.rebase {t t' : St} {l l' m xs : List Item} {A B : Res} (hf : FeedOk c S Φ t l xs t' l')
    (h : CompOk c S Φ t' l' (m ++ xs) A B) : CompOk c S Φ t l m A B := by
  obtain ⟨xs2, t2, l2, h1, h2, h3, h4, h5, h6⟩ := h
  exact ⟨xs ++ xs2, t2, l2, by rw [h1, List.append_assoc], hf.append c S Φ h2, h3, h4, h5, h6⟩

theorem CompFail.rebase {t t' : St} {l l' m xs : List Item} {A : Res} {st : St} {f : Found}
    (hf : FeedOk c S Φ t l xs t' l') (h : CompFail c S Φ t' l' (m ++ xs) A st f) : CompFail c S Φ t l m A st f := by
  obtain ⟨xs2, x, rest, t1, l1, F, h1, h2, h3, h4, h5, h6, h7, h8, h9⟩ := h
  exact ⟨xs ++ xs2, x, rest, t1, l1, F, by rw [h1]; simp [List.append_assoc], hf.append c S Φ h2, h3, h4, h5, h6, h7, h8, h9⟩

/-- one call of the rest of the chain from two running loops -/
theorem step_ofCall {t t' : St} {l l' m xs : List Item} (hf : FeedOk c S Φ t l xs t' l') {s1 : St} {f1 : Found}
    (hj1 : Junc t' s1) {rA rB : Res} (hc : Comp c S Φ t' l' (m ++ xs) rA rB) (hg : Good s1 f1 rB)
    (hb : rB.st.budget = none) :
    Running c S Φ t l m (upd rA) (upd rB) ∨ Both c S Φ t l m (upd rA) (upd rB) ∨ Failing c S Φ t l m (upd rA) (upd rB) := by
  rcases hc with hok | hfail
  · have hok' := CompOk.rebase hf hok
    obtain ⟨xs2, t2, l2, h1, h2, h3, h4, h5, h6⟩ := hok
    by_cases hB : rB.status = .failed
    · have hA := h6.2 hB
      right; left
      exact ⟨rA, rB, by rw [upd_failed hA], by rw [upd_failed hB], hok'⟩
    · have hA : rA.status ≠ .failed := fun h => hB (h6.1 h)
      left
      rw [upd_ok hA, upd_ok hB]
      refine ⟨rfl, rfl, xs ++ xs2, t2, l2, by rw [h1, List.append_assoc], hf.append c S Φ h2, h3, h4, ?_⟩
      exact (h2.junc c S Φ hj1).ofCtx hg.ctx hb
  · have hA : rA.status = .failed := by
      obtain ⟨_, _, _, _, _, _, _, _, _, _, h5, _⟩ := hfail; exact h5
    right; right
    refine ⟨rA, by rw [upd_failed hA], ?_⟩
    rw [upd_curSt, upd_curFound]
    exact CompFail.rebase hf hfail

/-- both loops return the same failure without calling the rest of the chain -/
theorem step_ofBoth {t t' : St} {l l' m xs : List Item} (hf : FeedOk c S Φ t l xs t' l') (sB : St)
    (st : Status) (e : Option Err) (stA stB : St) (fA fB : Found) :
    Both c S Φ t l m ⟨stA, fA, some ⟨mix t' sB, some l', st, e⟩⟩ ⟨stB, fB, some ⟨sB, some (m ++ xs), st, e⟩⟩ :=
  ⟨_, _, rfl, rfl, [] ++ xs, t', l', by simp, by simpa using hf, rfl, rfl, rfl, Iff.rfl⟩

theorem foldl_fixed {α β : Type} (step : β → α → β) (b : β) (xs : List α) (h : ∀ x, step b x = b) :
    xs.foldl step b = b := by
  induction xs with
  | nil => rfl
  | cons x xs ih => simp only [List.foldl_cons, h x, ih]

/-- two loops over the same elements -/
theorem fold_comp {α β γ : Type} {t : St} {l m : List Item} (stepA : β → α → β) (stepB : γ → α → γ)
    (vwA : β → View) (vwB : γ → View) (I : β → γ → Prop) (V : γ → Prop)
    (hskipA : ∀ a x, (vwA a).ret ≠ none → stepA a x = a)
    (hskipB : ∀ b x, (vwB b).ret ≠ none → stepB b x = b)
    (hstep : ∀ a b x, Running c S Φ t l m (vwA a) (vwB b) → I a b →
      (Running c S Φ t l m (vwA (stepA a x)) (vwB (stepB b x)) ∧ I (stepA a x) (stepB b x)) ∨
      Both c S Φ t l m (vwA (stepA a x)) (vwB (stepB b x)) ∨
      (Failing c S Φ t l m (vwA (stepA a x)) (vwB (stepB b x)) ∧ V (stepB b x)))
    (hgrow : ∀ (b : γ) (xs : List α), V b → GrowV (vwB b) (vwB (xs.foldl stepB b))) :
    ∀ (xs : List α) (a : β) (b : γ),
      ((Running c S Φ t l m (vwA a) (vwB b) ∧ I a b) ∨ Both c S Φ t l m (vwA a) (vwB b) ∨
        (Failing c S Φ t l m (vwA a) (vwB b) ∧ V b)) →
      ((Running c S Φ t l m (vwA (xs.foldl stepA a)) (vwB (xs.foldl stepB b)) ∧ I (xs.foldl stepA a) (xs.foldl stepB b)) ∨
        Both c S Φ t l m (vwA (xs.foldl stepA a)) (vwB (xs.foldl stepB b)) ∨
        Failing c S Φ t l m (vwA (xs.foldl stepA a)) (vwB (xs.foldl stepB b))) := by
  intro xs
  induction xs with
  | nil =>
    intro a b h
    rcases h with h | h | h
    · exact Or.inl h
    · exact Or.inr (Or.inl h)
    · exact Or.inr (Or.inr h.1)
  | cons x xs ih =>
    intro a b h
    simp only [List.foldl_cons]
    rcases h with ⟨hr, hi⟩ | hb | ⟨hfl, hv⟩
    · exact ih _ _ (hstep a b x hr hi)
    · obtain ⟨rA, rB, h1, h2, h3⟩ := hb
      have eA : stepA a x = a := hskipA a x (by simp [h1])
      have eB : stepB b x = b := hskipB b x (by simp [h2])
      rw [eA, eB]
      exact ih _ _ (Or.inr (Or.inl ⟨rA, rB, h1, h2, h3⟩))
    · obtain ⟨rA, h1, h2⟩ := hfl
      have eA : ∀ y, stepA a y = a := fun y => hskipA a y (by simp [h1])
      rw [eA x, foldl_fixed stepA a xs eA]
      right; right
      have hg := hgrow b (x :: xs) hv
      simp only [List.foldl_cons] at hg
      exact ⟨rA, h1, h2.grow hg.1 hg.2⟩

/-- the result a loop function builds from its final accumulator -/
def fin (ρ : St → St) (v : View) (res : Status) : Res :=
  match v.ret with
  | some r => { r with st := ρ r.st }
  | none => ⟨ρ v.st, v.found, res, none⟩

theorem fin_st (ρ : St → St) (v : View) (res : Status) : (fin ρ v res).st = ρ v.curSt := by
  unfold fin View.curSt; split <;> rfl
theorem fin_found (ρ : St → St) (v : View) (res : Status) : (fin ρ v res).found = v.curFound := by
  unfold fin View.curFound; split <;> rfl

theorem final_comp {t : St} {l m : List Item} {vA vB : View} (ρ : St → St)
    (hρ : ∀ t s, ρ (mix t s) = mix t (ρ s))
    (hstk : ∀ s, (ρ s).panicked = s.panicked ∧ (ρ s).oof = s.oof ∧ (ρ s).sawCancel = s.sawCancel)
    (resA resB : Status) (hres : Running c S Φ t l m vA vB → (resA = .failed ↔ resB = .failed))
    (h : Running c S Φ t l m vA vB ∨ Both c S Φ t l m vA vB ∨ Failing c S Φ t l m vA vB) :
    Comp c S Φ t l m (fin ρ vA resA) (fin ρ vB resB) := by
  rcases h with hrun | ⟨rA, rB, h1, h2, h3⟩ | ⟨rA, h1, h2⟩
  · have hres' := hres hrun
    obtain ⟨h1, h2, xs, t', l', h3, h4, h5, h6, _⟩ := hrun
    left
    simp only [fin, h1, h2]
    exact ⟨xs, t', l', h3, h4, h5, by rw [h6, hρ], rfl, hres'⟩
  · simp only [fin, h1, h2]
    exact Comp.frame ρ hρ hstk (Or.inl h3)
  · right
    rw [fin_st, fin_found]
    simp only [fin, h1]
    obtain ⟨xs, x, rest, t1, l1, F, g1, g2, g3, g4, g5, g6, g7, g8, g9⟩ := h2
    refine ⟨xs, x, rest, t1, l1, F, g1, g2, g3, g4, g5, g6, g7, ?_, ?_⟩
    · obtain ⟨a, b, d⟩ := hstk rA.st
      exact ⟨by rw [a]; exact g8.1, by rw [b]; exact g8.2.1, by rw [d]; exact g8.2.2⟩
    · obtain ⟨a, b, d⟩ := hstk rA.st
      obtain ⟨a', b', d'⟩ := hstk vB.curSt
      refine ⟨?_, ?_, ?_⟩
      · rw [a]; intro h; have := g9.1 h; simp at this ⊢; rw [a']; exact this
      · rw [b]; intro h; have := g9.2.1 h; simp at this ⊢; rw [b']; exact this
      · rw [d]; intro h; have := g9.2.2 h; simp at this ⊢; rw [d']; exact this

theorem GrowV.trans {v1 v2 v3 : View} (h1 : GrowV v1 v2) (h2 : GrowV v2 v3) : GrowV v1 v3 :=
  ⟨h1.1.trans h2.1, h1.2.trans h2.2⟩

theorem foldl_grow {α γ : Type} (step : γ → α → γ) (vw : γ → View) (V : γ → Prop)
    (hstep : ∀ b x, V b → GrowV (vw b) (vw (step b x)) ∧ V (step b x)) :
    ∀ (b : γ) (xs : List α), V b → GrowV (vw b) (vw (xs.foldl step b)) := by
  intro b xs
  induction xs generalizing b with
  | nil => intro _; exact GrowV.refl _
  | cons x xs ih =>
    intro hv
    obtain ⟨h1, h2⟩ := hstep b x hv
    exact h1.trans (ih _ h2)

/-- a `Good` call from (a state with the sticky flags of) the loop state makes the loop grow -/
theorem growV_ofCall {v : View} (hv : v.ret = none) {s1 : St} {r : Res}
    (hs1 : StkLe v.st s1) (hg : Good s1 v.found r) (hm : StkLe s1 r.st) : GrowV v (upd r) := by
  refine ⟨?_, ?_⟩
  · rw [upd_curFound]; simp only [View.curFound, hv]; exact hg.shape
  · rw [upd_curSt]; simp only [View.curSt, hv]; exact hs1.trans hm

/-! ### `.**` and the generic element loop -/

def vwAny (a : AAcc) : View := ⟨a.st, a.found, a.ret⟩

theorem ignSt {s : St} {ign : Bool} (h : ign = true → s.ignoreSE = true) :
    (if ign = true then ({ s with ignoreSE := true } : St) else s) = s := by
  cases ign with
  | false => rfl
  | true => simp only [if_true]; apply St.ext' <;> simp [h rfl]

/-- the accumulator fields that matter only at the end -/
def IAny (sB : St) (m : List Item) (a b : AAcc) : Prop :=
  a.res ≠ .failed ∧ b.res ≠ .failed ∧ a.err = none ∧ b.err = none ∧ AInv sB (some m) b

def VAny (sB : St) (m : List Item) (b : AAcc) : Prop := AInv sB (some m) b

theorem anyVisit_view {item : ItemK} (node : Node) (level first last : Nat) (ign un : Bool) (a : AAcc) (v : Item)
    (l' : List Item) (hf : a.found = some l') (s1 : St)
    (hs1 : (if ign = true then ({ a.st with ignoreSE := true } : St) else a.st) = s1)
    (hc : (level ≥ first || (first = maxU32 && last = maxU32 && (collection v).isNone)) = true) :
    vwAny (anyVisit item (some node) level first last ign un a v) = upd (item s1 node v (some l') un) ∧
    ((item s1 node v (some l') un).status ≠ .failed →
      (anyVisit item (some node) level first last ign un a v).res = (item s1 node v (some l') un).status ∧
      (anyVisit item (some node) level first last ign un a v).err = (item s1 node v (some l') un).err) := by
  unfold anyVisit
  rw [if_pos hc]
  simp only [hf, hs1, Option.isNone_some, Bool.and_false, Bool.or_false, decide_eq_true_eq]
  by_cases h : (item s1 node v (some l') un).status = .failed
  · rw [if_pos h]
    refine ⟨?_, fun hn => absurd h hn⟩
    rw [upd_failed h]; rfl
  · rw [if_neg h]
    refine ⟨?_, fun _ => ⟨rfl, rfl⟩⟩
    rw [upd_ok h]; rfl

theorem upd_ret_none {r : Res} (h : (upd r).ret = none) : r.status ≠ .failed := by
  intro hf; rw [upd_failed hf] at h; simp at h

theorem Running.retA {t : St} {l m : List Item} {vA vB : View} (h : Running c S Φ t l m vA vB) : vA.ret = none := h.1
theorem Running.retB {t : St} {l m : List Item} {vA vB : View} (h : Running c S Φ t l m vA vB) : vB.ret = none := h.2.1

theorem Running.ign {t : St} {l m : List Item} {vA vB : View} (h : Running c S Φ t l m vA vB) :
    vB.st.ignoreSE = t.ignoreSE := by
  obtain ⟨_, _, xs, t', l', _, h4, _, _, h7⟩ := h
  have := (h4.ctx c S Φ).1
  simp [St.ctxEq] at this
  rw [← h7.2.2.1, this.2.2.2.2.1]

theorem err_none_of_good {s : St} {f : Found} {r : Res} (hg : Good s f r) (h : r.status ≠ .failed) : r.err = none := by
  cases he : r.err with
  | none => rfl
  | some e => exact absurd (hg.errFailed (by simp [he])) h

theorem anyVisit_step (H : Hyp c S Φ item bool any) {t : St} {l m : List Item} (nodeB : Option Node)
    (level first last : Nat) (ign un : Bool) (a b : AAcc) (v : Item) (sB0 : St)
    (hr : Running c S Φ t l m (vwAny a) (vwAny b)) (hi : IAny sB0 m a b)
    (hign' : ign = true → t.ignoreSE = true) (hcn' : t.ignoreSE = true ∨ NoAnyO nodeB = true)
    (hun : nodeB = none → un = c.lax) :
    (Running c S Φ t l m (vwAny (anyVisit item (some (appendO nodeB S)) level first last ign un a v))
        (vwAny (anyVisit item nodeB level first last ign un b v)) ∧
      IAny sB0 m (anyVisit item (some (appendO nodeB S)) level first last ign un a v)
        (anyVisit item nodeB level first last ign un b v)) ∨
    Both c S Φ t l m (vwAny (anyVisit item (some (appendO nodeB S)) level first last ign un a v))
        (vwAny (anyVisit item nodeB level first last ign un b v)) ∨
    (Failing c S Φ t l m (vwAny (anyVisit item (some (appendO nodeB S)) level first last ign un a v))
        (vwAny (anyVisit item nodeB level first last ign un b v)) ∧
      VAny sB0 m (anyVisit item nodeB level first last ign un b v)) := by
  have hinvB : AInv sB0 (some m) (anyVisit item nodeB level first last ign un b v) :=
    anyVisit_inv H.goodI nodeB level first last ign un sB0 (some m) b v hi.2.2.2.2 hr.retB
  have hig : b.st.ignoreSE = t.ignoreSE := hr.ign
  have hign : ign = true → b.st.ignoreSE = true := fun h => by rw [hig]; exact hign' h
  have hcn : ChainOKO b.st nodeB := by
    rcases hcn' with h | h
    · left; rw [hig]; exact h
    · right; exact h
  by_cases hc : (level ≥ first || (first = maxU32 && last = maxU32 && (collection v).isNone)) = true
  · obtain ⟨hA0, hB0, xs, t', l', h3, h4, h5, h6, h7⟩ := hr
    simp only [vwAny] at hA0 hB0 h3 h5 h6 h7
    have hsB : (if ign = true then ({ b.st with ignoreSE := true } : St) else b.st) = b.st := ignSt hign
    have hsA : (if ign = true then ({ a.st with ignoreSE := true } : St) else a.st) = mix t' b.st := by
      rw [ignSt (by rw [h6]; simpa using hign), h6]
    obtain ⟨hvA, hresA⟩ := anyVisit_view (item := item) (appendO nodeB S) level first last ign un a v l' h5 _ hsA hc
    have hgA := H.goodI (mix t' b.st) (appendO nodeB S) v (some l') un
    -- the call of the run of the prefix, or its junction
    have key : ∃ rB : Res, vwAny (anyVisit item nodeB level first last ign un b v) = upd rB ∧
        (rB.status ≠ .failed → (anyVisit item nodeB level first last ign un b v).res = rB.status ∧
          (anyVisit item nodeB level first last ign un b v).err = rB.err) ∧
        Comp c S Φ t' l' (m ++ xs) (item (mix t' b.st) (appendO nodeB S) v (some l') un) rB ∧
        Good b.st (some (m ++ xs)) rB ∧ rB.st.budget = none := by
      cases nodeB with
      | some n =>
        obtain ⟨hvB, hresB⟩ := anyVisit_view (item := item) n level first last ign un b v (m ++ xs) h3 _ hsB hc
        refine ⟨_, hvB, hresB, ?_, H.goodI _ _ _ _ _, H.budI _ _ _ _ _ h7.2.2.2.2⟩
        exact H.ci b.st t' l' (m ++ xs) n v un h7 (by simpa [ChainOKO, ChainOK] using hcn)
      | none =>
        refine ⟨⟨b.st, some (m ++ xs ++ [v]), .ok, none⟩, ?_, ?_, ?_, ?_, h7.2.2.2.2⟩
        · unfold anyVisit
          rw [if_pos hc]
          simp only [h3]
          rw [upd_ok (by simp)]
          simp [vwAny, hB0]
        · intro _
          unfold anyVisit
          rw [if_pos hc]
          simp only [h3, hi.2.2.2.1]
          exact ⟨trivial, trivial⟩
        · have := executeNextItem_comp H l' (m ++ xs) none v h7 (Or.inr rfl)
          rw [hun rfl]
          simpa [executeNextItem, executeItem, Found.append] using this
        · exact Good.ret (Mid.refl _) ⟨by simp, fun l hl => ⟨[v], by simp at hl; subst hl; rfl⟩⟩ _ _ (by simp) (by simp)
    obtain ⟨rB, hvB, hresB, hcomp, hgB, hbB⟩ := key
    rw [hvA, hvB]
    rcases step_ofCall h4 h7 hcomp hgB hbB with h | h | h
    · left
      refine ⟨h, ?_⟩
      have hnA := upd_ret_none h.retA
      have hnB := upd_ret_none h.retB
      obtain ⟨e1, e2⟩ := hresA hnA
      obtain ⟨e3, e4⟩ := hresB hnB
      exact ⟨by rw [e1]; exact hnA, by rw [e3]; exact hnB, by rw [e2]; exact err_none_of_good hgA hnA,
        by rw [e4]; exact err_none_of_good hgB hnB, hinvB⟩
    · exact Or.inr (Or.inl h)
    · exact Or.inr (Or.inr ⟨h, hinvB⟩)
  · left
    have eA : anyVisit item (some (appendO nodeB S)) level first last ign un a v = a := by
      unfold anyVisit; rw [if_neg hc]
    have eB : anyVisit item nodeB level first last ign un b v = b := by
      unfold anyVisit; rw [if_neg hc]
    rw [eA, eB]
    exact ⟨hr, hi⟩

theorem anyDescend_view {any : AnyK} (node : Option Node) (level first last : Nat) (ign un : Bool) (a : AAcc) (v : Item)
    (l' : List Item) (hf : a.found = some l') (hc : level < last) :
    vwAny (anyDescend any node level first last ign un a v)
      = upd (any a.st node ((collection v).getD []) (some l') (level + 1) first last ign un) ∧
    ((any a.st node ((collection v).getD []) (some l') (level + 1) first last ign un).status ≠ .failed →
      (anyDescend any node level first last ign un a v).res
        = (any a.st node ((collection v).getD []) (some l') (level + 1) first last ign un).status ∧
      (anyDescend any node level first last ign un a v).err
        = (any a.st node ((collection v).getD []) (some l') (level + 1) first last ign un).err) := by
  unfold anyDescend
  rw [if_pos hc]
  simp only [hf, Option.isNone_some, Bool.and_false, Bool.or_false, decide_eq_true_eq]
  by_cases h : (any a.st node ((collection v).getD []) (some l') (level + 1) first last ign un).status = .failed
  · rw [if_pos h]
    refine ⟨?_, fun hn => absurd h hn⟩
    rw [upd_failed h]; rfl
  · rw [if_neg h]
    refine ⟨?_, fun _ => ⟨rfl, rfl⟩⟩
    rw [upd_ok h]; rfl

theorem anyDescend_step (H : Hyp c S Φ item bool any) {t : St} {l m : List Item} (nodeB : Option Node)
    (level first last : Nat) (ign un : Bool) (a b : AAcc) (v : Item) (sB0 : St)
    (hr : Running c S Φ t l m (vwAny a) (vwAny b)) (hi : IAny sB0 m a b)
    (hign' : ign = true → t.ignoreSE = true) (hcn' : t.ignoreSE = true ∨ NoAnyO nodeB = true)
    (hun : nodeB = none → un = c.lax) :
    (Running c S Φ t l m (vwAny (anyDescend any (some (appendO nodeB S)) level first last ign un a v))
        (vwAny (anyDescend any nodeB level first last ign un b v)) ∧
      IAny sB0 m (anyDescend any (some (appendO nodeB S)) level first last ign un a v)
        (anyDescend any nodeB level first last ign un b v)) ∨
    Both c S Φ t l m (vwAny (anyDescend any (some (appendO nodeB S)) level first last ign un a v))
        (vwAny (anyDescend any nodeB level first last ign un b v)) ∨
    (Failing c S Φ t l m (vwAny (anyDescend any (some (appendO nodeB S)) level first last ign un a v))
        (vwAny (anyDescend any nodeB level first last ign un b v)) ∧
      VAny sB0 m (anyDescend any nodeB level first last ign un b v)) := by
  have hinvB : AInv sB0 (some m) (anyDescend any nodeB level first last ign un b v) :=
    anyDescend_inv H.goodA nodeB level first last ign un sB0 (some m) b v hi.2.2.2.2 hr.retB
  have hig : b.st.ignoreSE = t.ignoreSE := hr.ign
  have hign : ign = true → b.st.ignoreSE = true := fun h => by rw [hig]; exact hign' h
  have hcn : ChainOKO b.st nodeB := by
    rcases hcn' with h | h
    · left; rw [hig]; exact h
    · right; exact h
  by_cases hc : level < last
  · obtain ⟨hA0, hB0, xs, t', l', h3, h4, h5, h6, h7⟩ := hr
    simp only [vwAny] at hA0 hB0 h3 h5 h6 h7
    obtain ⟨hvA, hresA⟩ := anyDescend_view (any := any) (some (appendO nodeB S)) level first last ign un a v l' h5 hc
    obtain ⟨hvB, hresB⟩ := anyDescend_view (any := any) nodeB level first last ign un b v (m ++ xs) h3 hc
    rw [h6] at hvA hresA
    have hgA := H.goodA (mix t' b.st) (some (appendO nodeB S)) ((collection v).getD []) (some l') (level + 1) first last ign un
    have hgB := H.goodA b.st nodeB ((collection v).getD []) (some (m ++ xs)) (level + 1) first last ign un
    have hbB := H.budA b.st nodeB ((collection v).getD []) (some (m ++ xs)) (level + 1) first last ign un h7.2.2.2.2
    have hcomp := H.ca b.st t' l' (m ++ xs) nodeB ((collection v).getD []) (level + 1) first last ign un h7 hcn hign hun
    rw [hvA, hvB]
    rcases step_ofCall h4 h7 hcomp hgB hbB with h | h | h
    · left
      refine ⟨h, ?_⟩
      have hnA := upd_ret_none h.retA
      have hnB := upd_ret_none h.retB
      obtain ⟨e1, e2⟩ := hresA hnA
      obtain ⟨e3, e4⟩ := hresB hnB
      exact ⟨by rw [e1]; exact hnA, by rw [e3]; exact hnB, by rw [e2]; exact err_none_of_good hgA hnA,
        by rw [e4]; exact err_none_of_good hgB hnB, hinvB⟩
    · exact Or.inr (Or.inl h)
    · exact Or.inr (Or.inr ⟨h, hinvB⟩)
  · left
    have eA : anyDescend any (some (appendO nodeB S)) level first last ign un a v = a := by
      unfold anyDescend; rw [if_neg hc]
    have eB : anyDescend any nodeB level first last ign un b v = b := by
      unfold anyDescend; rw [if_neg hc]
    rw [eA, eB]
    exact ⟨hr, hi⟩

theorem growV_mk {v : View} (hv : v.ret = none) {st : St} {f : Found} {ret : Option Res}
    (hret : ∀ r, ret = some r → r.st = st ∧ r.found = f) (hs : Shape v.found f) (hk : StkLe v.st st) :
    GrowV v ⟨st, f, ret⟩ := by
  cases ret with
  | none => exact ⟨by simpa [View.curFound, hv] using hs, by simpa [View.curSt, hv] using hk⟩
  | some r =>
    obtain ⟨e1, e2⟩ := hret r rfl
    exact ⟨by simpa [View.curFound, hv, e2] using hs, by simpa [View.curSt, hv, e1] using hk⟩

theorem anyDescend_grow (H : Hyp c S Φ item bool any) (node : Option Node) (level first last : Nat) (ign un : Bool)
    (b : AAcc) (v : Item) (hb : b.ret = none) :
    GrowV (vwAny b) (vwAny (anyDescend any node level first last ign un b v)) := by
  unfold anyDescend
  split
  · have hg := H.goodA b.st node ((collection v).getD []) b.found (level + 1) first last ign un
    have hm := H.monoA b.st node ((collection v).getD []) b.found (level + 1) first last ign un
    dsimp only
    split
    · exact growV_mk hb (fun r hr => by simp at hr; subst hr; exact ⟨rfl, rfl⟩) hg.shape hm
    · exact growV_mk hb (fun r hr => by simp at hr) hg.shape hm
  · exact GrowV.refl _

theorem anyVisit_grow (H : Hyp c S Φ item bool any) (node : Option Node) (level first last : Nat) (ign un : Bool)
    (b : AAcc) (v : Item) (hb : b.ret = none) :
    GrowV (vwAny b) (vwAny (anyVisit item node level first last ign un b v)) := by
  unfold anyVisit
  split
  · cases node with
    | some n =>
      dsimp only
      generalize hs1 : (if ign = true then ({ b.st with ignoreSE := true } : St) else b.st) = s1
      have hk : StkLe b.st s1 := by
        subst hs1; cases ign <;> exact ⟨id, id, id⟩
      have hg := H.goodI s1 n v b.found un
      have hm := H.monoI s1 n v b.found un
      split
      · exact growV_mk hb (fun r hr => by simp at hr; subst hr; exact ⟨rfl, rfl⟩) hg.shape (hk.trans hm)
      · exact growV_mk hb (fun r hr => by simp at hr) hg.shape (hk.trans hm)
    | none =>
      dsimp only
      split
      · rename_i l hl
        refine growV_mk hb (fun r hr => by simp [hb] at hr) ?_ (StkLe.refl _)
        simp only [vwAny, hl]
        exact ⟨by simp, fun l' hl' => ⟨[v], by simp at hl'; subst hl'; rfl⟩⟩
      · rename_i hl
        exact growV_mk hb (fun r hr => by simp at hr; subst hr; exact ⟨rfl, hl.symm⟩) (Shape.refl _) (StkLe.refl _)
  · exact GrowV.refl _

theorem anyStep_grow (H : Hyp c S Φ item bool any) (node : Option Node) (level first last : Nat) (ign un : Bool)
    (sB0 : St) (m : List Item) (b : AAcc) (v : Item) (hV : VAny sB0 m b) :
    GrowV (vwAny b) (vwAny (anyStep item any node level first last ign un b v)) ∧
      VAny sB0 m (anyStep item any node level first last ign un b v) := by
  refine ⟨?_, anyStep_inv H.goodI H.goodA node level first last ign un sB0 (some m) b v hV⟩
  unfold anyStep
  split
  · exact GrowV.refl _
  · rename_i hb
    have h1 := anyVisit_grow H node level first last ign un b v hb
    dsimp only
    split
    · exact h1
    · rename_i hb1
      exact h1.trans (anyDescend_grow H node level first last ign un _ v hb1)

theorem anyStep_step (H : Hyp c S Φ item bool any) {t : St} {l m : List Item} (nodeB : Option Node)
    (level first last : Nat) (ign un : Bool) (sB0 : St)
    (hign' : ign = true → t.ignoreSE = true) (hcn' : t.ignoreSE = true ∨ NoAnyO nodeB = true)
    (hun : nodeB = none → un = c.lax) (a b : AAcc) (v : Item)
    (hr : Running c S Φ t l m (vwAny a) (vwAny b)) (hi : IAny sB0 m a b) :
    (Running c S Φ t l m (vwAny (anyStep item any (some (appendO nodeB S)) level first last ign un a v))
        (vwAny (anyStep item any nodeB level first last ign un b v)) ∧
      IAny sB0 m (anyStep item any (some (appendO nodeB S)) level first last ign un a v)
        (anyStep item any nodeB level first last ign un b v)) ∨
    Both c S Φ t l m (vwAny (anyStep item any (some (appendO nodeB S)) level first last ign un a v))
        (vwAny (anyStep item any nodeB level first last ign un b v)) ∨
    (Failing c S Φ t l m (vwAny (anyStep item any (some (appendO nodeB S)) level first last ign un a v))
        (vwAny (anyStep item any nodeB level first last ign un b v)) ∧
      VAny sB0 m (anyStep item any nodeB level first last ign un b v)) := by
  have hA0 : a.ret = none := hr.retA
  have hB0 : b.ret = none := hr.retB
  have h1 := anyVisit_step H nodeB level first last ign un a b v sB0 hr hi hign' hcn' hun
  unfold anyStep
  simp only [hA0, hB0]
  generalize anyVisit item (some (appendO nodeB S)) level first last ign un a v = a1 at h1
  generalize anyVisit item nodeB level first last ign un b v = b1 at h1
  rcases h1 with ⟨hr1, hi1⟩ | hb | ⟨hfl, hv⟩
  · have e1 : a1.ret = none := hr1.retA
    have e2 : b1.ret = none := hr1.retB
    simp only [e1, e2]
    exact anyDescend_step H nodeB level first last ign un a1 b1 v sB0 hr1 hi1 hign' hcn' hun
  · obtain ⟨rA, rB, e1, e2, h3⟩ := hb
    simp only [vwAny] at e1 e2
    simp only [e1, e2]
    exact Or.inr (Or.inl ⟨rA, rB, e1, e2, h3⟩)
  · obtain ⟨rA, e1, h3⟩ := hfl
    simp only [vwAny] at e1
    simp only [e1]
    right; right
    cases e2 : b1.ret with
    | some rB =>
      simp only
      exact ⟨⟨rA, e1, h3⟩, hv⟩
    | none =>
      simp only
      have hg := anyDescend_grow H nodeB level first last ign un b1 v e2
      exact ⟨⟨rA, e1, h3.grow hg.1 hg.2⟩,
        anyDescend_inv H.goodA nodeB level first last ign un sB0 (some m) b1 v hv e2⟩

theorem anyStep_skip {item : ItemK} {any : AnyK} (node : Option Node) (level first last : Nat) (ign un : Bool)
    (a : AAcc) (x : Item) (h : (vwAny a).ret ≠ none) : anyStep item any node level first last ign un a x = a := by
  unfold anyStep
  cases hr : a.ret with
  | none => exact absurd hr h
  | some r => rfl

def anyRes (f : Found) (a : AAcc) : Status :=
  if a.found.isSome && a.res ≠ .failed && a.err.isNone && (a.found.getD []).length > (f.getD []).length then .ok
  else a.res

def anyFin (s : St) (f : Found) (a : AAcc) : Res :=
  match a.ret with
  | some r => { r with st := { r.st with ignoreSE := s.ignoreSE } }
  | none => ⟨{ a.st with ignoreSE := s.ignoreSE }, a.found, anyRes f a, a.err⟩

theorem executeAnyItem_eq (item : ItemK) (any : AnyK) (s : St) (node : Option Node) (vs : List Item) (f : Found)
    (level first last : Nat) (ign un : Bool) :
    executeAnyItem item any s node vs f level first last ign un =
      if level > last then ⟨s, f, .notFound, none⟩
      else anyFin s f (vs.foldl (anyStep item any node level first last ign un) ⟨s, f, .notFound, none, none⟩) := rfl

theorem anyFin_eq_fin (s : St) (f : Found) (a : AAcc) (h : a.ret = none → a.err = none) :
    anyFin s f a = fin (fun st => { st with ignoreSE := s.ignoreSE }) (vwAny a) (anyRes f a) := by
  unfold anyFin fin vwAny
  cases hr : a.ret with
  | some r => rfl
  | none => simp [h hr]

theorem restoreIgn_mix (s t x : St) : ({ mix t x with ignoreSE := s.ignoreSE } : St) = mix t { x with ignoreSE := s.ignoreSE } := rfl

theorem executeAnyItem_comp (H : Hyp c S Φ item bool any) {t sB : St} (l m : List Item) (nodeB : Option Node)
    (vs : List Item) (level first last : Nat) (ign un : Bool) (hj : Junc t sB) (hcn : ChainOKO sB nodeB)
    (hign : ign = true → sB.ignoreSE = true) (hun : nodeB = none → un = c.lax) :
    Comp c S Φ t l m
      (executeAnyItem item any (mix t sB) (some (appendO nodeB S)) vs (some l) level first last ign un)
      (executeAnyItem item any sB nodeB vs (some m) level first last ign un) := by
  rw [executeAnyItem_eq, executeAnyItem_eq]
  refine comp_ite (fun _ => Comp.ofBoth _ _ _ _ _ _) (fun _ => ?_)
  have hign' : ign = true → t.ignoreSE = true := fun h => by rw [hj.2.2.1]; exact hign h
  have hcn' : t.ignoreSE = true ∨ NoAnyO nodeB = true := by
    rcases hcn with h | h
    · left; rw [hj.2.2.1]; exact h
    · right; exact h
  have hinv0 : AInv sB (some m) ⟨sB, some m, .notFound, none, none⟩ := by
    refine ⟨fun r hr => by simp at hr, fun _ => ⟨⟨?_, fun h => by simpa [Exec.restoreIgn] using h⟩, Shape.refl _, rfl⟩⟩
    simp [St.ctxEq, Exec.restoreIgn]
  have hinvB : AInv sB (some m) (vs.foldl (anyStep item any nodeB level first last ign un) ⟨sB, some m, .notFound, none, none⟩) :=
    foldl_inv (AInv sB (some m)) _ _ _ hinv0 (fun a v h => anyStep_inv H.goodI H.goodA nodeB level first last ign un sB (some m) a v h)
  have h0 : Running c S Φ t l m (vwAny ⟨mix t sB, some l, .notFound, none, none⟩) (vwAny ⟨sB, some m, .notFound, none, none⟩) :=
    ⟨rfl, rfl, [], t, l, by simp [vwAny], FeedOk.nil t l, rfl, rfl, hj⟩
  have hi0 : IAny sB m ⟨mix t sB, some l, .notFound, none, none⟩ ⟨sB, some m, .notFound, none, none⟩ :=
    ⟨by simp, by simp, rfl, rfl, hinv0⟩
  have hfold := fold_comp (c := c) (S := S) (Φ := Φ) (t := t) (l := l) (m := m)
    (anyStep item any (some (appendO nodeB S)) level first last ign un)
    (anyStep item any nodeB level first last ign un) vwAny vwAny (IAny sB m) (VAny sB m)
    (fun a x h => anyStep_skip _ _ _ _ _ _ a x h) (fun b x h => anyStep_skip _ _ _ _ _ _ b x h)
    (fun a b x hr hi => anyStep_step H nodeB level first last ign un sB hign' hcn' hun a b x hr hi)
    (foldl_grow _ vwAny (VAny sB m) (fun b x hV => anyStep_grow H nodeB level first last ign un sB m b x hV))
    vs _ _ (Or.inl ⟨h0, hi0⟩)
  generalize vs.foldl (anyStep item any (some (appendO nodeB S)) level first last ign un) ⟨mix t sB, some l, .notFound, none, none⟩ = aA at hfold
  generalize vs.foldl (anyStep item any nodeB level first last ign un) ⟨sB, some m, .notFound, none, none⟩ = aB at hfold hinvB
  have herrB : aB.ret = none → aB.err = none := fun h => (hinvB.2 h).2.2
  have herrA : aA.ret = none → aA.err = none := by
    intro h
    rcases hfold with ⟨_, hi⟩ | ⟨rA, _, e, _⟩ | ⟨rA, e, _⟩
    · exact hi.2.2.1
    · simp [vwAny, h] at e
    · simp [vwAny, h] at e
  rw [anyFin_eq_fin _ _ aA herrA, anyFin_eq_fin _ _ aB herrB]
  refine final_comp (fun st => { st with ignoreSE := sB.ignoreSE }) (fun _ _ => rfl) (fun _ => ⟨rfl, rfl, rfl⟩) _ _ ?_
    (by rcases hfold with h | h | h
        · exact Or.inl h.1
        · exact Or.inr (Or.inl h)
        · exact Or.inr (Or.inr h))
  intro hrun
  rcases hfold with ⟨_, hi⟩ | ⟨rA, rB, e1, e2, _⟩ | ⟨rA, e1, _⟩
  · have h1 := hi.1
    have h2 := hi.2.1
    constructor
    · intro h; unfold anyRes at h; split at h
      · simp at h
      · exact absurd h h1
    · intro h; unfold anyRes at h; split at h
      · simp at h
      · exact absurd h h2
  · have := hrun.retA; simp [e1] at this
  · have := hrun.retA; simp [e1] at this

theorem anyInto_comp (H : Hyp c S Φ item bool any) {t sB : St} (l m : List Item) (first last : Nat)
    (nx : Option Node) (v : Item) (hj : Junc t sB) (hign : sB.ignoreSE = true) :
    Comp c S Φ t l m (anyInto c any (mix t sB) first last (some (appendO nx S)) v (some l))
      (anyInto c any sB first last nx v (some m)) := by
  unfold anyInto
  cases v with
  | obj kvs => exact H.ca sB t l m nx (members kvs) 1 first last true c.lax hj (Or.inl hign) (fun _ => hign) (fun _ => rfl)
  | arr xs => exact H.ca sB t l m nx xs 1 first last true c.lax hj (Or.inl hign) (fun _ => hign) (fun _ => rfl)
  | _ => exact Comp.ofBoth _ _ _ _ _ _

theorem anyInto_grow (H : Hyp c S Φ item bool any) (s : St) (first last : Nat) (nx : Option Node) (v : Item) (f : Found) :
    Shape f (anyInto c any s first last nx v f).found ∧ StkLe s (anyInto c any s first last nx v f).st := by
  refine ⟨(anyInto_good c H.goodA s first last nx v f).shape, ?_⟩
  unfold anyInto
  cases v with
  | obj kvs => exact H.monoA _ _ _ _ _ _ _ _ _
  | arr xs => exact H.monoA _ _ _ _ _ _ _ _ _
  | _ => exact StkLe.refl _

theorem setIgn_eq {s : St} (h : s.ignoreSE = true) : ({ s with ignoreSE := true } : St) = s := by
  apply St.ext' <;> simp [h]

theorem execAnyNode_comp (H : Hyp c S Φ item bool any) {t sB : St} (l m : List Item) (first last : Nat)
    (nx : Option Node) (v : Item) (hj : Junc t sB) (hign : sB.ignoreSE = true) :
    Comp c S Φ t l m (execAnyNode c item any (mix t sB) first last (some (appendO nx S)) v (some l))
      (execAnyNode c item any sB first last nx v (some m)) := by
  unfold execAnyNode
  refine comp_ite (fun _ => ?_) (fun _ => anyInto_comp H l m first last nx v hj hign)
  have eA : ({ mix t sB with ignoreSE := true } : St) = mix t sB := setIgn_eq (by simpa using hign)
  have eB : ({ sB with ignoreSE := true } : St) = sB := setIgn_eq hign
  rw [eA, eB]
  simp only [Option.isNone_some, Bool.and_false, Bool.or_false, decide_eq_true_eq, mix_ignoreSE]
  have hc1 := executeNextItem_comp H l m nx v hj (Or.inl hign)
  have hgB := executeNextItem_good c H.goodI sB nx v (some m)
  have hbB := executeNextItem_bud c H.budI sB nx v (some m) hj.2.2.2.2
  generalize executeNextItem c item (mix t sB) (some (appendO nx S)) v (some l) = rA at hc1
  generalize executeNextItem c item sB nx v (some m) = rB at hc1 hgB hbB
  have hfr : ∀ {A B : Res}, Comp c S Φ t l m A B →
      Comp c S Φ t l m { A with st := { A.st with ignoreSE := sB.ignoreSE } } { B with st := { B.st with ignoreSE := sB.ignoreSE } } :=
    fun h => Comp.frame (fun st => { st with ignoreSE := sB.ignoreSE }) (fun _ _ => rfl) (fun _ => ⟨rfl, rfl, rfl⟩) h
  rcases hc1 with hok | hfail
  · obtain ⟨xs, t', l', h1, h2, h3, h4, h5, h6⟩ := hok
    by_cases hB : rB.status = .failed
    · rw [if_pos (h6.2 hB), if_pos hB]
      exact hfr (Or.inl ⟨xs, t', l', h1, h2, h3, h4, h5, h6⟩)
    · have hA : ¬ rA.status = .failed := fun h => hB (h6.1 h)
      rw [if_neg hA, if_neg hB]
      have hj' : Junc t' rB.st := (h2.junc c S Φ hj).ofCtx hgB.ctx hbB
      have hign' : rB.st.ignoreSE = true := by
        have := hgB.ctx; simp [St.ctxEq] at this; rw [this.2.2.2.2.1]; exact hign
      have h7 := anyInto_comp H l' (m ++ xs) first last nx v hj' hign'
      rw [h3, h4, h1]
      refine hfr ?_
      rcases h7 with h7 | h7
      · exact Or.inl (CompOk.rebase h2 h7)
      · exact Or.inr (CompFail.rebase h2 h7)
  · have hA : rA.status = .failed := by
      obtain ⟨_, _, _, _, _, _, _, _, _, _, h5, _⟩ := hfail; exact h5
    rw [if_pos hA]
    by_cases hB : rB.status = .failed
    · rw [if_pos hB]
      exact hfr (Or.inr hfail)
    · rw [if_neg hB]
      have hg := anyInto_grow H rB.st first last nx v rB.found
      exact hfr (A := rA) (B := anyInto c any rB.st first last nx v rB.found) (Or.inr (hfail.grow hg.1 hg.2))

/-! ### subscripts -/

def vwIdx (a : IAcc) : View := ⟨a.st, a.found, a.ret⟩

def IIdx (a b : IAcc) : Prop := a.res ≠ .failed ∧ b.res ≠ .failed

theorem Hyp.monoNext (H : Hyp c S Φ item bool any) (s : St) (nx : Option Node) (v : Item) (f : Found) :
    StkLe s (executeNextItem c item s nx v f).st := by
  unfold executeNextItem executeItem
  cases nx with
  | some n => exact H.monoI _ _ _ _ _
  | none => exact StkLe.refl _

theorem Hyp.monoSubscript (H : Hyp c S Φ item bool any) (s : St) (sub : Node) (v : Item) (size : Int) :
    StkLe s (execSubscript c item s sub v size).1 := by
  have h := H.subscript s s sub v size
  rw [mix_self] at h
  exact stkLe_of_mix_eq (congrArg Prod.fst h)

theorem indexElemStep_skip {item : ItemK} (nx : Option Node) (a : IAcc) (x : Item) (h : (vwIdx a).ret ≠ none) :
    indexElemStep c item nx a x = a := by
  unfold indexElemStep
  cases hr : a.ret with
  | none => exact absurd hr h
  | some r => simp

theorem indexElemStep_grow (H : Hyp c S Φ item bool any) (nx : Option Node) (b : IAcc) (v : Item) :
    GrowV (vwIdx b) (vwIdx (indexElemStep c item nx b v)) := by
  unfold indexElemStep
  split
  · exact GrowV.refl _
  · rename_i hb
    have hb' : b.ret = none := by cases h : b.ret <;> simp_all
    split
    · exact GrowV.refl _
    · split
      · rename_i hcond
        have hf : b.found = none := by cases h : b.found <;> simp_all
        exact growV_mk hb' (fun r hr => by simp at hr; subst hr; exact ⟨rfl, hf.symm⟩) (Shape.refl _) (StkLe.refl _)
      · have hg := executeNextItem_good c H.goodI b.st nx v b.found
        have hm := H.monoNext b.st nx v b.found
        dsimp only
        split
        · exact growV_mk hb' (fun r hr => by simp at hr; subst hr; exact ⟨rfl, rfl⟩) hg.shape hm
        · exact growV_mk hb' (fun r hr => by simp at hr) hg.shape hm

theorem indexElemStep_view {item : ItemK} (nx : Option Node) (a : IAcc) (v : Item) (l' : List Item)
    (hf : a.found = some l') (hr : a.ret = none) (hv : v ≠ .null) :
    vwIdx (indexElemStep c item nx a v) = upd (executeNextItem c item a.st nx v (some l')) ∧
    ((executeNextItem c item a.st nx v (some l')).status ≠ .failed →
      (indexElemStep c item nx a v).res = (executeNextItem c item a.st nx v (some l')).status) := by
  unfold indexElemStep
  simp only [hr, Option.isSome_none, Bool.false_eq_true, if_false]
  cases v with
  | null => exact absurd rfl hv
  | _ =>
    simp only [hf, Option.isNone_some, Bool.and_false, Bool.or_false, Bool.false_eq_true, if_false, decide_eq_true_eq]
    split
    · rename_i h
      refine ⟨?_, fun hn => absurd h hn⟩
      rw [upd_failed h]; rfl
    · rename_i h
      refine ⟨?_, fun _ => rfl⟩
      rw [upd_ok h]; rfl

theorem indexElemStep_step (H : Hyp c S Φ item bool any) {t : St} {l m : List Item} (nxB : Option Node)
    (hcn' : t.ignoreSE = true ∨ NoAnyO nxB = true) (a b : IAcc) (v : Item)
    (hr : Running c S Φ t l m (vwIdx a) (vwIdx b)) (hi : IIdx a b) :
    (Running c S Φ t l m (vwIdx (indexElemStep c item (some (appendO nxB S)) a v)) (vwIdx (indexElemStep c item nxB b v)) ∧
      IIdx (indexElemStep c item (some (appendO nxB S)) a v) (indexElemStep c item nxB b v)) ∨
    Both c S Φ t l m (vwIdx (indexElemStep c item (some (appendO nxB S)) a v)) (vwIdx (indexElemStep c item nxB b v)) ∨
    (Failing c S Φ t l m (vwIdx (indexElemStep c item (some (appendO nxB S)) a v)) (vwIdx (indexElemStep c item nxB b v)) ∧
      True) := by
  have hig : b.st.ignoreSE = t.ignoreSE := hr.ign
  have hcn : ChainOKO b.st nxB := by
    rcases hcn' with h | h
    · left; rw [hig]; exact h
    · right; exact h
  by_cases hv : v = .null
  · subst hv
    have eA : indexElemStep c item (some (appendO nxB S)) a .null = a := by
      unfold indexElemStep; split <;> rfl
    have eB : indexElemStep c item nxB b .null = b := by
      unfold indexElemStep; split <;> rfl
    rw [eA, eB]
    exact Or.inl ⟨hr, hi⟩
  · obtain ⟨hA0, hB0, xs, t', l', h3, h4, h5, h6, h7⟩ := hr
    simp only [vwIdx] at hA0 hB0 h3 h5 h6 h7
    obtain ⟨hvA, hresA⟩ := indexElemStep_view (c := c) (item := item) (some (appendO nxB S)) a v l' h5 hA0 hv
    obtain ⟨hvB, hresB⟩ := indexElemStep_view (c := c) (item := item) nxB b v (m ++ xs) h3 hB0 hv
    rw [h6] at hvA hresA
    have hgB := executeNextItem_good c H.goodI b.st nxB v (some (m ++ xs))
    have hbB := executeNextItem_bud c H.budI b.st nxB v (some (m ++ xs)) h7.2.2.2.2
    have hcomp := executeNextItem_comp H l' (m ++ xs) nxB v h7 hcn
    rw [hvA, hvB]
    rcases step_ofCall h4 h7 hcomp hgB hbB with h | h | h
    · left
      refine ⟨h, ?_⟩
      have hnA := upd_ret_none h.retA
      have hnB := upd_ret_none h.retB
      exact ⟨by rw [hresA hnA]; exact hnA, by rw [hresB hnB]; exact hnB⟩
    · exact Or.inr (Or.inl h)
    · exact Or.inr (Or.inr ⟨h, trivial⟩)

theorem returnError_found (s : St) (f : Found) (e : Err) : (returnError s f e).found = f := by
  unfold returnError; split <;> rfl

theorem imid_self (s : St) : IMid s s := Mid.refl s

/-- the state after a subscript evaluation still agrees with the feed state -/
theorem Junc.subscript (H : Hyp c S Φ item bool any) {t s : St} (hj : Junc t s) (sub : Node) (v : Item) (size : Int) :
    Junc t (execSubscript c item s sub v size).1 := by
  have hg := execSubscript_good c H.goodI s s (imid_self s) sub v size
  have hb := execSubscript_bud c H.budI s sub v size hj.2.2.2.2
  generalize execSubscript c item s sub v size = p at hg hb
  obtain ⟨s1, e1⟩ := p
  obtain ⟨h1, h2, h3, h4, h5⟩ := hj
  have hctx : (Exec.restoreInn s s1).ctxEq s := by
    cases e1 with
    | error e => exact hg.1
    | ok x => exact hg.1
  simp [St.ctxEq, Exec.restoreInn] at hctx
  exact ⟨by rw [h1, hctx.1], by rw [h2, hctx.2.2.2.2], by rw [h3, hctx.2.2.2.1], h4, hb⟩

theorem indexSubStep_skip {item : ItemK} (nx : Option Node) (xs : List Item) (v : Item) (a : IAcc) (x : Node)
    (h : (vwIdx a).ret ≠ none) : indexSubStep c item nx xs v a x = a := by
  unfold indexSubStep
  cases hr : a.ret with
  | none => exact absurd hr h
  | some r => simp

theorem indexSubStep_grow (H : Hyp c S Φ item bool any) (nx : Option Node) (xs : List Item) (v : Item) (b : IAcc)
    (sub : Node) : GrowV (vwIdx b) (vwIdx (indexSubStep c item nx xs v b sub)) := by
  unfold indexSubStep
  split
  · exact GrowV.refl _
  · rename_i hb
    have hb' : b.ret = none := by cases h : b.ret <;> simp_all
    have hm := H.monoSubscript b.st sub v xs.length
    split
    · rename_i s1 e heq
      rw [heq] at hm
      exact growV_mk hb' (fun r hr => by
        simp at hr; subst hr; exact ⟨bud_returnError_st _ _ _, returnError_found _ _ _⟩) (Shape.refl _) hm
    · rename_i s1 from_ to_ heq
      rw [heq] at hm
      have h1 : GrowV (vwIdx b) (vwIdx { b with st := s1 }) :=
        growV_mk hb' (fun r hr => by simp [hb'] at hr) (Shape.refl _) hm
      exact h1.trans (foldl_grow (indexElemStep c item nx) vwIdx (fun _ => True)
        (fun b' x _ => ⟨indexElemStep_grow H nx b' x, trivial⟩) _ _ trivial)

theorem indexSubStep_step (H : Hyp c S Φ item bool any) {t : St} {l m : List Item} (nxB : Option Node)
    (hcn' : t.ignoreSE = true ∨ NoAnyO nxB = true) (ys : List Item) (v : Item) (a b : IAcc) (sub : Node)
    (hr : Running c S Φ t l m (vwIdx a) (vwIdx b)) (hi : IIdx a b) :
    (Running c S Φ t l m (vwIdx (indexSubStep c item (some (appendO nxB S)) ys v a sub))
        (vwIdx (indexSubStep c item nxB ys v b sub)) ∧
      IIdx (indexSubStep c item (some (appendO nxB S)) ys v a sub) (indexSubStep c item nxB ys v b sub)) ∨
    Both c S Φ t l m (vwIdx (indexSubStep c item (some (appendO nxB S)) ys v a sub))
        (vwIdx (indexSubStep c item nxB ys v b sub)) ∨
    (Failing c S Φ t l m (vwIdx (indexSubStep c item (some (appendO nxB S)) ys v a sub))
        (vwIdx (indexSubStep c item nxB ys v b sub)) ∧ True) := by
  obtain ⟨hA0, hB0, xs, t', l', h3, h4, h5, h6, h7⟩ := hr
  simp only [vwIdx] at hA0 hB0 h3 h5 h6 h7
  have hj1 := h7.subscript H sub v ys.length
  unfold indexSubStep
  simp only [hA0, hB0, Option.isSome_none, Bool.false_eq_true, if_false]
  rw [h6, H.subscript]
  generalize execSubscript c item b.st sub v ys.length = p at hj1
  obtain ⟨s1, e1⟩ := p
  cases e1 with
  | error e =>
    simp only
    right; left
    refine ⟨_, _, rfl, rfl, ?_⟩
    rw [h5, h3]
    exact CompOk.rebase h4 (returnError_compOk _ _ _ _ _)
  | ok ft =>
    obtain ⟨from_, to_⟩ := ft
    simp only
    have hrun : Running c S Φ t l m (vwIdx { a with st := mix t' s1 }) (vwIdx { b with st := s1 }) :=
      ⟨hA0, hB0, xs, t', l', h3, h4, h5, rfl, hj1⟩
    have hfold := fold_comp (c := c) (S := S) (Φ := Φ) (t := t) (l := l) (m := m)
      (indexElemStep c item (some (appendO nxB S))) (indexElemStep c item nxB) vwIdx vwIdx IIdx (fun _ => True)
      (fun a x h => indexElemStep_skip _ a x h) (fun b x h => indexElemStep_skip _ b x h)
      (fun a b x hr hi => indexElemStep_step H nxB hcn' a b x hr hi)
      (foldl_grow (indexElemStep c item nxB) vwIdx (fun _ => True)
        (fun b' x _ => ⟨indexElemStep_grow H nxB b' x, trivial⟩))
      (sliceRange ys from_ to_) _ _ (Or.inl ⟨hrun, hi⟩)
    simp only [hA0, hB0] at hfold
    rcases hfold with h | h | h
    · exact Or.inl h
    · exact Or.inr (Or.inl h)
    · exact Or.inr (Or.inr ⟨h, trivial⟩)

theorem execArrayIndex_comp (H : Hyp c S Φ item bool any) {t sB : St} (l m : List Item) (subs : List Node)
    (nx : Option Node) (v : Item) (hj : Junc t sB) (hcx : ChainOKO sB nx) :
    Comp c S Φ t l m (execArrayIndex c item (mix t sB) subs (some (appendO nx S)) v (some l))
      (execArrayIndex c item sB subs nx v (some m)) := by
  unfold execArrayIndex
  cases harr : arrayOf c v with
  | none => exact structural_comp _ _ _ _
  | some ys =>
    simp only
    have hcn' : t.ignoreSE = true ∨ NoAnyO nx = true := by
      rcases hcx with h | h
      · left; rw [hj.2.2.1]; exact h
      · right; exact h
    have hj0 : Junc t { sB with innermost := ys.length } := hj
    have h0 : Running c S Φ t l m (vwIdx ⟨mix t { sB with innermost := ys.length }, some l, .notFound, none, none⟩)
        (vwIdx ⟨{ sB with innermost := ys.length }, some m, .notFound, none, none⟩) :=
      ⟨rfl, rfl, [], t, l, by simp [vwIdx], FeedOk.nil t l, rfl, rfl, hj0⟩
    have hfold := fold_comp (c := c) (S := S) (Φ := Φ) (t := t) (l := l) (m := m)
      (indexSubStep c item (some (appendO nx S)) ys v) (indexSubStep c item nx ys v) vwIdx vwIdx IIdx (fun _ => True)
      (fun a x h => indexSubStep_skip _ _ _ a x h) (fun b x h => indexSubStep_skip _ _ _ b x h)
      (fun a b x hr hi => indexSubStep_step H nx hcn' ys v a b x hr hi)
      (foldl_grow (indexSubStep c item nx ys v) vwIdx (fun _ => True)
        (fun b' x _ => ⟨indexSubStep_grow H nx ys v b' x, trivial⟩))
      subs _ _ (Or.inl ⟨h0, ⟨by simp, by simp⟩⟩)
    have hfin := final_comp (c := c) (S := S) (Φ := Φ) (t := t) (l := l) (m := m)
      (fun st => { st with innermost := sB.innermost }) (fun _ _ => rfl) (fun _ => ⟨rfl, rfl, rfl⟩)
      (subs.foldl (indexSubStep c item (some (appendO nx S)) ys v) ⟨mix t { sB with innermost := ys.length }, some l, .notFound, none, none⟩).res
      (subs.foldl (indexSubStep c item nx ys v) ⟨{ sB with innermost := ys.length }, some m, .notFound, none, none⟩).res
      (fun hrun => by
        rcases hfold with ⟨_, hi⟩ | ⟨rA, rB, e1, e2, _⟩ | ⟨rA, e1, _⟩
        · exact ⟨fun h => absurd h hi.1, fun h => absurd h hi.2⟩
        · exact absurd (e1.symm.trans hrun.retA) (by simp)
        · exact absurd (e1.symm.trans hrun.retA) (by simp))
      (by rcases hfold with h | h | h
          · exact Or.inl h.1
          · exact Or.inr (Or.inl h)
          · exact Or.inr (Or.inr h))
    exact hfin

/-! ### unary plus / minus -/

def vwU (a : UAcc) : View := ⟨a.st, a.found, a.ret⟩
def IU (a b : UAcc) : Prop := a.res ≠ .failed ∧ b.res ≠ .failed

/-- the value `execUnaryMathExpr` hands on for one operand item (`none`: not a number) -/
def uval (cb : Num.UCallback) : Item → Option Item
  | .int i => some (.int (Num.applyI cb i))
  | .flt x => some (.flt (Num.applyF cb x))
  | .jnum t => Num.castJSONNumber t cb
  | _ => none

theorem unaryStep_skip {item : ItemK} (cb : Num.UCallback) (nx : Option Node) (a : UAcc) (x : Item)
    (h : (vwU a).ret ≠ none) : unaryStep c item cb nx a x = a := by
  unfold unaryStep
  cases hr : a.ret with
  | none => exact absurd hr h
  | some r => rfl

/-- the accumulator after one call of the rest of the chain (collect mode) -/
def uGo (a : UAcc) (r : Res) : UAcc :=
  if r.status = .failed then { a with st := r.st, found := r.found, ret := some r }
  else if r.status = .ok then { a with st := r.st, found := r.found, res := .ok }
  else { a with st := r.st, found := r.found }

theorem uGo_view (a : UAcc) (r : Res) (hr : a.ret = none) :
    vwU (uGo a r) = upd r ∧ (a.res ≠ .failed → (uGo a r).res ≠ .failed) := by
  unfold uGo
  by_cases h1 : r.status = .failed
  · rw [if_pos h1, upd_failed h1]; exact ⟨rfl, fun h => h⟩
  · rw [if_neg h1, upd_ok h1]
    by_cases h2 : r.status = .ok
    · rw [if_pos h2]; exact ⟨by simp [vwU, hr], fun _ => by simp⟩
    · rw [if_neg h2]; exact ⟨by simp [vwU, hr], fun h => h⟩

theorem unaryStep_some {item : ItemK} (cb : Num.UCallback) (nx : Option Node) (a : UAcc) (v val : Item)
    (l' : List Item) (hf : a.found = some l') (hr : a.ret = none) (hv : uval cb v = some val) :
    unaryStep c item cb nx a v = uGo a (executeNextItem c item a.st nx val (some l')) := by
  cases v with
  | int i =>
    simp only [uval, Option.some.injEq] at hv; subst hv
    simp [unaryStep, hr, hf, uGo]
  | flt x =>
    simp only [uval, Option.some.injEq] at hv; subst hv
    simp [unaryStep, hr, hf, uGo]
  | jnum tx =>
    simp only [uval] at hv
    simp [unaryStep, hr, hf, uGo, hv]
  | _ => simp [uval] at hv

theorem unaryStep_none {item : ItemK} (cb : Num.UCallback) (nx : Option Node) (a : UAcc) (v : Item)
    (l' : List Item) (hf : a.found = some l') (hr : a.ret = none) (hv : uval cb v = none) :
    unaryStep c item cb nx a v = { a with ret := some (returnVerboseError a.st (some l')) } := by
  unfold unaryStep
  simp only [hr, hf, Option.isNone_some, Bool.false_and, Bool.false_eq_true, if_false]
  cases v with
  | int i => simp [uval] at hv
  | flt x => simp [uval] at hv
  | jnum tx => simp only [uval] at hv; simp only [hv]
  | _ => rfl

theorem returnVerboseError_found (s : St) (f : Found) : (returnVerboseError s f).found = f := by
  unfold returnVerboseError; split <;> rfl

def VU (b : UAcc) : Prop := ∃ l, b.found = some l

theorem unaryStep_grow (H : Hyp c S Φ item bool any) (cb : Num.UCallback) (nx : Option Node) (b : UAcc) (v : Item)
    (hV : VU b) : GrowV (vwU b) (vwU (unaryStep c item cb nx b v)) ∧ VU (unaryStep c item cb nx b v) := by
  obtain ⟨l', hf⟩ := hV
  cases hr : b.ret with
  | some r => rw [unaryStep_skip cb nx b v (by simp [vwU, hr])]; exact ⟨GrowV.refl _, l', hf⟩
  | none =>
    cases hv : uval cb v with
    | none =>
      rw [unaryStep_none cb nx b v l' hf hr hv]
      refine ⟨growV_mk hr (fun r hr' => by
        simp at hr'; subst hr'; exact ⟨bud_returnVerboseError_st _ _, by rw [returnVerboseError_found, hf]⟩)
        (Shape.refl _) (StkLe.refl _), l', hf⟩
    | some val =>
      rw [unaryStep_some cb nx b v val l' hf hr hv]
      have hg := executeNextItem_good c H.goodI b.st nx val (some l')
      have hm := H.monoNext b.st nx val (some l')
      obtain ⟨hview, _⟩ := uGo_view b (executeNextItem c item b.st nx val (some l')) hr
      rw [hview]
      refine ⟨growV_ofCall hr (StkLe.refl _) (by rw [show (vwU b).found = some l' from hf]; exact hg) hm, ?_⟩
      obtain ⟨ys, hys⟩ := hg.shape.2 l' rfl
      refine ⟨l' ++ ys, ?_⟩
      have : (vwU (uGo b (executeNextItem c item b.st nx val (some l')))).found = some (l' ++ ys) := by
        rw [hview]; unfold upd; split <;> exact hys
      exact this

theorem unaryStep_step (H : Hyp c S Φ item bool any) {t : St} {l m : List Item} (nxB : Option Node)
    (hcn' : t.ignoreSE = true ∨ NoAnyO nxB = true) (cb : Num.UCallback) (a b : UAcc) (v : Item)
    (hr : Running c S Φ t l m (vwU a) (vwU b)) (hi : IU a b) :
    (Running c S Φ t l m (vwU (unaryStep c item cb (some (appendO nxB S)) a v)) (vwU (unaryStep c item cb nxB b v)) ∧
      IU (unaryStep c item cb (some (appendO nxB S)) a v) (unaryStep c item cb nxB b v)) ∨
    Both c S Φ t l m (vwU (unaryStep c item cb (some (appendO nxB S)) a v)) (vwU (unaryStep c item cb nxB b v)) ∨
    (Failing c S Φ t l m (vwU (unaryStep c item cb (some (appendO nxB S)) a v)) (vwU (unaryStep c item cb nxB b v)) ∧
      VU (unaryStep c item cb nxB b v)) := by
  have hig : b.st.ignoreSE = t.ignoreSE := hr.ign
  have hcn : ChainOKO b.st nxB := by
    rcases hcn' with h | h
    · left; rw [hig]; exact h
    · right; exact h
  obtain ⟨hA0, hB0, xs, t', l', h3, h4, h5, h6, h7⟩ := hr
  simp only [vwU] at hA0 hB0 h3 h5 h6 h7
  have hVB : VU (unaryStep c item cb nxB b v) := (unaryStep_grow H cb nxB b v ⟨_, h3⟩).2
  cases hv : uval cb v with
  | none =>
    rw [unaryStep_none cb _ a v l' h5 hA0 hv, unaryStep_none cb _ b v (m ++ xs) h3 hB0 hv]
    right; left
    refine ⟨_, _, rfl, rfl, ?_⟩
    rw [h6]
    exact CompOk.rebase h4 (returnVerboseError_compOk _ _ _ _)
  | some val =>
    rw [unaryStep_some cb _ b v val (m ++ xs) h3 hB0 hv] at hVB
    rw [unaryStep_some cb _ a v val l' h5 hA0 hv, unaryStep_some cb _ b v val (m ++ xs) h3 hB0 hv]
    rw [h6]
    obtain ⟨hvA, hresA⟩ := uGo_view a (executeNextItem c item (mix t' b.st) (some (appendO nxB S)) val (some l')) hA0
    obtain ⟨hvB, hresB⟩ := uGo_view b (executeNextItem c item b.st nxB val (some (m ++ xs))) hB0
    rw [hvA, hvB]
    have hgB := executeNextItem_good c H.goodI b.st nxB val (some (m ++ xs))
    have hbB := executeNextItem_bud c H.budI b.st nxB val (some (m ++ xs)) h7.2.2.2.2
    have hcomp := executeNextItem_comp H l' (m ++ xs) nxB val h7 hcn
    rcases step_ofCall h4 h7 hcomp hgB hbB with h | h | h
    · exact Or.inl ⟨h, hresA hi.1, hresB hi.2⟩
    · exact Or.inr (Or.inl h)
    · exact Or.inr (Or.inr ⟨h, hVB⟩)

theorem execUnaryMathExpr_comp (H : Hyp c S Φ item bool any) {t sB : St} (l m : List Item)
    (operand nx : Option Node) (v : Item) (cb : Num.UCallback) (hj : Junc t sB) (hcx : ChainOKO sB nx) :
    Comp c S Φ t l m (execUnaryMathExpr c item (mix t sB) operand (some (appendO nx S)) v cb (some l))
      (execUnaryMathExpr c item sB operand nx v cb (some m)) := by
  unfold execUnaryMathExpr
  cases operand with
  | none => exact Comp.ofBoth _ _ _ _ _ _
  | some x =>
    simp only [H.optUnwrap, mixR_status, mixR_st, mixR_err, mixR_found]
    have hl := optUnwrapResult_good c H.goodI sB x v true []
    have hlb := optUnwrapResult_bud c H.budI sB x v true [] hj.2.2.2.2
    generalize optUnwrapResult c item sB x v true [] = rl at hl hlb
    refine comp_ite (fun _ => Comp.ofBoth _ _ _ _ _ _) (fun hnf => ?_)
    have hj1 : Junc t rl.st := hj.good hl hlb
    have hcn' : t.ignoreSE = true ∨ NoAnyO nx = true := by
      rcases hcx with h | h
      · left; rw [hj.2.2.1]; exact h
      · right; exact h
    have h0 : Running c S Φ t l m (vwU ⟨mix t rl.st, some l, .notFound, none⟩) (vwU ⟨rl.st, some m, .notFound, none⟩) :=
      ⟨rfl, rfl, [], t, l, by simp [vwU], FeedOk.nil t l, rfl, rfl, hj1⟩
    have hfold := fold_comp (c := c) (S := S) (Φ := Φ) (t := t) (l := l) (m := m)
      (unaryStep c item cb (some (appendO nx S))) (unaryStep c item cb nx) vwU vwU IU VU
      (fun a x h => unaryStep_skip cb _ a x h) (fun b x h => unaryStep_skip cb _ b x h)
      (fun a b x hr hi => unaryStep_step H nx hcn' cb a b x hr hi)
      (foldl_grow (unaryStep c item cb nx) vwU VU (fun b' x hV => unaryStep_grow H cb nx b' x hV))
      (rl.found.getD []) _ _ (Or.inl ⟨h0, ⟨by simp, by simp⟩⟩)
    exact final_comp (c := c) (S := S) (Φ := Φ) (t := t) (l := l) (m := m) id (fun _ _ => rfl) (fun _ => ⟨rfl, rfl, rfl⟩)
      ((rl.found.getD []).foldl (unaryStep c item cb (some (appendO nx S))) ⟨mix t rl.st, some l, .notFound, none⟩).res
      ((rl.found.getD []).foldl (unaryStep c item cb nx) ⟨rl.st, some m, .notFound, none⟩).res
      (fun hrun => by
        rcases hfold with ⟨_, hi⟩ | ⟨rA, rB, e1, e2, _⟩ | ⟨rA, e1, _⟩
        · exact ⟨fun h => absurd h hi.1, fun h => absurd h hi.2⟩
        · exact absurd (e1.symm.trans hrun.retA) (by simp)
        · exact absurd (e1.symm.trans hrun.retA) (by simp))
      (by rcases hfold with h | h | h
          · exact Or.inl h.1
          · exact Or.inr (Or.inl h)
          · exact Or.inr (Or.inr h))

/-! ### `.keyvalue()` -/

def vwKV (a : KVAcc) : View := ⟨a.st, a.found, a.ret⟩
def IKV (a b : KVAcc) : Prop := a.stop = false ∧ b.stop = false ∧ a.res ≠ .failed ∧ b.res ≠ .failed

def kvId (c : Ctx) (s : St) (v : Item) : Int :=
  let a0 := c.addrOf v
  let off : Int := if a0 > s.baseAddr then (a0 - s.baseAddr : Nat) else (s.baseAddr - a0 : Nat)
  off + s.baseId * 10000000000

def kvFin (s : St) (a : KVAcc) : Res :=
  match a.ret with
  | some r => { r with st := { r.st with baseAddr := s.baseAddr, baseId := s.baseId } }
  | none => ⟨{ a.st with baseAddr := s.baseAddr, baseId := s.baseId }, a.found, a.res, none⟩

theorem executeKeyValueMethod_obj (c : Ctx) (item : ItemK) (any : AnyK) (s : St) (n : Node) (nx : Option Node)
    (kvs : List (List Char × Item)) (f : Found) (unwrap : Bool) :
    executeKeyValueMethod c item any s n nx (.obj kvs) f unwrap =
      if kvs.isEmpty then ⟨s, f, .notFound, none⟩
      else if nx.isNone && f.isNone then ⟨s, f, .ok, none⟩
      else kvFin s (kvs.foldl (kvStep c item nx (kvId c s (.obj kvs))) ⟨s, f, .ok, none, false⟩) := rfl

theorem kvStep_skip {item : ItemK} (nx : Option Node) (id : Int) (a : KVAcc) (x : List Char × Item)
    (h : (vwKV a).ret ≠ none) : kvStep c item nx id a x = a := by
  unfold kvStep
  cases hr : a.ret with
  | none => exact absurd hr h
  | some r => simp

theorem kvStep_view {item : ItemK} (nx : Option Node) (id : Int) (a : KVAcc) (kv : List Char × Item) (l' : List Item)
    (hf : a.found = some l') (hr : a.ret = none) (hs : a.stop = false) :
    vwKV (kvStep c item nx id a kv)
      = upd (executeNextItem c item (kvEnter c a.st (kvObj id kv)) nx (kvObj id kv) (some l')) ∧
    ((executeNextItem c item (kvEnter c a.st (kvObj id kv)) nx (kvObj id kv) (some l')).status ≠ .failed →
      (kvStep c item nx id a kv).res = (executeNextItem c item (kvEnter c a.st (kvObj id kv)) nx (kvObj id kv) (some l')).status ∧
      (kvStep c item nx id a kv).stop = false) := by
  unfold kvStep
  simp only [hr, hs, hf, Option.isSome_none, Bool.or_false, Bool.false_eq_true, if_false, Option.isNone_some,
    Bool.and_false]
  split
  · rename_i h
    refine ⟨?_, fun hn => absurd h hn⟩
    rw [upd_failed h]; rfl
  · rename_i h
    refine ⟨?_, fun _ => ⟨rfl, rfl⟩⟩
    rw [upd_ok h]; rfl

theorem kvStep_grow (H : Hyp c S Φ item bool any) (nx : Option Node) (id : Int) (b : KVAcc) (kv : List Char × Item) :
    GrowV (vwKV b) (vwKV (kvStep c item nx id b kv)) := by
  unfold kvStep
  split
  · exact GrowV.refl _
  · rename_i hb
    have hb' : b.ret = none := by cases h : b.ret <;> simp_all
    have hg := executeNextItem_good c H.goodI (kvEnter c b.st (kvObj id kv)) nx (kvObj id kv) b.found
    have hm := H.monoNext (kvEnter c b.st (kvObj id kv)) nx (kvObj id kv) b.found
    have hk : StkLe b.st (kvEnter c b.st (kvObj id kv)) := ⟨fun h => h, fun h => h, fun h => h⟩
    dsimp only
    split
    · exact growV_mk hb' (fun r hr => by simp at hr; subst hr; exact ⟨rfl, rfl⟩) hg.shape (hk.trans hm)
    · split
      · exact growV_mk hb' (fun r hr => by simp at hr) hg.shape (hk.trans hm)
      · exact growV_mk hb' (fun r hr => by simp [hb'] at hr) hg.shape (hk.trans hm)

theorem kvStep_step (H : Hyp c S Φ item bool any) {t : St} {l m : List Item} (nxB : Option Node)
    (hcn' : t.ignoreSE = true ∨ NoAnyO nxB = true) (id : Int) (a b : KVAcc) (kv : List Char × Item)
    (hr : Running c S Φ t l m (vwKV a) (vwKV b)) (hi : IKV a b) :
    (Running c S Φ t l m (vwKV (kvStep c item (some (appendO nxB S)) id a kv)) (vwKV (kvStep c item nxB id b kv)) ∧
      IKV (kvStep c item (some (appendO nxB S)) id a kv) (kvStep c item nxB id b kv)) ∨
    Both c S Φ t l m (vwKV (kvStep c item (some (appendO nxB S)) id a kv)) (vwKV (kvStep c item nxB id b kv)) ∨
    (Failing c S Φ t l m (vwKV (kvStep c item (some (appendO nxB S)) id a kv)) (vwKV (kvStep c item nxB id b kv)) ∧
      True) := by
  have hig : b.st.ignoreSE = t.ignoreSE := hr.ign
  have hcn : ChainOKO (kvEnter c b.st (kvObj id kv)) nxB := by
    rcases hcn' with h | h
    · left; show b.st.ignoreSE = true; rw [hig]; exact h
    · right; exact h
  obtain ⟨hA0, hB0, xs, t', l', h3, h4, h5, h6, h7⟩ := hr
  simp only [vwKV] at hA0 hB0 h3 h5 h6 h7
  obtain ⟨hvA, hresA⟩ := kvStep_view (c := c) (item := item) (some (appendO nxB S)) id a kv l' h5 hA0 hi.1
  obtain ⟨hvB, hresB⟩ := kvStep_view (c := c) (item := item) nxB id b kv (m ++ xs) h3 hB0 hi.2.1
  rw [h6] at hvA hresA
  have hj1 : Junc t' (kvEnter c b.st (kvObj id kv)) := h7
  have hgB := executeNextItem_good c H.goodI (kvEnter c b.st (kvObj id kv)) nxB (kvObj id kv) (some (m ++ xs))
  have hbB := executeNextItem_bud c H.budI (kvEnter c b.st (kvObj id kv)) nxB (kvObj id kv) (some (m ++ xs)) h7.2.2.2.2
  have hcomp := executeNextItem_comp H l' (m ++ xs) nxB (kvObj id kv) hj1 hcn
  rw [hvA, hvB]
  rcases step_ofCall h4 hj1 hcomp hgB hbB with h | h | h
  · left
    refine ⟨h, ?_⟩
    have hnA := upd_ret_none h.retA
    have hnB := upd_ret_none h.retB
    obtain ⟨e1, e2⟩ := hresA hnA
    obtain ⟨e3, e4⟩ := hresB hnB
    exact ⟨e2, e4, by rw [e1]; exact hnA, by rw [e3]; exact hnB⟩
  · exact Or.inr (Or.inl h)
  · exact Or.inr (Or.inr ⟨h, trivial⟩)

theorem executeKeyValueMethod_comp (H : Hyp c S Φ item bool any) {t sB : St} (l m : List Item) (nB : Node)
    (nx : Option Node) (v : Item) (unwrap : Bool) (hj : Junc t sB) (hc : ChainOK sB nB)
    (hcx : ChainOKO sB nx) :
    Comp c S Φ t l m (executeKeyValueMethod c item any (mix t sB) (append nB S) (some (appendO nx S)) v (some l) unwrap)
      (executeKeyValueMethod c item any sB nB nx v (some m) unwrap) := by
  cases v with
  | obj kvs =>
    rw [executeKeyValueMethod_obj, executeKeyValueMethod_obj]
    refine comp_ite (fun _ => Comp.ofBoth _ _ _ _ _ _) (fun _ => ?_)
    simp only [Option.isNone_some, Bool.and_false, Bool.false_eq_true, if_false]
    have hcn' : t.ignoreSE = true ∨ NoAnyO nx = true := by
      rcases hcx with h | h
      · left; rw [hj.2.2.1]; exact h
      · right; exact h
    have eid : kvId c (mix t sB) (.obj kvs) = kvId c sB (.obj kvs) := rfl
    rw [eid]
    generalize kvId c sB (.obj kvs) = id
    have h0 : Running c S Φ t l m (vwKV ⟨mix t sB, some l, .ok, none, false⟩) (vwKV ⟨sB, some m, .ok, none, false⟩) :=
      ⟨rfl, rfl, [], t, l, by simp [vwKV], FeedOk.nil t l, rfl, rfl, hj⟩
    have hfold := fold_comp (c := c) (S := S) (Φ := Φ) (t := t) (l := l) (m := m)
      (kvStep c item (some (appendO nx S)) id) (kvStep c item nx id) vwKV vwKV IKV (fun _ => True)
      (fun a x h => kvStep_skip _ _ a x h) (fun b x h => kvStep_skip _ _ b x h)
      (fun a b x hr hi => kvStep_step H nx hcn' id a b x hr hi)
      (foldl_grow (kvStep c item nx id) vwKV (fun _ => True) (fun b' x _ => ⟨kvStep_grow H nx id b' x, trivial⟩))
      kvs _ _ (Or.inl ⟨h0, ⟨rfl, rfl, by simp, by simp⟩⟩)
    exact final_comp (c := c) (S := S) (Φ := Φ) (t := t) (l := l) (m := m)
      (fun st => { st with baseAddr := sB.baseAddr, baseId := sB.baseId }) (fun _ _ => rfl) (fun _ => ⟨rfl, rfl, rfl⟩)
      (kvs.foldl (kvStep c item (some (appendO nx S)) id) ⟨mix t sB, some l, .ok, none, false⟩).res
      (kvs.foldl (kvStep c item nx id) ⟨sB, some m, .ok, none, false⟩).res
      (fun hrun => by
        rcases hfold with ⟨_, hi⟩ | ⟨rA, rB, e1, e2, _⟩ | ⟨rA, e1, _⟩
        · exact ⟨fun h => absurd h hi.2.2.1, fun h => absurd h hi.2.2.2⟩
        · exact absurd (e1.symm.trans hrun.retA) (by simp)
        · exact absurd (e1.symm.trans hrun.retA) (by simp))
      (by rcases hfold with h | h | h
          · exact Or.inl h.1
          · exact Or.inr (Or.inl h)
          · exact Or.inr (Or.inr h))
  | arr xs =>
    unfold executeKeyValueMethod
    simp only [unwrapTargetArray]
    exact comp_ite (fun _ => selfAny_comp H l m nB xs hj hc) (fun _ => returnVerboseError_comp _ _ _ _)
  | _ =>
    unfold executeKeyValueMethod
    exact returnVerboseError_comp _ _ _ _

/-! ### node dispatch -/

theorem execMethodNode_comp (H : Hyp c S Φ item bool any) {t sB : St} (l m : List Item) (nB : Node) (mth : Method)
    (nx : Option Node) (v : Item) (unwrap : Bool) (hj : Junc t sB) (hc : ChainOK sB nB)
    (hcx : ChainOKO sB nx) :
    Comp c S Φ t l m (execMethodNode c item any (mix t sB) (append nB S) mth (some (appendO nx S)) v (some l) unwrap)
      (execMethodNode c item any sB nB mth nx v (some m) unwrap) := by
  unfold execMethodNode
  cases mth <;> simp only
  all_goals first
    | exact execConvMethod_comp H l m nB nx v unwrap _ hj hc hcx
    | exact executeNextItem_comp H l m nx _ hj hcx
    | exact execMethodSize_comp H l m nx v hj hcx
    | exact executeKeyValueMethod_comp H l m nB nx v unwrap hj hc hcx

theorem execBinaryNode_comp (H : Hyp c S Φ item bool any) {t sB : St} (l m : List Item) (nB : Node) (op : BinOp)
    (lo ro nx : Option Node) (v : Item) (unwrap : Bool) (hj : Junc t sB) (hc : ChainOK sB nB)
    (hcx : ChainOKO sB nx) :
    Comp c S Φ t l m
      (execBinaryNode c item bool any (mix t sB) (append nB S) op lo ro (some (appendO nx S)) v (some l) unwrap)
      (execBinaryNode c item bool any sB nB op lo ro nx v (some m) unwrap) := by
  unfold execBinaryNode
  refine comp_ite (fun _ => boolNode_comp H l m nB nx v hj hcx) (fun _ => ?_)
  refine comp_ite (fun _ => execBinaryMathExpr_comp H l m op lo ro nx v hj hcx) (fun _ => ?_)
  cases op <;> simp only
  all_goals first
    | exact execConvMethod_comp H l m nB nx v unwrap _ hj hc hcx
    | exact Comp.ofBoth _ _ _ _ _ _

theorem filterTail_comp (H : Hyp c S Φ item bool any) {t sB : St} (l m : List Item) (cond : Node)
    (nx : Option Node) (v : Item) (hj : Junc t sB) (hcx : ChainOKO sB nx) :
    Comp c S Φ t l m
      (let p := executeNestedBoolItem bool (mix t sB) cond v
       if p.err.isSome then ⟨p.st, some l, .failed, p.err⟩
       else if p.out ≠ .t then ⟨p.st, some l, .notFound, none⟩
       else executeNextItem c item p.st (some (appendO nx S)) v (some l))
      (let p := executeNestedBoolItem bool sB cond v
       if p.err.isSome then ⟨p.st, some m, .failed, p.err⟩
       else if p.out ≠ .t then ⟨p.st, some m, .notFound, none⟩
       else executeNextItem c item p.st nx v (some m)) := by
  have hp := executeNestedBoolItem_good H.goodB sB cond v
  have hpb := executeNestedBoolItem_bud H.budB sB cond v hj.2.2.2.2
  simp only [H.nestedBool, mixP_err, mixP_st, mixP_out]
  generalize executeNestedBoolItem bool sB cond v = p at hp hpb
  refine comp_ite (fun _ => Comp.ofBoth _ _ _ _ _ _) (fun _ => ?_)
  refine comp_ite (fun _ => Comp.ofBoth _ _ _ _ _ _) (fun _ => ?_)
  exact executeNextItem_comp H l m nx v (hj.goodP hp hpb) (hcx.ofCtx hp.ctx)

theorem execUnaryNode_comp (H : Hyp c S Φ item bool any) {t sB : St} (l m : List Item) (nB : Node) (op : UnOp)
    (x nx : Option Node) (v : Item) (unwrap : Bool) (hj : Junc t sB) (hc : ChainOK sB nB)
    (hcx : ChainOKO sB nx) :
    Comp c S Φ t l m
      (execUnaryNode c item bool any (mix t sB) (append nB S) op x (some (appendO nx S)) v (some l) unwrap)
      (execUnaryNode c item bool any sB nB op x nx v (some m) unwrap) := by
  have hsa : ∀ xs : List Item, Comp c S Φ t l m (any (mix t sB) (some (append nB S)) xs (some l) 1 1 1 false false)
      (any sB (some nB) xs (some m) 1 1 1 false false) := fun xs => selfAny_comp H l m nB xs hj hc
  unfold execUnaryNode
  cases op with
  | not => exact boolNode_comp H l m nB nx v hj hcx
  | isUnknown => exact boolNode_comp H l m nB nx v hj hcx
  | «exists» => exact boolNode_comp H l m nB nx v hj hcx
  | plus => exact execUnaryMathExpr_comp H l m x nx v _ hj hcx
  | minus => exact execUnaryMathExpr_comp H l m x nx v _ hj hcx
  | filter =>
    simp only
    cases x with
    | none =>
      cases v <;> cases unwrap <;> first
        | exact hsa _
        | exact Comp.ofBoth _ _ _ _ _ _
    | some cond =>
      have tl := filterTail_comp H l m cond nx v hj hcx
      cases v <;> cases unwrap <;> first
        | exact hsa _
        | exact tl
  | datetime =>
    simp only
    have tl := executeDateTimeMethod_comp H l m .datetime x nx v hj hcx
    cases v <;> cases unwrap <;> first | exact hsa _ | exact tl
  | date =>
    simp only
    have tl := executeDateTimeMethod_comp H l m .date x nx v hj hcx
    cases v <;> cases unwrap <;> first | exact hsa _ | exact tl
  | time =>
    simp only
    have tl := executeDateTimeMethod_comp H l m .time x nx v hj hcx
    cases v <;> cases unwrap <;> first | exact hsa _ | exact tl
  | timeTZ =>
    simp only
    have tl := executeDateTimeMethod_comp H l m .timeTZ x nx v hj hcx
    cases v <;> cases unwrap <;> first | exact hsa _ | exact tl
  | timestamp =>
    simp only
    have tl := executeDateTimeMethod_comp H l m .timestamp x nx v hj hcx
    cases v <;> cases unwrap <;> first | exact hsa _ | exact tl
  | timestampTZ =>
    simp only
    have tl := executeDateTimeMethod_comp H l m .timestampTZ x nx v hj hcx
    cases v <;> cases unwrap <;> first | exact hsa _ | exact tl

theorem ChainOK.next {s : St} {n : Node} (h : ChainOK s n) : ChainOKO s n.next := by
  rcases h with h | h
  · exact Or.inl h
  · right; cases n <;> simp_all [NoAny, Node.next]

theorem dispatch_comp (H : Hyp c S Φ item bool any) {t sB : St} (l m : List Item) (n : Node) (v : Item) (u : Bool)
    (hj : Junc t sB) (hc : ChainOK sB n) :
    Comp c S Φ t l m (dispatch c item bool any (mix t sB) (append n S) v (some l) u)
      (dispatch c item bool any sB n v (some m) u) := by
  have hcx := hc.next
  cases n with
  | const k nx =>
    have e : dispatch c item bool any (mix t sB) (append (.const k nx) S) v (some l) u
        = execConstNode c item any (mix t sB) (append (.const k nx) S) k (some (appendO nx S)) v (some l) u := by
      simp only [append, dispatch]
    rw [e]; exact execConstNode_comp H l m _ k nx v u hj hc hcx
  | str tx nx =>
    have e : dispatch c item bool any (mix t sB) (append (.str tx nx) S) v (some l) u
        = execLiteral c item (mix t sB) (some (appendO nx S)) (.str tx) (some l) := by
      simp only [append, dispatch]
    rw [e]; exact execLiteral_comp H l m nx _ hj hcx
  | integer i nx =>
    have e : dispatch c item bool any (mix t sB) (append (.integer i nx) S) v (some l) u
        = execLiteral c item (mix t sB) (some (appendO nx S)) (.int i) (some l) := by
      simp only [append, dispatch]
    rw [e]; exact execLiteral_comp H l m nx _ hj hcx
  | numeric x nx =>
    have e : dispatch c item bool any (mix t sB) (append (.numeric x nx) S) v (some l) u
        = execLiteral c item (mix t sB) (some (appendO nx S)) (.flt x) (some l) := by
      simp only [append, dispatch]
    rw [e]; exact execLiteral_comp H l m nx _ hj hcx
  | var name nx =>
    have e : dispatch c item bool any (mix t sB) (append (.var name nx) S) v (some l) u
        = execVariable c item (mix t sB) name (some (appendO nx S)) (some l) := by
      simp only [append, dispatch]
    rw [e]; exact execVariable_comp H l m name nx hj hcx
  | key k nx =>
    have e : dispatch c item bool any (mix t sB) (append (.key k nx) S) v (some l) u
        = execKeyNode c item any (mix t sB) (append (.key k nx) S) k (some (appendO nx S)) v (some l) u := by
      simp only [append, dispatch]
    rw [e]; exact execKeyNode_comp H l m _ k nx v u hj hc hcx
  | binary op lo ro nx =>
    have e : dispatch c item bool any (mix t sB) (append (.binary op lo ro nx) S) v (some l) u
        = execBinaryNode c item bool any (mix t sB) (append (.binary op lo ro nx) S) op lo ro (some (appendO nx S)) v (some l) u := by
      simp only [append, dispatch]
    rw [e]; exact execBinaryNode_comp H l m _ op lo ro nx v u hj hc hcx
  | unary op x nx =>
    have e : dispatch c item bool any (mix t sB) (append (.unary op x nx) S) v (some l) u
        = execUnaryNode c item bool any (mix t sB) (append (.unary op x nx) S) op x (some (appendO nx S)) v (some l) u := by
      simp only [append, dispatch]
    rw [e]; exact execUnaryNode_comp H l m _ op x nx v u hj hc hcx
  | regex x pat fl nx =>
    have e : dispatch c item bool any (mix t sB) (append (.regex x pat fl nx) S) v (some l) u
        = appendBoolResult c item (some (appendO nx S)) (some l) (bool (mix t sB) (append (.regex x pat fl nx) S) v true) := by
      simp only [append, dispatch]
    rw [e]; exact boolNode_comp H l m _ nx v hj hcx
  | method mth nx =>
    have e : dispatch c item bool any (mix t sB) (append (.method mth nx) S) v (some l) u
        = execMethodNode c item any (mix t sB) (append (.method mth nx) S) mth (some (appendO nx S)) v (some l) u := by
      simp only [append, dispatch]
    rw [e]; exact execMethodNode_comp H l m _ mth nx v u hj hc hcx
  | any first last nx =>
    have e : dispatch c item bool any (mix t sB) (append (.any first last nx) S) v (some l) u
        = execAnyNode c item any (mix t sB) first last (some (appendO nx S)) v (some l) := by
      simp only [append, dispatch]
    rw [e]
    have hign : sB.ignoreSE = true := by
      rcases hc with h | h
      · exact h
      · simp [NoAny] at h
    exact execAnyNode_comp H l m first last nx v hj hign
  | arrayIndex subs nx =>
    have e : dispatch c item bool any (mix t sB) (append (.arrayIndex subs nx) S) v (some l) u
        = execArrayIndex c item (mix t sB) subs (some (appendO nx S)) v (some l) := by
      simp only [append, dispatch]
    rw [e]; exact execArrayIndex_comp H l m subs nx v hj hcx

end comp2

/-! ### the induction over the fuel -/

theorem poll_of_budget_none {s : St} (h : s.budget = none) : poll s = some s := by
  unfold poll; rw [h]

theorem executeBoolItem_append (c : Ctx) (item : ItemK) (bool : BoolK) (s : St) (n S : Node) (v : Item) :
    executeBoolItem c item bool s (append n S) v true = executeBoolItem c item bool s n v true := by
  unfold executeBoolItem
  cases n <;> simp [append]

theorem xBool_append (c : Ctx) (fuel : Nat) (s : St) (n S : Node) (v : Item) :
    xBool c fuel s (append n S) v true = xBool c fuel s n v true := by
  cases fuel with
  | zero => simp [xBool]
  | succ k => simp only [xBool]; exact executeBoolItem_append c _ _ s n S v

/-- the shift that turns the feed state `t` into the state `mix t s` at a junction -/
def jg (s : St) : Shift :=
  { base := some (s.baseAddr, s.baseId), gen := some s.lastGenId, inn := some s.innermost,
    tp := s.panicked, tf := s.oof, tc := s.sawCancel }

theorem jg_st {t s : St} (hj : Junc t s) : (jg s).st t = mix t s := by
  obtain ⟨h1, h2, h3, h4, h5⟩ := hj
  apply St.ext' <;> simp [jg, Shift.st, h1, h2, h3, h4, h5, Bool.or_comm]

theorem jg_fd (s : St) (f : Found) : (jg s).fd f = f := by cases f <;> simp [jg, Shift.fd]

/-- the class of suffixes for the composition theorem inside one run: no `.keyvalue()`, no `last`
    outside a subscript (`$` and `@` are allowed: the root and the current item are those of the run) -/
def sufFlags : Flags := ⟨true, true, false, false⟩

theorem jg_flags (s : St) : (jg s).flags none = sufFlags := rfl

theorem junction (c : Ctx) (S : Node) (Φ : Nat) (hS : Indep sufFlags S = true) (fuel : Nat) (hle : fuel ≤ Φ)
    (sB t : St) (x : Item) (l : List Item) (hj : Junc t sB) :
    ∃ r, KR c S Φ t x l r ∧
      xItem c fuel (mix t sB) S x (some l) c.lax = ⟨mix r.st sB, r.found, r.status, r.err⟩ := by
  refine ⟨xItem c fuel t S x (some l) c.lax, ⟨fuel, hle, rfl⟩, ?_⟩
  have h := (frame_all none c fuel).1 (jg sB) t S x (some l) c.lax hS
  have hg := xItem_good c fuel t S x (some l) c.lax
  have hb := xItem_bud c fuel t S x (some l) c.lax hj.2.2.2.1
  rw [jg_st hj, jg_fd] at h
  rw [show xItem (setRoot none c) fuel = xItem c fuel from rfl] at h
  rw [h]
  simp only [Shift.res, jg_fd]
  rw [jg_st (hj.ofCtxL hg.ctx hb)]

/-- **the composition simulation for the dispatchers**: `Φ` bounds the fuel of the runs of `S` -/
theorem comp_all (c : Ctx) (S : Node) (Φ : Nat) (hS : Indep sufFlags S = true) :
    ∀ fuel : Nat, fuel ≤ Φ → CompI c S Φ (xItem c fuel) ∧ CompA c S Φ (xAny c fuel) := by
  intro fuel
  induction fuel with
  | zero =>
    intro _
    refine ⟨fun sB t l m n v u _ _ => ?_, fun sB t l m node vs lv a b ign un _ _ _ _ => ?_⟩
    · simp only [xItem]; exact Comp.ofBoth _ _ _ _ _ _
    · simp only [xAny]; exact Comp.ofBoth _ _ _ _ _ _
  | succ fuel ih =>
    intro hle
    have ih := ih (Nat.le_of_succ_le hle)
    obtain ⟨hI, hB, hA⟩ := good_all c fuel
    obtain ⟨bI, bB, bA⟩ := bud_all c fuel
    obtain ⟨fI, fB, fA⟩ := frame_all none c fuel
    have H : Hyp c S Φ (xItem c fuel) (xBool c fuel) (xAny c fuel) :=
      { goodI := hI, goodB := hB, goodA := hA, budI := bI, budB := bB, budA := bA,
        frI := fI, frB := fB, frA := fA,
        jn := fun sB t x l hj => junction c S Φ hS fuel (Nat.le_of_succ_le hle) sB t x l hj,
        ci := ih.1, ca := ih.2,
        bnext := fun s n v => xBool_append c fuel s n S v }
    refine ⟨fun sB t l m n v u hj hc => ?_, fun sB t l m node vs lv a b ign un hj hcn hign hun => ?_⟩
    · simp only [xItem]
      rw [poll_of_budget_none (s := mix t sB) hj.2.2.2.2, poll_of_budget_none hj.2.2.2.2]
      exact dispatch_comp H l m n v u hj hc
    · simp only [xAny]
      exact executeAnyItem_comp H l m node vs lv a b ign un hj hcn hign hun

/-! ### the statements for `xItem` -/

/-- the sticky flags only grow -/
theorem xItem_stkLe (c : Ctx) (fuel : Nat) (s : St) (n : Node) (v : Item) (f : Found) (u : Bool) :
    StkLe s (xItem c fuel s n v f u).st := by
  have h := (frame_all none c fuel).1 (tg s) s n v f u (indep_top n)
  rw [tg_fd, tg_res] at h
  rw [show xItem (setRoot none c) fuel = xItem c fuel from rfl] at h
  have h' : xItem c fuel (mix s s) n v f u = mixR s (xItem c fuel s n v f u) := h
  rw [mix_self] at h'
  exact stkLe_of_mix_eq (congrArg Res.st h')

theorem KR.stkLe {c : Ctx} {S : Node} {Φ : Nat} {t : St} {x : Item} {l : List Item} {r : Res}
    (h : KR c S Φ t x l r) : StkLe t r.st := by
  obtain ⟨fuel, _, rfl⟩ := h; exact xItem_stkLe c fuel t S x (some l) c.lax

theorem FeedOk.stkLe {c : Ctx} {S : Node} {Φ : Nat} {t t' : St} {l l' xs : List Item}
    (h : FeedOk c S Φ t l xs t' l') : StkLe t t' := by
  induction h with
  | nil t l => exact StkLe.refl t
  | cons hk _ _ _ ih => exact hk.stkLe.trans ih

/-- **composition, relational form.**  `A` = the run of `P S`, `B` = the run of `P` alone (collecting into
    the empty list); both from the same state `s` (never cancelled), with the same fuel.  Then either
    all runs of `S` on the items of `B` succeed and `A` is `B` with the result list replaced by what the
    feed produced (`CompOk`), or a run of `S` fails and `A` is that failure (`CompFail`).
    Side conditions: `S` contains no `.keyvalue()` and no `last` outside a subscript (`sufFlags`);
    `ignoreStructuralErrors` is set already or `P` has no `.**` step in its chain (`ChainOK`). -/
theorem compose_rel (c : Ctx) (S : Node) (Φ : Nat) (hS : Indep sufFlags S = true) (fuel : Nat) (hle : fuel ≤ Φ)
    (s : St) (hb : s.budget = none) (P : Node) (hc : ChainOK s P) (l : List Item) (v : Item) (u : Bool) :
    Comp c S Φ s l [] (xItem c fuel s (append P S) v (some l) u) (xItem c fuel s P v (some []) u) := by
  have h := (comp_all c S Φ hS fuel hle).1 s s l [] P v u ⟨rfl, rfl, rfl, hb, hb⟩ hc
  rw [mix_self] at h
  exact h

/-! ### transferring a run of `S` to another root, current item, base object and result list -/

/-- the shift that produces the state `t` and the result list `l` -/
def tgt (t : St) (l : List Item) : Shift :=
  { cur := some t.current, inn := some t.innermost, base := some (t.baseAddr, t.baseId), gen := some t.lastGenId,
    tp := t.panicked, tf := t.oof, tc := t.sawCancel, pre := l }

/-- the class of suffixes that can be evaluated on their own: no `$`, no `@` outside a filter, no `last`
    outside a subscript, no `.keyvalue()` -/
def closedFlags : Flags := ⟨false, false, false, false⟩

theorem tgt_flags (t : St) (l : List Item) (d : Item) : (tgt t l).flags (some d) = closedFlags := rfl

theorem closed_le_suf : Flags.le closedFlags sufFlags := by simp [Flags.le, closedFlags, sufFlags]

theorem tgt_st {t s1 : St} (l : List Item) (hv : s1.verbose = t.verbose) (hi : s1.ignoreSE = t.ignoreSE)
    (hb : s1.budget = t.budget) : (tgt t l).st s1 = mix s1 t := by
  apply St.ext' <;> simp [tgt, Shift.st, hv, hi, hb, Bool.or_comm]

/-- **a run of a closed `S` does not depend on where it happens**: the run on `x` from `t` with root `d`
    and result list `l` is the run on `x` from `s1` with root `c'.root` and the empty list, moved -/
theorem transfer (c' : Ctx) (d : Item) (S : Node) (hS : Indep closedFlags S = true) (k : Nat) (s1 t : St)
    (x : Item) (l : List Item) (u : Bool) (hv : s1.verbose = t.verbose) (hi : s1.ignoreSE = t.ignoreSE)
    (hb1 : s1.budget = none) (hb2 : t.budget = none) :
    xItem (setRoot (some d) c') k (mix s1 t) S x (some l) u =
      ⟨mix (xItem c' k s1 S x (some []) u).st t, some (l ++ (xItem c' k s1 S x (some []) u).found.getD []),
        (xItem c' k s1 S x (some []) u).status, (xItem c' k s1 S x (some []) u).err⟩ := by
  have h := (frame_all (some d) c' k).1 (tgt t l) s1 S x (some []) u hS
  have hg := xItem_good c' k s1 S x (some []) u
  rw [tgt_st l hv hi (hb1.trans hb2.symm)] at h
  simp only [Shift.fd_some, List.append_nil, tgt] at h
  rw [h]
  obtain ⟨ys, hys⟩ := hg.shape.2 [] rfl
  have hctx := hg.ctx
  simp [St.ctxEq] at hctx
  simp only [Shift.res, hys, Shift.fd_some, Option.getD_some, List.nil_append]
  congr 1
  exact tgt_st l (by rw [hctx.2.2.2.2.2, hv]) (by rw [hctx.2.2.2.2.1, hi])
    ((xItem_bud c' k s1 S x (some []) u hb1).trans hb2.symm)

/-! ## 5. the composition simulation, probe mode

The composed run `append P S` in probe mode (`found = nil`: stop at the first hit) against the run of `P`
alone in collect mode: the items of `P` are fed to `S` in probe mode until one run of `S` does not return
`notFound` (a hit, or a failure); the composed run returns that result.  Same structure as part 4; the
lemmas about the run of `P` alone (`…_grow`) are shared. -/

section probe
variable (c : Ctx) (S : Node) (Φ : Nat)

/-- `r` is what a run of `S` on `x` in probe mode returns when started in state `t` -/
def KRp (t : St) (x : Item) (r : Res) : Prop :=
  ∃ fuel, fuel ≤ Φ ∧ r = xItem c fuel t S x none c.lax

theorem KRp.good {t : St} {x : Item} {r : Res} (h : KRp c S Φ t x r) : Good t none r := by
  obtain ⟨fuel, _, rfl⟩ := h; exact xItem_good c fuel t S x none c.lax

theorem KRp.bud {t : St} {x : Item} {r : Res} (h : KRp c S Φ t x r) (hb : t.budget = none) :
    r.st.budget = none := by
  obtain ⟨fuel, _, rfl⟩ := h; exact xItem_bud c fuel t S x none c.lax hb

theorem KRp.stkLe {t : St} {x : Item} {r : Res} (h : KRp c S Φ t x r) : StkLe t r.st := by
  obtain ⟨fuel, _, rfl⟩ := h; exact xItem_stkLe c fuel t S x none c.lax

/-- feeding the items `xs`, in order, to `S` in probe mode, every run returning `notFound` -/
inductive FeedNF : St → List Item → St → Prop
  | nil (t : St) : FeedNF t [] t
  | cons {t : St} {x : Item} {r : Res} {xs : List Item} {t' : St} :
      KRp c S Φ t x r → r.status = .notFound → FeedNF r.st xs t' → FeedNF t (x :: xs) t'

theorem FeedNF.append {t t1 t2 : St} {xs ys : List Item} (h1 : FeedNF c S Φ t xs t1)
    (h2 : FeedNF c S Φ t1 ys t2) : FeedNF c S Φ t (xs ++ ys) t2 := by
  induction h1 with
  | nil t => simpa using h2
  | cons hk hnf _ ih => exact FeedNF.cons hk hnf (ih h2)

theorem FeedNF.ctx {t t' : St} {xs : List Item} (h : FeedNF c S Φ t xs t') :
    t'.ctxEq t ∧ (t.budget = none → t'.budget = none) := by
  induction h with
  | nil t => exact ⟨St.ctxEq.refl t, id⟩
  | cons hk hnf _ ih =>
    exact ⟨ih.1.trans (KRp.good c S Φ hk).ctx, fun hb => ih.2 (KRp.bud c S Φ hk hb)⟩

theorem FeedNF.junc {t t' s : St} {xs : List Item} (h : FeedNF c S Φ t xs t') (hj : Junc t s) : Junc t' s :=
  hj.ofCtxL (h.ctx c S Φ).1 ((h.ctx c S Φ).2 hj.2.2.2.1)

theorem FeedNF.stkLe {t t' : St} {xs : List Item} (h : FeedNF c S Φ t xs t') : StkLe t t' := by
  induction h with
  | nil t => exact StkLe.refl t
  | cons hk _ _ ih => exact (KRp.stkLe c S Φ hk).trans ih

/-- no run of `S` hit or failed: the composed run ended as the run of the prefix, without a hit -/
def CompOkP (t : St) (m : List Item) (A B : Res) : Prop :=
  ∃ xs t', B.found = some (m ++ xs) ∧ FeedNF c S Φ t xs t' ∧ A.found = none ∧ A.st = mix t' B.st ∧
    A.err = B.err ∧ (A.status = .failed ↔ B.status = .failed) ∧ A.status ≠ .ok

/-- the run of `S` on the item `x` hit or failed (after the runs on `xs` returned `notFound`): the composed run
    returns that; the run of the prefix alone goes on -/
def CompStopP (t : St) (m : List Item) (A : Res) (Bst : St) (Bfound : Found) : Prop :=
  ∃ xs x rest t1 F, Bfound = some (m ++ xs ++ x :: rest) ∧ FeedNF c S Φ t xs t1 ∧ KRp c S Φ t1 x F ∧
    F.status ≠ .notFound ∧ A.status = F.status ∧ A.err = F.err ∧ A.found = none ∧
    StkLe F.st A.st ∧ StkLe A.st (mix F.st Bst)

def CompP (t : St) (m : List Item) (A B : Res) : Prop :=
  CompOkP c S Φ t m A B ∨ CompStopP c S Φ t m A B.st B.found

def CompIP (item : ItemK) : Prop :=
  ∀ sB t m n v u, Junc t sB → ChainOK sB n →
    CompP c S Φ t m (item (mix t sB) (append n S) v none u) (item sB n v (some m) u)

def CompAP (any : AnyK) : Prop :=
  ∀ sB t m node vs lv a b ign un, Junc t sB → ChainOKO sB node → (ign = true → sB.ignoreSE = true) →
    (node = none → un = c.lax) →
    CompP c S Φ t m (any (mix t sB) (some (appendO node S)) vs none lv a b ign un)
      (any sB node vs (some m) lv a b ign un)

/-- what the per-function lemmas of the probe-mode simulation assume about the recursive calls:
    everything of `Hyp`, and the probe-mode junction and simulation -/
structure HypP (item : ItemK) (bool : BoolK) (any : AnyK) : Prop where
  base : Hyp c S Φ item bool any
  jn : ∀ sB t x, Junc t sB →
    ∃ r, KRp c S Φ t x r ∧ item (mix t sB) S x none c.lax = ⟨mix r.st sB, none, r.status, r.err⟩
  ci : CompIP c S Φ item
  ca : CompAP c S Φ any

variable {c S Φ} {item : ItemK} {bool : BoolK} {any : AnyK}

/-! ### building blocks -/

theorem CompOkP.ofBoth (t sB : St) (m : List Item) (st : Status) (e : Option Err) (hst : st ≠ .ok) :
    CompOkP c S Φ t m ⟨mix t sB, none, st, e⟩ ⟨sB, some m, st, e⟩ :=
  ⟨[], t, by simp, FeedNF.nil t, rfl, rfl, rfl, Iff.rfl, hst⟩

/-- both runs return the same result (not a hit) without evaluating the rest of the chain -/
theorem CompP.ofBoth (t sB : St) (m : List Item) (st : Status) (e : Option Err) (hst : st ≠ .ok) :
    CompP c S Φ t m ⟨mix t sB, none, st, e⟩ ⟨sB, some m, st, e⟩ :=
  Or.inl (CompOkP.ofBoth t sB m st e hst)

theorem compP_ite {p : Prop} [Decidable p] {t : St} {m : List Item} {A A' B B' : Res}
    (h1 : p → CompP c S Φ t m A B) (h2 : ¬ p → CompP c S Φ t m A' B') :
    CompP c S Φ t m (if p then A else A') (if p then B else B') := by
  by_cases h : p
  · rw [if_pos h, if_pos h]; exact h1 h
  · rw [if_neg h, if_neg h]; exact h2 h

/-- both runs restore context fields at exit -/
theorem CompP.frame {t : St} {m : List Item} {A B : Res} (ρ : St → St)
    (hρ : ∀ t s, ρ (mix t s) = mix t (ρ s))
    (hstk : ∀ s, (ρ s).panicked = s.panicked ∧ (ρ s).oof = s.oof ∧ (ρ s).sawCancel = s.sawCancel)
    (h : CompP c S Φ t m A B) : CompP c S Φ t m { A with st := ρ A.st } { B with st := ρ B.st } := by
  rcases h with ⟨xs, t', h1, h2, h3, h4, h5, h6, h7⟩ | ⟨xs, x, rest, t1, F, h1, h2, h3, h4, h5, h6, h7, h8, h9⟩
  · exact Or.inl ⟨xs, t', h1, h2, h3, by simp only [h4, hρ], h5, h6, h7⟩
  · refine Or.inr ⟨xs, x, rest, t1, F, h1, h2, h3, h4, h5, h6, h7, ?_, ?_⟩
    · obtain ⟨a, b, d⟩ := hstk A.st
      exact ⟨by rw [a]; exact h8.1, by rw [b]; exact h8.2.1, by rw [d]; exact h8.2.2⟩
    · obtain ⟨a, b, d⟩ := hstk A.st
      obtain ⟨a', b', d'⟩ := hstk B.st
      refine ⟨?_, ?_, ?_⟩
      · rw [a]; intro h; have := h9.1 h; simp at this ⊢; rw [a']; exact this
      · rw [b]; intro h; have := h9.2.1 h; simp at this ⊢; rw [b']; exact this
      · rw [d]; intro h; have := h9.2.2 h; simp at this ⊢; rw [d']; exact this

theorem executeNextItem_compP (H : HypP c S Φ item bool any) {t sB : St} (m : List Item) (nx : Option Node)
    (v : Item) (hj : Junc t sB) (hc : ChainOKO sB nx) :
    CompP c S Φ t m (executeNextItem c item (mix t sB) (some (appendO nx S)) v none)
      (executeNextItem c item sB nx v (some m)) := by
  cases nx with
  | some n =>
    simp only [executeNextItem, executeItem, appendO_some]
    exact H.ci sB t m n v c.lax hj (by simpa [ChainOKO, ChainOK] using hc)
  | none =>
    simp only [executeNextItem, executeItem, appendO_none]
    obtain ⟨r, hr, hA⟩ := H.jn sB t v hj
    rw [hA]
    have hg := KRp.good c S Φ hr
    by_cases hf : r.status = .notFound
    · refine Or.inl ⟨[v], r.st, by simp [Found.append], FeedNF.cons hr hf (FeedNF.nil _), rfl, rfl, ?_, ?_, ?_⟩
      · show r.err = none
        exact err_none_of_good hg (by rw [hf]; simp)
      · simp [hf]
      · show r.status ≠ .ok
        rw [hf]; simp
    · refine Or.inr ⟨[], v, [], t, r, by simp [Found.append], FeedNF.nil t, hr, hf, rfl, rfl, rfl, ?_, ?_⟩
      · exact stkLe_mix_left _ _
      · exact StkLe.refl _

theorem returnVerboseError_compP (t sB : St) (m : List Item) :
    CompP c S Φ t m (returnVerboseError (mix t sB) none) (returnVerboseError sB (some m)) := by
  unfold returnVerboseError
  simp only [mix_verbose]
  exact compP_ite (fun _ => CompP.ofBoth _ _ _ _ _ (by simp)) (fun _ => CompP.ofBoth _ _ _ _ _ (by simp))

theorem returnError_compP (t sB : St) (m : List Item) (e : Err) :
    CompP c S Φ t m (returnError (mix t sB) none e) (returnError sB (some m) e) := by
  unfold returnError
  simp only [mix_verbose]
  exact compP_ite (fun _ => CompP.ofBoth _ _ _ _ _ (by simp)) (fun _ => CompP.ofBoth _ _ _ _ _ (by simp))

theorem structural_compP (t sB : St) (m : List Item) :
    CompP c S Φ t m (structural (mix t sB) none) (structural sB (some m)) := by
  unfold structural
  simp only [mix_ignoreSE]
  exact compP_ite (fun _ => returnVerboseError_compP _ _ _) (fun _ => CompP.ofBoth _ _ _ _ _ (by simp))

theorem returnVerboseError_compOkP (t sB : St) (m : List Item) :
    CompOkP c S Φ t m (returnVerboseError (mix t sB) none) (returnVerboseError sB (some m)) := by
  unfold returnVerboseError
  by_cases h : sB.verbose = true
  · have h' : (mix t sB).verbose = true := h
    rw [if_pos h', if_pos h]; exact CompOkP.ofBoth _ _ _ _ _ (by simp)
  · have h' : ¬ (mix t sB).verbose = true := h
    rw [if_neg h', if_neg h]; exact CompOkP.ofBoth _ _ _ _ _ (by simp)

theorem returnError_compOkP (t sB : St) (m : List Item) (e : Err) :
    CompOkP c S Φ t m (returnError (mix t sB) none e) (returnError sB (some m) e) := by
  unfold returnError
  by_cases h : (sB.verbose || !e.isVerbose) = true
  · have h' : ((mix t sB).verbose || !e.isVerbose) = true := h
    rw [if_pos h', if_pos h]; exact CompOkP.ofBoth _ _ _ _ _ (by simp)
  · have h' : ¬ ((mix t sB).verbose || !e.isVerbose) = true := h
    rw [if_neg h', if_neg h]; exact CompOkP.ofBoth _ _ _ _ _ (by simp)

/-! ### loops: the generic part -/

/-- the accumulator of the composed run after a call of the rest of the chain in probe mode: a hit or a
    failure returns -/
def updP (r : Res) : View := if r.status = .notFound then ⟨r.st, r.found, none⟩ else ⟨r.st, r.found, some r⟩

theorem updP_stop {r : Res} (h : r.status ≠ .notFound) : updP r = ⟨r.st, r.found, some r⟩ := by simp [updP, h]
theorem updP_nf {r : Res} (h : r.status = .notFound) : updP r = ⟨r.st, r.found, none⟩ := by simp [updP, h]
theorem updP_ret_none {r : Res} (h : (updP r).ret = none) : r.status = .notFound := by
  by_cases hs : r.status = .notFound
  · exact hs
  · rw [updP_stop hs] at h; simp at h

variable (c S Φ) in
def RunningP (t : St) (m : List Item) (vA vB : View) : Prop :=
  vA.ret = none ∧ vB.ret = none ∧ ∃ xs t', vB.found = some (m ++ xs) ∧ FeedNF c S Φ t xs t' ∧
    vA.found = none ∧ vA.st = mix t' vB.st ∧ Junc t' vB.st

variable (c S Φ) in
def BothP (t : St) (m : List Item) (vA vB : View) : Prop :=
  ∃ rA rB, vA.ret = some rA ∧ vB.ret = some rB ∧ CompOkP c S Φ t m rA rB

variable (c S Φ) in
def StoppedP (t : St) (m : List Item) (vA vB : View) : Prop :=
  ∃ rA, vA.ret = some rA ∧ CompStopP c S Φ t m rA vB.curSt vB.curFound

theorem RunningP.retA {t : St} {m : List Item} {vA vB : View} (h : RunningP c S Φ t m vA vB) : vA.ret = none := h.1
theorem RunningP.retB {t : St} {m : List Item} {vA vB : View} (h : RunningP c S Φ t m vA vB) : vB.ret = none := h.2.1

theorem RunningP.ign {t : St} {m : List Item} {vA vB : View} (h : RunningP c S Φ t m vA vB) :
    vB.st.ignoreSE = t.ignoreSE := by
  obtain ⟨_, _, xs, t', _, h4, _, _, h7⟩ := h
  have := (h4.ctx c S Φ).1
  simp [St.ctxEq] at this
  rw [← h7.2.2.1, this.2.2.2.2.1]

theorem CompStopP.grow {t : St} {m : List Item} {A : Res} {st st' : St} {f f' : Found}
    (h : CompStopP c S Φ t m A st f) (hs : Shape f f') (hk : StkLe st st') : CompStopP c S Φ t m A st' f' := by
  obtain ⟨xs, x, rest, t1, F, h1, h2, h3, h4, h5, h6, h7, h8, h9⟩ := h
  obtain ⟨l', hl'⟩ := hs.2 _ h1
  refine ⟨xs, x, rest ++ l', t1, F, by rw [hl']; simp [List.append_assoc], h2, h3, h4, h5, h6, h7, h8, ?_⟩
  exact h9.trans (StkLe.mix (StkLe.refl _) hk)

theorem CompOkP.rebase {t t' : St} {m xs : List Item} {A B : Res} (hf : FeedNF c S Φ t xs t')
    (h : CompOkP c S Φ t' (m ++ xs) A B) : CompOkP c S Φ t m A B := by
  obtain ⟨xs2, t2, h1, h2, h3, h4, h5, h6, h7⟩ := h
  exact ⟨xs ++ xs2, t2, by rw [h1, List.append_assoc], hf.append c S Φ h2, h3, h4, h5, h6, h7⟩

theorem CompStopP.rebase {t t' : St} {m xs : List Item} {A : Res} {st : St} {f : Found}
    (hf : FeedNF c S Φ t xs t') (h : CompStopP c S Φ t' (m ++ xs) A st f) : CompStopP c S Φ t m A st f := by
  obtain ⟨xs2, x, rest, t1, F, h1, h2, h3, h4, h5, h6, h7, h8, h9⟩ := h
  exact ⟨xs ++ xs2, x, rest, t1, F, by rw [h1]; simp [List.append_assoc], hf.append c S Φ h2, h3, h4, h5, h6, h7, h8, h9⟩

/-- one call of the rest of the chain from two running loops -/
theorem step_ofCallP {t t' : St} {m xs : List Item} (hf : FeedNF c S Φ t xs t') {s1 : St} {f1 : Found}
    (hj1 : Junc t' s1) {rA rB : Res} (hc : CompP c S Φ t' (m ++ xs) rA rB) (hg : Good s1 f1 rB)
    (hb : rB.st.budget = none) :
    RunningP c S Φ t m (updP rA) (upd rB) ∨ BothP c S Φ t m (updP rA) (upd rB) ∨
      StoppedP c S Φ t m (updP rA) (upd rB) := by
  rcases hc with hok | hstop
  · have hok' := CompOkP.rebase hf hok
    obtain ⟨xs2, t2, h1, h2, h3, h4, h5, h6, h7⟩ := hok
    by_cases hB : rB.status = .failed
    · have hA := h6.2 hB
      right; left
      exact ⟨rA, rB, by rw [updP_stop (by rw [hA]; simp)], by rw [upd_failed hB], hok'⟩
    · have hA : rA.status ≠ .failed := fun h => hB (h6.1 h)
      have hnf : rA.status = .notFound := by
        cases hs : rA.status with
        | ok => exact absurd hs h7
        | notFound => rfl
        | failed => exact absurd hs hA
      left
      rw [updP_nf hnf, upd_ok hB]
      exact ⟨rfl, rfl, xs ++ xs2, t2, by rw [h1, List.append_assoc], hf.append c S Φ h2, h3, h4,
        (h2.junc c S Φ hj1).ofCtx hg.ctx hb⟩
  · have hA : rA.status ≠ .notFound := by
      obtain ⟨_, _, _, _, _, _, _, _, h4, h5, _⟩ := hstop; rw [h5]; exact h4
    right; right
    refine ⟨rA, by rw [updP_stop hA], ?_⟩
    rw [upd_curSt, upd_curFound]
    exact CompStopP.rebase hf hstop

/-- two loops over the same elements -/
theorem fold_compP {α β γ : Type} {t : St} {m : List Item} (stepA : β → α → β) (stepB : γ → α → γ)
    (vwA : β → View) (vwB : γ → View) (I : β → γ → Prop) (V : γ → Prop)
    (hskipA : ∀ a x, (vwA a).ret ≠ none → stepA a x = a)
    (hskipB : ∀ b x, (vwB b).ret ≠ none → stepB b x = b)
    (hstep : ∀ a b x, RunningP c S Φ t m (vwA a) (vwB b) → I a b →
      (RunningP c S Φ t m (vwA (stepA a x)) (vwB (stepB b x)) ∧ I (stepA a x) (stepB b x)) ∨
      BothP c S Φ t m (vwA (stepA a x)) (vwB (stepB b x)) ∨
      (StoppedP c S Φ t m (vwA (stepA a x)) (vwB (stepB b x)) ∧ V (stepB b x)))
    (hgrow : ∀ (b : γ) (xs : List α), V b → GrowV (vwB b) (vwB (xs.foldl stepB b))) :
    ∀ (xs : List α) (a : β) (b : γ),
      ((RunningP c S Φ t m (vwA a) (vwB b) ∧ I a b) ∨ BothP c S Φ t m (vwA a) (vwB b) ∨
        (StoppedP c S Φ t m (vwA a) (vwB b) ∧ V b)) →
      ((RunningP c S Φ t m (vwA (xs.foldl stepA a)) (vwB (xs.foldl stepB b)) ∧ I (xs.foldl stepA a) (xs.foldl stepB b)) ∨
        BothP c S Φ t m (vwA (xs.foldl stepA a)) (vwB (xs.foldl stepB b)) ∨
        StoppedP c S Φ t m (vwA (xs.foldl stepA a)) (vwB (xs.foldl stepB b))) := by
  intro xs
  induction xs with
  | nil =>
    intro a b h
    rcases h with h | h | h
    · exact Or.inl h
    · exact Or.inr (Or.inl h)
    · exact Or.inr (Or.inr h.1)
  | cons x xs ih =>
    intro a b h
    simp only [List.foldl_cons]
    rcases h with ⟨hr, hi⟩ | hb | ⟨hfl, hv⟩
    · exact ih _ _ (hstep a b x hr hi)
    · obtain ⟨rA, rB, h1, h2, h3⟩ := hb
      have eA : stepA a x = a := hskipA a x (by simp [h1])
      have eB : stepB b x = b := hskipB b x (by simp [h2])
      rw [eA, eB]
      exact ih _ _ (Or.inr (Or.inl ⟨rA, rB, h1, h2, h3⟩))
    · obtain ⟨rA, h1, h2⟩ := hfl
      have eA : ∀ y, stepA a y = a := fun y => hskipA a y (by simp [h1])
      rw [eA x, foldl_fixed stepA a xs eA]
      right; right
      have hg := hgrow b (x :: xs) hv
      simp only [List.foldl_cons] at hg
      exact ⟨rA, h1, h2.grow hg.1 hg.2⟩

theorem final_compP {t : St} {m : List Item} {vA vB : View} (ρ : St → St)
    (hρ : ∀ t s, ρ (mix t s) = mix t (ρ s))
    (hstk : ∀ s, (ρ s).panicked = s.panicked ∧ (ρ s).oof = s.oof ∧ (ρ s).sawCancel = s.sawCancel)
    (resA resB : Status)
    (hres : RunningP c S Φ t m vA vB → (resA = .failed ↔ resB = .failed) ∧ resA ≠ .ok)
    (h : RunningP c S Φ t m vA vB ∨ BothP c S Φ t m vA vB ∨ StoppedP c S Φ t m vA vB) :
    CompP c S Φ t m (fin ρ vA resA) (fin ρ vB resB) := by
  rcases h with hrun | ⟨rA, rB, h1, h2, h3⟩ | ⟨rA, h1, h2⟩
  · have hres' := hres hrun
    obtain ⟨h1, h2, xs, t', h3, h4, h5, h6, _⟩ := hrun
    left
    simp only [fin, h1, h2]
    exact ⟨xs, t', h3, h4, h5, by rw [h6, hρ], rfl, hres'.1, hres'.2⟩
  · simp only [fin, h1, h2]
    exact CompP.frame ρ hρ hstk (Or.inl h3)
  · right
    rw [fin_st, fin_found]
    simp only [fin, h1]
    obtain ⟨xs, x, rest, t1, F, g1, g2, g3, g4, g5, g6, g7, g8, g9⟩ := h2
    refine ⟨xs, x, rest, t1, F, g1, g2, g3, g4, g5, g6, g7, ?_, ?_⟩
    · obtain ⟨a, b, d⟩ := hstk rA.st
      exact ⟨by rw [a]; exact g8.1, by rw [b]; exact g8.2.1, by rw [d]; exact g8.2.2⟩
    · obtain ⟨a, b, d⟩ := hstk rA.st
      obtain ⟨a', b', d'⟩ := hstk vB.curSt
      refine ⟨?_, ?_, ?_⟩
      · rw [a]; intro h; have := g9.1 h; simp at this ⊢; rw [a']; exact this
      · rw [b]; intro h; have := g9.2.1 h; simp at this ⊢; rw [b']; exact this
      · rw [d]; intro h; have := g9.2.2 h; simp at this ⊢; rw [d']; exact this

end probe

section probe2
variable {c : Ctx} {S : Node} {Φ : Nat} {item : ItemK} {bool : BoolK} {any : AnyK}

/-! ### building blocks (probe mode) -/

theorem withBaseObject_compP {t sB : St} (m : List Item) (a : Nat) (i : Int) (kA kB : St → Res)
    (hk : CompP c S Φ t m (kA (mix t { sB with baseAddr := a, baseId := i })) (kB { sB with baseAddr := a, baseId := i })) :
    CompP c S Φ t m (withBaseObject (mix t sB) a i kA) (withBaseObject sB a i kB) := by
  unfold withBaseObject
  exact CompP.frame (fun st => { st with baseAddr := sB.baseAddr, baseId := sB.baseId })
    (fun _ _ => rfl) (fun _ => ⟨rfl, rfl, rfl⟩) hk

theorem execLiteral_compP (H : HypP c S Φ item bool any) {t sB : St} (m : List Item) (nx : Option Node)
    (v : Item) (hj : Junc t sB) (hc : ChainOKO sB nx) :
    CompP c S Φ t m (execLiteral c item (mix t sB) (some (appendO nx S)) v none)
      (execLiteral c item sB nx v (some m)) := by
  unfold execLiteral
  simp only [Option.isNone_some, Bool.and_false, Bool.false_and, Bool.false_eq_true, if_false]
  exact executeNextItem_compP H m nx v hj hc

theorem execVariable_compP (H : HypP c S Φ item bool any) {t sB : St} (m : List Item) (name : List Char)
    (nx : Option Node) (hj : Junc t sB) (hc : ChainOKO sB nx) :
    CompP c S Φ t m (execVariable c item (mix t sB) name (some (appendO nx S)) none)
      (execVariable c item sB name nx (some m)) := by
  unfold execVariable
  split
  · exact withBaseObject_compP m _ _ _ _ (executeNextItem_compP H m nx _ (hj.setBase _ _) (hc.setBase _ _))
  · exact CompP.ofBoth _ _ _ _ _ (by simp)

theorem selfAny_compP (H : HypP c S Φ item bool any) {t sB : St} (m : List Item) (nB : Node) (xs : List Item)
    (hj : Junc t sB) (hc : ChainOK sB nB) :
    CompP c S Φ t m (any (mix t sB) (some (append nB S)) xs none 1 1 1 false false)
      (any sB (some nB) xs (some m) 1 1 1 false false) := by
  have h := H.ca sB t m (some nB) xs 1 1 1 false false hj (by simpa [ChainOKO, ChainOK] using hc)
    (by simp) (by simp)
  simpa using h

theorem execKeyNode_compP (H : HypP c S Φ item bool any) {t sB : St} (m : List Item) (nB : Node)
    (key : List Char) (nx : Option Node) (v : Item) (unwrap : Bool) (hj : Junc t sB) (hc : ChainOK sB nB)
    (hcx : ChainOKO sB nx) :
    CompP c S Φ t m (execKeyNode c item any (mix t sB) (append nB S) key (some (appendO nx S)) v none unwrap)
      (execKeyNode c item any sB nB key nx v (some m) unwrap) := by
  unfold execKeyNode
  cases v with
  | obj kvs =>
    simp only
    cases Item.lookup key kvs with
    | some val => exact executeNextItem_compP H m nx val hj hcx
    | none =>
      simp only [mix_ignoreSE, mix_verbose]
      exact compP_ite (fun _ => compP_ite (fun _ => CompP.ofBoth _ _ _ _ _ (by simp))
          (fun _ => CompP.ofBoth _ _ _ _ _ (by simp)))
        (fun _ => CompP.ofBoth _ _ _ _ _ (by simp))
  | arr xs =>
    simp only
    exact compP_ite (fun _ => selfAny_compP H m nB xs hj hc) (fun _ => structural_compP _ _ _)
  | _ => exact structural_compP _ _ _

theorem execAnyKey_compP (H : HypP c S Φ item bool any) {t sB : St} (m : List Item) (nB : Node)
    (nx : Option Node) (v : Item) (unwrap : Bool) (hj : Junc t sB) (hc : ChainOK sB nB)
    (hcx : ChainOKO sB nx) :
    CompP c S Φ t m (execAnyKey c any (mix t sB) (append nB S) (some (appendO nx S)) v none unwrap)
      (execAnyKey c any sB nB nx v (some m) unwrap) := by
  unfold execAnyKey
  cases v with
  | obj kvs => exact H.ca sB t m nx (members kvs) 1 1 1 false c.lax hj hcx (by simp) (fun _ => rfl)
  | arr xs =>
    simp only
    exact compP_ite (fun _ => selfAny_compP H m nB xs hj hc) (fun _ => structural_compP _ _ _)
  | _ => exact structural_compP _ _ _

theorem execAnyArray_compP (H : HypP c S Φ item bool any) {t sB : St} (m : List Item)
    (nx : Option Node) (v : Item) (hj : Junc t sB) (hcx : ChainOKO sB nx) :
    CompP c S Φ t m (execAnyArray c item any (mix t sB) (some (appendO nx S)) v none)
      (execAnyArray c item any sB nx v (some m)) := by
  unfold execAnyArray
  cases v with
  | arr xs => exact H.ca sB t m nx xs 1 1 1 false c.lax hj hcx (by simp) (fun _ => rfl)
  | _ =>
    simp only
    exact compP_ite (fun _ => executeNextItem_compP H m nx _ hj hcx) (fun _ => structural_compP _ _ _)

theorem execLastConst_compP (H : HypP c S Φ item bool any) {t sB : St} (m : List Item)
    (nx : Option Node) (hj : Junc t sB) (hcx : ChainOKO sB nx) :
    CompP c S Φ t m (execLastConst c item (mix t sB) (some (appendO nx S)) none)
      (execLastConst c item sB nx (some m)) := by
  unfold execLastConst
  simp only [mix_innermost, Option.isNone_some, Bool.and_false, Bool.false_and, Bool.false_eq_true, if_false]
  exact compP_ite (fun _ => CompP.ofBoth _ _ _ _ _ (by simp)) (fun _ => executeNextItem_compP H m nx _ hj hcx)

theorem execConstNode_compP (H : HypP c S Φ item bool any) {t sB : St} (m : List Item) (nB : Node) (k : Const)
    (nx : Option Node) (v : Item) (unwrap : Bool) (hj : Junc t sB) (hc : ChainOK sB nB)
    (hcx : ChainOKO sB nx) :
    CompP c S Φ t m (execConstNode c item any (mix t sB) (append nB S) k (some (appendO nx S)) v none unwrap)
      (execConstNode c item any sB nB k nx v (some m) unwrap) := by
  unfold execConstNode
  cases k <;> simp only
  · exact withBaseObject_compP m _ _ _ _ (executeNextItem_compP H m nx _ (hj.setBase _ _) (hcx.setBase _ _))
  · exact executeNextItem_compP H m nx _ hj hcx
  · exact execLastConst_compP H m nx hj hcx
  · exact execAnyArray_compP H m nx v hj hcx
  · exact execAnyKey_compP H m nB nx v unwrap hj hc hcx
  · exact execLiteral_compP H m nx _ hj hcx
  · exact execLiteral_compP H m nx _ hj hcx
  · exact execLiteral_compP H m nx _ hj hcx

/-- the boolean nodes (`&&`, comparisons, `exists`, `like_regex` …) as path items -/
theorem boolNode_compP (H : HypP c S Φ item bool any) {t sB : St} (m : List Item) (nB : Node)
    (nx : Option Node) (v : Item) (hj : Junc t sB) (hcx : ChainOKO sB nx) :
    CompP c S Φ t m (appendBoolResult c item (some (appendO nx S)) none (bool (mix t sB) (append nB S) v true))
      (appendBoolResult c item nx (some m) (bool sB nB v true)) := by
  rw [H.base.bnext, H.base.frameB]
  have hg := H.base.goodB sB nB v true
  have hb := H.base.budB sB nB v true hj.2.2.2.2
  generalize bool sB nB v true = p at hg hb
  unfold appendBoolResult
  simp only [mixP_err, mixP_st, mixP_out]
  cases he : p.err with
  | some e => exact CompP.ofBoth _ _ _ _ _ (by simp)
  | none =>
    simp only [Option.isNone_some, Bool.and_false, Bool.false_and, Bool.false_eq_true, if_false]
    exact executeNextItem_compP H m nx _ (hj.goodP hg hb) (hcx.ofCtx hg.ctx)

theorem execMethodSize_compP (H : HypP c S Φ item bool any) {t sB : St} (m : List Item)
    (nx : Option Node) (v : Item) (hj : Junc t sB) (hcx : ChainOKO sB nx) :
    CompP c S Φ t m (execMethodSize c item (mix t sB) (some (appendO nx S)) v none)
      (execMethodSize c item sB nx v (some m)) := by
  unfold execMethodSize
  cases v with
  | arr xs => exact executeNextItem_compP H m nx _ hj hcx
  | _ =>
    exact compP_ite (fun _ => structural_compP _ _ _) (fun _ => executeNextItem_compP H m nx _ hj hcx)

theorem execConvMethod_compP (H : HypP c S Φ item bool any) {t sB : St} (m : List Item) (nB : Node)
    (nx : Option Node) (v : Item) (unwrap : Bool) (conv : Item → Conv) (hj : Junc t sB) (hc : ChainOK sB nB)
    (hcx : ChainOKO sB nx) :
    CompP c S Φ t m (execConvMethod c item any (mix t sB) (append nB S) (some (appendO nx S)) v none unwrap conv)
      (execConvMethod c item any sB nB nx v (some m) unwrap conv) := by
  have key : ∀ w : Item, CompP c S Φ t m
      (match conv w with
        | .val out => executeNextItem c item (mix t sB) (some (appendO nx S)) out none
        | .verbose => returnVerboseError (mix t sB) none
        | .hard k => ⟨mix t sB, none, .failed, some (.hard k)⟩
        | .viaReturnError e => returnError (mix t sB) none e)
      (match conv w with
        | .val out => executeNextItem c item sB nx out (some m)
        | .verbose => returnVerboseError sB (some m)
        | .hard k => ⟨sB, some m, .failed, some (.hard k)⟩
        | .viaReturnError e => returnError sB (some m) e) := by
    intro w
    cases conv w with
    | val out => exact executeNextItem_compP H m nx _ hj hcx
    | verbose => exact returnVerboseError_compP _ _ _
    | hard k => exact CompP.ofBoth _ _ _ _ _ (by simp)
    | viaReturnError e => exact returnError_compP _ _ _ _
  unfold execConvMethod
  cases v with
  | arr xs =>
    simp only [unwrapTargetArray]
    exact compP_ite (fun _ => selfAny_compP H m nB xs hj hc) (fun _ => returnVerboseError_compP _ _ _)
  | _ => exact key _

theorem executeDateTimeMethod_compP (H : HypP c S Φ item bool any) {t sB : St} (m : List Item) (op : UnOp)
    (arg nx : Option Node) (v : Item) (hj : Junc t sB) (hcx : ChainOKO sB nx) :
    CompP c S Φ t m (executeDateTimeMethod c item (mix t sB) op arg (some (appendO nx S)) v none)
      (executeDateTimeMethod c item sB op arg nx v (some m)) := by
  unfold executeDateTimeMethod
  cases v with
  | str src =>
    dsimp only
    generalize (if (op = UnOp.datetime && arg.isSome) = true then _ else _ : Except Err DateTime) = parsed
    cases parsed with
    | error e => exact returnError_compP _ _ _ _
    | ok d =>
      simp only
      have fin : ∀ d' : DateTime, CompP c S Φ t m
          (if ((some (appendO nx S)).isNone && (none : Found).isNone) = true then (⟨mix t sB, none, .ok, none⟩ : Res)
           else executeNextItem c item (mix t sB) (some (appendO nx S)) (.dt d') none)
          (if (nx.isNone && (some m : Found).isNone) = true then (⟨sB, some m, .ok, none⟩ : Res)
           else executeNextItem c item sB nx (.dt d') (some m)) := by
        intro d'
        simp only [Option.isNone_some, Bool.and_false, Bool.false_and, Bool.false_eq_true, if_false]
        exact executeNextItem_compP H m nx _ hj hcx
      cases hk : kindOfOp op with
      | none => exact fin d
      | some k =>
        simp only
        cases hct : Time.castTo c.env c.useTZ k d with
        | ok d' => exact fin d'
        | error e =>
          cases e
          all_goals exact returnError_compP _ _ _ _
  | _ => exact returnVerboseError_compP _ _ _

theorem execBinaryMathExpr_compP (H : HypP c S Φ item bool any) {t sB : St} (m : List Item) (op : BinOp)
    (lo ro nx : Option Node) (v : Item) (hj : Junc t sB) (hcx : ChainOKO sB nx) :
    CompP c S Φ t m (execBinaryMathExpr c item (mix t sB) op lo ro (some (appendO nx S)) v none)
      (execBinaryMathExpr c item sB op lo ro nx v (some m)) := by
  unfold execBinaryMathExpr
  cases lo with
  | none => exact CompP.ofBoth _ _ _ _ _ (by simp)
  | some ln =>
  cases ro with
  | none => exact CompP.ofBoth _ _ _ _ _ (by simp)
  | some rn =>
    simp only
    have hl := optUnwrapResult_good c H.base.goodI sB ln v true []
    have hlb := optUnwrapResult_bud c H.base.budI sB ln v true [] hj.2.2.2.2
    simp only [H.base.optUnwrap, mixR_status, mixR_st, mixR_err, mixR_found]
    generalize optUnwrapResult c item sB ln v true [] = rl at hl hlb
    refine compP_ite (fun _ => CompP.ofBoth _ _ _ _ _ (by simp)) (fun hnf => ?_)
    have hj1 : Junc t rl.st := hj.good hl hlb
    have hcx1 : ChainOKO rl.st nx := hcx.ofCtx hl.ctx
    generalize rl.found.getD [] = ls
    match ls with
    | [] => exact returnVerboseError_compP _ _ _
    | _ :: _ :: _ => exact returnVerboseError_compP _ _ _
    | [lv] =>
      simp only
      have hr := optUnwrapResult_good c H.base.goodI rl.st rn v true []
      have hrb := optUnwrapResult_bud c H.base.budI rl.st rn v true [] hj1.2.2.2.2
      generalize optUnwrapResult c item rl.st rn v true [] = rr at hr hrb
      refine compP_ite (fun _ => CompP.ofBoth _ _ _ _ _ (by simp)) (fun hnf2 => ?_)
      have hj2 : Junc t rr.st := hj1.good hr hrb
      have hcx2 : ChainOKO rr.st nx := hcx1.ofCtx hr.ctx
      generalize rr.found.getD [] = rs
      match rs with
      | [] => exact returnVerboseError_compP _ _ _
      | _ :: _ :: _ => exact returnVerboseError_compP _ _ _
      | [rv] =>
        simp only
        cases Num.mathOp lv rv op with
        | error e => exact returnVerboseError_compP _ _ _
        | ok val =>
          simp only [Option.isNone_some, Bool.and_false, Bool.false_and, Bool.false_eq_true, if_false]
          exact compP_ite (fun _ => returnVerboseError_compP _ _ _)
            (fun _ => executeNextItem_compP H m nx _ hj2 hcx2)

/-! ### unary plus / minus (probe mode) -/

/-- the invariant of the unary loop: the composed run (probe mode) never sets `res` -/
def IUP (a b : UAcc) : Prop := a.res = .notFound ∧ b.res ≠ .failed

/-- the accumulator after one call of the rest of the chain (probe mode, the chain is not empty) -/
def uGoP (a : UAcc) (r : Res) : UAcc :=
  if r.status = .failed then { a with st := r.st, found := r.found, ret := some r }
  else if r.status = .ok then { a with st := r.st, found := r.found, ret := some ⟨r.st, r.found, .ok, none⟩ }
  else { a with st := r.st, found := r.found }

theorem uGoP_view (a : UAcc) (r : Res) (hr : a.ret = none) (he : r.status ≠ .failed → r.err = none) :
    vwU (uGoP a r) = updP r ∧ (uGoP a r).res = a.res := by
  unfold uGoP
  by_cases h1 : r.status = .failed
  · rw [if_pos h1, updP_stop (by rw [h1]; simp)]; exact ⟨rfl, rfl⟩
  · rw [if_neg h1]
    by_cases h2 : r.status = .ok
    · rw [if_pos h2, updP_stop (by rw [h2]; simp)]
      have e := he h1
      refine ⟨?_, rfl⟩
      cases r
      simp only at h2 e
      subst h2; subst e
      rfl
    · rw [if_neg h2]
      have h3 : r.status = .notFound := by
        cases hs : r.status with
        | ok => exact absurd hs h2
        | notFound => rfl
        | failed => exact absurd hs h1
      rw [updP_nf h3]
      exact ⟨by simp [vwU, hr], rfl⟩

theorem unaryStep_someP {item : ItemK} (cb : Num.UCallback) (n : Node) (a : UAcc) (v val : Item)
    (hf : a.found = none) (hr : a.ret = none) (hv : uval cb v = some val) :
    unaryStep c item cb (some n) a v = uGoP a (executeNextItem c item a.st (some n) val none) := by
  cases v with
  | int i =>
    simp only [uval, Option.some.injEq] at hv; subst hv
    simp [unaryStep, hr, hf, uGoP]
  | flt x =>
    simp only [uval, Option.some.injEq] at hv; subst hv
    simp [unaryStep, hr, hf, uGoP]
  | jnum tx =>
    simp only [uval] at hv
    simp [unaryStep, hr, hf, uGoP, hv]
  | _ => simp [uval] at hv

theorem unaryStep_noneP {item : ItemK} (cb : Num.UCallback) (n : Node) (a : UAcc) (v : Item)
    (hf : a.found = none) (hr : a.ret = none) (hv : uval cb v = none) :
    unaryStep c item cb (some n) a v = { a with ret := some (returnVerboseError a.st none) } := by
  unfold unaryStep
  simp only [hr, hf, Option.isNone_some, Bool.and_false, Bool.false_eq_true, if_false]
  cases v with
  | int i => simp [uval] at hv
  | flt x => simp [uval] at hv
  | jnum tx => simp only [uval] at hv; simp only [hv]
  | _ => rfl

theorem unaryStep_stepP (H : HypP c S Φ item bool any) {t : St} {m : List Item} (nxB : Option Node)
    (hcn' : t.ignoreSE = true ∨ NoAnyO nxB = true) (cb : Num.UCallback) (a b : UAcc) (v : Item)
    (hr : RunningP c S Φ t m (vwU a) (vwU b)) (hi : IUP a b) :
    (RunningP c S Φ t m (vwU (unaryStep c item cb (some (appendO nxB S)) a v)) (vwU (unaryStep c item cb nxB b v)) ∧
      IUP (unaryStep c item cb (some (appendO nxB S)) a v) (unaryStep c item cb nxB b v)) ∨
    BothP c S Φ t m (vwU (unaryStep c item cb (some (appendO nxB S)) a v)) (vwU (unaryStep c item cb nxB b v)) ∨
    (StoppedP c S Φ t m (vwU (unaryStep c item cb (some (appendO nxB S)) a v)) (vwU (unaryStep c item cb nxB b v)) ∧
      VU (unaryStep c item cb nxB b v)) := by
  have hig : b.st.ignoreSE = t.ignoreSE := hr.ign
  have hcn : ChainOKO b.st nxB := by
    rcases hcn' with h | h
    · left; rw [hig]; exact h
    · right; exact h
  obtain ⟨hA0, hB0, xs, t', h3, h4, h5, h6, h7⟩ := hr
  simp only [vwU] at hA0 hB0 h3 h5 h6 h7
  have hVB : VU (unaryStep c item cb nxB b v) := (unaryStep_grow H.base cb nxB b v ⟨_, h3⟩).2
  cases hv : uval cb v with
  | none =>
    rw [unaryStep_noneP cb _ a v h5 hA0 hv, unaryStep_none cb _ b v (m ++ xs) h3 hB0 hv]
    right; left
    refine ⟨_, _, rfl, rfl, ?_⟩
    rw [h6]
    exact CompOkP.rebase h4 (returnVerboseError_compOkP _ _ _)
  | some val =>
    rw [unaryStep_some cb _ b v val (m ++ xs) h3 hB0 hv] at hVB
    rw [unaryStep_someP cb _ a v val h5 hA0 hv, unaryStep_some cb _ b v val (m ++ xs) h3 hB0 hv]
    rw [h6]
    obtain ⟨hvA, hresA⟩ := uGoP_view a (executeNextItem c item (mix t' b.st) (some (appendO nxB S)) val none) hA0
      (fun h => err_none_of_good (executeNextItem_good c H.base.goodI _ _ _ _) h)
    obtain ⟨hvB, hresB⟩ := uGo_view b (executeNextItem c item b.st nxB val (some (m ++ xs))) hB0
    rw [hvA, hvB]
    have hgB := executeNextItem_good c H.base.goodI b.st nxB val (some (m ++ xs))
    have hbB := executeNextItem_bud c H.base.budI b.st nxB val (some (m ++ xs)) h7.2.2.2.2
    have hcomp := executeNextItem_compP H (m ++ xs) nxB val h7 hcn
    rcases step_ofCallP h4 h7 hcomp hgB hbB with h | h | h
    · exact Or.inl ⟨h, by rw [hresA]; exact hi.1, hresB hi.2⟩
    · exact Or.inr (Or.inl h)
    · exact Or.inr (Or.inr ⟨h, hVB⟩)

theorem execUnaryMathExpr_compP (H : HypP c S Φ item bool any) {t sB : St} (m : List Item)
    (operand nx : Option Node) (v : Item) (cb : Num.UCallback) (hj : Junc t sB) (hcx : ChainOKO sB nx) :
    CompP c S Φ t m (execUnaryMathExpr c item (mix t sB) operand (some (appendO nx S)) v cb none)
      (execUnaryMathExpr c item sB operand nx v cb (some m)) := by
  unfold execUnaryMathExpr
  cases operand with
  | none => exact CompP.ofBoth _ _ _ _ _ (by simp)
  | some x =>
    simp only [H.base.optUnwrap, mixR_status, mixR_st, mixR_err, mixR_found]
    have hl := optUnwrapResult_good c H.base.goodI sB x v true []
    have hlb := optUnwrapResult_bud c H.base.budI sB x v true [] hj.2.2.2.2
    generalize optUnwrapResult c item sB x v true [] = rl at hl hlb
    refine compP_ite (fun _ => CompP.ofBoth _ _ _ _ _ (by simp)) (fun hnf => ?_)
    have hj1 : Junc t rl.st := hj.good hl hlb
    have hcn' : t.ignoreSE = true ∨ NoAnyO nx = true := by
      rcases hcx with h | h
      · left; rw [hj.2.2.1]; exact h
      · right; exact h
    have h0 : RunningP c S Φ t m (vwU ⟨mix t rl.st, none, .notFound, none⟩) (vwU ⟨rl.st, some m, .notFound, none⟩) :=
      ⟨rfl, rfl, [], t, by simp [vwU], FeedNF.nil t, rfl, rfl, hj1⟩
    have hfold := fold_compP (c := c) (S := S) (Φ := Φ) (t := t) (m := m)
      (unaryStep c item cb (some (appendO nx S))) (unaryStep c item cb nx) vwU vwU IUP VU
      (fun a x h => unaryStep_skip cb _ a x h) (fun b x h => unaryStep_skip cb _ b x h)
      (fun a b x hr hi => unaryStep_stepP H nx hcn' cb a b x hr hi)
      (foldl_grow (unaryStep c item cb nx) vwU VU (fun b' x hV => unaryStep_grow H.base cb nx b' x hV))
      (rl.found.getD []) _ _ (Or.inl ⟨h0, ⟨rfl, by simp⟩⟩)
    exact final_compP (c := c) (S := S) (Φ := Φ) (t := t) (m := m) id (fun _ _ => rfl) (fun _ => ⟨rfl, rfl, rfl⟩)
      ((rl.found.getD []).foldl (unaryStep c item cb (some (appendO nx S))) ⟨mix t rl.st, none, .notFound, none⟩).res
      ((rl.found.getD []).foldl (unaryStep c item cb nx) ⟨rl.st, some m, .notFound, none⟩).res
      (fun hrun => by
        rcases hfold with ⟨_, hi⟩ | ⟨rA, rB, e1, e2, _⟩ | ⟨rA, e1, _⟩
        · exact ⟨⟨fun h => by rw [hi.1] at h; simp at h, fun h => absurd h hi.2⟩, by rw [hi.1]; simp⟩
        · exact absurd (e1.symm.trans hrun.retA) (by simp)
        · exact absurd (e1.symm.trans hrun.retA) (by simp))
      (by rcases hfold with h | h | h
          · exact Or.inl h.1
          · exact Or.inr (Or.inl h)
          · exact Or.inr (Or.inr h))

/-! ### `.keyvalue()` (probe mode) -/

/-- the early return of the member loop in probe mode: a hit sets `stop` (and the function then returns
    the accumulator), a failure sets `ret` -/
def kvRetP (a : KVAcc) : Option Res :=
  match a.ret with
  | some r => some r
  | none => if a.stop then some ⟨a.st, a.found, a.res, none⟩ else none

def vwKVP (a : KVAcc) : View := ⟨a.st, a.found, kvRetP a⟩

/-- what the step needs (`res` of the composed accumulator is `ok` before the first member) -/
def IKVP0 (a b : KVAcc) : Prop := a.stop = false ∧ b.stop = false ∧ b.res ≠ .failed
/-- the loop invariant after at least one member -/
def IKVP (a b : KVAcc) : Prop := IKVP0 a b ∧ a.res = .notFound

theorem kvRetP_none {a : KVAcc} (h : kvRetP a = none) : a.ret = none ∧ a.stop = false := by
  unfold kvRetP at h
  cases hr : a.ret with
  | some r => rw [hr] at h; simp at h
  | none =>
    rw [hr] at h
    cases hs : a.stop with
    | true => rw [hs] at h; simp at h
    | false => exact ⟨rfl, rfl⟩

theorem kvStep_skipP {item : ItemK} (nx : Option Node) (id : Int) (a : KVAcc) (x : List Char × Item)
    (h : (vwKVP a).ret ≠ none) : kvStep c item nx id a x = a := by
  unfold kvStep
  cases hr : a.ret with
  | some r => simp
  | none =>
    cases hs : a.stop with
    | true => simp
    | false => exact absurd (by simp [vwKVP, kvRetP, hr, hs]) h

theorem kvFin_eqP (s : St) (a : KVAcc) :
    kvFin s a = fin (fun st => { st with baseAddr := s.baseAddr, baseId := s.baseId }) (vwKVP a) a.res := by
  unfold kvFin fin vwKVP kvRetP
  cases hr : a.ret with
  | some r => rfl
  | none =>
    cases hs : a.stop with
    | true => rfl
    | false => rfl

theorem kvStep_viewP {item : ItemK} (nx : Option Node) (id : Int) (a : KVAcc) (kv : List Char × Item)
    (hf : a.found = none) (hr : a.ret = none) (hs : a.stop = false)
    (he : (executeNextItem c item (kvEnter c a.st (kvObj id kv)) nx (kvObj id kv) none).status ≠ .failed →
      (executeNextItem c item (kvEnter c a.st (kvObj id kv)) nx (kvObj id kv) none).err = none) :
    vwKVP (kvStep c item nx id a kv)
      = updP (executeNextItem c item (kvEnter c a.st (kvObj id kv)) nx (kvObj id kv) none) ∧
    ((executeNextItem c item (kvEnter c a.st (kvObj id kv)) nx (kvObj id kv) none).status = .notFound →
      (kvStep c item nx id a kv).res = .notFound ∧ (kvStep c item nx id a kv).stop = false) := by
  unfold kvStep
  simp only [hr, hs, hf, Option.isSome_none, Bool.or_false, Bool.false_eq_true, if_false, Option.isNone_none,
    Bool.and_true, decide_eq_true_eq]
  generalize executeNextItem c item (kvEnter c a.st (kvObj id kv)) nx (kvObj id kv) none = r at he
  by_cases h1 : r.status = .failed
  · rw [if_pos h1, updP_stop (by rw [h1]; simp)]
    refine ⟨?_, fun hn => by rw [h1] at hn; simp at hn⟩
    simp [vwKVP, kvRetP]
  · rw [if_neg h1]
    by_cases h2 : r.status = .ok
    · rw [if_pos h2, updP_stop (by rw [h2]; simp)]
      refine ⟨?_, fun hn => by rw [h2] at hn; simp at hn⟩
      have e := he h1
      cases r
      simp only at h2 e
      subst h2; subst e
      simp [vwKVP, kvRetP]
    · rw [if_neg h2]
      have h3 : r.status = .notFound := by
        cases hs : r.status with
        | ok => exact absurd hs h2
        | notFound => rfl
        | failed => exact absurd hs h1
      rw [updP_nf h3]
      exact ⟨by simp [vwKVP, kvRetP], fun _ => ⟨h3, rfl⟩⟩

theorem kvStep_stepP (H : HypP c S Φ item bool any) {t : St} {m : List Item} (nxB : Option Node)
    (hcn' : t.ignoreSE = true ∨ NoAnyO nxB = true) (id : Int) (a b : KVAcc) (kv : List Char × Item)
    (hr : RunningP c S Φ t m (vwKVP a) (vwKV b)) (hi : IKVP0 a b) :
    (RunningP c S Φ t m (vwKVP (kvStep c item (some (appendO nxB S)) id a kv)) (vwKV (kvStep c item nxB id b kv)) ∧
      IKVP (kvStep c item (some (appendO nxB S)) id a kv) (kvStep c item nxB id b kv)) ∨
    BothP c S Φ t m (vwKVP (kvStep c item (some (appendO nxB S)) id a kv)) (vwKV (kvStep c item nxB id b kv)) ∨
    (StoppedP c S Φ t m (vwKVP (kvStep c item (some (appendO nxB S)) id a kv)) (vwKV (kvStep c item nxB id b kv)) ∧
      True) := by
  have hig : b.st.ignoreSE = t.ignoreSE := hr.ign
  have hcn : ChainOKO (kvEnter c b.st (kvObj id kv)) nxB := by
    rcases hcn' with h | h
    · left; show b.st.ignoreSE = true; rw [hig]; exact h
    · right; exact h
  obtain ⟨hA0, hB0, xs, t', h3, h4, h5, h6, h7⟩ := hr
  simp only [vwKV, vwKVP] at hA0 hB0 h3 h5 h6 h7
  obtain ⟨hAr, hAs⟩ := kvRetP_none hA0
  have hgA := executeNextItem_good c H.base.goodI (kvEnter c a.st (kvObj id kv)) (some (appendO nxB S)) (kvObj id kv) none
  obtain ⟨hvA, hresA⟩ := kvStep_viewP (c := c) (item := item) (some (appendO nxB S)) id a kv h5 hAr hAs
    (fun h => err_none_of_good hgA h)
  obtain ⟨hvB, hresB⟩ := kvStep_view (c := c) (item := item) nxB id b kv (m ++ xs) h3 hB0 hi.2.1
  rw [h6] at hvA hresA
  have hj1 : Junc t' (kvEnter c b.st (kvObj id kv)) := h7
  have hgB := executeNextItem_good c H.base.goodI (kvEnter c b.st (kvObj id kv)) nxB (kvObj id kv) (some (m ++ xs))
  have hbB := executeNextItem_bud c H.base.budI (kvEnter c b.st (kvObj id kv)) nxB (kvObj id kv) (some (m ++ xs)) h7.2.2.2.2
  have hcomp := executeNextItem_compP H (m ++ xs) nxB (kvObj id kv) hj1 hcn
  rw [hvA, hvB]
  rcases step_ofCallP h4 hj1 hcomp hgB hbB with h | h | h
  · left
    refine ⟨h, ?_⟩
    have hnA := updP_ret_none h.retA
    have hnB := upd_ret_none h.retB
    obtain ⟨e1, e2⟩ := hresA hnA
    obtain ⟨e3, e4⟩ := hresB hnB
    exact ⟨⟨e2, e4, by rw [e3]; exact hnB⟩, e1⟩
  · exact Or.inr (Or.inl h)
  · exact Or.inr (Or.inr ⟨h, trivial⟩)

theorem executeKeyValueMethod_compP (H : HypP c S Φ item bool any) {t sB : St} (m : List Item) (nB : Node)
    (nx : Option Node) (v : Item) (unwrap : Bool) (hj : Junc t sB) (hc : ChainOK sB nB)
    (hcx : ChainOKO sB nx) :
    CompP c S Φ t m (executeKeyValueMethod c item any (mix t sB) (append nB S) (some (appendO nx S)) v none unwrap)
      (executeKeyValueMethod c item any sB nB nx v (some m) unwrap) := by
  cases v with
  | obj kvs =>
    rw [executeKeyValueMethod_obj, executeKeyValueMethod_obj]
    refine compP_ite (fun _ => CompP.ofBoth _ _ _ _ _ (by simp)) (fun hne => ?_)
    simp only [Option.isNone_some, Bool.and_false, Bool.false_and, Bool.false_eq_true, if_false]
    have hcn' : t.ignoreSE = true ∨ NoAnyO nx = true := by
      rcases hcx with h | h
      · left; rw [hj.2.2.1]; exact h
      · right; exact h
    have eid : kvId c (mix t sB) (.obj kvs) = kvId c sB (.obj kvs) := rfl
    rw [eid]
    generalize kvId c sB (.obj kvs) = id
    cases kvs with
    | nil => simp at hne
    | cons kv rest =>
      simp only [List.foldl_cons]
      have h0 : RunningP c S Φ t m (vwKVP ⟨mix t sB, none, .ok, none, false⟩) (vwKV ⟨sB, some m, .ok, none, false⟩) :=
        ⟨rfl, rfl, [], t, by simp [vwKV], FeedNF.nil t, rfl, rfl, hj⟩
      have h1 := kvStep_stepP H nx hcn' id ⟨mix t sB, none, .ok, none, false⟩ ⟨sB, some m, .ok, none, false⟩ kv h0
        ⟨rfl, rfl, by simp⟩
      have hfold := fold_compP (c := c) (S := S) (Φ := Φ) (t := t) (m := m)
        (kvStep c item (some (appendO nx S)) id) (kvStep c item nx id) vwKVP vwKV IKVP (fun _ => True)
        (fun a x h => kvStep_skipP _ _ a x h) (fun b x h => kvStep_skip _ _ b x h)
        (fun a b x hr hi => kvStep_stepP H nx hcn' id a b x hr hi.1)
        (foldl_grow (kvStep c item nx id) vwKV (fun _ => True) (fun b' x _ => ⟨kvStep_grow H.base nx id b' x, trivial⟩))
        rest _ _ h1
      rw [kvFin_eqP]
      exact final_compP (c := c) (S := S) (Φ := Φ) (t := t) (m := m)
        (fun st => { st with baseAddr := sB.baseAddr, baseId := sB.baseId }) (fun _ _ => rfl) (fun _ => ⟨rfl, rfl, rfl⟩)
        (rest.foldl (kvStep c item (some (appendO nx S)) id)
          (kvStep c item (some (appendO nx S)) id ⟨mix t sB, none, .ok, none, false⟩ kv)).res
        (rest.foldl (kvStep c item nx id) (kvStep c item nx id ⟨sB, some m, .ok, none, false⟩ kv)).res
        (fun hrun => by
          rcases hfold with ⟨_, hi⟩ | ⟨rA, rB, e1, e2, _⟩ | ⟨rA, e1, _⟩
          · exact ⟨⟨fun h => by rw [hi.2] at h; simp at h, fun h => absurd h hi.1.2.2⟩, by rw [hi.2]; simp⟩
          · exact absurd (e1.symm.trans hrun.retA) (by simp)
          · exact absurd (e1.symm.trans hrun.retA) (by simp))
        (by rcases hfold with h | h | h
            · exact Or.inl h.1
            · exact Or.inr (Or.inl h)
            · exact Or.inr (Or.inr h))
  | arr xs =>
    unfold executeKeyValueMethod
    simp only [unwrapTargetArray]
    exact compP_ite (fun _ => selfAny_compP H m nB xs hj hc) (fun _ => returnVerboseError_compP _ _ _)
  | _ =>
    unfold executeKeyValueMethod
    exact returnVerboseError_compP _ _ _

/-! ### node dispatch (probe mode) -/

theorem execMethodNode_compP (H : HypP c S Φ item bool any) {t sB : St} (m : List Item) (nB : Node) (mth : Method)
    (nx : Option Node) (v : Item) (unwrap : Bool) (hj : Junc t sB) (hc : ChainOK sB nB)
    (hcx : ChainOKO sB nx) :
    CompP c S Φ t m (execMethodNode c item any (mix t sB) (append nB S) mth (some (appendO nx S)) v none unwrap)
      (execMethodNode c item any sB nB mth nx v (some m) unwrap) := by
  unfold execMethodNode
  cases mth <;> simp only
  all_goals first
    | exact execConvMethod_compP H m nB nx v unwrap _ hj hc hcx
    | exact executeNextItem_compP H m nx _ hj hcx
    | exact execMethodSize_compP H m nx v hj hcx
    | exact executeKeyValueMethod_compP H m nB nx v unwrap hj hc hcx




/-! ### `.**` and the generic element loop, probe mode -/

theorem anyVisit_viewP {item : ItemK} (node : Node) (level first last : Nat) (ign un : Bool) (a : AAcc) (v : Item)
    (hf : a.found = none) (s1 : St)
    (hs1 : (if ign = true then ({ a.st with ignoreSE := true } : St) else a.st) = s1)
    (hc : (level ≥ first || (first = maxU32 && last = maxU32 && (collection v).isNone)) = true) :
    vwAny (anyVisit item (some node) level first last ign un a v) = updP (item s1 node v none un) ∧
    ((item s1 node v none un).status = .notFound →
      (anyVisit item (some node) level first last ign un a v).res = (item s1 node v none un).status ∧
      (anyVisit item (some node) level first last ign un a v).err = (item s1 node v none un).err) := by
  unfold anyVisit
  rw [if_pos hc]
  simp only [hf, hs1, Option.isNone_none, Bool.and_true, Bool.or_eq_true, decide_eq_true_eq]
  by_cases h : (item s1 node v none un).status = .notFound
  · have hcnd : ¬ ((item s1 node v none un).status = .failed ∨ (item s1 node v none un).status = .ok) := by
      rw [h]; simp
    rw [if_neg hcnd]
    refine ⟨?_, fun _ => ⟨rfl, rfl⟩⟩
    rw [updP_nf h]; rfl
  · have hcnd : (item s1 node v none un).status = .failed ∨ (item s1 node v none un).status = .ok := by
      cases hs : (item s1 node v none un).status <;> simp_all
    rw [if_pos hcnd]
    refine ⟨?_, fun hn => absurd hn h⟩
    rw [updP_stop h]; rfl

/-- the accumulator fields that matter only at the end -/
def IAnyP (sB : St) (m : List Item) (a b : AAcc) : Prop := IAny sB m a b ∧ a.res ≠ .ok

theorem anyVisit_stepP (H : HypP c S Φ item bool any) {t : St} {m : List Item} (nodeB : Option Node)
    (level first last : Nat) (ign un : Bool) (a b : AAcc) (v : Item) (sB0 : St)
    (hr : RunningP c S Φ t m (vwAny a) (vwAny b)) (hi : IAnyP sB0 m a b)
    (hign' : ign = true → t.ignoreSE = true) (hcn' : t.ignoreSE = true ∨ NoAnyO nodeB = true)
    (hun : nodeB = none → un = c.lax) :
    (RunningP c S Φ t m (vwAny (anyVisit item (some (appendO nodeB S)) level first last ign un a v))
        (vwAny (anyVisit item nodeB level first last ign un b v)) ∧
      IAnyP sB0 m (anyVisit item (some (appendO nodeB S)) level first last ign un a v)
        (anyVisit item nodeB level first last ign un b v)) ∨
    BothP c S Φ t m (vwAny (anyVisit item (some (appendO nodeB S)) level first last ign un a v))
        (vwAny (anyVisit item nodeB level first last ign un b v)) ∨
    (StoppedP c S Φ t m (vwAny (anyVisit item (some (appendO nodeB S)) level first last ign un a v))
        (vwAny (anyVisit item nodeB level first last ign un b v)) ∧
      VAny sB0 m (anyVisit item nodeB level first last ign un b v)) := by
  have hinvB : AInv sB0 (some m) (anyVisit item nodeB level first last ign un b v) :=
    anyVisit_inv H.base.goodI nodeB level first last ign un sB0 (some m) b v hi.1.2.2.2.2 hr.retB
  have hig : b.st.ignoreSE = t.ignoreSE := hr.ign
  have hign : ign = true → b.st.ignoreSE = true := fun h => by rw [hig]; exact hign' h
  have hcn : ChainOKO b.st nodeB := by
    rcases hcn' with h | h
    · left; rw [hig]; exact h
    · right; exact h
  by_cases hc : (level ≥ first || (first = maxU32 && last = maxU32 && (collection v).isNone)) = true
  · obtain ⟨hA0, hB0, xs, t', h3, h4, h5, h6, h7⟩ := hr
    simp only [vwAny] at hA0 hB0 h3 h5 h6 h7
    have hsB : (if ign = true then ({ b.st with ignoreSE := true } : St) else b.st) = b.st := ignSt hign
    have hsA : (if ign = true then ({ a.st with ignoreSE := true } : St) else a.st) = mix t' b.st := by
      rw [ignSt (by rw [h6]; simpa using hign), h6]
    obtain ⟨hvA, hresA⟩ := anyVisit_viewP (item := item) (appendO nodeB S) level first last ign un a v h5 _ hsA hc
    have hgA := H.base.goodI (mix t' b.st) (appendO nodeB S) v none un
    -- the call of the run of the prefix, or its junction
    have key : ∃ rB : Res, vwAny (anyVisit item nodeB level first last ign un b v) = upd rB ∧
        (rB.status ≠ .failed → (anyVisit item nodeB level first last ign un b v).res = rB.status ∧
          (anyVisit item nodeB level first last ign un b v).err = rB.err) ∧
        CompP c S Φ t' (m ++ xs) (item (mix t' b.st) (appendO nodeB S) v none un) rB ∧
        Good b.st (some (m ++ xs)) rB ∧ rB.st.budget = none := by
      cases nodeB with
      | some n =>
        obtain ⟨hvB, hresB⟩ := anyVisit_view (item := item) n level first last ign un b v (m ++ xs) h3 _ hsB hc
        refine ⟨_, hvB, hresB, ?_, H.base.goodI _ _ _ _ _, H.base.budI _ _ _ _ _ h7.2.2.2.2⟩
        exact H.ci b.st t' (m ++ xs) n v un h7 (by simpa [ChainOKO, ChainOK] using hcn)
      | none =>
        refine ⟨⟨b.st, some (m ++ xs ++ [v]), .ok, none⟩, ?_, ?_, ?_, ?_, h7.2.2.2.2⟩
        · unfold anyVisit
          rw [if_pos hc]
          simp only [h3]
          rw [upd_ok (by simp)]
          simp [vwAny, hB0]
        · intro _
          unfold anyVisit
          rw [if_pos hc]
          simp only [h3, hi.1.2.2.2.1]
          exact ⟨trivial, trivial⟩
        · have := executeNextItem_compP H (m ++ xs) none v h7 (Or.inr rfl)
          rw [hun rfl]
          simpa [executeNextItem, executeItem, Found.append] using this
        · exact Good.ret (Mid.refl _) ⟨by simp, fun l hl => ⟨[v], by simp at hl; subst hl; rfl⟩⟩ _ _ (by simp) (by simp)
    obtain ⟨rB, hvB, hresB, hcomp, hgB, hbB⟩ := key
    rw [hvA, hvB]
    rcases step_ofCallP h4 h7 hcomp hgB hbB with h | h | h
    · left
      refine ⟨h, ?_⟩
      have hnA := updP_ret_none h.retA
      have hnB := upd_ret_none h.retB
      obtain ⟨e1, e2⟩ := hresA hnA
      obtain ⟨e3, e4⟩ := hresB hnB
      exact ⟨⟨by rw [e1, hnA]; simp, by rw [e3]; exact hnB,
        by rw [e2]; exact err_none_of_good hgA (by rw [hnA]; simp),
        by rw [e4]; exact err_none_of_good hgB hnB, hinvB⟩, by rw [e1, hnA]; simp⟩
    · exact Or.inr (Or.inl h)
    · exact Or.inr (Or.inr ⟨h, hinvB⟩)
  · left
    have eA : anyVisit item (some (appendO nodeB S)) level first last ign un a v = a := by
      unfold anyVisit; rw [if_neg hc]
    have eB : anyVisit item nodeB level first last ign un b v = b := by
      unfold anyVisit; rw [if_neg hc]
    rw [eA, eB]
    exact ⟨hr, hi⟩

theorem anyDescend_viewP {any : AnyK} (node : Option Node) (level first last : Nat) (ign un : Bool) (a : AAcc) (v : Item)
    (hf : a.found = none) (hc : level < last) :
    vwAny (anyDescend any node level first last ign un a v)
      = updP (any a.st node ((collection v).getD []) none (level + 1) first last ign un) ∧
    ((any a.st node ((collection v).getD []) none (level + 1) first last ign un).status = .notFound →
      (anyDescend any node level first last ign un a v).res
        = (any a.st node ((collection v).getD []) none (level + 1) first last ign un).status ∧
      (anyDescend any node level first last ign un a v).err
        = (any a.st node ((collection v).getD []) none (level + 1) first last ign un).err) := by
  unfold anyDescend
  rw [if_pos hc]
  simp only [hf, Option.isNone_none, Bool.and_true, Bool.or_eq_true, decide_eq_true_eq]
  generalize any a.st node ((collection v).getD []) none (level + 1) first last ign un = r
  by_cases h : r.status = .notFound
  · have hcnd : ¬ (r.status = .failed ∨ r.status = .ok) := by rw [h]; simp
    rw [if_neg hcnd]
    refine ⟨?_, fun _ => ⟨rfl, rfl⟩⟩
    rw [updP_nf h]; rfl
  · have hcnd : r.status = .failed ∨ r.status = .ok := by
      cases hs : r.status <;> simp_all
    rw [if_pos hcnd]
    refine ⟨?_, fun hn => absurd hn h⟩
    rw [updP_stop h]; rfl

theorem anyDescend_stepP (H : HypP c S Φ item bool any) {t : St} {m : List Item} (nodeB : Option Node)
    (level first last : Nat) (ign un : Bool) (a b : AAcc) (v : Item) (sB0 : St)
    (hr : RunningP c S Φ t m (vwAny a) (vwAny b)) (hi : IAnyP sB0 m a b)
    (hign' : ign = true → t.ignoreSE = true) (hcn' : t.ignoreSE = true ∨ NoAnyO nodeB = true)
    (hun : nodeB = none → un = c.lax) :
    (RunningP c S Φ t m (vwAny (anyDescend any (some (appendO nodeB S)) level first last ign un a v))
        (vwAny (anyDescend any nodeB level first last ign un b v)) ∧
      IAnyP sB0 m (anyDescend any (some (appendO nodeB S)) level first last ign un a v)
        (anyDescend any nodeB level first last ign un b v)) ∨
    BothP c S Φ t m (vwAny (anyDescend any (some (appendO nodeB S)) level first last ign un a v))
        (vwAny (anyDescend any nodeB level first last ign un b v)) ∨
    (StoppedP c S Φ t m (vwAny (anyDescend any (some (appendO nodeB S)) level first last ign un a v))
        (vwAny (anyDescend any nodeB level first last ign un b v)) ∧
      VAny sB0 m (anyDescend any nodeB level first last ign un b v)) := by
  have hinvB : AInv sB0 (some m) (anyDescend any nodeB level first last ign un b v) :=
    anyDescend_inv H.base.goodA nodeB level first last ign un sB0 (some m) b v hi.1.2.2.2.2 hr.retB
  have hig : b.st.ignoreSE = t.ignoreSE := hr.ign
  have hign : ign = true → b.st.ignoreSE = true := fun h => by rw [hig]; exact hign' h
  have hcn : ChainOKO b.st nodeB := by
    rcases hcn' with h | h
    · left; rw [hig]; exact h
    · right; exact h
  by_cases hc : level < last
  · obtain ⟨hA0, hB0, xs, t', h3, h4, h5, h6, h7⟩ := hr
    simp only [vwAny] at hA0 hB0 h3 h5 h6 h7
    obtain ⟨hvA, hresA⟩ := anyDescend_viewP (any := any) (some (appendO nodeB S)) level first last ign un a v h5 hc
    obtain ⟨hvB, hresB⟩ := anyDescend_view (any := any) nodeB level first last ign un b v (m ++ xs) h3 hc
    rw [h6] at hvA hresA
    have hgA := H.base.goodA (mix t' b.st) (some (appendO nodeB S)) ((collection v).getD []) none (level + 1) first last ign un
    have hgB := H.base.goodA b.st nodeB ((collection v).getD []) (some (m ++ xs)) (level + 1) first last ign un
    have hbB := H.base.budA b.st nodeB ((collection v).getD []) (some (m ++ xs)) (level + 1) first last ign un h7.2.2.2.2
    have hcomp := H.ca b.st t' (m ++ xs) nodeB ((collection v).getD []) (level + 1) first last ign un h7 hcn hign hun
    rw [hvA, hvB]
    rcases step_ofCallP h4 h7 hcomp hgB hbB with h | h | h
    · left
      refine ⟨h, ?_⟩
      have hnA := updP_ret_none h.retA
      have hnB := upd_ret_none h.retB
      obtain ⟨e1, e2⟩ := hresA hnA
      obtain ⟨e3, e4⟩ := hresB hnB
      exact ⟨⟨by rw [e1, hnA]; simp, by rw [e3]; exact hnB,
        by rw [e2]; exact err_none_of_good hgA (by rw [hnA]; simp),
        by rw [e4]; exact err_none_of_good hgB hnB, hinvB⟩, by rw [e1, hnA]; simp⟩
    · exact Or.inr (Or.inl h)
    · exact Or.inr (Or.inr ⟨h, hinvB⟩)
  · left
    have eA : anyDescend any (some (appendO nodeB S)) level first last ign un a v = a := by
      unfold anyDescend; rw [if_neg hc]
    have eB : anyDescend any nodeB level first last ign un b v = b := by
      unfold anyDescend; rw [if_neg hc]
    rw [eA, eB]
    exact ⟨hr, hi⟩

theorem anyStep_stepP (H : HypP c S Φ item bool any) {t : St} {m : List Item} (nodeB : Option Node)
    (level first last : Nat) (ign un : Bool) (sB0 : St)
    (hign' : ign = true → t.ignoreSE = true) (hcn' : t.ignoreSE = true ∨ NoAnyO nodeB = true)
    (hun : nodeB = none → un = c.lax) (a b : AAcc) (v : Item)
    (hr : RunningP c S Φ t m (vwAny a) (vwAny b)) (hi : IAnyP sB0 m a b) :
    (RunningP c S Φ t m (vwAny (anyStep item any (some (appendO nodeB S)) level first last ign un a v))
        (vwAny (anyStep item any nodeB level first last ign un b v)) ∧
      IAnyP sB0 m (anyStep item any (some (appendO nodeB S)) level first last ign un a v)
        (anyStep item any nodeB level first last ign un b v)) ∨
    BothP c S Φ t m (vwAny (anyStep item any (some (appendO nodeB S)) level first last ign un a v))
        (vwAny (anyStep item any nodeB level first last ign un b v)) ∨
    (StoppedP c S Φ t m (vwAny (anyStep item any (some (appendO nodeB S)) level first last ign un a v))
        (vwAny (anyStep item any nodeB level first last ign un b v)) ∧
      VAny sB0 m (anyStep item any nodeB level first last ign un b v)) := by
  have hA0 : a.ret = none := hr.retA
  have hB0 : b.ret = none := hr.retB
  have h1 := anyVisit_stepP H nodeB level first last ign un a b v sB0 hr hi hign' hcn' hun
  unfold anyStep
  simp only [hA0, hB0]
  generalize anyVisit item (some (appendO nodeB S)) level first last ign un a v = a1 at h1
  generalize anyVisit item nodeB level first last ign un b v = b1 at h1
  rcases h1 with ⟨hr1, hi1⟩ | hb | ⟨hfl, hv⟩
  · have e1 : a1.ret = none := hr1.retA
    have e2 : b1.ret = none := hr1.retB
    simp only [e1, e2]
    exact anyDescend_stepP H nodeB level first last ign un a1 b1 v sB0 hr1 hi1 hign' hcn' hun
  · obtain ⟨rA, rB, e1, e2, h3⟩ := hb
    simp only [vwAny] at e1 e2
    simp only [e1, e2]
    exact Or.inr (Or.inl ⟨rA, rB, e1, e2, h3⟩)
  · obtain ⟨rA, e1, h3⟩ := hfl
    simp only [vwAny] at e1
    simp only [e1]
    right; right
    cases e2 : b1.ret with
    | some rB =>
      simp only
      exact ⟨⟨rA, e1, h3⟩, hv⟩
    | none =>
      simp only
      have hg := anyDescend_grow H.base nodeB level first last ign un b1 v e2
      exact ⟨⟨rA, e1, h3.grow hg.1 hg.2⟩,
        anyDescend_inv H.base.goodA nodeB level first last ign un sB0 (some m) b1 v hv e2⟩

theorem executeAnyItem_compP (H : HypP c S Φ item bool any) {t sB : St} (m : List Item) (nodeB : Option Node)
    (vs : List Item) (level first last : Nat) (ign un : Bool) (hj : Junc t sB) (hcn : ChainOKO sB nodeB)
    (hign : ign = true → sB.ignoreSE = true) (hun : nodeB = none → un = c.lax) :
    CompP c S Φ t m
      (executeAnyItem item any (mix t sB) (some (appendO nodeB S)) vs none level first last ign un)
      (executeAnyItem item any sB nodeB vs (some m) level first last ign un) := by
  rw [executeAnyItem_eq, executeAnyItem_eq]
  refine compP_ite (fun _ => CompP.ofBoth _ _ _ _ _ (by simp)) (fun _ => ?_)
  have hign' : ign = true → t.ignoreSE = true := fun h => by rw [hj.2.2.1]; exact hign h
  have hcn' : t.ignoreSE = true ∨ NoAnyO nodeB = true := by
    rcases hcn with h | h
    · left; rw [hj.2.2.1]; exact h
    · right; exact h
  have hinv0 : AInv sB (some m) ⟨sB, some m, .notFound, none, none⟩ := by
    refine ⟨fun r hr => by simp at hr, fun _ => ⟨⟨?_, fun h => by simpa [Exec.restoreIgn] using h⟩, Shape.refl _, rfl⟩⟩
    simp [St.ctxEq, Exec.restoreIgn]
  have hinvB : AInv sB (some m) (vs.foldl (anyStep item any nodeB level first last ign un) ⟨sB, some m, .notFound, none, none⟩) :=
    foldl_inv (AInv sB (some m)) _ _ _ hinv0 (fun a v h => anyStep_inv H.base.goodI H.base.goodA nodeB level first last ign un sB (some m) a v h)
  have h0 : RunningP c S Φ t m (vwAny ⟨mix t sB, none, .notFound, none, none⟩) (vwAny ⟨sB, some m, .notFound, none, none⟩) :=
    ⟨rfl, rfl, [], t, by simp [vwAny], FeedNF.nil t, rfl, rfl, hj⟩
  have hi0 : IAnyP sB m ⟨mix t sB, none, .notFound, none, none⟩ ⟨sB, some m, .notFound, none, none⟩ :=
    ⟨⟨by simp, by simp, rfl, rfl, hinv0⟩, by simp⟩
  have hfold := fold_compP (c := c) (S := S) (Φ := Φ) (t := t) (m := m)
    (anyStep item any (some (appendO nodeB S)) level first last ign un)
    (anyStep item any nodeB level first last ign un) vwAny vwAny (IAnyP sB m) (VAny sB m)
    (fun a x h => anyStep_skip _ _ _ _ _ _ a x h) (fun b x h => anyStep_skip _ _ _ _ _ _ b x h)
    (fun a b x hr hi => anyStep_stepP H nodeB level first last ign un sB hign' hcn' hun a b x hr hi)
    (foldl_grow _ vwAny (VAny sB m) (fun b x hV => anyStep_grow H.base nodeB level first last ign un sB m b x hV))
    vs _ _ (Or.inl ⟨h0, hi0⟩)
  generalize vs.foldl (anyStep item any (some (appendO nodeB S)) level first last ign un) ⟨mix t sB, none, .notFound, none, none⟩ = aA at hfold
  generalize vs.foldl (anyStep item any nodeB level first last ign un) ⟨sB, some m, .notFound, none, none⟩ = aB at hfold hinvB
  have herrB : aB.ret = none → aB.err = none := fun h => (hinvB.2 h).2.2
  have herrA : aA.ret = none → aA.err = none := by
    intro h
    rcases hfold with ⟨_, hi⟩ | ⟨rA, _, e, _⟩ | ⟨rA, e, _⟩
    · exact hi.1.2.2.1
    · simp [vwAny, h] at e
    · simp [vwAny, h] at e
  rw [anyFin_eq_fin _ _ aA herrA, anyFin_eq_fin _ _ aB herrB]
  refine final_compP (fun st => { st with ignoreSE := sB.ignoreSE }) (fun _ _ => rfl) (fun _ => ⟨rfl, rfl, rfl⟩) _ _ ?_
    (by rcases hfold with h | h | h
        · exact Or.inl h.1
        · exact Or.inr (Or.inl h)
        · exact Or.inr (Or.inr h))
  intro hrun
  have hfA : aA.found = none := by
    obtain ⟨_, _, xs, t', _, _, h5, _⟩ := hrun
    exact h5
  have eA : anyRes none aA = aA.res := by unfold anyRes; simp [hfA]
  rcases hfold with ⟨_, hi⟩ | ⟨rA, rB, e1, e2, _⟩ | ⟨rA, e1, _⟩
  · have h1 := hi.1.1
    have h2 := hi.1.2.1
    rw [eA]
    refine ⟨⟨fun h => absurd h h1, ?_⟩, hi.2⟩
    intro h; unfold anyRes at h; split at h
    · simp at h
    · exact absurd h h2
  · have := hrun.retA; simp [e1] at this
  · have := hrun.retA; simp [e1] at this


theorem anyInto_compP (H : HypP c S Φ item bool any) {t sB : St} (m : List Item) (first last : Nat)
    (nx : Option Node) (v : Item) (hj : Junc t sB) (hign : sB.ignoreSE = true) :
    CompP c S Φ t m (anyInto c any (mix t sB) first last (some (appendO nx S)) v none)
      (anyInto c any sB first last nx v (some m)) := by
  unfold anyInto
  cases v with
  | obj kvs => exact H.ca sB t m nx (members kvs) 1 first last true c.lax hj (Or.inl hign) (fun _ => hign) (fun _ => rfl)
  | arr xs => exact H.ca sB t m nx xs 1 first last true c.lax hj (Or.inl hign) (fun _ => hign) (fun _ => rfl)
  | _ => exact CompP.ofBoth _ _ _ _ _ (by simp)

theorem execAnyNode_compP (H : HypP c S Φ item bool any) {t sB : St} (m : List Item) (first last : Nat)
    (nx : Option Node) (v : Item) (hj : Junc t sB) (hign : sB.ignoreSE = true) :
    CompP c S Φ t m (execAnyNode c item any (mix t sB) first last (some (appendO nx S)) v none)
      (execAnyNode c item any sB first last nx v (some m)) := by
  unfold execAnyNode
  refine compP_ite (fun _ => ?_) (fun _ => anyInto_compP H m first last nx v hj hign)
  have eA : ({ mix t sB with ignoreSE := true } : St) = mix t sB := setIgn_eq (by simpa using hign)
  have eB : ({ sB with ignoreSE := true } : St) = sB := setIgn_eq hign
  rw [eA, eB]
  simp only [Option.isNone_some, Option.isNone_none, Bool.and_true, Bool.and_false, Bool.or_false, Bool.or_eq_true,
    decide_eq_true_eq, mix_ignoreSE]
  have hc1 := executeNextItem_compP H m nx v hj (Or.inl hign)
  have hgB := executeNextItem_good c H.base.goodI sB nx v (some m)
  have hbB := executeNextItem_bud c H.base.budI sB nx v (some m) hj.2.2.2.2
  generalize executeNextItem c item (mix t sB) (some (appendO nx S)) v none = rA at hc1
  generalize executeNextItem c item sB nx v (some m) = rB at hc1 hgB hbB
  have hfr : ∀ {A B : Res}, CompP c S Φ t m A B →
      CompP c S Φ t m { A with st := { A.st with ignoreSE := sB.ignoreSE } } { B with st := { B.st with ignoreSE := sB.ignoreSE } } :=
    fun h => CompP.frame (fun st => { st with ignoreSE := sB.ignoreSE }) (fun _ _ => rfl) (fun _ => ⟨rfl, rfl, rfl⟩) h
  rcases hc1 with hok | hstop
  · obtain ⟨xs, t', h1, h2, h3, h4, h5, h6, h7⟩ := hok
    by_cases hB : rB.status = .failed
    · have hcA : rA.status = .failed ∨ rA.status = .ok := Or.inl (h6.2 hB)
      rw [if_pos hcA, if_pos hB]
      exact hfr (Or.inl ⟨xs, t', h1, h2, h3, h4, h5, h6, h7⟩)
    · have hA : ¬ rA.status = .failed := fun h => hB (h6.1 h)
      have hcA : ¬ (rA.status = .failed ∨ rA.status = .ok) := fun h => h.elim hA h7
      rw [if_neg hcA, if_neg hB]
      have hj' : Junc t' rB.st := (h2.junc c S Φ hj).ofCtx hgB.ctx hbB
      have hign' : rB.st.ignoreSE = true := by
        have := hgB.ctx; simp [St.ctxEq] at this; rw [this.2.2.2.2.1]; exact hign
      have h7' := anyInto_compP H (m ++ xs) first last nx v hj' hign'
      rw [h3, h4, h1]
      refine hfr ?_
      rcases h7' with h7' | h7'
      · exact Or.inl (CompOkP.rebase h2 h7')
      · exact Or.inr (CompStopP.rebase h2 h7')
  · have hcA : rA.status = .failed ∨ rA.status = .ok := by
      obtain ⟨_, _, _, _, F, _, _, _, h4, h5, _⟩ := hstop
      rw [h5]
      cases hs : F.status <;> simp_all
    rw [if_pos hcA]
    by_cases hB : rB.status = .failed
    · rw [if_pos hB]
      exact hfr (Or.inr hstop)
    · rw [if_neg hB]
      have hg := anyInto_grow H.base rB.st first last nx v rB.found
      exact hfr (A := rA) (B := anyInto c any rB.st first last nx v rB.found) (Or.inr (hstop.grow hg.1 hg.2))

/-! ### subscripts, probe mode -/

def IIdxP (a b : IAcc) : Prop := IIdx a b ∧ a.res ≠ .ok

theorem indexElemStep_viewP {item : ItemK} (nx : Node) (a : IAcc) (v : Item)
    (hf : a.found = none) (hr : a.ret = none) (hv : v ≠ .null) :
    vwIdx (indexElemStep c item (some nx) a v) = updP (executeNextItem c item a.st (some nx) v none) ∧
    ((executeNextItem c item a.st (some nx) v none).status = .notFound →
      (indexElemStep c item (some nx) a v).res = (executeNextItem c item a.st (some nx) v none).status) := by
  unfold indexElemStep
  simp only [hr, Option.isSome_none, Bool.false_eq_true, if_false]
  cases v with
  | null => exact absurd rfl hv
  | _ =>
    simp only [hf, Option.isNone_some, Option.isNone_none, Bool.and_true, Bool.false_eq_true, if_false,
      Bool.or_eq_true, decide_eq_true_eq]
    generalize executeNextItem c item a.st (some nx) _ none = r
    by_cases h : r.status = .notFound
    · have hcnd : ¬ (r.status = .failed ∨ r.status = .ok) := by rw [h]; simp
      rw [if_neg hcnd]
      refine ⟨?_, fun _ => rfl⟩
      rw [updP_nf h]; rfl
    · have hcnd : r.status = .failed ∨ r.status = .ok := by
        cases hs : r.status <;> simp_all
      rw [if_pos hcnd]
      refine ⟨?_, fun hn => absurd hn h⟩
      rw [updP_stop h]; rfl

theorem indexElemStep_stepP (H : HypP c S Φ item bool any) {t : St} {m : List Item} (nxB : Option Node)
    (hcn' : t.ignoreSE = true ∨ NoAnyO nxB = true) (a b : IAcc) (v : Item)
    (hr : RunningP c S Φ t m (vwIdx a) (vwIdx b)) (hi : IIdxP a b) :
    (RunningP c S Φ t m (vwIdx (indexElemStep c item (some (appendO nxB S)) a v)) (vwIdx (indexElemStep c item nxB b v)) ∧
      IIdxP (indexElemStep c item (some (appendO nxB S)) a v) (indexElemStep c item nxB b v)) ∨
    BothP c S Φ t m (vwIdx (indexElemStep c item (some (appendO nxB S)) a v)) (vwIdx (indexElemStep c item nxB b v)) ∨
    (StoppedP c S Φ t m (vwIdx (indexElemStep c item (some (appendO nxB S)) a v)) (vwIdx (indexElemStep c item nxB b v)) ∧
      True) := by
  have hig : b.st.ignoreSE = t.ignoreSE := hr.ign
  have hcn : ChainOKO b.st nxB := by
    rcases hcn' with h | h
    · left; rw [hig]; exact h
    · right; exact h
  by_cases hv : v = .null
  · subst hv
    have eA : indexElemStep c item (some (appendO nxB S)) a .null = a := by
      unfold indexElemStep; split <;> rfl
    have eB : indexElemStep c item nxB b .null = b := by
      unfold indexElemStep; split <;> rfl
    rw [eA, eB]
    exact Or.inl ⟨hr, hi⟩
  · obtain ⟨hA0, hB0, xs, t', h3, h4, h5, h6, h7⟩ := hr
    simp only [vwIdx] at hA0 hB0 h3 h5 h6 h7
    obtain ⟨hvA, hresA⟩ := indexElemStep_viewP (c := c) (item := item) (appendO nxB S) a v h5 hA0 hv
    obtain ⟨hvB, hresB⟩ := indexElemStep_view (c := c) (item := item) nxB b v (m ++ xs) h3 hB0 hv
    rw [h6] at hvA hresA
    have hgB := executeNextItem_good c H.base.goodI b.st nxB v (some (m ++ xs))
    have hbB := executeNextItem_bud c H.base.budI b.st nxB v (some (m ++ xs)) h7.2.2.2.2
    have hcomp := executeNextItem_compP H (m ++ xs) nxB v h7 hcn
    rw [hvA, hvB]
    rcases step_ofCallP h4 h7 hcomp hgB hbB with h | h | h
    · left
      refine ⟨h, ?_⟩
      have hnA := updP_ret_none h.retA
      have hnB := upd_ret_none h.retB
      exact ⟨⟨by rw [hresA hnA, hnA]; simp, by rw [hresB hnB]; exact hnB⟩, by rw [hresA hnA, hnA]; simp⟩
    · exact Or.inr (Or.inl h)
    · exact Or.inr (Or.inr ⟨h, trivial⟩)

theorem indexSubStep_stepP (H : HypP c S Φ item bool any) {t : St} {m : List Item} (nxB : Option Node)
    (hcn' : t.ignoreSE = true ∨ NoAnyO nxB = true) (ys : List Item) (v : Item) (a b : IAcc) (sub : Node)
    (hr : RunningP c S Φ t m (vwIdx a) (vwIdx b)) (hi : IIdxP a b) :
    (RunningP c S Φ t m (vwIdx (indexSubStep c item (some (appendO nxB S)) ys v a sub))
        (vwIdx (indexSubStep c item nxB ys v b sub)) ∧
      IIdxP (indexSubStep c item (some (appendO nxB S)) ys v a sub) (indexSubStep c item nxB ys v b sub)) ∨
    BothP c S Φ t m (vwIdx (indexSubStep c item (some (appendO nxB S)) ys v a sub))
        (vwIdx (indexSubStep c item nxB ys v b sub)) ∨
    (StoppedP c S Φ t m (vwIdx (indexSubStep c item (some (appendO nxB S)) ys v a sub))
        (vwIdx (indexSubStep c item nxB ys v b sub)) ∧ True) := by
  obtain ⟨hA0, hB0, xs, t', h3, h4, h5, h6, h7⟩ := hr
  simp only [vwIdx] at hA0 hB0 h3 h5 h6 h7
  have hj1 := h7.subscript H.base sub v ys.length
  unfold indexSubStep
  simp only [hA0, hB0, Option.isSome_none, Bool.false_eq_true, if_false]
  rw [h6, H.base.subscript]
  generalize execSubscript c item b.st sub v ys.length = p at hj1
  obtain ⟨s1, e1⟩ := p
  cases e1 with
  | error e =>
    simp only
    right; left
    refine ⟨_, _, rfl, rfl, ?_⟩
    rw [h5, h3]
    exact CompOkP.rebase h4 (returnError_compOkP _ _ _ _)
  | ok ft =>
    obtain ⟨from_, to_⟩ := ft
    simp only
    have hrun : RunningP c S Φ t m (vwIdx { a with st := mix t' s1 }) (vwIdx { b with st := s1 }) :=
      ⟨hA0, hB0, xs, t', h3, h4, h5, rfl, hj1⟩
    have hfold := fold_compP (c := c) (S := S) (Φ := Φ) (t := t) (m := m)
      (indexElemStep c item (some (appendO nxB S))) (indexElemStep c item nxB) vwIdx vwIdx IIdxP (fun _ => True)
      (fun a x h => indexElemStep_skip _ a x h) (fun b x h => indexElemStep_skip _ b x h)
      (fun a b x hr hi => indexElemStep_stepP H nxB hcn' a b x hr hi)
      (foldl_grow (indexElemStep c item nxB) vwIdx (fun _ => True)
        (fun b' x _ => ⟨indexElemStep_grow H.base nxB b' x, trivial⟩))
      (sliceRange ys from_ to_) _ _ (Or.inl ⟨hrun, hi⟩)
    simp only [hA0, hB0] at hfold
    rcases hfold with h | h | h
    · exact Or.inl h
    · exact Or.inr (Or.inl h)
    · exact Or.inr (Or.inr ⟨h, trivial⟩)

theorem execArrayIndex_compP (H : HypP c S Φ item bool any) {t sB : St} (m : List Item) (subs : List Node)
    (nx : Option Node) (v : Item) (hj : Junc t sB) (hcx : ChainOKO sB nx) :
    CompP c S Φ t m (execArrayIndex c item (mix t sB) subs (some (appendO nx S)) v none)
      (execArrayIndex c item sB subs nx v (some m)) := by
  unfold execArrayIndex
  cases harr : arrayOf c v with
  | none => exact structural_compP _ _ _
  | some ys =>
    simp only
    have hcn' : t.ignoreSE = true ∨ NoAnyO nx = true := by
      rcases hcx with h | h
      · left; rw [hj.2.2.1]; exact h
      · right; exact h
    have hj0 : Junc t { sB with innermost := ys.length } := hj
    have h0 : RunningP c S Φ t m (vwIdx ⟨mix t { sB with innermost := ys.length }, none, .notFound, none, none⟩)
        (vwIdx ⟨{ sB with innermost := ys.length }, some m, .notFound, none, none⟩) :=
      ⟨rfl, rfl, [], t, by simp [vwIdx], FeedNF.nil t, rfl, rfl, hj0⟩
    have hfold := fold_compP (c := c) (S := S) (Φ := Φ) (t := t) (m := m)
      (indexSubStep c item (some (appendO nx S)) ys v) (indexSubStep c item nx ys v) vwIdx vwIdx IIdxP (fun _ => True)
      (fun a x h => indexSubStep_skip _ _ _ a x h) (fun b x h => indexSubStep_skip _ _ _ b x h)
      (fun a b x hr hi => indexSubStep_stepP H nx hcn' ys v a b x hr hi)
      (foldl_grow (indexSubStep c item nx ys v) vwIdx (fun _ => True)
        (fun b' x _ => ⟨indexSubStep_grow H.base nx ys v b' x, trivial⟩))
      subs _ _ (Or.inl ⟨h0, ⟨⟨by simp, by simp⟩, by simp⟩⟩)
    have hfin := final_compP (c := c) (S := S) (Φ := Φ) (t := t) (m := m)
      (fun st => { st with innermost := sB.innermost }) (fun _ _ => rfl) (fun _ => ⟨rfl, rfl, rfl⟩)
      (subs.foldl (indexSubStep c item (some (appendO nx S)) ys v) ⟨mix t { sB with innermost := ys.length }, none, .notFound, none, none⟩).res
      (subs.foldl (indexSubStep c item nx ys v) ⟨{ sB with innermost := ys.length }, some m, .notFound, none, none⟩).res
      (fun hrun => by
        rcases hfold with ⟨_, hi⟩ | ⟨rA, rB, e1, e2, _⟩ | ⟨rA, e1, _⟩
        · exact ⟨⟨fun h => absurd h hi.1.1, fun h => absurd h hi.1.2⟩, hi.2⟩
        · exact absurd (e1.symm.trans hrun.retA) (by simp)
        · exact absurd (e1.symm.trans hrun.retA) (by simp))
      (by rcases hfold with h | h | h
          · exact Or.inl h.1
          · exact Or.inr (Or.inl h)
          · exact Or.inr (Or.inr h))
    exact hfin


/-! ### node dispatch, probe mode -/

theorem execBinaryNode_compP (H : HypP c S Φ item bool any) {t sB : St} (m : List Item) (nB : Node) (op : BinOp)
    (lo ro nx : Option Node) (v : Item) (unwrap : Bool) (hj : Junc t sB) (hc : ChainOK sB nB)
    (hcx : ChainOKO sB nx) :
    CompP c S Φ t m
      (execBinaryNode c item bool any (mix t sB) (append nB S) op lo ro (some (appendO nx S)) v none unwrap)
      (execBinaryNode c item bool any sB nB op lo ro nx v (some m) unwrap) := by
  unfold execBinaryNode
  refine compP_ite (fun _ => boolNode_compP H m nB nx v hj hcx) (fun _ => ?_)
  refine compP_ite (fun _ => execBinaryMathExpr_compP H m op lo ro nx v hj hcx) (fun _ => ?_)
  cases op <;> simp only
  all_goals first
    | exact execConvMethod_compP H m nB nx v unwrap _ hj hc hcx
    | exact CompP.ofBoth _ _ _ _ _ (by simp)

theorem filterTail_compP (H : HypP c S Φ item bool any) {t sB : St} (m : List Item) (cond : Node)
    (nx : Option Node) (v : Item) (hj : Junc t sB) (hcx : ChainOKO sB nx) :
    CompP c S Φ t m
      (let p := executeNestedBoolItem bool (mix t sB) cond v
       if p.err.isSome then ⟨p.st, none, .failed, p.err⟩
       else if p.out ≠ .t then ⟨p.st, none, .notFound, none⟩
       else executeNextItem c item p.st (some (appendO nx S)) v none)
      (let p := executeNestedBoolItem bool sB cond v
       if p.err.isSome then ⟨p.st, some m, .failed, p.err⟩
       else if p.out ≠ .t then ⟨p.st, some m, .notFound, none⟩
       else executeNextItem c item p.st nx v (some m)) := by
  have hp := executeNestedBoolItem_good H.base.goodB sB cond v
  have hpb := executeNestedBoolItem_bud H.base.budB sB cond v hj.2.2.2.2
  simp only [H.base.nestedBool, mixP_err, mixP_st, mixP_out]
  generalize executeNestedBoolItem bool sB cond v = p at hp hpb
  refine compP_ite (fun _ => CompP.ofBoth _ _ _ _ _ (by simp)) (fun _ => ?_)
  refine compP_ite (fun _ => CompP.ofBoth _ _ _ _ _ (by simp)) (fun _ => ?_)
  exact executeNextItem_compP H m nx v (hj.goodP hp hpb) (hcx.ofCtx hp.ctx)

theorem execUnaryNode_compP (H : HypP c S Φ item bool any) {t sB : St} (m : List Item) (nB : Node) (op : UnOp)
    (x nx : Option Node) (v : Item) (unwrap : Bool) (hj : Junc t sB) (hc : ChainOK sB nB)
    (hcx : ChainOKO sB nx) :
    CompP c S Φ t m
      (execUnaryNode c item bool any (mix t sB) (append nB S) op x (some (appendO nx S)) v none unwrap)
      (execUnaryNode c item bool any sB nB op x nx v (some m) unwrap) := by
  have hsa : ∀ xs : List Item, CompP c S Φ t m (any (mix t sB) (some (append nB S)) xs none 1 1 1 false false)
      (any sB (some nB) xs (some m) 1 1 1 false false) := fun xs => selfAny_compP H m nB xs hj hc
  unfold execUnaryNode
  cases op with
  | not => exact boolNode_compP H m nB nx v hj hcx
  | isUnknown => exact boolNode_compP H m nB nx v hj hcx
  | «exists» => exact boolNode_compP H m nB nx v hj hcx
  | plus => exact execUnaryMathExpr_compP H m x nx v _ hj hcx
  | minus => exact execUnaryMathExpr_compP H m x nx v _ hj hcx
  | filter =>
    simp only
    cases x with
    | none =>
      cases v <;> cases unwrap <;> first
        | exact hsa _
        | exact CompP.ofBoth _ _ _ _ _ (by simp)
    | some cond =>
      have tl := filterTail_compP H m cond nx v hj hcx
      cases v <;> cases unwrap <;> first
        | exact hsa _
        | exact tl
  | datetime =>
    simp only
    have tl := executeDateTimeMethod_compP H m .datetime x nx v hj hcx
    cases v <;> cases unwrap <;> first | exact hsa _ | exact tl
  | date =>
    simp only
    have tl := executeDateTimeMethod_compP H m .date x nx v hj hcx
    cases v <;> cases unwrap <;> first | exact hsa _ | exact tl
  | time =>
    simp only
    have tl := executeDateTimeMethod_compP H m .time x nx v hj hcx
    cases v <;> cases unwrap <;> first | exact hsa _ | exact tl
  | timeTZ =>
    simp only
    have tl := executeDateTimeMethod_compP H m .timeTZ x nx v hj hcx
    cases v <;> cases unwrap <;> first | exact hsa _ | exact tl
  | timestamp =>
    simp only
    have tl := executeDateTimeMethod_compP H m .timestamp x nx v hj hcx
    cases v <;> cases unwrap <;> first | exact hsa _ | exact tl
  | timestampTZ =>
    simp only
    have tl := executeDateTimeMethod_compP H m .timestampTZ x nx v hj hcx
    cases v <;> cases unwrap <;> first | exact hsa _ | exact tl

theorem dispatch_compP (H : HypP c S Φ item bool any) {t sB : St} (m : List Item) (n : Node) (v : Item) (u : Bool)
    (hj : Junc t sB) (hc : ChainOK sB n) :
    CompP c S Φ t m (dispatch c item bool any (mix t sB) (append n S) v none u)
      (dispatch c item bool any sB n v (some m) u) := by
  have hcx := hc.next
  cases n with
  | const k nx =>
    have e : dispatch c item bool any (mix t sB) (append (.const k nx) S) v none u
        = execConstNode c item any (mix t sB) (append (.const k nx) S) k (some (appendO nx S)) v none u := by
      simp only [append, dispatch]
    rw [e]; exact execConstNode_compP H m _ k nx v u hj hc hcx
  | str tx nx =>
    have e : dispatch c item bool any (mix t sB) (append (.str tx nx) S) v none u
        = execLiteral c item (mix t sB) (some (appendO nx S)) (.str tx) none := by
      simp only [append, dispatch]
    rw [e]; exact execLiteral_compP H m nx _ hj hcx
  | integer i nx =>
    have e : dispatch c item bool any (mix t sB) (append (.integer i nx) S) v none u
        = execLiteral c item (mix t sB) (some (appendO nx S)) (.int i) none := by
      simp only [append, dispatch]
    rw [e]; exact execLiteral_compP H m nx _ hj hcx
  | numeric x nx =>
    have e : dispatch c item bool any (mix t sB) (append (.numeric x nx) S) v none u
        = execLiteral c item (mix t sB) (some (appendO nx S)) (.flt x) none := by
      simp only [append, dispatch]
    rw [e]; exact execLiteral_compP H m nx _ hj hcx
  | var name nx =>
    have e : dispatch c item bool any (mix t sB) (append (.var name nx) S) v none u
        = execVariable c item (mix t sB) name (some (appendO nx S)) none := by
      simp only [append, dispatch]
    rw [e]; exact execVariable_compP H m name nx hj hcx
  | key k nx =>
    have e : dispatch c item bool any (mix t sB) (append (.key k nx) S) v none u
        = execKeyNode c item any (mix t sB) (append (.key k nx) S) k (some (appendO nx S)) v none u := by
      simp only [append, dispatch]
    rw [e]; exact execKeyNode_compP H m _ k nx v u hj hc hcx
  | binary op lo ro nx =>
    have e : dispatch c item bool any (mix t sB) (append (.binary op lo ro nx) S) v none u
        = execBinaryNode c item bool any (mix t sB) (append (.binary op lo ro nx) S) op lo ro (some (appendO nx S)) v none u := by
      simp only [append, dispatch]
    rw [e]; exact execBinaryNode_compP H m _ op lo ro nx v u hj hc hcx
  | unary op x nx =>
    have e : dispatch c item bool any (mix t sB) (append (.unary op x nx) S) v none u
        = execUnaryNode c item bool any (mix t sB) (append (.unary op x nx) S) op x (some (appendO nx S)) v none u := by
      simp only [append, dispatch]
    rw [e]; exact execUnaryNode_compP H m _ op x nx v u hj hc hcx
  | regex x pat fl nx =>
    have e : dispatch c item bool any (mix t sB) (append (.regex x pat fl nx) S) v none u
        = appendBoolResult c item (some (appendO nx S)) none (bool (mix t sB) (append (.regex x pat fl nx) S) v true) := by
      simp only [append, dispatch]
    rw [e]; exact boolNode_compP H m _ nx v hj hcx
  | method mth nx =>
    have e : dispatch c item bool any (mix t sB) (append (.method mth nx) S) v none u
        = execMethodNode c item any (mix t sB) (append (.method mth nx) S) mth (some (appendO nx S)) v none u := by
      simp only [append, dispatch]
    rw [e]; exact execMethodNode_compP H m _ mth nx v u hj hc hcx
  | any first last nx =>
    have e : dispatch c item bool any (mix t sB) (append (.any first last nx) S) v none u
        = execAnyNode c item any (mix t sB) first last (some (appendO nx S)) v none := by
      simp only [append, dispatch]
    rw [e]
    have hign : sB.ignoreSE = true := by
      rcases hc with h | h
      · exact h
      · simp [NoAny] at h
    exact execAnyNode_compP H m first last nx v hj hign
  | arrayIndex subs nx =>
    have e : dispatch c item bool any (mix t sB) (append (.arrayIndex subs nx) S) v none u
        = execArrayIndex c item (mix t sB) subs (some (appendO nx S)) v none := by
      simp only [append, dispatch]
    rw [e]; exact execArrayIndex_compP H m subs nx v hj hcx


end probe2


/-! ### the induction over the fuel, probe mode -/

theorem junctionP (c : Ctx) (S : Node) (Φ : Nat) (hS : Indep sufFlags S = true) (fuel : Nat) (hle : fuel ≤ Φ)
    (sB t : St) (x : Item) (hj : Junc t sB) :
    ∃ r, KRp c S Φ t x r ∧
      xItem c fuel (mix t sB) S x none c.lax = ⟨mix r.st sB, none, r.status, r.err⟩ := by
  refine ⟨xItem c fuel t S x none c.lax, ⟨fuel, hle, rfl⟩, ?_⟩
  have h := (frame_all none c fuel).1 (jg sB) t S x none c.lax hS
  have hg := xItem_good c fuel t S x none c.lax
  have hb := xItem_bud c fuel t S x none c.lax hj.2.2.2.1
  rw [jg_st hj, jg_fd] at h
  rw [show xItem (setRoot none c) fuel = xItem c fuel from rfl] at h
  rw [h]
  simp only [Shift.res, jg_fd]
  rw [jg_st (hj.ofCtxL hg.ctx hb), hg.shape.1 rfl]

/-- **the composition simulation for the dispatchers, probe mode** -/
theorem compP_all (c : Ctx) (S : Node) (Φ : Nat) (hS : Indep sufFlags S = true) :
    ∀ fuel : Nat, fuel ≤ Φ → CompIP c S Φ (xItem c fuel) ∧ CompAP c S Φ (xAny c fuel) := by
  intro fuel
  induction fuel with
  | zero =>
    intro _
    refine ⟨fun sB t m n v u _ _ => ?_, fun sB t m node vs lv a b ign un _ _ _ _ => ?_⟩
    · simp only [xItem]; exact CompP.ofBoth _ _ _ _ _ (by simp)
    · simp only [xAny]; exact CompP.ofBoth _ _ _ _ _ (by simp)
  | succ fuel ih =>
    intro hle
    have ih := ih (Nat.le_of_succ_le hle)
    have ihc := comp_all c S Φ hS fuel (Nat.le_of_succ_le hle)
    obtain ⟨hI, hB, hA⟩ := good_all c fuel
    obtain ⟨bI, bB, bA⟩ := bud_all c fuel
    obtain ⟨fI, fB, fA⟩ := frame_all none c fuel
    have H0 : Hyp c S Φ (xItem c fuel) (xBool c fuel) (xAny c fuel) :=
      { goodI := hI, goodB := hB, goodA := hA, budI := bI, budB := bB, budA := bA,
        frI := fI, frB := fB, frA := fA,
        jn := fun sB t x l hj => junction c S Φ hS fuel (Nat.le_of_succ_le hle) sB t x l hj,
        ci := ihc.1, ca := ihc.2,
        bnext := fun s n v => xBool_append c fuel s n S v }
    have H : HypP c S Φ (xItem c fuel) (xBool c fuel) (xAny c fuel) :=
      { base := H0,
        jn := fun sB t x hj => junctionP c S Φ hS fuel (Nat.le_of_succ_le hle) sB t x hj,
        ci := ih.1, ca := ih.2 }
    refine ⟨fun sB t m n v u hj hc => ?_, fun sB t m node vs lv a b ign un hj hcn hign hun => ?_⟩
    · simp only [xItem]
      rw [poll_of_budget_none (s := mix t sB) hj.2.2.2.2, poll_of_budget_none hj.2.2.2.2]
      exact dispatch_compP H m n v u hj hc
    · simp only [xAny]
      exact executeAnyItem_compP H m node vs lv a b ign un hj hcn hign hun

/-- **composition, relational form, probe mode.**  `A` = the run of `P S` in probe mode, `B` = the run of `P`
    alone (collecting into the empty list); both from the same state `s` (never cancelled), same fuel. -/
theorem compose_relP (c : Ctx) (S : Node) (Φ : Nat) (hS : Indep sufFlags S = true) (fuel : Nat) (hle : fuel ≤ Φ)
    (s : St) (hb : s.budget = none) (P : Node) (hc : ChainOK s P) (v : Item) (u : Bool) :
    CompP c S Φ s [] (xItem c fuel s (append P S) v none u) (xItem c fuel s P v (some []) u) := by
  have h := (compP_all c S Φ hS fuel hle).1 s s [] P v u ⟨rfl, rfl, rfl, hb, hb⟩ hc
  rw [mix_self] at h
  exact h
end Compose
end Exec
end Sqljson
