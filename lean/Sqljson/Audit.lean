import Lean
/-!
# Audit command

`#audit C11 [thm₁, thm₂, …]` prints one JSON line per theorem:
`AUDIT {"property":…,"name":…,"axioms":[…],"hash":…,"kind":"theorem"|…}`.
`hash` is a hash of the elaborated statement (its type), so that a theorem cannot be weakened
without the registry noticing.  An unknown name is an error.
-/
open Lean Elab Command

syntax (name := auditCmd) "#audit " ident " [" ident,* "]" : command

@[command_elab auditCmd] def elabAudit : CommandElab := fun stx => do
  match stx with
  | `(#audit $prop [$names,*]) =>
    let env ← getEnv
    for n in names.getElems do
      let declName ← liftCoreM <| realizeGlobalConstNoOverloadWithInfo n
      let some ci := env.find? declName | throwError "unknown constant {declName}"
      let axs ← liftCoreM <| Lean.collectAxioms declName
      let axStrs := axs.toList.map (fun a => a.toString) |>.toArray.qsort (· < ·)
      let kind := match ci with
        | .thmInfo _ => "theorem"
        | .defnInfo _ => "def"
        | .axiomInfo _ => "axiom"
        | .opaqueInfo _ => "opaque"
        | _ => "other"
      let j := Json.mkObj [("property", Json.str prop.getId.toString), ("name", Json.str declName.toString),
        ("axioms", Json.arr (axStrs.map Json.str)), ("hash", Json.str (toString ci.type.hash)),
        ("kind", Json.str kind)]
      logInfo m!"AUDIT {j.compress}"
  | _ => throwUnsupportedSyntax

/-- `#audit_ns C12 Sqljson.C12` audits every theorem whose name lies directly in the namespace. -/
syntax (name := auditNsCmd) "#audit_ns " ident ident : command

@[command_elab auditNsCmd] def elabAuditNs : CommandElab := fun stx => do
  match stx with
  | `(#audit_ns $prop $ns) =>
    let env ← getEnv
    let nsName := ns.getId
    let mut names : Array Name := #[]
    for (n, ci) in env.constants.toList do
      if n.getPrefix == nsName && !n.isInternal then
        match ci with
        | .thmInfo _ => names := names.push n
        | _ => pure ()
    for declName in names.qsort (fun a b => a.toString < b.toString) do
      let some ci := env.find? declName | continue
      let axs ← liftCoreM <| Lean.collectAxioms declName
      let axStrs := axs.toList.map (fun a => a.toString) |>.toArray.qsort (· < ·)
      let j := Json.mkObj [("property", Json.str prop.getId.toString), ("name", Json.str declName.toString),
        ("axioms", Json.arr (axStrs.map Json.str)), ("hash", Json.str (toString ci.type.hash)),
        ("kind", Json.str "theorem")]
      logInfo m!"AUDIT {j.compress}"
  | _ => throwUnsupportedSyntax
