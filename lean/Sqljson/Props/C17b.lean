import Sqljson.Props.C18
import Sqljson.Props.C17
/-!
# C17b — which strings the datetime methods accept, and how fractional seconds are rounded

C17: *`.datetime()`, `.date()`, `.time()`, `.time_tz()`, `.timestamp()` and `.timestamp_tz()` accept
the documented ISO-8601 forms, return the most specific type or the requested cast with fractional
seconds rounded to the given precision (capped at 6) …*

Model: `Model/Time.lean` (`parseTime` = `types.ParseTime`, the cascade date → time with zone → time →
timestamp with zone → timestamp over the layout interpreter `goParse` = `time.Parse`).

## Part A — acceptance

The grammar is a relation `Form L s d` between a string `s` (`List Char`, as in the model), the value
`d` it denotes and a record `L : Lax` of the leniencies allowed (`Lax.none`: the documented forms,
`Lax.all`: everything `time.Parse` lets through).  Building blocks, each indexed by the denoted
numbers: `DateS y m d s` (`YYYY-MM-DD`, day valid for the month), `ClockS L h mi sec ns s`
(`HH:MM:SS[.f…]`), `OffsetS L o s` (`Z`, `±HH`, `±HH:MM`), `SepS L s` (`T` or a space); the classes
`IsoDate`, `IsoTime`, `Offset`, `IsoTimeTZ`, `IsoTimestamp`, `IsoTimestampTZ` are the `Lax.none`
instances.

* **`parseTime_accepts`** / `accepts_date … accepts_timestamptz`: every documented string is accepted,
  as the most specific type, with the denoted value (`parse_value_date … parse_value_timestamptz` give
  the civil fields of that value);
* **`parseTime_accepted_iff`**: `parseTime env s (-1) = some d ↔ Form Lax.all s d` — the model's exact
  acceptance, both directions, all five types (`form_parseTime`, `parseTime_form`);
* the leniencies, visible in the definitions as the disjuncts guarded by a flag of `L`:
  1. `shortHour` — a one-digit hour (`1:02:03`; Go reads `15` with `getnum(value, false)`);
  2. `comma` — `,` as the decimal mark (`12:00:00,5`);
  3. `longFrac` — more than nine fraction digits; digits after the ninth are dropped, not rounded;
  4. `spaces` — a run of two or more spaces between date and time (the layouts with a space);
  5. `wideOffset` — offset hours `24` and offset minutes `60` (`+24:60` = 25 h);
  and nothing else: hours `24`, seconds `60`, one-digit minutes/seconds/months/days, an empty
  fraction, a lower-case `t`/`z`, an offset without colon (`+0530`) are all rejected (examples);
* **`accepted_beyond_documented`**: for each leniency a string that needs exactly that one, is
  accepted, and is not documented (`beyond_shortHour`, `beyond_comma`, `beyond_longFrac`,
  `beyond_spaces`, `beyond_wideOffset`); `documented_accepted`, `Form.mono`, `documented_iff`,
  `acceptedAs_unique`, `documented_ne_accepted`;
* **`parseTime_precision`**: a precision argument changes neither the accepted set nor the type:
  `parseTime env s p = (parseTime env s (-1)).map (reround p)` (`parseTime_precision_accepted_iff`);
* executor: `exec_parse_iff` (`parseDateTime c op src none = .ok d ↔ AcceptedAs src d`),
  `exec_parse_documented`, `exec_parse_rejects` (anything else: the suppressible error).

## Part B — rounding

* **`adjustPrecision_spec`** (`round_spec`): for `0 ≤ p ≤ 9` the result is the multiple of
  `unit p = 10^(9−p)` ns given by `N − N mod u` if `2·(N mod u) < u`, else `N − N mod u + u`, on Unix
  nanoseconds `N`; offset kept, nanosecond field a multiple of the unit; `adjustPrecision_close`
  (`−u/2 < N' − N ≤ u/2`), **`adjustPrecision_nearest`** (no multiple is nearer; an equally near one
  is not larger: ties go **up**, also for instants before the zero time — Go's `div` computes the
  Euclidean remainder), `adjustPrecision_tie`, `adjustPrecision_fixed`, `adjustPrecision_idem`;
* **`precision_cap`**: the executor passes `min p 6`: every `p ≥ 6` behaves like `6`;
  `adjustPrecision_neg`, `adjustPrecision_big` (`p ≥ 10`: the divisor underflows to 0, unchanged);
* known finding **D33**: `time_round_wraps_counterexample` (`"23:59:59.9".time(0)` is `00:00:00`,
  which sorts before the unrounded value), `timetz_round_wraps_counterexample`,
  `time_round_wraps` (whenever rounding up reaches midnight the result is `00:00:00`),
  **`time_round_monotone_partial`** (otherwise: truncated ≤ rounded, within half a unit).
-/

set_option linter.unusedSimpArgs false
set_option linter.unusedVariables false

namespace Sqljson
namespace C17b
open Time

/-! # Part A — acceptance -/

namespace Aux

theorem isDigit_iff (c : Char) : isDigit c = true ↔ 48 ≤ c.toNat ∧ c.toNat ≤ 57 := by
  simp only [isDigit, Bool.and_eq_true, decide_eq_true_eq, Char.le_def]
  rfl

theorem char_eq_of_toNat (c d : Char) (h : c.toNat = d.toNat) : c = d := by
  apply Char.ext
  apply UInt32.toNat_inj.1
  exact h

theorem digit_dc (c : Char) (h : isDigit c = true) : digitVal c < 10 ∧ c = dc (digitVal c) := by
  rw [isDigit_iff] at h
  have h' : c.toNat = 48 ∨ c.toNat = 49 ∨ c.toNat = 50 ∨ c.toNat = 51 ∨ c.toNat = 52 ∨ c.toNat = 53 ∨
      c.toNat = 54 ∨ c.toNat = 55 ∨ c.toNat = 56 ∨ c.toNat = 57 := by omega
  unfold digitVal
  refine ⟨by omega, ?_⟩
  rcases h' with e | e | e | e | e | e | e | e | e | e <;> rw [e] <;> exact char_eq_of_toNat _ _ e


/-- the list does not start with a digit -/
def NoDigit (r : List Char) : Prop := ∀ c rest, r = c :: rest → isDigit c = false

theorem noDigit_nil : NoDigit [] := fun _ _ h => by cases h
theorem noDigit_cons (c : Char) (r : List Char) (h : isDigit c = false) : NoDigit (c :: r) :=
  fun c' r' e => by cases e; exact h

theorem d2_val (a b : Char) (ha : isDigit a = true) (hb : isDigit b = true) :
    digitVal a * 10 + digitVal b < 100 ∧ [a, b] = d2 (digitVal a * 10 + digitVal b) := by
  obtain ⟨a1, a2⟩ := digit_dc a ha
  obtain ⟨b1, b2⟩ := digit_dc b hb
  refine ⟨by omega, ?_⟩
  have e1 : (digitVal a * 10 + digitVal b) / 10 = digitVal a := by omega
  have e2 : (digitVal a * 10 + digitVal b) % 10 = digitVal b := by omega
  simp only [d2, e1, e2]
  rw [← a2, ← b2]

theorem getYear_some (v r : List Char) (n : Nat) : getYear v = some (n, r) ↔ n < 10000 ∧ v = d4 n ++ r := by
  constructor
  · intro h
    unfold getYear at h
    split at h
    · rename_i a b c d rest
      split at h
      · rename_i hd
        simp only [Bool.and_eq_true] at hd
        obtain ⟨⟨⟨ha, hb⟩, hc⟩, hd⟩ := hd
        simp only [Option.some.injEq, Prod.mk.injEq] at h
        obtain ⟨hn, hr⟩ := h
        obtain ⟨a1, a2⟩ := digit_dc a ha
        obtain ⟨b1, b2⟩ := digit_dc b hb
        obtain ⟨c1, c2⟩ := digit_dc c hc
        obtain ⟨d1, d2'⟩ := digit_dc d hd
        subst hr
        refine ⟨by omega, ?_⟩
        have e1 : n / 1000 = digitVal a := by omega
        have e2 : n / 100 % 10 = digitVal b := by omega
        have e3 : n / 10 % 10 = digitVal c := by omega
        have e4 : n % 10 = digitVal d := by omega
        simp only [d4, List.cons_append, List.nil_append, e1, e2, e3, e4]
        rw [← a2, ← b2, ← c2, ← d2']
      · cases h
    · cases h
  · rintro ⟨h1, h2⟩; rw [h2]; exact getYear_four n h1 r

theorem getnum_fixed_some (v r : List Char) (n : Nat) : getnum v true = some (n, r) ↔ n < 100 ∧ v = d2 n ++ r := by
  constructor
  · intro h
    unfold getnum at h
    split at h
    · cases h
    · simp at h
    · rename_i a b rest
      by_cases ha : isDigit a = true
      · by_cases hb : isDigit b = true
        · simp only [ha, hb, Bool.not_true, Bool.false_eq_true, if_false, if_true, Option.some.injEq,
            Prod.mk.injEq] at h
          obtain ⟨hn, hr⟩ := h
          obtain ⟨l, e⟩ := d2_val a b ha hb
          subst hn; subst hr
          refine ⟨l, ?_⟩
          rw [← e]; rfl
        · simp [ha, hb] at h
      · simp [ha] at h
  · rintro ⟨h1, h2⟩; rw [h2]; exact getnum_two n h1 true r

theorem getnum_one (n : Nat) (hn : n < 10) (r : List Char) (hr : NoDigit r) :
    getnum (dc n :: r) false = some (n, r) := by
  cases r with
  | nil => simp [getnum, isDigit_dc n hn, digitVal_dc n hn]
  | cons c rest =>
    have := hr c rest rfl
    simp [getnum, isDigit_dc n hn, digitVal_dc n hn, this]

theorem getnum_free_some (v r : List Char) (n : Nat) :
    getnum v false = some (n, r) ↔ (n < 100 ∧ v = d2 n ++ r) ∨ (n < 10 ∧ v = dc n :: r ∧ NoDigit r) := by
  constructor
  · intro h
    unfold getnum at h
    split at h
    · cases h
    · rename_i a
      by_cases ha : isDigit a = true
      · simp only [ha, Bool.not_false, Bool.and_self, if_true, Option.some.injEq, Prod.mk.injEq] at h
        obtain ⟨hn, hr⟩ := h
        obtain ⟨a1, a2⟩ := digit_dc a ha
        subst hn; subst hr
        right; exact ⟨a1, by rw [← a2], noDigit_nil⟩
      · simp [ha] at h
    · rename_i a b rest
      by_cases ha : isDigit a = true
      · by_cases hb : isDigit b = true
        · simp only [ha, hb, Bool.not_true, Bool.false_eq_true, if_false, if_true, Option.some.injEq,
            Prod.mk.injEq] at h
          obtain ⟨hn, hr⟩ := h
          obtain ⟨l, e⟩ := d2_val a b ha hb
          subst hn; subst hr
          left
          refine ⟨l, ?_⟩
          rw [← e]; rfl
        · simp only [ha, hb, Bool.not_true, Bool.false_eq_true, if_false, Option.some.injEq,
            Prod.mk.injEq] at h
          obtain ⟨hn, hr⟩ := h
          obtain ⟨a1, a2⟩ := digit_dc a ha
          subst hn; subst hr
          right; exact ⟨a1, by rw [← a2], noDigit_cons _ _ (by simpa using hb)⟩
      · simp [ha] at h
  · rintro (⟨h1, h2⟩ | ⟨h1, h2, h3⟩)
    · rw [h2]; exact getnum_two n h1 false r
    · rw [h2]; exact getnum_one n h1 r h3

theorem two_some (a b : Char) (n : Nat) : two a b = some n ↔ n < 100 ∧ [a, b] = d2 n := by
  constructor
  · intro h
    unfold two at h
    split at h
    · rename_i hd
      simp only [Bool.and_eq_true] at hd
      simp only [Option.some.injEq] at h
      obtain ⟨l, e⟩ := d2_val a b hd.1 hd.2
      subst h; exact ⟨l, e⟩
    · cases h
  · rintro ⟨h1, h2⟩
    exact two_d2 n h1 [] a b h2.symm

/-! ### fractions -/

theorem spanDigits_spec (v : List Char) :
    ∃ ds r, v = ds ++ r ∧ allDigits ds ∧ NoDigit r ∧ spanDigits v = (ds, r) := by
  induction v with
  | nil => exact ⟨[], [], rfl, fun _ h => (by cases h), noDigit_nil, rfl⟩
  | cons c cs ih =>
    obtain ⟨ds, r, e, hd, hr, hs⟩ := ih
    by_cases hc : isDigit c = true
    · refine ⟨c :: ds, r, by rw [e]; rfl, ?_, hr, by simp [spanDigits, hc, hs]⟩
      intro x hx
      rcases List.mem_cons.1 hx with hx | hx
      · rw [hx]; exact hc
      · exact hd x hx
    · refine ⟨[], c :: cs, rfl, fun _ h => (by cases h), noDigit_cons _ _ (by simpa using hc), by simp [spanDigits, hc]⟩

/-- the text of a fraction `fs` (possibly empty) in front of `r`, and its nanoseconds -/
def FracPre (fs : List Char) (ns : Nat) (r : List Char) : Prop :=
  (fs = [] ∧ ns = 0 ∧ hasFrac r = false) ∨
  ∃ c ds, commaOrPeriod c = true ∧ ds ≠ [] ∧ allDigits ds ∧ NoDigit r ∧ fs = c :: ds ∧ ns = nanosOfDigits ds

theorem takeFrac_fwd (c : Char) (ds r : List Char) (hc : commaOrPeriod c = true) (hds : ds ≠ [])
    (had : allDigits ds) (hr : NoDigit r) :
    hasFrac (c :: (ds ++ r)) = true ∧ takeFrac (c :: (ds ++ r)) = (nanosOfDigits ds, r) := by
  cases ds with
  | nil => exact absurd rfl hds
  | cons x xs =>
    have hx : isDigit x = true := had x (by simp)
    refine ⟨by simp [hasFrac, hc, hx], ?_⟩
    simp only [takeFrac]
    rw [spanDigits_append (x :: xs) r had hr]

theorem hasFrac_inv (v : List Char) (h : hasFrac v = true) :
    ∃ c ds r, commaOrPeriod c = true ∧ ds ≠ [] ∧ allDigits ds ∧ NoDigit r ∧ v = c :: (ds ++ r) ∧
      takeFrac v = (nanosOfDigits ds, r) := by
  unfold hasFrac at h
  split at h
  · rename_i c d rest
    simp only [Bool.and_eq_true] at h
    obtain ⟨ds, r, e, hd, hr, hs⟩ := spanDigits_spec (d :: rest)
    have hne : ds ≠ [] := by
      intro e'
      subst e'
      simp only [List.nil_append] at e
      have := hr d rest e.symm
      rw [h.2] at this; cases this
    refine ⟨c, ds, r, h.1, hne, hd, hr, by rw [e], ?_⟩
    simp only [takeFrac, hs]
  · cases h

theorem digitsVal_lt_aux (ds : List Char) (h : allDigits ds) (a : Nat) :
    ds.foldl (fun a c => a * 10 + digitVal c) a + 1 ≤ (a + 1) * 10 ^ ds.length := by
  induction ds generalizing a with
  | nil => simp
  | cons c cs ih =>
    have hc : isDigit c = true := h c (by simp)
    have hv := (digit_dc c hc).1
    have := ih (fun x hx => h x (by simp [hx])) (a * 10 + digitVal c)
    simp only [List.foldl_cons, List.length_cons, Nat.pow_succ]
    have h2 : (a * 10 + digitVal c + 1) * 10 ^ cs.length ≤ ((a + 1) * 10) * 10 ^ cs.length :=
      Nat.mul_le_mul_right _ (by omega)
    have h3 : (a + 1) * 10 * 10 ^ cs.length = (a + 1) * (10 ^ cs.length * 10) := by
      rw [Nat.mul_assoc, Nat.mul_comm 10]
    omega

theorem digitsVal_lt (ds : List Char) (h : allDigits ds) : digitsVal ds < 10 ^ ds.length := by
  have := digitsVal_lt_aux ds h 0
  simp only [Nat.zero_add, Nat.one_mul] at this
  unfold digitsVal; omega

theorem nanosOfDigits_lt (ds : List Char) (h : allDigits ds) : nanosOfDigits ds < 1000000000 := by
  unfold nanosOfDigits
  simp only []
  have hd : allDigits (ds.take 9) := fun c hc => h c (List.mem_of_mem_take hc)
  have hl : (ds.take 9).length ≤ 9 := by simp [List.length_take]; omega
  have h1 := digitsVal_lt _ hd
  have h2 : 10 ^ (ds.take 9).length * 10 ^ (9 - (ds.take 9).length) = 1000000000 := by
    rw [← Nat.pow_add]
    have : (ds.take 9).length + (9 - (ds.take 9).length) = 9 := by omega
    rw [this]
  have h3 : 0 < 10 ^ (9 - (ds.take 9).length) := Nat.pow_pos (by decide)
  have := Nat.mul_lt_mul_of_lt_of_le h1 (Nat.le_refl (10 ^ (9 - (ds.take 9).length))) h3
  omega

theorem fracPre_lt {fs : List Char} {ns : Nat} {r : List Char} (h : FracPre fs ns r) : ns < 1000000000 := by
  rcases h with ⟨_, h, _⟩ | ⟨c, ds, _, _, hd, _, _, h⟩
  · omega
  · rw [h]; exact nanosOfDigits_lt ds hd

/-! ### one layout element: inversion and forward -/

theorem parseLayout_cons_inv {e : El} {rest : Layout} {acc a : Acc} {v : List Char}
    (h : parseLayout (e :: rest) acc v = some a) :
    ∃ a1 v1, parseEl e (nextStd rest) acc v = some (a1, v1) ∧ parseLayout rest a1 v1 = some a := by
  simp only [parseLayout] at h
  split at h
  · cases h
  · rename_i a1 v1 he; exact ⟨a1, v1, he, h⟩

theorem parseLayout_nil_inv {acc a : Acc} {v : List Char} (h : parseLayout [] acc v = some a) : v = [] ∧ a = acc := by
  simp only [parseLayout] at h
  split at h
  · rename_i hv; simp only [Option.some.injEq] at h; exact ⟨by simpa using hv, h.symm⟩
  · cases h

theorem parseEl_lit_inv {c : Char} (hc : c ≠ ' ') {nx : Option El} {acc a : Acc} {v r : List Char}
    (h : parseEl (.lit c) nx acc v = some (a, r)) : v = c :: r ∧ a = acc := by
  simp only [parseEl, skipLit, beq_iff_eq, hc, if_false] at h
  split at h
  · rename_i x r'
    by_cases hx : x = c
    · simp [hx] at h; subst hx; exact ⟨by rw [h.2], h.1.symm⟩
    · simp [hx] at h
  · simp at h

theorem parseEl_year_inv {nx : Option El} {acc a : Acc} {v r : List Char}
    (h : parseEl .year nx acc v = some (a, r)) : ∃ y, y < 10000 ∧ v = d4 y ++ r ∧ a = { acc with year := y } := by
  simp only [parseEl] at h
  cases hg : getYear v with
  | none => simp [hg] at h
  | some p =>
    obtain ⟨n, r'⟩ := p
    simp only [hg, Option.map_some, Option.some.injEq, Prod.mk.injEq] at h
    obtain ⟨h1, h2⟩ := h
    subst h2
    obtain ⟨l, e⟩ := (getYear_some v r' n).1 hg
    exact ⟨n, l, e, h1.symm⟩

theorem parseEl_month_inv {nx : Option El} {acc a : Acc} {v r : List Char}
    (h : parseEl .month nx acc v = some (a, r)) :
    ∃ m, 1 ≤ m ∧ m ≤ 12 ∧ v = d2 m ++ r ∧ a = { acc with month := m } := by
  simp only [parseEl] at h
  cases hg : getnum v true with
  | none => simp [hg] at h
  | some p =>
    obtain ⟨n, r'⟩ := p
    simp only [hg] at h
    split at h
    · cases h
    · rename_i hn
      simp only [Option.some.injEq, Prod.mk.injEq] at h
      obtain ⟨h1, h2⟩ := h
      subst h2
      obtain ⟨l, e⟩ := (getnum_fixed_some v r' n).1 hg
      have hn' : ¬ (n = 0 ∨ n > 12) := by simpa using hn
      exact ⟨n, by omega, by omega, e, h1.symm⟩

theorem parseEl_day_inv {nx : Option El} {acc a : Acc} {v r : List Char}
    (h : parseEl .day nx acc v = some (a, r)) : ∃ d, d < 100 ∧ v = d2 d ++ r ∧ a = { acc with day := d } := by
  simp only [parseEl] at h
  cases hg : getnum v true with
  | none => simp [hg] at h
  | some p =>
    obtain ⟨n, r'⟩ := p
    simp only [hg, Option.map_some, Option.some.injEq, Prod.mk.injEq] at h
    obtain ⟨h1, h2⟩ := h
    subst h2
    obtain ⟨l, e⟩ := (getnum_fixed_some v r' n).1 hg
    exact ⟨n, l, e, h1.symm⟩

theorem parseEl_minute_inv {nx : Option El} {acc a : Acc} {v r : List Char}
    (h : parseEl .minute nx acc v = some (a, r)) : ∃ m, m < 60 ∧ v = d2 m ++ r ∧ a = { acc with min := m } := by
  simp only [parseEl] at h
  cases hg : getnum v true with
  | none => simp [hg] at h
  | some p =>
    obtain ⟨n, r'⟩ := p
    simp only [hg] at h
    split at h
    · cases h
    · rename_i hn
      simp only [Option.some.injEq, Prod.mk.injEq] at h
      obtain ⟨h1, h2⟩ := h
      subst h2
      obtain ⟨l, e⟩ := (getnum_fixed_some v r' n).1 hg
      exact ⟨n, by omega, e, h1.symm⟩

/-- the text of an hour: two digits, or one digit (Go's `getnum(value, false)`) -/
def HourPre (h : Nat) (hs : List Char) : Prop := h < 24 ∧ (hs = d2 h ∨ (h < 10 ∧ hs = [dc h]))

theorem parseEl_hour_inv {nx : Option El} {acc a : Acc} {v r : List Char}
    (h : parseEl .hour nx acc v = some (a, r)) :
    ∃ hh hs, HourPre hh hs ∧ v = hs ++ r ∧ a = { acc with hour := hh } := by
  simp only [parseEl] at h
  cases hg : getnum v false with
  | none => simp [hg] at h
  | some p =>
    obtain ⟨n, r'⟩ := p
    simp only [hg] at h
    split at h
    · cases h
    · rename_i hn
      simp only [Option.some.injEq, Prod.mk.injEq] at h
      obtain ⟨h1, h2⟩ := h
      subst h2
      rcases (getnum_free_some v r' n).1 hg with ⟨l, e⟩ | ⟨l, e, _⟩
      · exact ⟨n, d2 n, ⟨by omega, Or.inl rfl⟩, e, h1.symm⟩
      · exact ⟨n, [dc n], ⟨by omega, Or.inr ⟨l, rfl⟩⟩, e, h1.symm⟩

theorem parseEl_hour_fwd (nx : Option El) (acc : Acc) {hh : Nat} {hs : List Char} (hp : HourPre hh hs)
    (r : List Char) (hr : NoDigit r) : parseEl .hour nx acc (hs ++ r) = some ({ acc with hour := hh }, r) := by
  obtain ⟨h24, h | ⟨h10, h⟩⟩ := hp
  · rw [h]; exact parseEl_hour nx acc hh h24 r
  · rw [h]
    have h0 : ¬ 24 ≤ hh := by omega
    simp [parseEl, getnum_one hh h10 r hr, h0]

theorem parseEl_second_inv {nx : Option El} (hnx : notFrac nx) {acc a : Acc} (hacc : acc.nsec = 0) {v r : List Char}
    (h : parseEl .second nx acc v = some (a, r)) :
    ∃ s fs ns, s < 60 ∧ FracPre fs ns r ∧ v = d2 s ++ (fs ++ r) ∧ a = { acc with sec := s, nsec := ns } := by
  unfold notFrac at hnx
  simp only [parseEl] at h
  cases hg : getnum v true with
  | none => simp [hg] at h
  | some p =>
    obtain ⟨n, r'⟩ := p
    simp only [hg] at h
    obtain ⟨l, e⟩ := (getnum_fixed_some v r' n).1 hg
    split at h
    · cases h
    · rename_i hn
      by_cases hf : hasFrac r' = true
      · simp only [hf, hnx, Bool.not_false, Bool.and_self, if_true, Option.some.injEq, Prod.mk.injEq] at h
        obtain ⟨c, ds, r2, hc, hne, hd, hr2, e2, e3⟩ := hasFrac_inv r' hf
        rw [e3] at h
        obtain ⟨h1, h2⟩ := h
        simp only at h2
        subst h2
        refine ⟨n, c :: ds, nanosOfDigits ds, by omega, Or.inr ⟨c, ds, hc, hne, hd, hr2, rfl, rfl⟩, ?_, h1.symm⟩
        rw [e, e2]; rfl
      · have hf' : hasFrac r' = false := by simpa using hf
        simp only [hf', Bool.false_and, Bool.false_eq_true, if_false, Option.some.injEq, Prod.mk.injEq] at h
        obtain ⟨h1, h2⟩ := h
        subst h2
        refine ⟨n, [], 0, by omega, Or.inl ⟨rfl, rfl, hf'⟩, by rw [e]; rfl, ?_⟩
        rw [← h1]
        cases acc; simp only at hacc; subst hacc; rfl

theorem parseEl_second_fwd (nx : Option El) (hnx : notFrac nx) (acc : Acc) (hacc : acc.nsec = 0) {s ns : Nat}
    {fs r : List Char} (hs : s < 60) (hf : FracPre fs ns r) :
    parseEl .second nx acc (d2 s ++ (fs ++ r)) = some ({ acc with sec := s, nsec := ns }, r) := by
  have h0 : ¬ 60 ≤ s := by omega
  unfold notFrac at hnx
  rcases hf with ⟨h1, h2, h3⟩ | ⟨c, ds, hc, hne, hd, hr, h1, h2⟩
  · subst h1; subst h2
    simp only [parseEl, getnum_two s (by omega), List.nil_append, h3, h0, if_false, Bool.false_and,
      Bool.false_eq_true]
    cases acc; simp only at hacc; subst hacc; rfl
  · subst h1; subst h2
    obtain ⟨e1, e2⟩ := takeFrac_fwd c ds r hc hne hd hr
    simp only [parseEl, getnum_two s (by omega), List.cons_append, e1, e2, hnx, h0, if_false, Bool.not_false,
      Bool.and_self, if_true]

/-! ### the clock part `15:04:05` of a layout -/

/-- `s` is a clock text in front of `r`: hour (one or two digits), `:MM:SS`, optional fraction -/
def ClockPre (h mi sec ns : Nat) (s r : List Char) : Prop :=
  ∃ hs fs, HourPre h hs ∧ mi < 60 ∧ sec < 60 ∧ FracPre fs ns r ∧ s = hs ++ ':' :: (d2 mi ++ ':' :: (d2 sec ++ fs))

theorem noDigit_colon (r : List Char) : NoDigit (':' :: r) := noDigit_cons _ _ (by decide)

theorem parse_hms_inv (L : Layout) (hL : notFrac (nextStd L)) {acc a : Acc} (hacc : acc.nsec = 0) {v : List Char}
    (h : parseLayout (hmsL ++ L) acc v = some a) :
    ∃ hh mi sec ns s r, ClockPre hh mi sec ns s r ∧ v = s ++ r ∧
      parseLayout L { acc with hour := hh, min := mi, sec := sec, nsec := ns } r = some a := by
  rw [hmsL_append] at h
  obtain ⟨a1, v1, e1, h⟩ := parseLayout_cons_inv h
  obtain ⟨hh, hs, hp, ev, ea1⟩ := parseEl_hour_inv e1
  obtain ⟨a2, v2, e2, h⟩ := parseLayout_cons_inv h
  obtain ⟨ev1, ea2⟩ := parseEl_lit_inv (by decide) e2
  obtain ⟨a3, v3, e3, h⟩ := parseLayout_cons_inv h
  obtain ⟨mi, hmi, ev2, ea3⟩ := parseEl_minute_inv e3
  obtain ⟨a4, v4, e4, h⟩ := parseLayout_cons_inv h
  obtain ⟨ev3, ea4⟩ := parseEl_lit_inv (by decide) e4
  obtain ⟨a5, v5, e5, h⟩ := parseLayout_cons_inv h
  have hacc4 : a4.nsec = 0 := by rw [ea4, ea3, ea2, ea1]; exact hacc
  obtain ⟨sec, fs, ns, hsec, hf, ev4, ea5⟩ := parseEl_second_inv hL hacc4 e5
  refine ⟨hh, mi, sec, ns, hs ++ ':' :: (d2 mi ++ ':' :: (d2 sec ++ fs)), v5, ⟨hs, fs, hp, hmi, hsec, hf, rfl⟩, ?_, ?_⟩
  · rw [ev, ev1, ev2, ev3, ev4]; simp
  · rw [ea5, ea4, ea3, ea2, ea1] at h; exact h

theorem parse_hms_fwd (L : Layout) (hL : notFrac (nextStd L)) (acc : Acc) (hacc : acc.nsec = 0)
    {hh mi sec ns : Nat} {s r : List Char} (hc : ClockPre hh mi sec ns s r) :
    parseLayout (hmsL ++ L) acc (s ++ r) =
      parseLayout L { acc with hour := hh, min := mi, sec := sec, nsec := ns } r := by
  obtain ⟨hs, fs, hp, hmi, hsec, hf, e⟩ := hc
  subst e
  have e : (hs ++ ':' :: (d2 mi ++ ':' :: (d2 sec ++ fs))) ++ r = hs ++ (':' :: (d2 mi ++ ':' :: (d2 sec ++ (fs ++ r)))) := by
    simp
  rw [e, hmsL_append, parseLayout_step (parseEl_hour_fwd _ _ hp _ (noDigit_colon _)),
    parseLayout_step (parseEl_lit ':' (by decide) _ _ _),
    parseLayout_step (parseEl_minute _ _ mi hmi _), parseLayout_step (parseEl_lit ':' (by decide) _ _ _),
    parseLayout_step (parseEl_second_fwd _ hL _ (by exact hacc) hsec hf)]

/-! ### the date part `2006-01-02` of a layout -/

theorem parse_ymd_inv (L : Layout) {acc a : Acc} {v : List Char} (h : parseLayout (ymdL ++ L) acc v = some a) :
    ∃ y m d r, y < 10000 ∧ 1 ≤ m ∧ m ≤ 12 ∧ d < 100 ∧ v = d4 y ++ '-' :: (d2 m ++ '-' :: (d2 d ++ r)) ∧
      parseLayout L { acc with year := y, month := m, day := d } r = some a := by
  rw [ymdL_append] at h
  obtain ⟨a1, v1, e1, h⟩ := parseLayout_cons_inv h
  obtain ⟨y, hy, ev, ea1⟩ := parseEl_year_inv e1
  obtain ⟨a2, v2, e2, h⟩ := parseLayout_cons_inv h
  obtain ⟨ev1, ea2⟩ := parseEl_lit_inv (by decide) e2
  obtain ⟨a3, v3, e3, h⟩ := parseLayout_cons_inv h
  obtain ⟨m, hm1, hm2, ev2, ea3⟩ := parseEl_month_inv e3
  obtain ⟨a4, v4, e4, h⟩ := parseLayout_cons_inv h
  obtain ⟨ev3, ea4⟩ := parseEl_lit_inv (by decide) e4
  obtain ⟨a5, v5, e5, h⟩ := parseLayout_cons_inv h
  obtain ⟨d, hd, ev4, ea5⟩ := parseEl_day_inv e5
  refine ⟨y, m, d, v5, hy, hm1, hm2, hd, ?_, ?_⟩
  · rw [ev, ev1, ev2, ev3, ev4]
  · rw [ea5, ea4, ea3, ea2, ea1] at h; exact h

/-- a clock text is not a date -/
theorem parse_ymd_on_hour (L : Layout) (acc : Acc) {hh : Nat} {hs : List Char} (hp : HourPre hh hs) (r : List Char) :
    parseLayout (ymdL ++ L) acc (hs ++ ':' :: r) = none := by
  obtain ⟨h24, h | ⟨h10, h⟩⟩ := hp
  · rw [h]; exact parse_ymd_on_clock L acc hh r
  · rw [h, ymdL_append]
    apply parseLayout_fail
    have hc : isDigit ':' = false := by decide
    cases r with
    | nil => simp [parseEl, getYear]
    | cons c cs =>
      cases cs with
      | nil => simp [parseEl, getYear]
      | cons c' cs' => simp [parseEl, getYear, hc]

/-! ### zone offsets -/

end Aux

/-- the sign character of a numeric offset -/
def IsSign (c : Char) : Prop := c = '+' ∨ c = '-'
/-- `+` ↦ 1, `-` ↦ −1 -/
def sgnVal (c : Char) : Int := if c = '-' then -1 else 1

namespace Aux


theorem signOf_some (c : Char) (s : Int) : signOf c = some s ↔ IsSign c ∧ s = sgnVal c := by
  unfold signOf IsSign sgnVal
  by_cases h1 : c = '+'
  · subst h1; simp; exact eq_comm
  · by_cases h2 : c = '-'
    · subst h2; simp; exact eq_comm
    · simp [h1, h2]

theorem isSign_ne_Z {c : Char} (h : IsSign c) : c ≠ 'Z' := by
  rcases h with h | h <;> subst h <;> decide

theorem mkOffset_some (sg : Char) (hr mm ss : Option Nat) (o : Int) :
    mkOffset sg hr mm ss = some o ↔ ∃ h m x, hr = some h ∧ mm = some m ∧ ss = some x ∧ IsSign sg ∧ h ≤ 24 ∧
      m ≤ 60 ∧ x ≤ 60 ∧ o = sgnVal sg * (((h * 60 + m) * 60 + x : Nat) : Int) := by
  unfold mkOffset
  constructor
  · intro h
    split at h
    · rename_i s h' m' x' hs
      split at h
      · cases h
      · rename_i hb
        simp only [Bool.or_eq_true, decide_eq_true_eq, not_or, Nat.not_lt] at hb
        simp only [Option.some.injEq] at h
        obtain ⟨i1, i2⟩ := (signOf_some sg s).1 hs
        exact ⟨h', m', x', rfl, rfl, rfl, i1, hb.1.1, hb.1.2, hb.2, by rw [← h, i2]⟩
    · cases h
  · rintro ⟨h, m, x, rfl, rfl, rfl, hs, h1, h2, h3, rfl⟩
    have : signOf sg = some (sgnVal sg) := (signOf_some sg _).2 ⟨hs, rfl⟩
    have hb : ¬ (h > 24 ∨ m > 60 ∨ x > 60) := by omega
    simp only [this]
    have hb' : (decide (h > 24) || decide (m > 60) || decide (x > 60)) = false := by
      simp only [Bool.or_eq_false_iff, decide_eq_false_iff_not]; omega
    simp [hb']

/-- `±HH`, hours up to 24 -/
def OffShort (o : Int) (s : List Char) : Prop :=
  ∃ sg hh, IsSign sg ∧ hh ≤ 24 ∧ s = sg :: d2 hh ∧ o = sgnVal sg * (((hh * 60 + 0) * 60 + 0 : Nat) : Int)

/-- `±HH:MM`, hours up to 24, minutes up to 60 -/
def OffColon (o : Int) (s : List Char) : Prop :=
  ∃ sg hh mm, IsSign sg ∧ hh ≤ 24 ∧ mm ≤ 60 ∧ s = sg :: (d2 hh ++ ':' :: d2 mm) ∧
    o = sgnVal sg * (((hh * 60 + mm) * 60 + 0 : Nat) : Int)

theorem parseOffset_short_some (v r : List Char) (o : Int) :
    parseOffset .short v = some (o, r) ↔ ∃ s, OffShort o s ∧ v = s ++ r := by
  constructor
  · intro h
    rcases v with _ | ⟨sg, _ | ⟨h1, _ | ⟨h2, rest⟩⟩⟩
    · simp [parseOffset] at h
    · simp [parseOffset] at h
    · simp [parseOffset] at h
    · have e : parseOffset .short (sg :: h1 :: h2 :: rest) =
          (mkOffset sg (two h1 h2) (some 0) (some 0)).map (·, rest) := rfl
      rw [e] at h
      cases hm : mkOffset sg (two h1 h2) (some 0) (some 0) with
      | none => simp [hm] at h
      | some o' =>
        simp only [hm, Option.map_some, Option.some.injEq, Prod.mk.injEq] at h
        obtain ⟨e1, e2⟩ := h
        subst e1; subst e2
        obtain ⟨hh, m, x, i1, i2, i3, i4, i5, i6, i7, i8⟩ := (mkOffset_some _ _ _ _ _).1 hm
        cases i2; cases i3
        obtain ⟨l, e⟩ := (two_some h1 h2 hh).1 i1
        exact ⟨sg :: d2 hh, ⟨sg, hh, i4, i5, rfl, i8⟩, by rw [← e]; rfl⟩
  · rintro ⟨s, ⟨sg, hh, i1, i2, rfl, rfl⟩, rfl⟩
    have ht := two_d2 hh (by omega) [] _ _ rfl
    have hm := (mkOffset_some sg (some hh) (some 0) (some 0) _).2 ⟨hh, 0, 0, rfl, rfl, rfl, i1, i2, by omega, by omega, rfl⟩
    simp only [d2, List.cons_append, List.nil_append, parseOffset, ht, hm, Option.map_some]

theorem parseOffset_colon_some (v r : List Char) (o : Int) :
    parseOffset .colon v = some (o, r) ↔ ∃ s, OffColon o s ∧ v = s ++ r := by
  constructor
  · intro h
    rcases v with _ | ⟨sg, _ | ⟨h1, _ | ⟨h2, _ | ⟨c, _ | ⟨m1, _ | ⟨m2, rest⟩⟩⟩⟩⟩⟩
    · simp [parseOffset] at h
    · simp [parseOffset] at h
    · simp [parseOffset] at h
    · simp [parseOffset] at h
    · simp [parseOffset] at h
    · simp [parseOffset] at h
    · have e : parseOffset .colon (sg :: h1 :: h2 :: c :: m1 :: m2 :: rest) =
          if c == ':' then (mkOffset sg (two h1 h2) (two m1 m2) (some 0)).map (·, rest) else none := rfl
      rw [e] at h
      by_cases hc : c = ':'
      · subst hc
        simp only [beq_self_eq_true, if_true] at h
        cases hm : mkOffset sg (two h1 h2) (two m1 m2) (some 0) with
        | none => simp [hm] at h
        | some o' =>
          simp only [hm, Option.map_some, Option.some.injEq, Prod.mk.injEq] at h
          obtain ⟨e1, e2⟩ := h
          subst e1; subst e2
          obtain ⟨hh, m, x, i1, i2, i3, i4, i5, i6, i7, i8⟩ := (mkOffset_some _ _ _ _ _).1 hm
          cases i3
          obtain ⟨l, e⟩ := (two_some h1 h2 hh).1 i1
          obtain ⟨l', e'⟩ := (two_some m1 m2 m).1 i2
          refine ⟨sg :: (d2 hh ++ ':' :: d2 m), ⟨sg, hh, m, i4, i5, i6, rfl, i8⟩, ?_⟩
          rw [← e, ← e']; rfl
      · simp [hc] at h
  · rintro ⟨s, ⟨sg, hh, mm, i1, i2, i3, rfl, rfl⟩, rfl⟩
    have ht := two_d2 hh (by omega) [] _ _ rfl
    have ht' := two_d2 mm (by omega) [] _ _ rfl
    have hm := (mkOffset_some sg (some hh) (some mm) (some 0) _).2 ⟨hh, mm, 0, rfl, rfl, rfl, i1, i2, i3, by omega, rfl⟩
    simp only [d2, List.cons_append, List.nil_append, parseOffset, ht, ht', hm, Option.map_some, beq_self_eq_true,
      if_true]

theorem parseEl_tz_ne (st : TzStyle) (nx : Option El) (acc : Acc) (c : Char) (r' : List Char) (hc : c ≠ 'Z') :
    parseEl (.tz true st) nx acc (c :: r') =
      (parseOffset st (c :: r')).map fun p => ({ acc with zoneOffset := p.1 }, p.2) := by
  simp only [parseEl]
  split
  · rename_i heq; simp only [List.cons.injEq] at heq; exact absurd heq.1 hc
  · rfl

theorem parseOffset_nil (st : TzStyle) : parseOffset st [] = none := by cases st <;> rfl

theorem parseEl_tz_inv {st : TzStyle} {nx : Option El} {acc a : Acc} {v r : List Char}
    (h : parseEl (.tz true st) nx acc v = some (a, r)) :
    (v = 'Z' :: r ∧ a = { acc with zUTC := true }) ∨
      ∃ o, parseOffset st v = some (o, r) ∧ a = { acc with zoneOffset := o } := by
  rcases v with _ | ⟨c, r'⟩
  · simp [parseEl, parseOffset_nil] at h
  · by_cases hc : c = 'Z'
    · subst hc
      simp only [parseEl, Option.some.injEq, Prod.mk.injEq] at h
      left; exact ⟨by rw [h.2], h.1.symm⟩
    · rw [parseEl_tz_ne st nx acc c r' hc] at h
      right
      cases hp : parseOffset st (c :: r') with
      | none => simp [hp] at h
      | some p =>
        obtain ⟨o, r2⟩ := p
        simp only [hp, Option.map_some, Option.some.injEq, Prod.mk.injEq] at h
        exact ⟨o, by rw [h.2], h.1.symm⟩

theorem parseEl_tz_Z (st : TzStyle) (nx : Option El) (acc : Acc) (r : List Char) :
    parseEl (.tz true st) nx acc ('Z' :: r) = some ({ acc with zUTC := true }, r) := by
  simp [parseEl]

theorem parseEl_tz_off (st : TzStyle) (nx : Option El) (acc : Acc) (sg : Char) (hs : IsSign sg) (v r : List Char)
    (o : Int) (h : parseOffset st (sg :: v) = some (o, r)) :
    parseEl (.tz true st) nx acc (sg :: v) = some ({ acc with zoneOffset := o }, r) := by
  rw [parseEl_tz_ne st nx acc sg v (isSign_ne_Z hs), h]; rfl

/-! ### the separator between date and time -/

theorem cutspace_spec (v : List Char) :
    ∃ k r, v = List.replicate k ' ' ++ r ∧ (∀ rest, r ≠ ' ' :: rest) ∧ cutspace v = r := by
  induction v with
  | nil => exact ⟨0, [], rfl, fun _ h => (by cases h), rfl⟩
  | cons c cs ih =>
    by_cases hc : c = ' '
    · subst hc
      obtain ⟨k, r, e, hr, hcut⟩ := ih
      exact ⟨k + 1, r, by rw [e]; rfl, hr, by simp [cutspace, hcut]⟩
    · refine ⟨0, c :: cs, rfl, fun rest h => ?_, ?_⟩
      · simp only [List.cons.injEq] at h; exact hc h.1
      · unfold cutspace; split
        · rename_i heq; simp only [List.cons.injEq] at heq; exact absurd heq.1 hc
        · rfl

theorem cutspace_replicate (k : Nat) (r : List Char) (hr : ∀ rest, r ≠ ' ' :: rest) :
    cutspace (List.replicate k ' ' ++ r) = r := by
  induction k with
  | zero =>
    simp only [List.replicate_zero, List.nil_append]
    unfold cutspace; split
    · rename_i r'; exact absurd rfl (hr r')
    · rfl
  | succ j ih => simp [List.replicate_succ, cutspace, ih]

theorem parseEl_space_inv {nx : Option El} {acc a : Acc} {v r : List Char}
    (h : parseEl (.lit ' ') nx acc v = some (a, r)) :
    a = acc ∧ ((v = [] ∧ r = []) ∨ ∃ k, v = List.replicate (k + 1) ' ' ++ r ∧ ∀ rest, r ≠ ' ' :: rest) := by
  simp only [parseEl, skipLit, beq_self_eq_true, if_true] at h
  split at h
  · simp only [Option.map_some, Option.some.injEq, Prod.mk.injEq] at h
    exact ⟨h.1.symm, Or.inl ⟨rfl, h.2.symm⟩⟩
  · rename_i x xs
    by_cases hx : x = ' '
    · subst hx
      simp only [beq_self_eq_true, if_true, Option.map_some, Option.some.injEq, Prod.mk.injEq] at h
      obtain ⟨k, r', e, hr, hcut⟩ := cutspace_spec xs
      refine ⟨h.1.symm, Or.inr ⟨k, ?_, ?_⟩⟩
      · have : cutspace (' ' :: xs) = cutspace xs := by simp [cutspace]
        rw [this, hcut] at h
        rw [← h.2, e]; rfl
      · have : cutspace (' ' :: xs) = cutspace xs := by simp [cutspace]
        rw [this, hcut] at h
        rw [← h.2]; exact hr
    · simp [hx] at h

theorem parseEl_space_fwd (nx : Option El) (acc : Acc) (k : Nat) (r : List Char) (hr : ∀ rest, r ≠ ' ' :: rest) :
    parseEl (.lit ' ') nx acc (List.replicate (k + 1) ' ' ++ r) = some (acc, r) := by
  simp only [parseEl, skipLit, beq_self_eq_true, if_true, List.replicate_succ, List.cons_append]
  have : cutspace (' ' :: (List.replicate k ' ' ++ r)) = r := by
    have := cutspace_replicate (k + 1) r hr
    simpa [List.replicate_succ] using this
  simp [this]

/-! ### the tail of `parse`: building the `Time` -/

/-- the wall-clock second count of the parsed fields -/
def wallOf (acc : Acc) : Int :=
  daysFromCivil acc.year acc.month acc.day * 86400 + acc.hour * 3600 + acc.min * 60 + acc.sec

theorem finishParse_iff (acc : Acc) (t : GoTime) (hm1 : 1 ≤ acc.month) (hm2 : acc.month ≤ 12) (hh : acc.hour < 24)
    (hmi : acc.min < 60) (hs : acc.sec < 60) (hns : acc.nsec < 1000000000) :
    finishParse acc = some t ↔ (1 ≤ acc.day ∧ (acc.day : Int) ≤ daysIn acc.month acc.year) ∧
      t = (if acc.zUTC then ⟨wallOf acc, acc.nsec, 0⟩
           else if acc.zoneOffset ≠ -1 then ⟨wallOf acc - acc.zoneOffset, acc.nsec, acc.zoneOffset⟩
           else ⟨wallOf acc, acc.nsec, 0⟩) := by
  have hw := dateWall_fields acc.year acc.month acc.day acc.hour acc.min acc.sec acc.nsec (by omega) (by omega)
    (by omega) (by omega) (by omega) hns
  unfold finishParse
  by_cases hv : acc.day < 1 ∨ (acc.day : Int) > daysIn acc.month acc.year
  · have hv' : (decide (acc.day < 1) || decide ((acc.day : Int) > daysIn acc.month acc.year)) = true := by
      simpa using hv
    simp only [hv', if_true]
    constructor
    · intro h; cases h
    · rintro ⟨⟨h1, h2⟩, _⟩; omega
  · have hv' : (decide (acc.day < 1) || decide ((acc.day : Int) > daysIn acc.month acc.year)) = false := by
      simpa using hv
    simp only [hv', Bool.false_eq_true, if_false, hw, wallOf]
    have hv2 : 1 ≤ acc.day ∧ (acc.day : Int) ≤ daysIn acc.month acc.year := by omega
    constructor
    · intro h
      refine ⟨hv2, ?_⟩
      split at h <;> (try split at h) <;> simp_all
    · rintro ⟨_, h⟩
      rw [h]
      split <;> (try split) <;> simp_all

end Aux
open Aux

/-! ## The grammar -/

/-- which of `time.Parse`'s leniencies are allowed -/
structure Lax where
  /-- a one-digit hour (`1:02:03`) -/
  shortHour : Bool
  /-- `,` as the decimal mark (`12:00:00,5`) -/
  comma : Bool
  /-- more than nine fraction digits (the tenth and later digits are ignored, not rounded) -/
  longFrac : Bool
  /-- a run of two or more spaces between date and time -/
  spaces : Bool
  /-- offset hours `24` and offset minutes `60` (`+24:60` is 25 h) -/
  wideOffset : Bool
deriving Repr, DecidableEq

/-- the documented forms: no leniency -/
def Lax.none : Lax := ⟨false, false, false, false, false⟩
/-- what `time.Parse` accepts: every leniency -/
def Lax.all : Lax := ⟨true, true, true, true, true⟩

/-- `YYYY-MM-DD`: four-digit year, month `01`–`12`, day valid for the month (leap years included) -/
def DateS (y m d : Nat) (s : List Char) : Prop :=
  y < 10000 ∧ 1 ≤ m ∧ m ≤ 12 ∧ 1 ≤ d ∧ (d : Int) ≤ daysIn m y ∧ s = d4 y ++ '-' :: (d2 m ++ '-' :: d2 d)

/-- `HH` (`00`–`23`); lenient: also `H` -/
def HourS (L : Lax) (h : Nat) (s : List Char) : Prop :=
  h < 24 ∧ (s = d2 h ∨ (L.shortHour = true ∧ h < 10 ∧ s = [dc h]))

/-- nothing, or `.` and 1–9 digits; lenient: also `,`, also more digits.  `ns` = the first nine
    digits scaled to nanoseconds -/
def FracS (L : Lax) (ns : Nat) (s : List Char) : Prop :=
  (s = [] ∧ ns = 0) ∨
  ∃ c ds, (c = '.' ∨ (L.comma = true ∧ c = ',')) ∧ ds ≠ [] ∧ allDigits ds ∧
    (ds.length ≤ 9 ∨ L.longFrac = true) ∧ s = c :: ds ∧ ns = nanosOfDigits ds

/-- `HH:MM:SS[.fffffffff]` -/
def ClockS (L : Lax) (h mi sec ns : Nat) (s : List Char) : Prop :=
  ∃ hs fs, HourS L h hs ∧ mi < 60 ∧ sec < 60 ∧ FracS L ns fs ∧ s = hs ++ ':' :: (d2 mi ++ ':' :: (d2 sec ++ fs))

/-- offset hours `00`–`23`; lenient: also `24` -/
def OffHour (L : Lax) (hh : Nat) : Prop := hh ≤ 23 ∨ (L.wideOffset = true ∧ hh = 24)
/-- offset minutes `00`–`59`; lenient: also `60` -/
def OffMin (L : Lax) (mm : Nat) : Prop := mm ≤ 59 ∨ (L.wideOffset = true ∧ mm = 60)

/-- `Z`, `±HH`, `±HH:MM`; `o` = the offset in seconds east of UTC -/
def OffsetS (L : Lax) (o : Int) (s : List Char) : Prop :=
  (s = ['Z'] ∧ o = 0) ∨
  (∃ sg hh, IsSign sg ∧ OffHour L hh ∧ s = sg :: d2 hh ∧ o = sgnVal sg * (hh * 3600 : Nat)) ∨
  (∃ sg hh mm, IsSign sg ∧ OffHour L hh ∧ OffMin L mm ∧ s = sg :: (d2 hh ++ ':' :: d2 mm) ∧
    o = sgnVal sg * (hh * 3600 + mm * 60 : Nat))

/-- `T` or one space; lenient: also two or more spaces -/
def SepS (L : Lax) (s : List Char) : Prop :=
  s = ['T'] ∨ s = [' '] ∨ (L.spaces = true ∧ ∃ k, s = List.replicate (k + 2) ' ')

/-! ### denoted values -/

def clockSecs (h mi sec : Nat) : Int := h * 3600 + mi * 60 + sec

def dateVal (y m d : Nat) : DateTime := ⟨.date, daysFromCivil y m d * 86400, 0, 0⟩
def timeVal (h mi sec ns : Nat) : DateTime := ⟨.time, yearZero + clockSecs h mi sec, ns, 0⟩
def timeTZVal (h mi sec ns : Nat) (o : Int) : DateTime := ⟨.timetz, yearZero + clockSecs h mi sec - o, ns, o⟩
def timestampVal (y m d h mi sec ns : Nat) : DateTime :=
  ⟨.timestamp, daysFromCivil y m d * 86400 + clockSecs h mi sec, ns, 0⟩
def timestampTZVal (y m d h mi sec ns : Nat) (o : Int) : DateTime :=
  ⟨.timestamptz, daysFromCivil y m d * 86400 + clockSecs h mi sec - o, ns, o⟩

/-- **the grammar**: `Form L s d` — the string `s` is a date / time / time with zone / timestamp /
    timestamp with zone written with the leniencies `L`, and denotes the value `d` -/
inductive Form (L : Lax) (s : List Char) (d : DateTime) : Prop
  | date (y m dd : Nat) (hd : DateS y m dd s) (hv : d = dateVal y m dd)
  | time (h mi sec ns : Nat) (hc : ClockS L h mi sec ns s) (hv : d = timeVal h mi sec ns)
  | timetz (h mi sec ns : Nat) (o : Int) (s1 s2 : List Char) (hc : ClockS L h mi sec ns s1) (ho : OffsetS L o s2)
      (hs : s = s1 ++ s2) (hv : d = timeTZVal h mi sec ns o)
  | timestamp (y m dd h mi sec ns : Nat) (s1 sp s2 : List Char) (hd : DateS y m dd s1) (hsp : SepS L sp)
      (hc : ClockS L h mi sec ns s2) (hs : s = s1 ++ (sp ++ s2)) (hv : d = timestampVal y m dd h mi sec ns)
  | timestamptz (y m dd h mi sec ns : Nat) (o : Int) (s1 sp s2 s3 : List Char) (hd : DateS y m dd s1)
      (hsp : SepS L sp) (hc : ClockS L h mi sec ns s2) (ho : OffsetS L o s3) (hs : s = s1 ++ (sp ++ (s2 ++ s3)))
      (hv : d = timestampTZVal y m dd h mi sec ns o)

/-- the documented ISO-8601 forms -/
def IsoDate (s : List Char) : Prop := ∃ y m d, DateS y m d s
def IsoTime (s : List Char) : Prop := ∃ h mi sec ns, ClockS Lax.none h mi sec ns s
def Offset (s : List Char) : Prop := ∃ o, OffsetS Lax.none o s
def IsoTimeTZ (s : List Char) : Prop := ∃ s1 s2, IsoTime s1 ∧ Offset s2 ∧ s = s1 ++ s2
def IsoTimestamp (s : List Char) : Prop :=
  ∃ s1 sp s2, IsoDate s1 ∧ (sp = ['T'] ∨ sp = [' ']) ∧ IsoTime s2 ∧ s = s1 ++ (sp ++ s2)
def IsoTimestampTZ (s : List Char) : Prop :=
  ∃ s1 sp s2 s3, IsoDate s1 ∧ (sp = ['T'] ∨ sp = [' ']) ∧ IsoTime s2 ∧ Offset s3 ∧ s = s1 ++ (sp ++ (s2 ++ s3))

/-- `s` is a documented form denoting `d` -/
def Documented (s : List Char) (d : DateTime) : Prop := Form Lax.none s d
/-- `s` is a form `time.Parse` accepts (documented or lenient), denoting `d` -/
def AcceptedAs (s : List Char) (d : DateTime) : Prop := Form Lax.all s d
def Accepted (s : List Char) : Prop := ∃ d, AcceptedAs s d

namespace Aux

/-! ### the grammar against the parser's view -/

theorem hourS_pre {L : Lax} {h : Nat} {s : List Char} (hh : HourS L h s) : HourPre h s := by
  obtain ⟨h1, h2 | ⟨_, h2, h3⟩⟩ := hh
  · exact ⟨h1, Or.inl h2⟩
  · exact ⟨h1, Or.inr ⟨h2, h3⟩⟩

theorem hourPre_S {h : Nat} {s : List Char} (hh : HourPre h s) : HourS Lax.all h s := by
  obtain ⟨h1, h2 | ⟨h2, h3⟩⟩ := hh
  · exact ⟨h1, Or.inl h2⟩
  · exact ⟨h1, Or.inr ⟨rfl, h2, h3⟩⟩

theorem commaOrPeriod_iff (c : Char) : commaOrPeriod c = true ↔ c = '.' ∨ c = ',' := by
  simp [commaOrPeriod]

theorem fracS_pre {L : Lax} {ns : Nat} {fs r : List Char} (hf : FracS L ns fs) (hr : CleanRest r) : FracPre fs ns r := by
  rcases hf with ⟨h1, h2⟩ | ⟨c, ds, hc, hne, hd, _, h1, h2⟩
  · exact Or.inl ⟨h1, h2, hr.nofrac⟩
  · refine Or.inr ⟨c, ds, ?_, hne, hd, hr.nodigit, h1, h2⟩
    rw [commaOrPeriod_iff]
    rcases hc with hc | ⟨_, hc⟩
    · exact Or.inl hc
    · exact Or.inr hc

theorem fracPre_S {ns : Nat} {fs r : List Char} (hf : FracPre fs ns r) : FracS Lax.all ns fs := by
  rcases hf with ⟨h1, h2, _⟩ | ⟨c, ds, hc, hne, hd, _, h1, h2⟩
  · exact Or.inl ⟨h1, h2⟩
  · refine Or.inr ⟨c, ds, ?_, hne, hd, Or.inr rfl, h1, h2⟩
    rcases (commaOrPeriod_iff c).1 hc with hc | hc
    · exact Or.inl hc
    · exact Or.inr ⟨rfl, hc⟩

theorem clockS_pre {L : Lax} {h mi sec ns : Nat} {s r : List Char} (hc : ClockS L h mi sec ns s) (hr : CleanRest r) :
    ClockPre h mi sec ns s r := by
  obtain ⟨hs, fs, h1, h2, h3, h4, h5⟩ := hc
  exact ⟨hs, fs, hourS_pre h1, h2, h3, fracS_pre h4 hr, h5⟩

theorem clockPre_S {h mi sec ns : Nat} {s r : List Char} (hc : ClockPre h mi sec ns s r) :
    ClockS Lax.all h mi sec ns s := by
  obtain ⟨hs, fs, h1, h2, h3, h4, h5⟩ := hc
  exact ⟨hs, fs, hourPre_S h1, h2, h3, fracPre_S h4, h5⟩

theorem clockPre_lt {h mi sec ns : Nat} {s r : List Char} (hc : ClockPre h mi sec ns s r) :
    h < 24 ∧ mi < 60 ∧ sec < 60 ∧ ns < 1000000000 := by
  obtain ⟨hs, fs, h1, h2, h3, h4, h5⟩ := hc
  exact ⟨h1.1, h2, h3, fracPre_lt h4⟩

/-- a clock text starts with a digit, is not empty, and its second or third character is `:` -/
theorem clockPre_shape {h mi sec ns : Nat} {s r : List Char} (hc : ClockPre h mi sec ns s r) :
    ∃ hs rest, HourPre h hs ∧ s = hs ++ ':' :: rest := by
  obtain ⟨hs, fs, h1, h2, h3, h4, h5⟩ := hc
  exact ⟨hs, _, h1, h5⟩

theorem hourPre_head {h : Nat} {hs : List Char} (hp : HourPre h hs) : ∃ c rest, hs = c :: rest ∧ isDigit c = true := by
  obtain ⟨h24, e | ⟨h10, e⟩⟩ := hp
  · exact ⟨_, _, e, isDigit_dc _ (by omega)⟩
  · exact ⟨_, _, e, isDigit_dc _ h10⟩

theorem clockPre_nospace {h mi sec ns : Nat} {s r : List Char} (hc : ClockPre h mi sec ns s r) (x : List Char) :
    ∀ rest, s ++ x ≠ ' ' :: rest := by
  obtain ⟨hs, tl, hp, e⟩ := clockPre_shape hc
  obtain ⟨c, rest', e', hd⟩ := hourPre_head hp
  intro rest heq
  rw [e, e'] at heq
  simp only [List.cons_append, List.cons.injEq] at heq
  rw [heq.1] at hd
  exact absurd hd (by decide)

theorem offsetS_all (o : Int) (s : List Char) :
    OffsetS Lax.all o s ↔ (s = ['Z'] ∧ o = 0) ∨ OffShort o s ∨ OffColon o s := by
  unfold OffsetS OffShort OffColon OffHour OffMin Lax.all
  constructor
  · rintro (h | ⟨sg, hh, h1, h2, h3, h4⟩ | ⟨sg, hh, mm, h1, h2, h3, h4, h5⟩)
    · exact Or.inl h
    · refine Or.inr (Or.inl ⟨sg, hh, h1, by omega, h3, ?_⟩)
      rw [h4]; congr 1; omega
    · refine Or.inr (Or.inr ⟨sg, hh, mm, h1, by omega, by omega, h4, ?_⟩)
      rw [h5]; congr 1; omega
  · rintro (h | ⟨sg, hh, h1, h2, h3, h4⟩ | ⟨sg, hh, mm, h1, h2, h3, h4, h5⟩)
    · exact Or.inl h
    · refine Or.inr (Or.inl ⟨sg, hh, h1, by simp only [true_and]; omega, h3, ?_⟩)
      rw [h4]; congr 1; omega
    · refine Or.inr (Or.inr ⟨sg, hh, mm, h1, by simp only [true_and]; omega, by simp only [true_and]; omega, h4, ?_⟩)
      rw [h5]; congr 1; omega

theorem sepS_all (s : List Char) : SepS Lax.all s ↔ s = ['T'] ∨ ∃ k, s = List.replicate (k + 1) ' ' := by
  unfold SepS Lax.all
  constructor
  · rintro (h | h | ⟨_, k, h⟩)
    · exact Or.inl h
    · exact Or.inr ⟨0, h⟩
    · exact Or.inr ⟨k + 1, h⟩
  · rintro (h | ⟨k, h⟩)
    · exact Or.inl h
    · cases k with
      | zero => exact Or.inr (Or.inl h)
      | succ j => exact Or.inr (Or.inr ⟨rfl, j, h⟩)

/-! ### running a layout to the end -/

/-- `time.Parse` started in the middle: remaining layout, fields so far, remaining input -/
def run (l : Layout) (acc : Acc) (v : List Char) : Option GoTime :=
  match parseLayout l acc v with
  | none => none
  | some a => finishParse a

theorem goParse_eq_run (l : Layout) (v : List Char) : goParse l v = run l {} v := rfl

theorem run_congr {l l' : Layout} {acc acc' : Acc} {v v' : List Char}
    (h : parseLayout l acc v = parseLayout l' acc' v') : run l acc v = run l' acc' v' := by
  unfold run; rw [h]

theorem run_none {l : Layout} {acc : Acc} {v : List Char} (h : parseLayout l acc v = none) : run l acc v = none := by
  unfold run; rw [h]

theorem run_inv {l : Layout} {acc : Acc} {v : List Char} {t : GoTime} (h : run l acc v = some t) :
    ∃ a, parseLayout l acc v = some a ∧ finishParse a = some t := by
  unfold run at h
  split at h
  · cases h
  · rename_i a ha; exact ⟨a, ha, h⟩

theorem run_of {l : Layout} {acc a : Acc} {v : List Char} (h : parseLayout l acc v = some a) :
    run l acc v = finishParse a := by
  unfold run; rw [h]

def baseAcc (y m d : Nat) : Acc := { year := y, month := m, day := d }
def clockAcc (y m d h mi sec ns : Nat) : Acc :=
  { year := y, month := m, day := d, hour := h, min := mi, sec := sec, nsec := ns }

def wall (y m d h mi sec : Nat) : Int := daysFromCivil y m d * 86400 + h * 3600 + mi * 60 + sec

/-- the day exists in that month -/
def ValidDay (y m d : Nat) : Prop := 1 ≤ d ∧ (d : Int) ≤ daysIn m y

theorem finish_plain (y m d h mi sec ns : Nat) (t : GoTime) (hm1 : 1 ≤ m) (hm2 : m ≤ 12) (hh : h < 24) (hmi : mi < 60)
    (hs : sec < 60) (hns : ns < 1000000000) :
    finishParse (clockAcc y m d h mi sec ns) = some t ↔ ValidDay y m d ∧ t = ⟨wall y m d h mi sec, ns, 0⟩ := by
  rw [finishParse_iff _ _ hm1 hm2 hh hmi hs hns]
  simp [clockAcc, wallOf, wall, clockSecs, ValidDay]

theorem finish_Z (y m d h mi sec ns : Nat) (t : GoTime) (hm1 : 1 ≤ m) (hm2 : m ≤ 12) (hh : h < 24) (hmi : mi < 60)
    (hs : sec < 60) (hns : ns < 1000000000) :
    finishParse { clockAcc y m d h mi sec ns with zUTC := true } = some t ↔
      ValidDay y m d ∧ t = ⟨wall y m d h mi sec, ns, 0⟩ := by
  rw [finishParse_iff _ _ hm1 hm2 hh hmi hs hns]
  simp [clockAcc, wallOf, wall, clockSecs, ValidDay]

theorem finish_off (y m d h mi sec ns : Nat) (o : Int) (ho : o ≠ -1) (t : GoTime) (hm1 : 1 ≤ m) (hm2 : m ≤ 12)
    (hh : h < 24) (hmi : mi < 60) (hs : sec < 60) (hns : ns < 1000000000) :
    finishParse { clockAcc y m d h mi sec ns with zoneOffset := o } = some t ↔
      ValidDay y m d ∧ t = ⟨wall y m d h mi sec - o, ns, o⟩ := by
  rw [finishParse_iff _ _ hm1 hm2 hh hmi hs hns]
  simp [clockAcc, wallOf, wall, clockSecs, ValidDay, ho]

theorem sgnVal_cases {sg : Char} (h : IsSign sg) : sgnVal sg = 1 ∨ sgnVal sg = -1 := by
  rcases h with h | h <;> subst h
  · left; decide
  · right; decide

theorem offShort_ne {o : Int} {s : List Char} (h : OffShort o s) : o ≠ -1 := by
  obtain ⟨sg, hh, h1, h2, h3, h4⟩ := h
  rcases sgnVal_cases h1 with e | e <;> rw [e] at h4 <;> omega

theorem offColon_ne {o : Int} {s : List Char} (h : OffColon o s) : o ≠ -1 := by
  obtain ⟨sg, hh, mm, h1, h2, h3, h4, h5⟩ := h
  rcases sgnVal_cases h1 with e | e <;> rw [e] at h5 <;> omega

/-- the zone text a layout ending in `Z07` / `Z07:00` reads -/
def ZonePre (st : TzStyle) (o : Int) (s : List Char) : Prop :=
  (s = ['Z'] ∧ o = 0) ∨ (st = .short ∧ OffShort o s) ∨ (st = .colon ∧ OffColon o s)

theorem zonePre_S {st : TzStyle} {o : Int} {s : List Char} (h : ZonePre st o s) : OffsetS Lax.all o s := by
  rw [offsetS_all]
  rcases h with h | ⟨_, h⟩ | ⟨_, h⟩
  · exact Or.inl h
  · exact Or.inr (Or.inl h)
  · exact Or.inr (Or.inr h)

/-- inversion: a clock at the end of the input -/
theorem run_clock_end_inv {y m d : Nat} (hm1 : 1 ≤ m) (hm2 : m ≤ 12) {v : List Char} {t : GoTime}
    (h : run (hmsL ++ []) (baseAcc y m d) v = some t) :
    ∃ hh mi sec ns, ClockS Lax.all hh mi sec ns v ∧ ValidDay y m d ∧ t = ⟨wall y m d hh mi sec, ns, 0⟩ := by
  obtain ⟨a, hp, hf⟩ := run_inv h
  obtain ⟨hh, mi, sec, ns, s, r, hc, ev, hp'⟩ := parse_hms_inv [] rfl (acc := baseAcc y m d) rfl hp
  obtain ⟨er, ea⟩ := parseLayout_nil_inv hp'
  subst er; subst ea
  obtain ⟨b1, b2, b3, b4⟩ := clockPre_lt hc
  have hf' : finishParse (clockAcc y m d hh mi sec ns) = some t := hf
  rw [finish_plain y m d hh mi sec ns t hm1 hm2 b1 b2 b3 b4] at hf'
  refine ⟨hh, mi, sec, ns, ?_, hf'.1, hf'.2⟩
  rw [ev, List.append_nil]; exact clockPre_S hc

theorem run_clock_end_fwd {L : Lax} {y m d : Nat} (hm1 : 1 ≤ m) (hm2 : m ≤ 12) (hv : ValidDay y m d)
    {hh mi sec ns : Nat} {v : List Char} (hc : ClockS L hh mi sec ns v) :
    run (hmsL ++ []) (baseAcc y m d) v = some ⟨wall y m d hh mi sec, ns, 0⟩ := by
  have hp := clockS_pre hc cleanRest_nil
  obtain ⟨b1, b2, b3, b4⟩ := clockPre_lt hp
  have e : parseLayout (hmsL ++ []) (baseAcc y m d) v = some (clockAcc y m d hh mi sec ns) := by
    have := parse_hms_fwd [] rfl (baseAcc y m d) rfl hp
    simp only [List.append_nil] at this ⊢
    rw [this]; rfl
  rw [run_of e, finish_plain y m d hh mi sec ns _ hm1 hm2 b1 b2 b3 b4]
  exact ⟨hv, rfl⟩

/-- inversion: a clock followed by a zone at the end of the input -/
theorem run_clock_zone_inv {st : TzStyle} (hst : st = .short ∨ st = .colon) {y m d : Nat} (hm1 : 1 ≤ m) (hm2 : m ≤ 12)
    {v : List Char} {t : GoTime} (h : run (hmsL ++ [.tz true st]) (baseAcc y m d) v = some t) :
    ∃ hh mi sec ns s1 s2 o, ClockS Lax.all hh mi sec ns s1 ∧ ZonePre st o s2 ∧ v = s1 ++ s2 ∧ ValidDay y m d ∧
      t = ⟨wall y m d hh mi sec - o, ns, o⟩ := by
  obtain ⟨a, hp, hf⟩ := run_inv h
  obtain ⟨hh, mi, sec, ns, s, r, hc, ev, hp'⟩ := parse_hms_inv [.tz true st] rfl (acc := baseAcc y m d) rfl hp
  obtain ⟨b1, b2, b3, b4⟩ := clockPre_lt hc
  obtain ⟨a1, v1, e1, hp''⟩ := parseLayout_cons_inv hp'
  obtain ⟨ev1, ea⟩ := parseLayout_nil_inv hp''
  subst ev1; subst ea
  rcases parseEl_tz_inv e1 with ⟨er, ea1⟩ | ⟨o, ho, ea1⟩
  · subst ea1
    have hf' : finishParse { clockAcc y m d hh mi sec ns with zUTC := true } = some t := hf
    rw [finish_Z y m d hh mi sec ns t hm1 hm2 b1 b2 b3 b4] at hf'
    refine ⟨hh, mi, sec, ns, s, r, 0, clockPre_S hc, Or.inl ⟨er, rfl⟩, ev, hf'.1, ?_⟩
    rw [hf'.2]; simp
  · subst ea1
    have hz : ZonePre st o r ∧ o ≠ -1 := by
      rcases hst with e | e <;> subst e
      · obtain ⟨s', hs', e'⟩ := (parseOffset_short_some _ _ _).1 ho
        rw [List.append_nil] at e'; subst e'
        exact ⟨Or.inr (Or.inl ⟨rfl, hs'⟩), offShort_ne hs'⟩
      · obtain ⟨s', hs', e'⟩ := (parseOffset_colon_some _ _ _).1 ho
        rw [List.append_nil] at e'; subst e'
        exact ⟨Or.inr (Or.inr ⟨rfl, hs'⟩), offColon_ne hs'⟩
    have hf' : finishParse { clockAcc y m d hh mi sec ns with zoneOffset := o } = some t := hf
    rw [finish_off y m d hh mi sec ns o hz.2 t hm1 hm2 b1 b2 b3 b4] at hf'
    exact ⟨hh, mi, sec, ns, s, r, o, clockPre_S hc, hz.1, ev, hf'.1, hf'.2⟩

/-- forward: the clock part in front of a clean rest -/
theorem run_clock_fwd {L : Lax} (K : Layout) (hK : notFrac (nextStd K)) {y m d : Nat} {hh mi sec ns : Nat}
    {s1 : List Char} (hc : ClockS L hh mi sec ns s1) (s2 : List Char) (hr : CleanRest s2) :
    run (hmsL ++ K) (baseAcc y m d) (s1 ++ s2) = run K (clockAcc y m d hh mi sec ns) s2 :=
  run_congr (parse_hms_fwd K hK (baseAcc y m d) rfl (clockS_pre hc hr))

theorem cleanRest_Z (r : List Char) : CleanRest ('Z' :: r) := by
  refine ⟨fun c' r' e => ?_, ?_⟩
  · cases e; decide
  · cases r with
    | nil => rfl
    | cons x xs => simp [hasFrac, commaOrPeriod]

theorem cleanRest_of_sign {sg : Char} (h : IsSign sg) (r : List Char) : CleanRest (sg :: r) :=
  cleanRest_sign sg h r

theorem offShort_clean {o : Int} {s : List Char} (h : OffShort o s) : CleanRest s := by
  obtain ⟨sg, hh, h1, _, h3, _⟩ := h; rw [h3]; exact cleanRest_of_sign h1 _

theorem offColon_clean {o : Int} {s : List Char} (h : OffColon o s) : CleanRest s := by
  obtain ⟨sg, hh, mm, h1, _, _, h3, _⟩ := h; rw [h3]; exact cleanRest_of_sign h1 _

/-- forward: the zone at the end of the input -/
theorem run_zone_Z (st : TzStyle) {y m d hh mi sec ns : Nat} (hm1 : 1 ≤ m) (hm2 : m ≤ 12) (hv : ValidDay y m d)
    (b1 : hh < 24) (b2 : mi < 60) (b3 : sec < 60) (b4 : ns < 1000000000) :
    run [.tz true st] (clockAcc y m d hh mi sec ns) ['Z'] = some ⟨wall y m d hh mi sec - 0, ns, 0⟩ := by
  have e : parseLayout [.tz true st] (clockAcc y m d hh mi sec ns) ['Z'] =
      some { clockAcc y m d hh mi sec ns with zUTC := true } := by
    rw [parseLayout_step (parseEl_tz_Z st _ _ [])]; rfl
  rw [run_of e, finish_Z y m d hh mi sec ns _ hm1 hm2 b1 b2 b3 b4]
  exact ⟨hv, by simp⟩

theorem run_zone_short {y m d hh mi sec ns : Nat} (hm1 : 1 ≤ m) (hm2 : m ≤ 12) (hv : ValidDay y m d)
    (b1 : hh < 24) (b2 : mi < 60) (b3 : sec < 60) (b4 : ns < 1000000000) {o : Int} {s : List Char} (ho : OffShort o s) :
    run [.tz true .short] (clockAcc y m d hh mi sec ns) s = some ⟨wall y m d hh mi sec - o, ns, o⟩ := by
  have hne := offShort_ne ho
  have hp : parseOffset .short s = some (o, []) := (parseOffset_short_some s [] o).2 ⟨s, ho, by simp⟩
  obtain ⟨sg, h', h1, _, h3, _⟩ := ho
  subst h3
  have e : parseLayout [.tz true .short] (clockAcc y m d hh mi sec ns) (sg :: d2 h') =
      some { clockAcc y m d hh mi sec ns with zoneOffset := o } := by
    rw [parseLayout_step (parseEl_tz_off .short _ _ sg h1 _ [] o hp)]; rfl
  rw [run_of e, finish_off y m d hh mi sec ns o hne _ hm1 hm2 b1 b2 b3 b4]
  exact ⟨hv, rfl⟩

theorem run_zone_colon {y m d hh mi sec ns : Nat} (hm1 : 1 ≤ m) (hm2 : m ≤ 12) (hv : ValidDay y m d)
    (b1 : hh < 24) (b2 : mi < 60) (b3 : sec < 60) (b4 : ns < 1000000000) {o : Int} {s : List Char} (ho : OffColon o s) :
    run [.tz true .colon] (clockAcc y m d hh mi sec ns) s = some ⟨wall y m d hh mi sec - o, ns, o⟩ := by
  have hne := offColon_ne ho
  have hp : parseOffset .colon s = some (o, []) := (parseOffset_colon_some s [] o).2 ⟨s, ho, by simp⟩
  obtain ⟨sg, h', m', h1, _, _, h3, _⟩ := ho
  subst h3
  have e : parseLayout [.tz true .colon] (clockAcc y m d hh mi sec ns) (sg :: (d2 h' ++ ':' :: d2 m')) =
      some { clockAcc y m d hh mi sec ns with zoneOffset := o } := by
    rw [parseLayout_step (parseEl_tz_off .colon _ _ sg h1 _ [] o hp)]; rfl
  rw [run_of e, finish_off y m d hh mi sec ns o hne _ hm1 hm2 b1 b2 b3 b4]
  exact ⟨hv, rfl⟩

/-- `Z07` reads `±HH` of `±HH:MM` and leaves `:MM` over -/
theorem run_zone_short_on_colon (acc : Acc) {o : Int} {s : List Char} (ho : OffColon o s) :
    run [.tz true .short] acc s = none := by
  obtain ⟨sg, h', m', h1, h2, _, h3, _⟩ := ho
  subst h3
  apply run_none
  have hp : parseOffset .short (sg :: (d2 h' ++ ':' :: d2 m')) =
      some (sgnVal sg * (((h' * 60 + 0) * 60 + 0 : Nat) : Int), ':' :: d2 m') :=
    (parseOffset_short_some _ _ _).2 ⟨sg :: d2 h', ⟨sg, h', h1, h2, rfl, rfl⟩, by simp⟩
  rw [parseLayout_step (parseEl_tz_off .short _ _ sg h1 _ _ _ hp)]
  rfl

theorem run_zone_nil (st : TzStyle) (acc : Acc) : run [.tz true st] acc [] = none :=
  run_none (parse_tz_on_nil true st acc)

/-! ### the date part and the separator, at the level of `run` -/

def dateStr (y m d : Nat) : List Char := d4 y ++ '-' :: (d2 m ++ '-' :: d2 d)

theorem dateStr_append (y m d : Nat) (r : List Char) :
    dateStr y m d ++ r = d4 y ++ '-' :: (d2 m ++ '-' :: (d2 d ++ r)) := by simp [dateStr]

theorem run_ymd_fwd (K : Layout) {y m d : Nat} (hy : y < 10000) (hm1 : 1 ≤ m) (hm2 : m ≤ 12) (hd : d < 100)
    (r : List Char) : run (ymdL ++ K) {} (dateStr y m d ++ r) = run K (baseAcc y m d) r := by
  rw [dateStr_append]
  exact run_congr (parse_ymd K {} y m d hy hm1 hm2 hd r)

theorem run_ymd_inv (K : Layout) {v : List Char} {t : GoTime} (h : run (ymdL ++ K) {} v = some t) :
    ∃ y m d r, y < 10000 ∧ 1 ≤ m ∧ m ≤ 12 ∧ d < 100 ∧ v = dateStr y m d ++ r ∧ run K (baseAcc y m d) r = some t := by
  obtain ⟨a, hp, hf⟩ := run_inv h
  obtain ⟨y, m, d, r, h1, h2, h3, h4, h5, h6⟩ := parse_ymd_inv K hp
  refine ⟨y, m, d, r, h1, h2, h3, h4, by rw [dateStr_append]; exact h5, ?_⟩
  have : parseLayout K (baseAcc y m d) r = some a := h6
  rw [run_of this]; exact hf

theorem validDay_lt {y m d : Nat} (h : ValidDay y m d) : d < 100 := by
  have : daysIn (m : Int) (y : Int) ≤ 31 := by unfold daysIn; split <;> (try split) <;> omega
  have := h.2; omega

/-- the separator text a layout with `T` / with a space reads -/
def SepPre (sep : Char) (sp : List Char) : Prop :=
  (sep = 'T' ∧ sp = ['T']) ∨ (sep = ' ' ∧ ∃ k, sp = List.replicate (k + 1) ' ')

theorem run_hms_nil (K : Layout) (acc : Acc) : run (hmsL ++ K) acc [] = none := by
  apply run_none; rw [hmsL_append]; apply parseLayout_fail; simp [parseEl, getnum]

theorem run_sep_inv {sep : Char} (hsep : sep = 'T' ∨ sep = ' ') (K : Layout) {acc : Acc} {v : List Char} {t : GoTime}
    (h : run (.lit sep :: (hmsL ++ K)) acc v = some t) :
    ∃ sp r, SepPre sep sp ∧ v = sp ++ r ∧ run (hmsL ++ K) acc r = some t := by
  obtain ⟨a, hp, hf⟩ := run_inv h
  obtain ⟨a1, v1, e1, hp'⟩ := parseLayout_cons_inv hp
  rcases hsep with e | e <;> subst e
  · obtain ⟨ev, ea⟩ := parseEl_lit_inv (by decide) e1
    subst ea
    exact ⟨['T'], v1, Or.inl ⟨rfl, rfl⟩, ev, by rw [run_of hp']; exact hf⟩
  · obtain ⟨ea, hv⟩ := parseEl_space_inv e1
    subst ea
    rcases hv with ⟨_, e2⟩ | ⟨k, e2, _⟩
    · subst e2
      have := run_hms_nil K a1
      rw [run_of hp'] at this
      rw [this] at hf; cases hf
    · exact ⟨_, v1, Or.inr ⟨rfl, k, rfl⟩, e2, by rw [run_of hp']; exact hf⟩

theorem run_sep_fwd {sep : Char} {sp : List Char} (h : SepPre sep sp) (K : Layout) (acc : Acc) (r : List Char)
    (hr : ∀ rest, r ≠ ' ' :: rest) : run (.lit sep :: K) acc (sp ++ r) = run K acc r := by
  rcases h with ⟨e1, e2⟩ | ⟨e1, k, e2⟩ <;> subst e1 <;> subst e2
  · exact run_congr (parseLayout_step (parseEl_lit 'T' (by decide) _ _ _))
  · exact run_congr (parseLayout_step (parseEl_space_fwd _ _ k r hr))

theorem run_sep_mismatch {sep sep' : Char} {sp : List Char} (h : SepPre sep' sp) (hne : sep ≠ sep')
    (hsep : sep = 'T' ∨ sep = ' ') (K : Layout) (acc : Acc) (r : List Char) :
    run (.lit sep :: K) acc (sp ++ r) = none := by
  apply run_none
  apply parseLayout_fail
  rcases h with ⟨e1, e2⟩ | ⟨e1, k, e2⟩ <;> subst e1 <;> subst e2
  · rcases hsep with e | e <;> subst e
    · exact absurd rfl hne
    · exact parseEl_space_ne 'T' (by decide) _ _ _
  · rcases hsep with e | e <;> subst e
    · simp only [List.replicate_succ, List.cons_append]
      exact parseEl_lit_ne 'T' ' ' (by decide) (by decide) _ _ _
    · exact absurd rfl hne

theorem sepPre_S {sep : Char} {sp : List Char} (h : SepPre sep sp) : SepS Lax.all sp := by
  rw [sepS_all]
  rcases h with ⟨_, e⟩ | ⟨_, k, e⟩
  · exact Or.inl e
  · exact Or.inr ⟨k, e⟩

theorem sepS_pre {L : Lax} {sp : List Char} (h : SepS L sp) : SepPre 'T' sp ∨ SepPre ' ' sp := by
  rcases h with e | e | ⟨_, k, e⟩
  · exact Or.inl (Or.inl ⟨rfl, e⟩)
  · exact Or.inr (Or.inr ⟨rfl, 0, e⟩)
  · exact Or.inr (Or.inr ⟨rfl, k + 1, e⟩)

theorem sepPre_ne_nil {sep : Char} {sp : List Char} (h : SepPre sep sp) : ∃ c rest, sp = c :: rest := by
  rcases h with ⟨_, e⟩ | ⟨_, k, e⟩
  · exact ⟨_, _, e⟩
  · exact ⟨' ', List.replicate k ' ', by rw [e, List.replicate_succ]⟩

/-! ### constructors on parsed values -/

theorem yearZero_days : daysFromCivil (0 : Nat) (1 : Nat) (1 : Nat) * 86400 = yearZero := by decide

theorem validDay_011 : ValidDay 0 1 1 := by unfold ValidDay; decide

theorem clock_range {h mi sec : Nat} (b1 : h < 24) (b2 : mi < 60) (b3 : sec < 60) :
    0 ≤ clockSecs h mi sec ∧ clockSecs h mi sec < 86400 := by unfold clockSecs; omega

theorem wall_011 (h mi sec : Nat) : wall 0 1 1 h mi sec = yearZero + clockSecs h mi sec := by
  unfold wall clockSecs; rw [yearZero_days]; omega

theorem wall_eq (y m d h mi sec : Nat) : wall y m d h mi sec = daysFromCivil y m d * 86400 + clockSecs h mi sec := by
  unfold wall clockSecs; omega

theorem newDate_val (D : Int) : newDate ⟨D * 86400, 0, 0⟩ = ⟨.date, D * 86400, 0, 0⟩ := by
  rw [newDate_eq]
  simp only [Int.add_zero, DateTime.mk.injEq, and_true, true_and]
  omega

theorem newTime_val (c : Int) (hc0 : 0 ≤ c) (hc1 : c < 86400) (ns : Nat) (hns : ns < 1000000000) :
    newTime ⟨yearZero + c, ns, 0⟩ = ⟨.time, yearZero + c, ns, 0⟩ := by
  rw [newTime_eq _ hns]
  simp only [Int.add_zero, DateTime.mk.injEq, and_true, true_and, yearZero]
  omega

theorem newTimeTZ_val (c o : Int) (hc0 : 0 ≤ c) (hc1 : c < 86400) (ns : Nat) (hns : ns < 1000000000) :
    newTimeTZ ⟨yearZero + c - o, ns, o⟩ = ⟨.timetz, yearZero + c - o, ns, o⟩ := by
  rw [newTimeTZ_eq _ hns]
  simp only [DateTime.mk.injEq, and_true, true_and, yearZero]
  omega

theorem newTimestamp_val (w : Int) (ns : Nat) (hns : ns < 1000000000) :
    newTimestamp ⟨w, ns, 0⟩ = ⟨.timestamp, w, ns, 0⟩ := by
  rw [newTimestamp_eq _ hns]; simp

theorem newTimestampTZ_val (w o : Int) (ns : Nat) (hns : ns < 1000000000) :
    newTimestampTZ ⟨w - o, ns, o⟩ = ⟨.timestamptz, w - o, ns, o⟩ := by
  rw [newTimestampTZ_eq _ hns]; rfl

theorem clockS_lt {L : Lax} {h mi sec ns : Nat} {s : List Char} (hc : ClockS L h mi sec ns s) :
    h < 24 ∧ mi < 60 ∧ sec < 60 ∧ ns < 1000000000 := clockPre_lt (clockS_pre hc cleanRest_nil)

theorem offsetS_cases {L : Lax} {o : Int} {s : List Char} (h : OffsetS L o s) :
    (s = ['Z'] ∧ o = 0) ∨ OffShort o s ∨ OffColon o s := by
  unfold OffsetS OffHour OffMin at h
  rcases h with h | ⟨sg, hh, h1, h2, h3, h4⟩ | ⟨sg, hh, mm, h1, h2, h3, h4, h5⟩
  · exact Or.inl h
  · refine Or.inr (Or.inl ⟨sg, hh, h1, by omega, h3, ?_⟩)
    rw [h4]; congr 1; omega
  · refine Or.inr (Or.inr ⟨sg, hh, mm, h1, by omega, by omega, h4, ?_⟩)
    rw [h5]; congr 1; omega

/-! ### clock + zone at the end of the input, forwards -/

section fwd
variable {L : Lax} {y m d hh mi sec ns : Nat} {s1 : List Char}

theorem clock_zone_Z (st : TzStyle) (hm1 : 1 ≤ m) (hm2 : m ≤ 12) (hv : ValidDay y m d)
    (hc : ClockS L hh mi sec ns s1) :
    run (hmsL ++ [.tz true st]) (baseAcc y m d) (s1 ++ ['Z']) = some ⟨wall y m d hh mi sec - 0, ns, 0⟩ := by
  obtain ⟨b1, b2, b3, b4⟩ := clockS_lt hc
  rw [run_clock_fwd [.tz true st] rfl hc ['Z'] (cleanRest_Z [])]
  exact run_zone_Z st hm1 hm2 hv b1 b2 b3 b4

theorem clock_zone_short (hm1 : 1 ≤ m) (hm2 : m ≤ 12) (hv : ValidDay y m d) (hc : ClockS L hh mi sec ns s1)
    {o : Int} {s2 : List Char} (ho : OffShort o s2) :
    run (hmsL ++ [.tz true .short]) (baseAcc y m d) (s1 ++ s2) = some ⟨wall y m d hh mi sec - o, ns, o⟩ := by
  obtain ⟨b1, b2, b3, b4⟩ := clockS_lt hc
  rw [run_clock_fwd [.tz true .short] rfl hc s2 (offShort_clean ho)]
  exact run_zone_short hm1 hm2 hv b1 b2 b3 b4 ho

theorem clock_zone_colon (hm1 : 1 ≤ m) (hm2 : m ≤ 12) (hv : ValidDay y m d) (hc : ClockS L hh mi sec ns s1)
    {o : Int} {s2 : List Char} (ho : OffColon o s2) :
    run (hmsL ++ [.tz true .colon]) (baseAcc y m d) (s1 ++ s2) = some ⟨wall y m d hh mi sec - o, ns, o⟩ := by
  obtain ⟨b1, b2, b3, b4⟩ := clockS_lt hc
  rw [run_clock_fwd [.tz true .colon] rfl hc s2 (offColon_clean ho)]
  exact run_zone_colon hm1 hm2 hv b1 b2 b3 b4 ho

theorem clock_zone_short_colon (hc : ClockS L hh mi sec ns s1) {o : Int} {s2 : List Char} (ho : OffColon o s2) :
    run (hmsL ++ [.tz true .short]) (baseAcc y m d) (s1 ++ s2) = none := by
  rw [run_clock_fwd [.tz true .short] rfl hc s2 (offColon_clean ho)]
  exact run_zone_short_on_colon _ ho

theorem clock_zone_nil (st : TzStyle) (hc : ClockS L hh mi sec ns s1) :
    run (hmsL ++ [.tz true st]) (baseAcc y m d) s1 = none := by
  have := run_clock_fwd (y := y) (m := m) (d := d) [.tz true st] rfl hc [] cleanRest_nil
  rw [List.append_nil] at this
  rw [this]; exact run_zone_nil st _

/-- the pair of layouts `…Z07`, `…Z07:00` tried in that order -/
def firstTZ (K1 K2 : Layout) (y m d : Nat) (v : List Char) : Option GoTime :=
  match run K1 (baseAcc y m d) v with
  | some t => some t
  | none => run K2 (baseAcc y m d) v

theorem firstTZ_fwd (hm1 : 1 ≤ m) (hm2 : m ≤ 12) (hv : ValidDay y m d) (hc : ClockS L hh mi sec ns s1)
    {o : Int} {s2 : List Char} (ho : OffsetS L o s2) :
    firstTZ (hmsL ++ [.tz true .short]) (hmsL ++ [.tz true .colon]) y m d (s1 ++ s2) =
      some ⟨wall y m d hh mi sec - o, ns, o⟩ := by
  unfold firstTZ
  rcases offsetS_cases ho with ⟨e1, e2⟩ | h | h
  · subst e1; subst e2; rw [clock_zone_Z .short hm1 hm2 hv hc]
  · rw [clock_zone_short hm1 hm2 hv hc h]
  · rw [clock_zone_short_colon hc h, clock_zone_colon hm1 hm2 hv hc h]

theorem firstTZ_nil (hc : ClockS L hh mi sec ns s1) :
    firstTZ (hmsL ++ [.tz true .short]) (hmsL ++ [.tz true .colon]) y m d s1 = none := by
  unfold firstTZ
  rw [clock_zone_nil .short hc, clock_zone_nil .colon hc]

end fwd

/-! ### the stages of `ParseTime` -/

theorem stage_date_inv {s : List Char} {t : GoTime} (h : goParse dateL s = some t) :
    ∃ y m d, DateS y m d s ∧ t = ⟨daysFromCivil y m d * 86400, 0, 0⟩ := by
  have h' : run (ymdL ++ []) {} s = some t := h
  obtain ⟨y, m, d, r, h1, h2, h3, h4, h5, h6⟩ := run_ymd_inv [] h'
  obtain ⟨a, hp, hf⟩ := run_inv h6
  obtain ⟨er, ea⟩ := parseLayout_nil_inv hp
  subst er; subst ea
  have hf' : finishParse (clockAcc y m d 0 0 0 0) = some t := hf
  rw [finish_plain y m d 0 0 0 0 t h2 h3 (by omega) (by omega) (by omega) (by omega)] at hf'
  refine ⟨y, m, d, ⟨h1, h2, h3, hf'.1.1, hf'.1.2, by rw [h5, List.append_nil]; rfl⟩, ?_⟩
  rw [hf'.2]; simp [wall]

theorem stage_date_fwd {y m d : Nat} {s : List Char} (h : DateS y m d s) :
    goParse dateL s = some ⟨daysFromCivil y m d * 86400, 0, 0⟩ := by
  obtain ⟨h1, h2, h3, h4, h5, h6⟩ := h
  have := goParse_date y m d h1 h2 h3 h4 h5
  rw [List.append_nil] at this
  rw [h6]; exact this

theorem stage_time_inv {s : List Char} {t : GoTime} (h : goParse timeL s = some t) :
    ∃ hh mi sec ns, ClockS Lax.all hh mi sec ns s ∧ t = ⟨yearZero + clockSecs hh mi sec, ns, 0⟩ := by
  have h' : run (hmsL ++ []) (baseAcc 0 1 1) s = some t := h
  obtain ⟨hh, mi, sec, ns, hc, _, ht⟩ := run_clock_end_inv (by decide) (by decide) h'
  exact ⟨hh, mi, sec, ns, hc, by rw [ht, wall_011]⟩

theorem stage_time_fwd {L : Lax} {hh mi sec ns : Nat} {s : List Char} (hc : ClockS L hh mi sec ns s) :
    goParse timeL s = some ⟨yearZero + clockSecs hh mi sec, ns, 0⟩ := by
  have := run_clock_end_fwd (y := 0) (m := 1) (d := 1) (by decide) (by decide) validDay_011 hc
  rw [wall_011] at this; exact this

theorem stage_timetz_inv {st : TzStyle} (hst : st = .short ∨ st = .colon) {s : List Char} {t : GoTime}
    (h : goParse (hmsL ++ [.tz true st]) s = some t) :
    ∃ hh mi sec ns s1 s2 o, ClockS Lax.all hh mi sec ns s1 ∧ ZonePre st o s2 ∧ s = s1 ++ s2 ∧
      t = ⟨yearZero + clockSecs hh mi sec - o, ns, o⟩ := by
  have h' : run (hmsL ++ [.tz true st]) (baseAcc 0 1 1) s = some t := h
  obtain ⟨hh, mi, sec, ns, s1, s2, o, hc, hz, e, _, ht⟩ := run_clock_zone_inv hst (by decide) (by decide) h'
  exact ⟨hh, mi, sec, ns, s1, s2, o, hc, hz, e, by rw [ht, wall_011]⟩

theorem firstParse_inv {ls : List Layout} {v : List Char} {t : GoTime} (h : firstParse ls v = some t) :
    ∃ l, l ∈ ls ∧ goParse l v = some t := by
  induction ls with
  | nil => cases h
  | cons l ls ih =>
    simp only [firstParse] at h
    cases hg : goParse l v with
    | some t' => rw [hg] at h; simp only [Option.some.injEq] at h; subst h; exact ⟨l, by simp, hg⟩
    | none => rw [hg] at h; obtain ⟨l', h1, h2⟩ := ih h; exact ⟨l', by simp [h1], h2⟩

theorem stage_timestamp_inv {sep : Char} (hsep : sep = 'T' ∨ sep = ' ') {s : List Char} {t : GoTime}
    (h : goParse (timestampL sep) s = some t) :
    ∃ y m d hh mi sec ns s1 sp s2, DateS y m d s1 ∧ SepPre sep sp ∧ ClockS Lax.all hh mi sec ns s2 ∧
      s = s1 ++ (sp ++ s2) ∧ t = ⟨wall y m d hh mi sec, ns, 0⟩ := by
  have h' : run (ymdL ++ (.lit sep :: (hmsL ++ []))) {} s = some t := h
  obtain ⟨y, m, d, r, h1, h2, h3, h4, h5, h6⟩ := run_ymd_inv _ h'
  obtain ⟨sp, r', hsp, e, h7⟩ := run_sep_inv hsep [] h6
  obtain ⟨hh, mi, sec, ns, hc, hv, ht⟩ := run_clock_end_inv h2 h3 h7
  exact ⟨y, m, d, hh, mi, sec, ns, dateStr y m d, sp, r', ⟨h1, h2, h3, hv.1, hv.2, rfl⟩, hsp, hc, by rw [h5, e], ht⟩

theorem stage_timestamptz_inv {sep : Char} (hsep : sep = 'T' ∨ sep = ' ') {st : TzStyle}
    (hst : st = .short ∨ st = .colon) {s : List Char} {t : GoTime}
    (h : goParse (timestampL sep ++ [.tz true st]) s = some t) :
    ∃ y m d hh mi sec ns s1 sp s2 s3 o, DateS y m d s1 ∧ SepPre sep sp ∧ ClockS Lax.all hh mi sec ns s2 ∧
      ZonePre st o s3 ∧ s = s1 ++ (sp ++ (s2 ++ s3)) ∧ t = ⟨wall y m d hh mi sec - o, ns, o⟩ := by
  have h' : run (ymdL ++ (.lit sep :: (hmsL ++ [.tz true st]))) {} s = some t := h
  obtain ⟨y, m, d, r, h1, h2, h3, h4, h5, h6⟩ := run_ymd_inv _ h'
  obtain ⟨sp, r', hsp, e, h7⟩ := run_sep_inv hsep _ h6
  obtain ⟨hh, mi, sec, ns, s2, s3, o, hc, hz, e', hv, ht⟩ := run_clock_zone_inv hst h2 h3 h7
  exact ⟨y, m, d, hh, mi, sec, ns, dateStr y m d, sp, s2, s3, o, ⟨h1, h2, h3, hv.1, hv.2, rfl⟩, hsp, hc, hz,
    by rw [h5, e, e'], ht⟩

/-- a timestamp layout on a date text followed by separator and more -/
theorem ts_match {sep : Char} {sp : List Char} (hsp : SepPre sep sp) (K : Layout) {y m d : Nat} {s1 : List Char}
    (hd : DateS y m d s1) (r : List Char) (hr : ∀ rest, r ≠ ' ' :: rest) :
    goParse (timestampL sep ++ K) (s1 ++ (sp ++ r)) = run (hmsL ++ K) (baseAcc y m d) r := by
  obtain ⟨h1, h2, h3, h4, h5, h6⟩ := hd
  have e : goParse (timestampL sep ++ K) (s1 ++ (sp ++ r)) =
      run (ymdL ++ (.lit sep :: (hmsL ++ K))) {} (dateStr y m d ++ (sp ++ r)) := by rw [h6]; rfl
  rw [e, run_ymd_fwd _ h1 h2 h3 (validDay_lt ⟨h4, h5⟩), run_sep_fwd hsp _ _ r hr]

theorem ts_mismatch {sep sep' : Char} {sp : List Char} (hsp : SepPre sep' sp) (hne : sep ≠ sep')
    (hsep : sep = 'T' ∨ sep = ' ') (K : Layout) {y m d : Nat} {s1 : List Char}
    (hd : DateS y m d s1) (r : List Char) :
    goParse (timestampL sep ++ K) (s1 ++ (sp ++ r)) = none := by
  obtain ⟨h1, h2, h3, h4, h5, h6⟩ := hd
  have e : goParse (timestampL sep ++ K) (s1 ++ (sp ++ r)) =
      run (ymdL ++ (.lit sep :: (hmsL ++ K))) {} (dateStr y m d ++ (sp ++ r)) := by rw [h6]; rfl
  rw [e, run_ymd_fwd _ h1 h2 h3 (validDay_lt ⟨h4, h5⟩), run_sep_mismatch hsp hne hsep]

/-- a date text followed by anything is not a clock -/
theorem hms_on_date (K : Layout) {y m d : Nat} {s1 : List Char} (hd : DateS y m d s1) (r : List Char) :
    goParse (hmsL ++ K) (s1 ++ r) = none := by
  obtain ⟨h1, _, _, _, _, h6⟩ := hd
  have e : s1 ++ r = d4 y ++ ('-' :: (d2 m ++ '-' :: d2 d) ++ r) := by rw [h6]; simp
  rw [goParse_eq_run, e]
  exact run_none (parse_hms_on_year K {} y h1 _)

/-- a date text followed by something is not a date -/
theorem date_on_longer {y m d : Nat} {s1 : List Char} (hd : DateS y m d s1) (c : Char) (r : List Char) :
    goParse dateL (s1 ++ c :: r) = none := by
  obtain ⟨h1, h2, h3, h4, h5, h6⟩ := hd
  have e : goParse dateL (s1 ++ c :: r) = run (ymdL ++ []) {} (dateStr y m d ++ c :: r) := by rw [h6]; rfl
  rw [e, run_ymd_fwd _ h1 h2 h3 (validDay_lt ⟨h4, h5⟩)]
  exact run_none rfl

/-- a clock text followed by anything is not a date (nor a timestamp) -/
theorem ymd_on_clock (K : Layout) {L : Lax} {hh mi sec ns : Nat} {s1 : List Char} (hc : ClockS L hh mi sec ns s1)
    (r : List Char) : goParse (ymdL ++ K) (s1 ++ r) = none := by
  obtain ⟨hs, tl, hp, e⟩ := clockPre_shape (clockS_pre hc cleanRest_nil)
  rw [goParse_eq_run, e]
  apply run_none
  have : hs ++ ':' :: tl ++ r = hs ++ ':' :: (tl ++ r) := by simp
  rw [this]
  exact parse_ymd_on_hour K {} hp _

theorem clockS_nospace {L : Lax} {hh mi sec ns : Nat} {s : List Char} (hc : ClockS L hh mi sec ns s) (x : List Char) :
    ∀ rest, s ++ x ≠ ' ' :: rest := clockPre_nospace (clockS_pre hc cleanRest_nil) x

theorem firstParse_timeTZ (s : List Char) :
    firstParse timeTZLayouts s = firstTZ (hmsL ++ [.tz true .short]) (hmsL ++ [.tz true .colon]) 0 1 1 s := by
  have e1 : goParse timeTZHourL s = run (hmsL ++ [.tz true .short]) (baseAcc 0 1 1) s := rfl
  have e2 : goParse timeTZMinL s = run (hmsL ++ [.tz true .colon]) (baseAcc 0 1 1) s := rfl
  simp only [timeTZLayouts, firstParse, firstTZ, e1, e2]
  cases run (hmsL ++ [.tz true .short]) (baseAcc 0 1 1) s <;>
    cases run (hmsL ++ [.tz true .colon]) (baseAcc 0 1 1) s <;> rfl

theorem firstParse_tsTZ {sep : Char} {sp : List Char} (hsp : SepPre sep sp) (hsep : sep = 'T' ∨ sep = ' ')
    {y m d : Nat} {s1 : List Char} (hd : DateS y m d s1) (r : List Char) (hr : ∀ rest, r ≠ ' ' :: rest) :
    firstParse timestampTZLayouts (s1 ++ (sp ++ r)) =
      firstTZ (hmsL ++ [.tz true .short]) (hmsL ++ [.tz true .colon]) y m d r := by
  have a1 : ∀ c, goParse (timestampTZHourL c) (s1 ++ (sp ++ r)) =
      goParse (timestampL c ++ [.tz true .short]) (s1 ++ (sp ++ r)) := fun _ => rfl
  have a2 : ∀ c, goParse (timestampTZMinL c) (s1 ++ (sp ++ r)) =
      goParse (timestampL c ++ [.tz true .colon]) (s1 ++ (sp ++ r)) := fun _ => rfl
  simp only [timestampTZLayouts, firstParse, firstTZ, a1, a2]
  rcases hsep with e | e <;> subst e
  · rw [ts_match hsp _ hd r hr, ts_match hsp _ hd r hr,
      ts_mismatch hsp (by decide : ' ' ≠ 'T') (Or.inr rfl) _ hd r,
      ts_mismatch hsp (by decide : ' ' ≠ 'T') (Or.inr rfl) _ hd r]
    cases run (hmsL ++ [.tz true .short]) (baseAcc y m d) r <;>
      cases run (hmsL ++ [.tz true .colon]) (baseAcc y m d) r <;> rfl
  · rw [ts_match hsp _ hd r hr, ts_match hsp _ hd r hr,
      ts_mismatch hsp (by decide : 'T' ≠ ' ') (Or.inl rfl) _ hd r,
      ts_mismatch hsp (by decide : 'T' ≠ ' ') (Or.inl rfl) _ hd r]
    cases run (hmsL ++ [.tz true .short]) (baseAcc y m d) r <;>
      cases run (hmsL ++ [.tz true .colon]) (baseAcc y m d) r <;> rfl

theorem firstParse_ts {sep : Char} {sp : List Char} (hsp : SepPre sep sp) (hsep : sep = 'T' ∨ sep = ' ')
    {y m d : Nat} {s1 : List Char} (hd : DateS y m d s1) (r : List Char) (hr : ∀ rest, r ≠ ' ' :: rest) :
    firstParse timestampLayouts (s1 ++ (sp ++ r)) = run (hmsL ++ []) (baseAcc y m d) r := by
  have a1 : ∀ c, goParse (timestampL c) (s1 ++ (sp ++ r)) = goParse (timestampL c ++ []) (s1 ++ (sp ++ r)) :=
    fun _ => rfl
  simp only [timestampLayouts, firstParse, a1]
  rcases hsep with e | e <;> subst e
  · rw [ts_match hsp _ hd r hr, ts_mismatch hsp (by decide : ' ' ≠ 'T') (Or.inr rfl) _ hd r]
    cases run (hmsL ++ []) (baseAcc y m d) r <;> rfl
  · rw [ts_match hsp _ hd r hr, ts_mismatch hsp (by decide : 'T' ≠ ' ') (Or.inl rfl) _ hd r]
    cases run (hmsL ++ []) (baseAcc y m d) r <;> rfl

theorem firstParse_on_date (ls : List Layout) (hls : ∀ l ∈ ls, ∃ K, l = hmsL ++ K) {y m d : Nat} {s1 : List Char}
    (hd : DateS y m d s1) (r : List Char) : firstParse ls (s1 ++ r) = none := by
  induction ls with
  | nil => rfl
  | cons l ls ih =>
    obtain ⟨K, e⟩ := hls l (by simp)
    simp only [firstParse, e, hms_on_date K hd r]
    exact ih (fun l' hl' => hls l' (by simp [hl']))

theorem timeTZLayouts_hms : ∀ l ∈ timeTZLayouts, ∃ K, l = hmsL ++ K := by
  intro l hl
  simp [timeTZLayouts] at hl
  rcases hl with h | h <;> subst h
  · exact ⟨_, rfl⟩
  · exact ⟨_, rfl⟩

end Aux

open Aux

/-! ## Acceptance -/

/-- **every string of the grammar, with whatever leniencies, is accepted, as the most specific type,
    with the denoted value** -/
theorem form_parseTime {L : Lax} (env : Env) {s : List Char} {d : DateTime} (h : Form L s d) :
    parseTime env s (-1) = some d := by
  cases h with
  | date y m dd hd hv =>
    unfold parseTime
    rw [stage_date_fwd hd]
    simp only
    rw [hv, newDate_val]; rfl
  | time hh mi sec ns hc hv =>
    obtain ⟨b1, b2, b3, b4⟩ := clockS_lt hc
    obtain ⟨c0, c1⟩ := clock_range b1 b2 b3
    have e1 : goParse dateL s = none := by
      have := ymd_on_clock [] hc []; simp only [List.append_nil] at this; exact this
    have e2 : firstParse timeTZLayouts s = none := by rw [firstParse_timeTZ, firstTZ_nil hc]
    unfold parseTime
    rw [e1]; simp only
    rw [e2]; simp only
    rw [stage_time_fwd hc]; simp only
    rw [adjustPrecision_none, newTime_val _ c0 c1 ns b4, hv]; rfl
  | timetz hh mi sec ns o s1 s2 hc ho hs hv =>
    obtain ⟨b1, b2, b3, b4⟩ := clockS_lt hc
    obtain ⟨c0, c1⟩ := clock_range b1 b2 b3
    subst hs
    have e1 : goParse dateL (s1 ++ s2) = none := ymd_on_clock [] hc s2
    have e2 : firstParse timeTZLayouts (s1 ++ s2) = some ⟨yearZero + clockSecs hh mi sec - o, ns, o⟩ := by
      rw [firstParse_timeTZ, firstTZ_fwd (by decide) (by decide) validDay_011 hc ho, wall_011]
    unfold parseTime
    rw [e1]; simp only
    rw [e2]; simp only
    rw [adjustPrecision_none, newTimeTZ_val _ _ c0 c1 ns b4, hv]; rfl
  | timestamp y m dd hh mi sec ns s1 sp s2 hd hsp hc hs hv =>
    obtain ⟨b1, b2, b3, b4⟩ := clockS_lt hc
    subst hs
    have hv' : ValidDay y m dd := ⟨hd.2.2.2.1, hd.2.2.2.2.1⟩
    have hns := clockS_nospace hc []
    rw [List.append_nil] at hns
    have hsep : ∃ sep, (sep = 'T' ∨ sep = ' ') ∧ SepPre sep sp := by
      rcases sepS_pre hsp with h | h
      · exact ⟨'T', Or.inl rfl, h⟩
      · exact ⟨' ', Or.inr rfl, h⟩
    obtain ⟨sep, hsep, hsp'⟩ := hsep
    obtain ⟨c, rest, esp⟩ := sepPre_ne_nil hsp'
    have e1 : goParse dateL (s1 ++ (sp ++ s2)) = none := by
      rw [esp]; exact date_on_longer hd c (rest ++ s2)
    have e2 : firstParse timeTZLayouts (s1 ++ (sp ++ s2)) = none :=
      firstParse_on_date _ timeTZLayouts_hms hd _
    have e3 : goParse timeL (s1 ++ (sp ++ s2)) = none := hms_on_date [] hd _
    have e4 : firstParse timestampTZLayouts (s1 ++ (sp ++ s2)) = none := by
      rw [firstParse_tsTZ hsp' hsep hd s2 hns, firstTZ_nil hc]
    have e5 : firstParse timestampLayouts (s1 ++ (sp ++ s2)) = some ⟨wall y m dd hh mi sec, ns, 0⟩ := by
      rw [firstParse_ts hsp' hsep hd s2 hns, run_clock_end_fwd hd.2.1 hd.2.2.1 hv' hc]
    unfold parseTime
    rw [e1]; simp only
    rw [e2]; simp only
    rw [e3]; simp only
    rw [e4]; simp only
    rw [e5]; simp only
    rw [adjustPrecision_none, newTimestamp_val _ ns b4, hv, wall_eq]; rfl
  | timestamptz y m dd hh mi sec ns o s1 sp s2 s3 hd hsp hc ho hs hv =>
    obtain ⟨b1, b2, b3, b4⟩ := clockS_lt hc
    subst hs
    have hv' : ValidDay y m dd := ⟨hd.2.2.2.1, hd.2.2.2.2.1⟩
    have hns := clockS_nospace hc s3
    have hsep : ∃ sep, (sep = 'T' ∨ sep = ' ') ∧ SepPre sep sp := by
      rcases sepS_pre hsp with h | h
      · exact ⟨'T', Or.inl rfl, h⟩
      · exact ⟨' ', Or.inr rfl, h⟩
    obtain ⟨sep, hsep, hsp'⟩ := hsep
    obtain ⟨c, rest, esp⟩ := sepPre_ne_nil hsp'
    have e1 : goParse dateL (s1 ++ (sp ++ (s2 ++ s3))) = none := by
      rw [esp]; exact date_on_longer hd c (rest ++ (s2 ++ s3))
    have e2 : firstParse timeTZLayouts (s1 ++ (sp ++ (s2 ++ s3))) = none :=
      firstParse_on_date _ timeTZLayouts_hms hd _
    have e3 : goParse timeL (s1 ++ (sp ++ (s2 ++ s3))) = none := hms_on_date [] hd _
    have e4 : firstParse timestampTZLayouts (s1 ++ (sp ++ (s2 ++ s3))) = some ⟨wall y m dd hh mi sec - o, ns, o⟩ := by
      rw [firstParse_tsTZ hsp' hsep hd (s2 ++ s3) hns, firstTZ_fwd hd.2.1 hd.2.2.1 hv' hc ho]
    unfold parseTime
    rw [e1]; simp only
    rw [e2]; simp only
    rw [e3]; simp only
    rw [e4]; simp only
    rw [adjustPrecision_none, newTimestampTZ_val _ _ ns b4, hv, wall_eq]; rfl

/-- **the converse: whatever `ParseTime` accepts is a string of the lenient grammar, and the result is
    the denoted value** -/
theorem parseTime_form (env : Env) {s : List Char} {d : DateTime} (h : parseTime env s (-1) = some d) :
    Form Lax.all s d := by
  unfold parseTime at h
  cases h1 : goParse dateL s with
  | some t =>
    rw [h1] at h; simp only [Option.some.injEq] at h
    obtain ⟨y, m, dd, hd, ht⟩ := stage_date_inv h1
    exact Form.date y m dd hd (by rw [← h, ht, newDate_val]; rfl)
  | none =>
    rw [h1] at h; simp only at h
    cases h2 : firstParse timeTZLayouts s with
    | some t =>
      rw [h2] at h; simp only [Option.some.injEq] at h
      obtain ⟨l, hl, hg⟩ := firstParse_inv h2
      have hst : ∃ st, (st = TzStyle.short ∨ st = TzStyle.colon) ∧ l = hmsL ++ [.tz true st] := by
        simp [timeTZLayouts] at hl
        rcases hl with e | e
        · exact ⟨.short, Or.inl rfl, e⟩
        · exact ⟨.colon, Or.inr rfl, e⟩
      obtain ⟨st, hst, el⟩ := hst
      subst el
      obtain ⟨hh, mi, sec, ns, s1, s2, o, hc, hz, es, ht⟩ := stage_timetz_inv hst hg
      obtain ⟨b1, b2, b3, b4⟩ := clockS_lt hc
      obtain ⟨c0, c1⟩ := clock_range b1 b2 b3
      refine Form.timetz hh mi sec ns o s1 s2 hc (zonePre_S hz) es ?_
      rw [← h, ht, adjustPrecision_none, newTimeTZ_val _ _ c0 c1 ns b4]; rfl
    | none =>
      rw [h2] at h; simp only at h
      cases h3 : goParse timeL s with
      | some t =>
        rw [h3] at h; simp only [Option.some.injEq] at h
        obtain ⟨hh, mi, sec, ns, hc, ht⟩ := stage_time_inv h3
        obtain ⟨b1, b2, b3, b4⟩ := clockS_lt hc
        obtain ⟨c0, c1⟩ := clock_range b1 b2 b3
        refine Form.time hh mi sec ns hc ?_
        rw [← h, ht, adjustPrecision_none, newTime_val _ c0 c1 ns b4]; rfl
      | none =>
        rw [h3] at h; simp only at h
        cases h4 : firstParse timestampTZLayouts s with
        | some t =>
          rw [h4] at h; simp only [Option.some.injEq] at h
          obtain ⟨l, hl, hg⟩ := firstParse_inv h4
          have hst : ∃ sep st, (sep = 'T' ∨ sep = ' ') ∧ (st = TzStyle.short ∨ st = TzStyle.colon) ∧
              l = timestampL sep ++ [.tz true st] := by
            simp [timestampTZLayouts] at hl
            rcases hl with e | e | e | e
            · exact ⟨'T', .short, Or.inl rfl, Or.inl rfl, e⟩
            · exact ⟨' ', .short, Or.inr rfl, Or.inl rfl, e⟩
            · exact ⟨'T', .colon, Or.inl rfl, Or.inr rfl, e⟩
            · exact ⟨' ', .colon, Or.inr rfl, Or.inr rfl, e⟩
          obtain ⟨sep, st, hsep, hst, el⟩ := hst
          subst el
          obtain ⟨y, m, dd, hh, mi, sec, ns, s1, sp, s2, s3, o, hd, hsp, hc, hz, es, ht⟩ :=
            stage_timestamptz_inv hsep hst hg
          obtain ⟨b1, b2, b3, b4⟩ := clockS_lt hc
          refine Form.timestamptz y m dd hh mi sec ns o s1 sp s2 s3 hd (sepPre_S hsp) hc (zonePre_S hz) es ?_
          rw [← h, ht, adjustPrecision_none, newTimestampTZ_val _ _ ns b4, wall_eq]; rfl
        | none =>
          rw [h4] at h; simp only at h
          cases h5 : firstParse timestampLayouts s with
          | some t =>
            rw [h5] at h; simp only [Option.some.injEq] at h
            obtain ⟨l, hl, hg⟩ := firstParse_inv h5
            have hst : ∃ sep, (sep = 'T' ∨ sep = ' ') ∧ l = timestampL sep := by
              simp [timestampLayouts] at hl
              rcases hl with e | e
              · exact ⟨'T', Or.inl rfl, e⟩
              · exact ⟨' ', Or.inr rfl, e⟩
            obtain ⟨sep, hsep, el⟩ := hst
            subst el
            obtain ⟨y, m, dd, hh, mi, sec, ns, s1, sp, s2, hd, hsp, hc, es, ht⟩ := stage_timestamp_inv hsep hg
            obtain ⟨b1, b2, b3, b4⟩ := clockS_lt hc
            refine Form.timestamp y m dd hh mi sec ns s1 sp s2 hd (sepPre_S hsp) hc es ?_
            rw [← h, ht, adjustPrecision_none, newTimestamp_val _ ns b4, wall_eq]; rfl
          | none => rw [h5] at h; cases h

/-- **C17, acceptance, exactly**: `ParseTime(s)` succeeds with `d` iff `s` is a string of the
    grammar with all of `time.Parse`'s leniencies and `d` is the value it denotes -/
theorem parseTime_accepted_iff (env : Env) (s : List Char) (d : DateTime) :
    parseTime env s (-1) = some d ↔ AcceptedAs s d :=
  ⟨parseTime_form env, form_parseTime env⟩

/-- `ParseTime` is a function: a string denotes at most one value -/
theorem acceptedAs_unique {s : List Char} {d d' : DateTime} (h : AcceptedAs s d) (h' : AcceptedAs s d') : d = d' := by
  have e1 := form_parseTime default h
  have e2 := form_parseTime default h'
  rw [e1] at e2; exact Option.some.inj e2

/-! ## Documented ⊆ accepted -/

/-- `L'` allows every leniency `L` allows -/
def Lax.le (L L' : Lax) : Prop :=
  (L.shortHour = true → L'.shortHour = true) ∧ (L.comma = true → L'.comma = true) ∧
  (L.longFrac = true → L'.longFrac = true) ∧ (L.spaces = true → L'.spaces = true) ∧
  (L.wideOffset = true → L'.wideOffset = true)

theorem Lax.none_le (L : Lax) : Lax.none.le L := by
  unfold Lax.le Lax.none; simp

theorem Lax.le_all (L : Lax) : L.le Lax.all := by
  unfold Lax.le Lax.all; simp

theorem ClockS.mono {L L' : Lax} (hle : L.le L') {h mi sec ns : Nat} {s : List Char} (hc : ClockS L h mi sec ns s) :
    ClockS L' h mi sec ns s := by
  obtain ⟨hs, fs, ⟨h24, hh⟩, h2, h3, hf, e⟩ := hc
  refine ⟨hs, fs, ⟨h24, ?_⟩, h2, h3, ?_, e⟩
  · rcases hh with hh | ⟨a, b, c⟩
    · exact Or.inl hh
    · exact Or.inr ⟨hle.1 a, b, c⟩
  · rcases hf with hf | ⟨c, ds, hc, hne, hd, hl, e1, e2⟩
    · exact Or.inl hf
    · refine Or.inr ⟨c, ds, ?_, hne, hd, ?_, e1, e2⟩
      · rcases hc with hc | ⟨a, b⟩
        · exact Or.inl hc
        · exact Or.inr ⟨hle.2.1 a, b⟩
      · rcases hl with hl | hl
        · exact Or.inl hl
        · exact Or.inr (hle.2.2.1 hl)

theorem OffsetS.mono {L L' : Lax} (hle : L.le L') {o : Int} {s : List Char} (ho : OffsetS L o s) : OffsetS L' o s := by
  have hH : ∀ hh, OffHour L hh → OffHour L' hh := by
    intro hh h; rcases h with h | ⟨a, b⟩
    · exact Or.inl h
    · exact Or.inr ⟨hle.2.2.2.2 a, b⟩
  have hM : ∀ mm, OffMin L mm → OffMin L' mm := by
    intro mm h; rcases h with h | ⟨a, b⟩
    · exact Or.inl h
    · exact Or.inr ⟨hle.2.2.2.2 a, b⟩
  rcases ho with h | ⟨sg, hh, h1, h2, h3, h4⟩ | ⟨sg, hh, mm, h1, h2, h3, h4, h5⟩
  · exact Or.inl h
  · exact Or.inr (Or.inl ⟨sg, hh, h1, hH _ h2, h3, h4⟩)
  · exact Or.inr (Or.inr ⟨sg, hh, mm, h1, hH _ h2, hM _ h3, h4, h5⟩)

theorem SepS.mono {L L' : Lax} (hle : L.le L') {s : List Char} (h : SepS L s) : SepS L' s := by
  rcases h with h | h | ⟨a, b⟩
  · exact Or.inl h
  · exact Or.inr (Or.inl h)
  · exact Or.inr (Or.inr ⟨hle.2.2.2.1 a, b⟩)

theorem Form.mono {L L' : Lax} (hle : L.le L') {s : List Char} {d : DateTime} (h : Form L s d) : Form L' s d := by
  cases h with
  | date y m dd hd hv => exact .date y m dd hd hv
  | time hh mi sec ns hc hv => exact .time hh mi sec ns (hc.mono hle) hv
  | timetz hh mi sec ns o s1 s2 hc ho hs hv => exact .timetz hh mi sec ns o s1 s2 (hc.mono hle) (ho.mono hle) hs hv
  | timestamp y m dd hh mi sec ns s1 sp s2 hd hsp hc hs hv =>
    exact .timestamp y m dd hh mi sec ns s1 sp s2 hd (hsp.mono hle) (hc.mono hle) hs hv
  | timestamptz y m dd hh mi sec ns o s1 sp s2 s3 hd hsp hc ho hs hv =>
    exact .timestamptz y m dd hh mi sec ns o s1 sp s2 s3 hd (hsp.mono hle) (hc.mono hle) (ho.mono hle) hs hv

/-- every documented form is an accepted form, with the same value -/
theorem documented_accepted {s : List Char} {d : DateTime} (h : Documented s d) : AcceptedAs s d :=
  Form.mono (Lax.none_le _) h

/-- **C17, acceptance**: every string of a documented form is accepted and `ParseTime` returns the
    value it denotes -/
theorem parseTime_accepts (env : Env) {s : List Char} {d : DateTime} (h : Documented s d) :
    parseTime env s (-1) = some d := form_parseTime env h

/-! ### … as the most specific type -/

theorem accepts_date (env : Env) {s : List Char} (h : IsoDate s) :
    ∃ d, parseTime env s (-1) = some d ∧ d.kind = .date ∧ Documented s d := by
  obtain ⟨y, m, dd, hd⟩ := h
  exact ⟨_, form_parseTime env (L := Lax.none) (.date y m dd hd rfl), rfl, .date y m dd hd rfl⟩

theorem accepts_time (env : Env) {s : List Char} (h : IsoTime s) :
    ∃ d, parseTime env s (-1) = some d ∧ d.kind = .time ∧ Documented s d := by
  obtain ⟨hh, mi, sec, ns, hc⟩ := h
  exact ⟨_, form_parseTime env (.time hh mi sec ns hc rfl), rfl, .time hh mi sec ns hc rfl⟩

theorem accepts_timetz (env : Env) {s : List Char} (h : IsoTimeTZ s) :
    ∃ d, parseTime env s (-1) = some d ∧ d.kind = .timetz ∧ Documented s d := by
  obtain ⟨s1, s2, ⟨hh, mi, sec, ns, hc⟩, ⟨o, ho⟩, e⟩ := h
  exact ⟨_, form_parseTime env (.timetz hh mi sec ns o s1 s2 hc ho e rfl), rfl, .timetz hh mi sec ns o s1 s2 hc ho e rfl⟩

theorem accepts_timestamp (env : Env) {s : List Char} (h : IsoTimestamp s) :
    ∃ d, parseTime env s (-1) = some d ∧ d.kind = .timestamp ∧ Documented s d := by
  obtain ⟨s1, sp, s2, ⟨y, m, dd, hd⟩, hsp, ⟨hh, mi, sec, ns, hc⟩, e⟩ := h
  have hsp' : SepS Lax.none sp := by
    rcases hsp with h | h
    · exact Or.inl h
    · exact Or.inr (Or.inl h)
  exact ⟨_, form_parseTime env (.timestamp y m dd hh mi sec ns s1 sp s2 hd hsp' hc e rfl), rfl,
    .timestamp y m dd hh mi sec ns s1 sp s2 hd hsp' hc e rfl⟩

theorem accepts_timestamptz (env : Env) {s : List Char} (h : IsoTimestampTZ s) :
    ∃ d, parseTime env s (-1) = some d ∧ d.kind = .timestamptz ∧ Documented s d := by
  obtain ⟨s1, sp, s2, s3, ⟨y, m, dd, hd⟩, hsp, ⟨hh, mi, sec, ns, hc⟩, ⟨o, ho⟩, e⟩ := h
  have hsp' : SepS Lax.none sp := by
    rcases hsp with h | h
    · exact Or.inl h
    · exact Or.inr (Or.inl h)
  exact ⟨_, form_parseTime env (.timestamptz y m dd hh mi sec ns o s1 sp s2 s3 hd hsp' hc ho e rfl), rfl,
    .timestamptz y m dd hh mi sec ns o s1 sp s2 s3 hd hsp' hc ho e rfl⟩

/-- the documented forms are exactly the five `Iso…` classes -/
theorem documented_iff (s : List Char) :
    (∃ d, Documented s d) ↔ IsoDate s ∨ IsoTime s ∨ IsoTimeTZ s ∨ IsoTimestamp s ∨ IsoTimestampTZ s := by
  constructor
  · rintro ⟨d, h⟩
    cases h with
    | date y m dd hd hv => exact Or.inl ⟨y, m, dd, hd⟩
    | time hh mi sec ns hc hv => exact Or.inr (Or.inl ⟨hh, mi, sec, ns, hc⟩)
    | timetz hh mi sec ns o s1 s2 hc ho hs hv =>
      exact Or.inr (Or.inr (Or.inl ⟨s1, s2, ⟨hh, mi, sec, ns, hc⟩, ⟨o, ho⟩, hs⟩))
    | timestamp y m dd hh mi sec ns s1 sp s2 hd hsp hc hs hv =>
      refine Or.inr (Or.inr (Or.inr (Or.inl ⟨s1, sp, s2, ⟨y, m, dd, hd⟩, ?_, ⟨hh, mi, sec, ns, hc⟩, hs⟩)))
      rcases hsp with h | h | ⟨h, _⟩
      · exact Or.inl h
      · exact Or.inr h
      · cases h
    | timestamptz y m dd hh mi sec ns o s1 sp s2 s3 hd hsp hc ho hs hv =>
      refine Or.inr (Or.inr (Or.inr (Or.inr ⟨s1, sp, s2, s3, ⟨y, m, dd, hd⟩, ?_, ⟨hh, mi, sec, ns, hc⟩, ⟨o, ho⟩, hs⟩)))
      rcases hsp with h | h | ⟨h, _⟩
      · exact Or.inl h
      · exact Or.inr h
      · cases h
  · rintro (h | h | h | h | h)
    · obtain ⟨d, _, _, hd⟩ := accepts_date default h; exact ⟨d, hd⟩
    · obtain ⟨d, _, _, hd⟩ := accepts_time default h; exact ⟨d, hd⟩
    · obtain ⟨d, _, _, hd⟩ := accepts_timetz default h; exact ⟨d, hd⟩
    · obtain ⟨d, _, _, hd⟩ := accepts_timestamp default h; exact ⟨d, hd⟩
    · obtain ⟨d, _, _, hd⟩ := accepts_timestamptz default h; exact ⟨d, hd⟩

/-! ## The denoted values, as civil fields (`parse_value`) -/

namespace Aux

theorem civilOfUnix_wall (y m d h mi sec : Nat) (hm1 : 1 ≤ m) (hm2 : m ≤ 12) (hv : ValidDay y m d)
    (b1 : h < 24) (b2 : mi < 60) (b3 : sec < 60) :
    civilOfUnix (daysFromCivil y m d * 86400 + clockSecs h mi sec) = ⟨y, m, d, h, mi, sec⟩ := by
  have hc := civilFromDays_daysFromCivil y m d (by omega) (by omega) (by have := hv.1; omega) hv.2
  unfold civilOfUnix clockSecs
  simp only []
  generalize daysFromCivil (y : Int) (m : Int) (d : Int) = D at *
  have e1 : (D * 86400 + ((h : Int) * 3600 + mi * 60 + sec)) / 86400 = D := by omega
  have e2 : (D * 86400 + ((h : Int) * 3600 + mi * 60 + sec)) % 86400 = (h : Int) * 3600 + mi * 60 + sec := by omega
  rw [e1, e2, hc]
  simp only [Civil.mk.injEq, true_and]
  omega

theorem civilOfUnix_clock (h mi sec : Nat) (b1 : h < 24) (b2 : mi < 60) (b3 : sec < 60) :
    civilOfUnix (yearZero + clockSecs h mi sec) = ⟨0, 1, 1, h, mi, sec⟩ := by
  have := civilOfUnix_wall 0 1 1 h mi sec (by decide) (by decide) validDay_011 b1 b2 b3
  rw [yearZero_days] at this
  exact this

end Aux

/-- a date string denotes midnight UTC of that civil date -/
theorem parse_value_date {y m d : Nat} {s : List Char} (h : DateS y m d s) :
    civil (dateVal y m d) = ⟨y, m, d, 0, 0, 0⟩ ∧ (dateVal y m d).nsec = 0 ∧ (dateVal y m d).off = 0 := by
  refine ⟨?_, rfl, rfl⟩
  have := civilOfUnix_wall y m d 0 0 0 h.2.1 h.2.2.1 ⟨h.2.2.2.1, h.2.2.2.2.1⟩ (by decide) (by decide) (by decide)
  simp only [clockSecs, Int.natCast_zero, Int.zero_mul, Int.add_zero] at this
  simpa [civil, DateTime.t, GoTime.civil, dateVal] using this

/-- a time string denotes that clock reading on 0000-01-01, offset 0 -/
theorem parse_value_time {L : Lax} {h mi sec ns : Nat} {s : List Char} (hc : ClockS L h mi sec ns s) :
    civil (timeVal h mi sec ns) = ⟨0, 1, 1, h, mi, sec⟩ ∧ (timeVal h mi sec ns).nsec = ns ∧
      (timeVal h mi sec ns).off = 0 := by
  obtain ⟨b1, b2, b3, _⟩ := clockS_lt hc
  refine ⟨?_, rfl, rfl⟩
  have := civilOfUnix_clock h mi sec b1 b2 b3
  simpa [civil, DateTime.t, GoTime.civil, timeVal] using this

/-- a time-with-zone string denotes that clock reading **in its own offset** `o` -/
theorem parse_value_timetz {L : Lax} {h mi sec ns : Nat} {s : List Char} (hc : ClockS L h mi sec ns s) (o : Int) :
    civil (timeTZVal h mi sec ns o) = ⟨0, 1, 1, h, mi, sec⟩ ∧ (timeTZVal h mi sec ns o).nsec = ns ∧
      (timeTZVal h mi sec ns o).off = o := by
  obtain ⟨b1, b2, b3, _⟩ := clockS_lt hc
  refine ⟨?_, rfl, rfl⟩
  have := civilOfUnix_clock h mi sec b1 b2 b3
  have e : yearZero + clockSecs h mi sec - o + o = yearZero + clockSecs h mi sec := by omega
  simpa [civil, DateTime.t, GoTime.civil, timeTZVal, e] using this

theorem parse_value_timestamp {L : Lax} {y m d h mi sec ns : Nat} {s1 s2 : List Char} (hd : DateS y m d s1)
    (hc : ClockS L h mi sec ns s2) :
    civil (timestampVal y m d h mi sec ns) = ⟨y, m, d, h, mi, sec⟩ ∧ (timestampVal y m d h mi sec ns).nsec = ns ∧
      (timestampVal y m d h mi sec ns).off = 0 := by
  obtain ⟨b1, b2, b3, _⟩ := clockS_lt hc
  refine ⟨?_, rfl, rfl⟩
  have := civilOfUnix_wall y m d h mi sec hd.2.1 hd.2.2.1 ⟨hd.2.2.2.1, hd.2.2.2.2.1⟩ b1 b2 b3
  simpa [civil, DateTime.t, GoTime.civil, timestampVal] using this

theorem parse_value_timestamptz {L : Lax} {y m d h mi sec ns : Nat} {s1 s2 : List Char} (hd : DateS y m d s1)
    (hc : ClockS L h mi sec ns s2) (o : Int) :
    civil (timestampTZVal y m d h mi sec ns o) = ⟨y, m, d, h, mi, sec⟩ ∧
      (timestampTZVal y m d h mi sec ns o).nsec = ns ∧ (timestampTZVal y m d h mi sec ns o).off = o := by
  obtain ⟨b1, b2, b3, _⟩ := clockS_lt hc
  refine ⟨?_, rfl, rfl⟩
  have := civilOfUnix_wall y m d h mi sec hd.2.1 hd.2.2.1 ⟨hd.2.2.2.1, hd.2.2.2.2.1⟩ b1 b2 b3
  have e : daysFromCivil y m d * 86400 + clockSecs h mi sec - o + o = daysFromCivil y m d * 86400 + clockSecs h mi sec := by
    omega
  simpa [civil, DateTime.t, GoTime.civil, timestampTZVal, e] using this

/-- the fraction denotes the first nine digits, scaled: `.5` is 500 000 000 ns -/
example : nanosOfDigits "5".toList = 500000000 := by decide
example : nanosOfDigits "123456789".toList = 123456789 := by decide
example : nanosOfDigits "1234567891".toList = 123456789 := by decide

/-! ## Accepted but not documented: the leniencies of `time.Parse`, one by one -/

def Lax.onlyShortHour : Lax := { Lax.none with shortHour := true }
def Lax.onlyComma : Lax := { Lax.none with comma := true }
def Lax.onlyLongFrac : Lax := { Lax.none with longFrac := true }
def Lax.onlySpaces : Lax := { Lax.none with spaces := true }
def Lax.onlyWideOffset : Lax := { Lax.none with wideOffset := true }

namespace Aux

theorem ne_dc {c : Char} (hc : isDigit c = false) (n : Nat) (hn : n < 10) : c ≠ dc n :=
  fun e => dc_ne n hn c hc e.symm

theorem val_of_dc {c : Char} {n : Nat} (hn : n < 10) (e : c = dc n) : digitVal c = n := by
  rw [e]; exact digitVal_dc n hn

/-- a documented string is accepted with the documented value: so if `ParseTime` returns `D`, only
    `D` can be the documented value -/
theorem documented_val (env : Env) {s : List Char} {d D : DateTime} (h : Documented s d)
    (e : parseTime env s (-1) = some D) : d = D := by
  have := parseTime_accepts env h
  rw [e] at this; exact (Option.some.inj this).symm

end Aux

/-- a one-digit hour -/
theorem beyond_shortHour (env : Env) :
    parseTime env "1:02:03".toList (-1) = some ⟨.time, yearZero + 3723, 0, 0⟩ ∧
    Form Lax.onlyShortHour "1:02:03".toList ⟨.time, yearZero + 3723, 0, 0⟩ ∧
    ¬ ∃ d, Documented "1:02:03".toList d := by
  refine ⟨rfl, ?_, ?_⟩
  · exact .time 1 2 3 0 ⟨[dc 1], [], ⟨by decide, Or.inr ⟨rfl, by decide, rfl⟩⟩, by decide, by decide,
      Or.inl ⟨rfl, rfl⟩, by decide⟩ (by decide)
  · rintro ⟨d, h⟩
    have hd := documented_val env h (D := ⟨.time, yearZero + 3723, 0, 0⟩) rfl
    subst hd
    have es0 : "1:02:03".toList = ['1', ':', '0', '2', ':', '0', '3'] := by decide
    rw [es0] at h
    cases h with
    | date y m dd hd hv => simp [dateVal] at hv
    | time hh mi sec ns hc hv =>
      obtain ⟨hs, fs, ⟨h24, hh' | ⟨hf, _⟩⟩, _, _, _, es⟩ := hc
      · subst hh'
        simp only [d2, List.cons_append, List.nil_append, List.cons.injEq] at es
        exact ne_dc (by decide) _ (by omega) es.2.1
      · cases hf
    | timetz hh mi sec ns o s1 s2 hc ho hs hv => simp [timeTZVal] at hv
    | timestamp y m dd hh mi sec ns s1 sp s2 hd hsp hc hs hv => simp [timestampVal] at hv
    | timestamptz y m dd hh mi sec ns o s1 sp s2 s3 hd hsp hc ho hs hv => simp [timestampTZVal] at hv

/-- `,` as the decimal mark -/
theorem beyond_comma (env : Env) :
    parseTime env "12:00:00,5".toList (-1) = some ⟨.time, yearZero + 43200, 500000000, 0⟩ ∧
    Form Lax.onlyComma "12:00:00,5".toList ⟨.time, yearZero + 43200, 500000000, 0⟩ ∧
    ¬ ∃ d, Documented "12:00:00,5".toList d := by
  refine ⟨rfl, ?_, ?_⟩
  · exact .time 12 0 0 500000000 ⟨d2 12, [',', '5'], ⟨by decide, Or.inl rfl⟩, by decide, by decide,
      Or.inr ⟨',', ['5'], Or.inr ⟨rfl, rfl⟩, by simp, by unfold allDigits; decide, Or.inl (by decide), rfl, by decide⟩, by decide⟩
      (by decide)
  · rintro ⟨d, h⟩
    have hd := documented_val env h (D := ⟨.time, yearZero + 43200, 500000000, 0⟩) rfl
    subst hd
    have es0 : "12:00:00,5".toList = ['1', '2', ':', '0', '0', ':', '0', '0', ',', '5'] := by decide
    rw [es0] at h
    cases h with
    | date y m dd hd hv => simp [dateVal] at hv
    | time hh mi sec ns hc hv =>
      obtain ⟨hs, fs, ⟨h24, hh' | ⟨hf, _⟩⟩, _, _, hfr, es⟩ := hc
      · subst hh'
        rcases hfr with ⟨e1, _⟩ | ⟨c, ds, hc, _, _, _, e1, _⟩
        · subst e1
          simp [d2] at es
        · subst e1
          simp only [d2, List.cons_append, List.nil_append, List.cons.injEq] at es
          rcases hc with hc | ⟨hc, _⟩
          · subst hc; exact absurd es.2.2.2.2.2.2.2.2.1 (by decide)
          · cases hc
      · cases hf
    | timetz hh mi sec ns o s1 s2 hc ho hs hv => simp [timeTZVal] at hv
    | timestamp y m dd hh mi sec ns s1 sp s2 hd hsp hc hs hv => simp [timestampVal] at hv
    | timestamptz y m dd hh mi sec ns o s1 sp s2 s3 hd hsp hc ho hs hv => simp [timestampTZVal] at hv

/-- more than nine fraction digits: the tenth digit is dropped (not rounded) -/
theorem beyond_longFrac (env : Env) :
    parseTime env "12:00:00.1234567891".toList (-1) = some ⟨.time, yearZero + 43200, 123456789, 0⟩ ∧
    Form Lax.onlyLongFrac "12:00:00.1234567891".toList ⟨.time, yearZero + 43200, 123456789, 0⟩ ∧
    ¬ ∃ d, Documented "12:00:00.1234567891".toList d := by
  refine ⟨rfl, ?_, ?_⟩
  · exact .time 12 0 0 123456789 ⟨d2 12, ".1234567891".toList, ⟨by decide, Or.inl rfl⟩, by decide, by decide,
      Or.inr ⟨'.', "1234567891".toList, Or.inl rfl, by decide, by unfold allDigits; decide, Or.inr rfl, by decide, by decide⟩,
      by decide⟩ (by decide)
  · rintro ⟨d, h⟩
    have hd := documented_val env h (D := ⟨.time, yearZero + 43200, 123456789, 0⟩) rfl
    subst hd
    have es0 : "12:00:00.1234567891".toList =
        ['1', '2', ':', '0', '0', ':', '0', '0', '.', '1', '2', '3', '4', '5', '6', '7', '8', '9', '1'] := by decide
    rw [es0] at h
    cases h with
    | date y m dd hd hv => simp [dateVal] at hv
    | time hh mi sec ns hc hv =>
      obtain ⟨hs, fs, ⟨h24, hh' | ⟨hf, _⟩⟩, _, _, hfr, es⟩ := hc
      · subst hh'
        rcases hfr with ⟨e1, _⟩ | ⟨c, ds, _, _, _, hl, e1, _⟩
        · subst e1
          simp [d2] at es
        · subst e1
          simp only [d2, List.cons_append, List.nil_append, List.cons.injEq] at es
          have eds := es.2.2.2.2.2.2.2.2.2
          subst eds
          rcases hl with hl | hl
          · simp at hl
          · cases hl
      · cases hf
    | timetz hh mi sec ns o s1 s2 hc ho hs hv => simp [timeTZVal] at hv
    | timestamp y m dd hh mi sec ns s1 sp s2 hd hsp hc hs hv => simp [timestampVal] at hv
    | timestamptz y m dd hh mi sec ns o s1 sp s2 s3 hd hsp hc ho hs hv => simp [timestampTZVal] at hv

/-- a run of spaces between date and time -/
theorem beyond_spaces (env : Env) :
    parseTime env "2024-01-01  12:00:00".toList (-1) = some ⟨.timestamp, 1704110400, 0, 0⟩ ∧
    Form Lax.onlySpaces "2024-01-01  12:00:00".toList ⟨.timestamp, 1704110400, 0, 0⟩ ∧
    ¬ ∃ d, Documented "2024-01-01  12:00:00".toList d := by
  refine ⟨by rfl, ?_, ?_⟩
  · exact .timestamp 2024 1 1 12 0 0 0 "2024-01-01".toList [' ', ' '] "12:00:00".toList
      ⟨by decide, by decide, by decide, by decide, by decide, by decide⟩ (Or.inr (Or.inr ⟨rfl, 0, rfl⟩))
      ⟨d2 12, [], ⟨by decide, Or.inl rfl⟩, by decide, by decide, Or.inl ⟨rfl, rfl⟩, by decide⟩ (by decide) (by decide)
  · rintro ⟨d, h⟩
    have hd := documented_val env h (D := ⟨.timestamp, 1704110400, 0, 0⟩) (by rfl)
    subst hd
    have es0 : "2024-01-01  12:00:00".toList =
        ['2', '0', '2', '4', '-', '0', '1', '-', '0', '1', ' ', ' ', '1', '2', ':', '0', '0', ':', '0', '0'] := by decide
    rw [es0] at h
    cases h with
    | date y m dd hd hv => simp [dateVal] at hv
    | time hh mi sec ns hc hv => simp [timeVal] at hv
    | timetz hh mi sec ns o s1 s2 hc ho hs hv => simp [timeTZVal] at hv
    | timestamp y m dd hh mi sec ns s1 sp s2 hd hsp hc hs hv =>
      obtain ⟨_, _, _, _, _, e1⟩ := hd
      obtain ⟨hs', fs, ⟨h24, hh' | ⟨hf, _⟩⟩, _, _, _, e2⟩ := hc
      · subst e1; subst e2; subst hh'
        rcases hsp with e | e | ⟨hf, _⟩
        · subst e
          simp [d4, d2] at hs
        · subst e
          simp only [d4, d2, List.cons_append, List.nil_append, List.cons.injEq] at hs
          exact ne_dc (by decide) _ (by omega) hs.2.2.2.2.2.2.2.2.2.2.2.1
        · cases hf
      · cases hf
    | timestamptz y m dd hh mi sec ns o s1 sp s2 s3 hd hsp hc ho hs hv => simp [timestampTZVal] at hv

/-- offset hours `24`, offset minutes `60`: `+24:60` is 25 hours -/
theorem beyond_wideOffset (env : Env) :
    parseTime env "12:00:00+24:60".toList (-1) = some ⟨.timetz, yearZero + 43200 - 90000, 0, 90000⟩ ∧
    Form Lax.onlyWideOffset "12:00:00+24:60".toList ⟨.timetz, yearZero + 43200 - 90000, 0, 90000⟩ ∧
    ¬ ∃ d, Documented "12:00:00+24:60".toList d := by
  refine ⟨rfl, ?_, ?_⟩
  · exact .timetz 12 0 0 0 90000 "12:00:00".toList "+24:60".toList
      ⟨d2 12, [], ⟨by decide, Or.inl rfl⟩, by decide, by decide, Or.inl ⟨rfl, rfl⟩, by decide⟩
      (Or.inr (Or.inr ⟨'+', 24, 60, Or.inl rfl, Or.inr ⟨rfl, rfl⟩, Or.inr ⟨rfl, rfl⟩, by decide, by decide⟩))
      (by decide) (by decide)
  · rintro ⟨d, h⟩
    have hd := documented_val env h (D := ⟨.timetz, yearZero + 43200 - 90000, 0, 90000⟩) rfl
    subst hd
    have es0 : "12:00:00+24:60".toList =
        ['1', '2', ':', '0', '0', ':', '0', '0', '+', '2', '4', ':', '6', '0'] := by decide
    rw [es0] at h
    cases h with
    | date y m dd hd hv => simp [dateVal] at hv
    | time hh mi sec ns hc hv => simp [timeVal] at hv
    | timetz hh mi sec ns o s1 s2 hc ho hs hv =>
      obtain ⟨hs', fs, ⟨h24, hh' | ⟨hf, _⟩⟩, _, _, hfr, e2⟩ := hc
      · subst e2; subst hh'
        rcases hfr with ⟨e1, _⟩ | ⟨c, ds, hc, _, _, _, e1, _⟩
        · subst e1
          rcases ho with ⟨e, _⟩ | ⟨sg, h', _, _, e, _⟩ | ⟨sg, h', m', _, hH, _, e, _⟩
          · subst e; simp [d2] at hs
          · subst e; simp [d2] at hs
          · subst e
            simp only [d2, List.cons_append, List.nil_append, List.cons.injEq] at hs
            rcases hH with hH | ⟨hf, _⟩
            · have v1 := val_of_dc (by omega) hs.2.2.2.2.2.2.2.2.2.1
              have v2 := val_of_dc (by omega) hs.2.2.2.2.2.2.2.2.2.2.1
              have w1 : digitVal '2' = 2 := by decide
              have w2 : digitVal '4' = 4 := by decide
              omega
            · cases hf
        · subst e1
          simp only [d2, List.cons_append, List.nil_append, List.cons.injEq] at hs
          rcases hc with hc | ⟨hf, _⟩
          · subst hc; exact absurd hs.2.2.2.2.2.2.2.2.1 (by decide)
          · cases hf
      · cases hf
    | timestamp y m dd hh mi sec ns s1 sp s2 hd hsp hc hs hv => simp [timestampVal] at hv
    | timestamptz y m dd hh mi sec ns o s1 sp s2 s3 hd hsp hc ho hs hv => simp [timestampTZVal] at hv

/-- **accepted ≠ documented**: `time.Parse` (hence `ParseTime`, hence `.datetime()` and the typed
    methods) accepts strings that no documented form describes.  Each of the five leniencies of the
    exact grammar (`Lax`) is witnessed by a string that needs that leniency alone. -/
theorem accepted_beyond_documented (env : Env) :
    (∃ s d, parseTime env s (-1) = some d ∧ Form Lax.onlyShortHour s d ∧ ¬ ∃ d', Documented s d') ∧
    (∃ s d, parseTime env s (-1) = some d ∧ Form Lax.onlyComma s d ∧ ¬ ∃ d', Documented s d') ∧
    (∃ s d, parseTime env s (-1) = some d ∧ Form Lax.onlyLongFrac s d ∧ ¬ ∃ d', Documented s d') ∧
    (∃ s d, parseTime env s (-1) = some d ∧ Form Lax.onlySpaces s d ∧ ¬ ∃ d', Documented s d') ∧
    (∃ s d, parseTime env s (-1) = some d ∧ Form Lax.onlyWideOffset s d ∧ ¬ ∃ d', Documented s d') :=
  ⟨⟨_, _, beyond_shortHour env⟩, ⟨_, _, beyond_comma env⟩, ⟨_, _, beyond_longFrac env⟩, ⟨_, _, beyond_spaces env⟩,
    ⟨_, _, beyond_wideOffset env⟩⟩

/-- the accepted set is strictly larger than the documented set -/
theorem documented_ne_accepted : ¬ ∀ s, Accepted s → ∃ d, Documented s d := by
  intro h
  obtain ⟨_, _, hn⟩ := beyond_shortHour default
  exact hn (h _ ⟨_, Form.mono (Lax.le_all _) (beyond_shortHour default).2.1⟩)

/-! ## Acceptance does not depend on the precision; the executor -/

theorem parseTime_isSome_iff (env : Env) (s : List Char) : (parseTime env s (-1)).isSome = true ↔ Accepted s := by
  constructor
  · intro h
    cases hp : parseTime env s (-1) with
    | none => rw [hp] at h; cases h
    | some d => exact ⟨d, parseTime_form env hp⟩
  · rintro ⟨d, h⟩; rw [form_parseTime env h]; rfl

/-- what a precision argument does to the value parsed without one: dates are left alone, the other
    types are rebuilt from the rounded instant -/
def reround (p : Int) (d : DateTime) : DateTime :=
  match d.kind with
  | .date => d
  | .time => newTime (adjustPrecision d.t p)
  | .timetz => newTimeTZ (adjustPrecision d.t p)
  | .timestamp => newTimestamp (adjustPrecision d.t p)
  | .timestamptz => newTimestampTZ (adjustPrecision d.t p)

/-- **the precision argument changes neither the accepted set nor the type**: `ParseTime(s, p)` is
    `ParseTime(s, -1)` with the instant rounded (`adjustPrecision_spec`) -/
theorem parseTime_precision (env : Env) (s : List Char) (p : Int) :
    parseTime env s p = (parseTime env s (-1)).map (reround p) := by
  unfold parseTime
  cases h1 : goParse dateL s with
  | some t =>
    simp only [Option.map_some]
    rw [newDate_eq]; rfl
  | none =>
    simp only
    cases h2 : firstParse timeTZLayouts s with
    | some t =>
      simp only [Option.map_some, adjustPrecision_none]
      obtain ⟨l, hl, hg⟩ := firstParse_inv h2
      obtain ⟨K, e⟩ := timeTZLayouts_hms l hl
      have hst : ∃ st, (st = TzStyle.short ∨ st = TzStyle.colon) ∧ l = hmsL ++ [.tz true st] := by
        simp [timeTZLayouts] at hl
        rcases hl with e | e
        · exact ⟨.short, Or.inl rfl, e⟩
        · exact ⟨.colon, Or.inr rfl, e⟩
      obtain ⟨st, hst, el⟩ := hst
      subst el
      obtain ⟨hh, mi, sec, ns, s1, s2, o, hc, hz, es, ht⟩ := stage_timetz_inv hst hg
      obtain ⟨b1, b2, b3, b4⟩ := clockS_lt hc
      obtain ⟨c0, c1⟩ := clock_range b1 b2 b3
      rw [ht, newTimeTZ_val _ _ c0 c1 ns b4]; rfl
    | none =>
      simp only
      cases h3 : goParse timeL s with
      | some t =>
        simp only [Option.map_some, adjustPrecision_none]
        obtain ⟨hh, mi, sec, ns, hc, ht⟩ := stage_time_inv h3
        obtain ⟨b1, b2, b3, b4⟩ := clockS_lt hc
        obtain ⟨c0, c1⟩ := clock_range b1 b2 b3
        rw [ht, newTime_val _ c0 c1 ns b4]; rfl
      | none =>
        simp only
        cases h4 : firstParse timestampTZLayouts s with
        | some t =>
          simp only [Option.map_some, adjustPrecision_none]
          obtain ⟨l, hl, hg⟩ := firstParse_inv h4
          have hst : ∃ sep st, (sep = 'T' ∨ sep = ' ') ∧ (st = TzStyle.short ∨ st = TzStyle.colon) ∧
              l = timestampL sep ++ [.tz true st] := by
            simp [timestampTZLayouts] at hl
            rcases hl with e | e | e | e
            · exact ⟨'T', .short, Or.inl rfl, Or.inl rfl, e⟩
            · exact ⟨' ', .short, Or.inr rfl, Or.inl rfl, e⟩
            · exact ⟨'T', .colon, Or.inl rfl, Or.inr rfl, e⟩
            · exact ⟨' ', .colon, Or.inr rfl, Or.inr rfl, e⟩
          obtain ⟨sep, st, hsep, hst, el⟩ := hst
          subst el
          obtain ⟨y, m, dd, hh, mi, sec, ns, s1, sp, s2, s3, o, hd, hsp, hc, hz, es, ht⟩ :=
            stage_timestamptz_inv hsep hst hg
          obtain ⟨b1, b2, b3, b4⟩ := clockS_lt hc
          rw [ht, newTimestampTZ_val _ _ ns b4]; rfl
        | none =>
          simp only
          cases h5 : firstParse timestampLayouts s with
          | some t =>
            simp only [Option.map_some, adjustPrecision_none]
            obtain ⟨l, hl, hg⟩ := firstParse_inv h5
            have hst : ∃ sep, (sep = 'T' ∨ sep = ' ') ∧ l = timestampL sep := by
              simp [timestampLayouts] at hl
              rcases hl with e | e
              · exact ⟨'T', Or.inl rfl, e⟩
              · exact ⟨' ', Or.inr rfl, e⟩
            obtain ⟨sep, hsep, el⟩ := hst
            subst el
            obtain ⟨y, m, dd, hh, mi, sec, ns, s1, sp, s2, hd, hsp, hc, es, ht⟩ := stage_timestamp_inv hsep hg
            obtain ⟨b1, b2, b3, b4⟩ := clockS_lt hc
            rw [ht, newTimestamp_val _ ns b4]; rfl
          | none => rfl

/-- … so with any precision the accepted strings are the same: `Form Lax.all` -/
theorem parseTime_precision_accepted_iff (env : Env) (s : List Char) (p : Int) (d' : DateTime) :
    parseTime env s p = some d' ↔ ∃ d, AcceptedAs s d ∧ d' = reround p d := by
  rw [parseTime_precision]
  constructor
  · intro h
    cases hp : parseTime env s (-1) with
    | none => rw [hp] at h; cases h
    | some d =>
      rw [hp] at h; simp only [Option.map_some, Option.some.injEq] at h
      exact ⟨d, parseTime_form env hp, h.symm⟩
  · rintro ⟨d, h, e⟩; rw [form_parseTime env h, e]; rfl

/-- the executor without a precision argument (`.datetime()`, `.date()`, `.time()` …): the string
    is parsed iff it is an accepted form; the error is the suppressible one otherwise -/
theorem exec_parse_iff (c : Exec.Ctx) (op : UnOp) (src : List Char) (d : DateTime) :
    Exec.parseDateTime c op src none = .ok d ↔ AcceptedAs src d := by
  rw [← parseTime_accepted_iff c.env]
  simp only [Exec.parseDateTime]
  cases parseTime c.env src (-1) with
  | none => simp
  | some d' => simp

theorem exec_parse_documented (c : Exec.Ctx) (op : UnOp) {src : List Char} {d : DateTime} (h : Documented src d) :
    Exec.parseDateTime c op src none = .ok d := (exec_parse_iff c op src d).2 (documented_accepted h)

theorem exec_parse_rejects (c : Exec.Ctx) (op : UnOp) (src : List Char) (h : ¬ Accepted src) :
    Exec.parseDateTime c op src none = .error .verbose := by
  simp only [Exec.parseDateTime]
  cases hp : parseTime c.env src (-1) with
  | none => rfl
  | some d' => exact absurd ⟨d', parseTime_form c.env hp⟩ h

/-! ## Rejected near-misses (consequences of the exact characterisation, by evaluation) -/

example (env : Env) : parseTime env "24:00:00".toList (-1) = none := by rfl          -- hour 24
example (env : Env) : parseTime env "12:00:60".toList (-1) = none := by rfl          -- leap second
example (env : Env) : parseTime env "12:00:00.".toList (-1) = none := by rfl         -- empty fraction
example (env : Env) : parseTime env "12:00".toList (-1) = none := by rfl             -- no seconds
example (env : Env) : parseTime env "12:0:00".toList (-1) = none := by rfl           -- one-digit minute
example (env : Env) : parseTime env "2024-1-01".toList (-1) = none := by rfl         -- one-digit month
example (env : Env) : parseTime env "2023-02-29".toList (-1) = none := by rfl        -- not a leap year
example (env : Env) : parseTime env "2024-02-29".toList (-1) = some (dateVal 2024 2 29) := by rfl
example (env : Env) : parseTime env "12:00:00+0530".toList (-1) = none := by rfl     -- offset without colon
example (env : Env) : parseTime env "12:00:00+25".toList (-1) = none := by rfl       -- offset hour 25
example (env : Env) : parseTime env "12:00:00 +05".toList (-1) = none := by rfl      -- space before the offset
example (env : Env) : parseTime env "12:00:00z".toList (-1) = none := by rfl         -- lower-case z
example (env : Env) : parseTime env "2024-01-01t12:00:00".toList (-1) = none := by rfl
example (env : Env) : parseTime env "12:00:00Z".toList (-1) = some ⟨.timetz, yearZero + 43200, 0, 0⟩ := by rfl
example (env : Env) : parseTime env "12:00:00-05:30".toList (-1) = some ⟨.timetz, yearZero + 43200 + 19800, 0, -19800⟩ := by
  rfl


/-! # Part B — rounding to the given precision -/

namespace Aux

/-- Unix nanoseconds of an instant -/
def unixNanos (t : GoTime) : Int := t.sec * 1000000000 + t.nsec

/-- the rounding unit of precision `p`, in nanoseconds: `time.Second / Pow10(p)` -/
def unit (p : Int) : Nat := 10 ^ (9 - p.toNat)

/-- nanoseconds since midnight of a `time` value -/
def dayNanos (x : DateTime) : Int := (x.sec - yearZero) * 1000000000 + x.nsec

theorem absNanos_unix (t : GoTime) : t.absNanos = unixNanos t + 62135596800000000000 := by
  simp only [unixNanos, GoTime.absNanos, unixToInternal]; omega

theorem ofAbsNanos_unix (a off : Int) : unixNanos (GoTime.ofAbsNanos a off) = a - 62135596800000000000 := by
  simp only [unixNanos, GoTime.ofAbsNanos, unixToInternal]; omega

theorem ofAbsNanos_nsec (a off : Int) : ((GoTime.ofAbsNanos a off).nsec : Int) = a % 1000000000 := by
  simp only [GoTime.ofAbsNanos]; omega

theorem dvd_epoch (d : Int) (h : d ∣ 1000000000) : d ∣ 62135596800000000000 := by
  have : (62135596800000000000 : Int) = 1000000000 * 62135596800 := by decide
  rw [this]; exact Int.dvd_trans h (Int.dvd_mul_right _ _)

theorem add_emod_of_dvd (a k d : Int) (h : d ∣ k) : (a + k) % d = a % d := by
  obtain ⟨q, hq⟩ := h
  rw [hq, Int.mul_comm, Int.add_mul_emod_self_right]

theorem unit_dvd (p : Int) : ((unit p : Nat) : Int) ∣ 1000000000 := by
  have h : (10 : Nat) ^ (9 - p.toNat) ∣ 10 ^ 9 := Nat.pow_dvd_pow 10 (by omega)
  have : (1000000000 : Int) = ((10 ^ 9 : Nat) : Int) := by decide
  rw [this]; exact Int.natCast_dvd_natCast.2 h

theorem unit_pos (p : Int) : 0 < unit p := Nat.pow_pos (by decide)

end Aux

open Aux

/-- **`Time.Round(d)` in arithmetic form**, for a unit `d` that divides one second: the result is a
    multiple of `d` (both as an instant and in its nanosecond field), the zone offset is kept, and it
    is `N − N mod d` when the remainder is less than half the unit, `N − N mod d + d` otherwise
    (ties go **up**, towards the future — for instants before the zero time as well: Go's `div`
    computes the Euclidean remainder) -/
theorem round_spec (t : GoTime) (d : Nat) (hd : 0 < d) (hdvd : (d : Int) ∣ 1000000000) :
    (t.round d).off = t.off ∧ (t.round d).nsec < 1000000000 ∧ ((t.round d).nsec : Int) % d = 0 ∧
    unixNanos (t.round d) % d = 0 ∧
    (if 2 * (unixNanos t % d) < d then unixNanos (t.round d) = unixNanos t - unixNanos t % d
     else unixNanos (t.round d) = unixNanos t - unixNanos t % d + d) := by
  have hd' : (0 : Int) < d := by omega
  have hne : d ≠ 0 := by omega
  have hK := dvd_epoch d hdvd
  have hr : t.absNanos % (d : Int) = unixNanos t % d := by rw [absNanos_unix, add_emod_of_dvd _ _ _ hK]
  have hmul : ∀ a : Int, (d : Int) ∣ a → (d : Int) ∣ a - 62135596800000000000 := fun a h => Int.dvd_sub h hK
  have hfloor : (d : Int) ∣ t.absNanos - t.absNanos % (d : Int) := by
    refine ⟨t.absNanos / d, ?_⟩
    have := Int.mul_ediv_add_emod t.absNanos d
    omega
  have hceil : (d : Int) ∣ t.absNanos + d - t.absNanos % (d : Int) := by
    have : t.absNanos + d - t.absNanos % (d : Int) = (t.absNanos - t.absNanos % (d : Int)) + d := by omega
    rw [this]; exact Int.dvd_add hfloor (Int.dvd_refl _)
  unfold GoTime.round
  simp only [hne, if_false]
  by_cases hlt : t.absNanos % (d : Int) + t.absNanos % (d : Int) < d
  · have hlt' : 2 * (unixNanos t % d) < d := by rw [← hr]; omega
    simp only [hlt, if_true, hlt']
    refine ⟨rfl, ?_, ?_, ?_, ?_⟩
    · have := ofAbsNanos_nsec (t.absNanos - t.absNanos % (d : Int)) t.off; omega
    · rw [ofAbsNanos_nsec, Int.emod_emod_of_dvd _ hdvd]; exact Int.emod_eq_zero_of_dvd hfloor
    · rw [ofAbsNanos_unix]; exact Int.emod_eq_zero_of_dvd (hmul _ hfloor)
    · rw [ofAbsNanos_unix, hr, absNanos_unix]; omega
  · have hlt' : ¬ 2 * (unixNanos t % d) < d := by rw [← hr]; omega
    simp only [hlt, if_false, hlt']
    refine ⟨rfl, ?_, ?_, ?_, ?_⟩
    · have := ofAbsNanos_nsec (t.absNanos + d - t.absNanos % (d : Int)) t.off; omega
    · rw [ofAbsNanos_nsec, Int.emod_emod_of_dvd _ hdvd]; exact Int.emod_eq_zero_of_dvd hceil
    · rw [ofAbsNanos_unix]; exact Int.emod_eq_zero_of_dvd (hmul _ hceil)
    · rw [ofAbsNanos_unix, hr, absNanos_unix]; omega

/-- **C17, rounding**: for a precision `0 ≤ p ≤ 9`, `adjustPrecision` rounds the instant to a
    multiple of `10^(9−p)` ns (`unit p`), ties up.  (The executor never passes `p > 6`:
    `precision_cap`.) -/
theorem adjustPrecision_spec (t : GoTime) (p : Int) (hp0 : 0 ≤ p) (hp9 : p ≤ 9) :
    (adjustPrecision t p).off = t.off ∧ (adjustPrecision t p).nsec < 1000000000 ∧
    ((adjustPrecision t p).nsec : Int) % unit p = 0 ∧ unixNanos (adjustPrecision t p) % unit p = 0 ∧
    (if 2 * (unixNanos t % unit p) < unit p then
       unixNanos (adjustPrecision t p) = unixNanos t - unixNanos t % unit p
     else unixNanos (adjustPrecision t p) = unixNanos t - unixNanos t % unit p + unit p) := by
  have h1 : ¬ p < 0 := by omega
  have h2 : ¬ p > 9 := by omega
  simp only [adjustPrecision, h1, h2, if_false]
  exact round_spec t (unit p) (unit_pos p) (unit_dvd p)

/-- within half a unit of the original; exactly half a unit away only upwards -/
theorem adjustPrecision_close (t : GoTime) (p : Int) (hp0 : 0 ≤ p) (hp9 : p ≤ 9) :
    2 * (unixNanos (adjustPrecision t p) - unixNanos t) ≤ unit p ∧
    2 * (unixNanos t - unixNanos (adjustPrecision t p)) < unit p := by
  obtain ⟨_, _, _, _, h⟩ := adjustPrecision_spec t p hp0 hp9
  have hpos : (0 : Int) < unit p := by have := unit_pos p; omega
  have h0 := Int.emod_nonneg (unixNanos t) (Int.ne_of_gt hpos)
  have h1 := Int.emod_lt_of_pos (unixNanos t) hpos
  split at h <;> omega

/-- **nearest multiple**: no multiple of the unit is nearer to the original instant than the
    rounded one, and a multiple that is equally near is not larger (ties round up) -/
theorem adjustPrecision_nearest (t : GoTime) (p : Int) (hp0 : 0 ≤ p) (hp9 : p ≤ 9) (M : Int)
    (hM : M % unit p = 0) :
    (unixNanos (adjustPrecision t p) - unixNanos t).natAbs ≤ (M - unixNanos t).natAbs ∧
    ((M - unixNanos t).natAbs = (unixNanos (adjustPrecision t p) - unixNanos t).natAbs →
      M ≤ unixNanos (adjustPrecision t p)) := by
  obtain ⟨_, _, _, hN', _⟩ := adjustPrecision_spec t p hp0 hp9
  obtain ⟨c1, c2⟩ := adjustPrecision_close t p hp0 hp9
  have hpos : (0 : Int) < unit p := by have := unit_pos p; omega
  have hdvd : ((unit p : Nat) : Int) ∣ M - unixNanos (adjustPrecision t p) :=
    Int.dvd_sub (Int.dvd_of_emod_eq_zero hM) (Int.dvd_of_emod_eq_zero hN')
  by_cases heq : M = unixNanos (adjustPrecision t p)
  · subst heq; exact ⟨Nat.le_refl _, fun _ => Int.le_refl _⟩
  · by_cases hgt : unixNanos (adjustPrecision t p) < M
    · have := Int.le_of_dvd (by omega) hdvd
      omega
    · have hdvd' : ((unit p : Nat) : Int) ∣ unixNanos (adjustPrecision t p) - M := by
        have := Int.dvd_neg.2 hdvd
        have e : -(M - unixNanos (adjustPrecision t p)) = unixNanos (adjustPrecision t p) - M := by omega
        rwa [e] at this
      have := Int.le_of_dvd (by omega) hdvd'
      omega

/-- a tie (the fraction is exactly half a unit) goes up -/
theorem adjustPrecision_tie (t : GoTime) (p : Int) (hp0 : 0 ≤ p) (hp9 : p ≤ 9)
    (h : 2 * (unixNanos t % unit p) = unit p) :
    2 * unixNanos (adjustPrecision t p) = 2 * unixNanos t + unit p := by
  obtain ⟨_, _, _, _, h'⟩ := adjustPrecision_spec t p hp0 hp9
  split at h' <;> omega

/-- a value that is already a multiple of the unit is not changed; hence rounding is idempotent -/
theorem adjustPrecision_fixed (t : GoTime) (p : Int) (hp0 : 0 ≤ p) (hp9 : p ≤ 9) (hns : t.nsec < 1000000000)
    (h : unixNanos t % unit p = 0) : adjustPrecision t p = t := by
  obtain ⟨ho, hn, _, _, h'⟩ := adjustPrecision_spec t p hp0 hp9
  have hpos : (0 : Int) < unit p := by have := unit_pos p; omega
  rw [h] at h'
  simp only [Int.mul_zero, hpos, if_true, Int.sub_zero] at h'
  simp only [unixNanos] at h'
  cases t with | mk s n o =>
  cases hr : adjustPrecision ⟨s, n, o⟩ p with | mk s' n' o' =>
  rw [hr] at ho hn h'
  simp only at ho hn h' hns
  have : s' = s ∧ n' = n := by omega
  rw [this.1, this.2, ho]

theorem adjustPrecision_idem (t : GoTime) (p : Int) (hp0 : 0 ≤ p) (hp9 : p ≤ 9) :
    adjustPrecision (adjustPrecision t p) p = adjustPrecision t p := by
  obtain ⟨_, hn, _, hN', _⟩ := adjustPrecision_spec t p hp0 hp9
  exact adjustPrecision_fixed _ p hp0 hp9 hn hN'

/-- no precision argument (`-1`), or a divisor that underflows to 0 (`p ≥ 10`): unchanged -/
theorem adjustPrecision_neg (t : GoTime) (p : Int) (h : p < 0) : adjustPrecision t p = t := by
  simp [adjustPrecision, h]

theorem adjustPrecision_big (t : GoTime) (p : Int) (h : 10 ≤ p) : adjustPrecision t p = t := by
  have h1 : ¬ p < 0 := by omega
  have h2 : p > 9 := by omega
  simp [adjustPrecision, h1, h2]

/-- **precision is capped at 6** by the executor: every `p ≥ 6` behaves like `6` -/
theorem precision_cap (c : Exec.Ctx) (op : UnOp) (src : List Char) (p : Int) (hop : op ≠ .datetime ∧ op ≠ .date)
    (hp : 6 ≤ p) (hr : Num.inInt32 p = true) :
    Exec.parseDateTime c op src (some (.integer p none)) = Exec.parseDateTime c op src (some (.integer 6 none)) := by
  have h1 : ¬ (p > Num.maxInt32 ∨ p < Num.minInt32) := by
    simp only [Num.inInt32, Bool.and_eq_true, decide_eq_true_eq] at hr; omega
  have h1' : (decide (p > Num.maxInt32) || decide (p < Num.minInt32)) = false := by simpa using h1
  have h2 : ¬ p < 0 := by omega
  have h6 : (decide ((6 : Int) > Num.maxInt32) || decide ((6 : Int) < Num.minInt32)) = false := by decide
  simp only [Exec.parseDateTime, Exec.getNodeInt32, h1', h6]
  by_cases h7 : p > 6
  · simp [hop.1, hop.2, h2, h7]
  · have : p = 6 := by omega
    subst this; rfl

/-! ## Known finding D33: rounding a `time` past midnight wraps -/

/-- **D33**: `"23:59:59.9".time(0)` is `00:00:00` (PostgreSQL: `24:00:00`), and `compareDatetime`
    puts the rounded value **before** the unrounded one: rounding is not monotone for `time` -/
theorem time_round_wraps_counterexample (env : Env) (useTZ : Bool) :
    parseTime env "23:59:59.9".toList 0 = some ⟨.time, yearZero, 0, 0⟩ ∧
    parseTime env "23:59:59.9".toList (-1) = some ⟨.time, yearZero + 86399, 900000000, 0⟩ ∧
    Time.toString ⟨.time, yearZero, 0, 0⟩ = "00:00:00".toList ∧
    compareDatetime env useTZ ⟨.time, yearZero, 0, 0⟩ ⟨.time, yearZero + 86399, 900000000, 0⟩ = .ok (-1) :=
  ⟨rfl, rfl, rfl, rfl⟩

/-- the same for `time_tz`: `"23:59:59.9+02".time_tz(0)` is `00:00:00+02:00` -/
theorem timetz_round_wraps_counterexample (env : Env) (useTZ : Bool) :
    parseTime env "23:59:59.9+02".toList 0 = some ⟨.timetz, yearZero - 7200, 0, 7200⟩ ∧
    parseTime env "23:59:59.9+02".toList (-1) = some ⟨.timetz, yearZero + 86399 - 7200, 900000000, 7200⟩ ∧
    Time.toString ⟨.timetz, yearZero - 7200, 0, 7200⟩ = "00:00:00+02:00".toList ∧
    compareDatetime env useTZ ⟨.timetz, yearZero - 7200, 0, 7200⟩
      ⟨.timetz, yearZero + 86399 - 7200, 900000000, 7200⟩ = .ok (-1) :=
  ⟨rfl, rfl, rfl, rfl⟩

-- timestamps do not wrap: the carry goes into the date
set_option maxRecDepth 4000 in
example (env : Env) : parseTime env "2024-12-31T23:59:59.9".toList 0 = some ⟨.timestamp, 1735689600, 0, 0⟩ ∧
    parseTime env "2025-01-01T00:00:00".toList (-1) = some ⟨.timestamp, 1735689600, 0, 0⟩ := ⟨by rfl, by rfl⟩

namespace Aux

theorem emod_day (d : Int) (h : d ∣ 1000000000) (c : Int) (n : Int) :
    ((Time.yearZero + c) * 1000000000 + n) % d = n % d := by
  obtain ⟨k, hk⟩ := h
  have : (Time.yearZero + c) * 1000000000 + n = n + ((Time.yearZero + c) * k) * d := by
    rw [hk, Int.mul_assoc, Int.mul_comm k d]; omega
  rw [this, Int.add_mul_emod_self_right]

end Aux

/-- **rounding a `time` is monotone and within half a unit when it does not carry past midnight**
    (`_partial`: the case that carries is the finding D33, `time_round_wraps`).

    `v` is a zone-less clock reading on 0000-01-01 (`sec = yearZero + c`, `0 ≤ c < 86400`, offset 0),
    as `time.Parse("15:04:05", …)` returns it; `n := c·10⁹ + nsec` are its nanoseconds since
    midnight, `d := unit p`.  Hypothesis `hcarry`: rounding goes down, or the next multiple of `d`
    is before midnight.  Then, for the rounded value `r := newTime (adjustPrecision v p)`, the
    original `o := newTime v` and the truncated value `tr`:
    `tr ≤ r` (as `dayNanos` and as `compareDatetime`), and `r` is within half a unit of `o`. -/
theorem time_round_monotone_partial (env : Env) (useTZ : Bool) (v : GoTime) (p c : Int)
    (hp0 : 0 ≤ p) (hp9 : p ≤ 9) (hoff : v.off = 0) (hsec : v.sec = yearZero + c) (hc0 : 0 ≤ c) (hc1 : c < 86400)
    (hns : v.nsec < 1000000000)
    (hcarry : 2 * ((c * 1000000000 + v.nsec) % unit p) < unit p ∨
      c * 1000000000 + v.nsec - (c * 1000000000 + v.nsec) % unit p + unit p < 86400 * 1000000000) :
    (newTime (adjustPrecision v p)).kind = .time ∧
    dayNanos (newTime v) = c * 1000000000 + v.nsec ∧
    dayNanos (newTime ⟨v.sec, v.nsec - v.nsec % unit p, 0⟩) =
      c * 1000000000 + v.nsec - (c * 1000000000 + v.nsec) % unit p ∧
    dayNanos (newTime ⟨v.sec, v.nsec - v.nsec % unit p, 0⟩) ≤ dayNanos (newTime (adjustPrecision v p)) ∧
    2 * (dayNanos (newTime (adjustPrecision v p)) - dayNanos (newTime v)) ≤ unit p ∧
    2 * (dayNanos (newTime v) - dayNanos (newTime (adjustPrecision v p))) < unit p ∧
    (∃ x, compareDatetime env useTZ (newTime ⟨v.sec, v.nsec - v.nsec % unit p, 0⟩)
        (newTime (adjustPrecision v p)) = .ok x ∧ x ≤ 0 ∧ x ≠ -2) := by
  obtain ⟨ho, hn, _, _, hN⟩ := adjustPrecision_spec v p hp0 hp9
  have hpos : (0 : Int) < unit p := by have := unit_pos p; omega
  have hdvd := unit_dvd p
  have e1 : unixNanos v % unit p = (c * 1000000000 + v.nsec) % unit p := by
    have : unixNanos v = (yearZero + c) * 1000000000 + (c * 0 + v.nsec) := by simp only [unixNanos, hsec]; omega
    rw [this, emod_day _ hdvd]
    have : c * 1000000000 + (v.nsec : Int) = (c * 0 + v.nsec) + c * 1000000000 := by omega
    rw [this, add_emod_of_dvd _ _ _ (Int.dvd_trans hdvd (Int.dvd_mul_left _ _))]
  have e2 : ((v.nsec % unit p : Nat) : Int) = (c * 1000000000 + v.nsec) % unit p := by
    have : c * 1000000000 + (v.nsec : Int) = v.nsec + c * 1000000000 := by omega
    rw [this, add_emod_of_dvd _ _ _ (Int.dvd_trans hdvd (Int.dvd_mul_left _ _))]
    simp
  rw [e1] at hN
  have r0 := Int.emod_nonneg (c * 1000000000 + v.nsec) (Int.ne_of_gt hpos)
  have r1 := Int.emod_lt_of_pos (c * 1000000000 + v.nsec) hpos
  have hle : v.nsec % unit p ≤ v.nsec := Nat.mod_le _ _
  have hns' : v.nsec - v.nsec % unit p < 1000000000 := by omega
  rw [newTime_eq _ hn, newTime_eq _ hns, newTime_eq ⟨v.sec, v.nsec - v.nsec % unit p, 0⟩ hns']
  generalize (c * 1000000000 + (v.nsec : Int)) % unit p = r at *
  cases hr : adjustPrecision v p with | mk s' n' o' =>
  rw [hr] at ho hn hN
  simp only [unixNanos] at hN
  simp only at ho hn
  cases v with | mk s n o =>
  simp only at hoff hsec hns hle hns' e2 hN hcarry
  subst hoff; subst ho
  simp only [dayNanos, compareDatetime, DateTime.t, yearZero, Int.add_zero] at *
  have hsub : ((n - n % unit p : Nat) : Int) = n - r := by omega
  rw [hsub]
  refine ⟨trivial, by omega, by omega, ?_, ?_, ?_, ?_⟩
  · split at hN <;> omega
  · split at hN <;> omega
  · split at hN <;> omega
  · refine ⟨_, rfl, ?_, GoTime.compare_ne_neg2 _ _⟩
    rw [GoTime.compare_le_zero_iff]
    simp only
    split at hN <;> omega

/-- **D33 in general**: when rounding up reaches midnight, the result is `00:00:00` -/
theorem time_round_wraps (v : GoTime) (p c : Int)
    (hp0 : 0 ≤ p) (hp9 : p ≤ 9) (hoff : v.off = 0) (hsec : v.sec = yearZero + c) (hc0 : 0 ≤ c) (hc1 : c < 86400)
    (hns : v.nsec < 1000000000)
    (hup : ¬ 2 * ((c * 1000000000 + v.nsec) % unit p) < unit p)
    (hcarry : 86400 * 1000000000 ≤ c * 1000000000 + v.nsec - (c * 1000000000 + v.nsec) % unit p + unit p) :
    newTime (adjustPrecision v p) = ⟨.time, yearZero, 0, 0⟩ := by
  obtain ⟨ho, hn, _, hmul, hN⟩ := adjustPrecision_spec v p hp0 hp9
  have hpos : (0 : Int) < unit p := by have := unit_pos p; omega
  have hdvd := unit_dvd p
  have e1 : unixNanos v % unit p = (c * 1000000000 + v.nsec) % unit p := by
    have : unixNanos v = (yearZero + c) * 1000000000 + (c * 0 + v.nsec) := by simp only [unixNanos, hsec]; omega
    rw [this, emod_day _ hdvd]
    have : c * 1000000000 + (v.nsec : Int) = (c * 0 + v.nsec) + c * 1000000000 := by omega
    rw [this, add_emod_of_dvd _ _ _ (Int.dvd_trans hdvd (Int.dvd_mul_left _ _))]
  rw [e1] at hN
  simp only [hup, if_false] at hN
  -- the rounded instant is a multiple of the unit in `[midnight, midnight + unit)`, and midnight is one
  have r0 := Int.emod_nonneg (c * 1000000000 + v.nsec) (Int.ne_of_gt hpos)
  have r1 := Int.emod_lt_of_pos (c * 1000000000 + v.nsec) hpos
  have hmid : ((unit p : Nat) : Int) ∣ (yearZero + 86400) * 1000000000 := Int.dvd_trans hdvd (Int.dvd_mul_left _ _)
  have hd2 : ((unit p : Nat) : Int) ∣ unixNanos (adjustPrecision v p) - (yearZero + 86400) * 1000000000 :=
    Int.dvd_sub (Int.dvd_of_emod_eq_zero hmul) hmid
  have hval : unixNanos (adjustPrecision v p) = (yearZero + 86400) * 1000000000 := by
    apply Classical.byContradiction
    intro hne
    have hlo : (yearZero + 86400) * 1000000000 ≤ unixNanos (adjustPrecision v p) := by
      rw [hN]; simp only [unixNanos, hsec]; simp only [yearZero] at *; omega
    have := Int.le_of_dvd (by omega) hd2
    rw [hN] at this
    simp only [unixNanos, hsec, yearZero] at this r0 r1 hc1 hns
    omega
  rw [newTime_eq _ hn]
  cases hr : adjustPrecision v p with | mk s' n' o' =>
  rw [hr] at ho hn hval
  simp only [unixNanos, yearZero] at hval
  simp only at ho hn
  simp only [yearZero, DateTime.mk.injEq, true_and, and_true]
  clear hd2 hmid hdvd hmul hN e1 hup hcarry r0 r1
  omega

/-! ## Examples -/

example (env : Env) : parseTime env "12:34:56.789".toList 2 = some ⟨.time, yearZero + 45296, 790000000, 0⟩ := by rfl
example (env : Env) : parseTime env "12:34:56.789".toList 0 = some ⟨.time, yearZero + 45297, 0, 0⟩ := by rfl
/-- a tie goes up -/
example (env : Env) : parseTime env "12:34:56.5".toList 0 = some ⟨.time, yearZero + 45297, 0, 0⟩ := by rfl
/-- the tenth digit is cut off by `time.Parse` before rounding -/
example (env : Env) : parseTime env "12:34:56.4999999999".toList 0 = some ⟨.time, yearZero + 45296, 0, 0⟩ := by rfl
example (env : Env) : parseTime env "12:34:56.123456789".toList 6 = some ⟨.time, yearZero + 45296, 123457000, 0⟩ := by rfl
example (env : Env) : parseTime env "12:34:56.123456789".toList 9 = some ⟨.time, yearZero + 45296, 123456789, 0⟩ := by rfl
example (env : Env) : parseTime env "12:34:56.123456789".toList 10 = some ⟨.time, yearZero + 45296, 123456789, 0⟩ := by rfl

end C17b
end Sqljson
