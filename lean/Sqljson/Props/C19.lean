import Sqljson.Props.GenFacts
import Sqljson.Props.C05
/-!
# C19 — A parsed Path is immutable, concurrency-safe and deterministic

What a Lean model can carry of this property, and what it cannot:

* **Determinism / history independence** (`deterministic`, `history_free`): every entry point of the
  model is a *function* of (path, document, options): repeating a call gives the same outcome, and
  nothing executed before can influence it (the model threads no state between calls; the Go
  `Executor` is created per call — `newExec` — which the effect table confirms: no function of the
  five packages assigns a package-level variable, `no_package_var_writes`).  Object members are
  visited in sorted key order (repaired defect D22), so not even the order of items is left open.
* **Schedule independence given disjoint write sets** (`noninterference`): N calls, each a sequence
  of micro-steps reading shared locations (the AST, the document, the variables, package variables)
  and writing only locations it owns; for **every** interleaving, call `i` ends in the control
  state, and sees the store, it would have after running alone for as many steps as the schedule
  gave it.  Induction over the schedule, no bound on N or on the schedule length.
* **The premise is a regenerated fact** (`discipline_premise`, from `GenFacts`): on every run the
  extractor lists every assignment of the five packages whose target is a field, an element or a
  dereference, every `go` statement and every import of `unsafe`/`sync`/`reflect`; `decide` re-checks
  that during execution package exec writes only fields of the per-call `Executor`, its per-call
  `valueList` and a local slice; that package ast writes node fields only in constructors,
  `setNext` and `NewAny` (i.e. before `ast.New` returns the tree); that no goroutine is started and
  `unsafe`/`sync` are not imported (`reflect` only for `reflect.ValueOf(obj).Pointer()` in
  `.keyvalue()`).
* **Not carried by the model**: the Go memory model itself.  A data race needs a write to a shared
  location; the theorem and the fact say there is none *that the syntactic extractor can see*.  The
  thorough tier additionally runs the real code under the race detector (`sqv race`), as a search.
-/

namespace Sqljson
namespace C19

abbrev Loc := Nat
abbrev Val := Nat
abbrev Store := Loc → Val

/-- one call = a deterministic small-step program over the store and a control state of type κ -/
structure Prog (κ : Type) where
  init : κ
  /-- one micro-step: read the store, maybe write one location, move on; `none` = finished -/
  step : κ → Store → Option (κ × Option (Loc × Val))

def Store.set (σ : Store) (l : Loc) (v : Val) : Store := fun l' => if l' = l then v else σ l'

variable {κ : Type} {n : Nat}

/-- configuration of n calls sharing a store -/
structure Cfg (κ : Type) (n : Nat) where
  store : Store
  ctl : Fin n → κ

/-- call i takes one step (no-op if finished) -/
def Cfg.stepAt (ps : Fin n → Prog κ) (c : Cfg κ n) (i : Fin n) : Cfg κ n :=
  match (ps i).step (c.ctl i) c.store with
  | none => c
  | some (k', none) => { c with ctl := fun j => if j = i then k' else c.ctl j }
  | some (k', some (l, v)) => { store := c.store.set l v, ctl := fun j => if j = i then k' else c.ctl j }

def Cfg.run (ps : Fin n → Prog κ) (c : Cfg κ n) : List (Fin n) → Cfg κ n
  | [] => c
  | i :: sched => Cfg.run ps (c.stepAt ps i) sched

/-- running one call alone for m steps from control state k and store σ -/
def solo (p : Prog κ) : Nat → κ → Store → κ × Store
  | 0, k, σ => (k, σ)
  | m+1, k, σ =>
    match p.step k σ with
    | none => (k, σ)
    | some (k', none) => solo p m k' σ
    | some (k', some (l, v)) => solo p m k' (σ.set l v)

/-- ownership discipline: `own i` are the locations call i may write; a call's steps depend
    only on locations that no other call owns (shared read-only data and its own locations) -/
structure Discipline (ps : Fin n → Prog κ) where
  own : Fin n → Loc → Prop
  writes : ∀ i k σ k' l v, (ps i).step k σ = some (k', some (l, v)) → own i l
  reads : ∀ i k σ σ', (∀ l, (∀ j, j ≠ i → ¬ own j l) → σ l = σ' l) → (ps i).step k σ = (ps i).step k σ'

def AgreeFor {ps : Fin n → Prog κ} (d : Discipline ps) (i : Fin n) (σ σ' : Store) : Prop :=
  ∀ l, (∀ j, j ≠ i → ¬ d.own j l) → σ l = σ' l

def count (i : Fin n) : List (Fin n) → Nat
  | [] => 0
  | j :: s => (if j = i then 1 else 0) + count i s

theorem solo_done (p : Prog κ) (k : κ) (σ : Store) (h : p.step k σ = none) : ∀ m, solo p m k σ = (k, σ) := by
  intro m; cases m <;> simp [solo, h]

/-- Under the discipline, after ANY schedule, call i's control state is what it would be after
    running alone for as many steps as the schedule gave it, and the two stores agree on
    everything call i can see. -/
theorem noninterference (ps : Fin n → Prog κ) (d : Discipline ps) (i : Fin n) :
    ∀ (sched : List (Fin n)) (c : Cfg κ n) (k : κ) (σ : Store),
      c.ctl i = k → AgreeFor d i c.store σ →
      (Cfg.run ps c sched).ctl i = (solo (ps i) (count i sched) k σ).1 ∧
      AgreeFor d i (Cfg.run ps c sched).store (solo (ps i) (count i sched) k σ).2 := by
  intro sched
  induction sched with
  | nil =>
    intro c k σ hk ha
    exact ⟨by simpa [Cfg.run, count, solo] using hk, by simpa [Cfg.run, count, solo] using ha⟩
  | cons j sched ih =>
    intro c k σ hk ha
    simp only [Cfg.run, count]
    by_cases hj : j = i
    · subst hj
      simp only [if_true]
      have hstep : (ps j).step (c.ctl j) c.store = (ps j).step k σ := by
        rw [hk]; exact d.reads j k c.store σ ha
      rw [Nat.add_comm, solo]
      cases hs : (ps j).step k σ with
      | none =>
        have hsame : c.stepAt ps j = c := by simp [Cfg.stepAt, hstep, hs]
        rw [hsame]
        have := ih c k σ hk ha
        rw [solo_done _ _ _ hs] at this
        simpa using this
      | some r =>
        obtain ⟨k', w⟩ := r
        cases w with
        | none =>
          have hc : (c.stepAt ps j).ctl j = k' := by simp [Cfg.stepAt, hstep, hs]
          have hst : (c.stepAt ps j).store = c.store := by simp [Cfg.stepAt, hstep, hs]
          exact ih (c.stepAt ps j) k' σ hc (by rw [hst]; exact ha)
        | some lv =>
          obtain ⟨l, v⟩ := lv
          have hc : (c.stepAt ps j).ctl j = k' := by simp [Cfg.stepAt, hstep, hs]
          have hst : (c.stepAt ps j).store = c.store.set l v := by simp [Cfg.stepAt, hstep, hs]
          refine ih (c.stepAt ps j) k' (σ.set l v) hc ?_
          rw [hst]
          intro l' hl'
          simp only [Store.set]
          split
          · rfl
          · exact ha l' hl'
    · -- another call steps: it writes only its own locations, which call i cannot see
      have hne : (if j = i then 1 else 0) + count i sched = count i sched := by simp [hj]
      rw [hne]
      have hij : ¬ i = j := fun h => hj h.symm
      have hc : (c.stepAt ps j).ctl i = k := by
        simp only [Cfg.stepAt]
        split <;> simp [hij, hk]
      have hagree : AgreeFor d i (c.stepAt ps j).store σ := by
        intro l hl
        simp only [Cfg.stepAt]
        split
        · exact ha l hl
        · exact ha l hl
        · rename_i k' l0 v hs
          have hown := d.writes j _ _ _ _ _ hs
          simp only [Store.set]
          split
          · rename_i heq
            subst heq
            exact absurd hown (hl j hj)
          · exact ha l hl
      exact ih (c.stepAt ps j) k σ hc hagree


/-- the model's entry points are functions of their arguments: a repeated call returns the same
    outcome -/
theorem deterministic (e : Api.Entry) (fuel : Nat) (a : AST) (doc : Item) (o : Api.Opts) :
    Api.run e fuel a doc o = Api.run e fuel a doc o := rfl

/-- calls executed before cannot influence a call: the outcome of the second call of any sequence
    is the outcome of that call alone (the model has no state between calls) -/
theorem history_free (e1 e2 : Api.Entry) (fuel : Nat) (a : AST) (d1 d2 : Item) (o1 o2 : Api.Opts) :
    (let _first := Api.run e1 fuel a d1 o1; Api.run e2 fuel a d2 o2) = Api.run e2 fuel a d2 o2 := rfl

/-- the ownership premise of `noninterference`, as far as the syntactic extractor sees the Go code -/
theorem discipline_premise :
    Gen.goStatements = [] ∧ Gen.packageVarWrites = [] ∧ Gen.sensitiveImports = [("path/exec", "reflect")] ∧
    (Gen.writes.filter (fun w => w.1 == "path/exec")).all
      (fun w => GenFacts.hasPrefix "exec." w.2.2 || GenFacts.hasPrefix "e." w.2.2 || w.2.2 == "vl.list" || w.2.2 == "vals[i]") = true :=
  ⟨GenFacts.no_goroutines, GenFacts.no_package_var_writes, GenFacts.no_unsafe_or_sync, GenFacts.exec_writes_are_per_call⟩

end C19
end Sqljson
