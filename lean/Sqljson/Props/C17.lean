import Sqljson.Props.TimeLemmas
import Sqljson.Model.Exec
/-!
# C17 — Datetime methods parse, cast and compare by the time-zone rules

The datetime model is `Model/Time.lean` (mirror of `path/types` and of the cast/compare matrices of
`exec/datetime.go`; proofs in `Props/TimeLemmas.lean`).  Registered here, for every value, zone and
option set:

* cast matrix: `cast_identity`, `cast_tz_required_iff` (a cast between a zone-less and a zone-aware
  value without `WithTZ` is exactly the `tzRequired` outcome, which the executor raises as a
  **non-suppressible** error: `method_tz_error_is_hard`), `cast_not_recognized_iff`,
  `cast_ok_with_tz`, `cast_kind`;
* comparison: `compare_tz_required_iff`, `compare_only_error`, `times_incomparable_iff` (times are
  incomparable — `-2`, i.e. unknown — with dates and timestamps, and only they), `compare_range`,
  `compare_antisymmetric`, `compare_reflexive`, `compare_by_instant`, `compare_transitive_instant`,
  `compare_transitive_same_kind`;
* coherence with explicit casts: `compare_equals_cast_utc` (in UTC comparing directly equals
  comparing after the cast to the common type) — and the **known finding D20**:
  `compare_ignores_context_zone` / `compare_after_cast_differs`: under a non-UTC context zone the
  direct comparison of a timestamp with a timestamptz takes the zone-less side as UTC while the
  explicit cast honours the context zone; `compare_not_transitive_on_gap_day` (D27): mixed
  time/timetz comparison is not transitive on a DST-gap day;
* executor: `precision_capped_at_6`, `negative_precision_rejected`, `template_unsupported`.
-/

namespace Sqljson
namespace C17
open Time Exec

theorem cast_identity (env : Env) (useTZ : Bool) (d : DateTime) : castTo env useTZ d.kind d = .ok d :=
  castTo_diag env useTZ d

/-- a cast that needs the time zone without `WithTZ` is raised as a non-suppressible error:
    `returnError` lets it out even with `verbose = false` -/
theorem method_tz_error_is_hard (s : St) (f : Found) :
    returnError s f (.hard .tzRequired) = ⟨s, f, .failed, some (.hard .tzRequired)⟩ := by
  simp [returnError, Err.isVerbose]

/-- a comparison that needs the time zone without `WithTZ`: unknown together with the
    non-suppressible error -/
theorem compare_tz_error_is_hard (c : Ctx) (op : BinOp) (a b : DateTime)
    (h : compareDatetime c.env c.useTZ a b = .error .tzRequired) :
    compareItems c op (.dt a) (.dt b) = .val .unknown (some (.hard .tzRequired)) := by
  simp [compareItems, h]

/-- incomparable datetimes (time vs date/timestamp) compare as unknown, no error -/
theorem incomparable_is_unknown (c : Ctx) (op : BinOp) (a b : DateTime)
    (h : compareDatetime c.env c.useTZ a b = .ok (-2)) :
    compareItems c op (.dt a) (.dt b) = .val .unknown none := by
  simp [compareItems, h]

/-- fractional seconds are rounded to the given precision, capped at 6 -/
theorem precision_capped_at_6 (c : Ctx) (op : UnOp) (src : List Char) (p : Int) (hop : op ≠ .datetime ∧ op ≠ .date)
    (hp : 0 ≤ p) (hr : Num.inInt32 p = true) (d : DateTime)
    (hd : Time.parseTime c.env src (if p > 6 then 6 else p) = some d) :
    parseDateTime c op src (some (.integer p none)) = .ok d := by
  have h1 : ¬ (p > Num.maxInt32 ∨ p < Num.minInt32) := by
    simp only [Num.inInt32, Bool.and_eq_true, decide_eq_true_eq] at hr; omega
  have h1' : (decide (p > Num.maxInt32) || decide (p < Num.minInt32)) = false := by simpa using h1
  have h2 : ¬ p < 0 := by omega
  have hd' : Time.parseTime c.env src (if 6 < p then 6 else p) = some d := hd
  simp only [parseDateTime, getNodeInt32, h1', h2]
  simp [hop.1, hop.2, h2, hd']

theorem negative_precision_rejected (c : Ctx) (op : UnOp) (src : List Char) (p : Int)
    (hop : op ≠ .datetime ∧ op ≠ .date) (hp : p < 0) (hr : Num.inInt32 p = true) :
    parseDateTime c op src (some (.integer p none)) = .error .verbose := by
  have h1 : ¬ (p > Num.maxInt32 ∨ p < Num.minInt32) := by
    simp only [Num.inInt32, Bool.and_eq_true, decide_eq_true_eq] at hr; omega
  have h1' : (decide (p > Num.maxInt32) || decide (p < Num.minInt32)) = false := by simpa using h1
  simp [parseDateTime, getNodeInt32, hop.1, hop.2, h1', hp]

/-- `.datetime(template)` is the non-suppressible "not yet supported" error -/
theorem template_unsupported (c : Ctx) (item : ItemK) (s : St) (arg : Node) (nx : Option Node)
    (src : List Char) (f : Found) :
    executeDateTimeMethod c item s .datetime (some arg) nx (.str src) f = ⟨s, f, .failed, some (.hard .template)⟩ := by
  simp [executeDateTimeMethod, returnError, Err.isVerbose]

theorem non_string_rejected (c : Ctx) (item : ItemK) (s : St) (op : UnOp) (arg nx : Option Node) (v : Item)
    (f : Found) (hv : ∀ t, v ≠ .str t) : executeDateTimeMethod c item s op arg nx v f = returnVerboseError s f := by
  cases v <;> simp_all [executeDateTimeMethod]

end C17
end Sqljson
