import Sqljson.Props.TimeLemmas
import Sqljson.Model.Exec
/-!
# C17 — Datetime methods parse, cast and compare by the time-zone rules

The datetime model is `Model/Time.lean` (mirror of `path/types` and of the cast/compare matrices of
`exec/datetime.go`; proofs in `Props/TimeLemmas.lean`).  For every value, zone and option set:

* cast matrix (`TimeLemmas`): `castTo_diag`, `castTo_tzRequired_iff` (a cast between a zone-less and a
  zone-aware value without `WithTZ` is exactly the `tzRequired` outcome, which the executor raises
  as a **non-suppressible** error: `method_tz_error_is_hard`), `castTo_notRecognized_iff`,
  `castTo_ok_of_useTZ`, `castTo_kind`;
* comparison (`TimeLemmas`): `compareDatetime_tzRequired_iff`, `compareDatetime_error`,
  `compareDatetime_incomparable_iff` (times are incomparable — `-2`, i.e. unknown — with dates and
  timestamps, and only they), `compareDatetime_range`, `compareDatetime_swap` /
  `compareDatetime_antisymm` (all 25 kind pairs), `compareDatetime_refl`,
  `compareDatetime_sameKind`, `compareDatetime_trans_sameKind`;
* **coherence with explicit casts** (defect D20 repaired): `compare_equals_cast` — with `WithTZ`,
  for every context zone and every `today`, comparing two comparable datetimes equals comparing
  them after explicit casts to their common type, for all 13 comparable kind pairs and both operand
  orders (`C17.compare_is_compare_after_cast`); corollaries `compare_cast_commute`,
  `compare_cast_commute_utc`, closed forms `compare_direct_fixed`, `compare_after_cast_fixed`;
* transitivity through the context zone: `compareDatetime_instant` / `compareDatetime_trans_instant`
  (dates, timestamps, timestamptz: transitive in every zone where `time.Date` is strictly increasing
  in the wall clock, `Zone.StrictMono`), `compareDatetime_trans_instant_fixed` (every fixed zone, UTC
  included, unconditionally);
* **known findings**: `compare_not_transitive_in_gap` (D28: a timestamp inside a DST gap is mapped
  backwards by `time.Date`, which breaks transitivity; `envNY_not_strictMono`),
  `compare_not_transitive_on_gap_day` (D27: mixed time/timetz comparison on a day with a DST gap);
* executor: `precision_capped_at_6`, `negative_precision_rejected`, `template_unsupported`,
  `non_string_rejected`, `compare_tz_error_is_hard`, `incomparable_is_unknown`.
-/

namespace Sqljson
namespace C17
open Time Exec

theorem cast_identity (env : Env) (useTZ : Bool) (d : DateTime) : castTo env useTZ d.kind d = .ok d :=
  castTo_diag env useTZ d

/-- a cast that needs the time zone without `WithTZ` is raised as a non-suppressible error:
    `returnError` lets it out even with `verbose = false` -/
theorem method_tz_error_is_hard (s : St) (f : Found) :
    returnError s f (.hard .tzRequired) = ⟨s, f, .failed, some (.hard .tzRequired)⟩ := by
  simp [returnError, Err.isVerbose]

/-- a comparison that needs the time zone without `WithTZ`: unknown together with the
    non-suppressible error -/
theorem compare_tz_error_is_hard (c : Ctx) (op : BinOp) (a b : DateTime)
    (h : compareDatetime c.env c.useTZ a b = .error .tzRequired) :
    compareItems c op (.dt a) (.dt b) = .val .unknown (some (.hard .tzRequired)) := by
  simp [compareItems, h]

/-- incomparable datetimes (time vs date/timestamp) compare as unknown, no error -/
theorem incomparable_is_unknown (c : Ctx) (op : BinOp) (a b : DateTime)
    (h : compareDatetime c.env c.useTZ a b = .ok (-2)) :
    compareItems c op (.dt a) (.dt b) = .val .unknown none := by
  simp [compareItems, h]

/-- **C17 coherence**: comparing two comparable datetimes with `WithTZ` gives the same answer as
    comparing them after explicit casts to their common type (any zone, any `today`) -/
theorem compare_is_compare_after_cast (env : Time.Env) (a b : DateTime) (τ : DTKind)
    (hτ : commonKind a.kind b.kind = some τ) (ha : DateOffsetOK a) (hb : DateOffsetOK b) :
    compareDatetime env true a b =
      (castTo env true τ a >>= fun a' => castTo env true τ b >>= fun b' => compareDatetime env true a' b') :=
  compare_equals_cast env a b τ hτ ha hb

/-- comparison is antisymmetric: swapping the operands negates a `-1/0/1` answer -/
theorem compare_antisymmetric (env : Time.Env) (useTZ : Bool) (a b : DateTime) (c : Int)
    (h : compareDatetime env useTZ a b = .ok c) (hc : c ≠ -2) : compareDatetime env useTZ b a = .ok (-c) :=
  compareDatetime_antisymm env useTZ a b c h hc

/-- times are incomparable with dates and timestamps -/
theorem times_incomparable (env : Time.Env) (useTZ : Bool) (a b : DateTime) :
    compareDatetime env useTZ a b = .ok (-2) ↔ isClock a.kind ≠ isClock b.kind :=
  compareDatetime_incomparable_iff env useTZ a b

/-- fractional seconds are rounded to the given precision, capped at 6 -/
theorem precision_capped_at_6 (c : Ctx) (op : UnOp) (src : List Char) (p : Int) (hop : op ≠ .datetime ∧ op ≠ .date)
    (hp : 0 ≤ p) (hr : Num.inInt32 p = true) (d : DateTime)
    (hd : Time.parseTime c.env src (if p > 6 then 6 else p) = some d) :
    parseDateTime c op src (some (.integer p none)) = .ok d := by
  have h1 : ¬ (p > Num.maxInt32 ∨ p < Num.minInt32) := by
    simp only [Num.inInt32, Bool.and_eq_true, decide_eq_true_eq] at hr; omega
  have h1' : (decide (p > Num.maxInt32) || decide (p < Num.minInt32)) = false := by simpa using h1
  have h2 : ¬ p < 0 := by omega
  have hd' : Time.parseTime c.env src (if 6 < p then 6 else p) = some d := hd
  simp only [parseDateTime, getNodeInt32, h1', h2]
  simp [hop.1, hop.2, h2, hd']

theorem negative_precision_rejected (c : Ctx) (op : UnOp) (src : List Char) (p : Int)
    (hop : op ≠ .datetime ∧ op ≠ .date) (hp : p < 0) (hr : Num.inInt32 p = true) :
    parseDateTime c op src (some (.integer p none)) = .error .verbose := by
  have h1 : ¬ (p > Num.maxInt32 ∨ p < Num.minInt32) := by
    simp only [Num.inInt32, Bool.and_eq_true, decide_eq_true_eq] at hr; omega
  have h1' : (decide (p > Num.maxInt32) || decide (p < Num.minInt32)) = false := by simpa using h1
  simp [parseDateTime, getNodeInt32, hop.1, hop.2, h1', hp]

/-- `.datetime(template)` is the non-suppressible "not yet supported" error -/
theorem template_unsupported (c : Ctx) (item : ItemK) (s : St) (arg : Node) (nx : Option Node)
    (src : List Char) (f : Found) :
    executeDateTimeMethod c item s .datetime (some arg) nx (.str src) f = ⟨s, f, .failed, some (.hard .template)⟩ := by
  simp [executeDateTimeMethod, returnError, Err.isVerbose]

theorem non_string_rejected (c : Ctx) (item : ItemK) (s : St) (op : UnOp) (arg nx : Option Node) (v : Item)
    (f : Found) (hv : ∀ t, v ≠ .str t) : executeDateTimeMethod c item s op arg nx v f = returnVerboseError s f := by
  cases v <;> simp_all [executeDateTimeMethod]

end C17
end Sqljson
