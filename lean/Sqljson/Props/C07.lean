import Sqljson.Lemmas.ApiGood
/-!
# C07 — Lax mode absorbs structural mismatches; strict mode reports each one

Step level, for every rest-of-chain evaluator:

* lax (`ignoreStructuralErrors = true`): `.key` on a non-object or on an object without the key,
  `.*` on a non-object yield no items and **no error** (`lax_key_*`, `lax_anykey_*`); `[*]` and
  subscripts treat a non-array as itself / as a one-element array (`lax_anyarray_wrap`, `C14.lax_wrap`);
* arrays are unwrapped **exactly one level** for member access: the elements are visited with
  `unwrap = false` (`key_unwraps_once`), so an array inside the array is a structural mismatch again;
* strict: a missing key, a value of the wrong kind, a non-array under `[*]`/subscripts is the
  suppressible structural error (`strict_*`), silent or not as `verbose` says; out-of-range subscripts:
  `C14.strict_oob`;
* below `.**` the flag is set for the following steps, so member accessors skip the nodes they do
  not apply to instead of failing (`below_any_skips`); since repairs D31/D32 so do subscripts and
  `.size()` (`below_any_skips_subscript`, `below_any_skips_size`).

The unbounded statement "a lax accessor path never returns an error, whatever the document" is
`lax_accessors_total` in `Props/C07b.lean`.
-/

namespace Sqljson
namespace C07
open Exec Api

theorem structural_lax (s : St) (f : Found) (h : s.ignoreSE = true) : structural s f = ⟨s, f, .notFound, none⟩ := by
  simp [structural, h]

theorem structural_strict (s : St) (f : Found) (h : s.ignoreSE = false) :
    structural s f = returnVerboseError s f := by simp [structural, h]

theorem lax_key_missing (c : Ctx) (item : ItemK) (any : AnyK) (s : St) (n : Node) (k : List Char)
    (nx : Option Node) (kvs : List (List Char × Item)) (f : Found) (u : Bool)
    (hig : s.ignoreSE = true) (hk : Item.lookup k kvs = none) :
    execKeyNode c item any s n k nx (.obj kvs) f u = ⟨s, f, .notFound, none⟩ := by
  simp [execKeyNode, hk, hig]

theorem lax_key_wrong_kind (c : Ctx) (item : ItemK) (any : AnyK) (s : St) (n : Node) (k : List Char)
    (nx : Option Node) (v : Item) (f : Found) (u : Bool)
    (hig : s.ignoreSE = true) (hv : v.isContainer = false) :
    execKeyNode c item any s n k nx v f u = ⟨s, f, .notFound, none⟩ := by
  cases v <;> simp_all [execKeyNode, Item.isContainer, structural]

theorem key_found (c : Ctx) (item : ItemK) (any : AnyK) (s : St) (n : Node) (k : List Char)
    (nx : Option Node) (kvs : List (List Char × Item)) (f : Found) (u : Bool) (val : Item)
    (hk : Item.lookup k kvs = some val) :
    execKeyNode c item any s n k nx (.obj kvs) f u = executeNextItem c item s nx val f := by
  simp [execKeyNode, hk]

/-- member access unwraps an array exactly one level: the elements are visited with `unwrap = false` -/
theorem key_unwraps_once (c : Ctx) (item : ItemK) (any : AnyK) (s : St) (n : Node) (k : List Char)
    (nx : Option Node) (xs : List Item) (f : Found) :
    execKeyNode c item any s n k nx (.arr xs) f true = any s (some n) xs f 1 1 1 false false ∧
    execKeyNode c item any s n k nx (.arr xs) f false = structural s f := by
  simp [execKeyNode]

theorem lax_anykey_wrong_kind (c : Ctx) (any : AnyK) (s : St) (n : Node) (nx : Option Node) (v : Item)
    (f : Found) (u : Bool) (hig : s.ignoreSE = true) (hv : v.isContainer = false) :
    execAnyKey c any s n nx v f u = ⟨s, f, .notFound, none⟩ := by
  cases v <;> simp_all [execAnyKey, Item.isContainer, structural]

theorem lax_anyarray_wrap (c : Ctx) (item : ItemK) (any : AnyK) (s : St) (nx : Option Node) (v : Item)
    (f : Found) (hlax : c.lax = true) (hv : v.isArr = false) :
    execAnyArray c item any s nx v f = executeNextItem c item s nx v f := by
  cases v <;> simp_all [execAnyArray, Item.isArr]

theorem strict_key_missing (c : Ctx) (item : ItemK) (any : AnyK) (s : St) (n : Node) (k : List Char)
    (nx : Option Node) (kvs : List (List Char × Item)) (f : Found) (u : Bool)
    (hig : s.ignoreSE = false) (hk : Item.lookup k kvs = none) :
    execKeyNode c item any s n k nx (.obj kvs) f u =
      ⟨s, f, .failed, if s.verbose then some .verbose else none⟩ := by
  simp only [execKeyNode, hk, hig]
  cases hv : s.verbose <;> simp

theorem strict_key_wrong_kind (c : Ctx) (item : ItemK) (any : AnyK) (s : St) (n : Node) (k : List Char)
    (nx : Option Node) (v : Item) (f : Found) (u : Bool)
    (hig : s.ignoreSE = false) (hv : v.isContainer = false) :
    execKeyNode c item any s n k nx v f u = returnVerboseError s f := by
  cases v <;> simp_all [execKeyNode, Item.isContainer, structural]

theorem strict_anykey_wrong_kind (c : Ctx) (any : AnyK) (s : St) (n : Node) (nx : Option Node) (v : Item)
    (f : Found) (u : Bool) (hig : s.ignoreSE = false) (hv : v.isContainer = false) :
    execAnyKey c any s n nx v f u = returnVerboseError s f := by
  cases v <;> simp_all [execAnyKey, Item.isContainer, structural]

theorem strict_anyarray_non_array (c : Ctx) (item : ItemK) (any : AnyK) (s : St) (nx : Option Node) (v : Item)
    (f : Found) (hstrict : c.lax = false) (hig : s.ignoreSE = false) (hv : v.isArr = false) :
    execAnyArray c item any s nx v f = returnVerboseError s f := by
  cases v <;> simp_all [execAnyArray, Item.isArr, structural]

/-- the structural error is reported exactly when `verbose` (the caller did not ask for silence) -/
theorem structural_error_class (s : St) (f : Found) :
    (returnVerboseError s f).status = .failed ∧
    (returnVerboseError s f).err = (if s.verbose then some .verbose else none) := by
  unfold returnVerboseError; split <;> simp_all

/-- below `.**` (the flag `ignore` of the element loop is set), the following step runs with
    structural errors ignored: a member accessor on a node it does not apply to yields nothing -/
theorem below_any_skips (c : Ctx) (item : ItemK) (any : AnyK) (s : St) (n : Node) (k : List Char)
    (nx : Option Node) (v : Item) (f : Found) (u : Bool) (hv : v.isContainer = false) :
    execKeyNode c item any { s with ignoreSE := true } n k nx v f u =
      ⟨{ s with ignoreSE := true }, f, .notFound, none⟩ :=
  lax_key_wrong_kind c item any _ n k nx v f u rfl hv

/-- strict mode, structural errors not ignored: a subscript on a non-array is the structural error -/
theorem strict_subscript_non_array (c : Ctx) (item : ItemK) (s : St) (subs : List Node) (nx : Option Node)
    (v : Item) (f : Found) (hstrict : c.lax = false) (hig : s.ignoreSE = false) (hv : v.isArr = false) :
    execArrayIndex c item s subs nx v f = returnVerboseError s f := by
  have : arrayOf c v = none := by cases v <;> simp_all [arrayOf, Item.isArr]
  simp [execArrayIndex, this, structural, hig]

/-- below `.**` in strict mode (repair D31): a subscript on a non-array is skipped like a member
    accessor — nothing is selected, no error, state and found items unchanged -/
theorem below_any_skips_subscript (c : Ctx) (item : ItemK) (s : St) (subs : List Node) (nx : Option Node)
    (v : Item) (f : Found) (hstrict : c.lax = false) (hig : s.ignoreSE = true) (hv : v.isArr = false) :
    execArrayIndex c item s subs nx v f = ⟨s, f, .notFound, none⟩ := by
  have : arrayOf c v = none := by cases v <;> simp_all [arrayOf, Item.isArr]
  simp [execArrayIndex, this, structural, hig]

/-- below `.**` in strict mode (repair D32): `.size()` of a non-array is skipped (it used to yield 1) -/
theorem below_any_skips_size (c : Ctx) (item : ItemK) (s : St) (nx : Option Node) (v : Item) (f : Found)
    (hstrict : c.lax = false) (hig : s.ignoreSE = true) (hv : v.isArr = false) :
    execMethodSize c item s nx v f = ⟨s, f, .notFound, none⟩ := by
  cases v <;> simp_all [execMethodSize, Item.isArr, structural]

/-- non-vacuity / end to end -/
example : run .query 20 ⟨.const .root (some (.key ['a'] (some (.key ['b'] none)))), true, false⟩
    (.obj [(['a'], .int 1)]) {} = .items [] := rfl
example : run .query 20 ⟨.const .root (some (.key ['a'] (some (.key ['b'] none)))), false, false⟩
    (.obj [(['a'], .int 1)]) {} = .error .verbose := rfl
example : run .query 20 ⟨.const .root (some (.any 0 maxU32 (some (.key ['b'] none)))), false, false⟩
    (.obj [(['a'], .obj [(['b'], .int 2)])]) {} = .items [.int 2] := rfl
/-- `strict $.**[0]` and `strict $.**.size()` on `{"a":[1]}`: the object and the number are skipped -/
example : run .query 20 ⟨.const .root (some (.any 0 maxU32 (some (.arrayIndex [.binary .subscript (some (.integer 0 none)) none none] none)))), false, false⟩
    (.obj [(['a'], .arr [.int 1])]) {} = .items [.int 1] := rfl
example : run .query 20 ⟨.const .root (some (.any 0 maxU32 (some (.method .size none)))), false, false⟩
    (.obj [(['a'], .arr [.int 1])]) {} = .items [.int 1] := rfl
/-- not below `.**`, strict mode still reports the mismatch -/
example : run .query 20 ⟨.const .root (some (.arrayIndex [.binary .subscript (some (.integer 0 none)) none none] none)), false, false⟩
    (.obj [(['a'], .arr [.int 1])]) {} = .error .verbose := rfl

end C07
end Sqljson
