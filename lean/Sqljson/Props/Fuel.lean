import Sqljson.Lemmas.Fuel
/-!
# Fuel independence of the model's answers

The executor model recurses on an explicit fuel; a run that exhausts it sets the sticky flag `St.oof`
and the entry points then answer `Outcome.outOfFuel`.  This file states, at the level of the API
(`Api.execute`, `Api.existsRun`, `Api.runRes`, `Api.run` and the five `…With` entry points):

* `execute_fuel_independent`, `existsRun_fuel_independent`, `runRes_fuel_independent`:
  a run whose final state has `oof = false` is reproduced exactly (state, result list, status, error)
  by every larger fuel;
* `run_fuel_independent`: `Api.run e n a doc o ≠ .outOfFuel → n ≤ m → Api.run e m a doc o = Api.run e n a doc o`;
* `run_unique`: any two fuels that both finish give the same outcome;
* `run_outOfFuel_iff`: the outcome is `outOfFuel` exactly when the underlying run ended with `oof`;
* `run_outOfFuel_downward`: if fuel `m` is not enough, no smaller fuel is.

* `fuelBound`, `fuel_adequate`, `fuel_adequate_ge`: a computable bound – `need D a.root + 2` with `D` the
  nesting depth of the document and the variable values – with which no entry point answers `outOfFuel`
  (unconditionally: every path, document, option set); `run_eq_bound_of_ge`, `run_eq_bound_of_finished`:
  so every run that finishes, and every run with at least `fuelBound`, gives the answer of the run with
  `fuelBound`.

They rest on `Exec.Fuel.sim_all` (Lemmas/Fuel.lean): the three dispatchers `xItem`, `xBool`, `xAny`
are monotone in the fuel, proved function by function over the whole executor, which in turn rests on
`oof` being sticky and never dropped or restored anywhere in the model; adequacy rests on
`Exec.Fuel.adequate_all` (same file, part 2).

The `example`s at the end are the non-vacuity checks: concrete runs where fuel 3 is exhausted and
fuel 50 and 500 agree on a proper answer.
-/

namespace Sqljson
namespace FuelProps
open Exec Api Exec.Fuel Api.Fuel

/-! ## the executor runs (`Res`) -/

theorem execute_fuel_independent (n m : Nat) (h : n ≤ m) (a : AST) (doc : Item) (o : Opts)
    (hfin : (execute n a doc o).st.oof = false) : execute m a doc o = execute n a doc o :=
  query_mono _ n m h _ _ _ _ hfin

theorem existsRun_fuel_independent (n m : Nat) (h : n ≤ m) (a : AST) (doc : Item) (o : Opts)
    (hfin : (existsRun n a doc o).st.oof = false) : existsRun m a doc o = existsRun n a doc o :=
  query_mono _ n m h _ _ _ _ hfin

theorem runRes_fuel_independent (e : Entry) (n m : Nat) (h : n ≤ m) (a : AST) (doc : Item) (o : Opts)
    (hfin : (runRes e n a doc o).st.oof = false) : runRes e m a doc o = runRes e n a doc o := by
  unfold runRes at *
  cases e <;> simp only at hfin ⊢
  · exact execute_fuel_independent n m h a doc o hfin
  · exact execute_fuel_independent n m h a doc o hfin
  · exact existsRun_fuel_independent n m h a doc o hfin
  · exact execute_fuel_independent n m h a doc o hfin
  · split at hfin
    · rename_i hp; simp only [hp, if_true]; exact execute_fuel_independent n m h a doc o hfin
    · rename_i hp; simp only [hp]; exact existsRun_fuel_independent n m h a doc o hfin

/-- a finished run started from a state without `oof` (trivially true of `initSt`; stated for symmetry) -/
theorem initSt_oof (a : AST) (doc : Item) (o : Opts) : (initSt a doc o).oof = false := rfl

/-! ## the five entry points -/

theorem queryWith_fuel_independent (n m : Nat) (h : n ≤ m) (a : AST) (doc : Item) (o : Opts)
    (hfin : queryWith n a doc o ≠ .outOfFuel) : queryWith m a doc o = queryWith n a doc o := by
  unfold queryWith at *
  dsimp only at *
  rw [execute_fuel_independent n m h a doc o (guarded_finished hfin)]

theorem firstWith_fuel_independent (n m : Nat) (h : n ≤ m) (a : AST) (doc : Item) (o : Opts)
    (hfin : firstWith n a doc o ≠ .outOfFuel) : firstWith m a doc o = firstWith n a doc o := by
  unfold firstWith at *
  dsimp only at *
  rw [execute_fuel_independent n m h a doc o (guarded_finished hfin)]

theorem existsWith_fuel_independent (n m : Nat) (h : n ≤ m) (a : AST) (doc : Item) (o : Opts)
    (hfin : existsWith n a doc o ≠ .outOfFuel) : existsWith m a doc o = existsWith n a doc o := by
  unfold existsWith at *
  dsimp only at *
  rw [existsRun_fuel_independent n m h a doc o (guarded_finished hfin)]

theorem matchWith_fuel_independent (n m : Nat) (h : n ≤ m) (a : AST) (doc : Item) (o : Opts)
    (hfin : matchWith n a doc o ≠ .outOfFuel) : matchWith m a doc o = matchWith n a doc o := by
  unfold matchWith at *
  dsimp only at *
  rw [execute_fuel_independent n m h a doc o (guarded_finished hfin)]

theorem existsOrMatchWith_fuel_independent (n m : Nat) (h : n ≤ m) (a : AST) (doc : Item) (o : Opts)
    (hfin : existsOrMatchWith n a doc o ≠ .outOfFuel) :
    existsOrMatchWith m a doc o = existsOrMatchWith n a doc o := by
  unfold existsOrMatchWith at *
  split
  · rename_i hp; simp only [hp, if_true] at hfin; exact matchWith_fuel_independent n m h a doc o hfin
  · rename_i hp; simp only [hp] at hfin; exact existsWith_fuel_independent n m h a doc o hfin

/-- **the answer does not depend on the fuel once there is enough of it** -/
theorem run_fuel_independent (e : Entry) (n m : Nat) (a : AST) (doc : Item) (o : Opts)
    (hfin : run e n a doc o ≠ .outOfFuel) (h : n ≤ m) : run e m a doc o = run e n a doc o := by
  unfold run at *
  cases e <;> simp only at hfin ⊢
  · exact queryWith_fuel_independent n m h a doc o hfin
  · exact firstWith_fuel_independent n m h a doc o hfin
  · exact existsWith_fuel_independent n m h a doc o hfin
  · exact matchWith_fuel_independent n m h a doc o hfin
  · exact existsOrMatchWith_fuel_independent n m h a doc o hfin

/-- any two fuels that both finish agree -/
theorem run_unique (e : Entry) (n m : Nat) (a : AST) (doc : Item) (o : Opts)
    (hn : run e n a doc o ≠ .outOfFuel) (hm : run e m a doc o ≠ .outOfFuel) :
    run e n a doc o = run e m a doc o := by
  rcases Nat.le_total n m with h | h
  · exact (run_fuel_independent e n m a doc o hn h).symm
  · exact run_fuel_independent e m n a doc o hm h

/-- if `m` is not enough fuel, no smaller amount is -/
theorem run_outOfFuel_downward (e : Entry) (n m : Nat) (a : AST) (doc : Item) (o : Opts) (h : n ≤ m)
    (hm : run e m a doc o = .outOfFuel) : run e n a doc o = .outOfFuel := by
  cases hn : run e n a doc o with
  | outOfFuel => rfl
  | _ =>
    have := run_fuel_independent e n m a doc o (by simp [hn]) h
    rw [hm, hn] at this
    cases this

/-- `outOfFuel` is answered exactly when the underlying executor run ended with the flag set -/
theorem run_outOfFuel_iff (e : Entry) (n : Nat) (a : AST) (doc : Item) (o : Opts) :
    run e n a doc o = .outOfFuel ↔ (runRes e n a doc o).st.oof = true := by
  unfold run runRes
  cases e <;> simp only [queryWith, firstWith, existsWith, matchWith, existsOrMatchWith]
  · exact guarded_outOfFuel_iff (by split <;> simp)
  · exact guarded_outOfFuel_iff (by split <;> simp)
  · exact guarded_outOfFuel_iff (by (repeat' split) <;> simp)
  · exact guarded_outOfFuel_iff (by (repeat' split) <;> simp)
  · split
    · exact guarded_outOfFuel_iff (by (repeat' split) <;> simp)
    · exact guarded_outOfFuel_iff (by (repeat' split) <;> simp)

/-! ## adequacy: a computable amount of fuel that always suffices -/

/-- Enough fuel for every entry point: `need D root + 2`, where `D` bounds the nesting depth of the
    document and of the variable values, and `need D` charges 4 per nesting level of the path tree
    (`next` pointers and operands alike) plus `D` for every `.**` step on the way.
    (`xItem` recurses on sub-nodes and `next` nodes; it re-enters the same node at most twice more –
    through `xBool` for a predicate, through `xAny` and back for the auto-unwrapping of an array target –
    and `.**` recurses through `xAny` once per level of the item.) -/
def fuelBound (a : AST) (doc : Item) (o : Opts) : Nat := need (docDepth doc o) a.root + 2

theorem runRes_adequate (e : Entry) (n : Nat) (a : AST) (doc : Item) (o : Opts) (hn : fuelBound a doc o ≤ n) :
    (runRes e n a doc o).st.oof = false := by
  have hq : ∀ f : Found, (query (mkCtx a doc o) n (initSt a doc o) a.root doc f).st.oof = false := fun f =>
    (query_adequate (mkCtx a doc o) (mkCtx_ok a doc o) n f hn
      (by simp only [docDepth]; omega) (initSt_ok a doc o)).1
  unfold runRes
  cases e <;> simp only
  · exact hq _
  · exact hq _
  · exact hq _
  · exact hq _
  · split
    · exact hq _
    · exact hq _

/-- **fuel adequacy**: with `fuelBound` (or more) fuel no entry point answers `outOfFuel` – for every
    path, document, variables, mode, cancellation budget and regex oracle -/
theorem fuel_adequate_ge (e : Entry) (n : Nat) (a : AST) (doc : Item) (o : Opts) (hn : fuelBound a doc o ≤ n) :
    run e n a doc o ≠ .outOfFuel := by
  intro h
  have := (run_outOfFuel_iff e n a doc o).mp h
  rw [runRes_adequate e n a doc o hn] at this
  cases this

theorem fuel_adequate (e : Entry) (a : AST) (doc : Item) (o : Opts) :
    run e (fuelBound a doc o) a doc o ≠ .outOfFuel :=
  fuel_adequate_ge e _ a doc o (Nat.le_refl _)

/-- hence the model has one answer: the run with `fuelBound`, reproduced by every larger fuel and by
    every smaller fuel that finishes -/
theorem run_eq_bound_of_ge (e : Entry) (n : Nat) (a : AST) (doc : Item) (o : Opts) (hn : fuelBound a doc o ≤ n) :
    run e n a doc o = run e (fuelBound a doc o) a doc o :=
  run_fuel_independent e _ n a doc o (fuel_adequate e a doc o) hn

theorem run_eq_bound_of_finished (e : Entry) (n : Nat) (a : AST) (doc : Item) (o : Opts)
    (hn : run e n a doc o ≠ .outOfFuel) : run e n a doc o = run e (fuelBound a doc o) a doc o :=
  run_unique e n _ a doc o hn (fuel_adequate e a doc o)

/-! ## non-vacuity: concrete runs -/

/-- `$.a.b.c` (lax) -/
def exPath : AST :=
  ⟨.const .root (some (.key ['a'] (some (.key ['b'] (some (.key ['c'] none)))))), true, false⟩
/-- `{"a": {"b": {"c": 7}}}` -/
def exDoc : Item := .obj [(['a'], .obj [(['b'], .obj [(['c'], .int 7)])])]

example : run .query 3 exPath exDoc {} = .outOfFuel := rfl
example : run .query 4 exPath exDoc {} = .items [.int 7] := rfl
example : run .query 50 exPath exDoc {} = .items [.int 7] := rfl
example : run .query 500 exPath exDoc {} = .items [.int 7] := rfl

/-- `strict $.** ? (@ > 1)`: all numbers greater than 1 anywhere in the document -/
def exPath2 : AST :=
  ⟨.const .root (some (.any 0 maxU32 (some (.unary .filter
      (some (.binary .gt (some (.const .current none)) (some (.integer 1 none)) none)) none)))), false, false⟩
/-- `[1, [2, [3, {"x": 4}]]]` -/
def exDoc2 : Item := .arr [.int 1, .arr [.int 2, .arr [.int 3, .obj [(['x'], .int 4)]]]]

example : run .query 3 exPath2 exDoc2 {} = .outOfFuel := rfl
example : run .query 50 exPath2 exDoc2 {} = .items [.int 2, .int 3, .int 4] := rfl
example : run .query 500 exPath2 exDoc2 {} = .items [.int 2, .int 3, .int 4] := rfl
example : run .exists 3 exPath2 exDoc2 {} = .outOfFuel := rfl
example : run .exists 50 exPath2 exDoc2 {} = .bool true := rfl

example : run .query 100000 exPath2 exDoc2 {} = .items [.int 2, .int 3, .int 4] :=
  run_fuel_independent .query 50 100000 exPath2 exDoc2 {} (by rw [show run .query 50 exPath2 exDoc2 {} = .items [.int 2, .int 3, .int 4] from rfl]; simp) (by decide)


example : fuelBound exPath exDoc {} = 18 := by decide
example : fuelBound exPath2 exDoc2 {} = 26 := by decide
/-- the driver's default fuel (100000) is far above the bound for these inputs -/
example : run .query 100000 exPath2 exDoc2 {} = run .query (fuelBound exPath2 exDoc2 {}) exPath2 exDoc2 {} :=
  run_eq_bound_of_ge .query 100000 exPath2 exDoc2 {} (by decide)

end FuelProps
end Sqljson
