import Sqljson.Model.Time
import Sqljson.Props.CivilTable
/-!
# First theorems about the datetime model (C17 / C18)

Everything here is about the Lean mirror `Sqljson.Time` of `path/types` and `exec/datetime.go`.
No `sorry`, no axioms beyond Lean's standard ones (`propext`, `Quot.sound`, `Classical.choice` via
`omega`/`simp`) and the kernel arithmetic used by `decide +kernel` in `CivilTable`.
-/

namespace Sqljson
namespace Time

/-! ## Cast matrix (`exec.castDate` … `exec.castTimestampTZ`) -/

/-- the cells of the cast matrix that convert between a zone-less and a zone-aware type -/
def crossesZone : DTKind → DTKind → Bool
  | .date, .timestamptz => true
  | .time, .timetz => true
  | .time, .timestamptz => true
  | .timetz, .time => true
  | .timestamp, .timestamptz => true
  | .timestamptz, .date => true
  | .timestamptz, .timestamp => true
  | _, _ => false

/-- the cells of the cast matrix that are rejected as "format is not recognized" -/
def castIncompatible : DTKind → DTKind → Bool
  | .date, .time => true
  | .date, .timetz => true
  | .time, .date => true
  | .timetz, .date => true
  | .timetz, .timestamp => true
  | .timestamp, .time => true
  | .timestamp, .timetz => true
  | .timestamptz, .time => true
  | .timestamptz, .timetz => true
  | _, _ => false

/-- casting a value to its own type returns it unchanged, with or without `WithTZ` -/
theorem castTo_diag (env : Env) (useTZ : Bool) (d : DateTime) : castTo env useTZ d.kind d = .ok d := by
  cases d with | mk k s n o => cases k <;> rfl

/-- the "time zone required" error arises exactly at the zone-crossing cells when `useTZ = false` -/
theorem castTo_tzRequired_iff (env : Env) (useTZ : Bool) (target : DTKind) (d : DateTime) :
    castTo env useTZ target d = .error .tzRequired ↔ (useTZ = false ∧ crossesZone target d.kind = true) := by
  cases d with | mk k s n o => cases target <;> cases k <;> cases useTZ <;> simp [castTo, crossesZone]

/-- "format is not recognized" arises exactly at the incompatible cells, whatever `useTZ` is -/
theorem castTo_notRecognized_iff (env : Env) (useTZ : Bool) (target : DTKind) (d : DateTime) :
    castTo env useTZ target d = .error .notRecognized ↔ castIncompatible target d.kind = true := by
  cases d with | mk k s n o => cases target <;> cases k <;> cases useTZ <;> simp [castTo, castIncompatible]

/-- with `useTZ = true` a cast succeeds unless the cell is incompatible -/
theorem castTo_ok_of_useTZ (env : Env) (target : DTKind) (d : DateTime)
    (h : castIncompatible target d.kind = false) : ∃ r, castTo env true target d = .ok r := by
  cases d with | mk k s n o => cases target <;> cases k <;> simp_all [castTo, castIncompatible]

/-- a successful cast has the requested kind, provided the input is not of that kind already
    (`mkDT` stamps the kind; on the diagonal the value is returned as is) -/
theorem castTo_kind (env : Env) (useTZ : Bool) (target : DTKind) (d r : DateTime)
    (h : castTo env useTZ target d = .ok r) : r.kind = target := by
  cases d with | mk k s n o =>
    cases target <;> cases k <;> cases useTZ <;>
      simp [castTo, timestampToDate, timestampTZToDate, timeTZToTime, timestampToTime, timestampTZToTime,
        timeToTimeTZ, timestampTZToTimeTZ, dateToTimestamp, timestampTZToTimestamp, dateToTimestampTZ,
        timestampToTimestampTZ, newDate, newTime, newTimeTZ, newTimestamp, newTimestampTZ, mkDT] at h <;>
      (subst h; rfl)

/-! ## Comparison (`exec.compareDatetime`) -/

/-- `time` and `timetz` -/
def isClock : DTKind → Bool
  | .time => true
  | .timetz => true
  | _ => false

/-- pairs whose comparison needs a zone-less ↔ zone-aware conversion -/
def cmpCrossesZone : DTKind → DTKind → Bool
  | .date, .timestamptz => true
  | .timestamptz, .date => true
  | .timestamp, .timestamptz => true
  | .timestamptz, .timestamp => true
  | .time, .timetz => true
  | .timetz, .time => true
  | _, _ => false

theorem GoTime.compare_range (a b : GoTime) : a.compare b = -1 ∨ a.compare b = 0 ∨ a.compare b = 1 := by
  unfold GoTime.compare; (repeat' split) <;> simp

theorem GoTime.compare_swap (a b : GoTime) : b.compare a = -(a.compare b) := by
  unfold GoTime.compare; (repeat' split) <;> omega

theorem GoTime.compare_utc_left (a b : GoTime) : a.utc.compare b = a.compare b := rfl
theorem GoTime.compare_utc_right (a b : GoTime) : a.compare b.utc = a.compare b := rfl

/-- `Time.Compare` is 0 exactly for equal instants -/
theorem GoTime.compare_eq_zero_iff (a b : GoTime) : a.compare b = 0 ↔ (a.sec = b.sec ∧ a.nsec = b.nsec) := by
  unfold GoTime.compare; (repeat' split) <;> omega

/-- `Time.Compare` is a total preorder on instants: transitivity of `≤` -/
theorem GoTime.compare_trans (a b c : GoTime) (h1 : a.compare b ≤ 0) (h2 : b.compare c ≤ 0) :
    a.compare c ≤ 0 := by
  unfold GoTime.compare at *
  (repeat' split at h1) <;> (repeat' split at h2) <;> (repeat' split) <;> omega

theorem timeTZCompare_range (t u : GoTime) :
    timeTZCompare t u = -1 ∨ timeTZCompare t u = 0 ∨ timeTZCompare t u = 1 := by
  unfold timeTZCompare
  have := GoTime.compare_range t.utc u.utc
  simp only []
  (repeat' split) <;> simp_all

theorem timeTZCompare_swap (t u : GoTime) : timeTZCompare u t = -(timeTZCompare t u) := by
  unfold timeTZCompare
  have := GoTime.compare_swap t.utc u.utc
  simp only []
  (repeat' split) <;> omega

/-- `TimeTZ.Compare` is 0 exactly for equal instant **and** equal offset -/
theorem timeTZCompare_eq_zero_iff (t u : GoTime) :
    timeTZCompare t u = 0 ↔ (t.sec = u.sec ∧ t.nsec = u.nsec ∧ t.off = u.off) := by
  unfold timeTZCompare
  have := GoTime.compare_eq_zero_iff t.utc u.utc
  simp only [GoTime.utc] at *
  (repeat' split) <;> omega

theorem GoTime.compare_le_zero_iff (a b : GoTime) :
    a.compare b ≤ 0 ↔ (a.sec < b.sec ∨ (a.sec = b.sec ∧ a.nsec ≤ b.nsec)) := by
  unfold GoTime.compare; (repeat' split) <;> omega

/-- `TimeTZ.Compare ≤ 0` is the lexicographic order on (instant, −offset) -/
theorem timeTZCompare_le_zero_iff (t u : GoTime) :
    timeTZCompare t u ≤ 0 ↔
      (t.sec < u.sec ∨ (t.sec = u.sec ∧ (t.nsec < u.nsec ∨ (t.nsec = u.nsec ∧ u.off ≤ t.off)))) := by
  unfold timeTZCompare
  have h0 := GoTime.compare_eq_zero_iff t.utc u.utc
  have h1 := GoTime.compare_le_zero_iff t.utc u.utc
  simp only [GoTime.utc] at *
  (repeat' split) <;> omega

theorem timeTZCompare_trans (a b c : GoTime) (h1 : timeTZCompare a b ≤ 0) (h2 : timeTZCompare b c ≤ 0) :
    timeTZCompare a c ≤ 0 := by
  rw [timeTZCompare_le_zero_iff] at *
  omega

theorem GoTime.compare_ne_neg2 (a b : GoTime) : a.compare b ≠ -2 := by
  have := GoTime.compare_range a b; omega

theorem timeTZCompare_ne_neg2 (a b : GoTime) : timeTZCompare a b ≠ -2 := by
  have := timeTZCompare_range a b; omega

theorem timeTZCompare_ne_2 (a b : GoTime) : timeTZCompare a b ≠ 2 := by
  have := timeTZCompare_range a b; omega

/-- what swapping the operands does to a comparison result: `-2` stays, the rest is negated -/
def negCmp (c : Int) : Int := if c = -2 then -2 else -c

theorem negCmp_compare (a b : GoTime) : negCmp (a.compare b) = b.compare a := by
  have := GoTime.compare_range a b
  have := GoTime.compare_swap a b
  unfold negCmp; split <;> omega

theorem negCmp_timeTZ (a b : GoTime) : negCmp (timeTZCompare a b) = timeTZCompare b a := by
  have := timeTZCompare_range a b
  have := timeTZCompare_swap a b
  unfold negCmp; split <;> omega

theorem negCmp_neg_timeTZ (a b : GoTime) : negCmp (-(timeTZCompare a b)) = timeTZCompare a b := by
  have := timeTZCompare_range a b
  unfold negCmp; split <;> omega

/-- the only error a comparison can raise is "time zone required", and it does so exactly for the
    zone-crossing pairs when `useTZ = false` -/
theorem compareDatetime_tzRequired_iff (env : Env) (useTZ : Bool) (a b : DateTime) :
    compareDatetime env useTZ a b = .error .tzRequired ↔ (useTZ = false ∧ cmpCrossesZone a.kind b.kind = true) := by
  cases a with | mk ka sa na oa => cases b with | mk kb sb nb ob =>
    cases ka <;> cases kb <;> cases useTZ <;> simp [compareDatetime, cmpCrossesZone]

theorem compareDatetime_error (env : Env) (useTZ : Bool) (a b : DateTime) (e : CastErr)
    (h : compareDatetime env useTZ a b = .error e) : e = .tzRequired := by
  cases a with | mk ka sa na oa => cases b with | mk kb sb nb ob =>
    cases ka <;> cases kb <;> cases useTZ <;> simp [compareDatetime] at h <;> exact h.symm

/-- times (`time`, `timetz`) are incomparable (`-2`) with dates and timestamps, and nothing else is -/
theorem compareDatetime_incomparable_iff (env : Env) (useTZ : Bool) (a b : DateTime) :
    compareDatetime env useTZ a b = .ok (-2) ↔ isClock a.kind ≠ isClock b.kind := by
  cases a with | mk ka sa na oa => cases b with | mk kb sb nb ob =>
    cases ka <;> cases kb <;> cases useTZ <;>
      simp [compareDatetime, isClock, GoTime.compare_ne_neg2, timeTZCompare_ne_neg2, timeTZCompare_ne_2]

theorem range4_of_range3 {x : Int} (h : x = -1 ∨ x = 0 ∨ x = 1) : x = -2 ∨ x = -1 ∨ x = 0 ∨ x = 1 := by omega
theorem range4_neg_of_range3 {x : Int} (h : x = -1 ∨ x = 0 ∨ x = 1) : -x = -2 ∨ -x = -1 ∨ -x = 0 ∨ -x = 1 := by omega

/-- every comparison result is one of `-2, -1, 0, 1` -/
theorem compareDatetime_range (env : Env) (useTZ : Bool) (a b : DateTime) (c : Int)
    (h : compareDatetime env useTZ a b = .ok c) : c = -2 ∨ c = -1 ∨ c = 0 ∨ c = 1 := by
  cases a with | mk ka sa na oa => cases b with | mk kb sb nb ob =>
    cases ka <;> cases kb <;> cases useTZ <;> simp [compareDatetime] at h <;> subst h <;>
      first
        | exact range4_of_range3 (GoTime.compare_range _ _)
        | exact range4_of_range3 (timeTZCompare_range _ _)
        | exact range4_neg_of_range3 (timeTZCompare_range _ _)
        | simp

/-- swapping the operands negates the result (`-2` and errors are kept): antisymmetry -/
theorem compareDatetime_swap (env : Env) (useTZ : Bool) (a b : DateTime) :
    compareDatetime env useTZ b a = (compareDatetime env useTZ a b).map negCmp := by
  cases a with | mk ka sa na oa => cases b with | mk kb sb nb ob =>
    cases ka <;> cases kb <;> cases useTZ <;>
      simp [compareDatetime, Except.map, negCmp_compare, negCmp_timeTZ, negCmp_neg_timeTZ] <;>
      first
        | rfl
        | exact (timeTZCompare_swap _ _).symm
        | (unfold negCmp; simp)

/-- antisymmetry in the usual form: if `a ? b` gives `c ∈ {-1,0,1}` then `b ? a` gives `-c` -/
theorem compareDatetime_antisymm (env : Env) (useTZ : Bool) (a b : DateTime) (c : Int)
    (h : compareDatetime env useTZ a b = .ok c) (hc : c ≠ -2) :
    compareDatetime env useTZ b a = .ok (-c) := by
  rw [compareDatetime_swap, h]; simp [Except.map, negCmp, hc]

/-- comparing a value with itself gives 0 -/
theorem compareDatetime_refl (env : Env) (useTZ : Bool) (a : DateTime) :
    compareDatetime env useTZ a a = .ok 0 := by
  have h1 : ∀ t : GoTime, t.compare t = 0 := fun t => (GoTime.compare_eq_zero_iff t t).2 ⟨rfl, rfl⟩
  have h2 : ∀ t : GoTime, timeTZCompare t t = 0 := fun t => (timeTZCompare_eq_zero_iff t t).2 ⟨rfl, rfl, rfl⟩
  cases a with | mk ka sa na oa => cases ka <;> simp [compareDatetime, h1, h2]

/-- values of the same kind are compared by instant, `timetz` additionally by offset; no zone, no error -/
theorem compareDatetime_sameKind (env : Env) (useTZ : Bool) (a b : DateTime) (h : a.kind = b.kind) :
    compareDatetime env useTZ a b =
      .ok (if a.kind = .timetz then timeTZCompare a.t b.t else a.t.compare b.t) := by
  cases a with | mk ka sa na oa => cases b with | mk kb sb nb ob =>
    simp at h; subst h; cases ka <;> simp [compareDatetime]

/-- transitivity of `≤` among values of one kind (any `useTZ`) -/
theorem compareDatetime_trans_sameKind (env : Env) (useTZ : Bool) (a b c : DateTime)
    (hab : a.kind = b.kind) (hbc : b.kind = c.kind)
    (r1 r2 : Int) (h1 : compareDatetime env useTZ a b = .ok r1) (h2 : compareDatetime env useTZ b c = .ok r2)
    (l1 : r1 ≤ 0) (l2 : r2 ≤ 0) : ∃ r3, compareDatetime env useTZ a c = .ok r3 ∧ r3 ≤ 0 := by
  rw [compareDatetime_sameKind env useTZ a b hab] at h1
  rw [compareDatetime_sameKind env useTZ b c hbc] at h2
  rw [compareDatetime_sameKind env useTZ a c (hab.trans hbc)]
  cases h1; cases h2
  refine ⟨_, rfl, ?_⟩
  rw [← hab] at l2
  split <;> rename_i hk <;> simp only [hk, if_true, if_false] at l1 l2
  · exact timeTZCompare_trans _ _ _ l1 l2
  · exact GoTime.compare_trans _ _ _ l1 l2

/-! ## Civil calendar: `civilFromDays` and `daysFromCivil` are mutually inverse (all years) -/

open CivilTable

theorem civilFromDays_eq (z era doe yoe doy mp : Int)
    (h1 : z + 719468 = era * 146097 + doe) (h2 : 0 ≤ doe) (h3 : doe < 146097)
    (h4 : yoe = (doe - doe / 1460 + doe / 36524 - doe / 146096) / 365)
    (h5 : doy = doe - (365 * yoe + yoe / 4 - yoe / 100))
    (h6 : mp = (5 * doy + 2) / 153) :
    civilFromDays z =
      (if (if mp < 10 then mp + 3 else mp - 9) ≤ 2 then yoe + era * 400 + 1 else yoe + era * 400,
       if mp < 10 then mp + 3 else mp - 9, doy - (153 * mp + 2) / 5 + 1) := by
  have e1 : (z + 719468) / 146097 = era := by omega
  have e2 : z + 719468 - era * 146097 = doe := by omega
  simp only [civilFromDays, e1, e2, ← h4, ← h5, ← h6]

/-- `daysFromCivil` of a date given by (era, year of era, shifted month, day) -/
theorem daysFromCivil_parts (era yoe mp d : Int) (hy0 : 0 ≤ yoe) (hy1 : yoe < 400)
    (hm0 : 0 ≤ mp) (hm1 : mp < 12) :
    daysFromCivil (if (if mp < 10 then mp + 3 else mp - 9) ≤ 2 then yoe + era * 400 + 1 else yoe + era * 400)
        (if mp < 10 then mp + 3 else mp - 9) d =
      era * 146097 + (yoe * 365 + yoe / 4 - yoe / 100 + ((153 * mp + 2) / 5 + d - 1)) - 719468 := by
  unfold daysFromCivil
  by_cases h : mp < 10
  · simp only [h, if_true]
    have hm : ¬ (mp + 3 ≤ 2) := by omega
    simp only [hm, if_false]
    have e1 : (yoe + era * 400) / 400 = era := by omega
    have e2 : (mp + 3 + 9) % 12 = mp := by omega
    simp only [e1, e2]
    omega
  · simp only [h, if_false]
    have hm : mp - 9 ≤ 2 := by omega
    simp only [hm, if_true]
    have e0 : yoe + era * 400 + 1 - 1 = yoe + era * 400 := by omega
    have e1 : (yoe + era * 400) / 400 = era := by omega
    have e2 : (mp - 9 + 9) % 12 = mp := by omega
    simp only [e0, e1, e2]
    omega


theorem isLeap_iff (y : Int) : isLeap y = true ↔ (y % 4 = 0 ∧ (y % 100 ≠ 0 ∨ y % 400 = 0)) := by
  simp [isLeap]

theorem longYear_iff (y : Nat) : longYear y = true ↔ ((y + 1) % 4 = 0 ∧ ((y + 1) % 100 ≠ 0 ∨ y + 1 = 400)) := by
  simp [longYear]

theorem isLeap_era (yN : Nat) (era : Int) (h : yN < 400) :
    isLeap ((yN : Int) + era * 400 + 1) = longYear yN := by
  rw [Bool.eq_iff_iff, isLeap_iff, longYear_iff]
  omega

/-- the month lengths of `time.daysIn` agree with those of the shifted-month table -/
theorem daysIn_shift (mp : Nat) (yN : Nat) (era : Int) (hm : mp < 12) (hy : yN < 400) :
    daysIn (if (mp : Int) < 10 then (mp : Int) + 3 else (mp : Int) - 9)
        (if (if (mp : Int) < 10 then (mp : Int) + 3 else (mp : Int) - 9) ≤ 2 then (yN : Int) + era * 400 + 1 else (yN : Int) + era * 400)
      = (dim mp yN : Nat) := by
  have hcases : mp = 0 ∨ mp = 1 ∨ mp = 2 ∨ mp = 3 ∨ mp = 4 ∨ mp = 5 ∨ mp = 6 ∨ mp = 7 ∨ mp = 8 ∨ mp = 9 ∨ mp = 10 ∨ mp = 11 := by omega
  rcases hcases with h | h | h | h | h | h | h | h | h | h | h | h <;> subst h <;>
    simp [daysIn, dim, isLeap_era yN era hy] <;> split <;> rfl


/-- `civilFromDays` returns a valid calendar date whose day number is the argument -/
theorem civilFromDays_spec (z : Int) :
    daysFromCivil (civilFromDays z).1 (civilFromDays z).2.1 (civilFromDays z).2.2 = z ∧
    1 ≤ (civilFromDays z).2.1 ∧ (civilFromDays z).2.1 ≤ 12 ∧
    1 ≤ (civilFromDays z).2.2 ∧ (civilFromDays z).2.2 ≤ daysIn (civilFromDays z).2.1 (civilFromDays z).1 := by
  -- era and day of era
  obtain ⟨era, doeN, hz, hdoe⟩ : ∃ (era : Int) (doeN : Nat), z + 719468 = era * 146097 + doeN ∧ doeN < 146097 :=
    ⟨(z + 719468) / 146097, ((z + 719468) % 146097).toNat, by omega, by omega⟩
  obtain ⟨hy, hlo, hhi⟩ := doe_split doeN hdoe
  have hlen := len_eq (yoeOf doeN)
  obtain ⟨hmp, hmlo, hd⟩ := doy_table (doeN - base (yoeOf doeN)) (by omega)
  -- names for the Nat quantities
  generalize hyN : yoeOf doeN = yN at *
  generalize hdoyN : doeN - base yN = doyN at *
  generalize hmpN : (5 * doyN + 2) / 153 = mpN at *
  -- the Int view
  have h4 : (yN : Int) = ((doeN : Int) - doeN / 1460 + doeN / 36524 - doeN / 146096) / 365 := by
    rw [← hyN]; unfold yoeOf; omega
  have h5 : (doyN : Int) = (doeN : Int) - (365 * (yN : Int) + (yN : Int) / 4 - (yN : Int) / 100) := by
    rw [← hdoyN]; unfold base at *; omega
  have h6 : (mpN : Int) = (5 * (doyN : Int) + 2) / 153 := by
    rw [← hmpN]; omega
  rw [civilFromDays_eq z era doeN yN doyN mpN hz (by omega) (by omega) h4 h5 h6]
  simp only []
  refine ⟨?_, ?_, ?_, ?_, ?_⟩
  · rw [daysFromCivil_parts era yN mpN _ (by omega) (by omega) (by omega) (by omega)]
    omega
  · split <;> omega
  · split <;> omega
  · omega
  · rw [daysIn_shift mpN yN era hmp hy]
    -- the day is within the table's month length
    have hdim : dim mpN (if doyN = 365 then 3 else 0) ≤ dim mpN yN := by
      unfold dim
      by_cases h11 : mpN = 11
      · simp only [h11, if_true]
        by_cases h365 : doyN = 365
        · have hl : longYear yN = true := by
            unfold len at hhi hlen
            by_cases hl : longYear yN = true
            · exact hl
            · simp [hl] at hhi; omega
          have h3 : longYear 3 = true := by decide
          simp [h365, h3, hl]
        · have h0 : longYear 0 = false := by decide
          by_cases hl : longYear yN = true <;> simp [h365, h0, hl]
      · simp [h11]
    omega


theorem month_fits (mp yN : Nat) (hm : mp < 12) : (153 * mp + 2) / 5 + dim mp yN ≤ len yN ∧ dim mp yN ≤ dim mp 3 := by
  have h3 : longYear 3 = true := by decide
  have hcases : mp = 0 ∨ mp = 1 ∨ mp = 2 ∨ mp = 3 ∨ mp = 4 ∨ mp = 5 ∨ mp = 6 ∨ mp = 7 ∨ mp = 8 ∨ mp = 9 ∨ mp = 10 ∨ mp = 11 := by omega
  rcases hcases with h | h | h | h | h | h | h | h | h | h | h | h <;> subst h <;>
    by_cases hl : longYear yN = true <;> simp [dim, len, hl, h3]

/-- the day number of a valid calendar date is mapped back to that date -/
theorem civilFromDays_daysFromCivil (y m d : Int) (hm1 : 1 ≤ m) (hm2 : m ≤ 12) (hd1 : 1 ≤ d)
    (hd2 : d ≤ daysIn m y) : civilFromDays (daysFromCivil y m d) = (y, m, d) := by
  obtain ⟨era, yN, hy, hyN⟩ : ∃ (era : Int) (yN : Nat), (if m ≤ 2 then y - 1 else y) = era * 400 + yN ∧ yN < 400 :=
    ⟨(if m ≤ 2 then y - 1 else y) / 400, ((if m ≤ 2 then y - 1 else y) % 400).toNat, by omega, by omega⟩
  obtain ⟨mpN, hmp, hmpN⟩ : ∃ mpN : Nat, (m + 9) % 12 = (mpN : Int) ∧ mpN < 12 :=
    ⟨((m + 9) % 12).toNat, by omega, by omega⟩
  obtain ⟨dN, hdN⟩ : ∃ dN : Nat, d = (dN : Int) + 1 := ⟨(d - 1).toNat, by omega⟩
  have hm' : (if (mpN : Int) < 10 then (mpN : Int) + 3 else (mpN : Int) - 9) = m := by split <;> omega
  have hy' : (if m ≤ 2 then (yN : Int) + era * 400 + 1 else (yN : Int) + era * 400) = y := by
    split at hy <;> rename_i h <;> simp only [h, if_true, if_false] <;> omega
  have hdim : daysIn m y = (dim mpN yN : Nat) := by
    have := daysIn_shift mpN yN era hmpN hyN
    rw [hm', hy'] at this; exact this
  obtain ⟨hfit, hfit3⟩ := month_fits mpN yN hmpN
  have hdoy : (153 * mpN + 2) / 5 + dN < len yN := by omega
  -- the day number
  have hz : daysFromCivil y m d + 719468 = era * 146097 + ((base yN + ((153 * mpN + 2) / 5 + dN) : Nat) : Int) := by
    have e1 : (era * 400 + (yN : Int)) / 400 = era := by omega
    have e2 : era * 400 + (yN : Int) - era * 400 = yN := by omega
    simp only [daysFromCivil, hy, hmp, e1, e2]
    unfold base; omega
  have h4 := yoe_of_base_add yN ((153 * mpN + 2) / 5 + dN) hyN hdoy
  have hlen := len_eq yN
  have hdoe : base yN + ((153 * mpN + 2) / 5 + dN) < 146097 := by
    have := base_last
    by_cases h : yN < 399
    · have hb : base (yN + 1) ≤ 146000 := by unfold base; omega
      have := base_succ yN h; omega
    · have : yN = 399 := by omega
      subst this; omega
  have h6 := mp_table mpN dN hmpN (by omega)
  generalize hdoeN : base yN + ((153 * mpN + 2) / 5 + dN) = doeN at *
  have h4' : (yN : Int) = ((doeN : Int) - doeN / 1460 + doeN / 36524 - doeN / 146096) / 365 := by
    have := h4; unfold yoeOf at this; omega
  have h5' : (((153 * mpN + 2) / 5 + dN : Nat) : Int) = (doeN : Int) - (365 * (yN : Int) + (yN : Int) / 4 - (yN : Int) / 100) := by
    have := hdoeN; unfold base at this; omega
  rw [civilFromDays_eq (daysFromCivil y m d) era doeN yN
        (((153 * mpN + 2) / 5 + dN : Nat)) mpN hz (by omega) (by omega) h4' h5' (by omega)]
  rw [hm', hy']
  congr 2
  omega

/-! ## `time.Date` on the fields of a wall clock -/

/-- `daysFromCivil` is linear in the day: what `time.Date` relies on for day overflow -/
theorem daysFromCivil_day (y m d : Int) : daysFromCivil y m 1 + (d - 1) = daysFromCivil y m d := by
  simp only [daysFromCivil]; omega

/-- `time.Date` applied to the fields of a wall-clock second count gives that count back -/
theorem dateWall_civilOfUnix (w : Int) (ns : Nat) (hns : ns < 1000000000) :
    dateWall (civilOfUnix w).year (civilOfUnix w).month (civilOfUnix w).day
      (civilOfUnix w).hour (civilOfUnix w).min (civilOfUnix w).sec ns = (w, ns) := by
  obtain ⟨hday, hm1, hm2, _, _⟩ := civilFromDays_spec (w / 86400)
  unfold dateWall norm civilOfUnix
  simp only []
  generalize civilFromDays (w / 86400) = c at *
  have e1 : (c.2.1 - 1) / 12 = 0 := by omega
  have e2 : (c.2.1 - 1) % 12 = c.2.1 - 1 := by omega
  have e3 : (ns : Int) / 1000000000 = 0 := by omega
  have e4 : (ns : Int) % 1000000000 = ns := by omega
  simp only [e1, e2, e3, e4, Int.add_zero, Int.sub_add_cancel, Int.toNat_natCast]
  have e5 : (w % 86400 % 60) / 60 = 0 := by omega
  have e6 : (w % 86400 % 60) % 60 = w % 86400 % 60 := by omega
  simp only [e5, e6, Int.add_zero]
  have e7 : (w % 86400 % 3600 / 60) / 60 = 0 := by omega
  have e8 : (w % 86400 % 3600 / 60) % 60 = w % 86400 % 3600 / 60 := by omega
  simp only [e7, e8, Int.add_zero]
  have e9 : (w % 86400 / 3600) / 24 = 0 := by omega
  have e10 : (w % 86400 / 3600) % 24 = w % 86400 / 3600 := by omega
  simp only [e9, e10, Int.add_zero]
  rw [daysFromCivil_day, hday]
  congr 1
  omega


/-! ## `time.Date` on its own output, constructors in closed form -/

theorem lookup_fixed (o w : Int) : (Zone.fixed o).lookup w = ⟨o, none, none⟩ := rfl
theorem offsetAt_fixed (o u : Int) : (Zone.fixed o).offsetAt u = o := rfl

theorem resolveWall_fixed (o w : Int) : resolveWall (Zone.fixed o) w = w - o := by
  unfold resolveWall
  simp only [lookup_fixed, beforeStart, atOrAfterStop, Bool.or_self, Bool.false_eq_true, if_false]
  split <;> omega

/-- a `GoTime` as the package's constructors see it after `time.Date(fields of w…, ns, loc)`:
    whenever the location resolves the wall clock `w` to an instant that reads `w` again -/
theorem goDate_civil (z : Zone) (w : Int) (ns : Nat) (hns : ns < 1000000000) :
    goDate (civilOfUnix w).year (civilOfUnix w).month (civilOfUnix w).day
      (civilOfUnix w).hour (civilOfUnix w).min (civilOfUnix w).sec ns z
      = ⟨resolveWall z w, ns, z.offsetAt (resolveWall z w)⟩ := by
  unfold goDate
  rw [dateWall_civilOfUnix w ns hns]

theorem goDate_civil_fixed (o w : Int) (ns : Nat) (hns : ns < 1000000000) :
    goDate (civilOfUnix w).year (civilOfUnix w).month (civilOfUnix w).day
      (civilOfUnix w).hour (civilOfUnix w).min (civilOfUnix w).sec ns (Zone.fixed o)
      = ⟨w - o, ns, o⟩ := by
  rw [goDate_civil _ w ns hns, resolveWall_fixed, offsetAt_fixed]

/-- `NewTimestampTZ` keeps instant and offset -/
theorem newTimestampTZ_eq (t : GoTime) (hns : t.nsec < 1000000000) : newTimestampTZ t = mkDT .timestamptz t := by
  unfold newTimestampTZ offsetLocationFor GoTime.civil
  simp only []
  rw [goDate_civil_fixed t.off (t.sec + t.off) t.nsec hns]
  have : t.sec + t.off - t.off = t.sec := by omega
  rw [this]

/-- `NewTimestamp` keeps the wall clock and moves it to offset 0 -/
theorem newTimestamp_eq (t : GoTime) (hns : t.nsec < 1000000000) :
    newTimestamp t = ⟨.timestamp, t.sec + t.off, t.nsec, 0⟩ := by
  unfold newTimestamp GoTime.civil
  simp only []
  rw [goDate_civil_fixed 0 (t.sec + t.off) t.nsec hns]
  simp [mkDT]

/-- midnight of a civil date -/
theorem dateWall_midnight (w : Int) :
    dateWall (civilOfUnix w).year (civilOfUnix w).month (civilOfUnix w).day 0 0 0 0 = (w / 86400 * 86400, 0) := by
  have h := dateWall_civilOfUnix (w / 86400 * 86400) 0 (by omega)
  have e : w / 86400 * 86400 / 86400 = w / 86400 := by omega
  have e' : w / 86400 * 86400 % 86400 = 0 := by omega
  simp only [civilOfUnix, e, e'] at h
  simp only [civilOfUnix]
  exact h

/-- `NewDate` truncates the wall clock to midnight, at offset 0 -/
theorem newDate_eq (t : GoTime) : newDate t = ⟨.date, (t.sec + t.off) / 86400 * 86400, 0, 0⟩ := by
  unfold newDate GoTime.civil goDate
  simp only []
  rw [dateWall_midnight, resolveWall_fixed, offsetAt_fixed]
  simp [mkDT]



/-- Unix seconds of 0000-01-01T00:00:00Z, the date all `Time`/`TimeTZ` values live on -/
def yearZero : Int := -62167219200

/-- the clock of a wall-clock count on 0000-01-01 -/
theorem dateWall_clock (w : Int) (ns : Nat) (hns : ns < 1000000000) :
    dateWall 0 1 1 (civilOfUnix w).hour (civilOfUnix w).min (civilOfUnix w).sec ns = (yearZero + w % 86400, ns) := by
  have h := dateWall_civilOfUnix (yearZero + w % 86400) ns hns
  have e : (yearZero + w % 86400) / 86400 = -719528 := by unfold yearZero; omega
  have e' : (yearZero + w % 86400) % 86400 = w % 86400 := by unfold yearZero; omega
  have c : civilFromDays (-719528) = (0, 1, 1) := by decide
  simp only [civilOfUnix, e, e', c] at h
  simp only [civilOfUnix]
  exact h

/-- `NewTime` keeps the clock reading and puts it on 0000-01-01 at offset 0 -/
theorem newTime_eq (t : GoTime) (hns : t.nsec < 1000000000) :
    newTime t = ⟨.time, yearZero + (t.sec + t.off) % 86400, t.nsec, 0⟩ := by
  unfold newTime GoTime.civil goDate
  simp only []
  rw [dateWall_clock _ _ hns, resolveWall_fixed, offsetAt_fixed]
  simp [mkDT]

/-- `NewTimeTZ` keeps the clock reading and the offset and puts them on 0000-01-01 -/
theorem newTimeTZ_eq (t : GoTime) (hns : t.nsec < 1000000000) :
    newTimeTZ t = ⟨.timetz, yearZero + (t.sec + t.off) % 86400 - t.off, t.nsec, t.off⟩ := by
  unfold newTimeTZ GoTime.civil goDate offsetLocationFor
  simp only []
  rw [dateWall_clock _ _ hns, resolveWall_fixed, offsetAt_fixed]
  simp [mkDT]

/-! ## Round trips through the context zone (C18) -/

/-- a `Date` as `NewDate` makes it -/
structure DateWF (d : DateTime) : Prop where
  kind : d.kind = .date
  nsec : d.nsec = 0
  off : d.off = 0
  midnight : d.sec % 86400 = 0

/-- a `Timestamp` as `NewTimestamp` makes it -/
structure TimestampWF (d : DateTime) : Prop where
  kind : d.kind = .timestamp
  nsec : d.nsec < 1000000000
  off : d.off = 0

/-- the location resolves wall clock `w` to an instant whose wall clock is `w` again
    (true for every existing local time that `time.Date` resolves correctly) -/
def Zone.Resolves (z : Zone) (w : Int) : Prop := resolveWall z w + z.offsetAt (resolveWall z w) = w

theorem Zone.resolves_fixed (o w : Int) : (Zone.fixed o).Resolves w := by
  unfold Zone.Resolves; rw [resolveWall_fixed, offsetAt_fixed]; omega

/-- timestamp → timestamptz → timestamp is the identity whenever the zone resolves the wall clock -/
theorem timestamp_roundtrip (env : Env) (d : DateTime) (wf : TimestampWF d) (hz : env.zone.Resolves d.sec) :
    (castTo env true .timestamptz d >>= castTo env true .timestamp) = .ok d := by
  cases d with | mk k s n o =>
  obtain ⟨hk, hn, ho⟩ := wf
  simp only at hk hn ho hz
  subst hk; subst ho
  simp only [castTo, timestampToTimestampTZ, DateTime.t, GoTime.civil, Int.add_zero, bind, Except.bind]
  rw [goDate_civil env.zone s n hn, newTimestampTZ_eq _ hn]
  simp only [mkDT, timestampTZToTimestamp, DateTime.t, GoTime.inZone, if_true]
  rw [newTimestamp_eq _ hn]
  unfold Zone.Resolves at hz
  simp only [hz]

/-- date → timestamptz → date is the identity whenever the zone resolves that midnight -/
theorem date_roundtrip (env : Env) (d : DateTime) (wf : DateWF d) (hz : env.zone.Resolves d.sec) :
    (castTo env true .timestamptz d >>= castTo env true .date) = .ok d := by
  cases d with | mk k s n o =>
  obtain ⟨hk, hn, ho, hm⟩ := wf
  simp only at hk hn ho hm hz
  subst hk; subst ho; subst hn
  have hh : (civilOfUnix s).hour = 0 ∧ (civilOfUnix s).min = 0 ∧ (civilOfUnix s).sec = 0 := by
    simp only [civilOfUnix]; omega
  simp only [castTo, dateToTimestampTZ, DateTime.t, GoTime.civil, Int.add_zero, bind, Except.bind]
  have := goDate_civil env.zone s 0 (by omega)
  rw [hh.1, hh.2.1, hh.2.2] at this
  simp only [Int.natCast_zero] at this
  rw [this, newTimestampTZ_eq _ (by simp)]
  simp only [mkDT, timestampTZToDate, DateTime.t, GoTime.inZone, if_true]
  rw [newDate_eq]
  unfold Zone.Resolves at hz
  simp only [hz]
  have : s / 86400 * 86400 = s := by omega
  rw [this]

/-- C18 for fixed zones (UTC included): timestamp → timestamptz → timestamp is the identity -/
theorem timestamp_roundtrip_fixed (o today : Int) (d : DateTime) (wf : TimestampWF d) :
    (castTo ⟨Zone.fixed o, today⟩ true .timestamptz d >>= castTo ⟨Zone.fixed o, today⟩ true .timestamp) = .ok d :=
  timestamp_roundtrip _ d wf (Zone.resolves_fixed o d.sec)

/-- C18 for fixed zones (UTC included): date → timestamptz → date is the identity -/
theorem date_roundtrip_fixed (o today : Int) (d : DateTime) (wf : DateWF d) :
    (castTo ⟨Zone.fixed o, today⟩ true .timestamptz d >>= castTo ⟨Zone.fixed o, today⟩ true .date) = .ok d :=
  date_roundtrip _ d wf (Zone.resolves_fixed o d.sec)



/-! ## `(*Location).lookup` against `Zone.offsetAt` for ascending transition lists -/

/-- transition times strictly ascending -/
def Zone.Sorted (z : Zone) : Prop := z.trans.Pairwise (fun a b => a.1 < b.1)

def stepAt (u : Int) (acc : Int) (t : Int × Int) : Int := if t.1 ≤ u then t.2 else acc

theorem offsetAt_eq_foldl (z : Zone) (u : Int) : z.offsetAt u = z.trans.foldl (stepAt u) z.initial := rfl

theorem foldl_all_later (u : Int) (l : List (Int × Int)) (off : Int) (h : ∀ t ∈ l, u < t.1) :
    l.foldl (stepAt u) off = off := by
  induction l generalizing off with
  | nil => rfl
  | cons t rest ih =>
    have ht : u < t.1 := h t (by simp)
    have : stepAt u off t = off := by unfold stepAt; split <;> first | omega | rfl
    simp only [List.foldl_cons, this]
    exact ih off (fun t' ht' => h t' (by simp [ht']))

/-- the start of the period found is at or after the start handed in -/
theorem lookupAux_start (sec : Int) (l : List (Int × Int)) (off s0 : Int)
    (hs : l.Pairwise (fun a b => a.1 < b.1)) (hl : ∀ t ∈ l, s0 < t.1) :
    ∃ s, (Zone.lookupAux sec l off (some s0)).start = some s ∧ s0 ≤ s := by
  induction l generalizing off s0 with
  | nil => exact ⟨s0, rfl, Int.le_refl _⟩
  | cons t rest ih =>
    obtain ⟨t1, o1⟩ := t
    unfold Zone.lookupAux
    split
    · have hs' := (List.pairwise_cons.1 hs)
      obtain ⟨s, h1, h2⟩ := ih o1 t1 hs'.2 (fun t' ht' => hs'.1 t' ht')
      have : s0 < t1 := hl (t1, o1) (by simp)
      exact ⟨s, h1, by omega⟩
    · exact ⟨s0, rfl, Int.le_refl _⟩

/-- inside the period `lookup` reports, `offsetAt` is the period's offset -/
theorem lookupAux_offsetAt (sec u : Int) (l : List (Int × Int)) (off : Int) (start : Option Int)
    (hs : l.Pairwise (fun a b => a.1 < b.1)) (hl : ∀ s0, start = some s0 → ∀ t ∈ l, s0 < t.1)
    (h1 : beforeStart u (Zone.lookupAux sec l off start).start = false)
    (h2 : atOrAfterStop u (Zone.lookupAux sec l off start).stop = false) :
    l.foldl (stepAt u) off = (Zone.lookupAux sec l off start).off := by
  induction l generalizing off start with
  | nil => rfl
  | cons t rest ih =>
    obtain ⟨t1, o1⟩ := t
    have hs' := (List.pairwise_cons.1 hs)
    unfold Zone.lookupAux at h1 h2 ⊢
    split at h1
    · rename_i hle
      simp only [hle, if_true] at h2 ⊢
      obtain ⟨s, e1, e2⟩ := lookupAux_start sec rest o1 t1 hs'.2 (fun t' ht' => hs'.1 t' ht')
      rw [e1] at h1
      simp only [beforeStart, decide_eq_false_iff_not] at h1
      have : stepAt u off (t1, o1) = o1 := by unfold stepAt; simp only; split <;> first | rfl | omega
      simp only [List.foldl_cons, this]
      exact ih o1 (some t1) hs'.2 (fun s0 hs0 t' ht' => by cases hs0; exact hs'.1 t' ht') (by rw [e1]; simpa [beforeStart] using h1) h2
    · rename_i hle
      simp only [hle, if_false] at h2 ⊢
      simp only [atOrAfterStop, decide_eq_false_iff_not] at h2
      have : stepAt u off (t1, o1) = off := by unfold stepAt; simp only; split <;> first | omega | rfl
      simp only [List.foldl_cons, this]
      exact foldl_all_later u rest off (fun t' ht' => by have := hs'.1 t' ht'; simp only at this; omega)

/-- `lookup`'s offset is `offsetAt` (for ascending tables), anywhere in the reported period -/
theorem Zone.lookup_offsetAt (z : Zone) (hz : z.Sorted) (sec u : Int)
    (h1 : beforeStart u (z.lookup sec).start = false) (h2 : atOrAfterStop u (z.lookup sec).stop = false) :
    z.offsetAt u = (z.lookup sec).off := by
  rw [offsetAt_eq_foldl]
  exact lookupAux_offsetAt sec u z.trans z.initial none hz (fun s0 h => by cases h) h1 h2



/-- the period `lookup` reports for `sec` contains `sec` -/
theorem lookupAux_contains (sec : Int) (l : List (Int × Int)) (off : Int) (start : Option Int)
    (h0 : beforeStart sec start = false) :
    beforeStart sec (Zone.lookupAux sec l off start).start = false ∧
      atOrAfterStop sec (Zone.lookupAux sec l off start).stop = false := by
  induction l generalizing off start with
  | nil => exact ⟨h0, rfl⟩
  | cons t rest ih =>
    obtain ⟨t1, o1⟩ := t
    unfold Zone.lookupAux
    split
    · rename_i hle
      exact ih o1 (some t1) (by simp only [beforeStart, decide_eq_false_iff_not]; omega)
    · rename_i hle
      exact ⟨h0, by simp only [atOrAfterStop, decide_eq_false_iff_not]; omega⟩

theorem Zone.lookup_contains (z : Zone) (sec : Int) :
    beforeStart sec (z.lookup sec).start = false ∧ atOrAfterStop sec (z.lookup sec).stop = false :=
  lookupAux_contains sec z.trans z.initial none rfl

/-- `lookup` and `offsetAt` agree on ascending tables -/
theorem Zone.lookup_off (z : Zone) (hz : z.Sorted) (sec : Int) : (z.lookup sec).off = z.offsetAt sec :=
  (z.lookup_offsetAt hz sec sec (z.lookup_contains sec).1 (z.lookup_contains sec).2).symm

/-- the common case of `time.Date`: if the period found by the first lookup contains the candidate
    instant, the result reads the requested wall clock -/
theorem Zone.resolves_of_first (z : Zone) (hz : z.Sorted) (w : Int)
    (h1 : beforeStart (w - (z.lookup w).off) (z.lookup w).start = false)
    (h2 : atOrAfterStop (w - (z.lookup w).off) (z.lookup w).stop = false) : z.Resolves w := by
  unfold Zone.Resolves resolveWall
  simp only []
  split
  · simp only [h1, h2, Bool.or_self, Bool.false_eq_true, if_false]
    rw [z.lookup_offsetAt hz w _ h1 h2]; omega
  · rename_i h0
    have h0 : (z.lookup w).off = 0 := by simpa using h0
    rw [← z.lookup_off hz w, h0]; omega

/-! ## `UnmarshalJSON` panics (C18: the property fails on the pinned code) -/

theorem signAt_none_iff (str : List UInt8) (k : Nat) (hk : 0 < k) : signAt str k = none ↔ str.length < k := by
  unfold signAt
  split
  · simp_all
  · rename_i h
    have hlt : str.length - k < str.length := by omega
    have : str[str.length - k]? = some str[str.length - k] := List.getElem?_eq_getElem hlt
    rw [this]; simp; omega

theorem unquote_none_iff (data : List UInt8) : unquote data = none ↔ data.length < 2 := by
  unfold unquote; split <;> simp_all

theorem unquote_length (data str : List UInt8) (h : unquote data = some str) : str.length = data.length - 2 := by
  unfold unquote at h
  split at h
  · cases h
  · cases h; simp; omega

theorem parsedOr_ne_panic (k : GoTime → DateTime) (o : Option GoTime) : parsedOr k o ≠ .panic := by
  cases o <;> simp [parsedOr]

/-- repaired defect D21: `UnmarshalJSON` never panics, whatever the bytes and the type -/
theorem unmarshalJSON_never_panics (kind : DTKind) (data : List UInt8) :
    unmarshalJSON kind data ≠ .panic := by
  unfold unmarshalJSON
  split
  · simp
  · cases kind <;> exact parsedOr_ne_panic _ _

/-- input shorter than two bytes (no room for the quotes) is an error -/
theorem unmarshalJSON_short (kind : DTKind) (data : List UInt8) (h : data.length < 2) :
    unmarshalJSON kind data = .err := by
  unfold unmarshalJSON
  rw [(unquote_none_iff data).2 h]



/-! ## C17: comparison versus comparison after an explicit cast -/

/-- closed form of `Timestamp.ToTimestampTZ(ctx)`: the instant `time.Date` resolves the wall clock to -/
theorem timestampToTimestampTZ_eq (env : Env) (a : DateTime) (wf : TimestampWF a) :
    timestampToTimestampTZ env a =
      ⟨.timestamptz, resolveWall env.zone a.sec, a.nsec, env.zone.offsetAt (resolveWall env.zone a.sec)⟩ := by
  cases a with | mk k s n off =>
  obtain ⟨hk, hn, ho⟩ := wf
  simp only at hk hn ho
  subst hk; subst ho
  simp only [timestampToTimestampTZ, DateTime.t, GoTime.civil, Int.add_zero]
  rw [goDate_civil env.zone s n hn, newTimestampTZ_eq _ hn]
  rfl

/-- closed form of `Date.ToTimestampTZ(ctx)` -/
theorem dateToTimestampTZ_eq (env : Env) (a : DateTime) (wf : DateWF a) :
    dateToTimestampTZ env a =
      ⟨.timestamptz, resolveWall env.zone a.sec, 0, env.zone.offsetAt (resolveWall env.zone a.sec)⟩ := by
  cases a with | mk k s n off =>
  obtain ⟨hk, hn, ho, hm⟩ := wf
  simp only at hk hn ho hm
  subst hk; subst ho; subst hn
  have hh : (civilOfUnix s).hour = 0 ∧ (civilOfUnix s).min = 0 ∧ (civilOfUnix s).sec = 0 := by
    simp only [civilOfUnix]; omega
  simp only [dateToTimestampTZ, DateTime.t, GoTime.civil, Int.add_zero]
  have := goDate_civil env.zone s 0 (by omega)
  rw [hh.1, hh.2.1, hh.2.2] at this
  simp only [Int.natCast_zero] at this
  rw [this, newTimestampTZ_eq _ (by simp)]
  rfl

/-- the common type two datetimes are compared at (`none`: incomparable) -/
def commonKind : DTKind → DTKind → Option DTKind
  | .date, .date => some .date
  | .date, .timestamp => some .timestamp
  | .timestamp, .date => some .timestamp
  | .timestamp, .timestamp => some .timestamp
  | .date, .timestamptz => some .timestamptz
  | .timestamp, .timestamptz => some .timestamptz
  | .timestamptz, .date => some .timestamptz
  | .timestamptz, .timestamp => some .timestamptz
  | .timestamptz, .timestamptz => some .timestamptz
  | .time, .time => some .time
  | .time, .timetz => some .timetz
  | .timetz, .time => some .timetz
  | .timetz, .timetz => some .timetz
  | _, _ => none

/-- cast both operands to `τ`, then compare -/
def compareAfterCast (env : Env) (τ : DTKind) (a b : DateTime) : Except CastErr Int :=
  castTo env true τ a >>= fun a' => castTo env true τ b >>= fun b' => compareDatetime env true a' b'

/-- a `Date` that is cast to `timestamp` must sit at offset 0 (as `NewDate` makes it) -/
def DateOffsetOK (d : DateTime) : Prop := d.kind = .date → (d.off = 0 ∧ d.nsec < 1000000000)

theorem compare_of_timestamptz (env : Env) (a b : DateTime) (ha : a.kind = .timestamptz) (hb : b.kind = .timestamptz) :
    compareDatetime env true a b = .ok (a.t.compare b.t) := by
  rw [compareDatetime_sameKind env true a b (ha.trans hb.symm)]; simp [ha]

theorem compare_of_timestamp (env : Env) (a b : DateTime) (ha : a.kind = .timestamp) (hb : b.kind = .timestamp) :
    compareDatetime env true a b = .ok (a.t.compare b.t) := by
  rw [compareDatetime_sameKind env true a b (ha.trans hb.symm)]; simp [ha]

theorem compare_of_timetz (env : Env) (a b : DateTime) (ha : a.kind = .timetz) (hb : b.kind = .timetz) :
    compareDatetime env true a b = .ok (timeTZCompare a.t b.t) := by
  rw [compareDatetime_sameKind env true a b (ha.trans hb.symm)]; simp [ha]

/-- **C17 coherence**: with `WithTZ`, comparing two comparable datetimes gives the same answer as
    comparing them after explicit casts to their common type — for every context zone, every
    `today`, both operand orders, and all 13 comparable kind pairs. -/
theorem compare_equals_cast (env : Env) (a b : DateTime) (τ : DTKind)
    (hτ : commonKind a.kind b.kind = some τ) (ha : DateOffsetOK a) (hb : DateOffsetOK b) :
    compareDatetime env true a b = compareAfterCast env τ a b := by
  cases a with | mk ka sa na oa => cases b with | mk kb sb nb ob =>
  unfold DateOffsetOK at ha hb
  simp only at ha hb
  cases ka <;> cases kb <;> simp only [commonKind, Option.some.injEq, reduceCtorEq] at hτ <;> subst hτ <;>
    simp only [compareAfterCast, castTo, bind, Except.bind, if_true] <;>
    (conv => rhs; first
      | rw [compare_of_timestamptz _ _ _ (by rfl) (by rfl)]
      | rw [compare_of_timestamp _ _ _ (by rfl) (by rfl)]
      | rw [compare_of_timetz _ _ _ (by rfl) (by rfl)]) <;>
    simp only [compareDatetime, if_true]
  · -- date, timestamp
    obtain ⟨ho, hn⟩ := ha rfl; subst ho
    simp only [dateToTimestamp]
    rw [newTimestamp_eq _ hn]; simp [DateTime.t, GoTime.compare]
  · -- time, timetz
    exact congrArg Except.ok (timeTZCompare_swap _ _).symm
  · -- timestamp, date
    obtain ⟨ho, hn⟩ := hb rfl; subst ho
    simp only [dateToTimestamp]
    rw [newTimestamp_eq _ hn]; simp [DateTime.t, GoTime.compare]

/-- the timestamp-vs-timestamptz instance, in the shape of phase 1: casting the timestamp first
    changes nothing (any zone) -/
theorem compare_cast_commute (env : Env) (a b : DateTime) (ha : a.kind = .timestamp) (hb : b.kind = .timestamptz) :
    (castTo env true .timestamptz a >>= fun a' => compareDatetime env true a' b) = compareDatetime env true a b := by
  have h := compare_equals_cast env a b .timestamptz (by rw [ha, hb]; rfl)
    (fun h => by rw [ha] at h; cases h) (fun h => by rw [hb] at h; cases h)
  rw [h, compareAfterCast]
  have : castTo env true .timestamptz b = .ok b := by rw [← hb]; exact castTo_diag env true b
  rw [this]
  cases castTo env true .timestamptz a <;> rfl

/-- C17 in UTC (corollary) -/
theorem compare_cast_commute_utc (today : Int) (a b : DateTime) (wf : TimestampWF a) (hb : b.kind = .timestamptz) :
    (castTo ⟨Zone.fixed 0, today⟩ true .timestamptz a >>= fun a' => compareDatetime ⟨Zone.fixed 0, today⟩ true a' b)
      = compareDatetime ⟨Zone.fixed 0, today⟩ true a b :=
  compare_cast_commute _ a b wf.kind hb

/-- in a fixed zone, casting a timestamp to timestamptz shifts the instant by the zone offset -/
theorem castTo_timestamptz_fixed (o today : Int) (a : DateTime) (wf : TimestampWF a) :
    castTo ⟨Zone.fixed o, today⟩ true .timestamptz a = .ok ⟨.timestamptz, a.sec - o, a.nsec, o⟩ := by
  have hk := wf.kind
  cases a with | mk k s n off =>
  simp only at hk; subst hk
  simp only [castTo, if_true]
  rw [timestampToTimestampTZ_eq _ _ wf, resolveWall_fixed, offsetAt_fixed]

/-- in a fixed zone the comparison of a timestamp with a timestamptz compares the shifted instant -/
theorem compare_direct_fixed (o today : Int) (a b : DateTime) (wf : TimestampWF a) (hb : b.kind = .timestamptz) :
    compareDatetime ⟨Zone.fixed o, today⟩ true a b = .ok ((⟨a.sec - o, a.nsec, o⟩ : GoTime).compare b.t) := by
  have hk := wf.kind
  cases a with | mk k s n off =>
  cases b with | mk kb sb nb ob =>
  simp only at hk hb; subst hk; subst hb
  simp only [compareDatetime, if_true]
  rw [timestampToTimestampTZ_eq _ _ wf, resolveWall_fixed, offsetAt_fixed]
  rfl

/-- … and so does the comparison after the explicit cast -/
theorem compare_after_cast_fixed (o today : Int) (a b : DateTime) (wf : TimestampWF a) (hb : b.kind = .timestamptz) :
    (castTo ⟨Zone.fixed o, today⟩ true .timestamptz a >>= fun a' => compareDatetime ⟨Zone.fixed o, today⟩ true a' b)
      = .ok ((⟨a.sec - o, a.nsec, o⟩ : GoTime).compare b.t) := by
  rw [compare_cast_commute _ a b wf.kind hb, compare_direct_fixed o today a b wf hb]

/-! ## C17: transitivity among dates, timestamps and timestamps with time zone -/

/-- `time.Date` in this zone is strictly increasing in the wall clock (true for fixed zones; false
    in a zone with a DST gap, where nonexistent wall clocks are mapped backwards) -/
def Zone.StrictMono (z : Zone) : Prop := ∀ w1 w2 : Int, w1 < w2 → resolveWall z w1 < resolveWall z w2

theorem Zone.strictMono_fixed (o : Int) : (Zone.fixed o).StrictMono := by
  intro w1 w2 h; rw [resolveWall_fixed, resolveWall_fixed]; omega

/-- a date, timestamp or timestamptz as the constructors make it -/
def InstantWF (d : DateTime) : Prop := DateWF d ∨ TimestampWF d ∨ d.kind = .timestamptz

/-- the instant a date / timestamp / timestamptz denotes in the context zone -/
def instantIn (env : Env) (d : DateTime) : GoTime :=
  if d.kind = .timestamptz then d.t else ⟨resolveWall env.zone d.sec, d.nsec, 0⟩

theorem compare_resolved (z : Zone) (hm : z.StrictMono) (s1 s2 : Int) (n1 n2 : Nat) (o1 o2 o1' o2' : Int) :
    GoTime.compare ⟨resolveWall z s1, n1, o1⟩ ⟨resolveWall z s2, n2, o2⟩ = GoTime.compare ⟨s1, n1, o1'⟩ ⟨s2, n2, o2'⟩ := by
  unfold GoTime.compare
  simp only []
  by_cases h : s1 < s2
  · have := hm s1 s2 h; simp [h, this]
  · by_cases h' : s2 < s1
    · have := hm s2 s1 h'
      have e1 : ¬ resolveWall z s1 < resolveWall z s2 := by omega
      simp [h, h', this, e1]
    · have : s1 = s2 := by omega
      subst this; simp

/-- with `WithTZ`, dates, timestamps and timestamptz are compared by the instant they denote in the
    context zone (when `time.Date` is strictly increasing there) -/
theorem compareDatetime_instant (env : Env) (hm : env.zone.StrictMono) (a b : DateTime)
    (ha : InstantWF a) (hb : InstantWF b) :
    compareDatetime env true a b = .ok ((instantIn env a).compare (instantIn env b)) := by
  rcases ha with ha | ha | ha <;> rcases hb with hb | hb | hb
  · have ka := ha.kind; have kb := hb.kind
    cases a with | mk k1 s1 n1 o1 => cases b with | mk k2 s2 n2 o2 =>
    simp only at ka kb; subst ka; subst kb
    simp only [compareDatetime, instantIn, reduceCtorEq, if_false, DateTime.t]
    rw [compare_resolved env.zone hm s1 s2 n1 n2 0 0 o1 o2]
  · have ka := ha.kind; have kb := hb.kind
    cases a with | mk k1 s1 n1 o1 => cases b with | mk k2 s2 n2 o2 =>
    simp only at ka kb; subst ka; subst kb
    simp only [compareDatetime, instantIn, reduceCtorEq, if_false, DateTime.t]
    rw [compare_resolved env.zone hm s1 s2 n1 n2 0 0 o1 o2]
  · have ka := ha.kind; have kb := hb
    cases a with | mk k1 s1 n1 o1 => cases b with | mk k2 s2 n2 o2 =>
    simp only at ka kb; subst ka; subst kb
    have hn := ha.nsec; simp only at hn; subst hn
    simp only [compareDatetime, instantIn, reduceCtorEq, if_false, if_true]
    rw [dateToTimestampTZ_eq env _ ha]
    rfl
  · have ka := ha.kind; have kb := hb.kind
    cases a with | mk k1 s1 n1 o1 => cases b with | mk k2 s2 n2 o2 =>
    simp only at ka kb; subst ka; subst kb
    simp only [compareDatetime, instantIn, reduceCtorEq, if_false, DateTime.t]
    rw [compare_resolved env.zone hm s1 s2 n1 n2 0 0 o1 o2]
  · have ka := ha.kind; have kb := hb.kind
    cases a with | mk k1 s1 n1 o1 => cases b with | mk k2 s2 n2 o2 =>
    simp only at ka kb; subst ka; subst kb
    simp only [compareDatetime, instantIn, reduceCtorEq, if_false, DateTime.t]
    rw [compare_resolved env.zone hm s1 s2 n1 n2 0 0 o1 o2]
  · have ka := ha.kind; have kb := hb
    cases a with | mk k1 s1 n1 o1 => cases b with | mk k2 s2 n2 o2 =>
    simp only at ka kb; subst ka; subst kb
    simp only [compareDatetime, instantIn, reduceCtorEq, if_false, if_true]
    rw [timestampToTimestampTZ_eq env _ ha]
    rfl
  · have ka := ha; have kb := hb.kind
    cases a with | mk k1 s1 n1 o1 => cases b with | mk k2 s2 n2 o2 =>
    simp only at ka kb; subst ka; subst kb
    have hn := hb.nsec; simp only at hn; subst hn
    simp only [compareDatetime, instantIn, reduceCtorEq, if_false, if_true]
    rw [dateToTimestampTZ_eq env _ hb]
    rfl
  · have ka := ha; have kb := hb.kind
    cases a with | mk k1 s1 n1 o1 => cases b with | mk k2 s2 n2 o2 =>
    simp only at ka kb; subst ka; subst kb
    simp only [compareDatetime, instantIn, reduceCtorEq, if_false, if_true]
    rw [timestampToTimestampTZ_eq env _ hb]
    rfl
  · have ka := ha; have kb := hb
    cases a with | mk k1 s1 n1 o1 => cases b with | mk k2 s2 n2 o2 =>
    simp only at ka kb; subst ka; subst kb
    simp only [compareDatetime, instantIn, if_true]

/-- transitivity of `≤` among dates, timestamps and timestamps with time zone (`useTZ = true`), in
    every context zone where `time.Date` is strictly increasing -/
theorem compareDatetime_trans_instant (env : Env) (hm : env.zone.StrictMono) (a b c : DateTime)
    (ha : InstantWF a) (hb : InstantWF b) (hc : InstantWF c)
    (r1 r2 : Int) (h1 : compareDatetime env true a b = .ok r1) (h2 : compareDatetime env true b c = .ok r2)
    (l1 : r1 ≤ 0) (l2 : r2 ≤ 0) : ∃ r3, compareDatetime env true a c = .ok r3 ∧ r3 ≤ 0 := by
  rw [compareDatetime_instant env hm a b ha hb] at h1
  rw [compareDatetime_instant env hm b c hb hc] at h2
  rw [compareDatetime_instant env hm a c ha hc]
  cases h1; cases h2
  exact ⟨_, rfl, GoTime.compare_trans _ _ _ l1 l2⟩

/-- … in particular in every fixed zone (UTC included), unconditionally -/
theorem compareDatetime_trans_instant_fixed (o today : Int) (a b c : DateTime)
    (ha : InstantWF a) (hb : InstantWF b) (hc : InstantWF c)
    (r1 r2 : Int) (h1 : compareDatetime ⟨Zone.fixed o, today⟩ true a b = .ok r1)
    (h2 : compareDatetime ⟨Zone.fixed o, today⟩ true b c = .ok r2)
    (l1 : r1 ≤ 0) (l2 : r2 ≤ 0) : ∃ r3, compareDatetime ⟨Zone.fixed o, today⟩ true a c = .ok r3 ∧ r3 ≤ 0 :=
  compareDatetime_trans_instant _ (Zone.strictMono_fixed o) a b c ha hb hc r1 r2 h1 h2 l1 l2

/-! ## C17: transitivity fails around a nonexistent local time (DST gap) -/

/-- America/New_York around 2024 -/
def envNY : Env := ⟨⟨-18000, [(1710054000, -14400), (1730613600, -18000)]⟩, 20000⟩
/-- `"2024-03-10T01:30:00.5".timestamp()` -/
def gapA : DateTime := ⟨.timestamp, 1710034200, 500000000, 0⟩
/-- `"2024-03-10T02:30:00".timestamp()` — this local time does not exist in New York -/
def gapB : DateTime := ⟨.timestamp, 1710037800, 0, 0⟩
/-- `"2024-03-10T06:30:00.2Z".timestamp_tz()` -/
def gapC : DateTime := ⟨.timestamptz, 1710052200, 200000000, 0⟩

/-- known finding (D28): `time.Date` maps the nonexistent 02:30 back to 01:30 EST, so
    `a < b` (as timestamps), `b < c` (in the zone), yet `a > c`: comparison through the context
    zone is not transitive when an operand is a local time inside a DST gap
    (`Zone.StrictMono` fails for this zone) -/
theorem compare_not_transitive_in_gap :
    compareDatetime envNY true gapA gapB = .ok (-1) ∧
    compareDatetime envNY true gapB gapC = .ok (-1) ∧
    compareDatetime envNY true gapA gapC = .ok 1 := ⟨rfl, rfl, rfl⟩

theorem envNY_not_strictMono : ¬ envNY.zone.StrictMono := by
  intro h
  have := h 1710034200 1710037800 (by omega)
  have e1 : resolveWall envNY.zone 1710034200 = 1710052200 := by rfl
  have e2 : resolveWall envNY.zone 1710037800 = 1710052200 := by rfl
  omega

/-! ## C17: transitivity fails for mixed `time`/`timetz` on a DST-gap day -/

/-- America/New_York around 2024, and "today" = 2024-03-10 (the day clocks spring forward) -/
def envNYGapDay : Env := ⟨⟨-18000, [(1710054000, -14400), (1730613600, -18000)]⟩, 19792⟩
/-- `"01:40:00-05".time_tz()` -/
def tzZ : DateTime := ⟨.timetz, yearZero + 6000 + 18000, 0, -18000⟩
/-- `"01:45:00".time()` -/
def tmA : DateTime := ⟨.time, yearZero + 6300, 0, 0⟩
/-- `"02:30:00".time()` (does not exist on that day in that zone) -/
def tmB : DateTime := ⟨.time, yearZero + 9000, 0, 0⟩


/-- C17 deviation: mixed `time`/`timetz` comparison is not transitive when `time.Now()` falls on a
    day with a DST gap in the context zone: `z ≤ a`, `a ≤ b`, yet `z > b` -/
theorem compare_not_transitive_on_gap_day :
    compareDatetime envNYGapDay true tzZ tmA = .ok (-1) ∧
    compareDatetime envNYGapDay true tmA tmB = .ok (-1) ∧
    compareDatetime envNYGapDay true tzZ tmB = .ok 1 := ⟨rfl, rfl, rfl⟩

/-! ## The layout strings of the Go source cut (by `nextStdChunk`'s rules) into the model's layouts -/

theorem layout_date : chunkLayout "2006-01-02".toList = some dateL := by rfl
theorem layout_time : chunkLayout "15:04:05".toList = some timeL := by rfl
theorem layout_timeTZHour : chunkLayout "15:04:05Z07".toList = some timeTZHourL := by rfl
theorem layout_timeTZMin : chunkLayout "15:04:05Z07:00".toList = some timeTZMinL := by rfl
theorem layout_timestampT : chunkLayout "2006-01-02T15:04:05".toList = some (timestampL 'T') := by rfl
theorem layout_timestampSp : chunkLayout "2006-01-02 15:04:05".toList = some (timestampL ' ') := by rfl
theorem layout_timestampTZHourT : chunkLayout "2006-01-02T15:04:05Z07".toList = some (timestampTZHourL 'T') := by rfl
theorem layout_timestampTZHourSp : chunkLayout "2006-01-02 15:04:05Z07".toList = some (timestampTZHourL ' ') := by rfl
theorem layout_timestampTZMinT : chunkLayout "2006-01-02T15:04:05Z07:00".toList = some (timestampTZMinL 'T') := by rfl
theorem layout_timestampTZMinSp : chunkLayout "2006-01-02 15:04:05Z07:00".toList = some (timestampTZMinL ' ') := by rfl
theorem layout_timeFormat : chunkLayout "15:04:05.999999999".toList = some timeFracL := by rfl
theorem layout_timeTZSecond : chunkLayout "15:04:05.999999999Z07:00:00".toList = some (timeTZFracL .colonSec) := by rfl
theorem layout_timeTZMinute : chunkLayout "15:04:05.999999999Z07:00".toList = some (timeTZFracL .colon) := by rfl
theorem layout_timeTZHourFormat : chunkLayout "15:04:05.999999999Z07".toList = some (timeTZFracL .short) := by rfl
theorem layout_timeTZOutput : chunkLayout "15:04:05.999999999-07:00".toList = some timeTZOutL := by rfl
theorem layout_timestampFormat : chunkLayout "2006-01-02T15:04:05.999999999".toList = some timestampFracL := by rfl
theorem layout_timestampTZSecond :
    chunkLayout "2006-01-02T15:04:05.999999999Z07:00:00".toList = some (timestampTZFracL .colonSec) := by rfl
theorem layout_timestampTZMinute :
    chunkLayout "2006-01-02T15:04:05.999999999Z07:00".toList = some (timestampTZFracL .colon) := by rfl
theorem layout_timestampTZHourFormat :
    chunkLayout "2006-01-02T15:04:05.999999999Z07".toList = some (timestampTZFracL .short) := by rfl
theorem layout_timestampTZOutput :
    chunkLayout "2006-01-02T15:04:05.999999999-07:00".toList = some timestampTZOutL := by rfl

end Time
end Sqljson
