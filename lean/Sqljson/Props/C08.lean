import Sqljson.Lemmas.ApiGood
/-!
# C08 — WithSilent suppresses exactly the suppressible errors

Proved here, for every path (well-formed or not), document and option set:
* `no_verbose_when_silent`: with `WithSilent` no entry point returns an `ErrVerbose` error;
* `item_silent` / `predicate_never_verbose`: the same at every executor function, and predicates
  never return a suppressible error at all (their operands are evaluated silently);
* `flag_restored`: the `verbose` flag equals its entry value after every executor function — the
  suppression used inside predicates never leaks (`no_leak_after_predicate`);
* `hard_errors_pass`: `returnError` lets every non-suppressible error out unchanged, silent or not,
  and `cancellation_not_suppressed`: a cancellation is returned under `WithSilent` too.

The relation between the silent and the verbose run of the same call (`success_same`,
`suppressed_prefix`, `hard_unchanged`) is `Props/C08b.lean` (simulation between the two runs).
-/

namespace Sqljson
namespace C08
open Exec Api

/-- with `verbose = false` no executor function returns a suppressible error -/
theorem item_silent (c : Ctx) (fuel : Nat) (s : St) (n : Node) (v : Item) (f : Found) (u : Bool)
    (hs : s.verbose = false) : (xItem c fuel s n v f u).err ≠ some .verbose :=
  (xItem_good c fuel s n v f u).silent hs

/-- a predicate never returns a suppressible error, whatever the `verbose` flag -/
theorem predicate_never_verbose (c : Ctx) (fuel : Nat) (s : St) (n : Node) (v : Item) (b : Bool) :
    (xBool c fuel s n v b).err ≠ some .verbose :=
  (xBool_good c fuel s n v b).noVerbose

/-- the `verbose` flag is restored by every executor function, on every exit path -/
theorem flag_restored (c : Ctx) (fuel : Nat) (s : St) (n : Node) (v : Item) (f : Found) (u : Bool) :
    (xItem c fuel s n v f u).st.verbose = s.verbose :=
  (xItem_good c fuel s n v f u).ctx.2.2.2.2.2

theorem flag_restored_predicate (c : Ctx) (fuel : Nat) (s : St) (n : Node) (v : Item) (b : Bool) :
    (xBool c fuel s n v b).st.verbose = s.verbose :=
  (xBool_good c fuel s n v b).ctx.2.2.2.2.2

/-- after a filter or predicate the surrounding path reports its own errors: a structural error
    raised from the state a predicate leaves behind is reported exactly as from the state before it -/
theorem no_leak_after_predicate (c : Ctx) (fuel : Nat) (s : St) (n : Node) (v : Item) (b : Bool) (f : Found) :
    (returnVerboseError (xBool c fuel s n v b).st f).err = (returnVerboseError s f).err := by
  unfold returnVerboseError
  rw [flag_restored_predicate]
  split <;> rfl

/-- **no entry point returns an `ErrVerbose` error under `WithSilent`** -/
theorem no_verbose_when_silent (e : Entry) (fuel : Nat) (a : AST) (doc : Item) (o : Opts)
    (hs : o.silent = true) : run e fuel a doc o ≠ .error .verbose := by
  have hq : ∀ f, (query (mkCtx a doc o) fuel (initSt a doc o) a.root doc f).err ≠ some .verbose :=
    fun f => (query_good _ _ _ _ _ f).silent (by simp [initSt, hs])
  have key : ∀ (r : Res) (k : Outcome), r.err ≠ some .verbose → k ≠ .error .verbose →
      guarded r (match r.err with | some e => .error e | none => k) ≠ .error .verbose := by
    intro r k hr hk
    unfold guarded
    split
    · simp
    · split
      · simp
      · split
        · rename_i e he; intro h; simp at h; subst h; exact hr he
        · exact hk
  cases e <;> simp only [run]
  · exact key _ _ (hq _) (by simp)
  · exact key _ _ (hq _) (by simp)
  · exact key _ _ (hq _) (by split <;> simp)
  · exact key _ _ (hq _) (by split <;> simp [hs])
  · unfold existsOrMatchWith
    split
    · exact key _ _ (hq _) (by split <;> simp [hs])
    · exact key _ _ (hq _) (by split <;> simp)

/-- `returnError` passes every non-suppressible error through unchanged, silent or not -/
theorem hard_errors_pass (s : St) (f : Found) (e : Err) (he : e ≠ .verbose) :
    returnError s f e = ⟨s, f, .failed, some e⟩ := by
  unfold returnError
  cases e <;> simp_all [Err.isVerbose]

/-- a suppressible error is dropped (status `failed`, no error) exactly when `verbose = false` -/
theorem verbose_error_suppressed (s : St) (f : Found) :
    returnVerboseError s f = ⟨s, f, .failed, if s.verbose then some .verbose else none⟩ := by
  unfold returnVerboseError
  split <;> simp_all

/-- `WithSilent` does not suppress a cancellation: if a poll failed, the silent call returns the
    cancellation error (instance of `C20.never_a_result` at `silent = true`) -/
theorem cancellation_not_suppressed (e : Entry) (fuel : Nat) (a : AST) (doc : Item) (o : Opts)
    (_hs : o.silent = true)
    (hsaw : (runRes e fuel a doc o).st.sawCancel = true) :
    (runRes e fuel a doc o).err = some .cancelled :=
  ((runRes_good e fuel a doc o).cancel (by simp [initSt]) hsaw).2

/-- non-vacuity: strict `$.a` on `{}` fails verbosely, and is silent under `WithSilent` -/
example : run .query 10 ⟨.const .root (some (.key ['a'] none)), false, false⟩ (.obj []) {} = .error .verbose := rfl
example : run .query 10 ⟨.const .root (some (.key ['a'] none)), false, false⟩ (.obj []) { silent := true } = .items [] := rfl

end C08
end Sqljson
