import Sqljson.Lemmas.ApiGood
/-!
# C20 — Cancellation is honoured at every step and never mistaken for a result

The context is modelled by `St.budget : Option Nat`: `some k` = the context is done from its
`k`-th poll on (the poll at the top of `executeItemOptUnwrapTarget`), `none` = never.  A failed
poll sets the sticky flag `St.sawCancel`.

* `never_a_result` (proved, every path — well-formed or not —, every document, every option set,
  every entry point, every `k`): if any poll failed during the call, the call returns the error
  wrapping `ErrExecution` and the context's error: not items, not `nil`, not a boolean, not `NULL`,
  not a suppressible error, silent or not.
* `poll_fails_immediately`: a poll at budget `some 0` fails the step at once.
* `cancel_during_*`: the same statement at each executor function, i.e. "at any point during
  execution", with the status `failed` — so the callers' loops stop (bounded further steps: every
  loop of the executor returns as soon as an iteration fails; see `Lemmas/Good.lean`, the `ret`
  fields of the loop invariants).

The converse direction needed for "for every k below the number of polls of the uncancelled run the
call is cancelled" is `C20.cancel_at_k` in `Props/C20b.lean` (simulation against the unbudgeted run).
-/

namespace Sqljson
namespace C20
open Exec Api

/-- during any executor step: a failed poll ⇒ the step fails with the cancellation error -/
theorem cancel_during_item (c : Ctx) (fuel : Nat) (s : St) (n : Node) (v : Item) (f : Found) (u : Bool)
    (h0 : s.sawCancel = false) (h : (xItem c fuel s n v f u).st.sawCancel = true) :
    (xItem c fuel s n v f u).status = .failed ∧ (xItem c fuel s n v f u).err = some .cancelled :=
  (xItem_good c fuel s n v f u).cancel h0 h

/-- during any predicate: a failed poll ⇒ `unknown` together with the cancellation error
    (never `true`/`false`; `is unknown`, `exists`, `!`, `&&`, `||`, comparisons alike) -/
theorem cancel_during_predicate (c : Ctx) (fuel : Nat) (s : St) (n : Node) (v : Item) (b : Bool)
    (h0 : s.sawCancel = false) (h : (xBool c fuel s n v b).st.sawCancel = true) :
    (xBool c fuel s n v b).out = .unknown ∧ (xBool c fuel s n v b).err = some .cancelled :=
  (xBool_good c fuel s n v b).cancel h0 h

/-- a poll with an exhausted budget fails the step immediately -/
theorem poll_fails_immediately (c : Ctx) (fuel : Nat) (s : St) (n : Node) (v : Item) (f : Found) (u : Bool)
    (hb : s.budget = some 0) :
    xItem c (fuel + 1) s n v f u = ⟨{ s with sawCancel := true }, f, .failed, some .cancelled⟩ := by
  simp [xItem, poll, hb]

/-- **never a result**: whatever the entry point, path, document and options, if a context poll
    failed during the call, the outcome is the cancellation error. -/
theorem never_a_result (e : Entry) (fuel : Nat) (a : AST) (doc : Item) (o : Opts)
    (hsaw : (runRes e fuel a doc o).st.sawCancel = true)
    (hfuel : (runRes e fuel a doc o).st.oof = false)
    (hpanic : (runRes e fuel a doc o).st.panicked = false) :
    run e fuel a doc o = .error .cancelled := by
  have hg := runRes_good e fuel a doc o
  have hc := (hg.cancel (by simp [initSt]) hsaw).2
  cases e <;> simp only [run, runRes] at *
  · simp [queryWith, guarded, hfuel, hpanic, hc]
  · simp [firstWith, guarded, hfuel, hpanic, hc]
  · simp [existsWith, guarded, hfuel, hpanic, hc]
  · simp [matchWith, guarded, hfuel, hpanic, hc]
  · unfold existsOrMatchWith
    split
    · rename_i hp; simp [hp] at hsaw hfuel hpanic hc
      simp [matchWith, guarded, hfuel, hpanic, hc]
    · rename_i hp; simp [hp] at hsaw hfuel hpanic hc
      simp [existsWith, guarded, hfuel, hpanic, hc]

/-- cancelled before the first step (`k = 0`): every entry point returns the cancellation error -/
theorem cancel_at_zero (e : Entry) (fuel : Nat) (a : AST) (doc : Item) (o : Opts) (hk : o.budget = some 0) :
    run e (fuel + 1) a doc o = .error .cancelled := by
  have key : ∀ f : Found, query (mkCtx a doc o) (fuel + 1) (initSt a doc o) a.root doc f =
      ⟨{ initSt a doc o with sawCancel := true }, (if !a.lax && f.isNone then none else f), .failed, some .cancelled⟩ := by
    intro f
    have hb : (initSt a doc o).budget = some 0 := by simp [initSt, hk]
    unfold query executeItem
    rw [poll_fails_immediately _ _ _ _ _ _ _ hb, poll_fails_immediately _ _ _ _ _ _ _ hb]
    simp [mkCtx]
    split <;> simp_all
  cases e <;> simp only [run]
  · simp only [queryWith, execute, key]; simp [guarded, initSt]
  · simp only [firstWith, execute, key]; simp [guarded, initSt]
  · simp only [existsWith, existsRun, key]; simp [guarded, initSt]
  · simp only [matchWith, execute, key]; simp [guarded, initSt]
  · unfold existsOrMatchWith
    split
    · simp only [matchWith, execute, key]; simp [guarded, initSt]
    · simp only [existsWith, existsRun, key]; simp [guarded, initSt]

/-- non-vacuity: a concrete cancelled run (`$.a` on `{"a":1}`, done at the second poll) -/
example : run .query 10 ⟨.const .root (some (.key ['a'] none)), true, false⟩
    (.obj [(['a'], .int 1)]) { budget := some 1 } = .error .cancelled := by
  rfl

end C20
end Sqljson
