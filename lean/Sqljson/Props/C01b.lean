import Sqljson.Lemmas.Refine
import Sqljson.Props.Fuel
import Sqljson.Props.C05
/-!
# C01 (refinement part) — `Query` computes what the declarative semantics prescribes

"For every path the parser accepts and every JSON document, Query returns exactly the item sequence
(values and order …) and the error class that the documented SQL/JSON path evaluation rules prescribe
for the path's mode and options: each accessor, wildcard, subscript, filter, predicate … contributes
the items the rules give it and nothing else.  A predicate check expression returns the single true,
false or null value of its predicate."

`Props/C01.lean` claims this as the conjunction of the per-step theorems.  Here it is a **refinement
theorem** against a separate, declarative semantics: `Model/Sem.lean` defines, in direct style (no
continuations, no executor state, no status codes, no fuel), what a path means —
`Sem.query c q p : Outcome` = the items produced before the first error, and that error — and this
file proves that `exec.Query` (and `First`, `Exists`, `Match`) of the model returns exactly the
rendering of that outcome.

## The fragment

`Sem.Path` (see `Model/Sem.lean`): chains of `$`, `@`, `last`, literals, `$var`, `.key`, `.*`, `[*]`,
subscript lists `[e, e to e, …]` with **arbitrary** subscript expressions (including `last`), `.**{a to b}`,
`.type()`, `.size()`, the conversion methods `.number() .abs() .floor() .ceiling() .double() .integer()
.bigint() .string() .boolean() .decimal(p,s)`, the datetime methods `.datetime(…) .date() .time(p) .time_tz(p)
.timestamp(p) .timestamp_tz(p)`, unary `+`/`-`, binary `+ - * / %`, filters `?(p)` and predicates in item
position, with predicates built from comparisons (`== != < <= > >=`), `starts with`, `like_regex`, `&&`,
`||`, `!`, `is unknown`, `exists(path)` over arbitrary operand paths — i.e. every construct of the
language except `.keyvalue()` (whose ids depend on object addresses and on a counter of generated objects:
genuinely stateful, see D30).

`Path.toNode` translates a path into the executor's AST; `ast p lax pred` is the parsed query.

## Theorems (all for `Sem.Dialect.go`, see below)

* `execute_refines` — the run of `exec.execute` *matches* `Sem.query` (`Exec.Refine.Matches`: result
  list, failed iff error, reported error, context restored, no sticky flag), for all large fuel;
* `query_refines` (+ `query_refines_finished`, `query_refines_bound`): `Api.queryWith` =
  `renderQuery silent (Sem.query …)`: the items if there is no error; with an error `e`: `.error e`,
  unless the call is silent and `e` is suppressible — then the items produced before the error;
* `first_refines`, `match_refines`, `exists_refines` (+ `…_finished`, `…_bound`): `First` is the head,
  `Match` the single boolean/null, `Exists` non-emptiness (lax: of the items before the first error);
* `pred_check` — a predicate check expression returns the single `true`/`false`/`null` of its predicate;
* `eval_append` — the semantic composition law: `eval (p ++ s) = eval p >>= eval s` when `p` has no `.**`
  (otherwise `s` runs with structural errors skipped) — the declarative counterpart of `C09b`.

## Side conditions (exactly)

* `p.wf false = true`, `p.nonEmpty = true`: what the grammar guarantees — operands and subscript
  expressions are non-empty; `last` occurs only inside a subscript expression.  (For a chain that
  *follows* a subscript inside another subscript expression, `last` would denote the inner array in
  the executor — `Ex.last_rebinding_example`.)  `wf` also asks that the operand of `exists(…)` does not
  end in a unary `+`/`-`, and `exists_refines` asks the same of the whole path in lax mode
  (`Path.spineOK`): known finding D8 — probing such a chain answers "found" without looking at the
  items (`Ex.d8_example`).
* `o.budget = none`: the context is never done;
* `CbOK c`: comparing two items does not panic and no `like_regex` pattern fails to compile
  (`cbOK_of_law`: follows from the `strconv` law `C05.IntTextIsFloat` and compiled patterns).
* fuel: "for all sufficiently large fuel" (`∃ K, ∀ fuel ≥ K`), equivalently for every run that does
  not answer `outOfFuel`, equivalently for the computable `FuelProps.fuelBound`.

## Dialect: the deviations from the documented rules

The theorems are about `Sem.Dialect.go`.  `Sem.Dialect.documented` differs in two rules; each is a
deviation of the Go executor from PostgreSQL's documented behaviour, witnessed below by `rfl`:
`deviation_dropNulls` (D6), `deviation_isUnknown`.

Two further deviations (strict mode below `.**`: a subscript on a non-array raised the error, `.size()`
of a non-array answered `1`) have been repaired in the executor (D31, D32); their switches are gone from
`Sem.Dialect`, and `repaired_subscript_below_descent`, `repaired_size_below_descent` record that the
executor, `Dialect.go` and `Dialect.documented` now agree on the inputs that used to witness them.
-/

namespace Sqljson
namespace C01b
open Exec Api Sem Exec.Refine

/-! ## the parsed query, and the rendering of an outcome by the entry points -/

/-- the AST of the path `p` (`pred`: the parser's predicate-check flag) -/
def ast (p : Path) (lax pred : Bool) : AST := ⟨p.toNode.getD (.const .root none), lax, pred⟩

/-- `exec.Query` -/
def renderQuery (silent : Bool) (o : Sem.Outcome) : Api.Outcome :=
  match o.err with
  | none => .items o.items
  | some e => if silent && e.isVerbose then .items o.items else .error e

/-- `exec.First` -/
def renderFirst (silent : Bool) (o : Sem.Outcome) : Api.Outcome :=
  match o.err with
  | none => .first o.items.head?
  | some e => if silent && e.isVerbose then .first o.items.head? else .error e

/-- the verdict of `exec.Match` on a result list -/
def matchItems (silent : Bool) : List Item → Api.Outcome
  | [.null] => .null
  | [.bool b] => .bool b
  | _ => if !silent then .error .verbose else .null

/-- `exec.Match` -/
def renderMatch (silent : Bool) (o : Sem.Outcome) : Api.Outcome :=
  match o.err with
  | none => matchItems silent o.items
  | some e => if silent && e.isVerbose then matchItems silent o.items else .error e

/-- `exec.Exists`: lax mode stops at the first item -/
def renderExists (lax silent : Bool) (o : Sem.Outcome) : Api.Outcome :=
  if lax && !o.items.isEmpty then .bool true
  else
    match o.err with
    | none => .bool (!o.items.isEmpty)
    | some e => if silent && e.isVerbose then .null else .error e

/-! ## the run of `exec.execute` -/

theorem ast_root {p : Path} {n : Node} (hn : p.toNode = some n) (lax pred : Bool) :
    (ast p lax pred).root = n := by simp [ast, hn]

theorem execute_eq (fuel : Nat) (a : AST) (doc : Item) (o : Opts) :
    execute fuel a doc o = xItem (mkCtx a doc o) fuel (initSt a doc o) a.root doc (some []) a.lax := by
  simp [execute, Api.query, executeItem, mkCtx]

theorem initSt_rel (a : AST) (doc : Item) (o : Opts) (hb : o.budget = none) :
    Rel false (initSt a doc o) (Dyn.init (mkCtx a doc o)) :=
  ⟨⟨⟨hb, rfl, rfl⟩, rfl, fun h => by cases h⟩, rfl⟩

/-- **the run of `exec.execute` matches the semantics** -/
theorem execute_refines (p : Path) (hwf : p.wf false = true) (hne : p.nonEmpty = true) (lax pred : Bool)
    (doc : Item) (o : Opts) (hb : o.budget = none) (hc : CbOK (mkCtx (ast p lax pred) doc o)) :
    ∃ K, ∀ fuel, K ≤ fuel →
      Matches (initSt (ast p lax pred) doc o) [] (Sem.query (mkCtx (ast p lax pred) doc o) .go p)
        (execute fuel (ast p lax pred) doc o) := by
  obtain ⟨n, hn⟩ := toNode_of_nonEmpty hne
  obtain ⟨K, hK⟩ := refine_run (mkCtx (ast p lax pred) doc o) hc p false hwf n hn
    (Dyn.init (mkCtx (ast p lax pred) doc o)) doc
  refine ⟨K, fun fuel hf => ?_⟩
  rw [execute_eq, ast_root hn]
  exact hK fuel hf _ [] (initSt_rel _ doc o hb)

/-! ## from "all large fuel" to "every finished run" and to the computable bound -/

theorem of_eventually (e : Entry) (a : AST) (doc : Item) (o : Opts) (X : Api.Outcome) (_hX : X ≠ .outOfFuel)
    (h : ∃ K, ∀ fuel, K ≤ fuel → run e fuel a doc o = X) :
    (∀ fuel, run e fuel a doc o ≠ .outOfFuel → run e fuel a doc o = X) ∧
    run e (FuelProps.fuelBound a doc o) a doc o = X := by
  obtain ⟨K, hK⟩ := h
  have hfin : ∀ fuel, run e fuel a doc o ≠ .outOfFuel → run e fuel a doc o = X := by
    intro fuel hf
    have h1 := hK (max K fuel) (Nat.le_max_left ..)
    have h2 := FuelProps.run_fuel_independent e fuel (max K fuel) a doc o hf (Nat.le_max_right ..)
    rw [← h2, h1]
  exact ⟨hfin, hfin _ (FuelProps.fuel_adequate e a doc o)⟩

/-! ## `exec.Query` -/

theorem query_of_matches {a : AST} {doc : Item} {o : Opts} {out : Sem.Outcome} {fuel : Nat}
    (h : Matches (initSt a doc o) [] out (execute fuel a doc o)) :
    queryWith fuel a doc o = renderQuery o.silent out := by
  unfold queryWith guarded renderQuery
  simp only [h.keep.clean.oof, h.keep.clean.panicked, Bool.false_eq_true, if_false]
  cases he : out.err with
  | none =>
    simp only [(h.ok he).2, h.found, List.nil_append, Option.getD_some]
  | some e =>
    have h2 := (h.fail e he).2
    simp only [report, initSt] at h2
    cases hs : o.silent <;> cases hv : e.isVerbose <;>
      simp_all [h.found]

/-- **C01, refinement**: for all sufficiently large fuel, `exec.Query` returns the rendering of the
    declarative semantics of the path -/
theorem query_refines (p : Path) (hwf : p.wf false = true) (hne : p.nonEmpty = true) (lax pred : Bool)
    (doc : Item) (o : Opts) (hb : o.budget = none) (hc : CbOK (mkCtx (ast p lax pred) doc o)) :
    ∃ K, ∀ fuel, K ≤ fuel →
      queryWith fuel (ast p lax pred) doc o =
        renderQuery o.silent (Sem.query (mkCtx (ast p lax pred) doc o) .go p) := by
  obtain ⟨K, hK⟩ := execute_refines p hwf hne lax pred doc o hb hc
  exact ⟨K, fun fuel hf => query_of_matches (hK fuel hf)⟩

theorem renderQuery_ne (s : Bool) (o : Sem.Outcome) : renderQuery s o ≠ .outOfFuel := by
  unfold renderQuery; (repeat' split) <;> simp

/-- every run of `exec.Query` that finishes returns the rendering of the semantics -/
theorem query_refines_finished (p : Path) (hwf : p.wf false = true) (hne : p.nonEmpty = true) (lax pred : Bool)
    (doc : Item) (o : Opts) (hb : o.budget = none) (hc : CbOK (mkCtx (ast p lax pred) doc o)) (fuel : Nat)
    (hfin : queryWith fuel (ast p lax pred) doc o ≠ .outOfFuel) :
    queryWith fuel (ast p lax pred) doc o =
      renderQuery o.silent (Sem.query (mkCtx (ast p lax pred) doc o) .go p) :=
  (of_eventually .query _ doc o _ (renderQuery_ne _ _) (query_refines p hwf hne lax pred doc o hb hc)).1 fuel hfin

/-- with the computable fuel bound `exec.Query` returns the rendering of the semantics -/
theorem query_refines_bound (p : Path) (hwf : p.wf false = true) (hne : p.nonEmpty = true) (lax pred : Bool)
    (doc : Item) (o : Opts) (hb : o.budget = none) (hc : CbOK (mkCtx (ast p lax pred) doc o)) :
    queryWith (FuelProps.fuelBound (ast p lax pred) doc o) (ast p lax pred) doc o =
      renderQuery o.silent (Sem.query (mkCtx (ast p lax pred) doc o) .go p) :=
  (of_eventually .query _ doc o _ (renderQuery_ne _ _) (query_refines p hwf hne lax pred doc o hb hc)).2

/-! ## `exec.First`, `exec.Match` -/

theorem first_of_matches {a : AST} {doc : Item} {o : Opts} {out : Sem.Outcome} {fuel : Nat}
    (h : Matches (initSt a doc o) [] out (execute fuel a doc o)) :
    firstWith fuel a doc o = renderFirst o.silent out := by
  unfold firstWith guarded renderFirst
  simp only [h.keep.clean.oof, h.keep.clean.panicked, Bool.false_eq_true, if_false]
  cases he : out.err with
  | none =>
    simp only [(h.ok he).2, h.found, List.nil_append, Option.getD_some]
  | some e =>
    have h2 := (h.fail e he).2
    simp only [report, initSt] at h2
    cases hs : o.silent <;> cases hv : e.isVerbose <;>
      simp_all [h.found]

theorem match_of_matches {a : AST} {doc : Item} {o : Opts} {out : Sem.Outcome} {fuel : Nat}
    (h : Matches (initSt a doc o) [] out (execute fuel a doc o)) :
    matchWith fuel a doc o = renderMatch o.silent out := by
  have hm : ∀ xs : List Item, (match xs with
      | [.null] => Api.Outcome.null
      | [.bool b] => .bool b
      | _ => if !o.silent then .error .verbose else .null) = matchItems o.silent xs := by
    intro xs
    unfold matchItems
    rcases xs with _ | ⟨x, _ | ⟨y, ys⟩⟩
    · rfl
    · cases x <;> rfl
    · rfl
  unfold matchWith guarded renderMatch
  simp only [h.keep.clean.oof, h.keep.clean.panicked, Bool.false_eq_true, if_false]
  cases he : out.err with
  | none =>
    simp only [(h.ok he).2, h.found, List.nil_append, Option.getD_some]
    exact hm _
  | some e =>
    have h2 := (h.fail e he).2
    simp only [report, initSt] at h2
    have h3 : (execute fuel a doc o).err = if o.silent && e.isVerbose then none else some e := by
      rw [h2]
      rcases Bool.eq_false_or_eq_true o.silent with hs | hs <;>
        rcases Bool.eq_false_or_eq_true e.isVerbose with hv | hv <;> simp [hs, hv]
    rw [h3]
    by_cases hsv : (o.silent && e.isVerbose) = true
    · simp only [hsv, if_true, h.found, List.nil_append, Option.getD_some]
      exact hm _
    · simp only [hsv, Bool.false_eq_true, if_false]

/-- `exec.First` returns the first item of the semantics' sequence (or nothing) -/
theorem first_refines (p : Path) (hwf : p.wf false = true) (hne : p.nonEmpty = true) (lax pred : Bool)
    (doc : Item) (o : Opts) (hb : o.budget = none) (hc : CbOK (mkCtx (ast p lax pred) doc o)) :
    ∃ K, ∀ fuel, K ≤ fuel →
      firstWith fuel (ast p lax pred) doc o =
        renderFirst o.silent (Sem.query (mkCtx (ast p lax pred) doc o) .go p) := by
  obtain ⟨K, hK⟩ := execute_refines p hwf hne lax pred doc o hb hc
  exact ⟨K, fun fuel hf => first_of_matches (hK fuel hf)⟩

/-- `exec.Match` returns the sole boolean (or null) of the semantics' sequence -/
theorem match_refines (p : Path) (hwf : p.wf false = true) (hne : p.nonEmpty = true) (lax pred : Bool)
    (doc : Item) (o : Opts) (hb : o.budget = none) (hc : CbOK (mkCtx (ast p lax pred) doc o)) :
    ∃ K, ∀ fuel, K ≤ fuel →
      matchWith fuel (ast p lax pred) doc o =
        renderMatch o.silent (Sem.query (mkCtx (ast p lax pred) doc o) .go p) := by
  obtain ⟨K, hK⟩ := execute_refines p hwf hne lax pred doc o hb hc
  exact ⟨K, fun fuel hf => match_of_matches (hK fuel hf)⟩

theorem renderFirst_ne (s : Bool) (o : Sem.Outcome) : renderFirst s o ≠ .outOfFuel := by
  unfold renderFirst; (repeat' split) <;> simp

theorem renderMatch_ne (s : Bool) (o : Sem.Outcome) : renderMatch s o ≠ .outOfFuel := by
  unfold renderMatch matchItems; (repeat' split) <;> simp

theorem first_refines_finished (p : Path) (hwf : p.wf false = true) (hne : p.nonEmpty = true) (lax pred : Bool)
    (doc : Item) (o : Opts) (hb : o.budget = none) (hc : CbOK (mkCtx (ast p lax pred) doc o)) (fuel : Nat)
    (hfin : firstWith fuel (ast p lax pred) doc o ≠ .outOfFuel) :
    firstWith fuel (ast p lax pred) doc o =
      renderFirst o.silent (Sem.query (mkCtx (ast p lax pred) doc o) .go p) :=
  (of_eventually .first _ doc o _ (renderFirst_ne _ _) (first_refines p hwf hne lax pred doc o hb hc)).1 fuel hfin

theorem first_refines_bound (p : Path) (hwf : p.wf false = true) (hne : p.nonEmpty = true) (lax pred : Bool)
    (doc : Item) (o : Opts) (hb : o.budget = none) (hc : CbOK (mkCtx (ast p lax pred) doc o)) :
    firstWith (FuelProps.fuelBound (ast p lax pred) doc o) (ast p lax pred) doc o =
      renderFirst o.silent (Sem.query (mkCtx (ast p lax pred) doc o) .go p) :=
  (of_eventually .first _ doc o _ (renderFirst_ne _ _) (first_refines p hwf hne lax pred doc o hb hc)).2

theorem match_refines_finished (p : Path) (hwf : p.wf false = true) (hne : p.nonEmpty = true) (lax pred : Bool)
    (doc : Item) (o : Opts) (hb : o.budget = none) (hc : CbOK (mkCtx (ast p lax pred) doc o)) (fuel : Nat)
    (hfin : matchWith fuel (ast p lax pred) doc o ≠ .outOfFuel) :
    matchWith fuel (ast p lax pred) doc o =
      renderMatch o.silent (Sem.query (mkCtx (ast p lax pred) doc o) .go p) :=
  (of_eventually .match_ _ doc o _ (renderMatch_ne _ _) (match_refines p hwf hne lax pred doc o hb hc)).1 fuel hfin

theorem match_refines_bound (p : Path) (hwf : p.wf false = true) (hne : p.nonEmpty = true) (lax pred : Bool)
    (doc : Item) (o : Opts) (hb : o.budget = none) (hc : CbOK (mkCtx (ast p lax pred) doc o)) :
    matchWith (FuelProps.fuelBound (ast p lax pred) doc o) (ast p lax pred) doc o =
      renderMatch o.silent (Sem.query (mkCtx (ast p lax pred) doc o) .go p) :=
  (of_eventually .match_ _ doc o _ (renderMatch_ne _ _) (match_refines p hwf hne lax pred doc o hb hc)).2

/-! ## `exec.Exists` -/

theorem existsRun_strict (fuel : Nat) (a : AST) (doc : Item) (o : Opts) (hl : a.lax = false) :
    existsRun fuel a doc o =
      (let r := execute fuel a doc o
       if r.status = .failed then ⟨r.st, none, .failed, r.err⟩
       else if (r.found.getD []).isEmpty then ⟨r.st, none, .notFound, none⟩
       else ⟨r.st, none, .ok, none⟩) := by
  simp [existsRun, execute, Api.query, mkCtx, hl]

theorem existsRun_lax (fuel : Nat) (a : AST) (doc : Item) (o : Opts) (hl : a.lax = true) :
    existsRun fuel a doc o = xItem (mkCtx a doc o) fuel (initSt a doc o) a.root doc none true := by
  simp [existsRun, Api.query, mkCtx, hl, executeItem]

theorem exists_of_matches {p : Path} {lax pred : Bool} {doc : Item} {o : Opts} {fuel : Nat} (hne : p.nonEmpty = true)
    (hsp : lax = true → p.spineOK = true) (hb : o.budget = none)
    (h : Matches (initSt (ast p lax pred) doc o) [] (Sem.query (mkCtx (ast p lax pred) doc o) .go p)
      (execute fuel (ast p lax pred) doc o)) :
    existsWith fuel (ast p lax pred) doc o =
      renderExists lax o.silent (Sem.query (mkCtx (ast p lax pred) doc o) .go p) := by
  generalize hout : Sem.query (mkCtx (ast p lax pred) doc o) .go p = out at h ⊢
  have hrep : ∀ e, report (initSt (ast p lax pred) doc o) e = if o.silent && e.isVerbose then none else some e := by
    intro e
    simp only [report, initSt]
    rcases Bool.eq_false_or_eq_true o.silent with hs | hs <;>
      rcases Bool.eq_false_or_eq_true e.isVerbose with hv | hv <;> simp [hs, hv]
  cases lax with
  | false =>
    unfold existsWith
    rw [existsRun_strict _ _ _ _ rfl]
    dsimp only
    unfold renderExists guarded
    simp only [Bool.false_and, Bool.false_eq_true, if_false]
    cases he : out.err with
    | none =>
      obtain ⟨h1, h2⟩ := h.ok he
      have hf : (execute fuel (ast p false pred) doc o).found.getD [] = out.items := by simp [h.found]
      simp only [h1, if_false, hf]
      cases hemp : out.items.isEmpty <;>
        simp [h.keep.clean.oof, h.keep.clean.panicked]
    | some e =>
      obtain ⟨h1, h2⟩ := h.fail e he
      simp only [h1, if_true, h.keep.clean.oof, h.keep.clean.panicked, Bool.false_eq_true, if_false, h2, hrep]
      by_cases hsv : (o.silent && e.isVerbose) = true <;> simp [hsv]
  | true =>
    obtain ⟨n, hn⟩ := toNode_of_nonEmpty hne
    have hsp : Probe.spineOK n = true := by
      have := spineOK_path p (hsp rfl)
      rw [hn] at this
      simpa [Probe.spineOKO] using this
    unfold existsWith
    rw [existsRun_lax _ _ _ _ rfl, ast_root hn]
    rw [execute_eq, ast_root hn, show (ast p true pred).lax = true from rfl] at h
    have hrel := initSt_rel (ast p true pred) doc o hb
    obtain ⟨hk, hok, hemp⟩ := probe_spec (mkCtx (ast p true pred) doc o) fuel _ n doc true hsp hrel.clean out h
    have hgood := xItem_good (mkCtx (ast p true pred) doc o) fuel (initSt (ast p true pred) doc o) n doc none true
    generalize xItem (mkCtx (ast p true pred) doc o) fuel (initSt (ast p true pred) doc o) n doc none true = rp
      at hk hok hemp hgood ⊢
    unfold renderExists guarded
    simp only [hk.clean.oof, hk.clean.panicked, Bool.false_eq_true, if_false, Bool.true_and]
    by_cases hne' : out.items = []
    · obtain ⟨h0, h1, h2⟩ := hemp hne'
      simp only [hne', List.isEmpty_nil, Bool.not_true, Bool.false_eq_true, if_false]
      cases he : out.err with
      | none =>
        obtain ⟨g1, g2⟩ := h.ok he
        rw [← h1] at g1
        rw [← h2] at g2
        simp [g1, g2, h0]
      | some e =>
        obtain ⟨g1, g2⟩ := h.fail e he
        rw [← h1] at g1
        rw [← h2] at g2
        simp only [g1, g2, hrep, if_true]
        by_cases hsv : (o.silent && e.isVerbose) = true <;> simp [hsv]
    · have hst := hok hne'
      have herr : rp.err = none := by
        cases h' : rp.err with
        | none => rfl
        | some e => have := hgood.errFailed (by simp [h']); rw [hst] at this; cases this
      have hemp' : out.items.isEmpty = false := by cases h' : out.items <;> simp_all
      simp [hemp', hst, herr]

/-- `exec.Exists`: whether the semantics' sequence is non-empty (lax: before the first error) -/
theorem exists_refines (p : Path) (hwf : p.wf false = true) (hne : p.nonEmpty = true) (lax pred : Bool)
    (hsp : lax = true → p.spineOK = true) (doc : Item) (o : Opts) (hb : o.budget = none) (hc : CbOK (mkCtx (ast p lax pred) doc o)) :
    ∃ K, ∀ fuel, K ≤ fuel →
      existsWith fuel (ast p lax pred) doc o =
        renderExists lax o.silent (Sem.query (mkCtx (ast p lax pred) doc o) .go p) := by
  obtain ⟨K, hK⟩ := execute_refines p hwf hne lax pred doc o hb hc
  exact ⟨K, fun fuel hf => exists_of_matches hne hsp hb (hK fuel hf)⟩

theorem renderExists_ne (l s : Bool) (o : Sem.Outcome) : renderExists l s o ≠ .outOfFuel := by
  unfold renderExists; (repeat' split) <;> simp

theorem exists_refines_finished (p : Path) (hwf : p.wf false = true) (hne : p.nonEmpty = true) (lax pred : Bool)
    (hsp : lax = true → p.spineOK = true) (doc : Item) (o : Opts) (hb : o.budget = none) (hc : CbOK (mkCtx (ast p lax pred) doc o)) (fuel : Nat)
    (hfin : existsWith fuel (ast p lax pred) doc o ≠ .outOfFuel) :
    existsWith fuel (ast p lax pred) doc o =
      renderExists lax o.silent (Sem.query (mkCtx (ast p lax pred) doc o) .go p) :=
  (of_eventually .exists _ doc o _ (renderExists_ne _ _ _) (exists_refines p hwf hne lax pred hsp doc o hb hc)).1 fuel hfin

theorem exists_refines_bound (p : Path) (hwf : p.wf false = true) (hne : p.nonEmpty = true) (lax pred : Bool)
    (hsp : lax = true → p.spineOK = true) (doc : Item) (o : Opts) (hb : o.budget = none) (hc : CbOK (mkCtx (ast p lax pred) doc o)) :
    existsWith (FuelProps.fuelBound (ast p lax pred) doc o) (ast p lax pred) doc o =
      renderExists lax o.silent (Sem.query (mkCtx (ast p lax pred) doc o) .go p) :=
  (of_eventually .exists _ doc o _ (renderExists_ne _ _ _) (exists_refines p hwf hne lax pred hsp doc o hb hc)).2

/-! ## the side condition `CbOK` -/

/-- `CbOK` follows from the `strconv` law of `C05` (every text `ParseInt` accepts, `ParseFloat` accepts)
    and from every `like_regex` pattern compiling (the parser validates them, C04) -/
theorem cbOK_of_law (hlaw : C05.IntTextIsFloat) (c : Ctx)
    (hre : ∀ p fl t, (c.regexMatch p fl t).isSome = true) : CbOK c :=
  cbOK_of c (fun op l r => C05.compare_never_panics hlaw c op l r) hre

/-! ## a predicate check expression -/

theorem bind_one_right (o : Sem.Outcome) : o.bind Sem.Outcome.one = o := by
  obtain ⟨xs, e⟩ := o
  simp only [Sem.Outcome.bind, each_one]
  cases e <;> simp [Sem.Outcome.andThen, Sem.Outcome.seq]

/-- the meaning of a predicate check expression: the single truth value of the predicate on the
    document, or the error the predicate raises -/
theorem query_pred (c : Ctx) (q : Dialect) (pr : Sem.Pred) :
    Sem.query c q (.cons (.pred pr) .nil) = truthItem (evalPred c q pr (Dyn.init c) c.root) := by
  simp only [Sem.query, eval, evalStep, Step.after]
  exact bind_one_right _

/-- **"A predicate check expression returns the single true, false or null value of its predicate."** -/
theorem pred_check (pr : Sem.Pred) (hwf : pr.wf false = true) (lax : Bool) (doc : Item) (o : Opts)
    (hb : o.budget = none) (hc : CbOK (mkCtx (ast (.cons (.pred pr) .nil) lax true) doc o)) (k : Kleene)
    (hk : evalPred (mkCtx (ast (.cons (.pred pr) .nil) lax true) doc o) .go pr
      (Dyn.init (mkCtx (ast (.cons (.pred pr) .nil) lax true) doc o)) doc = .ok k) :
    queryWith (FuelProps.fuelBound (ast (.cons (.pred pr) .nil) lax true) doc o)
      (ast (.cons (.pred pr) .nil) lax true) doc o = .items [kleeneItem k] := by
  have h := query_refines_bound (.cons (.pred pr) .nil) (by simpa [Path.wf, Step.wf] using hwf) rfl lax true doc o hb hc
  rw [h, query_pred]
  have : (mkCtx (ast (.cons (.pred pr) .nil) lax true) doc o).root = doc := rfl
  rw [this, hk]
  rfl

/-! ## composition, semantically -/

def Path.append : Path → Path → Path
  | .nil, s => s
  | .cons st rest, s => .cons st (Path.append rest s)

/-- no `.**` step in the chain itself -/
def Path.noAny : Path → Bool
  | .nil => true
  | .cons (.any _ _) _ => false
  | .cons _ rest => Path.noAny rest

theorem bind_assoc (o : Sem.Outcome) (f g : Item → Sem.Outcome) :
    (o.bind f).bind g = o.bind (fun x => (f x).bind g) := by
  have h1 : o.bind f = (each f o.items).andThen ⟨[], o.err⟩ := rfl
  have h2 : o.bind (fun x => (f x).bind g) = (each (fun x => (f x).bind g) o.items).andThen ⟨[], o.err⟩ := rfl
  rw [h1, h2, bind_andThen, bind_each]
  congr 1

/-- **the composition law of the semantics**: a chain `P S` means: every item of `P`, in order, is handed
    to `S`; first error wins (cf. `C09b.compose_collect` for the executor).  When `P` contains `.**`, `S`
    is evaluated with structural errors skipped instead. -/
theorem eval_append (c : Ctx) (q : Dialect) (s : Path) : ∀ (p : Path), Path.noAny p = true → ∀ (ρ : Dyn) (v : Item),
    eval c q (Path.append p s) ρ v = (eval c q p ρ v).bind (eval c q s ρ)
  | .nil, _, ρ, v => by simp [Path.append, eval]
  | .cons st rest, hp, ρ, v => by
    have hst : st.after ρ = ρ := by cases st <;> simp_all [Path.noAny, Step.after]
    have hrest : Path.noAny rest = true := by cases st <;> simp_all [Path.noAny]
    simp only [Path.append, eval, hst, bind_assoc]
    congr 1
    funext x
    exact eval_append c q s rest hrest ρ x

/-! ## examples: the semantics on concrete paths and documents (non-vacuity, readability) -/

namespace Ex

/-- a chain from a list of steps -/
def P : List Step → Path
  | [] => .nil
  | s :: r => .cons s (P r)

/-- the context of a query on `doc` with default options -/
def ctx (lax : Bool) (doc : Item) : Ctx := mkCtx ⟨.const .root none, lax, false⟩ doc {}

def key (s : String) : Step := .key s.toList
def int (i : Int) : Path := P [.lit (.int i)]

/-- `{"a": [1, 2, null], "b": "x"}` -/
def doc1 : Item := .obj [("a".toList, .arr [.int 1, .int 2, .null]), ("b".toList, .str "x".toList)]
/-- `{"a": [1]}` -/
def doc2 : Item := .obj [("a".toList, .arr [.int 1])]
/-- `[[1, 7], 5, 9]` -/
def doc3 : Item := .arr [.arr [.int 1, .int 7], .int 5, .int 9]
/-- `[{"a": 1}, 2]` -/
def doc4 : Item := .arr [.obj [("a".toList, .int 1)], .int 2]

/-- `$.a[*]` -/
example : Sem.query (ctx true doc1) .go (P [.root, key "a", .anyArray]) = ⟨[.int 1, .int 2, .null], none⟩ := rfl
/-- `$.a.c`: lax – nothing; strict – the structural error -/
example : Sem.query (ctx true doc1) .go (P [.root, key "a", key "c"]) = ⟨[], none⟩ := rfl
example : Sem.query (ctx false doc1) .go (P [.root, key "a", key "c"]) = ⟨[], some .verbose⟩ := rfl
/-- `strict $.a[0, 5]`: the element of the first subscript, then the out-of-bounds error -/
example : Sem.query (ctx false doc1) .go (P [.root, key "a", .index (.one (int 0) (.one (int 5) .nil))]) =
    ⟨[.int 1], some .verbose⟩ := rfl
/-- `$.** ? (@ > 1)`: lax filters unwrap the array `[1,2,null]` as well as visiting its elements -/
example : Sem.query (ctx true doc1) .go (P [.root, .any 0 maxU32, .filter (.cmp .gt (P [.current]) (int 1))]) =
    ⟨[.int 2, .int 2], none⟩ := rfl
/-- `$.a[last].type()` (the last element is `null`, which the Go dialect drops – D6) -/
example : Sem.query (ctx true doc1) .documented (P [.root, key "a", .index (.one (P [.last]) .nil), .type]) =
    ⟨[.str "null".toList], none⟩ := rfl
/-- `exists($[*].a)` on `[{"a":1}, 2]`: strict – unknown (`null`), the second element has no member `a`;
    lax – true -/
example : Sem.query (ctx false doc4) .go (P [.pred (.exists (P [.root, .anyArray, key "a"]))]) = ⟨[.null], none⟩ := rfl
example : Sem.query (ctx true doc4) .go (P [.pred (.exists (P [.root, .anyArray, key "a"]))]) = ⟨[.bool true], none⟩ := rfl

/-! ### instances of the refinement theorem -/

/-- `Query(lax $.a[*], doc1)` with the computable fuel bound, through the theorem -/
example (hlaw : C05.IntTextIsFloat) :
    queryWith (FuelProps.fuelBound (ast (P [.root, key "a", .anyArray]) true false) doc1 {})
      (ast (P [.root, key "a", .anyArray]) true false) doc1 {} = .items [.int 1, .int 2, .null] :=
  query_refines_bound (P [.root, key "a", .anyArray]) rfl rfl true false doc1 {} rfl
    (cbOK_of_law hlaw _ (fun _ _ _ => rfl))

/-- `Query(strict $.a[0, 5], doc1)`: the error; silent: the item selected before it -/
example (hlaw : C05.IntTextIsFloat) :
    queryWith (FuelProps.fuelBound (ast (P [.root, key "a", .index (.one (int 0) (.one (int 5) .nil))]) false false) doc1 {})
      (ast (P [.root, key "a", .index (.one (int 0) (.one (int 5) .nil))]) false false) doc1 {} = .error .verbose :=
  query_refines_bound _ rfl rfl false false doc1 {} rfl (cbOK_of_law hlaw _ (fun _ _ _ => rfl))

example (hlaw : C05.IntTextIsFloat) :
    queryWith (FuelProps.fuelBound (ast (P [.root, key "a", .index (.one (int 0) (.one (int 5) .nil))]) false false) doc1
        { silent := true })
      (ast (P [.root, key "a", .index (.one (int 0) (.one (int 5) .nil))]) false false) doc1 { silent := true } =
      .items [.int 1] :=
  query_refines_bound _ rfl rfl false false doc1 { silent := true } rfl (cbOK_of_law hlaw _ (fun _ _ _ => rfl))

/-- and the model run itself, evaluated: the two agree -/
example : run .query 50 (ast (P [.root, key "a", .index (.one (int 0) (.one (int 5) .nil))]) false false) doc1
    { silent := true } = .items [.int 1] := rfl

/-! ### the two deviations of the Go executor from the documented rules (`Dialect.go` vs `.documented`),
each with the model's run; and the two repaired ones -/

/-- D6 (known): `$[0]` on `[null]` – the selected `null` is dropped -/
theorem deviation_dropNulls :
    Sem.query (ctx true (.arr [.null])) .go (P [.root, .index (.one (int 0) .nil)]) = ⟨[], none⟩ ∧
    Sem.query (ctx true (.arr [.null])) .documented (P [.root, .index (.one (int 0) .nil)]) = ⟨[.null], none⟩ ∧
    run .query 50 (ast (P [.root, .index (.one (int 0) .nil)]) true false) (.arr [.null]) {} = .items [] :=
  ⟨rfl, rfl, rfl⟩

/-- `($x == 1) is unknown` with `$x` undefined: the executor answers `true`; by the documented rules the
    "could not find jsonpath variable" error is raised (pinned by the Go suite) -/
theorem deviation_isUnknown :
    Sem.query (ctx true (.int 1)) .go (P [.pred (.isUnknown (.cmp .eq (P [.var "x".toList]) (int 1)))]) =
      ⟨[.bool true], none⟩ ∧
    Sem.query (ctx true (.int 1)) .documented (P [.pred (.isUnknown (.cmp .eq (P [.var "x".toList]) (int 1)))]) =
      ⟨[], some (.hard .noVar)⟩ ∧
    run .query 50 (ast (P [.pred (.isUnknown (.cmp .eq (P [.var "x".toList]) (int 1)))]) true true) (.int 1) {} =
      .items [.bool true] :=
  ⟨rfl, rfl, rfl⟩

/-- `strict $.**[0]` on `{"a":[1]}` (repaired, D31): non-arrays below `.**` are skipped – the object and
    the number – and the result is `1`, as PostgreSQL documents.  (The executor used to raise "array accessor
    can only be applied to an array" for the object.) -/
theorem repaired_subscript_below_descent :
    Sem.query (ctx false doc2) .go (P [.root, .any 0 maxU32, .index (.one (int 0) .nil)]) = ⟨[.int 1], none⟩ ∧
    Sem.query (ctx false doc2) .documented (P [.root, .any 0 maxU32, .index (.one (int 0) .nil)]) = ⟨[.int 1], none⟩ ∧
    run .query 50 (ast (P [.root, .any 0 maxU32, .index (.one (int 0) .nil)]) false false) doc2 {} = .items [.int 1] :=
  ⟨rfl, rfl, rfl⟩

/-- `strict $.**.size()` on `{"a":[1]}` (repaired, D32): the object and the number are skipped and the
    result is the size of the array only, as PostgreSQL documents.  (The executor used to answer `1` for
    each of the three.) -/
theorem repaired_size_below_descent :
    Sem.query (ctx false doc2) .go (P [.root, .any 0 maxU32, .size]) = ⟨[.int 1], none⟩ ∧
    Sem.query (ctx false doc2) .documented (P [.root, .any 0 maxU32, .size]) = ⟨[.int 1], none⟩ ∧
    run .query 50 (ast (P [.root, .any 0 maxU32, .size]) false false) doc2 {} = .items [.int 1] :=
  ⟨rfl, rfl, rfl⟩

/-- not below `.**` the strict-mode error is still raised, by the executor and by both dialects -/
theorem strict_subscript_still_error :
    Sem.query (ctx false doc2) .go (P [.root, .index (.one (int 0) .nil)]) = ⟨[], some .verbose⟩ ∧
    Sem.query (ctx false doc2) .documented (P [.root, .index (.one (int 0) .nil)]) = ⟨[], some .verbose⟩ ∧
    run .query 50 (ast (P [.root, .index (.one (int 0) .nil)]) false false) doc2 {} = .error .verbose ∧
    Sem.query (ctx false doc2) .go (P [.root, .size]) = ⟨[], some .verbose⟩ ∧
    run .query 50 (ast (P [.root, .size]) false false) doc2 {} = .error .verbose :=
  ⟨rfl, rfl, rfl, rfl, rfl⟩

/-! ### arithmetic, conversion and datetime methods -/

/-- `$.a[0] + 1` -/
example : Sem.query (ctx true doc1) .go (P [.arith .add (P [.root, key "a", .index (.one (int 0) .nil)]) (int 1)]) =
    ⟨[.int 2], none⟩ := rfl
/-- `-$.a` (lax): the array is unwrapped, `-1`, `-2`, then `null` is not a number – the items before
    the error are what a silent `Query` returns -/
example : Sem.query (ctx true doc1) .go (P [.unary .minus (P [.root, key "a"])]) =
    ⟨[.int (-1), .int (-2)], some .verbose⟩ := rfl
example : run .query 50 (ast (P [.unary .minus (P [.root, key "a"])]) true false) doc1 {} = .error .verbose := rfl
example : run .query 50 (ast (P [.unary .minus (P [.root, key "a"])]) true false) doc1 { silent := true } =
    .items [.int (-1), .int (-2)] := rfl
/-- `1 / 0` -/
example : Sem.query (ctx true doc1) .go (P [.arith .div (int 1) (int 0)]) = ⟨[], some .verbose⟩ := rfl
/-- `$.a[*] ? (@ * 2 > 2)`: `null * 2` is an error inside the filter, i.e. unknown -/
example : Sem.query (ctx true doc1) .go
    (P [.root, key "a", .anyArray, .filter (.cmp .gt (P [.arith .mul (P [.current]) (int 2)]) (int 2))]) =
    ⟨[.int 2], none⟩ := rfl
/-- `$.b.string().type()` -/
example : Sem.query (ctx true doc1) .go (P [.root, key "b", .conv .string, .type]) = ⟨[.str "string".toList], none⟩ := rfl
/-- `$.a.double()`: lax unwraps the array; `null` cannot be converted -/
example : (Sem.query (ctx true doc1) .go (P [.root, key "a", .conv .double])).err = some .verbose := rfl
-- (datetime methods: `"2023-08-15".date().type()` evaluates to `["date"]` in both `Sem.query` and the model
-- run by `#eval`; the kernel evaluation of the time parser is too slow for an `rfl` example)

/-- D8 (known), why `wf` asks `spineOK` of the operand of `exists`: lax `exists(-"a")` – the probe answers
    "found" without applying `-` to `"a"`; the complete evaluation is an error, i.e. unknown -/
theorem d8_example :
    Path.wf false (P [.pred (.exists (P [.unary .minus (P [.lit (.str "a".toList)])]))]) = false ∧
    Sem.query (ctx true doc1) .go (P [.pred (.exists (P [.unary .minus (P [.lit (.str "a".toList)])]))]) =
      ⟨[.null], none⟩ ∧
    run .query 50 (ast (P [.pred (.exists (P [.unary .minus (P [.lit (.str "a".toList)])]))]) true true) doc1 {} =
      .items [.bool true] :=
  ⟨rfl, rfl, rfl⟩

/-- outside the fragment (`wf` fails): `$[$[0][0] ? (@ == last)]` on `[[1,7],5,9]`.  The filter follows
    the inner subscript `[0]`; in the executor `last` there denotes the *inner* array (`1 == 1`, so the
    subscript is `1` and the result `5`), lexically it is the outer one (`1 == 2` is false, no subscript
    value: the error). -/
def lastRebinding : Path :=
  P [.root, .index (.one (P [.root, .index (.one (int 0) .nil), .index (.one (int 0) .nil),
      .filter (.cmp .eq (P [.current]) (P [.last]))]) .nil)]

theorem last_rebinding_example :
    lastRebinding.wf false = false ∧
    Sem.query (ctx true doc3) .go lastRebinding = ⟨[], some .verbose⟩ ∧
    run .query 50 (ast lastRebinding true false) doc3 {} = .items [.int 5] :=
  ⟨rfl, rfl, rfl⟩

end Ex

end C01b
end Sqljson
