import Sqljson.Lemmas.Rounding
import Sqljson.Model.Exec
/-!
# C16 (third part) — text → double, int64 → double, `.double()` / `.number()` return the CORRECTLY ROUNDED value

Property C16, the part at stake: *"`.double()`, `.number()` … return the correctly rounded value, and return an error
rather than a value outside … the finite doubles"*.  Until now "correctly rounded" was whatever the model's
`Decimal.parseFloat` / `F64.ofInt` compute.  Here they are tied to the specification of `Lemmas/Rounding.lean`
(`Rounds n d x`: `x` is the IEEE-754 round-to-nearest-even of the fraction `n/d` — `±Inf` exactly from
`2^1024 − 2^970` on, otherwise the nearest finite double, ties to the even mantissa, sign kept), which mentions no
algorithm and determines the result uniquely (`Rounding.rounds_iff_ofQ`).

## What a text denotes

`DecLit` is a decimal floating-point literal as `strconv.ParseFloat` accepts it — optional sign, digits, optional point and
digits (at least one digit in all), optional `e`/`E` exponent with optional sign — with `DecLit.text` its characters and
`DecLit.valNum / DecLit.valDen` the rational `(-1)^neg * digits * 10^(exponent − number of fraction digits)` it denotes.

## Theorems (all literals, all integers; no evaluation)

* `parseFloat_decLit`             `parseFloat l.text` is `scale10` of sign, digits and decimal exponent (text layer).
* `scale10_eq_ofQ`                `scale10` = rounding of that fraction (the digit-count shortcuts included).
* `parseFloat_correctly_rounded`  `parseFloat l.text = .error .range` if `|val l| ≥ 2^1024 − 2^970`, else `.ok x` with
                                  `x = ofQ …`, and `Rounds (val l) x`.
* `parseFloat_range_iff`          the range error occurs exactly when the rounded result would be infinite.
* `parseFloat_ok`                 otherwise: `.ok x`, `Nearest (val l) x`, `x` finite and well-formed, sign of `x` = written
                                  sign (so `-0`, `-1e-400` give `−0`).
* `parseFloat_never_syntax`       a valid literal is never a syntax error.
* `parseFloat_unique`             any `y` with `Rounds (val l) y` and the written sign is the value returned.
* `ofInt_correctly_rounded`, `ofInt_int64_nearest`, `ofInt_exact`   `float64(i)`.
* `double_of_string`, `double_of_jnum`, `number_of_string`, `double_of_int`   the same through `.double()` / `.number()`
                                  (`Exec.convDouble`, `Exec.convNumber none`): overflow is the suppressible error.
* `Examples`                      1e23, 2^53+1, 0.1, the overflow threshold and its predecessor (309 digits), around
                                  2^-1075, `-0`, a literal of 806 characters (finding F-ParseFloat800 below).

## Limits (stated, not hidden)

* The written exponent must be ≤ 100000 in absolute value (`DecLit.Valid.exOk`): the model's `takeExp` saturates there
  (Go saturates too, at a different point); with a longer exponent AND a mantissa of ≈ 100000 digits the model's value is
  not the rounded one.  Hex-float texts (`0x1p-2`), `inf`/`nan` spellings and underscore forms are not covered here.
* **Finding (Go, not the model).** `strconv.ParseFloat` of Go 1.23.5 is NOT correctly rounded on integer parts of more than
  800 digits when its fast paths do not apply: `"1" ++ 800 × "0" ++ "e-800"` denotes 1 and the model returns 1
  (`Examples.long_integer_part`), but Go returns 0.1 (`decimal.set` drops digits beyond 800 without counting them into
  the decimal point); through the library `"1000…0e-800".double()`, the same text as a JSON number and as a path literal
  all give 0.1.  The model and Go differ on such inputs.
-/

open Sqljson Sqljson.JNum Sqljson.FloatText

namespace Sqljson.C16c
open Sqljson.Rounding

/-! ## the text layer -/

/-- a decimal floating-point literal as Go's ParseFloat accepts it: optional sign, digits, optional point and
    digits, optional exponent -/
structure DecLit where
  sign : Option Bool                      -- `none`, `some false` = '+', `some true` = '-'
  ip : List Char                          -- digits before the point
  fp : Option (List Char)                 -- `some ds`: a point followed by the digits `ds`
  ex : Option (Char × Option Bool × List Char)   -- marker ('e' or 'E'), optional sign, exponent digits

def signText : Option Bool → List Char
  | none => [] | some false => ['+'] | some true => ['-']

def DecLit.text (l : DecLit) : List Char :=
  signText l.sign ++ l.ip ++ (match l.fp with | none => [] | some ds => '.' :: ds) ++
    (match l.ex with | none => [] | some (m, s, ds) => m :: (signText s ++ ds))

def DecLit.neg (l : DecLit) : Bool := l.sign == some true
/-- all the mantissa digits read as one natural -/
def DecLit.mant (l : DecLit) : Nat := Nat.ofDigitChars 10 (l.ip ++ l.fp.getD []) 0
/-- the written exponent -/
def DecLit.expVal (l : DecLit) : Int :=
  match l.ex with
  | none => 0
  | some (_, s, ds) => if s = some true then -((Nat.ofDigitChars 10 ds 0 : Nat) : Int) else ((Nat.ofDigitChars 10 ds 0 : Nat) : Int)
/-- the literal denotes `(-1)^neg * mant * 10^exp10` -/
def DecLit.exp10 (l : DecLit) : Int := l.expVal - ((l.fp.getD []).length : Int)

structure DecLit.Valid (l : DecLit) : Prop where
  ipDig : AllDig l.ip
  fpDig : AllDig (l.fp.getD [])
  someDigit : l.ip ++ l.fp.getD [] ≠ []
  exOk : ∀ m s ds, l.ex = some (m, s, ds) → (m = 'e' ∨ m = 'E') ∧ ds ≠ [] ∧ AllDig ds ∧ Nat.ofDigitChars 10 ds 0 ≤ 100000

/-! ## the parts of the text, as functions of the fields -/

def fpText : Option (List Char) → List Char
  | none => []
  | some ds => '.' :: ds

def exText : Option (Char × Option Bool × List Char) → List Char
  | none => []
  | some (m, s, ds) => m :: (signText s ++ ds)

def exVal : Option (Char × Option Bool × List Char) → Int
  | none => 0
  | some (_, s, ds) =>
    if s = some true then -((Nat.ofDigitChars 10 ds 0 : Nat) : Int) else ((Nat.ofDigitChars 10 ds 0 : Nat) : Int)

def ExOk (ex : Option (Char × Option Bool × List Char)) : Prop :=
  ∀ m s ds, ex = some (m, s, ds) →
    (m = 'e' ∨ m = 'E') ∧ ds ≠ [] ∧ AllDig ds ∧ Nat.ofDigitChars 10 ds 0 ≤ 100000

theorem text_eq (l : DecLit) :
    l.text = signText l.sign ++ (l.ip ++ (fpText l.fp ++ exText l.ex)) := by
  obtain ⟨sign, ip, fp, ex⟩ := l
  unfold DecLit.text
  rw [List.append_assoc, List.append_assoc]
  cases fp <;> cases ex <;> rfl

theorem expVal_eq (l : DecLit) : l.expVal = exVal l.ex := by
  obtain ⟨sign, ip, fp, ex⟩ := l
  cases ex <;> rfl

theorem signText_mem {s : Option Bool} {x : Char} (h : x ∈ signText s) : x = '+' ∨ x = '-' := by
  match s, h with
  | some false, h => exact Or.inl (by simpa [signText] using h)
  | some true, h => exact Or.inr (by simpa [signText] using h)

/-! ## the mantissa scan -/

/-- `takeMant` stops at the exponent part (or at the end of the text) -/
theorem takeMant_exText (ex : Option (Char × Option Bool × List Char)) (hex : ExOk ex)
    (acc nd nf : Nat) (dot : Bool) :
    Decimal.takeMant (exText ex) acc nd nf dot = (acc, nd, nf, dot, exText ex) := by
  match ex, hex with
  | none, _ => rfl
  | some (m, s, ds), hex =>
    have hm := (hex m s ds rfl).1
    have h1 : Decimal.isDigit m = false := by rcases hm with rfl | rfl <;> decide
    have h2 : (m = '.') = False := by rcases hm with rfl | rfl <;> simp
    show Decimal.takeMant (m :: (signText s ++ ds)) acc nd nf dot = _
    rw [Decimal.takeMant]
    simp [h1, h2, exText]

/-- the whole mantissa scan of a literal's body -/
theorem takeMant_lit (ip : List Char) (fp : Option (List Char))
    (ex : Option (Char × Option Bool × List Char))
    (hip : AllDig ip) (hfp : AllDig (fp.getD [])) (hex : ExOk ex) :
    Decimal.takeMant (ip ++ (fpText fp ++ exText ex)) 0 0 0 false =
      (Nat.ofDigitChars 10 (ip ++ fp.getD []) 0, ip.length + (fp.getD []).length, (fp.getD []).length,
        fp.isSome, exText ex) := by
  rw [takeMant_allDig ip _ hip]
  cases fp with
  | none =>
    show Decimal.takeMant (exText ex) _ _ _ _ = _
    rw [takeMant_exText ex hex]
    simp
  | some ds =>
    have hds : AllDig ds := hfp
    show Decimal.takeMant ('.' :: (ds ++ exText ex)) _ _ _ _ = _
    rw [takeMant_dot, takeMant_allDig ds _ hds, takeMant_exText ex hex, Nat.ofDigitChars_append]
    simp

/-! ## the exponent scan -/

theorem takeExp_some (m : Char) (s : Option Bool) (ds : List Char) (hm : m = 'e' ∨ m = 'E')
    (hne : ds ≠ []) (hds : AllDig ds) (hb : Nat.ofDigitChars 10 ds 0 ≤ 100000) :
    Decimal.takeExp 'e' (m :: (signText s ++ ds)) = some (exVal (some (m, s, ds)), []) := by
  have hm' : Decimal.lowerC m = 'e' := by rcases hm with rfl | rfl <;> decide
  have e := takeDigits_allDig ds hds 0 0
  have hcap : ¬ (Nat.ofDigitChars 10 ds 0 > 100000) := by omega
  match s with
  | none =>
    show Decimal.takeExp 'e' (m :: ds) = _
    cases ds with
    | nil => exact absurd rfl hne
    | cons d ds' =>
      have hd := digit_ne (allDig_head hds)
      rw [Decimal.takeExp, if_pos hm', e]
      · simp [hcap, exVal]
      · intro r' h; injection h with a _; exact hd.2.2.2.1 a
      · intro r' h; injection h with a _; exact hd.2.2.2.2.1 a
  | some false =>
    show Decimal.takeExp 'e' (m :: '+' :: ds) = _
    rw [Decimal.takeExp, if_pos hm', e]
    simp [hne, hcap, exVal]
  | some true =>
    show Decimal.takeExp 'e' (m :: '-' :: ds) = _
    rw [Decimal.takeExp, if_pos hm', e]
    simp [hne, hcap, exVal]

theorem takeExp_exText (ex : Option (Char × Option Bool × List Char)) (hex : ExOk ex) :
    Decimal.takeExp 'e' (exText ex) = some (exVal ex, []) := by
  match ex, hex with
  | none, _ => rfl
  | some (m, s, ds), hex =>
    obtain ⟨hm, hne, hds, hb⟩ := hex m s ds rfl
    exact takeExp_some m s ds hm hne hds hb

/-! ## the decimal branch on a literal's body -/

theorem dec_lit (neg : Bool) (ip : List Char) (fp : Option (List Char))
    (ex : Option (Char × Option Bool × List Char))
    (hip : AllDig ip) (hfp : AllDig (fp.getD [])) (hne : ip ++ fp.getD [] ≠ []) (hex : ExOk ex) :
    Decimal.parseFloatNoUnderscore.dec neg (ip ++ (fpText fp ++ exText ex)) =
      if (Decimal.scale10 neg (Nat.ofDigitChars 10 (ip ++ fp.getD []) 0)
            (exVal ex - ((fp.getD []).length : Int))).isInf then .error .range
      else .ok (Decimal.scale10 neg (Nat.ofDigitChars 10 (ip ++ fp.getD []) 0)
            (exVal ex - ((fp.getD []).length : Int))) := by
  have hnd : ¬ (ip.length + (fp.getD []).length = 0) := by
    intro h
    apply hne
    rw [← List.length_eq_zero_iff, List.length_append]
    exact h
  unfold Decimal.parseFloatNoUnderscore.dec
  rw [takeMant_lit ip fp ex hip hfp hex]
  simp only [hnd, if_false, takeExp_exText ex hex]

/-! ## reaching the decimal branch -/

theorem pfnu_plus (t : List Char) :
    Decimal.parseFloatNoUnderscore ('+' :: t) = pfBody false t ('+' :: t) := by
  rfl

/-- a digit or a point at the head of the body -/
theorem lead_ok {c : Char} (h : Decimal.isDigit c = true ∨ c = '.') :
    c ≠ '+' ∧ c ≠ '-' ∧ c ≠ '_' ∧ Decimal.lowerC c ≠ 'i' ∧ Decimal.lowerC c ≠ 'n' := by
  rcases h with h | rfl
  · have hd := digit_ne h
    rw [digit_lowerC h]
    exact ⟨hd.2.2.2.1, hd.2.2.2.2.1, hd.2.2.2.2.2.1, hd.2.2.2.2.2.2.2.1, hd.2.2.2.2.2.2.2.2⟩
  · decide

/-- `pfBody_dec` for any head that is not an `i` (a digit or a point) -/
theorem pfBody_dec' (neg : Bool) (c : Char) (rest s : List Char) (hi : Decimal.lowerC c ≠ 'i')
    (hs : Decimal.eqFold s "nan" = false)
    (hx : ∀ x ∈ rest, Decimal.lowerC x ≠ 'x') :
    pfBody neg (c :: rest) s = Decimal.parseFloatNoUnderscore.dec neg (c :: rest) := by
  have e1 : Decimal.eqFold (c :: rest) "inf" = false :=
    eqFold_head_false c rest "inf" 'i' ['n', 'f'] (by decide) hi
  have e2 : Decimal.eqFold (c :: rest) "infinity" = false :=
    eqFold_head_false c rest "infinity" 'i' ['n', 'f', 'i', 'n', 'i', 't', 'y'] (by decide) hi
  unfold pfBody
  simp only [e1, e2, hs, Bool.or_self, Bool.false_eq_true, if_false]
  split
  · rename_i x rest' heq
    injection heq with _ heq
    subst heq
    rw [if_neg (hx x (List.mem_cons_self ..))]
  · rfl

/-- an optionally signed text of number characters that starts with a digit or a point goes through
    the decimal branch of `ParseFloat` -/
theorem parseFloat_signed (sign : Option Bool) (c : Char) (rest : List Char)
    (hc : Decimal.isDigit c = true ∨ c = '.') (hj : ∀ x ∈ rest, JChar x) :
    Decimal.parseFloat (signText sign ++ c :: rest) =
      Decimal.parseFloatNoUnderscore.dec (sign == some true) (c :: rest) := by
  obtain ⟨hp, hm, hu_, hi, hn⟩ := lead_ok hc
  have hx : ∀ x ∈ rest, Decimal.lowerC x ≠ 'x' := fun x hx => (jchar_ok (hj x hx)).2
  have hu : (signText sign ++ c :: rest).contains '_' = false := by
    apply no_underscore
    intro x hx
    rcases List.mem_append.mp hx with h | h
    · rcases signText_mem h with rfl | rfl <;> decide
    · rcases List.mem_cons.mp h with rfl | h
      · exact hu_
      · exact (jchar_ok (hj x h)).1
  unfold Decimal.parseFloat
  rw [hu]
  simp only [Bool.false_eq_true, if_false]
  match sign with
  | none =>
    show Decimal.parseFloatNoUnderscore (c :: rest) = _
    rw [pfnu_plain c _ hp hm]
    exact pfBody_dec' false c _ _ hi (eqFold_head_false c _ "nan" 'n' ['a', 'n'] (by decide) hn) hx
  | some false =>
    show Decimal.parseFloatNoUnderscore ('+' :: c :: rest) = _
    rw [pfnu_plus]
    exact pfBody_dec' false c _ _ hi
      (eqFold_head_false '+' _ "nan" 'n' ['a', 'n'] (by decide) (by decide)) hx
  | some true =>
    show Decimal.parseFloatNoUnderscore ('-' :: c :: rest) = _
    rw [pfnu_minus]
    exact pfBody_dec' true c _ _ hi
      (eqFold_head_false '-' _ "nan" 'n' ['a', 'n'] (by decide) (by decide)) hx

/-! ## the shape of a literal's body -/

theorem exText_jchar (ex : Option (Char × Option Bool × List Char)) (hex : ExOk ex) :
    ∀ x ∈ exText ex, JChar x := by
  match ex, hex with
  | none, _ => intro x hx; cases hx
  | some (m, s, ds), hex =>
    obtain ⟨hm, _, hds, _⟩ := hex m s ds rfl
    intro x hx
    rcases List.mem_cons.mp hx with rfl | hx
    · rcases hm with rfl | rfl
      · exact Or.inr (Or.inr (Or.inl rfl))
      · exact Or.inr (Or.inr (Or.inr (Or.inl rfl)))
    · rcases List.mem_append.mp hx with h | h
      · rcases signText_mem h with rfl | rfl
        · exact Or.inr (Or.inr (Or.inr (Or.inr (Or.inl rfl))))
        · exact Or.inr (Or.inr (Or.inr (Or.inr (Or.inr rfl))))
      · exact Or.inl (hds x h)

theorem fpText_jchar (fp : Option (List Char)) (hfp : AllDig (fp.getD [])) :
    ∀ x ∈ fpText fp, JChar x := by
  cases fp with
  | none => intro x hx; cases hx
  | some ds =>
    intro x hx
    rcases List.mem_cons.mp hx with rfl | hx
    · exact Or.inr (Or.inl rfl)
    · exact Or.inl (hfp x hx)

theorem body_jchar' (ip : List Char) (fp : Option (List Char))
    (ex : Option (Char × Option Bool × List Char))
    (hip : AllDig ip) (hfp : AllDig (fp.getD [])) (hex : ExOk ex) :
    ∀ x ∈ ip ++ (fpText fp ++ exText ex), JChar x := by
  intro x hx
  rcases List.mem_append.mp hx with h | h
  · exact Or.inl (hip x h)
  · rcases List.mem_append.mp h with h | h
    · exact fpText_jchar fp hfp x h
    · exact exText_jchar ex hex x h

/-- the body starts with a digit or a point -/
theorem body_lead (ip : List Char) (fp : Option (List Char)) (t : List Char)
    (hip : AllDig ip) (hne : ip ++ fp.getD [] ≠ []) :
    ∃ c rest, ip ++ (fpText fp ++ t) = c :: rest ∧ (Decimal.isDigit c = true ∨ c = '.') := by
  cases ip with
  | cons d ip' => exact ⟨d, _, rfl, Or.inl (allDig_head hip)⟩
  | nil =>
    cases fp with
    | none => exact absurd rfl hne
    | some ds => exact ⟨'.', ds ++ t, rfl, Or.inr rfl⟩

/-! ## the theorem -/

/-- **`ParseFloat` on a decimal literal is `scale10` of its sign, digits and decimal exponent**
    (a range error when that is infinite) -/
theorem parseFloat_decLit (l : DecLit) (h : l.Valid) :
    Decimal.parseFloat l.text =
      if (Decimal.scale10 l.neg l.mant l.exp10).isInf then .error .range
      else .ok (Decimal.scale10 l.neg l.mant l.exp10) := by
  have hex : ExOk l.ex := h.exOk
  have hj := body_jchar' l.ip l.fp l.ex h.ipDig h.fpDig hex
  obtain ⟨c, rest, hb, hc⟩ := body_lead l.ip l.fp (exText l.ex) h.ipDig h.someDigit
  rw [hb] at hj
  rw [text_eq, hb, parseFloat_signed l.sign c rest hc (fun x hx => hj x (List.mem_cons_of_mem _ hx)),
    ← hb, dec_lit _ l.ip l.fp l.ex h.ipDig h.fpDig h.someDigit hex]
  unfold DecLit.neg DecLit.mant DecLit.exp10
  rw [expVal_eq]


/-! ## what the literal denotes, and the rounding -/

/-- numerator of the rational denoted by the literal: `(-1)^neg * digits * 10^max(exp10, 0)` -/
def DecLit.valNum (l : DecLit) : Int := sg l.neg (l.mant * 10 ^ l.exp10.toNat)
/-- denominator: `10^max(-exp10, 0)` -/
def DecLit.valDen (l : DecLit) : Nat := 10 ^ (-l.exp10).toNat

theorem DecLit.valDen_pos (l : DecLit) : 0 < l.valDen := Nat.pow_pos (by decide)

theorem sg_zero (b : Bool) : sg b 0 = 0 := by cases b <;> rfl

/-- **`scale10` is the IEEE rounding (`ofQ`) of the fraction `(-1)^neg * m * 10^e`**; a zero keeps the written sign -/
theorem scale10_eq_ofQ (neg : Bool) (m : Nat) (e : Int) :
    Decimal.scale10 neg m e = F64.ofQ (sg neg (m * 10 ^ e.toNat)) (10 ^ (-e).toNat) neg := by
  by_cases hm : m = 0
  · subst hm
    rw [scale10_zero, Nat.zero_mul, sg_zero, ofQ_zero]
  · have hnum : 0 < m * 10 ^ e.toNat := Nat.mul_pos (Nat.pos_of_ne_zero hm) (Nat.pow_pos (by decide))
    obtain ⟨hne, hs, ha⟩ := sg_facts neg hnum
    rw [scale10_eq_roundPos]
    unfold F64.ofQ
    rw [if_neg hne, hs, ha]

/-- the value `parseFloat` computes for a literal -/
def DecLit.rounded (l : DecLit) : F64 := F64.ofQ l.valNum l.valDen l.neg

theorem DecLit.rounded_rounds (l : DecLit) : Rounds l.valNum l.valDen l.rounded :=
  ofQ_rounds _ l.valDen_pos _

theorem DecLit.rounded_isInf (l : DecLit) :
    l.rounded.isInf = true ↔ (2 ^ 1024 - 2 ^ 970) * l.valDen ≤ l.valNum.natAbs := by
  set_option exponentiation.threshold 2000 in exact rounds_inf_iff l.rounded_rounds

/-- **`ParseFloat` returns the correctly rounded value of the decimal the text denotes, and the range error exactly when
    that would be infinite** -/
theorem parseFloat_correctly_rounded (l : DecLit) (h : l.Valid) :
    Rounds l.valNum l.valDen l.rounded ∧
    Decimal.parseFloat l.text =
      if (2 ^ 1024 - 2 ^ 970) * l.valDen ≤ l.valNum.natAbs then .error .range else .ok l.rounded := by
  refine ⟨l.rounded_rounds, ?_⟩
  rw [parseFloat_decLit l h, scale10_eq_ofQ]
  show (if l.rounded.isInf = true then _ else _) = _
  by_cases hi : l.rounded.isInf = true
  · rw [if_pos hi, if_pos (l.rounded_isInf.mp hi)]
  · rw [if_neg hi, if_neg (fun h' => hi (l.rounded_isInf.mpr h'))]
    rfl

theorem parseFloat_range_iff (l : DecLit) (h : l.Valid) :
    Decimal.parseFloat l.text = .error .range ↔ (2 ^ 1024 - 2 ^ 970) * l.valDen ≤ l.valNum.natAbs := by
  rw [(parseFloat_correctly_rounded l h).2]
  by_cases hc : (2 ^ 1024 - 2 ^ 970) * l.valDen ≤ l.valNum.natAbs
  · rw [if_pos hc]; exact ⟨fun _ => hc, fun _ => rfl⟩
  · rw [if_neg hc]; exact ⟨fun h' => (by cases h'), fun h' => absurd h' hc⟩

theorem parseFloat_never_syntax (l : DecLit) (h : l.Valid) : Decimal.parseFloat l.text ≠ .error .syntax := by
  rw [(parseFloat_correctly_rounded l h).2]
  split <;> intro h' <;> cases h'

theorem rounded_signBit (l : DecLit) (hfin : l.rounded.isFinite = true) : l.rounded.signBit = l.neg := by
  by_cases hm : l.mant = 0
  · have : l.rounded = .fin l.neg 0 F64.minExp := by
      unfold DecLit.rounded DecLit.valNum
      rw [hm, Nat.zero_mul, sg_zero, ofQ_zero]
    rw [this]; rfl
  · have hnum : 0 < l.mant * 10 ^ l.exp10.toNat := Nat.mul_pos (Nat.pos_of_ne_zero hm) (Nat.pow_pos (by decide))
    obtain ⟨hne, hs, _⟩ := sg_facts l.neg hnum
    rcases l.rounded_rounds with ⟨_, h2⟩ | ⟨_, _, h3⟩
    · rw [h2] at hfin; cases hfin
    · rw [h3 hne]; exact hs

/-- below the threshold: a finite, well-formed double, nearest to the denoted rational (ties to even), carrying the
    written sign (also when the value is or rounds to zero) -/
theorem parseFloat_ok (l : DecLit) (h : l.Valid) (hlt : l.valNum.natAbs < (2 ^ 1024 - 2 ^ 970) * l.valDen) :
    ∃ x, Decimal.parseFloat l.text = .ok x ∧ Nearest l.valNum l.valDen x ∧ x.signBit = l.neg := by
  refine ⟨l.rounded, ?_, ?_, ?_⟩
  · rw [(parseFloat_correctly_rounded l h).2, if_neg (by omega)]
  · exact rounds_nearest l.rounded_rounds hlt
  · exact rounded_signBit l (rounds_nearest l.rounded_rounds hlt).finite

/-- the specification pins the result down: any double that is an IEEE rounding of the denoted rational and carries the
    written sign is the value `ParseFloat` returns -/
theorem parseFloat_unique (l : DecLit) (h : l.Valid) (hlt : l.valNum.natAbs < (2 ^ 1024 - 2 ^ 970) * l.valDen)
    (y : F64) (hy : Rounds l.valNum l.valDen y) (hs : y.signBit = l.neg) :
    Decimal.parseFloat l.text = .ok y := by
  rw [(parseFloat_correctly_rounded l h).2, if_neg (by omega)]
  congr 1
  by_cases hn : l.valNum = 0
  · obtain ⟨z, hz⟩ := (rounds_zero_iff l.valDen_pos y).mp (hn ▸ hy)
    subst hz
    have : z = l.neg := hs
    subst this
    unfold DecLit.rounded
    rw [hn, ofQ_zero]
  · exact ((rounds_iff_ofQ l.valDen_pos hn l.neg y).mp hy).symm

/-! ## int64 → double -/

/-- **`float64(i)` is `i` correctly rounded** (any integer) -/
theorem ofInt_correctly_rounded (i : Int) : Rounds i 1 (F64.ofInt i) := ofInt_rounds i

/-- for an int64 the conversion is finite: the nearest double, ties to even -/
theorem ofInt_int64_nearest (i : Int) (h : Item.inInt64 i = true) : Nearest i 1 (F64.ofInt i) := by
  apply ofInt_nearest
  simp only [Item.inInt64, Item.int64Min, Item.int64Max, Bool.and_eq_true] at h
  have h1 := of_decide_eq_true h.1
  have h2 := of_decide_eq_true h.2
  omega

/-- up to `2^53` in magnitude the conversion is exact: the value of `float64(i)` is `i` -/
theorem ofInt_exact (i : Int) (h : i.natAbs < 2 ^ 53) :
    (F64.ofInt i).isFinite = true ∧ num (F64.ofInt i) = i * (den (F64.ofInt i) : Int) := by
  by_cases hi : i = 0
  · subst hi
    have : F64.ofInt 0 = .fin false 0 F64.minExp := ofQ_zero 1 false
    rw [this, num_zero]
    exact ⟨rfl, by omega⟩
  · have hpos : 0 < i.natAbs := by omega
    obtain ⟨E, j, hj, _, hr⟩ := roundPos_pow2_exact (decide (i < 0)) (r := i.natAbs) (lo := 0) hpos h (by omega) (by omega)
    have e1 : i.natAbs * 2 ^ (0 : Int).toNat = i.natAbs := by simp
    have e2 : 2 ^ (-(0 : Int)).toNat = 1 := by simp
    rw [e1, e2] at hr
    have hof : F64.ofInt i = F64.roundPos (decide (i < 0)) i.natAbs 1 := by
      unfold F64.ofInt F64.ofQ
      rw [if_neg hi]
    rw [hof, hr]
    refine ⟨rfl, ?_⟩
    have hE : E.toNat = 0 := by omega
    have hE' : (-E).toNat = j := by omega
    have hnum : num (.fin (decide (i < 0)) (i.natAbs * 2 ^ j) E) = sg (decide (i < 0)) (i.natAbs * 2 ^ j) := by
      cases hb : decide (i < 0) <;> simp [num, sg, hE]
    have hden : den (.fin (decide (i < 0)) (i.natAbs * 2 ^ j) E) = 2 ^ j := by
      simp [den, hE']
    rw [hnum, hden, ← sg_mul, sg_natAbs]

/-! ## `.double()` and `.number()` -/

theorem rounded_nonFinite (l : DecLit) (hlt : ¬ (2 ^ 1024 - 2 ^ 970) * l.valDen ≤ l.valNum.natAbs) :
    Exec.nonFinite l.rounded = false := by
  have h1 : l.rounded.isInf = false := by
    cases hi : l.rounded.isInf
    · rfl
    · exact absurd (l.rounded_isInf.mp hi) hlt
  have h2 := rounds_not_nan l.rounded_rounds
  unfold Exec.nonFinite
  rw [h1, h2]; rfl

/-- **`.double()` of a string holding a decimal literal**: the correctly rounded value, or the suppressible error when that
    would be infinite -/
theorem double_of_string (l : DecLit) (h : l.Valid) :
    Exec.convDouble (.str l.text) =
      if (2 ^ 1024 - 2 ^ 970) * l.valDen ≤ l.valNum.natAbs then .verbose else .val (.flt l.rounded) := by
  simp only [Exec.convDouble]
  rw [(parseFloat_correctly_rounded l h).2]
  by_cases hc : (2 ^ 1024 - 2 ^ 970) * l.valDen ≤ l.valNum.natAbs
  · rw [if_pos hc, if_pos hc]
  · rw [if_neg hc, if_neg hc]
    simp only [rounded_nonFinite l hc, Bool.false_eq_true, if_false]

/-- the same for a `json.Number` item whose text is the literal (it is read by `Float64()` when `Int64()` fails, and by
    `.double()` always) -/
theorem double_of_jnum (l : DecLit) (h : l.Valid) :
    Exec.convDouble (.jnum l.text) =
      if (2 ^ 1024 - 2 ^ 970) * l.valDen ≤ l.valNum.natAbs then .verbose else .val (.flt l.rounded) := by
  simp only [Exec.convDouble, Decimal.jnumFloat64]
  rw [(parseFloat_correctly_rounded l h).2]
  by_cases hc : (2 ^ 1024 - 2 ^ 970) * l.valDen ≤ l.valNum.natAbs
  · rw [if_pos hc, if_pos hc]
  · rw [if_neg hc, if_neg hc]
    simp only [rounded_nonFinite l hc, Bool.false_eq_true, if_false]

/-- `.number()` of such a string -/
theorem number_of_string (l : DecLit) (h : l.Valid) :
    Exec.convNumber none (.str l.text) =
      if (2 ^ 1024 - 2 ^ 970) * l.valDen ≤ l.valNum.natAbs then .verbose else .val (.flt l.rounded) := by
  simp only [Exec.convNumber]
  rw [(parseFloat_correctly_rounded l h).2]
  by_cases hc : (2 ^ 1024 - 2 ^ 970) * l.valDen ≤ l.valNum.natAbs
  · rw [if_pos hc, if_pos hc]
  · rw [if_neg hc, if_neg hc]
    simp only [rounded_nonFinite l hc, Bool.false_eq_true, if_false]

/-- `.double()` of an int64 item: the nearest double (never an error) -/
theorem double_of_int (i : Int) (h : Item.inInt64 i = true) :
    Exec.convDouble (.int i) = .val (.flt (F64.ofInt i)) ∧ Nearest i 1 (F64.ofInt i) := by
  have hn := ofInt_int64_nearest i h
  refine ⟨?_, hn⟩
  have hf := hn.finite
  simp only [Exec.convDouble]
  have : Exec.nonFinite (F64.ofInt i) = false := by
    unfold Exec.nonFinite
    cases hx : F64.ofInt i <;> rw [hx] at hf <;> first | rfl | cases hf
  rw [this]; rfl

/-! ## a decidable validity check, and concrete instances -/

def DecLit.validB (l : DecLit) : Bool :=
  l.ip.all Decimal.isDigit && (l.fp.getD []).all Decimal.isDigit && !(l.ip ++ l.fp.getD []).isEmpty &&
  (match l.ex with
   | none => true
   | some (m, _, ds) => (m == 'e' || m == 'E') && !ds.isEmpty && ds.all Decimal.isDigit &&
       decide (Nat.ofDigitChars 10 ds 0 ≤ 100000))

theorem allDig_of_all {ds : List Char} (h : ds.all Decimal.isDigit = true) : AllDig ds :=
  fun c hc => List.all_eq_true.mp h c hc

theorem DecLit.valid_of_validB (l : DecLit) (h : l.validB = true) : l.Valid := by
  unfold DecLit.validB at h
  simp only [Bool.and_eq_true] at h
  obtain ⟨⟨⟨h1, h2⟩, h3⟩, h4⟩ := h
  refine ⟨allDig_of_all h1, allDig_of_all h2, ?_, ?_⟩
  · intro he; rw [he] at h3; simp at h3
  · intro m s ds he
    rw [he] at h4
    simp only [Bool.and_eq_true, Bool.or_eq_true, beq_iff_eq, decide_eq_true_eq] at h4
    obtain ⟨⟨⟨g1, g2⟩, g3⟩, g4⟩ := h4
    refine ⟨g1, ?_, allDig_of_all g3, g4⟩
    intro hd; rw [hd] at g2; simp at g2

namespace Examples

def b (x : Nat) : F64 := F64.ofBits x

/-- Boolean form of "`parseFloat t` is `.ok x`" (`Except` has no `DecidableEq`) -/
def parsesTo (t : List Char) (x : F64) : Bool :=
  match Decimal.parseFloat t with
  | .ok y => y == x
  | .error _ => false

def rangeErr (t : List Char) : Bool :=
  match Decimal.parseFloat t with
  | .error .range => true
  | _ => false

/-- a literal from its parts; `lit "-" "1" (some "25") (some ("e", "-", "3"))` is `-1.25e-3` -/
def lit (sign : Option Bool) (ip : String) (fp : Option String) (ex : Option (Char × Option Bool × String)) : DecLit :=
  ⟨sign, ip.toList, fp.map String.toList, ex.map fun (m, s, ds) => (m, s, ds.toList)⟩

/-- "-1.25e-3" denotes −125/10^5 -/
def l1 : DecLit := lit (some true) "1" (some "25") (some ('e', some true, "3"))
example : l1.text = "-1.25e-3".toList ∧ l1.valNum = -125 ∧ l1.valDen = 100000 := by decide +kernel
example : l1.Valid := l1.valid_of_validB (by decide +kernel)

/-- the theorem instantiated on it (no evaluation): the result is the nearest double of −125/100000 and is negative -/
example : ∃ x, Decimal.parseFloat "-1.25e-3".toList = .ok x ∧ Nearest (-125) 100000 x ∧ x.signBit = true := by
  have h := parseFloat_ok l1 (l1.valid_of_validB (by decide +kernel)) (by decide +kernel)
  exact h

/-- 1e23 is not a double; the nearest one is 9.999999999999999e22 = 0x44B52D02C7E14AF6 (its upper neighbour is farther) -/
example : parsesTo "1e23".toList (b 0x44B52D02C7E14AF6) = true := by decide +kernel
/-- 2^53 + 1 → 2^53 (tie to even), 2^53 + 3 → 2^53 + 4 -/
example : parsesTo "9007199254740993".toList (b 0x4340000000000000) = true := by decide +kernel
example : parsesTo "9007199254740995".toList (b 0x4340000000000002) = true := by decide +kernel
example : F64.ofInt 9007199254740993 = b 0x4340000000000000 := by decide +kernel
example : F64.ofInt (-9007199254740995) = b 0xC340000000000002 := by decide +kernel
example : F64.ofInt 9223372036854775807 = b 0x43E0000000000000 := by decide +kernel   -- MaxInt64 → 2^63
/-- 0.1, -0, 1e-400 (→ +0), -1e-400 (→ −0) -/
example : parsesTo "0.1".toList (b 0x3FB999999999999A) = true := by decide +kernel
example : parsesTo "-0".toList (b 0x8000000000000000) = true := by decide +kernel
example : parsesTo "1e-400".toList (b 0) = true := by decide +kernel
example : parsesTo "-1e-400".toList (b 0x8000000000000000) = true := by decide +kernel
/-- around 2^-1075 = 2.470328229206232720882843964341106861825…e-324: below → 0, above → 5e-324 -/
example : parsesTo "2.4703282292062327e-324".toList (b 0) = true := by decide +kernel
example : parsesTo "2.4703282292062328e-324".toList (b 1) = true := by decide +kernel
/-- the overflow threshold 2^1024 − 2^970 written out in decimal (309 digits, `179769313486231580793…497792`) is the range
    error; one less is MaxFloat64 -/
example : (Decimal.formatNat (2 ^ 1024 - 2 ^ 970)).length = 309 ∧
    (Decimal.formatNat (2 ^ 1024 - 2 ^ 970)).take 21 = "179769313486231580793".toList := by decide +kernel
example : rangeErr (Decimal.formatNat (2 ^ 1024 - 2 ^ 970)) = true := by decide +kernel
example : parsesTo (Decimal.formatNat (2 ^ 1024 - 2 ^ 970 - 1)) (b 0x7FEFFFFFFFFFFFFF) = true := by decide +kernel
example : rangeErr "1e309".toList = true := by decide +kernel

/-- **finding F-ParseFloat800** — `1` followed by 800 zeros and `e-800` denotes 1; the model returns 1.0.  Go 1.23.5's
    `strconv.ParseFloat` returns 0.1 for this text (and so does the library for `"…".double()`, for the JSON number and
    for the path literal). -/
def longText : List Char := '1' :: (List.replicate 800 '0' ++ "e-800".toList)
theorem long_integer_part : parsesTo longText (b 0x3FF0000000000000) = true := by decide +kernel

end Examples

end Sqljson.C16c
